(* The driver of the Footnote inline phase (model/FootnoteParseInline.v) over the state invariant
   SInv of the core: footnote_parse, ip_parseF, try_inlineF, scan_lineF, parse_block_loopF and
   parse_blockF are total.  Port of proofs/ParseInlineTotalDrive.v (template: GfmWfTotInlDrive.v);
   all per-parser lemmas of the core are reused. *)
Require Import GM.model.Base GM.model.Util GM.model.Reader GM.model.ReaderSpec GM.model.ListItem GM.model.LeafBlocks
               GM.model.CodeSpan GM.model.LinkDest GM.model.Regex GM.model.Delim GM.model.BlockParse GM.model.Html GM.model.InlineParse
               GM.model.FootnoteX GM.model.FootnoteParseBlock GM.model.FootnoteParseInline.
Require Import GM.proofs.MiscProofs GM.proofs.BReaderProofs GM.proofs.BlockRangeProofs GM.proofs.RegexProofs GM.proofs.ParseInv.
Require Import GM.proofs.ParseInlineTotalHeap GM.proofs.ParseInlineTotalDelim GM.proofs.ParseInlineTotalEmph
               GM.proofs.ParseInlineTotalLabel GM.proofs.ParseInlineTotalCtx GM.proofs.ParseInlineTotalTree
               GM.proofs.ParseInlineTotalReader GM.proofs.ParseInlineTotalReader2 GM.proofs.ParseInlineTotalParsers
               GM.proofs.ParseInlineTotalLink GM.proofs.ParseInlineTotalDrive.
From Coq Require Import ZArith Lia List Arith Bool.
Import ListNotations.
Open Scope Z_scope.

(* ---------- util.FindClosure on a byte string: -1, or a position inside the string ---------- *)
Lemma fti_find_closure_plain_bound ptbl : forall fuel bs i o c, 0 <= i ->
  find_closure_plain ptbl fuel bs i o c = -1 \/ i <= find_closure_plain ptbl fuel bs i o c < i + zlen bs.
Proof.
  induction fuel as [|f IH]; intros bs i o c Hi; cbn [find_closure_plain]; [left; reflexivity|].
  destruct bs as [|b rest]; [left; reflexivity|]. rewrite zlen_cons. pose proof (zlen_nonneg rest) as Hr0.
  destruct rest as [|b2 rest2].
  - destruct (N.eqb b c); [right; lia|]. destruct (N.eqb b o); left; reflexivity.
  - rewrite zlen_cons in *. pose proof (zlen_nonneg rest2) as Hr.
    destruct (N.eqb b 92 && is_punct ptbl b2).
    + destruct (IH rest2 (i + 2) o c ltac:(lia)) as [E|E]; [left; exact E|right; lia].
    + destruct (N.eqb b c); [right; lia|]. destruct (N.eqb b o); [left; reflexivity|].
      destruct (IH (b2 :: rest2) (i + 1) o c ltac:(lia)) as [E|E]; [left; exact E|right; rewrite zlen_cons in E; lia].
Qed.

Lemma fti_find_closure_bytes_range ptbl bs o c : -1 <= find_closure_bytes ptbl bs o c < Z.max 0 (zlen bs).
Proof.
  unfold find_closure_bytes. pose proof (zlen_nonneg bs).
  destruct (fti_find_closure_plain_bound ptbl (S (length bs)) bs 0 o c ltac:(lia)) as [E|E].
  - rewrite E. destruct bs as [|b r].
    + cbn. lia.
    + rewrite zlen_cons in *. pose proof (zlen_nonneg r). lia.
  - lia.
Qed.

Section Drive.
Variable space_table punct_table : list N.
Variable norm : bytes -> bytes.
Variable url_table email_table : list N.
Variable re_email_domain re_open_tag re_close_tag : re.
Variable punct_rune space_rune : N -> bool.
Variable refs : list (bytes * (bytes * option bytes)).
Variable src : bytes.
Variable segs : list seg.
Variable first : seg.
Hypothesis Hfirst : hd_error segs = Some first.
Hypothesis Hopen : re_nonempty re_open_tag = true.
Hypothesis Hclose : re_nonempty re_close_tag = true.

Notation lo := (s_start first).
Notation CInv := (CInv src lo).
Notation RI := (RI src segs).
Notation KOK := (KOK src lo).
Notation KOKh := (KOKh src lo).
Notation SInv := (SInv src segs first).
Notation PPost := (PPost src segs first).
Notation Bnd := (Bnd src).
Notation TryPost := (TryPost src segs first).
Notation IPF := (ip_parseF space_table punct_table norm url_table email_table re_email_domain re_open_tag re_close_tag
                   punct_rune space_rune refs).
Notation TRY := (try_inlineF space_table punct_table norm url_table email_table re_email_domain re_open_tag re_close_tag
                   punct_rune space_rune refs).
Notation SCAN := (scan_lineF space_table punct_table norm url_table email_table re_email_domain re_open_tag re_close_tag
                    punct_rune space_rune refs).
Notation LOOP := (parse_block_loopF space_table punct_table norm url_table email_table re_email_domain re_open_tag re_close_tag
                    punct_rune space_rune refs).

(* ---------- footnoteParser.Parse ---------- *)
Lemma footnote_parse_spec x dl ll : SInv (fi_s x) dl ll -> b_in_range (t_r (fi_s x)) = true ->
  exists x' res, footnote_parse punct_table x 0%nat = Ok (x', res) /\ PPost (fi_s x) (fi_s x') res.
Proof.
  intros Iv Hin. set (s := fi_s x) in *. pose proof Iv as [C R B]. unfold footnote_parse. fold s.
  rewrite (ri_peek_line src segs _ R). cbn [bind]. rewrite Hin. cbn [line_of].
  destruct (ri_view src segs _ R Hin) as (_ & Elen & Hrange & Hstop & tl & Er).
  cbn [fist_s fi_s fi_f ist_r t_c t_r].
  set (line := b_view (t_r s)) in *.
  assert (Hnone : forall f, exists x' res, Ok ({| fi_s := {| t_c := t_c s; t_r := t_r s |}; fi_f := f |}, @None nat) = Ok (x', res) /\ PPost s (fi_s x') res).
  { intros f. eexists _, None. split; [reflexivity|]. cbn [fi_s]. apply (PPost_none_r _ _ _ _ dl ll). exact Iv. }
  set (bang := match line with c :: _ => N.eqb c 33 | [] => false end).
  set (pos := if bang then 2 else 1).
  assert (Hpos : 1 <= pos <= 2) by (unfold pos; destruct bang; lia).
  destruct (_ || _)%bool; [apply Hnone|].
  destruct (Z.leb_spec (zlen line) (pos + 1)) as [_|Hlen]; [apply Hnone|].
  set (closure := find_closure_bytes punct_table (zskip (pos + 1) line) 91%N 93%N).
  destruct (Z.ltb_spec closure 0) as [_|Hcl]; [apply Hnone|].
  pose proof (fti_find_closure_bytes_range punct_table (zskip (pos + 1) line) 91%N 93%N) as Hcb. fold closure in Hcb.
  rewrite br_zlen_zskip in Hcb.
  assert (Hcl2 : closure < zlen line - (pos + 1)) by lia. clear Hcb.
  destruct (ri_b_value src segs (t_r s) (mkseg (s_start (b_pos (t_r s)) + (pos + 1)) (s_start (b_pos (t_r s)) + (pos + 1 + closure)))
              first R Hfirst) as [v Ev].
  { cbn [mkseg s_start]. pose proof (ri_first_le src segs _ first R Hfirst Hin). lia. }
  { cbn [mkseg s_start s_stop]. lia. }
  rewrite Ev. cbn [bind].
  destruct (ri_advance_rle src segs (t_r s) (pos + 1 + closure + 1) R) as (r1 & E1 & HR1 & Hle1 & Hrest1 & _).
  { rewrite Er, zlen_app. pose proof (zlen_nonneg tl). lia. }
  rewrite E1. cbn [bind]. cbn [fist_s fi_s fi_f ist_r t_c t_r].
  assert (Hnone1 : forall f, exists x' res, Ok ({| fi_s := {| t_c := t_c s; t_r := r1 |}; fi_f := f |}, @None nat) = Ok (x', res) /\ PPost s (fi_s x') res).
  { intros f. eexists _, None. split; [reflexivity|]. cbn [fi_s]. exact (PPost_none_reader src segs first s dl ll r1 Iv HR1). }
  destruct (fs_defs (fi_f x)) as [defs|]; [|apply Hnone1].
  destruct (assign defs (fs_count (fi_f x)) v) as [[defs' count'] [index|]]; [|apply Hnone1].
  set (k := IFootnoteLink (zlen (fs_links (fi_f x)))).
  assert (Kk : KOK k) by exact Logic.I.
  rewrite new_inode_eq.
  destruct line as [|c0 lt] eqn:El; [change (zlen (@nil N)) with 0 in Hlen; lia|].
  assert (Hlt : zlen (b_rest r1) < zlen (b_rest (t_r s))) by lia.
  destruct (N.eqb c0 33).
  2:{ cbn [bind]. eexists _, (Some _). split; [reflexivity|]. cbn [fi_s].
      apply (PPost_fresh src segs first s dl ll k r1 Iv Kk eq_refl eq_refl HR1 Hle1 Hlt). }
  (* "![^label]": the '!' becomes a text node of the block *)
  set (h0 := i_h (t_c s)). set (c1 := cx_h (t_c s) (h0 ++ [fresh k])).
  assert (C1 : CInv c1 dl ll) by (apply (CInv_snoc src first norm (t_c s) dl ll k C Kk); reflexivity).
  rewrite new_inode_eq.
  set (kt := mk_text (mkseg (s_start (b_pos (t_r s))) (s_start (b_pos (t_r s)) + 1))).
  assert (Kt : KOK kt).
  { cbn. intros _. unfold seg_in. cbn [mkseg s_start s_stop]. lia. }
  pose proof (ci_d _ _ _ _ _ C1) as [W1 K1 A1 D1].
  destruct (fresh_append_spec src lo c1 0%nat kt W1 K1 A1 (w_len _ W1) Kt eq_refl eq_refl) as (h3 & E3 & _ & _ & _ & _ & L3 & _).
  destruct (CInv_fresh_root src first c1 dl ll kt C1 Kt eq_refl eq_refl) as (h3' & E3' & C3 & DS3).
  rewrite E3 in E3'. inversion E3'; subst h3'. clear E3'.
  change (i_h (cx_h c1 (i_h c1 ++ [fresh kt]))) with (i_h c1 ++ [fresh kt]). rewrite E3. cbn [bind].
  eexists _, (Some _). split; [reflexivity|]. cbn [fi_s].
  pose proof (ci_d _ _ _ _ _ C) as [W0 _ _ _]. pose proof (w_len _ W0) as Hpos0. fold h0 in Hpos0.
  assert (Ln : length (i_h c1) = S (length h0)) by (unfold c1; cbn [i_h cx_h]; rewrite app_length; cbn [length]; lia).
  assert (Kn : kd (i_h c1) (length h0) = Some k) by (unfold c1; cbn [i_h cx_h]; apply kd_snoc_new).
  assert (Hnd : ~ isdk h3 (length h0)).
  { intros (k' & Ek' & Hd'). assert (X : dv h3 (length h0) = Some k') by (apply dv_some; auto).
    rewrite (proj1 DS3) in X. apply dv_some in X. destruct X as [X1 X2]. rewrite Kn in X1. inversion X1; subst k'. discriminate. }
  assert (Hnl : ~ islk h3 (length h0)).
  { intros (k' & Ek' & Hl'). assert (X : lv h3 (length h0) = Some k') by (apply lv_some; auto).
    rewrite (proj2 DS3) in X. apply lv_some in X. destruct X as [X1 X2]. rewrite Kn in X1. inversion X1; subst k'. discriminate. }
  destruct (CInv_append_root src lo (cx_h c1 h3) dl ll (length h0) C3) as (h4 & E4 & C4 & SK4 & _); cbn [i_h cx_h]; try assumption; try lia.
  exists dl, ll, h4. cbn [t_c t_r ist_c i_h cx_h]. split; [exact E4|]. split; [|exact Hlt].
  constructor; cbn [t_c t_r ist_c].
  - exact C4.
  - exact HR1.
  - eapply Bnd_rle; [|exact Hle1]. eapply (Bnd_dl_same src (t_c s)); [|exact B]. cbn [i_h cx_h].
    eapply dl_same_trans; [apply (dl_same_snoc h0 k); reflexivity|].
    eapply dl_same_trans; [exact DS3|]. apply dl_same_kinds. exact SK4.
Qed.

(* ---------- ip_parseF ---------- *)
Lemma ip_parseF_spec p x dl ll : SInv (fi_s x) dl ll -> b_in_range (t_r (fi_s x)) = true ->
  (p = FIn IPCodeSpan -> hd 255%N (b_view (t_r (fi_s x))) = 96%N) ->
  exists x' res, IPF p x 0%nat = Ok (x', res) /\ PPost (fi_s x) (fi_s x') res.
Proof.
  intros Iv Hin Hcs. destruct p as [p|]; cbn [ip_parseF].
  - destruct (ip_parse_spec space_table punct_table norm url_table email_table re_email_domain re_open_tag re_close_tag
                punct_rune space_rune refs src segs first Hopen Hclose
                (link_parse_spec src segs first Hfirst space_table punct_table norm refs) p (fi_s x) dl ll Iv Hin)
      as (s' & res & E & P).
    { intros X. apply Hcs. rewrite X. reflexivity. }
    rewrite E. cbn [bind fst snd]. eexists _, _. split; [reflexivity|]. exact P.
  - apply (footnote_parse_spec x dl ll); assumption.
Qed.

(* ---------- try_inlineF: the parsers in turn, the reader reset after each failure ---------- *)
Lemma try_inlineF_spec r0 : RI r0 -> forall ips x dl ll, SInv (fi_s x) dl ll -> b_in_range (t_r (fi_s x)) = true ->
  b_line (t_r (fi_s x)) = b_line r0 -> b_pos (t_r (fi_s x)) = b_pos r0 ->
  (In (FIn IPCodeSpan) ips -> hd 255%N (b_view (t_r (fi_s x))) = 96%N) ->
  exists x' res, TRY ips x 0%nat (b_line r0) (b_pos r0) = Ok (x', res) /\ TryPost r0 (fi_s x) (fi_s x') res.
Proof.
  intros HR0. induction ips as [|p rest IH]; intros x dl ll Iv Hin El Ep Hcs; cbn [try_inlineF].
  - exists x, None. split; [reflexivity|]. exists dl, ll. auto.
  - destruct (ip_parseF_spec p x dl ll Iv Hin) as (x1 & res1 & E1 & P1).
    { intros X. apply Hcs. left. exact X. }
    rewrite E1. cbn [bind]. destruct res1 as [nd|].
    + exists x1, (Some nd). split; [reflexivity|exact P1].
    + destruct P1 as (dl1 & ll1 & C1 & R1 & B1). pose proof Iv as [C R B].
      destruct (ri_set_position src segs (t_r (fi_s x1)) r0 R1 HR0 (segs_nonempty src segs _ R Hin)) as (r2 & E2 & HR2 & L2 & P2).
      rewrite E2. cbn [bind].
      destruct (ri_same_pos src segs r2 (t_r (fi_s x)) HR2 R) as (In2 & V2 & Rest2); [congruence|congruence|].
      assert (Iv2 : SInv (ist_r (fi_s x1) r2) dl1 ll1).
      { constructor; cbn [ist_r t_c t_r]; [exact C1|exact HR2|].
        apply (Bnd_same_pos src segs (t_c (fi_s x1)) dl1 ll1 (t_r (fi_s x)) r2 R HR2); [congruence|congruence|exact B1]. }
      destruct (IH (fist_s x1 (ist_r (fi_s x1) r2)) dl1 ll1 Iv2) as (x' & res & E' & P'); cbn [fist_s fi_s ist_r t_r].
      * rewrite In2. exact Hin.
      * exact L2.
      * exact P2.
      * intros X. rewrite V2. apply Hcs. right. exact X.
      * exists x', res. split; [exact E'|]. destruct res as [nd|]; [|exact P'].
        destruct P' as (dl' & ll' & h'' & Ea & Iv' & Hlt). exists dl', ll', h''. split; [exact Ea|]. split; [exact Iv'|].
        cbn [fist_s fi_s ist_r t_r] in Hlt. rewrite Rest2 in Hlt. exact Hlt.
Qed.

(* ---------- scan_lineF ---------- *)
Definition ScanPostF (line : bytes) (l : Z) (s : ist) (out : (fist * bool) + (fist * Z * seg)) : Prop :=
  match out with
  | inl (x', _) => exists dl' ll', SInv (fi_s x') dl' ll' /\ zlen (b_rest (t_r (fi_s x'))) < zlen (b_rest (t_r s))
  | inr (x', n', sp') => exists dl' ll' i', SInv (fi_s x') dl' ll' /\ ScanI line l i' n' sp' (fi_s x') /\
      zlen (b_rest (t_r (fi_s x'))) <= zlen (b_rest (t_r s))
  end.

(* advancing over the pending text, inside the line *)
Lemma scan_advanceF line l i n start_pos s dl ll c tl : SInv s dl ll -> ScanI line l i n start_pos s ->
  zskip i line = c :: tl ->
  exists rd, b_advance (t_r s) n = Ok rd /\ SInv (ist_r s rd) dl ll /\ b_in_range rd = true /\ b_line rd = l /\
    s_start (b_pos rd) = s_start (b_pos (t_r s)) + n /\ s_stop (b_pos rd) = s_stop (b_pos (t_r s)) /\
    b_view rd = c :: tl /\ zlen (b_rest rd) <= zlen (b_rest (t_r s)).
Proof.
  intros [C R B] [I1 I2 I3 I4 I5 I6 I7 I8] Ez.
  assert (Hi : i < zlen line) by (eapply drv_zskip_cons_lt; [lia|exact Ez]).
  assert (Hv : zlen (b_view (t_r s)) = zlen line - (i - n)) by (rewrite I5, br_zlen_zskip; lia).
  destruct (ri_view src segs _ R I3) as (_ & _ & _ & _ & tl0 & Er).
  destruct (ri_advance_rle src segs (t_r s) n R) as (r1 & E1 & _ & Hle1 & _).
  { rewrite Er, zlen_app. pose proof (zlen_nonneg tl0). lia. }
  destruct (ri_advance_in src segs (t_r s) n R I3) as (rd & E & HRd & Hin & Hl & Hs & He & Hvw & _); [lia|].
  rewrite E1 in E. inversion E; subst r1. clear E.
  exists rd. split; [exact E1|]. split.
  { constructor; cbn [ist_r t_c t_r]; [exact C|exact HRd|eapply Bnd_rle; eassumption]. }
  split; [exact Hin|]. split; [congruence|]. split; [exact Hs|]. split; [exact He|]. split; [|exact (proj1 Hle1)].
  rewrite Hvw, I5, drv_skipn_zskip by lia. replace (i - n + n) with i by lia. exact Ez.
Qed.

Lemma inline_parsersF_codespan c : In (FIn IPCodeSpan) (inline_parsersF c) -> c = 96%N.
Proof.
  unfold inline_parsersF. destruct (_ || _)%bool.
  - intros [X|[X|[]]]; discriminate.
  - intros X. apply in_map_iff in X. destruct X as (p & Ep & Hp). inversion Ep; subst p.
    apply inline_parsers_codespan. exact Hp.
Qed.

Lemma scan_lineF_spec : forall fuel line i line_length n escaped start_pos x l dl ll,
  SInv (fi_s x) dl ll -> ScanI line l i n start_pos (fi_s x) -> (Z.to_nat (zlen line - i) + 1 <= fuel)%nat ->
  exists out, SCAN fuel line i line_length n escaped start_pos x 0%nat = Ok out /\ ScanPostF line l (fi_s x) out.
Proof.
  induction fuel as [|f IH]; intros line i line_length n escaped start_pos x l dl ll Iv Hinv Hf; [lia|].
  cbn [scan_lineF]. set (s := fi_s x) in *.
  assert (Hstop : exists out, Ok (inr (x, n, start_pos)) = Ok out /\ ScanPostF line l s out).
  { eexists. split; [reflexivity|]. exists dl, ll, i. split; [exact Iv|]. split; [exact Hinv|fold s; lia]. }
  destruct (line_length <=? i); [exact Hstop|].
  destruct (zskip i line) as [|c tl] eqn:Ez; [exact Hstop|].
  destruct (N.eqb c 10); [exact Hstop|].
  assert (Hi : i < zlen line) by (eapply drv_zskip_cons_lt; [destruct Hinv; lia|exact Ez]).
  match goal with |- context [match ?IPS with [] => _ | _ :: _ => _ end] => set (ips := IPS) end.
  assert (Hips : In (FIn IPCodeSpan) ips -> c = 96%N).
  { unfold ips. match goal with |- In _ (if ?b then _ else _) -> _ => destruct b end; [|intros []].
    intros X. apply inline_parsersF_codespan in X.
    match type of X with (if ?b then _ else _) = _ => destruct b end; [discriminate|exact X]. }
  clearbody ips.
  (* the consultation of the inline parsers *)
  match goal with |- exists out, (r <- ?X ;; _) = Ok out /\ _ =>
    assert (Hr : exists r, X = Ok r /\
              match r with
              | inl x' => exists dl' ll', SInv (fi_s x') dl' ll' /\ zlen (b_rest (t_r (fi_s x'))) < zlen (b_rest (t_r s))
              | inr (x', n', sp') => exists dl' ll', SInv (fi_s x') dl' ll' /\ ScanI line l i n' sp' (fi_s x') /\
                  zlen (b_rest (t_r (fi_s x'))) <= zlen (b_rest (t_r s))
              end) end.
  { destruct ips as [|ip0 ips0].
    { eexists. split; [reflexivity|]. exists dl, ll. split; [exact Iv|]. split; [exact Hinv|fold s; lia]. }
    destruct (scan_advanceF line l i n start_pos s dl ll c tl Iv Hinv Ez) as (rd & Ea & Iv1 & Hin1 & Hl1 & Hs1 & He1 & Hv1 & Hrest1).
    rewrite Ea. cbn [bind]. cbn [ist_r t_c t_r].
    pose proof Hinv as [I1 I2 I3 I4 I5 I6 I7 I8].
    pose proof Iv1 as [_ HRd _]. cbn [ist_r t_r] in HRd.
    destruct (ri_view src segs rd HRd Hin1) as (_ & _ & Hrange1 & Hstop1 & _).
    (* the pending text *)
    match goal with |- exists r, (t <- ?X ;; _) = Ok r /\ _ =>
      assert (Ht : exists s1 sp1, X = Ok (s1, sp1) /\ SInv s1 dl ll /\ t_r s1 = rd /\
                s_start sp1 = s_start (b_pos rd) /\ s_stop sp1 = s_stop (b_pos rd) /\ s_pad sp1 = 0) end.
    { destruct (Z.eqb_spec i 0) as [Ei|Ei]; cbn [negb].
      - eexists _, _. split; [reflexivity|]. split; [exact Iv1|]. split; [reflexivity|]. split; [lia|]. split; [lia|exact I8].
      - unfold seg_between. replace (s_stop start_pos =? s_stop (b_pos rd)) with true by lia. cbn [bind].
        destruct (scan_flush src segs first (ist_r s rd) dl ll (mksegp (s_start start_pos) (s_start (b_pos rd)) (s_pad start_pos - s_pad (b_pos rd))) Iv1)
          as (c' & Em & Iv2).
        { unfold seg_in. cbn [mksegp s_start s_stop]. destruct (ri_view src segs _ (si_r _ _ _ _ _ _ Iv) I3) as (_ & _ & Hr0 & _). lia. }
        cbn [ist_r t_c] in Em. rewrite Em. cbn [bind]. eexists _, _. split; [reflexivity|]. split; [exact Iv2|].
        split; [reflexivity|]. split; [reflexivity|]. split; [reflexivity|]. destruct HRd as (_ & _ & _ & Hp & _). exact Hp. }
    destruct Ht as (s1 & sp1 & Et & Iv2 & Er1 & Hsp1 & Hsp2 & Hsp3). rewrite Et. cbn [bind].
    destruct (try_inlineF_spec rd HRd (ip0 :: ips0) (fist_s x s1) dl ll Iv2) as (x2 & node & Etry & Ptry); cbn [fist_s fi_s].
    { rewrite Er1. exact Hin1. }
    { rewrite Er1. reflexivity. }
    { rewrite Er1. reflexivity. }
    { intros X. rewrite Er1, Hv1. cbn [hd]. apply Hips. exact X. }
    rewrite Etry. cbn [bind]. cbn [fist_s fi_s] in Ptry. destruct node as [nd|]; cbn [ParseInlineTotalDrive.TryPost] in Ptry.
    - destruct Ptry as (dl' & ll' & h'' & Eap & Iv3 & Hlt). rewrite Eap. cbn [bind].
      eexists. split; [reflexivity|]. exists dl', ll'. cbn [fist_s fi_s]. split; [exact Iv3|]. cbn [ist_c t_r]. rewrite Er1 in Hlt. lia.
    - destruct Ptry as (dl' & ll' & Iv3 & Pl & Pp). eexists. split; [reflexivity|]. exists dl', ll'. split; [exact Iv3|].
      destruct (ri_same_pos src segs (t_r (fi_s x2)) rd (si_r _ _ _ _ _ _ Iv3) HRd Pl Pp) as (In3 & V3 & Rest3).
      split; [|rewrite Rest3; exact Hrest1].
      constructor; rewrite ?Pl, ?Pp, ?In3, ?V3; try lia; try assumption.
      replace (i - 0) with i by lia. rewrite Hv1. symmetry. exact Ez. }
  destruct Hr as (r & Er & Pr). rewrite Er. cbn [bind].
  destruct r as [x1|[[x1 n1] sp1]].
  - eexists. split; [reflexivity|]. exact Pr.
  - destruct Pr as (dl1 & ll1 & Iv1 & Hinv1 & Hrest1).
    assert (Hnext : forall esc, exists out, SCAN f line (i + 1) line_length (n1 + 1) esc sp1 x1 0%nat = Ok out /\ ScanPostF line l s out).
    { intros esc.
      assert (Hi1 : ScanI line l (i + 1) (n1 + 1) sp1 (fi_s x1)).
      { destruct Hinv1 as [I1 I2 I3 I4 I5 I6 I7 I8]. constructor; try lia; try assumption.
        replace (i + 1 - (n1 + 1)) with (i - n1) by lia. exact I5. }
      destruct (IH line (i + 1) line_length (n1 + 1) esc sp1 x1 l dl1 ll1 Iv1 Hi1) as (out & Eo & Po); [lia|].
      exists out. split; [exact Eo|]. destruct out as [[x' e']|[[x' n'] sp']]; cbn [ScanPostF] in Po |- *.
      - destruct Po as (dl' & ll' & Iv' & Hlt). exists dl', ll'. split; [exact Iv'|lia].
      - destruct Po as (dl' & ll' & i' & Iv' & Hinv' & Hle). exists dl', ll', i'. split; [exact Iv'|]. split; [exact Hinv'|lia]. }
    destruct escaped; [apply Hnext|]. destruct (N.eqb c 92); apply Hnext.
Qed.

(* ---------- parseBlock: the loop over the lines ---------- *)
Lemma parse_block_loopF_spec : forall fuel x escaped dl ll, SInv (fi_s x) dl ll ->
  (Z.to_nat (zlen (b_rest (t_r (fi_s x)))) + 1 <= fuel)%nat ->
  exists x' dl' ll', LOOP fuel x 0%nat escaped = Ok x' /\ SInv (fi_s x') dl' ll'.
Proof.
  induction fuel as [|f IH]; intros x escaped dl ll Iv Hf; [lia|].
  cbn [parse_block_loopF]. set (s := fi_s x) in *. pose proof Iv as [C R B].
  rewrite (ri_peek_line src segs _ R). cbn [bind].
  destruct (b_in_range (t_r s)) eqn:Hin.
  2:{ eexists _, dl, ll. split; [reflexivity|]. cbn [fist_s fi_s]. apply SInv_ist_r_same. exact Iv. }
  set (line := b_view (t_r s)).
  match goal with |- context [match ?X with pair _ _ => _ end] =>
    match type of X with (Z * bool * bool * bool)%type => destruct X as [[[line_length hard] visible] soft] end end.
  cbn [fist_s fi_s fi_f ist_r t_c t_r].
  destruct (ri_view src segs _ R Hin) as (_ & Elen & Hrange & Hstop & tl0 & Erest).
  change (fist_s x (ist_r s (t_r s))) with {| fi_s := {| t_c := t_c s; t_r := t_r s |}; fi_f := fi_f x |}.
  set (x0 := {| fi_s := {| t_c := t_c s; t_r := t_r s |}; fi_f := fi_f x |}).
  assert (Iv0 : SInv (fi_s x0) dl ll) by (exact (SInv_ist_r_same src segs first s dl ll Iv)).
  assert (Hinv0 : ScanI line (b_line (t_r s)) 0 0 (b_pos (t_r s)) (fi_s x0)).
  { pose proof (zlen_nonneg line). constructor; cbn [x0 fi_s t_r]; try lia; try reflexivity; try assumption.
    destruct R as (_ & _ & _ & Hp & _). exact Hp. }
  destruct (scan_lineF_spec (S (length line)) line 0 line_length 0 escaped (b_pos (t_r s)) x0 (b_line (t_r s)) dl ll Iv0 Hinv0)
    as (out & Esc & Pout); [unfold zlen; lia|].
  rewrite Esc. cbn [bind].
  pose proof (zlen_nonneg (b_rest (t_r s))) as Hnn.
  destruct out as [[x1 esc]|[[x1 n] sp]]; cbn [ScanPostF x0 fi_s t_r] in Pout.
  - destruct Pout as (dl1 & ll1 & Iv1 & Hlt). pose proof (zlen_nonneg (b_rest (t_r (fi_s x1)))).
    apply (IH x1 esc dl1 ll1 Iv1). lia.
  - destruct Pout as (dl1 & ll1 & i' & Iv1 & [I1 I2 I3 I4 I5 I6 I7 I8] & Hle). set (s1 := fi_s x1) in *. pose proof Iv1 as [C1 R1 B1].
    destruct (ri_view src segs _ R1 I3) as (_ & Elen1 & Hrange1 & Hstop1 & tl1 & Erest1).
    assert (Hv1 : zlen (b_view (t_r s1)) = zlen line - (i' - n)) by (rewrite I5, br_zlen_zskip; lia).
    match goal with |- exists x' dl' ll', (r <- ?X ;; _) = Ok x' /\ _ =>
      assert (Hr2 : exists r2, X = Ok r2 /\ RI r2 /\ rle (t_r s1) r2 /\
                (n <> 0 -> zlen (b_rest r2) < zlen (b_rest (t_r s1))) /\ (n = 0 -> r2 = t_r s1)) end.
    { destruct (Z.eqb_spec n 0) as [En|En]; cbn [negb].
      - exists (t_r s1). split; [reflexivity|]. split; [exact R1|]. split; [apply rle_refl|]. split; [lia|reflexivity].
      - destruct (ri_advance_rle src segs (t_r s1) n R1) as (r2 & E2 & HR2 & Hle2 & Hrest2 & _).
        { rewrite Erest1, zlen_app. pose proof (zlen_nonneg tl1). lia. }
        exists r2. split; [exact E2|]. split; [exact HR2|]. split; [exact Hle2|]. split; [lia|lia]. }
    destruct Hr2 as (r2 & E2 & HR2 & Hle2 & Hlt2 & Heq2). rewrite E2. cbn [bind]. cbn [fist_s fi_s fi_f ist_r t_c t_r].
    pose proof (zlen_nonneg (b_rest r2)) as Hnn2.
    assert (Iv2 : SInv (ist_r s1 r2) dl1 ll1).
    { constructor; cbn [ist_r t_c t_r]; [exact C1|exact HR2|eapply Bnd_rle; eassumption]. }
    destruct (Z.eqb_spec (b_line (t_r s)) (b_line r2)) as [Eline|Eline]; cbn [negb].
    2:{ apply (IH _ false dl1 ll1); cbn [fist_s fi_s]; [exact Iv2|]. cbn [ist_r t_r].
        assert (n <> 0) by (intros X; apply Eline; rewrite (Heq2 X); symmetry; exact I4).
        specialize (Hlt2 H). lia. }
    (* same line: the rest of the line becomes a text node *)
    destruct (same_line_stop re_open_tag re_close_tag src segs Hopen Hclose (t_r s1) r2 R1 HR2 I3) as [Hst2 Hsa2]; [congruence|].
    unfold seg_between. replace (s_stop sp =? s_stop (b_pos r2)) with true by lia. cbn [bind].
    set (diff := mksegp (s_start sp) (s_start (b_pos r2)) (s_pad sp - s_pad (b_pos r2))).
    assert (Hdiff : seg_in src diff).
    { unfold seg_in, diff. cbn [mksegp s_start s_stop]. destruct Hle2 as [_ Hle2]. lia. }
    destruct (loop_tail_text space_table re_open_tag re_close_tag src segs first Hopen Hclose (ist_r s1 r2) dl1 ll1 diff hard visible Iv2 Hdiff)
      as (c3 & tseg & Et & Iv3 & Htseg).
    cbn [ist_r t_c t_r] in Et. rewrite Et. cbn [bind]. rewrite new_inode_eq. cbn [i_h cx_h].
    pose proof Iv3 as [C3 _ B3]. cbn [ist_c ist_r t_c t_r] in C3, B3.
    destruct (CInv_fresh_root src first c3 dl1 ll1 (IText tseg soft hard false) C3) as (h4 & E4 & C4 & DS4);
      [cbn; intros _; exact Htseg|reflexivity|reflexivity|].
    rewrite E4. cbn [bind].
    destruct (ri_advance_line_rle src segs r2 HR2) as (r3 & E3 & HR3 & Hle3 & _ & Hrest3).
    rewrite E3. cbn [bind].
    apply (IH _ false dl1 ll1); cbn [fist_s fi_s].
    + constructor; cbn [t_c t_r].
      * exact C4.
      * exact HR3.
      * eapply Bnd_rle; [|exact Hle3]. eapply (Bnd_dl_same src c3); [|exact B3]. cbn [i_h cx_h]. exact DS4.
    + cbn [t_r]. pose proof (zlen_nonneg (b_rest r3)). destruct Hle3 as [Hle3 _].
      destruct (Z.eq_dec n 0) as [En|En].
      * rewrite (Heq2 En) in *. rewrite (Hrest3 I3) in *. lia.
      * specialize (Hlt2 En). lia.
Qed.

(* ---------- parseBlock ---------- *)
Notation PBF := (parse_blockF space_table punct_table norm url_table email_table re_email_domain re_open_tag re_close_tag
                   punct_rune space_rune refs).

Lemma parse_blockF_spec fs : segs_ok src segs -> Forall (fun s => s_pad s = 0) segs ->
  exists c fs', PBF fs src segs = Ok (c, fs') /\ HWF (i_h c) /\ KOKh (i_h c) /\ Acyc (i_h c).
Proof.
  intros Hok Hpad. unfold parse_blockF.
  destruct (new_block_reader_spec src segs Hok) as (r & E & HB & Es & Eg). rewrite E. cbn [bind].
  assert (HR : RI r).
  { split; [exact HB|]. split; [exact Es|]. split; [exact Eg|]. split; [|exact Hpad].
    destruct segs as [|a l]; [discriminate Hfirst|]. rewrite (new_block_reader_pos src a l r E).
    inversion Hpad; assumption. }
  set (x0 := {| fi_s := {| t_c := init_ictx; t_r := r |}; fi_f := fs |}).
  assert (Iv0 : SInv (fi_s x0) [] []).
  { constructor; cbn [x0 fi_s t_c t_r]; [apply cinv_init|exact HR|]. split.
    - change (sumlen (i_h init_ictx) []) with 0%nat. pose proof (ri_rest_le src segs r HR). lia.
    - intros y sg im p n f l []. }
  destruct (parse_block_loopF_spec (2 * length src + 2 * length segs + 8) x0 false [] [] Iv0)
    as (x1 & dl1 & ll1 & E1 & Iv1).
  { cbn [x0 fi_s t_r]. pose proof (ri_rest_le src segs r HR) as Hle. unfold zlen in *. lia. }
  rewrite E1. cbn [bind]. destruct Iv1 as [C1 R1 [B1 _]].
  pose proof (ci_d _ _ _ _ _ C1) as D1.
  destruct (process_delimiters_spec src lo (ifuel (fi_s x1)) (t_c (fi_s x1)) dl1 BNil D1 (ci_ap _ _ _ _ _ C1)) as (c2 & dl2 & E2 & D2 & _ & S2 & _).
  { unfold ifuel. destruct R1 as (_ & Es1 & _). rewrite Es1. pose proof (zlen_nonneg (b_rest (t_r (fi_s x1)))). unfold zlen in *. lia. }
  rewrite E2. cbn [bind].
  pose proof (LL_dstep _ _ _ (ci_ll _ _ _ _ _ C1) S2) as L2. destruct D2 as [W2 K2 A2 _].
  destruct (link_close_block_spec src lo c2 ll1 W2 K2 A2 L2) as (c3 & E3 & W3 & K3 & A3).
  rewrite E3. cbn [bind]. exists c3, (fi_f x1). auto.
Qed.

End Drive.
