(* Plain paragraphs: a paragraph made of words only is written on one line. *)
Require Import GM.model.Base GM.model.Util GM.model.SpecDoc.
Require Import GM.proofs.SpecParaBytes GM.proofs.SpecParaSpec.
From Coq Require Import List NArith ZArith Bool Lia.
Import ListNotations.
Open Scope N_scope.

Lemma words_plain ws : forall pb, forallb is_word_s ws = true -> (ws = [] -> pb = false) ->
  plain_atoms_s pb (map AWord ws) = true.
Proof.
  induction ws as [|w r IH]; intros pb Hw Hpb.
  - cbn [map plain_atoms_s]. rewrite (Hpb eq_refl). reflexivity.
  - cbn [forallb] in Hw. apply andb_true_iff in Hw. destruct Hw as [Hw Hr].
    cbn [map plain_atoms_s]. rewrite Hw. cbn [andb]. apply IH; [exact Hr|reflexivity].
Qed.
Lemma words_plain_para ws : ws <> [] -> forallb is_word_s ws = true -> plain_para_s (BPara 0 (map AWord ws)) = true.
Proof.
  intros Hne Hw. cbn [plain_para_s]. destruct ws as [|w r]; [congruence|].
  cbn [map]. change (AWord w :: map AWord r) with (map AWord (w :: r)). apply words_plain; [exact Hw|discriminate].
Qed.
Lemma words_one_line ws : forall cur, exists b, lines_of cur (map AWord ws) = [b].
Proof.
  induction ws as [|w r IH]; intros cur.
  - exists cur. reflexivity.
  - cbn [map lines_of]. apply IH.
Qed.

(* plain_para_shape with its witness *)
Lemma para_shape_lines a : plain_para_s (BPara 0 a) = true ->
  para_ok (lines_of [] a) = true /\ (forall fin, md_of false fin [BPara 0 a] = pdoc_src [lines_of [] a] fin) /\
  html_of [BPara 0 a] = pdoc_html [lines_of [] a].
Proof.
  intros H.
  destruct (plain_para_inv _ H) as (a' & Ea & Ha). injection Ea as <-.
  split; [exact (para_lines_ok a Ha)|].
  split.
  - intros fin. unfold md_of, pdoc_src. rewrite (doc_defs [BPara 0 a]); [|cbn [forallb]; rewrite H; reflexivity].
    rewrite app_nil_r. rewrite (doc_md [BPara 0 a]); [reflexivity|discriminate|cbn [forallb]; rewrite H; reflexivity].
  - apply (doc_html [BPara 0 a]). cbn [forallb]. rewrite H. reflexivity.
Qed.

Lemma words_shape ws : ws <> [] -> forallb is_word_s ws = true ->
  exists b, body_okb b = true /\ (forall fin, md_of false fin [BPara 0 (map AWord ws)] = pdoc_src [[b]] fin) /\
            html_of [BPara 0 (map AWord ws)] = pdoc_html [[b]].
Proof.
  intros Hne Hw. destruct (para_shape_lines _ (words_plain_para ws Hne Hw)) as (Hok & Hmd & Hhtml).
  destruct (words_one_line ws []) as [b Hb]. rewrite Hb in Hok, Hmd, Hhtml.
  exists b. split; [|split; assumption].
  unfold para_ok in Hok. cbn [is_nil negb forallb andb] in Hok. rewrite andb_true_r in Hok. exact Hok.
Qed.
