(* The driver of the inline phase with the typographer parser (model/TypoDefParseT.v) over the
   state invariant SInv: ip_parseT, try_inlineT, scan_lineT, parse_block_loopT, parse_blockT,
   itreeT and inline_childrenT are total.  Port of proofs/ParseInlineTotalDrive.v (along
   proofs/GfmWfTotInlDrive.v), over the forked reader invariant of proofs/TypoDefWfTotInlRd.v (the
   first line of the block may have padding).  The block whose only line has padding starts outside
   the invariant (the position has padding): its first loop iteration is treated apart
   (scan_lineT_pre, loop_first): no inline parser is registered on the blank, so the first Advance
   of the scan consumes the whole padding and every parser is called at a position without. *)
Require Import GM.model.Base GM.model.Util GM.model.Reader GM.model.ReaderSpec GM.model.ListItem GM.model.LeafBlocks
               GM.model.CodeSpan GM.model.LinkDest GM.model.Regex GM.model.Delim GM.model.BlockParse GM.model.Html GM.model.InlineParse
               GM.model.TypoDefParseT.
Require Import GM.proofs.MiscProofs GM.proofs.BReaderProofs GM.proofs.BlockRangeProofs GM.proofs.RegexProofs GM.proofs.ParseInv.
Require Import GM.proofs.ParseInlineTotalHeap GM.proofs.ParseInlineTotalDelim GM.proofs.ParseInlineTotalEmph
               GM.proofs.ParseInlineTotalLabel GM.proofs.ParseInlineTotalCtx GM.proofs.ParseInlineTotalTree
               GM.proofs.TypoDefWfTotInlRd GM.proofs.TypoDefWfTotInlRd2 GM.proofs.TypoDefWfTotInlPar
               GM.proofs.TypoDefWfTotInlLink.
Require Import GM.proofs.TypoDefWfTotInlTypo.
From Coq Require Import ZArith Lia List Arith Bool.
Import ListNotations.
Open Scope Z_scope.

(* ---------- generic list facts ---------- *)
Lemma tdrv_skipn_zskip {A} (l : list A) a n : 0 <= a -> 0 <= n -> skipn (Z.to_nat n) (zskip a l) = zskip (a + n) l.
Proof.
  intros Ha Hn. unfold zskip. rewrite skipn_skipn_add. f_equal. lia.
Qed.

Lemma tdrv_zskip_cons_lt {A} (l : list A) i c tl : 0 <= i -> zskip i l = c :: tl -> i < zlen l.
Proof.
  intros Hi E. pose proof (br_zlen_zskip i l) as Hz. rewrite E, zlen_cons in Hz. pose proof (zlen_nonneg tl). lia.
Qed.

(* ---------- the start of a block: reader and context ---------- *)
Lemma tnew_block_reader_pos src a l r : new_block_reader src (a :: l) = Ok r -> b_pos r = a /\ b_line r = 0.
Proof.
  unfold new_block_reader, b_reset_position. intros H.
  match type of H with (r <- ?X ;; _) = _ => destruct X as [r0| |] eqn:E0 end; cbn [bind] in H; try discriminate.
  assert (Hl : b_line r0 = -1 /\ b_segs r0 = a :: l).
  { unfold b_nsegs in E0. bsimpl. destruct (0 <? zlen (a :: l)).
    - destruct (seg_at (a :: l) (zlen (a :: l) - 1)); cbn [bind] in E0; try discriminate. inversion E0; subst r0. bsimpl. auto.
    - inversion E0; subst r0. bsimpl. auto. }
  destruct Hl as [Hl Hs].
  destruct (b_advance_line_pos r0 r H) as (Hln & _ & _ & [(_ & t & Ht & Et)|(Hge & _)]).
  - rewrite Hl, Hs in Ht. cbn in Ht. split; [congruence|lia].
  - rewrite Hl, Hs, zlen_cons in Hge. pose proof (zlen_nonneg l). lia.
Qed.

Lemma tlines_ok_segs src lines : lines_ok src lines -> segs_ok src lines /\ Forall (fun s => s_pad s = 0) lines.
Proof.
  intros [H1 H2]. rewrite forallb_forall in H1. split; [split|].
  - apply Forall_forall. intros s Hs. specialize (H1 s Hs). unfold seg_ok_b in H1. unfold seg_ok.
    destruct (s_fnl s); [rewrite andb_false_r in H1; discriminate|]. lia.
  - clear H1. induction lines as [|a t IH]; [exact I|]. destruct t as [|b t']; [exact I|].
    cbn [segs_sorted_b] in H2. apply andb_prop in H2. destruct H2 as [Ha Ht]. split; [lia|]. apply IH. exact Ht.
  - apply Forall_forall. intros s Hs. specialize (H1 s Hs). unfold seg_ok_b in H1. lia.
Qed.

Lemma tcinv_init src lo : CInv src lo init_ictx [] [].
Proof.
  assert (Hp : forall y, par (i_h init_ictx) y = None).
  { intros [|[|y]]; reflexivity. }
  assert (Hc : forall y, chl (i_h init_ictx) y = []).
  { intros [|[|y]]; reflexivity. }
  assert (Hk : forall y k, kd (i_h init_ictx) y = Some k -> k = IRoot).
  { intros [|[|y]] k E; cbn in E; congruence. }
  constructor.
  - constructor.
    + constructor.
      * intros x c. rewrite Hc, Hp. split; [intros []|discriminate].
      * intros x. rewrite Hc. constructor.
      * cbn. lia.
      * reflexivity.
    + intros y k E. rewrite (Hk y k E). exact Logic.I.
    + exists (fun _ => 0%nat). intros x p E. rewrite Hp in E. discriminate.
    + constructor.
      * constructor.
      * reflexivity.
      * reflexivity.
      * exact Logic.I.
      * intros d [].
      * intros y k E Hd. rewrite (Hk y k E) in Hd. discriminate.
  - intros d [].
  - constructor.
    + constructor.
    + reflexivity.
    + exact Logic.I.
    + intros hd E. discriminate.
    + intros d [].
    + intros y s im p n f l E. apply Hk in E. discriminate.
Qed.

Section Drive.
Variable typo : bool.
Variable space_table punct_table : list N.
Variable norm : bytes -> bytes.
Variable url_table email_table : list N.
Variable re_email_domain re_open_tag re_close_tag : re.
Variable punct_rune space_rune : N -> bool.
Variable uni_punct uni_space uni_digit uni_letter : N -> bool.
Variable refs : list (bytes * (bytes * option bytes)).
Variable src : bytes.
Variable segs : list seg.
Variable first : seg.
Hypothesis Hfirst : hd_error segs = Some first.
Hypothesis Hopen : re_nonempty re_open_tag = true.
Hypothesis Hclose : re_nonempty re_close_tag = true.

Notation lo := (s_start first).
Notation CInv := (CInv src lo).
Notation RI := (RI src segs).
Notation KOK := (KOK src lo).
Notation KOKh := (KOKh src lo).
Notation SInv := (SInv src segs first).
Notation PPost := (PPost src segs first).
Notation Bnd := (Bnd src).
Notation IP := (ip_parseT space_table punct_table norm url_table email_table re_email_domain re_open_tag re_close_tag
                  punct_rune space_rune uni_punct uni_space uni_digit uni_letter refs).
Notation TRY := (try_inlineT space_table punct_table norm url_table email_table re_email_domain re_open_tag re_close_tag
                   punct_rune space_rune uni_punct uni_space uni_digit uni_letter refs).
Notation SCAN := (scan_lineT typo space_table punct_table norm url_table email_table re_email_domain re_open_tag re_close_tag
                    punct_rune space_rune uni_punct uni_space uni_digit uni_letter refs).
Notation LOOP := (parse_block_loopT typo space_table punct_table norm url_table email_table re_email_domain re_open_tag re_close_tag
                    punct_rune space_rune uni_punct uni_space uni_digit uni_letter refs).

(* ---------- the potentials under a tree step ---------- *)
Lemma tBnd_dl_same c c' dl ll r : dl_same (i_h c) (i_h c') -> Bnd c dl ll r -> Bnd c' dl ll r.
Proof.
  intros [DV LV] [B1 B2]. split.
  - rewrite (sumlen_frame (i_h c) (i_h c')) by (intros y _; apply dcoreh_dv; exact DV). exact B1.
  - eapply lab_le_lv; [exact LV|exact B2].
Qed.

(* ---------- ip_parseT ---------- *)
Lemma ip_parseT_spec p x dl ll : SInv (ts_s x) dl ll -> b_in_range (t_r (ts_s x)) = true ->
  (p = TCore IPCodeSpan -> hd 255%N (b_view (t_r (ts_s x))) = 96%N) ->
  exists x' res, IP p x 0%nat = Ok (x', res) /\ PPost (ts_s x) (ts_s x') res.
Proof.
  intros Iv Hin Hcs. destruct p as [q|]; cbn [ip_parseT].
  - assert (Hq : exists s' res, ip_parse space_table punct_table norm url_table email_table re_email_domain re_open_tag re_close_tag
                                  punct_rune space_rune refs q (ts_s x) 0%nat = Ok (s', res) /\ PPost (ts_s x) s' res).
    { destruct q; cbn [ip_parse].
      - apply (code_span_parse_s_spec src segs first re_open_tag re_close_tag Hopen Hclose space_table (ts_s x) dl ll Iv Hin). apply Hcs. reflexivity.
      - apply (link_parse_spec src segs first Hfirst space_table punct_table norm refs (ts_s x) dl ll Iv Hin).
      - apply (autolink_parse_spec src segs first punct_rune space_rune url_table email_table re_email_domain (ts_s x) dl ll Iv Hin).
      - apply (raw_html_parse_spec src segs first re_open_tag re_close_tag Hopen Hclose (ts_s x) dl ll Iv Hin).
      - apply (emphasis_parse_spec src segs first punct_rune space_rune (ts_s x) dl ll Iv Hin). }
    destruct Hq as (s' & res & E & P). rewrite E. cbn [bind fst snd]. eexists _, _. split; [reflexivity|]. exact P.
  - exact (typo_parse_spec src segs first space_table punct_table punct_rune space_rune uni_punct uni_space uni_digit uni_letter
             x dl ll Iv Hin).
Qed.

(* ---------- try_inlineT: the parsers in turn, the reader reset after each failure ---------- *)
Definition TryPost (r0 : breader) (s s' : ist) (res : option nat) : Prop :=
  match res with
  | Some nd => PPost s s' (Some nd)
  | None => exists dl' ll', SInv s' dl' ll' /\ b_line (t_r s') = b_line r0 /\ b_pos (t_r s') = b_pos r0
  end.

Lemma try_inlineT_spec r0 : RI r0 -> forall ips x dl ll, SInv (ts_s x) dl ll -> b_in_range (t_r (ts_s x)) = true ->
  b_line (t_r (ts_s x)) = b_line r0 -> b_pos (t_r (ts_s x)) = b_pos r0 ->
  (In (TCore IPCodeSpan) ips -> hd 255%N (b_view (t_r (ts_s x))) = 96%N) ->
  exists x' res, TRY ips x 0%nat (b_line r0) (b_pos r0) = Ok (x', res) /\ TryPost r0 (ts_s x) (ts_s x') res.
Proof.
  intros HR0. induction ips as [|p rest IH]; intros x dl ll Iv Hin El Ep Hcs; cbn [try_inlineT].
  - exists x, None. split; [reflexivity|]. exists dl, ll. auto.
  - destruct (ip_parseT_spec p x dl ll Iv Hin) as (x1 & res1 & E1 & P1).
    { intros X. apply Hcs. left. exact X. }
    rewrite E1. cbn [bind]. destruct res1 as [nd|].
    + exists x1, (Some nd). split; [reflexivity|exact P1].
    + destruct P1 as (dl1 & ll1 & C1 & R1 & B1). pose proof Iv as [C R B].
      destruct (ri_set_position src segs (t_r (ts_s x1)) r0 R1 HR0 (segs_nonempty src segs _ R Hin)) as (r2 & E2 & HR2 & L2 & P2).
      rewrite E2. cbn [bind].
      destruct (ri_same_pos src segs r2 (t_r (ts_s x)) HR2 R) as (In2 & V2 & Rest2); [congruence|congruence|].
      assert (Iv2 : SInv (ist_r (ts_s x1) r2) dl1 ll1).
      { constructor; cbn [ist_r t_c t_r]; [exact C1|exact HR2|].
        apply (Bnd_same_pos src segs (t_c (ts_s x1)) dl1 ll1 (t_r (ts_s x)) r2 R HR2); [congruence|congruence|exact B1]. }
      destruct (IH (tst_s x1 (ist_r (ts_s x1) r2)) dl1 ll1 Iv2) as (x' & res & E' & P'); cbn [ts_s tst_s ist_r t_r].
      * rewrite In2. exact Hin.
      * exact L2.
      * exact P2.
      * intros X. rewrite V2. apply Hcs. right. exact X.
      * exists x', res. split; [exact E'|]. destruct res as [nd|]; [|exact P'].
        destruct P' as (dl' & ll' & h'' & Ea & Iv' & Hlt). exists dl', ll', h''. split; [exact Ea|]. split; [exact Iv'|].
        cbn [ts_s tst_s ist_r t_r] in Hlt. rewrite Rest2 in Hlt. exact Hlt.
Qed.

(* ---------- scan_lineT ---------- *)
(* the reader has not moved since the pending text began: it sits at index i - n of the line,
   and start_pos is its position *)
Record ScanI (line : bytes) (l : Z) (i n : Z) (start_pos : seg) (s : ist) : Prop := {
  sc_n : 0 <= n <= i;
  sc_i : i <= zlen line;
  sc_in : b_in_range (t_r s) = true;
  sc_line : b_line (t_r s) = l;
  sc_view : b_view (t_r s) = zskip (i - n) line;
  sc_start : s_start start_pos = s_start (b_pos (t_r s));
  sc_stop : s_stop start_pos = s_stop (b_pos (t_r s))
}.

(* advancing over the pending text, inside the line *)
Lemma scan_advanceT line l i n start_pos s dl ll c tl : SInv s dl ll -> ScanI line l i n start_pos s ->
  zskip i line = c :: tl ->
  exists rd, b_advance (t_r s) n = Ok rd /\ SInv (ist_r s rd) dl ll /\ b_in_range rd = true /\ b_line rd = l /\
    s_start (b_pos rd) = s_start (b_pos (t_r s)) + n /\ s_stop (b_pos rd) = s_stop (b_pos (t_r s)) /\
    b_view rd = c :: tl /\ zlen (b_rest rd) <= zlen (b_rest (t_r s)).
Proof.
  intros [C R B] [I1 I2 I3 I4 I5 I6 I7] Ez.
  assert (Hi : i < zlen line) by (eapply tdrv_zskip_cons_lt; [lia|exact Ez]).
  assert (Hv : zlen (b_view (t_r s)) = zlen line - (i - n)) by (rewrite I5, br_zlen_zskip; lia).
  destruct (ri_view src segs _ R I3) as (_ & _ & _ & _ & tl0 & Er).
  destruct (ri_advance_rle src segs (t_r s) n R) as (r1 & E1 & _ & Hle1 & _).
  { rewrite Er, zlen_app. pose proof (zlen_nonneg tl0). lia. }
  destruct (ri_advance_in src segs (t_r s) n R I3) as (rd & E & HRd & Hin & Hl & Hs & He & Hvw & _); [lia|].
  rewrite E1 in E. inversion E; subst r1. clear E.
  exists rd. split; [exact E1|]. split.
  { constructor; cbn [ist_r t_c t_r]; [exact C|exact HRd|eapply Bnd_rle; eassumption]. }
  split; [exact Hin|]. split; [congruence|]. split; [exact Hs|]. split; [exact He|]. split; [|exact (proj1 Hle1)].
  rewrite Hvw, I5, tdrv_skipn_zskip by lia. replace (i - n + n) with i by lia. exact Ez.
Qed.

(* flushing the pending text into the block *)
Lemma scan_flushT s dl ll bt : SInv s dl ll -> seg_in src bt ->
  exists c', merge_or_append (t_c s) 0%nat bt = Ok c' /\ SInv (ist_c s c') dl ll.
Proof.
  intros [C R B] Hbt. pose proof (ci_d _ _ _ _ _ C) as [W K A D].
  destruct (merge_or_append_spec src lo (t_c s) 0%nat bt W K A (w_len _ W) Hbt) as (c' & E & W' & K' & A' & CS & DS & L' & Pn).
  exists c'. split; [exact E|]. constructor; cbn [ist_c t_c t_r].
  - eapply CInv_tree; [exact C| | | | | |]; try assumption.
    intros y Hy. rewrite Pn; [tauto|]. destruct Hy as [Hy|Hy]; [apply isdk_lt in Hy|apply islk_lt in Hy]; exact Hy.
  - exact R.
  - eapply tBnd_dl_same; eassumption.
Qed.

Lemma inline_parsersT_codespan c : In (TCore IPCodeSpan) (inline_parsersT typo c) -> c = 96%N.
Proof.
  unfold inline_parsersT. destruct (N.eqb_spec c 96) as [E|E]; [intros _; exact E|].
  assert (Hty : ~ In (TCore IPCodeSpan) (if typo then [TTypo] else [])).
  { destruct typo; [intros [X|[]]; discriminate|intros []]. }
  destruct (N.eqb c 91); [cbn [app]; intros [X|X]; [discriminate|contradiction]|].
  destruct (_ || _)%bool; [intros [X|[]]; discriminate|].
  destruct (N.eqb c 60); [cbn [app]; intros [X|[X|X]]; [discriminate|discriminate|contradiction]|].
  destruct (N.eqb c 42); [cbn [app]; intros [X|X]; [discriminate|contradiction]|].
  destruct (N.eqb c 95); [intros [X|[]]; discriminate|].
  destruct (_ || _)%bool; [intros X; contradiction|intros []].
Qed.

(* no parser is registered on the blank *)
Lemma inline_parsersT_blank : inline_parsersT typo 32 = [].
Proof. reflexivity. Qed.

(* the consultation of the inline parsers at index i of the line, after the pending text has been
   passed: a node (the reader has moved on), or nothing (the pending text restarts at i);
   M bounds the bytes still to be read *)
Definition ConsultPost (line : bytes) (l : Z) (i : Z) (M : Z) (r : tst + tst * Z * seg) : Prop :=
  match r with
  | inl x' => exists dl' ll', SInv (ts_s x') dl' ll' /\ zlen (b_rest (t_r (ts_s x'))) < M
  | inr (x', n', sp') => exists dl' ll', SInv (ts_s x') dl' ll' /\ ScanI line l i n' sp' (ts_s x') /\
      zlen (b_rest (t_r (ts_s x'))) <= M
  end.

(* after Advance(n): the reader rd at index i of the line, the pending text from start_pos *)
Lemma consult_after_advance line l i c tl ips x rd start_pos dl ll M :
  SInv (ist_r (ts_s x) rd) dl ll -> b_in_range rd = true -> b_line rd = l -> b_view rd = c :: tl -> zskip i line = c :: tl ->
  0 <= i <= zlen line -> zlen (b_rest rd) <= M ->
  0 <= s_start start_pos <= s_start (b_pos rd) -> (i = 0 -> s_start start_pos = s_start (b_pos rd)) ->
  s_stop start_pos = s_stop (b_pos rd) ->
  (In (TCore IPCodeSpan) ips -> c = 96%N) ->
  exists r,
    (let s := ist_r (ts_s x) rd in
     let sl := b_line (t_r s) in
     let sp := b_pos (t_r s) in
     t <- (if negb (i =? 0) then
             bt <- seg_between start_pos sp ;;
             c' <- merge_or_append (t_c s) 0%nat bt ;;
             Ok (ist_c s c', sp)
           else Ok (s, start_pos)) ;;
     let '(s, start_pos) := t in
     y <- TRY ips (tst_s x s) 0%nat sl sp ;;
     let '(x, node) := y in
     match node with
     | Some nd =>
       let s := ts_s x in
       h <- i_append (i_h (t_c s)) 0%nat nd ;;
       Ok (inl (tst_s x (ist_c s (cx_h (t_c s) h))))
     | None => Ok (inr (x, 0, start_pos))
     end) = Ok r /\ ConsultPost line l i M r.
Proof.
  intros Iv1 Hin1 Hl1 Hv1 Ez Hi HM Hsp0 Hsp00 Hsp1 Hips. cbv zeta. cbn [ist_r t_c t_r].
  pose proof Iv1 as [_ HRd _]. cbn [ist_r t_r] in HRd.
  destruct (ri_view src segs rd HRd Hin1) as (_ & _ & Hrange1 & Hstop1 & _).
  (* the pending text *)
  match goal with |- exists r, (t <- ?X ;; _) = Ok r /\ _ =>
    assert (Ht : exists s1 sp1, X = Ok (s1, sp1) /\ SInv s1 dl ll /\ t_r s1 = rd /\
              s_start sp1 = s_start (b_pos rd) /\ s_stop sp1 = s_stop (b_pos rd)) end.
  { destruct (Z.eqb_spec i 0) as [Ei|Ei]; cbn [negb].
    - eexists _, _. split; [reflexivity|]. split; [exact Iv1|]. split; [reflexivity|]. split; [exact (Hsp00 Ei)|exact Hsp1].
    - unfold seg_between. replace (s_stop start_pos =? s_stop (b_pos rd)) with true by lia. cbn [bind].
      destruct (scan_flushT (ist_r (ts_s x) rd) dl ll (mksegp (s_start start_pos) (s_start (b_pos rd)) (s_pad start_pos - s_pad (b_pos rd))) Iv1)
        as (c' & Em & Iv2).
      { unfold seg_in. cbn [mksegp s_start s_stop]. lia. }
      cbn [ist_r t_c] in Em. rewrite Em. cbn [bind]. eexists _, _. split; [reflexivity|]. split; [exact Iv2|].
      split; [reflexivity|]. split; reflexivity. }
  destruct Ht as (s1 & sp1 & Et & Iv2 & Er1 & Hsp2 & Hsp3). rewrite Et. cbn [bind].
  destruct (try_inlineT_spec rd HRd ips (tst_s x s1) dl ll Iv2) as (x2 & node & Etry & Ptry); cbn [ts_s tst_s].
  { rewrite Er1. exact Hin1. }
  { rewrite Er1. reflexivity. }
  { rewrite Er1. reflexivity. }
  { intros X. rewrite Er1, Hv1. cbn [hd]. apply Hips. exact X. }
  rewrite Etry. cbn [bind]. cbn [ts_s tst_s] in Ptry. destruct node as [nd|]; cbn [TryPost] in Ptry.
  - destruct Ptry as (dl' & ll' & h'' & Eap & Iv3 & Hlt). rewrite Eap. cbn [bind].
    eexists. split; [reflexivity|]. exists dl', ll'. cbn [ts_s tst_s]. split; [exact Iv3|]. cbn [ist_c t_r]. rewrite Er1 in Hlt. lia.
  - destruct Ptry as (dl' & ll' & Iv3 & Pl & Pp). eexists. split; [reflexivity|]. exists dl', ll'. split; [exact Iv3|].
    destruct (ri_same_pos src segs (t_r (ts_s x2)) rd (si_r _ _ _ _ _ _ Iv3) HRd Pl Pp) as (In3 & V3 & Rest3).
    split; [|rewrite Rest3; exact HM].
    constructor; rewrite ?Pl, ?Pp, ?In3, ?V3; try lia; try assumption.
    replace (i - 0) with i by lia. rewrite Hv1. symmetry. exact Ez.
Qed.

Definition ScanPost (line : bytes) (l : Z) (M : Z) (out : (tst * bool) + (tst * Z * seg)) : Prop :=
  match out with
  | inl (x', _) => exists dl' ll', SInv (ts_s x') dl' ll' /\ zlen (b_rest (t_r (ts_s x'))) < M
  | inr (x', n', sp') => exists dl' ll' i', SInv (ts_s x') dl' ll' /\ ScanI line l i' n' sp' (ts_s x') /\
      zlen (b_rest (t_r (ts_s x'))) <= M
  end.

Lemma scan_lineT_spec : forall fuel line i line_length n escaped start_pos x l dl ll M,
  SInv (ts_s x) dl ll -> ScanI line l i n start_pos (ts_s x) -> zlen (b_rest (t_r (ts_s x))) <= M ->
  (Z.to_nat (zlen line - i) + 1 <= fuel)%nat ->
  exists out, SCAN fuel line i line_length n escaped start_pos x 0%nat = Ok out /\ ScanPost line l M out.
Proof.
  induction fuel as [|f IH]; intros line i line_length n escaped start_pos x l dl ll M Iv Hinv HM Hf; [lia|].
  cbn [scan_lineT]. set (s := ts_s x) in *.
  assert (Hstop : exists out, Ok (inr (x, n, start_pos)) = Ok out /\ ScanPost line l M out).
  { eexists. split; [reflexivity|]. exists dl, ll, i. split; [exact Iv|]. split; [exact Hinv|exact HM]. }
  destruct (line_length <=? i); [exact Hstop|].
  destruct (zskip i line) as [|c tl] eqn:Ez; [exact Hstop|].
  destruct (N.eqb c 10); [exact Hstop|].
  assert (Hi : i < zlen line) by (eapply tdrv_zskip_cons_lt; [destruct Hinv; lia|exact Ez]).
  match goal with |- context [match ?IPS with [] => _ | _ :: _ => _ end] => set (ips := IPS) end.
  assert (Hips : In (TCore IPCodeSpan) ips -> c = 96%N).
  { unfold ips. match goal with |- In _ (if ?b then _ else _) -> _ => destruct b end; [|intros []].
    intros X. apply inline_parsersT_codespan in X.
    match type of X with (if ?b then _ else _) = _ => destruct b end; [discriminate|exact X]. }
  clearbody ips.
  (* the consultation of the inline parsers *)
  match goal with |- exists out, (r <- ?X ;; _) = Ok out /\ _ =>
    assert (Hr : exists r, X = Ok r /\ ConsultPost line l i M r) end.
  { destruct ips as [|ip0 ips0].
    { eexists. split; [reflexivity|]. exists dl, ll. split; [exact Iv|]. split; [exact Hinv|exact HM]. }
    destruct (scan_advanceT line l i n start_pos s dl ll c tl Iv Hinv Ez) as (rd & Ea & Iv1 & Hin1 & Hl1 & Hs1 & He1 & Hv1 & Hrest1).
    fold s. rewrite Ea. cbn [bind].
    pose proof Hinv as [I1 I2 I3 I4 I5 I6 I7].
    destruct (ri_view src segs _ (si_r _ _ _ _ _ _ Iv) I3) as (_ & _ & Hr0 & _).
    apply (consult_after_advance line l i c tl (ip0 :: ips0) x rd start_pos dl ll M); try assumption; try lia. }
  destruct Hr as (r & Er & Pr). rewrite Er. cbn [bind].
  destruct r as [x1|[[x1 n1] sp1]].
  - eexists. split; [reflexivity|]. exact Pr.
  - destruct Pr as (dl1 & ll1 & Iv1 & Hinv1 & Hrest1).
    assert (Hnext : forall esc, exists out, SCAN f line (i + 1) line_length (n1 + 1) esc sp1 x1 0%nat = Ok out /\ ScanPost line l M out).
    { intros esc.
      assert (Hi1 : ScanI line l (i + 1) (n1 + 1) sp1 (ts_s x1)).
      { destruct Hinv1 as [I1 I2 I3 I4 I5 I6 I7]. constructor; try lia; try assumption.
        replace (i + 1 - (n1 + 1)) with (i - n1) by lia. exact I5. }
      apply (IH line (i + 1) line_length (n1 + 1) esc sp1 x1 l dl1 ll1 M Iv1 Hi1 Hrest1). lia. }
    destruct escaped; [apply Hnext|]. destruct (N.eqb c 92); apply Hnext.
Qed.

(* ---------- parseBlock: the loop over the lines ---------- *)
Lemma trim_right_okT t : seg_in src t ->
  exists t', seg_trim_right_space space_table src t = Ok t' /\ seg_in src t'.
Proof.
  intros [H1 H2]. unfold seg_trim_right_space. rewrite BReaderProofs.slice_ok by lia. cbn [bind].
  pose proof (br_trs_range space_table (sub src (s_start t) (s_stop t))) as Hb. rewrite sub_length in Hb by lia.
  destruct (_ =? _); eexists; (split; [reflexivity|]); unfold seg_in; cbn [mkseg mksegp s_start s_stop]; lia.
Qed.

(* two readers on the same line of the block share the end of their positions *)
Lemma same_line_stopT r r' : BInv r -> BInv r' -> b_segs r' = b_segs r -> b_in_range r = true -> b_line r' = b_line r ->
  s_stop (b_pos r') = s_stop (b_pos r) /\ s_start (b_pos r') <= s_stop (b_pos r).
Proof.
  intros H H' Eg Hin El.
  destruct (binv_in r H Hin) as (sg & pre & post & Hn & _ & _ & _ & _ & _ & Hstop & _).
  destruct (bi_pos r' H' sg) as (Ha & Hb & _); [rewrite Eg, El; exact Hn|]. lia.
Qed.

(* the text of the rest of the line: trimmed, the preceding text node trimmed as well when
   nothing remains *)
Lemma loop_tail_textT s dl ll diff (hard visible : bool) : CInv (t_c s) dl ll -> b_src (t_r s) = src -> seg_in src diff ->
  exists c tseg,
    (if hard && visible then Ok (t_c s, diff)
     else
       trimmed <- seg_trim_right_space space_table (b_src (t_r s)) diff ;;
       if seg_is_empty trimmed then
         pn <- iget (i_h (t_c s)) 0%nat ;;
         match last_id (ich pn) with
         | Some lst =>
           ln <- iget (i_h (t_c s)) lst ;;
           match ik ln with
           | IText ts sf hd raw =>
             if (s_stop ts =? s_start diff) && negb raw && negb sf && negb hd then
               ts' <- seg_trim_right_space space_table (b_src (t_r s)) ts ;;
               h <- iupd (i_h (t_c s)) lst (fun m => iset_kind m (IText ts' sf hd raw)) ;;
               Ok (cx_h (t_c s) h, trimmed)
             else Ok (t_c s, trimmed)
           | _ => Ok (t_c s, trimmed)
           end
         | None => Ok (t_c s, trimmed)
         end
       else Ok (t_c s, trimmed)) = Ok (c, tseg) /\
    CInv c dl ll /\ dl_same (i_h (t_c s)) (i_h c) /\ seg_in src tseg.
Proof.
  intros C Esrc Hdiff.
  assert (Hsame : forall tg, seg_in src tg -> exists c tseg, Ok (t_c s, tg) = Ok (c, tseg) /\ CInv c dl ll /\
            dl_same (i_h (t_c s)) (i_h c) /\ seg_in src tseg).
  { intros tg Htg. exists (t_c s), tg. split; [reflexivity|]. split; [exact C|]. split; [apply dl_same_refl|exact Htg]. }
  destruct (hard && visible)%bool; [apply Hsame; exact Hdiff|].
  rewrite Esrc.
  destruct (trim_right_okT diff Hdiff) as (trimmed & Etr & Htrim). rewrite Etr. cbn [bind].
  destruct (seg_is_empty trimmed); [|apply Hsame; exact Htrim].
  pose proof (ci_d _ _ _ _ _ C) as [W K A D].
  destruct (nth_error_ex_lt _ _ (w_len _ W)) as [pn Hpn]. rewrite (iget_ok _ _ _ Hpn). cbn [bind].
  destruct (last_id (ich pn)) as [lst|] eqn:El; [|apply Hsame; exact Htrim].
  assert (Hl : (lst < length (i_h (t_c s)))%nat).
  { apply last_id_in in El. apply (hwf_child_lt (i_h (t_c s)) 0%nat lst W). unfold chl. rewrite Hpn. exact El. }
  destruct (nth_error_ex_lt _ _ Hl) as [ln Hln]. rewrite (iget_ok _ _ _ Hln). cbn [bind].
  destruct (ik ln) as [|ts sf hd raw| | | | | | | |] eqn:Ek; try (apply Hsame; exact Htrim).
  destruct ((s_stop ts =? s_start diff) && negb raw && negb sf && negb hd)%bool eqn:Ec; [|apply Hsame; exact Htrim].
  assert (Hraw : raw = false).
  { apply andb_prop in Ec. destruct Ec as [Ec _]. apply andb_prop in Ec. destruct Ec as [Ec _]. apply andb_prop in Ec.
    destruct Ec as [_ Ec]. destruct raw; [discriminate|reflexivity]. }
  assert (Hkl : kd (i_h (t_c s)) lst = Some (IText ts sf hd raw)) by (unfold kd; rewrite Hln, Ek; reflexivity).
  pose proof (K lst _ Hkl) as Kt. cbn in Kt. specialize (Kt Hraw).
  destruct (trim_right_okT ts Kt) as (ts' & Ets & Hts'). rewrite Ets. cbn [bind].
  destruct (iupd_kind_spec (i_h (t_c s)) lst (IText ts' sf hd raw) Hl) as (h' & E & T & Kl & Kn).
  rewrite E. cbn [bind]. exists (cx_h (t_c s) h'), trimmed. split; [reflexivity|].
  assert (DS : dl_same (i_h (t_c s)) h').
  { eapply dl_same_upd; [exact Hkl | | | | | exact Kl | exact Kn]; reflexivity. }
  split; [|split; [exact DS|exact Htrim]].
  eapply CInv_tree; [exact C| | | | | |]; cbn [i_h cx_h].
  + eapply hwf_same_tree; eassumption.
  + eapply kokh_upd; [exact K| |exact Kl|exact Kn]. cbn. intros _. exact Hts'.
  + destruct A as [rk Rk]. exists rk. eapply ranked_same_tree; eassumption.
  + apply ctx_same_cx_h.
  + exact DS.
  + intros y _. destruct T as (_ & P & _). rewrite P. tauto.
Qed.

(* what the loop leaves behind: a context for ProcessDelimiters *)
Definition Fin (x : tst) : Prop :=
  exists dl ll, CInv (t_c (ts_s x)) dl ll /\ b_src (t_r (ts_s x)) = src /\
    Z.of_nat (sumlen (i_h (t_c (ts_s x))) dl) <= zlen src.

Lemma SInv_Fin x dl ll : SInv (ts_s x) dl ll -> Fin x.
Proof.
  intros [C R [B1 _]]. exists dl, ll. split; [exact C|]. split; [destruct R as (_ & Es & _); exact Es|].
  pose proof (zlen_nonneg (b_rest (t_r (ts_s x)))). lia.
Qed.

(* the reader has run off the block *)
Lemma loop_out f x escaped : BInv (t_r (ts_s x)) -> b_in_range (t_r (ts_s x)) = false ->
  LOOP (S f) x 0%nat escaped = Ok (tst_s x (ist_r (ts_s x) (t_r (ts_s x)))).
Proof.
  intros H Hin. cbn [parse_block_loopT]. rewrite (b_peek_line_view _ H). cbn [bind]. rewrite Hin. reflexivity.
Qed.

(* the loop body behind the line scan *)
Definition loop_cont (f : nat) (l : Z) (hard visible soft : bool) (z : (tst * bool) + (tst * Z * seg)) : result tst :=
  match z with
  | inl (x, escaped) => LOOP f x 0%nat escaped
  | inr (x, n, start_pos) =>
    let s := ts_s x in
    r <- (if negb (n =? 0) then b_advance (t_r s) n else Ok (t_r s)) ;;
    let s := ist_r s r in
    let x := tst_s x s in
    let cur_l := b_line (t_r s) in
    let cur_pos := b_pos (t_r s) in
    if negb (l =? cur_l) then LOOP f x 0%nat false
    else
      diff <- seg_between start_pos cur_pos ;;
      t <- (if hard && visible then Ok (t_c s, diff)
            else
              trimmed <- seg_trim_right_space space_table (b_src (t_r s)) diff ;;
              if seg_is_empty trimmed then
                pn <- iget (i_h (t_c s)) 0%nat ;;
                match last_id (ich pn) with
                | Some lst =>
                  ln <- iget (i_h (t_c s)) lst ;;
                  match ik ln with
                  | IText ts sf hd raw =>
                    if (s_stop ts =? s_start diff) && negb raw && negb sf && negb hd then
                      ts' <- seg_trim_right_space space_table (b_src (t_r s)) ts ;;
                      h <- iupd (i_h (t_c s)) lst (fun m => iset_kind m (IText ts' sf hd raw)) ;;
                      Ok (cx_h (t_c s) h, trimmed)
                    else Ok (t_c s, trimmed)
                  | _ => Ok (t_c s, trimmed)
                  end
                | None => Ok (t_c s, trimmed)
                end
              else Ok (t_c s, trimmed)) ;;
      let '(c, tseg) := t in
      let '(c, tx) := new_inode c (IText tseg soft hard false) in
      h <- i_append (i_h c) 0%nat tx ;;
      r <- b_advance_line (t_r s) ;;
      LOOP f (tst_s x {| t_c := cx_h c h; t_r := r |}) 0%nat false
  end.

Lemma loop_cont_spec f l line hard visible soft M :
  (forall x esc dl ll, SInv (ts_s x) dl ll -> zlen (b_rest (t_r (ts_s x))) < M -> exists x', LOOP f x 0%nat esc = Ok x' /\ Fin x') ->
  forall x1 n sp dl1 ll1 i', SInv (ts_s x1) dl1 ll1 -> ScanI line l i' n sp (ts_s x1) -> zlen (b_rest (t_r (ts_s x1))) <= M ->
  exists x', loop_cont f l hard visible soft (inr (x1, n, sp)) = Ok x' /\ Fin x'.
Proof.
  intros Hrec x1 n sp dl1 ll1 i' Iv1 [I1 I2 I3 I4 I5 I6 I7] HM. cbn [loop_cont]. cbv zeta.
  set (s1 := ts_s x1) in *. pose proof Iv1 as [C1 R1 B1].
  destruct (ri_view src segs _ R1 I3) as (_ & Elen1 & Hrange1 & Hstop1 & tl1 & Erest1).
  assert (Hv1 : zlen (b_view (t_r s1)) = zlen line - (i' - n)) by (rewrite I5, br_zlen_zskip; lia).
  match goal with |- exists x', (r <- ?X ;; _) = Ok x' /\ _ =>
    assert (Hr2 : exists r2, X = Ok r2 /\ RI r2 /\ rle (t_r s1) r2 /\
              (n <> 0 -> zlen (b_rest r2) < zlen (b_rest (t_r s1))) /\ (n = 0 -> r2 = t_r s1)) end.
  { destruct (Z.eqb_spec n 0) as [En|En]; cbn [negb].
    - exists (t_r s1). split; [reflexivity|]. split; [exact R1|]. split; [apply rle_refl|]. split; [lia|reflexivity].
    - destruct (ri_advance_rle src segs (t_r s1) n R1) as (r2 & E2 & HR2 & Hle2 & Hrest2 & _).
      { rewrite Erest1, zlen_app. pose proof (zlen_nonneg tl1). lia. }
      exists r2. split; [exact E2|]. split; [exact HR2|]. split; [exact Hle2|]. split; [lia|lia]. }
  destruct Hr2 as (r2 & E2 & HR2 & Hle2 & Hlt2 & Heq2). rewrite E2. cbn [bind]. cbn [ts_s tst_s ist_r t_c t_r].
  pose proof (zlen_nonneg (b_rest r2)) as Hnn2.
  assert (Iv2 : SInv (ist_r s1 r2) dl1 ll1).
  { constructor; cbn [ist_r t_c t_r]; [exact C1|exact HR2|eapply Bnd_rle; eassumption]. }
  destruct (Z.eqb_spec l (b_line r2)) as [Eline|Eline]; cbn [negb].
  2:{ apply (Hrec _ false dl1 ll1); cbn [ts_s tst_s]; [exact Iv2|]. cbn [ist_r t_r].
      assert (n <> 0) by (intros X; apply Eline; rewrite (Heq2 X); symmetry; exact I4).
      specialize (Hlt2 H). lia. }
  (* same line: the rest of the line becomes a text node *)
  destruct (same_line_stopT (t_r s1) r2) as [Hst2 Hsa2].
  { destruct R1 as (X & _); exact X. }
  { destruct HR2 as (X & _); exact X. }
  { destruct R1 as (_ & _ & X & _). destruct HR2 as (_ & _ & Y & _). congruence. }
  { exact I3. }
  { congruence. }
  unfold seg_between. replace (s_stop sp =? s_stop (b_pos r2)) with true by lia. cbn [bind].
  set (diff := mksegp (s_start sp) (s_start (b_pos r2)) (s_pad sp - s_pad (b_pos r2))).
  assert (Hdiff : seg_in src diff).
  { unfold seg_in, diff. cbn [mksegp s_start s_stop]. destruct Hle2 as [_ Hle2]. lia. }
  destruct (loop_tail_textT (ist_r s1 r2) dl1 ll1 diff hard visible) as (c3 & tseg & Et & C3 & DS3 & Htseg).
  { exact C1. }
  { cbn [ist_r t_r]. destruct HR2 as (_ & X & _); exact X. }
  { exact Hdiff. }
  cbn [ist_r t_c t_r] in Et, DS3. rewrite Et. cbn [bind]. rewrite new_inode_eq. cbn [i_h cx_h].
  destruct (CInv_fresh_root src first c3 dl1 ll1 (IText tseg soft hard false) C3) as (h4 & E4 & C4 & DS4);
    [cbn; intros _; exact Htseg|reflexivity|reflexivity|].
  rewrite E4. cbn [bind].
  destruct (ri_advance_line_rle src segs r2 HR2) as (r3 & E3 & HR3 & Hle3 & _ & Hrest3).
  rewrite E3. cbn [bind].
  apply (Hrec _ false dl1 ll1); cbn [ts_s tst_s].
  + constructor; cbn [t_c t_r].
    * exact C4.
    * exact HR3.
    * eapply Bnd_rle; [|exact Hle3]. eapply tBnd_dl_same; [|eapply tBnd_dl_same; [|eapply Bnd_rle; [exact B1|exact Hle2]]].
      -- cbn [i_h cx_h]. exact DS4.
      -- exact DS3.
  + cbn [t_r]. pose proof (zlen_nonneg (b_rest r3)). destruct Hle3 as [Hle3 _].
    destruct (Z.eq_dec n 0) as [En|En].
    * rewrite (Heq2 En) in *. rewrite (Hrest3 I3) in *. lia.
    * specialize (Hlt2 En). lia.
Qed.

Lemma parse_block_loopT_spec : forall fuel x escaped dl ll, SInv (ts_s x) dl ll ->
  (Z.to_nat (zlen (b_rest (t_r (ts_s x)))) + 1 <= fuel)%nat ->
  exists x', LOOP fuel x 0%nat escaped = Ok x' /\ Fin x'.
Proof.
  induction fuel as [|f IH]; intros x escaped dl ll Iv Hf; [lia|].
  pose proof Iv as [C R B].
  destruct (b_in_range (t_r (ts_s x))) eqn:Hin.
  2:{ rewrite loop_out; [|destruct R as (X & _); exact X|exact Hin]. eexists. split; [reflexivity|].
      apply (SInv_Fin _ dl ll). cbn [ts_s tst_s]. apply SInv_ist_r_same. exact Iv. }
  cbn [parse_block_loopT]. set (s := ts_s x) in *.
  rewrite (ri_peek_line src segs _ R). cbn [bind]. rewrite Hin.
  set (line := b_view (t_r s)).
  match goal with |- context [match ?X with pair _ _ => _ end] =>
    match type of X with (Z * bool * bool * bool)%type => destruct X as [[[line_length hard] visible] soft] end end.
  cbn [ts_s tst_s ist_r t_c t_r].
  destruct (ri_view src segs _ R Hin) as (_ & Elen & Hrange & Hstop & tl0 & Erest).
  set (x0 := tst_s x (ist_r s (t_r s))).
  assert (Hinv0 : ScanI line (b_line (t_r s)) 0 0 (b_pos (t_r s)) (ts_s x0)).
  { pose proof (zlen_nonneg line). constructor; cbn [x0 ts_s tst_s ist_r t_r]; try lia; try reflexivity; try assumption. }
  pose proof (zlen_nonneg (b_rest (t_r s))) as Hnn.
  destruct (scan_lineT_spec (S (length line)) line 0 line_length 0 escaped (b_pos (t_r s)) x0 (b_line (t_r s)) dl ll
              (zlen (b_rest (t_r s))))
    as (out & Esc & Pout); [cbn [x0 ts_s tst_s]; apply SInv_ist_r_same; exact Iv|exact Hinv0|cbn [x0 ts_s tst_s ist_r t_r]; lia|unfold zlen; lia|].
  fold x0. rewrite Esc. cbn [bind].
  change (exists x', loop_cont f (b_line (t_r s)) hard visible soft out = Ok x' /\ Fin x').
  assert (Hrec : forall y esc dl' ll', SInv (ts_s y) dl' ll' -> zlen (b_rest (t_r (ts_s y))) < zlen (b_rest (t_r s)) ->
            exists x', LOOP f y 0%nat esc = Ok x' /\ Fin x').
  { intros y esc dl' ll' Ivy Hy. apply (IH y esc dl' ll' Ivy). pose proof (zlen_nonneg (b_rest (t_r (ts_s y)))). lia. }
  destruct out as [[x1 esc]|[[x1 n] sp]]; cbn [ScanPost] in Pout.
  - destruct Pout as (dl1 & ll1 & Iv1 & Hlt). cbn [loop_cont]. apply (Hrec x1 esc dl1 ll1 Iv1 Hlt).
  - destruct Pout as (dl1 & ll1 & i' & Iv1 & Hsc & Hle).
    apply (loop_cont_spec f (b_line (t_r s)) line hard visible soft (zlen (b_rest (t_r s))) Hrec x1 n sp dl1 ll1 i' Iv1 Hsc Hle).
Qed.

(* ---------- parseBlock behind the loop ---------- *)
Lemma parse_blockT_fin x1 : Fin x1 ->
  exists c2 c3, process_delimiters (ifuel (ts_s x1)) (t_c (ts_s x1)) BNil = Ok c2 /\ link_close_block c2 = Ok c3 /\
    HWF (i_h c3) /\ KOKh (i_h c3) /\ Acyc (i_h c3).
Proof.
  intros (dl1 & ll1 & C1 & Es1 & Hsum).
  pose proof (ci_d _ _ _ _ _ C1) as D1.
  destruct (process_delimiters_spec src lo (ifuel (ts_s x1)) (t_c (ts_s x1)) dl1 BNil D1 (ci_ap _ _ _ _ _ C1)) as (c2 & dl2 & E2 & D2 & _ & S2 & _).
  { unfold ifuel. rewrite Es1. unfold zlen in *. lia. }
  pose proof (LL_dstep _ _ _ (ci_ll _ _ _ _ _ C1) S2) as L2. destruct D2 as [W2 K2 A2 _].
  destruct (link_close_block_spec src lo c2 ll1 W2 K2 A2 L2) as (c3 & E3 & W3 & K3 & A3).
  exists c2, c3. auto.
Qed.

Notation PB := (parse_blockT typo space_table punct_table norm url_table email_table re_email_domain re_open_tag re_close_tag
                  punct_rune space_rune uni_punct uni_space uni_digit uni_letter refs).

(* the lines of the default configuration: no padding *)
Lemma parse_blockT_spec cnt : segs_ok src segs -> Forall (fun s => s_pad s = 0) segs ->
  exists c cnt', PB cnt src segs = Ok (c, cnt') /\ HWF (i_h c) /\ KOKh (i_h c) /\ Acyc (i_h c).
Proof.
  intros Hok Hpad. unfold parse_blockT.
  destruct (new_block_reader_spec src segs Hok) as (r & E & HB & Es & Eg). rewrite E. cbn [bind].
  assert (HR : RI r).
  { split; [exact HB|]. split; [exact Es|]. split; [exact Eg|].
    destruct segs as [|a l]; [discriminate Hfirst|]. rewrite (proj1 (tnew_block_reader_pos src a l r E)).
    inversion Hpad; subst. split; assumption. }
  set (x0 := {| ts_s := {| t_c := init_ictx; t_r := r |}; ts_single := fst cnt; ts_double := snd cnt |}).
  assert (Iv0 : SInv (ts_s x0) [] []).
  { constructor; cbn [x0 ts_s t_c t_r]; [apply tcinv_init|exact HR|]. split.
    - change (sumlen (i_h init_ictx) []) with 0%nat. pose proof (ri_rest_le src segs r HR). lia.
    - intros y sg im p n f l []. }
  destruct (parse_block_loopT_spec (2 * length src + 2 * length segs + 8) x0 false [] [] Iv0) as (x1 & E1 & F1).
  { cbn [x0 ts_s t_r]. pose proof (ri_rest_le src segs r HR) as Hle. unfold zlen in *. lia. }
  rewrite E1. cbn [bind].
  destruct (parse_blockT_fin x1 F1) as (c2 & c3 & E2 & E3 & W3 & K3 & A3).
  rewrite E2. cbn [bind]. rewrite E3. cbn [bind]. eexists _, _. split; [reflexivity|]. auto.
Qed.

(* ---------- the block of one line with padding ---------- *)
Lemma skipn_repeat_head {A} (a : A) : forall k n l c tl, (k < n)%nat -> skipn k (repeat a n ++ l) = c :: tl -> c = a.
Proof.
  induction k as [|k IH]; intros n l c tl Hk E; (destruct n as [|n]; [lia|]); cbn [repeat app skipn] in E.
  - inversion E. reflexivity.
  - apply (IH n l c tl); [lia|exact E].
Qed.

Lemma zskip_spaces p l i c tl : 0 <= i < p -> zskip i (spaces_n p ++ l) = c :: tl -> c = 32%N.
Proof.
  intros Hi E. unfold zskip, spaces_n in E. apply (skipn_repeat_head 32%N (Z.to_nat i) (Z.to_nat p) l c tl); [lia|exact E].
Qed.

Section Pre.
Hypothesis Hone : segs = [first].
Variable r0 : breader.
Hypothesis H0 : BInv r0.
Hypothesis Es0 : b_src r0 = src.
Hypothesis Eg0 : b_segs r0 = segs.
Hypothesis Ep0 : b_pos r0 = first.
Hypothesis El0 : b_line r0 = 0.

Lemma pre_first_ok : seg_ok src first.
Proof.
  pose proof (bi_segs r0 H0) as [Hf _]. rewrite Es0, Eg0, Hone in Hf. inversion Hf; assumption.
Qed.

Lemma pre_in_range : b_in_range r0 = true.
Proof.
  pose proof pre_first_ok as Hok. unfold seg_ok in Hok. apply in_range_iff. rewrite Eg0, Hone, El0, Ep0.
  rewrite (bi_last r0 H0), Eg0, Hone. cbn [rev app]. change (zlen [first]) with 1. lia.
Qed.

Lemma pre_rest : b_rest r0 = b_view r0.
Proof.
  rewrite (b_rest_in r0 pre_in_range), Eg0, Hone, El0. cbn [Z.add Z.to_nat Pos.to_nat Pos.iter_op Nat.add skipn flat_map].
  apply app_nil_r.
Qed.

(* a reader on the only line *)
Lemma one_line_facts rd : BInv rd -> b_segs rd = segs -> b_in_range rd = true ->
  b_line rd = 0 /\ b_rest rd = b_view rd /\ s_start first <= s_start (b_pos rd) /\ s_stop (b_pos rd) = s_stop first.
Proof.
  intros H Eg Hin. pose proof (in_range_true rd Hin) as [Hl _]. pose proof (bi_line rd H) as Hl0.
  rewrite Eg, Hone in Hl. change (zlen [first]) with 1 in Hl.
  assert (El : b_line rd = 0) by lia. split; [exact El|]. split.
  - rewrite (b_rest_in rd Hin), Eg, Hone, El. cbn [Z.add Z.to_nat Pos.to_nat Pos.iter_op Nat.add skipn flat_map]. apply app_nil_r.
  - destruct (bi_pos rd H first) as (Ha & Hb & _); [rewrite Eg, Hone, El; reflexivity|]. split; [lia|exact Hb].
Qed.

Lemma one_line_out rd : BInv rd -> b_segs rd = segs -> b_line rd <> 0 -> b_in_range rd = false.
Proof.
  intros H Eg Hl. destruct (b_in_range rd) eqn:Hin; [|reflexivity].
  destruct (one_line_facts rd H Eg Hin) as (X & _). contradiction.
Qed.

Definition PrePost (x : tst) (line : bytes) (out : (tst * bool) + (tst * Z * seg)) : Prop :=
  match out with
  | inl (x', _) => exists dl' ll', SInv (ts_s x') dl' ll'
  | inr (x', n', sp') => (x' = x /\ sp' = first /\ 0 <= n' <= zlen line) \/
      (exists dl' ll' i', SInv (ts_s x') dl' ll' /\ ScanI line 0 i' n' sp' (ts_s x'))
  end.

(* the scan of the line as long as the reader has not been advanced: the pending text is all
   of the line so far, the state is untouched *)
Lemma scan_lineT_pre x : t_r (ts_s x) = r0 -> CInv (t_c (ts_s x)) [] [] ->
  forall fuel i line_length escaped, 0 <= i <= zlen (b_view r0) -> (Z.to_nat (zlen (b_view r0) - i) + 1 <= fuel)%nat ->
  exists out, SCAN fuel (b_view r0) i line_length i escaped first x 0%nat = Ok out /\ PrePost x (b_view r0) out.
Proof.
  intros Er0 C0. set (line := b_view r0).
  assert (Eline : line = spaces_n (s_pad first) ++ sub src (s_start first) (s_stop first)).
  { unfold line, b_view. rewrite Ep0, Es0. reflexivity. }
  pose proof pre_first_ok as Hok. unfold seg_ok in Hok.
  assert (Hpad : Forall (fun s => s_pad s = 0) (tl segs)) by (rewrite Hone; constructor).
  induction fuel as [|f IH]; intros i line_length escaped Hi Hf; [lia|].
  cbn [scan_lineT].
  assert (Hstop : exists out, Ok (inr (x, i, first)) = Ok out /\ PrePost x line out).
  { eexists. split; [reflexivity|]. left. auto. }
  destruct (line_length <=? i); [exact Hstop|].
  destruct (zskip i line) as [|c tl] eqn:Ez; [exact Hstop|].
  destruct (N.eqb c 10); [exact Hstop|].
  assert (Hil : i < zlen line) by (eapply tdrv_zskip_cons_lt; [lia|exact Ez]).
  match goal with |- context [match ?IPS with [] => _ | _ :: _ => _ end] => set (ips := IPS) end.
  assert (Hips : In (TCore IPCodeSpan) ips -> c = 96%N).
  { unfold ips. match goal with |- In _ (if ?b then _ else _) -> _ => destruct b end; [|intros []].
    intros X. apply inline_parsersT_codespan in X.
    match type of X with (if ?b then _ else _) = _ => destruct b end; [discriminate|exact X]. }
  assert (Hp : ips <> [] -> s_pad first <= i).
  { intros Hne. destruct (Z.lt_ge_cases i (s_pad first)) as [Hlt|Hge]; [|exact Hge]. exfalso. apply Hne.
    assert (Ec : c = 32%N) by (rewrite Eline in Ez; apply (zskip_spaces (s_pad first) (sub src (s_start first) (s_stop first)) i c tl); [lia|exact Ez]).
    unfold ips. rewrite Ec.
    match goal with |- (if ?b then _ else _) = [] => destruct b; [|reflexivity] end.
    match goal with |- inline_parsersT typo (if ?b then _ else _) = [] => destruct b; reflexivity end. }
  clearbody ips.
  assert (Hnext : forall esc, exists out, SCAN f line (i + 1) line_length (i + 1) esc first x 0%nat = Ok out /\ PrePost x line out).
  { intros esc. apply IH; lia. }
  (* the consultation of the inline parsers *)
  match goal with |- exists out, (r <- ?X ;; _) = Ok out /\ _ =>
    assert (Hr : exists r, X = Ok r /\ (r = inr (x, i, first) \/ ConsultPost line 0 i (zlen src) r)) end.
  { destruct ips as [|ip0 ips0].
    { eexists. split; [reflexivity|]. left. reflexivity. }
    specialize (Hp ltac:(discriminate)).
    rewrite Er0.
    destruct (ri_advance_pad src segs r0 i H0 Es0 Eg0 Hpad) as (rd & Ea & HRd & Hrest).
    { rewrite pre_rest. fold line. lia. }
    { rewrite Ep0. exact Hp. }
    rewrite Ea. cbn [bind].
    assert (Erd : b_rest rd = c :: tl) by (rewrite Hrest, pre_rest; exact Ez).
    assert (Hin1 : b_in_range rd = true).
    { destruct (b_in_range rd) eqn:X; [reflexivity|]. rewrite (b_rest_out rd X) in Erd. discriminate. }
    pose proof HRd as (HBd & _ & Egd & _).
    destruct (one_line_facts rd HBd Egd Hin1) as (Hl1 & Hrv & Hs1 & He1).
    assert (Iv1 : SInv (ist_r (ts_s x) rd) [] []).
    { constructor; cbn [ist_r t_c t_r]; [exact C0|exact HRd|]. split.
      - change (sumlen (i_h (t_c (ts_s x))) []) with 0%nat. pose proof (ri_rest_le src segs rd HRd). lia.
      - intros y sg im p n f' l []. }
    assert (Hv1 : b_view rd = c :: tl) by (rewrite <- Hrv; exact Erd).
    assert (HM : zlen (b_rest rd) <= zlen src) by (apply (ri_rest_le src segs rd HRd)).
    assert (Hi' : 0 <= i <= zlen line) by lia.
    assert (Hsp0 : 0 <= s_start first <= s_start (b_pos rd)) by lia.
    assert (Hsp00 : i = 0 -> s_start first = s_start (b_pos rd)).
    { intros Ei. pose proof (ri_view src segs rd HRd Hin1) as (_ & Elen1 & _). rewrite Hv1 in Elen1.
      assert (zlen (c :: tl) = zlen line) by (rewrite <- Ez, Ei; reflexivity).
      assert (Hsl : zlen (spaces_n (s_pad first)) = s_pad first) by (unfold spaces_n, zlen; rewrite repeat_length; lia).
      rewrite Eline, zlen_app, sub_length, Hsl in H by lia. lia. }
    assert (Hsp1 : s_stop first = s_stop (b_pos rd)) by lia.
    destruct (consult_after_advance line 0 i c tl (ip0 :: ips0) x rd first [] [] (zlen src) Iv1 Hin1 Hl1 Hv1 Ez Hi' HM Hsp0 Hsp00 Hsp1 Hips)
      as (r & Er & Pr).
    exists r. split; [exact Er|]. right. exact Pr. }
  destruct Hr as (r & Er & Pr). rewrite Er. cbn [bind].
  destruct Pr as [->|Pr].
  { destruct escaped; [apply Hnext|]. destruct (N.eqb c 92); apply Hnext. }
  destruct r as [x1|[[x1 n1] sp1]].
  - eexists. split; [reflexivity|]. destruct Pr as (dl1 & ll1 & Iv1 & _). exists dl1, ll1. exact Iv1.
  - destruct Pr as (dl1 & ll1 & Iv1 & Hinv1 & Hrest1).
    assert (Hnext' : forall esc, exists out, SCAN f line (i + 1) line_length (n1 + 1) esc sp1 x1 0%nat = Ok out /\ PrePost x line out).
    { intros esc.
      assert (Hi1 : ScanI line 0 (i + 1) (n1 + 1) sp1 (ts_s x1)).
      { destruct Hinv1 as [I1 I2 I3 I4 I5 I6 I7]. constructor; try lia; try assumption.
        replace (i + 1 - (n1 + 1)) with (i - n1) by lia. exact I5. }
      destruct (scan_lineT_spec f line (i + 1) line_length (n1 + 1) esc sp1 x1 0 dl1 ll1 (zlen src) Iv1 Hi1 Hrest1) as (out & Eo & Po); [lia|].
      exists out. split; [exact Eo|]. destruct out as [[x' e']|[[x' n'] sp']]; cbn [ScanPost PrePost] in Po |- *.
      - destruct Po as (dl' & ll' & Iv' & _). exists dl', ll'. exact Iv'.
      - destruct Po as (dl' & ll' & i' & Iv' & Hinv' & _). right. exists dl', ll', i'. auto. }
    destruct escaped; [apply Hnext'|]. destruct (N.eqb c 92); apply Hnext'.
Qed.

(* the first round of the loop *)
Lemma loop_first x f escaped : t_r (ts_s x) = r0 -> CInv (t_c (ts_s x)) [] [] -> (Z.to_nat (zlen src) + 2 <= f)%nat ->
  exists x', LOOP (S f) x 0%nat escaped = Ok x' /\ Fin x'.
Proof.
  intros Er0 C0 Hf. pose proof pre_first_ok as Hok. unfold seg_ok in Hok.
  cbn [parse_block_loopT]. rewrite Er0. rewrite (b_peek_line_view r0 H0). cbn [bind]. rewrite pre_in_range.
  set (line := b_view r0).
  match goal with |- context [match ?X with pair _ _ => _ end] =>
    match type of X with (Z * bool * bool * bool)%type => destruct X as [[[line_length hard] visible] soft] end end.
  cbn [ts_s tst_s ist_r t_c t_r]. rewrite Ep0, El0.
  set (x0 := tst_s x (ist_r (ts_s x) r0)).
  pose proof (zlen_nonneg line) as Hnl.
  destruct (scan_lineT_pre x0 eq_refl C0 (S (length line)) 0 line_length escaped) as (out & Esc & Pout); [fold line; lia|fold line; unfold zlen; lia|].
  fold line in Esc, Pout. rewrite Esc. cbn [bind].
  change (exists x', loop_cont f 0 hard visible soft out = Ok x' /\ Fin x').
  assert (Hrec : forall y esc dl' ll', SInv (ts_s y) dl' ll' -> zlen (b_rest (t_r (ts_s y))) < zlen src + 1 ->
            exists x', LOOP f y 0%nat esc = Ok x' /\ Fin x').
  { intros y esc dl' ll' Ivy Hy. apply (parse_block_loopT_spec f y esc dl' ll' Ivy).
    pose proof (zlen_nonneg (b_rest (t_r (ts_s y)))). lia. }
  assert (Hle : forall y dl' ll', SInv (ts_s y) dl' ll' -> zlen (b_rest (t_r (ts_s y))) <= zlen src).
  { intros y dl' ll' [_ Ry _]. apply (ri_rest_le src segs _ Ry). }
  destruct out as [[x1 esc]|[[x1 n] sp]]; cbn [PrePost] in Pout.
  - destruct Pout as (dl1 & ll1 & Iv1). cbn [loop_cont]. apply (Hrec x1 esc dl1 ll1 Iv1). pose proof (Hle x1 dl1 ll1 Iv1). lia.
  - destruct Pout as [(-> & -> & Hn)|(dl1 & ll1 & i' & Iv1 & Hsc)].
    2:{ apply (loop_cont_spec f 0 line hard visible soft (zlen src + 1) Hrec x1 n sp dl1 ll1 i' Iv1 Hsc).
        pose proof (Hle x1 dl1 ll1 Iv1). lia. }
    (* no inline parser anywhere in the line: the reader is still at the head of the line *)
    destruct f as [|f']; [lia|].
    cbn [loop_cont]. cbv zeta. cbn [x0 ts_s tst_s ist_r t_c t_r].
    match goal with |- exists x', (r <- ?X ;; _) = Ok x' /\ _ =>
      assert (Hr2 : exists r2, X = Ok r2 /\ BInv r2 /\ b_src r2 = src /\ b_segs r2 = segs) end.
    { destruct (Z.eqb_spec n 0) as [En|En]; cbn [negb].
      - exists r0. auto.
      - destruct (b_advance_spec r0 n H0) as (r2 & E2 & H2 & Es2 & Eg2 & _); [rewrite pre_rest; fold line; lia|].
        exists r2. split; [exact E2|]. split; [exact H2|]. split; congruence. }
    destruct Hr2 as (r2 & E2 & H2 & Es2 & Eg2). rewrite E2. cbn [bind].
    assert (Hfin : forall c r, CInv c [] [] -> b_src r = src ->
              Fin (tst_s (tst_s x {| t_c := c; t_r := r |}) (ist_r (ts_s (tst_s x {| t_c := c; t_r := r |})) r))).
    { intros c r Cc Esr. exists [], []. cbn [ts_s tst_s ist_r t_c t_r]. split; [exact Cc|]. split; [exact Esr|].
      change (sumlen (i_h c) []) with 0%nat. pose proof (zlen_nonneg src). lia. }
    destruct (Z.eqb_spec 0 (b_line r2)) as [Eline|Eline]; cbn [negb].
    2:{ rewrite loop_out; cbn [ts_s tst_s ist_r t_r]; [|exact H2|apply (one_line_out r2 H2 Eg2); lia].
        eexists. split; [reflexivity|]. exists [], []. cbn [ts_s tst_s ist_r t_c t_r]. split; [exact C0|]. split; [exact Es2|].
        change (sumlen (i_h (t_c (ts_s x))) []) with 0%nat. pose proof (zlen_nonneg src). lia. }
    destruct (bi_pos r2 H2 first) as (Ha & Hb & _); [rewrite Eg2, Hone, <- Eline; reflexivity|].
    unfold seg_between. replace (s_stop first =? s_stop (b_pos r2)) with true by lia. cbn [bind].
    set (diff := mksegp (s_start first) (s_start (b_pos r2)) (s_pad first - s_pad (b_pos r2))).
    assert (Hdiff : seg_in src diff).
    { unfold seg_in, diff. cbn [mksegp s_start s_stop]. lia. }
    destruct (loop_tail_textT (ist_r (ts_s x) r2) [] [] diff hard visible) as (c3 & tseg & Et & C3 & DS3 & Htseg);
      [exact C0|exact Es2|exact Hdiff|].
    cbn [ist_r t_c t_r] in Et. rewrite Et. cbn [bind]. rewrite new_inode_eq. cbn [i_h cx_h].
    destruct (CInv_fresh_root src first c3 [] [] (IText tseg soft hard false) C3) as (h4 & E4 & C4 & DS4);
      [cbn; intros _; exact Htseg|reflexivity|reflexivity|].
    rewrite E4. cbn [bind].
    destruct (b_advance_line_spec r2 H2) as (r3 & E3 & H3 & Es3 & Eg3 & _ & Hl3 & _).
    rewrite E3. cbn [bind].
    rewrite loop_out; cbn [ts_s tst_s ist_r t_r]; [|exact H3|apply (one_line_out r3 H3); [congruence|lia]].
    eexists. split; [reflexivity|]. exists [], []. cbn [ts_s tst_s ist_r t_c t_r]. split; [exact C4|]. split; [congruence|].
    match goal with |- Z.of_nat (sumlen ?h []) <= _ => change (sumlen h []) with 0%nat end. pose proof (zlen_nonneg src). lia.
Qed.

End Pre.

(* one line, with padding or without *)
Lemma parse_blockT_one cnt : segs = [first] -> seg_ok src first ->
  exists c cnt', PB cnt src segs = Ok (c, cnt') /\ HWF (i_h c) /\ KOKh (i_h c) /\ Acyc (i_h c).
Proof.
  intros Hone Hok. unfold parse_blockT.
  assert (Hsegs : segs_ok src segs) by (rewrite Hone; split; [constructor; [exact Hok|constructor]|exact Logic.I]).
  destruct (new_block_reader_spec src segs Hsegs) as (r & E & HB & Es & Eg). rewrite E. cbn [bind].
  assert (Hpl : b_pos r = first /\ b_line r = 0) by (rewrite Hone in E; apply (tnew_block_reader_pos src first [] r E)).
  destruct Hpl as [Ep El].
  set (x0 := {| ts_s := {| t_c := init_ictx; t_r := r |}; ts_single := fst cnt; ts_double := snd cnt |}).
  replace (2 * length src + 2 * length segs + 8)%nat with (S (2 * length src + 9)) by (rewrite Hone; cbn [length]; lia).
  destruct (loop_first Hone r HB Es Eg Ep El x0 (2 * length src + 9) false eq_refl (tcinv_init src lo)) as (x1 & E1 & F1).
  { unfold zlen. lia. }
  rewrite E1. cbn [bind].
  destruct (parse_blockT_fin x1 F1) as (c2 & c3 & E2 & E3 & W3 & K3 & A3).
  rewrite E2. cbn [bind]. rewrite E3. cbn [bind]. eexists _, _. split; [reflexivity|]. auto.
Qed.

End Drive.

(* ---------- itreeT ---------- *)
Section TravT.
Variable rk : nat -> nat.
Variable h : iheap.
Hypothesis W : HWF h.
Hypothesis R : Ranked rk h.

Lemma itreeT_total src lo : KOKh src lo h -> forall fuel S i,
  (length S < fuel)%nat -> (forall y, In y S -> (y < length h)%nat) -> closed h S -> In i S ->
  exists t, itreeT fuel src h i = Ok t.
Proof.
  intros K. induction fuel as [|f IH]; intros S i Hf Hlt C Hi; [lia|].
  cbn [itreeT]. destruct (nth_error_ex_lt h i (Hlt i Hi)) as [n Hn]. rewrite (iget_ok _ _ _ Hn). cbn [bind].
  assert (Ech : ich n = chl h i) by (unfold chl; rewrite Hn; reflexivity).
  destruct (map_res_total (itreeT f src h) (ich n)) as [kids Ek].
  { intros c Hc. rewrite Ech in Hc. apply (IH (above rk i S) c).
    - pose proof (above_lt rk i S Hi). lia.
    - intros y Hy. apply in_above in Hy. apply Hlt. tauto.
    - apply (closed_above rk h W R). exact C.
    - apply (children_above rk h W R); assumption. }
  rewrite Ek. cbn [bind].
  assert (Hk : kd h i = Some (ik n)) by (unfold kd; rewrite Hn; reflexivity).
  pose proof (K i _ Hk) as Kk.
  destruct (ik n); cbn [bind]; try (eexists; reflexivity).
  cbn in Kk. destruct Kk as (Hs & Hp & Hfn).
  destruct (seg_value_total src s) as [v Ev]; [exact Hs|lia|]. rewrite Ev. cbn [bind]. eexists. reflexivity.
Qed.
End TravT.

Lemma itreeT_root_total src lo h : HWF h -> Acyc h -> KOKh src lo h ->
  exists t, itreeT (S (length h)) src h 0 = Ok t.
Proof.
  intros W [rk R] K. apply (itreeT_total rk h W R src lo K (S (length h)) (seq 0 (length h)) 0%nat).
  - rewrite seq_length. lia.
  - intros y Hy. apply in_seq in Hy. lia.
  - intros y Hy c Hc. apply in_seq. pose proof (hwf_child_lt h y c W Hc). lia.
  - apply in_seq. pose proof (w_len h W). lia.
Qed.

(* ---------- the inline children of any block whose lines are well formed ---------- *)
Section Total.
Variable typo : bool.
Variable space_table punct_table : list N.
Variable norm : bytes -> bytes.
Variable url_table email_table : list N.
Variable re_email_domain re_open_tag re_close_tag : re.
Variable punct_rune space_rune : N -> bool.
Variable uni_punct uni_space uni_digit uni_letter : N -> bool.
Hypothesis Hopen : re_nonempty re_open_tag = true.
Hypothesis Hclose : re_nonempty re_close_tag = true.
Notation ICT := (inline_childrenT typo space_table punct_table norm url_table email_table re_email_domain re_open_tag re_close_tag
                   punct_rune space_rune uni_punct uni_space uni_digit uni_letter).

Lemma inline_childrenT_nil refs cnt src : exists x, ICT refs cnt src [] = Ok x.
Proof.
  unfold inline_childrenT, parse_blockT.
  replace (2 * length src + 2 * length (@nil seg) + 8)%nat with (S (2 * length src + 7))%nat by (cbn [length]; lia).
  eexists. reflexivity.
Qed.

Lemma inline_childrenT_of_block refs cnt src lines c cnt' lo :
  parse_blockT typo space_table punct_table norm url_table email_table re_email_domain re_open_tag re_close_tag
    punct_rune space_rune uni_punct uni_space uni_digit uni_letter refs cnt src lines = Ok (c, cnt') ->
  HWF (i_h c) -> KOKh src lo (i_h c) -> Acyc (i_h c) -> exists x, ICT refs cnt src lines = Ok x.
Proof.
  intros E W K A. unfold inline_childrenT. rewrite E. cbn [bind].
  destruct (itreeT_root_total src lo (i_h c) W A K) as [t Et]. rewrite Et. cbn [bind]. eexists. reflexivity.
Qed.

(* the lines of the default configuration *)
Lemma inline_childrenT_total_lines_gen refs cnt src lines : lines_ok src lines -> exists x, ICT refs cnt src lines = Ok x.
Proof.
  intros Hlines. destruct lines as [|first l]; [apply inline_childrenT_nil|].
  destruct (tlines_ok_segs src (first :: l) Hlines) as [Hok Hpad].
  destruct (parse_blockT_spec typo space_table punct_table norm url_table email_table re_email_domain re_open_tag re_close_tag
              punct_rune space_rune uni_punct uni_space uni_digit uni_letter refs src (first :: l) first eq_refl Hopen Hclose cnt Hok Hpad)
    as (c & cnt' & E & W & K & A).
  exact (inline_childrenT_of_block refs cnt src (first :: l) c cnt' (s_start first) E W K A).
Qed.

(* one line, with padding or without *)
Lemma inline_childrenT_total_one_gen refs cnt src sg : seg_ok src sg -> exists x, ICT refs cnt src [sg] = Ok x.
Proof.
  intros Hok.
  destruct (parse_blockT_one typo space_table punct_table norm url_table email_table re_email_domain re_open_tag re_close_tag
              punct_rune space_rune uni_punct uni_space uni_digit uni_letter refs src [sg] sg eq_refl Hopen Hclose cnt eq_refl Hok)
    as (c & cnt' & E & W & K & A).
  exact (inline_childrenT_of_block refs cnt src [sg] c cnt' (s_start sg) E W K A).
Qed.
End Total.
