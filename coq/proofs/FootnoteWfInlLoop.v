(* Helper file for FootnoteWfInl.v: scan_lineF and parse_block_loopF of model/FootnoteParseInline.v
   keep the invariant "heap well formed and reader inside the block".  Ports of scan_line_ok and
   parse_block_loop_ok of proofs/ParseInlineRangeParsers.v to the drivers that thread the
   footnote state (fist). *)
Require Import GM.model.Base GM.model.Util GM.model.Reader GM.model.ReaderSpec GM.model.Blocks GM.model.ListItem
               GM.model.LeafBlocks GM.model.CodeSpan GM.model.LinkDest GM.model.Regex GM.model.Delim GM.model.HtmlWriter
               GM.model.Html GM.model.HtmlSpec GM.model.BlockParse GM.model.InlineParse
               GM.model.FootnoteX GM.model.FootnoteParseBlock GM.model.FootnoteParseInline.
Require Import GM.proofs.BReaderProofs GM.proofs.BlockRangeProofs GM.proofs.RegexProofs GM.proofs.ParseInv.
Require Import GM.proofs.ParseInlineRangeHeap GM.proofs.ParseInlineRangeReader GM.proofs.ParseInlineRangeParsers.
Require Import GM.proofs.FootnoteWfInlParsers.
From Coq Require Import ZArith Lia List Bool.
Import ListNotations.
Open Scope Z_scope.

Section Loop.
Variable space_table punct_table : list N.
Variable norm : bytes -> bytes.
Variable url_table email_table : list N.
Variable re_email_domain re_open_tag re_close_tag : re.
Variable punct_rune space_rune : N -> bool.
Variable refs : list (bytes * (bytes * option bytes)).
Variable src : bytes.
Variable lines : list seg.
Hypothesis Hsp32 : is_space space_table 32 = true.
Hypothesis Hsp10 : is_space space_table 10 = true.
Hypothesis Hsrc : bytes_ok src.
Hypothesis Hrefs : refs_ok refs.

Local Notation RI := (ParseInlineRangeReader.RI src lines).
Local Notation st_ok := (ParseInlineRangeParsers.st_ok src lines).
Local Notation scan_inv := (ParseInlineRangeParsers.scan_inv lines).
Local Notation ri_in_range_intro := (ParseInlineRangeParsers.ri_in_range_intro space_table norm src lines Hsp32 Hsp10).
Local Notation trim_right_in := (ParseInlineRangeParsers.trim_right_in space_table norm src Hsp32 Hsp10).
Local Notation try_inlineF_ok := (FootnoteWfInlParsers.try_inlineF_ok space_table punct_table norm url_table email_table
  re_email_domain re_open_tag re_close_tag punct_rune space_rune refs src lines Hsp32 Hsp10 Hsrc Hrefs).
Notation TRYF := (try_inlineF space_table punct_table norm url_table email_table re_email_domain re_open_tag re_close_tag
                  punct_rune space_rune refs).
Notation SCANF := (scan_lineF space_table punct_table norm url_table email_table re_email_domain re_open_tag re_close_tag
                  punct_rune space_rune refs).
Notation LOOPF := (parse_block_loopF space_table punct_table norm url_table email_table re_email_domain re_open_tag re_close_tag
                  punct_rune space_rune refs).

Lemma scan_lineF_ok : forall fuel line i line_length n escaped start_pos x parent out l0 L,
  SCANF fuel line i line_length n escaped start_pos x parent = Ok out ->
  st_ok (fi_s x) L -> pok (i_h (t_c (fi_s x))) parent -> scan_inv line l0 i n start_pos (fi_s x) ->
  match out with
  | inl (x', _) => exists L', st_ok (fi_s x') L' /\ kle (i_h (t_c (fi_s x))) (i_h (t_c (fi_s x')))
  | inr (x', n', sp') => exists L' i', st_ok (fi_s x') L' /\ kle (i_h (t_c (fi_s x))) (i_h (t_c (fi_s x'))) /\
                                         scan_inv line l0 i' n' sp' (fi_s x')
  end.
Proof.
  induction fuel as [|f IH]; intros line i line_length n escaped start_pos x parent out l0 L H Hs Hpar Hinv;
    cbn [scan_lineF] in H; [discriminate|].
  assert (Hstop : exists L' i', st_ok (fi_s x) L' /\ kle (i_h (t_c (fi_s x))) (i_h (t_c (fi_s x))) /\ scan_inv line l0 i' n start_pos (fi_s x)).
  { exists L, i. split; [exact Hs|]. split; [apply kle_refl|exact Hinv]. }
  destruct (line_length <=? i); [inversion H; subst out; exact Hstop|].
  destruct (zskip i line) as [|c tl] eqn:Ez; [inversion H; subst out; exact Hstop|].
  destruct (N.eqb c 10); [inversion H; subst out; exact Hstop|].
  assert (Hi : i < zlen line).
  { pose proof (zlen_zskip i line) as Hz. rewrite Ez, zlen_cons in Hz. pose proof (zlen_nonneg tl). destruct Hinv. lia. }
  match type of H with (_ <- ?X ;; _) = _ => destruct X as [r| |] eqn:Er end; cbn [bind] in H; try discriminate.
  (* the consultation of the inline parsers *)
  assert (Hr : match r with
               | inl x' => exists L', st_ok (fi_s x') L' /\ kle (i_h (t_c (fi_s x))) (i_h (t_c (fi_s x')))
               | inr (x', n', sp') => exists L', st_ok (fi_s x') L' /\ kle (i_h (t_c (fi_s x))) (i_h (t_c (fi_s x'))) /\
                                                  scan_inv line l0 i n' sp' (fi_s x')
               end).
  { match type of Er with match ?IPS with [] => _ | _ => _ end = _ => destruct IPS as [|ip0 ips0] eqn:Eips end.
    { inversion Er; subst r. exists L. split; [exact Hs|]. split; [apply kle_refl|exact Hinv]. }
    set (s := fi_s x) in *.
    destruct Hs as [Hc Hrd]. destruct Hinv as [I1 I2 I3 I4 I5 I6 I7].
    destruct (b_advance (t_r s) n) as [rd| |] eqn:Ea; cbn [bind] in Er; try discriminate.
    assert (Hfast : b_line rd = b_line (t_r s) /\ s_start (b_pos rd) = s_start (b_pos (t_r s)) + n /\
                    s_stop (b_pos rd) = s_stop (b_pos (t_r s))).
    { eapply ri_advance_fast; [exact Hrd| |exact Ea]. lia. }
    destruct Hfast as (Fl & Fs & Fe).
    assert (Hin : b_in_range (t_r s) = true) by (apply ri_in_range_intro; [exact Hrd|lia|lia]).
    destruct (ri_advance_in src lines (t_r s) n rd Hrd Hin) as [Hrd1 _]; [lia|exact Ea|].
    cbn [ist_r t_c t_r] in Er.
    (* flushing the pending text *)
    match type of Er with (_ <- ?X ;; _) = _ => destruct X as [[s1 sp1]| |] eqn:Et end; cbn [bind] in Er; try discriminate.
    assert (Ht : exists L1, st_ok s1 L1 /\ kle (i_h (t_c s)) (i_h (t_c s1)) /\ t_r s1 = rd /\
                 0 <= s_start sp1 <= s_start (b_pos rd) /\ s_pad sp1 = 0).
    { destruct (negb (i =? 0)).
      - destruct (seg_between start_pos (b_pos rd)) as [bt| |] eqn:Eb; cbn [bind] in Et; try discriminate.
        destruct (merge_or_append (t_c s) parent bt) as [c'| |] eqn:Em; cbn [bind] in Et; try discriminate.
        inversion Et; subst s1 sp1. clear Et.
        assert (Hbt : seg_in src bt = true).
        { unfold seg_between in Eb. destruct (s_stop start_pos =? s_stop (b_pos rd)); [|discriminate Eb]. inversion Eb; subst bt.
          pose proof (ri_bounds _ _ _ Hrd1). apply seg_in_intro; cbn [mksegp s_start s_stop s_pad]; try lia.
          rewrite I7, (ri_pad _ _ _ Hrd1). lia. }
        destruct (nstep_neutral src _ _ (fun Hh => merge_or_append_ok src _ _ _ _ Em Hh Hbt) [] L Hc) as [Hc' Hk'].
        exists L. split; [split; [exact Hc'|exact Hrd1]|]. split; [exact Hk'|]. split; [reflexivity|].
        split; [pose proof (ri_bounds _ _ _ Hrd1); lia|exact (ri_pad _ _ _ Hrd1)].
      - inversion Et; subst s1 sp1. exists L. split; [split; [exact Hc|exact Hrd1]|]. split; [apply kle_refl|].
        split; [reflexivity|]. split; [lia|exact I7]. }
    destruct Ht as (L1 & Hs1 & Hk1 & Er1 & Hsp1 & Hpad1).
    assert (Hpar1 : pok (i_h (t_c s1)) parent) by (eapply pok_kle; eassumption).
    destruct (TRYF (ip0 :: ips0) (fist_s x s1) parent (b_line rd) (b_pos rd)) as [[x2 node]| |] eqn:Etry; cbn [bind] in Er; try discriminate.
    destruct (try_inlineF_ok rd Hrd1 _ (fist_s x s1) _ _ _ L1 Hs1 Hpar1 ltac:(cbn [fi_s fist_s]; rewrite Er1; reflexivity)
                ltac:(cbn [fi_s fist_s]; rewrite Er1; reflexivity) Etry)
      as [(L2 & Hs2 & Hk2 & Hres2) Hpos2].
    cbn [fi_s fist_s] in Hs2, Hk2, Hres2.
    destruct node as [nd|].
    - destruct (i_append (i_h (t_c (fi_s x2))) parent nd) as [h| |] eqn:Eap; cbn [bind] in Er; try discriminate.
      inversion Er; subst r. clear Er. destruct Hs2 as [Hc2 Hr2].
      pose proof (i_append_spec _ _ _ _ Eap (h_tree _ _ (proj1 Hc2))) as Hat.
      assert (Hpar2 : pok (i_h (t_c (fi_s x2))) parent). { eapply pok_kle; [|exact Hpar]. eapply kle_trans; eassumption. }
      destruct (ctx_attach src _ _ _ _ _ _ Hc2 Hat (pok_edge _ _ _ Hpar2)) as [Hc3 Hk3].
      { destruct (Hres2 nd eq_refl) as [Hn|Hn]; [left; exact Hn|right; left; exact Hn]. }
      cbn [fi_s fist_s].
      exists L2. split; [split; [exact Hc3|exact Hr2]|]. cbn [ist_c t_c cx_h i_h].
      eapply kle_trans; [exact Hk1|]. eapply kle_trans; [exact Hk2|exact Hk3].
    - inversion Er; subst r. clear Er. destruct (Hpos2 eq_refl) as [Pl Pp].
      exists L2. split; [exact Hs2|]. split; [eapply kle_trans; eassumption|].
      constructor; rewrite ?Pl, ?Pp; try lia; try exact Hpad1. }
  destruct r as [x1|[[x1 n1] sp1]].
  - inversion H; subst out. exact Hr.
  - destruct Hr as (L1 & Hs1 & Hk1 & Hinv1).
    assert (Hnext : forall esc, SCANF f line (i + 1) line_length (n1 + 1) esc sp1 x1 parent = Ok out ->
             match out with
             | inl (x', _) => exists L', st_ok (fi_s x') L' /\ kle (i_h (t_c (fi_s x))) (i_h (t_c (fi_s x')))
             | inr (x', n', sp') => exists L' i', st_ok (fi_s x') L' /\ kle (i_h (t_c (fi_s x))) (i_h (t_c (fi_s x'))) /\
                                                    scan_inv line l0 i' n' sp' (fi_s x')
             end).
    { intros esc Hsc.
      assert (Hp1 : pok (i_h (t_c (fi_s x1))) parent) by (eapply pok_kle; eassumption).
      assert (Hi1 : scan_inv line l0 (i + 1) (n1 + 1) sp1 (fi_s x1)).
      { destruct Hinv1 as [I1 I2 I3 I4 I5 I6 I7]. constructor; try lia; assumption. }
      pose proof (IH line (i + 1) line_length (n1 + 1) esc sp1 x1 parent out l0 L1 Hsc Hs1 Hp1 Hi1) as IHr.
      destruct out as [[x' e']|[[x' n'] sp']].
      - destruct IHr as (L' & Hs' & Hk'). exists L'. split; [exact Hs'|eapply kle_trans; eassumption].
      - destruct IHr as (L' & i' & Hs' & Hk' & Hinv'). exists L', i'. split; [exact Hs'|]. split; [eapply kle_trans; eassumption|exact Hinv']. }
    destruct escaped; [apply Hnext in H; exact H|]. destruct (N.eqb c 92); apply Hnext in H; exact H.
Qed.

(* ---------- parseBlock: the loop over the lines ---------- *)
Lemma parse_block_loopF_ok : forall fuel x parent escaped x' L, LOOPF fuel x parent escaped = Ok x' ->
  st_ok (fi_s x) L -> pok (i_h (t_c (fi_s x))) parent ->
  exists L', st_ok (fi_s x') L' /\ kle (i_h (t_c (fi_s x))) (i_h (t_c (fi_s x'))).
Proof.
  induction fuel as [|f IH]; intros x parent escaped x' L H Hs Hpar; cbn [parse_block_loopF] in H; [discriminate|].
  destruct Hs as [Hc Hr]. set (s := fi_s x) in *.
  destruct (b_peek_line (t_r s)) as [[[r1 line] sg]| |] eqn:Ep; cbn [bind] in H; try discriminate.
  destruct (ri_peek _ _ _ _ _ _ Hr Ep) as (-> & -> & Hline).
  destruct line as [line|].
  2:{ inversion H; subst x'. cbn [fi_s fist_s ist_r t_c]. exists L. split; [split; assumption|apply kle_refl]. }
  destruct Hline as (Hin & Hv & Hl & Hp0 & Hp1 & Hp2 & Hlt).
  match type of H with context [match ?X with pair _ _ => _ end] =>
    match type of X with (Z * bool * bool * bool)%type => destruct X as [[[line_length hard] visible] soft] end end.
  cbn [fi_s fist_s ist_r t_c t_r] in H.
  destruct (SCANF (S (length line)) line 0 line_length 0 escaped (b_pos (t_r s)) (fist_s x (ist_r s (t_r s))) parent) as [out| |] eqn:Esc;
    cbn [bind] in H; try discriminate.
  assert (Hinv0 : scan_inv line (b_line (t_r s)) 0 0 (b_pos (t_r s)) (fi_s (fist_s x (ist_r s (t_r s))))).
  { pose proof (zlen_nonneg line). constructor; cbn [fi_s fist_s ist_r t_r]; try lia; try reflexivity. exact (ri_pad _ _ _ Hr). }
  pose proof (scan_lineF_ok _ _ _ _ _ _ _ _ _ _ _ L Esc (conj Hc Hr) Hpar Hinv0) as Hout.
  destruct out as [[x1 esc]|[[x1 n] sp]].
  - destruct Hout as (L1 & Hs1 & Hk1). cbn [fi_s fist_s ist_r t_c] in Hk1.
    destruct (IH _ _ _ _ L1 H Hs1) as (L2 & Hs2 & Hk2); [eapply pok_kle; eassumption|].
    exists L2. split; [exact Hs2|eapply kle_trans; eassumption].
  - destruct Hout as (L1 & i' & [Hc1 Hr1] & Hk1 & [I1 I2 I3 I4 I5 I6 I7]). cbn [fi_s fist_s ist_r t_c] in Hk1.
    set (s1 := fi_s x1) in *.
    assert (Hpar1 : pok (i_h (t_c s1)) parent) by (eapply pok_kle; eassumption).
    match type of H with (_ <- ?X ;; _) = _ => destruct X as [r2| |] eqn:Ea end; cbn [bind] in H; try discriminate.
    assert (Hr2 : RI r2 /\ pos_le (t_r s1) r2).
    { destruct (negb (n =? 0)) eqn:En.
      - apply negb_true_iff, Z.eqb_neq in En.
        assert (Hin1 : b_in_range (t_r s1) = true) by (apply ri_in_range_intro; [exact Hr1|lia|lia]).
        eapply ri_advance_in; [exact Hr1|exact Hin1| |exact Ea]. lia.
      - inversion Ea; subst r2. split; [exact Hr1|apply pos_le_refl]. }
    destruct Hr2 as [Hr2 Hpos2]. cbn [fi_s fist_s ist_r t_c t_r] in H.
    destruct (negb (b_line (t_r s) =? b_line r2)) eqn:Eline.
    { destruct (IH _ _ _ _ L1 H) as (L2 & Hs2 & Hk2); [split; [exact Hc1|exact Hr2]|exact Hpar1|].
      exists L2. split; [exact Hs2|eapply kle_trans; eassumption]. }
    apply negb_false_iff, Z.eqb_eq in Eline.
    destruct (seg_between sp (b_pos r2)) as [diff| |] eqn:Eb; cbn [bind] in H; try discriminate.
    assert (Hdiff : seg_in src diff = true).
    { unfold seg_between in Eb. destruct (s_stop sp =? s_stop (b_pos r2)); [|discriminate Eb]. inversion Eb; subst diff.
      destruct Hpos2 as [_ Hp2']. destruct (Hp2' ltac:(lia)) as [Hle _].
      pose proof (ri_bounds _ _ _ Hr2). apply seg_in_intro; cbn [mksegp s_start s_stop s_pad]; try lia.
      rewrite I7, (ri_pad _ _ _ Hr2). lia. }
    match type of H with (_ <- ?X ;; _) = _ => destruct X as [[c2 tseg]| |] eqn:Et end; cbn [bind] in H; try discriminate.
    assert (Ht : ctx_ok src [] c2 L1 /\ kle (i_h (t_c s1)) (i_h c2) /\ seg_in src tseg = true).
    { assert (Hsame : forall tg, seg_in src tg = true -> ctx_ok src [] (t_c s1) L1 /\ kle (i_h (t_c s1)) (i_h (t_c s1)) /\ seg_in src tg = true).
      { intros tg Htg. split; [exact Hc1|]. split; [apply kle_refl|exact Htg]. }
      destruct (hard && visible); [inversion Et; subst c2 tseg; apply Hsame; exact Hdiff|].
      rewrite (ri_src _ _ _ Hr2) in Et.
      destruct (seg_trim_right_space space_table src diff) as [trimmed| |] eqn:Etr; cbn [bind] in Et; try discriminate.
      pose proof (trim_right_in _ _ Hdiff Etr) as Htrim.
      destruct (seg_is_empty trimmed); [|inversion Et; subst c2 tseg; apply Hsame; exact Htrim].
      destruct (iget (i_h (t_c s1)) parent) as [pn| |]; cbn [bind] in Et; try discriminate.
      destruct (last_id (ich pn)) as [lst|]; [|inversion Et; subst c2 tseg; apply Hsame; exact Htrim].
      destruct (iget (i_h (t_c s1)) lst) as [ln| |] eqn:Eg; cbn [bind] in Et; try discriminate.
      apply iget_kd in Eg. destruct Eg as (Ekl & _).
      destruct (ik ln) as [|ts sf hd raw| | | | | | | |]; try (inversion Et; subst c2 tseg; apply Hsame; exact Htrim).
      destruct (_ && _ && _ && _); [|inversion Et; subst c2 tseg; apply Hsame; exact Htrim].
      destruct (seg_trim_right_space space_table src ts) as [ts'| |] eqn:Ets; cbn [bind] in Et; try discriminate.
      destruct (iupd (i_h (t_c s1)) lst _) as [h| |] eqn:Eu; cbn [bind] in Et; try discriminate.
      inversion Et; subst c2 tseg. clear Et.
      apply iupd_kind in Eu. destruct Eu as (_ & Lh & Kh & Ph & Ch).
      assert (Hst : kind_step (i_h (t_c s1)) h lst (IText ts' sf hd raw)) by (repeat split; assumption).
      pose proof (h_kind _ _ (proj1 Hc1) lst _ Ekl) as Hko. cbn in Hko.
      destruct (ctx_kind src _ _ _ _ _ _ _ Hc1 Hst Ekl eq_refl) as [Hc2 Hk2]; [cbn; lia|cbn; eapply trim_right_in; eassumption|].
      split; [exact Hc2|]. split; [exact Hk2|exact Htrim]. }
    destruct Ht as (Hc2 & Hk2 & Htseg).
    destruct (new_inode c2 (IText tseg soft hard false)) as [c3 tx] eqn:En.
    destruct (i_append (i_h c3) parent tx) as [h4| |] eqn:Eap; cbn [bind] in H; try discriminate.
    destruct (b_advance_line r2) as [r3| |] eqn:Eal; cbn [bind] in H; try discriminate.
    destruct (ctx_new src _ _ _ _ _ _ En Htseg Hc2) as (Hc3 & Hk3 & _ & Kx & _).
    pose proof (i_append_spec _ _ _ _ Eap (h_tree _ _ (proj1 Hc3))) as Hat.
    destruct (ctx_attach src _ _ _ _ _ _ Hc3 Hat) as [Hc4 Hk4].
    { eapply text_edge. exact Kx. }
    { left. eapply kd_dlk_none; [exact Kx|cbn; lia]. }
    destruct (ri_advance_line _ _ _ _ Hr2 Eal) as (Hr3 & _).
    assert (Hk04 : kle (i_h (t_c s)) h4).
    { eapply kle_trans; [exact Hk1|]. eapply kle_trans; [exact Hk2|]. eapply kle_trans; [exact Hk3|exact Hk4]. }
    destruct (IH _ _ _ _ L1 H) as (L2 & Hs2 & Hk5).
    + cbn [fi_s fist_s]. split; [exact Hc4|exact Hr3].
    + cbn [fi_s fist_s t_c cx_h i_h]. eapply pok_kle; [exact Hk04|exact Hpar].
    + exists L2. split; [exact Hs2|]. eapply kle_trans; [exact Hk04|exact Hk5].
Qed.

End Loop.
