(* C16 / C05 for the Footnote parser model, part 4: the walk over the blocks (walk_blocks) and the
   conversion of the transformed heap to the tree (to_treeF): the footnote numbers and link
   indices of the tree, its well-formedness. *)
Require Import GM.model.Base GM.model.Util GM.model.Reader GM.model.ListItem GM.model.Regex GM.model.HtmlWriter GM.model.Html GM.model.HtmlSpec
               GM.model.BlockParse GM.model.InlineParse GM.model.FootnoteX
               GM.model.FootnoteParseBlock GM.model.FootnoteParseInline GM.model.FootnoteParse.
Require Import GM.proofs.ParseInv GM.proofs.ParseCompose GM.proofs.ParseBlocksRangeA GM.proofs.ParseBlocksRangeB GM.proofs.ParseBlocksRangeK
               GM.proofs.FootnoteProofs GM.proofs.FootnoteConservativeTree
               GM.proofs.FootnoteWfDefs GM.proofs.FootnoteWfFs GM.proofs.FootnoteWfSort GM.proofs.FootnoteWfHeap GM.proofs.FootnoteWfXf.
From Coq Require Import List ZArith Lia Bool Permutation Sorted.
Import ListNotations.
Open Scope Z_scope.

(* ---------- the footnote numbers of a tree (the functions of proofs/FootnoteWf.v) ---------- *)
Fixpoint fw_links (t : tree) {struct t} : list Z :=
  match t with
  | Node k _ _ kids =>
    (match k with KFootnoteLink i _ _ => [i] | _ => [] end) ++
    (fix go (l : list tree) : list Z := match l with [] => [] | x :: r => fw_links x ++ go r end) kids
  end.
Fixpoint fw_items (t : tree) {struct t} : list Z :=
  match t with
  | Node k _ _ kids =>
    match k with
    | KFootnoteList => flat_map (fun x => match x with Node (KFootnote i) _ _ _ => [i] | _ => [] end) kids
    | _ => (fix go (l : list tree) : list Z := match l with [] => [] | x :: r => fw_items x ++ go r end) kids
    end
  end.
Definition item_of (x : tree) : list Z := match x with Node (KFootnote i) _ _ _ => [i] | _ => [] end.
Definition no_list (k : kind) : bool := match k with KFootnoteList => false | _ => true end.

Lemma fw_links_unfold k l a kids :
  fw_links (Node k l a kids) = (match k with KFootnoteLink i _ _ => [i] | _ => [] end) ++ flat_map fw_links kids.
Proof.
  cbn [fw_links]. f_equal; try reflexivity;
  (induction kids as [|x r IH]; [reflexivity|cbn [flat_map]; rewrite IH; reflexivity]).
Qed.
Lemma fw_items_unfold k l a kids :
  fw_items (Node k l a kids) = if no_list k then flat_map fw_items kids else flat_map item_of kids.
Proof.
  assert (E : (fix go (l : list tree) : list Z := match l with [] => [] | x :: r => fw_items x ++ go r end) kids = flat_map fw_items kids).
  { induction kids as [|x r IH]; [reflexivity|cbn [flat_map]; rewrite IH; reflexivity]. }
  destruct k; cbn [fw_items no_list]; try exact E. reflexivity.
Qed.

Lemma flat_map_nil {A B} (f : A -> list B) l : (forall x, In x l -> f x = []) -> flat_map f l = [].
Proof.
  induction l as [|x l IH]; intros H; [reflexivity|]. cbn [flat_map]. rewrite (H x (or_introl eq_refl)).
  apply IH. intros y Hy. apply H. right. exact Hy.
Qed.

Lemma fw_links_link_nodes t : fw_links t = map fst (link_nodes t).
Proof.
  induction t as [k l a kids IH] using tree_ind_forall. rewrite fw_links_unfold, link_nodes_unfold, map_app. f_equal.
  - destruct k; reflexivity.
  - induction IH as [|x r Hx _ IHr]; [reflexivity|]. cbn [flat_map]. rewrite map_app, Hx, IHr. reflexivity.
Qed.

Lemma no_list_items t : all_kinds no_list t = true -> fw_items t = [].
Proof.
  induction t as [k l a kids IH] using tree_ind_forall. rewrite fw_all_kinds_unfold, fw_items_unfold. intros H.
  apply andb_true_iff in H. destruct H as [Hk Hkids]. rewrite Hk. apply flat_map_nil. intros x Hx.
  rewrite Forall_forall in IH. apply IH; [exact Hx|]. rewrite forallb_forall in Hkids. apply Hkids. exact Hx.
Qed.

Lemma all_kinds_impl (p q : kind -> bool) t : (forall k, p k = true -> q k = true) -> all_kinds p t = true -> all_kinds q t = true.
Proof.
  intros Hpq. induction t as [k l a kids IH] using tree_ind_forall. rewrite !fw_all_kinds_unfold. intros H.
  apply andb_true_iff in H. destruct H as [Hk Hkids]. rewrite (Hpq k Hk). cbn [andb].
  apply forallb_forall. intros x Hx. rewrite Forall_forall in IH. apply IH; [exact Hx|].
  rewrite forallb_forall in Hkids. apply Hkids. exact Hx.
Qed.

(* ---------- renumber ---------- *)
Lemma renumber_unfold fl k l a kids :
  renumber fl (Node k l a kids) =
  Node (match k with
        | KFootnoteLink idx rc serial =>
          match nth_error fl (Z.to_nat serial) with
          | Some x => KFootnoteLink (l_index x) (l_refcount x) (l_refindex x)
          | None => k
          end
        | _ => k
        end) l a (map (renumber fl) kids).
Proof. reflexivity. Qed.

Lemma link_ok_app links more p : link_ok links p -> link_ok (links ++ more) p.
Proof.
  intros [H1 H2]. split; [exact H1|]. rewrite nth_error_app1; [exact H2|]. apply nth_error_Some. congruence.
Qed.

Lemma renumber_links links t : Forall (link_ok links) (link_nodes t) ->
  fw_links (renumber (number_links links [] links) t) = fw_links t.
Proof.
  induction t as [k l a kids IH] using tree_ind_forall. rewrite link_nodes_unfold, renumber_unfold. intros H.
  apply Forall_app in H. destruct H as [Hk Hkids]. rewrite !fw_links_unfold. f_equal.
  - destruct k; try reflexivity.
    destruct (nth_error (number_links links [] links) (Z.to_nat refidx)) as [x|] eqn:E; [|reflexivity].
    apply Forall_inv in Hk. destruct Hk as [_ Hk]. cbn [fst snd] in Hk.
    apply (map_nth_error l_index) in E. rewrite number_links_index in E. congruence.
  - induction IH as [|x r Hx _ IHr]; [reflexivity|]. cbn [map flat_map] in *. apply Forall_app in Hkids. destruct Hkids as [H1 H2].
    rewrite (Hx H1), (IHr H2). reflexivity.
Qed.

Lemma renumber_kinds fl (q : kind -> bool) t : (forall a b c, q (KFootnoteLink a b c) = true) ->
  all_kinds q t = true -> all_kinds q (renumber fl t) = true.
Proof.
  intros Hq. induction t as [k l a kids IH] using tree_ind_forall. rewrite renumber_unfold, !fw_all_kinds_unfold. intros H.
  apply andb_true_iff in H. destruct H as [Hk Hkids]. apply andb_true_iff. split.
  - destruct k; try exact Hk. destruct (nth_error fl (Z.to_nat refidx)); [apply Hq|exact Hk].
  - apply forallb_forall. intros y Hy. apply in_map_iff in Hy. destruct Hy as [x [<- Hx]].
    rewrite Forall_forall in IH. apply IH; [exact Hx|]. rewrite forallb_forall in Hkids. apply Hkids. exact Hx.
Qed.

Lemma renumber_text fl t : is_text_node (renumber fl t) = is_text_node t.
Proof.
  destruct t as [k l a kids]. rewrite renumber_unfold. unfold is_text_node. cbn [t_kind].
  destruct k; try reflexivity. destruct (nth_error fl (Z.to_nat refidx)); reflexivity.
Qed.

Definition iq (k : kind) : bool := inline_kind k || match k with KFootnoteLink _ _ _ => true | _ => false end.

Lemma renumber_wf src fl : forall t it ir, all_kinds iq t = true -> wf_node src it ir t = true -> wf_node src it ir (renumber fl t) = true.
Proof.
  induction t as [k l a kids IH] using tree_ind_forall. intros it ir Hq H. rewrite renumber_unfold.
  rewrite fw_all_kinds_unfold in Hq. apply andb_true_iff in Hq. destruct Hq as [Hqk Hqkids].
  rewrite wf_node_unfold in *. apply andb_true_iff in H. destruct H as [H Hkids]. apply andb_true_iff in H. destruct H as [Hn Hc].
  assert (Hkids' : forall it' ir', forallb (wf_node src it' ir') kids = true -> forallb (wf_node src it' ir') (map (renumber fl) kids) = true).
  { intros it' ir' Hf. apply forallb_forall. intros y Hy. apply in_map_iff in Hy. destruct Hy as [x [<- Hx]].
    rewrite Forall_forall in IH. rewrite forallb_forall in Hqkids. apply IH; [exact Hx|apply Hqkids; exact Hx|].
    rewrite forallb_forall in Hf. apply Hf. exact Hx. }
  destruct k; try discriminate Hqk;
    try (rewrite (Hkids' _ _ Hkids), andb_true_r; apply andb_true_iff; split; [exact Hn|exact Hc]).
  - (* code span: the children are text nodes *)
    rewrite (Hkids' _ _ Hkids), andb_true_r. apply andb_true_iff; split; [|exact Hc]. unfold node_ok in *.
    apply andb_true_iff in Hn. destruct Hn as [Hn1 Hn2]. rewrite Hn1. cbn [andb].
    rewrite forallb_forall in *. intros y Hy. apply in_map_iff in Hy. destruct Hy as [x [<- Hx]].
    rewrite renumber_text. apply Hn2. exact Hx.
  - (* footnote link *)
    destruct (nth_error fl (Z.to_nat refidx)); (rewrite (Hkids' _ _ Hkids), andb_true_r; apply andb_true_iff; split; [exact Hn|exact Hc]).
Qed.

(* ---------- the walk over the blocks ---------- *)
Section Walk.
Variable space_table : list N.
Variable src : bytes.
Variable inline_of : fstate -> list seg -> result (list tree * fstate).
Variable h : heap.
Variable I : fstate -> list (nat * list tree) -> Prop.
Hypothesis HSh : heapS space_table src h.
Hypothesis step : forall fs acc i n y, I fs acc -> nth_error h i = Some n -> block_has_inlines n = true ->
  (i = 0%nat \/ bpar n <> None) -> inline_of fs (blines n) = Ok y -> I (snd y) (acc ++ [(i, fst y)]).

Lemma walk_blocks_inv : forall fuel i fs acc r,
  (i = 0%nat \/ exists n, nth_error h i = Some n /\ bpar n <> None) -> I fs acc ->
  walk_blocks inline_of fuel h i fs acc = Ok r -> I (fst r) (snd r).
Proof.
  induction fuel as [|f IH]; intros i fs acc r Hi HI H; [discriminate|].
  rewrite walk_blocks_unfold in H. fw_bind H n Hn. apply hget_ok in Hn. fw_bind H r1 Hr1.
  assert (Hatt : i = 0%nat \/ bpar n <> None).
  { destruct Hi as [->|[n' [En' Hp]]]; [left; reflexivity|right; congruence]. }
  assert (Hlist : forall l fs1 acc1 r', (forall c, In c l -> In c (bch n)) -> I fs1 acc1 ->
            walk_list inline_of f h l fs1 acc1 = Ok r' -> I (fst r') (snd r')).
  { induction l as [|c l IHl]; intros fs1 acc1 r' Hsub HI1 Hw; cbn [walk_list] in Hw.
    - injection Hw as <-. exact HI1.
    - fw_bind Hw y Hy. apply (IHl (fst y) (snd y) r'); [intros c' Hc'; apply Hsub; right; exact Hc'| |exact Hw].
      apply (IH c fs1 acc1 y); [|exact HI1|exact Hy]. right.
      destruct (hs_K _ _ _ HSh i n c Hn (Hsub c (or_introl eq_refl))) as [nc [Ec Pc]]. exists nc. split; [exact Ec|congruence]. }
  pose proof (Hlist (bch n) fs acc r1 (fun c Hc => Hc) HI Hr1) as HI1. destruct r1 as [fs1 acc1]. cbn [fst snd] in HI1.
  destruct (block_has_inlines n) eqn:Eb.
  - fw_bind H y Hy. injection H as <-. cbn [fst snd]. eapply step; eassumption.
  - injection H as <-. exact HI1.
Qed.
End Walk.

(* ---------- from the transformed heap to the tree ---------- *)
Lemma kind_of_no_fn src n k : kind_of src n = Ok k -> no_list k = true /\ (forall i, k <> KFootnote i) /\ (forall a b c, k <> KFootnoteLink a b c).
Proof.
  unfold kind_of. intros H. destruct (bk n); try (injection H as <-; repeat split; discriminate).
  destruct (b_seg n) as [sg|]; [fw_bind H v Hv|]; injection H as <-; repeat split; discriminate.
Qed.

Lemma Forall2_flat_map {A B C} (R : A -> B -> Prop) (f : B -> list C) (g : A -> list C) l l' :
  Forall2 R l l' -> (forall x y, In x l -> R x y -> f y = g x) -> flat_map f l' = flat_map g l.
Proof.
  induction 1 as [|x y l l' Hxy _ IH]; intros Hf; [reflexivity|]. cbn [flat_map].
  rewrite (Hf x y (or_introl eq_refl) Hxy). f_equal. apply IH. intros x' y' Hin HR. apply (Hf x' y'); [right; exact Hin|exact HR].
Qed.

Section Tree.
Variable space_table : list N.
Variable src : bytes.
Variable p : fpost.
Notation HS := (HS space_table src).
Hypothesis HSp : HS (fp_h p).
Hypothesis Hback : forall i k, lookup_id (fp_back p) i = Some k -> is_backlink k = true.

(* the link indices of the tree *)
Lemma to_treeF_links (P : Z -> Prop) :
  (forall i ts t, In (i, ts) (fp_inl p) -> In t ts -> Forall P (fw_links t)) ->
  forall fuel i t, to_treeF fuel src p i = Ok t -> Forall P (fw_links t).
Proof.
  intros Hinl. induction fuel as [|f IH]; intros i t H; [discriminate|]. rewrite to_treeF_unfold in H.
  destruct (lookup_id (fp_back p) i) as [k|] eqn:Eb.
  { injection H as <-. specialize (Hback i k Eb). destruct k; try discriminate. constructor. }
  fw_bind H n Hn. destruct (block_has_inlines n).
  - fw_bind H k Hk. injection H as <-. rewrite fw_links_unfold. destruct (kind_of_no_fn _ _ _ Hk) as (_ & _ & K3).
    apply Forall_app. split; [destruct k; try solve [constructor]; exfalso; eapply K3; reflexivity|].
    destruct (lookup_id (fp_inl p) i) as [ts|] eqn:Ei; [|constructor].
    apply lookup_id_in in Ei. apply Forall_forall. intros x Hx. apply in_flat_map in Hx. destruct Hx as [t [Ht Hx]].
    pose proof (Hinl i ts t Ei Ht) as HP. rewrite Forall_forall in HP. apply HP. exact Hx.
  - fw_bind H k Hk. fw_bind H kids Hkids. injection H as <-. rewrite fw_links_unfold.
    apply Forall_app. split.
    + destruct (is_footnote_node n); [injection Hk as <-; constructor|].
      destruct (is_fnlist_node n); [injection Hk as <-; constructor|].
      destruct (kind_of_no_fn _ _ _ Hk) as (_ & _ & K3). destruct k; try solve [constructor]. exfalso. eapply K3; reflexivity.
    + apply fw_map_res_forall2 in Hkids. apply Forall_forall. intros x Hx. apply in_flat_map in Hx. destruct Hx as [t [Ht Hx]].
      assert (Hall : Forall (fun y => Forall P (fw_links y)) kids).
      { clear -Hkids IH. induction Hkids as [|a b la lb Hab _ IHk]; constructor; [eapply IH; exact Hab|exact IHk]. }
      rewrite Forall_forall in Hall. specialize (Hall t Ht). rewrite Forall_forall in Hall. apply Hall. exact Hx.
Qed.

(* the footnote numbers of the tree: below a node that is neither the document nor the list there is no list *)
Variable l : nat.
Hypothesis Hinl : forall i ts t, In (i, ts) (fp_inl p) -> In t ts -> all_kinds no_list t = true.
Hypothesis Hfnl : forall j n, lookup_id (fp_back p) j = None -> nth_error (fp_h p) j = Some n -> is_fnlist_node n = true -> j = l.
Hypothesis Hpar : forall q nq, nth_error (fp_h p) q = Some nq -> In l (bch nq) -> q = 0%nat.

Lemma child_not_root i n c : nth_error (fp_h p) i = Some n -> In c (bch n) -> c <> 0%nat.
Proof.
  intros Hn Hc ->. destruct (hs_K _ _ _ (proj1 HSp) i n 0%nat Hn Hc) as [n0 [E0 P0]].
  destruct (hs_root _ _ _ (proj1 HSp)) as [n0' [E0' [_ P0']]]. congruence.
Qed.

Lemma to_treeF_items_nil : forall fuel i t, i <> l -> i <> 0%nat -> to_treeF fuel src p i = Ok t -> fw_items t = [].
Proof.
  induction fuel as [|f IH]; intros i t Hil Hi0 H; [discriminate|]. rewrite to_treeF_unfold in H.
  destruct (lookup_id (fp_back p) i) as [k|] eqn:Eb.
  { injection H as <-. specialize (Hback i k Eb). destruct k; try discriminate. reflexivity. }
  fw_bind H n Hn. apply hget_ok in Hn. destruct (block_has_inlines n).
  - fw_bind H k Hk. injection H as <-. rewrite fw_items_unfold. destruct (kind_of_no_fn _ _ _ Hk) as (K1 & _ & _). rewrite K1.
    destruct (lookup_id (fp_inl p) i) as [ts|] eqn:Ei; [|reflexivity].
    apply lookup_id_in in Ei. apply flat_map_nil. intros x Hx. apply no_list_items. eapply Hinl; eassumption.
  - fw_bind H k Hk. fw_bind H kids Hkids. injection H as <-. rewrite fw_items_unfold.
    assert (K1 : no_list k = true).
    { destruct (is_footnote_node n); [injection Hk as <-; reflexivity|].
      destruct (is_fnlist_node n) eqn:El; [exfalso; apply Hil; eapply Hfnl; eassumption|].
      apply (kind_of_no_fn _ _ _ Hk). }
    rewrite K1. apply fw_map_res_forall2 in Hkids. apply flat_map_nil. intros y Hy.
    assert (Hall0 : forall cs ks, (forall c, In c cs -> In c (bch n)) ->
              Forall2 (fun x y => to_treeF f src p x = Ok y) cs ks -> Forall (fun y => fw_items y = []) ks).
    { intros cs ks Hsub HF. induction HF as [|c b la lb Hab _ IHk]; constructor.
      - apply (IH c b); [| |exact Hab].
        + intros ->. apply Hi0. eapply Hpar; [exact Hn|]. apply Hsub. left. reflexivity.
        + eapply child_not_root; [exact Hn|]. apply Hsub. left. reflexivity.
      - apply IHk. intros c' Hc'. apply Hsub. right. exact Hc'. }
    pose proof (Hall0 (bch n) kids (fun c Hc => Hc) Hkids) as Hall.
    rewrite Forall_forall in Hall. apply Hall. exact Hy.
Qed.

(* the list node itself *)
Lemma to_treeF_items_list fuel ln t : nth_error (fp_h p) l = Some ln -> is_fnlist_node ln = true ->
  lookup_id (fp_back p) l = None ->
  (forall c, In c (bch ln) -> lookup_id (fp_back p) c = None /\ exists cn, nth_error (fp_h p) c = Some cn /\ is_footnote_node cn = true) ->
  to_treeF fuel src p l = Ok t -> fw_items t = map (idx_of (fp_h p)) (bch ln).
Proof.
  intros El Hl Eb Hch H. destruct fuel as [|f]; [discriminate|]. rewrite to_treeF_unfold, Eb in H.
  rewrite (proj2 (hget_ok _ _ _) El) in H. cbn [bind] in H.
  assert (Kl : bk ln = BBlockquote /\ b_i1 ln = 2).
  { unfold is_fnlist_node, fn_list in Hl. apply andb_true_iff in Hl. destruct Hl as [H1 H2]. apply Z.eqb_eq in H2.
    split; [destruct (bk ln); try discriminate; reflexivity|exact H2]. }
  destruct Kl as [Kl Il].
  assert (block_has_inlines ln = false) as Hb by (unfold block_has_inlines; rewrite Kl; reflexivity). rewrite Hb in H.
  assert (is_footnote_node ln = false) as Hf.
  { unfold is_footnote_node, fn_footnote. rewrite Il. rewrite andb_false_r. reflexivity. }
  rewrite Hf, Hl in H. cbn [bind] in H. fw_bind H kids Hkids. injection H as <-.
  rewrite fw_items_unfold. cbn [no_list]. apply fw_map_res_forall2 in Hkids.
  rewrite <- (flat_map_concat_map (fun c => [idx_of (fp_h p) c])) at 1 || idtac.
  assert (E : flat_map item_of kids = flat_map (fun c => [idx_of (fp_h p) c]) (bch ln)).
  { apply (Forall2_flat_map (fun c y => to_treeF f src p c = Ok y)); [exact Hkids|].
    intros c y Hc Hy. destruct (Hch c Hc) as [Ebc [cn [Ecn Hfc]]].
    destruct f as [|f']; [discriminate|]. rewrite to_treeF_unfold, Ebc in Hy.
    rewrite (proj2 (hget_ok _ _ _) Ecn) in Hy. cbn [bind] in Hy.
    assert (block_has_inlines cn = false) as Hbc.
    { unfold is_footnote_node in Hfc. apply andb_true_iff in Hfc. destruct Hfc as [H1 _]. unfold block_has_inlines.
      destruct (bk cn); try discriminate; reflexivity. }
    rewrite Hbc, Hfc in Hy. cbn [bind] in Hy. fw_bind Hy ks Hks. injection Hy as <-. cbn [item_of].
    unfold idx_of. rewrite Ecn. reflexivity. }
  rewrite E. clear. induction (bch ln) as [|c cs IH]; [reflexivity|]. cbn [flat_map map app]. rewrite IH. reflexivity.
Qed.

(* the document *)
Lemma root_flat (R : nat -> tree -> Prop) L : forall cs ks, NoDup cs -> Forall2 R cs ks ->
  (forall c y, In c cs -> c <> l -> R c y -> fw_items y = []) -> (forall y, R l y -> fw_items y = L) ->
  flat_map fw_items ks = if in_dec Nat.eq_dec l cs then L else [].
Proof.
  intros cs ks Hnd HF. induction HF as [|c y cs ks Hcy _ IH]; intros H1 H2.
  - reflexivity.
  - apply NoDup_cons_iff in Hnd. destruct Hnd as [Hni Hnd]. cbn [flat_map].
    rewrite (IH Hnd (fun c' y' Hc' => H1 c' y' (or_intror Hc')) H2).
    destruct (Nat.eq_dec c l) as [->|Hne].
    + rewrite (H2 y Hcy). destruct (in_dec Nat.eq_dec l cs) as [Hin|_]; [contradiction|].
      destruct (in_dec Nat.eq_dec l (l :: cs)) as [_|Hn]; [apply app_nil_r|exfalso; apply Hn; left; reflexivity].
    + rewrite (H1 c y (or_introl eq_refl) Hne Hcy). cbn [app].
      destruct (in_dec Nat.eq_dec l cs) as [Hin|Hn]; destruct (in_dec Nat.eq_dec l (c :: cs)) as [Hin'|Hn']; try reflexivity.
      * exfalso. apply Hn'. right. exact Hin.
      * exfalso. destruct Hin' as [E|Hin']; [congruence|contradiction].
Qed.

Lemma to_treeF_items_root fuel t L : l <> 0%nat -> lookup_id (fp_back p) 0 = None ->
  (forall f y, to_treeF f src p l = Ok y -> fw_items y = L) ->
  to_treeF fuel src p 0%nat = Ok t ->
  exists n0, nth_error (fp_h p) 0 = Some n0 /\ fw_items t = if in_dec Nat.eq_dec l (bch n0) then L else [].
Proof.
  intros Hl0 Eb HL H. destruct fuel as [|f]; [discriminate|]. rewrite to_treeF_unfold, Eb in H.
  destruct (hs_root _ _ _ (proj1 HSp)) as [n0 [E0 [K0 P0]]]. exists n0. split; [exact E0|].
  rewrite (proj2 (hget_ok _ _ _) E0) in H. cbn [bind] in H.
  assert (block_has_inlines n0 = false) as Hb by (unfold block_has_inlines; rewrite K0; reflexivity).
  assert (is_footnote_node n0 = false) as Hf by (unfold is_footnote_node; rewrite K0; reflexivity).
  assert (is_fnlist_node n0 = false) as Hg by (unfold is_fnlist_node; rewrite K0; reflexivity).
  rewrite Hb, Hf, Hg in H. fw_bind H k Hk. fw_bind H kids Hkids. injection H as <-.
  destruct (kind_of_no_fn _ _ _ Hk) as (K1 & _ & _). rewrite fw_items_unfold, K1.
  apply fw_map_res_forall2 in Hkids.
  apply (root_flat (fun c y => to_treeF f src p c = Ok y) L (bch n0) kids); [exact (hs_nd _ _ _ (proj1 HSp) 0%nat n0 E0)|exact Hkids| |].
  - intros c y Hc Hcl Hy. apply (to_treeF_items_nil f c y Hcl); [|exact Hy]. eapply child_not_root; eassumption.
  - intros y Hy. eapply HL. exact Hy.
Qed.

End Tree.

(* ---------- well-formedness of the tree ---------- *)
Section TreeWf.
Variable space_table : list N.
Variable src : bytes.
Variable p : fpost.
Notation HS := (HS space_table src).
Hypothesis sp32 : is_space space_table 32%N = true.
Hypothesis Hsrc : bytes_ok src.
Hypothesis HSp : HS (fp_h p).
Hypothesis Hback : forall i k, lookup_id (fp_back p) i = Some k -> is_backlink k = true.
Hypothesis Hinl : forall i ts t, In (i, ts) (fp_inl p) -> In t ts -> wf_node src false false t = true.

Lemma to_treeF_wf : forall fuel i t,
  (lookup_id (fp_back p) i <> None \/ i = 0%nat \/ exists n, nth_error (fp_h p) i = Some n /\ bpar n <> None) ->
  to_treeF fuel src p i = Ok t -> wf_node src false false t = true.
Proof.
  induction fuel as [|f IH]; intros i t Hi H; [discriminate|]. rewrite to_treeF_unfold in H.
  destruct (lookup_id (fp_back p) i) as [k|] eqn:Eb.
  { injection H as <-. specialize (Hback i k Eb). destruct k; try discriminate. reflexivity. }
  fw_bind H n Hn. apply hget_ok in Hn.
  destruct HSp as [HS1 HJ].
  pose proof (hs_node _ _ _ HS1 i n Hn) as HP.
  assert (Hfin : fin src n).
  { destruct Hi as [Hi|[->|[n' [En' Hp]]]]; [contradiction| |].
    - destruct (hs_root _ _ _ HS1) as [n0 [E0 [K0 _]]]. assert (n0 = n) by congruence. subst. apply fin_other; rewrite K0; discriminate.
    - assert (n' = n) by congruence. subst. destruct (HJ i n Hn Hp) as [Hf|[]]. exact Hf. }
  pose proof (K_segs_in space_table [] (fun x => x) RNone RNone RNone RNone RNone RNone RNone RNone [] src sp32 Hsrc _ (np_lines _ _ _ HP)) as Hlines.
  destruct (block_has_inlines n) eqn:Ebi.
  - fw_bind H k Hk. injection H as <-.
    destruct (K_kind_of space_table [] (fun x => x) RNone RNone RNone RNone RNone RNone RNone RNone [] src sp32 Hsrc n k
                (match lookup_id (fp_inl p) i with Some ts => ts | None => [] end) HP Hfin Hk) as (Hnode & Hcell & Htab & Hrow & _).
    rewrite wf_node_unfold, Hnode, Hcell, Htab, Hrow. cbn [andb].
    destruct (lookup_id (fp_inl p) i) as [ts|] eqn:Ei; [|reflexivity].
    apply lookup_id_in in Ei. apply forallb_forall. intros x Hx. eapply Hinl; eassumption.
  - fw_bind H k Hk. fw_bind H kids Hkids. injection H as <-. apply fw_map_res_forall2 in Hkids.
    assert (Hall : forallb (wf_node src false false) kids = true).
    { assert (Hall0 : forall cs ks, (forall c, In c cs -> In c (bch n)) ->
                Forall2 (fun x y => to_treeF f src p x = Ok y) cs ks -> forallb (wf_node src false false) ks = true).
      { intros cs ks Hsub HF. induction HF as [|c b la lb Hab _ IHk]; [reflexivity|]. cbn [forallb].
        rewrite (IH c b); [cbn [andb]; apply IHk; intros c' Hc'; apply Hsub; right; exact Hc'| |exact Hab].
        right. right. destruct (hs_K _ _ _ HS1 i n c Hn (Hsub c (or_introl eq_refl))) as [nc [Ec Pc]].
        exists nc. split; [exact Ec|congruence]. }
      exact (Hall0 (bch n) kids (fun c Hc => Hc) Hkids). }
    destruct (is_footnote_node n).
    { injection Hk as <-. rewrite wf_node_unfold. unfold node_ok. rewrite Hlines, Hall. reflexivity. }
    destruct (is_fnlist_node n).
    { injection Hk as <-. rewrite wf_node_unfold. unfold node_ok. rewrite Hlines, Hall. reflexivity. }
    destruct (K_kind_of space_table [] (fun x => x) RNone RNone RNone RNone RNone RNone RNone RNone [] src sp32 Hsrc n k
                kids HP Hfin Hk) as (Hnode & Hcell & Htab & Hrow & _).
    rewrite wf_node_unfold, Hnode, Hcell, Htab, Hrow, Hall. reflexivity.
Qed.
End TreeWf.
