(* Helper library for TypoDefWfBlk.v, part M: attaching a newly opened block; facts about the opened-blocks slice. *)
Require Import GM.model.Base GM.model.Util GM.model.Reader GM.model.ReaderSpec GM.model.Blocks GM.model.ListItem
               GM.model.LeafBlocks GM.model.CodeBlock GM.model.LinkDest GM.model.Regex GM.model.HtmlWriter
               GM.model.Html GM.model.HtmlSpec GM.model.BlockParse GM.model.InlineParse GM.model.TypoDefParseD.
Require Import GM.proofs.ReaderProofs GM.proofs.BlockRangeProofs GM.proofs.ParseInv
               GM.proofs.ParseBlocksRangeA GM.proofs.TypoDefWfBlkB GM.proofs.TypoDefWfBlkT GM.proofs.TypoDefWfBlkC
               GM.proofs.TypoDefWfBlkD GM.proofs.TypoDefWfBlkE.
From Coq Require Import ZArith Lia Sorted.
Open Scope Z_scope.

Section M.
Variable space_table punct_table : list N.
Variable norm : bytes -> bytes.
Variable re_t1o re_t1c re_t2 re_t3 re_t4 re_t5 re_t6 re_t7 : re.
Variable allowed_tags : list bytes.
Variable src : bytes.
Hypothesis sp32 : is_space space_table 32%N = true.
Set Default Proof Using "All".

(* lemmas of parts C and D take all the section variables: CC supplies them *)
Notation CC f := (f space_table punct_table norm re_t1o re_t1c re_t2 re_t3 re_t4 re_t5 re_t6 re_t7 allowed_tags src sp32) (only parsing).
Notation SInv := (SInv space_table src).
Notation HI := (HI space_table src).
Notation nodeP := (nodeP space_table src).
Notation heapS := (heapS space_table src).
Notation Jinv := (Jinv src).
Notation openS := (openS src).
Notation pline := (pline space_table src).
Notation oline := (oline src).
Notation fin_lines := (fin_lines src).
Notation fin := (fin src).
Notation cont_post := (cont_post space_table src).
Notation item_guard := (item_guard space_table).
Notation verdict := (verdict space_table).
Notation CE f := (f space_table punct_table norm re_t1o re_t1c re_t2 re_t3 re_t4 re_t5 re_t6 re_t7 allowed_tags src sp32) (only parsing).
Notation OInv := (OInv space_table src).

(* ---------- the opened-blocks slice ---------- *)
Lemma Oeq_same c c' E : Oeq c E -> c_arr c' = c_arr c -> c_len c' = c_len c -> Oeq c' E.
Proof. unfold Oeq, opened. intros [H1 H2] -> ->. auto. Qed.

Lemma Oeq_len c E : Oeq c E -> c_len c = length E.
Proof. unfold Oeq, opened. intros [H1 H2]. rewrite <- H1, firstn_length. lia. Qed.

Lemma Oeq_push c E be : Oeq c E -> Oeq (push_opened c be) (E ++ [be]).
Proof.
  intros [H1 H2]. unfold Oeq, opened, push_opened in *. cbn [cset_open c_arr c_len].
  assert (length (firstn (c_len c) (c_arr c)) = c_len c) as Hl by (rewrite firstn_length; lia).
  split.
  - rewrite firstn_app, Hl. replace (S (c_len c) - c_len c)%nat with 1%nat by lia.
    rewrite firstn_all2 by lia. cbn [app firstn]. rewrite H1. reflexivity.
  - rewrite app_length, Hl. cbn [app length]. lia.
Qed.

Lemma firstn_app_exact' {X} (a b : list X) : firstn (length a) (a ++ b) = a.
Proof. rewrite firstn_app, Nat.sub_diag, firstn_all. cbn [firstn]. apply app_nil_r. Qed.

Lemma Oeq_pop c E e : Oeq c (E ++ [e]) -> Oeq (cset_open c (c_arr c) (pred (c_len c))) E.
Proof.
  intros H. pose proof (Oeq_len _ _ H) as Hl. destruct H as [H1 H2]. unfold Oeq, opened in *. cbn [cset_open c_arr c_len].
  rewrite app_length in Hl. cbn [length] in Hl. split; [|lia].
  replace (pred (c_len c)) with (length E) by lia.
  transitivity (firstn (length E) (firstn (c_len c) (c_arr c))).
  - rewrite firstn_firstn. f_equal. lia.
  - rewrite H1. apply firstn_app_exact'.
Qed.

Lemma Oeq_last c E e : Oeq c (E ++ [e]) -> last_opened c = Some e.
Proof.
  intros H. pose proof (CC last_opened_spec _ _ H) as Hs. destruct (last_opened c) as [e'|].
  - destruct Hs as [E' HE]. apply app_inj_tail in HE. destruct HE as [_ ->]. reflexivity.
  - destruct E; discriminate.
Qed.
Lemma Oeq_last_nil c : Oeq c [] -> last_opened c = None.
Proof.
  intros H. pose proof (CC last_opened_spec _ _ H) as Hs. destruct (last_opened c) as [e'|]; [|reflexivity].
  destruct Hs as [E' HE]. destruct E'; discriminate.
Qed.

(* ---------- opened blocks are attached ---------- *)
(* the blocks of the spine are attached *)
Lemma spine_attached fl s A D N x : SInv fl s A D N -> In x (ids (A ++ N)) ->
  exists q nx, nth_error (s_h s) x = Some nx /\ bpar nx = Some q.
Proof.
  intros [_ HH] Hin. pose proof (hi_heap _ _ _ _ _ _ _ _ HH) as HS. pose proof (hi_open _ _ _ _ _ _ _ _ HH) as HO.
  eapply chain_attached; [exact HS|apply spineL_chainL; exact (os_spine _ _ _ _ _ _ HO)|exact Hin].
Qed.
(* so is the last opened block (a paragraph the description parser has taken over is never the last one) *)
Lemma last_attached fl s A D N E' x bp : SInv fl s A D N -> A ++ D ++ N = E' ++ [(x, bp)] ->
  exists q nx, nth_error (s_h s) x = Some nx /\ bpar nx = Some q.
Proof.
  intros HS HE. pose proof HS as [_ HH]. pose proof (hi_heap _ _ _ _ _ _ _ _ HH) as HhS. pose proof (hi_open _ _ _ _ _ _ _ _ HH) as HO.
  destruct (CC snoc_cases _ _ _ _ _ HE) as [[N' EN]|[[EN [D' ED]]|[EN [ED [A' EA]]]]].
  - eapply spine_attached; [exact HS|]. rewrite ids_app, EN, (CC ids_snoc). apply in_or_app. right. apply in_or_app. right. left. reflexivity.
  - subst N. eapply chain_attached; [exact HhS|exact (os_chain_nil _ _ _ _ _ HO)|]. rewrite ED, (CC ids_snoc). apply in_or_app. right. left. reflexivity.
  - eapply spine_attached; [exact HS|]. rewrite ids_app, EA, (CC ids_snoc). apply in_or_app. left. apply in_or_app. right. left. reflexivity.
Qed.

(* ---------- the parent of the blocks that are opened: the last of A ++ N, or the root ---------- *)
(* the last continued / newly opened block can have children *)
Definition topN (h : heap) (E : list (nat * bparser)) : Prop :=
  forall E' y bq, E = E' ++ [(y, bq)] -> exists n, nth_error h y = Some n /\ cnt n = true.

Lemma topN_kind h h' E : topN h E -> kind_le h h' -> topN h' E.
Proof.
  intros Ht Hk E' y bq HE. destruct (Ht E' y bq HE) as [n [En Kn]].
  destruct (kind_le_nth _ _ _ _ Hk En) as [n' [En' [_ [_ [_ [_ [_ [Kc _]]]]]]]]. exists n'. split; [exact En'|congruence].
Qed.

Lemma last_cons0 l : last (0%nat :: l) 0%nat = last l 0%nat.
Proof. destruct l as [|a t]; [reflexivity|]. apply last_cons_ne. discriminate. Qed.

Lemma lastid_ids_snoc E y bq : lastid (ids (E ++ [(y, bq)])) = y.
Proof. rewrite (CC ids_snoc). apply lastid_snoc. Qed.

Lemma parent_node fl s A D N : SInv fl s A D N -> topN (s_h s) (A ++ N) ->
  exists np, nth_error (s_h s) (lastid (ids (A ++ N))) = Some np /\ cnt np = true.
Proof.
  intros HS Ht. destruct (CC exists_last_or_nil (A ++ N)) as [E|[E' [[y bq] E]]].
  - rewrite E. cbn. destruct HS as [_ HH]. destruct (hs_root _ _ _ (hi_heap _ _ _ _ _ _ _ _ HH)) as [n0 [E0 [K0 _]]].
    exists n0. split; [exact E0|]. apply (CC cnt_container). rewrite K0. reflexivity.
  - rewrite E, lastid_ids_snoc. exact (Ht E' y bq E).
Qed.

Lemma lastid_cases l : (l = [] /\ lastid l = 0%nat) \/ (l <> [] /\ In (lastid l) l).
Proof. destruct l as [|a t]; [left; auto|right]. split; [discriminate|]. apply last_in. discriminate. Qed.

Lemma nodup_drop_mid {X} (a d n : list X) : NoDup (a ++ d ++ n) -> NoDup (a ++ n).
Proof.
  induction a as [|x t IH]; cbn [app]; intros H.
  - induction d as [|y d' IHd]; cbn [app] in H; [exact H|]. inversion H; subst. auto.
  - inversion H as [|? ? Hx Ht]; subst. constructor; [|apply IH; exact Ht].
    intros Hin. apply Hx. apply in_app_or in Hin. apply in_or_app. destruct Hin; [left; assumption|right; apply in_or_app; right; assumption].
Qed.

(* ---------- updating a detached node ---------- *)
Lemma HI_hset_free b h c A D N i n n' : HI b h c A D N -> nth_error h i = Some n -> bpar n = None ->
  same_shape n n' -> blines n' = blines n -> nodeP n' -> HI b (hset h i n') c A D N.
Proof.
  intros [H1 H2 H3 H4 H5] E P Hs Hl Hn. constructor; auto.
  - apply Bnd_hset; [exact H1|]. intros K sg Hsg. rewrite Hl in Hsg. destruct Hs as [Hk _]. eapply H1; [exact E|congruence|exact Hsg].
  - eapply heapS_hset; eassumption.
  - eapply Jinv_hset; [exact H3|exact E|]. destruct Hs as [_ [Hp _]]. intros Hp'. congruence.
  - eapply openS_hset; try eassumption. left. exact Hl.
Qed.

End M.
