(* Helper file for TypoDefWfTotBlk.v: one round of open_blocks_loopD (the statements of
   TypoDefWfTotBlkOpenAI.v):
     round_okD    the round below a parent that is no DefinitionList (port of
                  ParseBlocksTotalOpen.round_ok; helper files TypoDefWfTotBlkOpenA1 .. A5)
     dd_round_ok  the round below the list the definition list parser has just pushed: the definition
                  list parser declines, the description parser opens, its node is appended and pushed *)
Require Import GM.model.Base GM.model.Util GM.model.Reader GM.model.ReaderSpec GM.model.Blocks GM.model.ListItem
               GM.model.LeafBlocks GM.model.CodeBlock GM.model.LinkDest GM.model.Regex GM.model.BlockParse
               GM.model.TypoDefParseD.
Require Import GM.proofs.ReaderProofs GM.proofs.BlocksProofs
               GM.proofs.ParseBlocksTotalReader GM.proofs.ParseBlocksTotalDefs GM.proofs.ParseBlocksTotalSpec
               GM.proofs.ParseBlocksTotalSt GM.proofs.ParseBlocksTotalShape GM.proofs.ParseBlocksTotalLeaf
               GM.proofs.ParseBlocksTotalOpen
               GM.proofs.GfmConservativeDefs GM.proofs.TypoDefConservativeBlkInv
               GM.proofs.TypoDefWfTotBlkDefs GM.proofs.TypoDefWfTotBlkSpec GM.proofs.TypoDefWfTotBlkOpenI
               GM.proofs.TypoDefWfTotBlkOpenAI GM.proofs.TypoDefWfTotBlkOpenA1 GM.proofs.TypoDefWfTotBlkOpenA2
               GM.proofs.TypoDefWfTotBlkOpenA3 GM.proofs.TypoDefWfTotBlkOpenA4 GM.proofs.TypoDefWfTotBlkOpenA5.
From Coq Require Import ZArith Lia List Bool.
Import ListNotations.
Open Scope Z_scope.

Section S.
Variable space_table punct_table : list N.
Variable norm : bytes -> bytes.
Variable re_t1o re_t1c re_t2 re_t3 re_t4 re_t5 re_t6 re_t7 : re.
Variable allowed_tags : list bytes.
Variable src : bytes.
Hypothesis tbl : TblOK space_table.
Notation SI := (SI space_table src).
Notation SD := (SD space_table src).
Notation TPD := (try_parsersD space_table punct_table norm re_t1o re_t2 re_t3 re_t4 re_t5 re_t6 re_t7 allowed_tags).
Notation OBLD := (open_blocks_loopD true space_table punct_table norm re_t1o re_t2 re_t3 re_t4 re_t5 re_t6 re_t7 allowed_tags).
Notation isb := (Reader.is_blank space_table).
Notation attachD := (attachD space_table punct_table norm).
Notation after_openD := (after_openD space_table punct_table norm).
Notation try_parsersD_cons := (try_parsersD_cons space_table punct_table norm re_t1o re_t2 re_t3 re_t4 re_t5 re_t6 re_t7 allowed_tags).
Notation try_parsersD_ok := (try_parsersD_ok space_table punct_table norm re_t1o re_t1c re_t2 re_t3 re_t4 re_t5 re_t6 re_t7 allowed_tags src tbl).
Notation colon_ok := (colon_ok space_table punct_table norm re_t1o re_t1c re_t2 re_t3 re_t4 re_t5 re_t6 re_t7 allowed_tags src tbl).
Notation round_headD := (round_headD space_table punct_table norm re_t1o re_t2 re_t3 re_t4 re_t5 re_t6 re_t7 allowed_tags src tbl).
Notation attachD_core := (attachD_core space_table punct_table norm re_t1o re_t1c re_t2 re_t3 re_t4 re_t5 re_t6 re_t7 allowed_tags src tbl).
Notation i_defdesc_open_dl := (i_defdesc_open_dl space_table punct_table norm re_t1o re_t1c re_t2 re_t3 re_t4 re_t5 re_t6 re_t7 allowed_tags src tbl).

(* ---------------------------------------------------------------------------------------- *)
(* one round below a parent that is no DefinitionList                                         *)
Lemma round_okD : round_spec space_table punct_table norm re_t1o re_t2 re_t3 re_t4 re_t5 re_t6 re_t7 allowed_tags src.
Proof using All.
  intros f parent pn blank cont res s [HS HT] Hp Hndl Hatt HLP.
  destruct (round_headD f parent blank cont res s HS)
    as (s3 & S3 & D3 & K3 & [[Hskip E]|(Hin & Hnl & HB & HO & w & pos & Eiw & _ & E)]).
  - left. exists s3. csplit; auto.
    + split; [exact S3|]. destruct D3 as (Eh & _). rewrite Eh. exact HT.
    + intros K. destruct (HLP K) as (Hin & Hpli & _). destruct Hskip as [Hs|[r Hr]]; [contradiction|].
      rewrite Hr in Hpli. exact (pli_first_not_nl space_table norm src tbl _ _ Hpli eq_refl).
    + destruct Hskip as [Hs|[r Hr]]; [right; left; exact Hs|right; right; left; eapply (isb_nl_view space_table norm src tbl); eassumption].
  - assert (Ew : wof s = w) by (unfold wof; rewrite Eiw; reflexivity).
    assert (HT3 : TC (s_h s3)) by (destruct D3 as (Eh & _); rewrite Eh; exact HT).
    assert (Hp3 : nth_error (s_h s3) parent = Some pn) by (destruct D3 as (Eh & _); rewrite Eh; exact Hp).
    (* the outcomes of the default parsers *)
    assert (Core : forall bps t,
              (ODecl space_table src pn bps cont res w s t \/ OPop space_table src parent pn res w s t \/
               OPush space_table src parent pn cont s t) -> TCK (s_h s) t -> DN (s_h s) t -> In PParagraph bps ->
              (exists s', t = TDone res s' /\ SD s' /\ dcl s s' /\ bk pn <> BList /\
                  (cont && (res =? noBlocksOpened) = true \/ ~ sin s \/ isb (sview s) = true \/ (3 <? wof s) = true)) \/
              (OPopD space_table src parent pn res (wof s) s t \/ OPushD space_table src parent pn cont s t \/
               OPushDL space_table src parent pn cont s t)).
    { intros bps t O TK DNt Hpar. destruct O as [O|[O|O]].
      - left. destruct O as (s' & -> & S' & D' & Knl & Hpar'). exists s'. csplit; auto.
        + split; [exact S'|]. destruct D' as (Eh & _). rewrite Eh. exact HT.
        + rewrite Ew. destruct (Hpar' Hpar) as [H|[H|H]]; auto.
      - right. left. rewrite Ew. apply OPop_D; assumption.
      - right. right. left. apply OPush_D; assumption. }
    destruct (colon (sview s) pos) eqn:Ecol.
    + (* the line starts with ':' *)
      destruct (candsD_colon _ _ Ecol) as [Ec1 Ec2]. rewrite Ec1 in E.
      assert (Hnlist : bk pn <> BList).
      { intros K. destruct (HLP K) as (_ & Hpli & _).
        destruct (cands_list space_table norm src tbl _ _ _ _ Hpli Eiw) as [_ L]. rewrite Ec2 in L. discriminate. }
      destruct (colon_ok parent pn blank cont res w s s3 D3 (conj S3 HT3) (proj1 (dcl_sin _ _ D3) Hin) HB HO Hp3 Hndl
                         (dcl_lastatt _ _ D3 Hatt) Hnlist) as (t & Et & O).
      rewrite Et in E. cbn [bind] in E.
      destruct O as [(O & TK & DNt)|O].
      * destruct (Core free_parsers t O TK DNt ltac:(cbn; auto)) as [(s' & -> & Q)|Q].
        -- left. exists s'. split; [exact E|exact Q].
        -- right. split; [exact Hin|]. exists t. split; [exact E|exact Q].
      * right. split; [exact Hin|]. exists t. split; [exact E|]. rewrite Ew.
        destruct O as [O|O]; [left; exact O|right; right; exact O].
    + (* the candidates of the default configuration *)
      rewrite (candsD_core _ _ Ecol) in E.
      destruct (try_parsersD_ok parent pn blank cont res w s (cands (sview s) pos) s3 D3) as (t & Et & O & TK & DNt).
      { unfold TI. csplit; auto.
        - apply (dcl_sin _ _ D3), Hin.
        - apply (dcl_lastatt _ _ D3 Hatt).
        - intros K. destruct (HLP K) as (_ & Hpli & Hth & Hll). unfold LB.
          rewrite (dcl_view _ _ D3), (dcl_off _ _ D3).
          destruct (cands_list space_table norm src tbl _ _ _ _ Hpli Eiw) as [W L]. csplit; auto.
          assert (Hll3 : lastlist s3 \/ c_skip_list (s_c s3) = true).
          { destruct Hll as [Hll|Hll]; [left; apply (dcl_lastlist _ _ D3); exact Hll|right; rewrite K3; exact Hll]. }
          destruct (cands (sview s) pos) as [|[] ?]; auto.
        - intros HinL. rewrite (dcl_view _ _ D3), (dcl_off _ _ D3).
          destruct (cands_th space_table norm src tbl _ _ _ _ Eiw HinL) as [T|T]; auto. }
      { exact HT3. }
      rewrite Et in E. cbn [bind] in E.
      destruct (Core _ t O TK DNt (cands_paragraph _ _)) as [(s' & -> & Q)|Q].
      * left. exists s'. split; [exact E|exact Q].
      * right. split; [exact Hin|]. exists t. split; [exact E|exact Q].
Qed.

(* ---------------------------------------------------------------------------------------- *)
(* the round below the list the definition list parser has pushed                              *)
Lemma dd_round_ok : dd_round_spec space_table punct_table norm re_t1o re_t2 re_t3 re_t4 re_t5 re_t6 re_t7 allowed_tags src.
Proof using All.
  intros f parent pn s0 lst blank cont s HDLF Hatt.
  destruct HDLF as ([HS HT] & K0 & Sp0 & Hin & HDL & Hops & HOF & Hnew & (ln & Eln & Hdl & Pln & HW & HTmp) &
                    (pn' & Epn' & Llast) & Ef & Et & Hnl).
  destruct (DLine_view s HDL) as [r Ev].
  destruct (round_headD f lst blank cont newBlocksOpened s HS)
    as (s3 & S3 & D3 & K3 & [[Hskip E]|(_ & _ & HB & HO & w & pos & Eiw & Hoff & E)]).
  { exfalso. destruct Hskip as [Hs|[r' Hr]]; [contradiction|]. rewrite Ev in Hr. discriminate. }
  pose proof HDL as (A1 & A2 & A3 & A4 & A5).
  rewrite Ev in Eiw. cbn in Eiw. injection Eiw as <- <-.
  destruct Hoff as [Hoff|[Hb3 Hi3]]; [lia|].
  assert (Ecol : colon (sview s) 0 = true).
  { unfold colon. rewrite A4. apply andb_true_iff. split; [apply Z.ltb_lt; exact A5|reflexivity]. }
  destruct (candsD_colon _ _ Ecol) as [Ec1 _]. rewrite Ec1 in E. clear Ec1.
  pose proof D3 as (Eh3 & Sp3 & _).
  destruct (DLine_same s s3 HDL (dcl_pos _ _ D3)) as [HDL3 Ev3]; [destruct Sp3 as (Es & _); exact Es|lia|lia|].
  assert (Hin3 : sin s3) by (apply (dcl_sin _ _ D3), Hin).
  assert (HT3 : TC (s_h s3)) by (rewrite Eh3; exact HT).
  assert (Eln3 : nth_error (s_h s3) lst = Some ln) by (rewrite Eh3; exact Eln).
  (* the definition list parser declines *)
  rewrite try_parsersD_cons in E. cbn [can_interrupt_paragraphD can_accept_indentedD negb] in E.
  rewrite andb_false_r in E. change (3 <? 0) with false in E. cbn [andb] in E.
  cbn [p_openD] in E. unfold deflist_open in E. rewrite (hget_some _ _ _ Eln3) in E. cbn [bind] in E. rewrite Hdl in E.
  cbn [bind] in E. cbv iota beta in E.
  (* the description parser opens *)
  rewrite try_parsersD_cons in E. cbn [can_interrupt_paragraphD can_accept_indentedD negb] in E.
  rewrite andb_false_r in E. change (3 <? 0) with false in E. cbn [andb] in E.
  cbn [p_openD] in E.
  destruct (i_defdesc_open_dl s3 lst ln (conj S3 HT3) Hin3 HDL3 Eln3 Hdl)
    as (s4 & dd & E4 & [S4 T4] & Ec4 & SL4 & St4 & K34 & Ldd & Ldd' & Ndd & (ln1 & Eln1 & Pln1 & Sln1 & Lln1) & Hold & Hnew').
  { eapply Wok_same; [exact Ev3|exact HW]. }
  { rewrite Eh3. exact HTmp. }
  rewrite E4 in E. cbn [bind] in E. cbv iota beta in E.
  unfold TypoDefWfTotBlkOpenA1.after_openD, req_paraD in E. cbn [bind recorded] in E.
  (* the last opened block is the list *)
  assert (Elo : last_opened (s_c s3) = Some (lst, PHTML)).
  { rewrite (dcl_last _ _ D3). destruct Hops as [Ho|(base & x & _ & Ho)];
      eapply last_opened_app; try exact Ho; exact (ci_len _ _ (si_c _ _ _ HS)). }
  rewrite Elo in E.
  assert (Hll : (lst < length (s_h s))%nat) by (eapply nth_error_lt, Eln).
  rewrite Eh3 in Ldd.
  assert (Kln1 : bk ln1 = BHTML).
  { destruct K34 as [_ K34]. destruct (K34 lst ln Eln3) as (n' & E' & K' & _). rewrite Eln1 in E'. injection E' as <-.
    rewrite K'. apply is_dl_kind, Hdl. }
  set (ndd := set_tight (mknode BHTML 102) false) in *.
  assert (Hlast' : forall la lp, Some (lst, PHTML) = Some (la, lp) ->
            exists n, nth_error (s_h s4) la = Some n /\ bpar n <> None /\ la <> dd).
  { intros la lp Ela. injection Ela as <- <-. exists ln1. split; [exact Eln1|]. split; [rewrite Pln1, Pln; discriminate|lia]. }
  destruct (attach_ok space_table punct_table norm src PHTML lst blank cont (Some (lst, PHTML)) s4 dd true
              ln1 ndd S4 Ndd Eln1 ltac:(lia)) as (s' & Et' & S' & Rr & Cc & Ll & Nn & Pp & Oo); try reflexivity.
  { rewrite Kln1. discriminate. }
  { cbn. discriminate. }
  { exact Hlast'. }
  destruct (attachD_core PHTML lst blank cont (Some (lst, PHTML)) s4 dd true ndd Ndd eq_refl Hlast') as [Eq Htc].
  rewrite Eq, Et' in E.
  destruct (Htc _ Et' T4 ltac:(lia)) as [T' K']. cbn [st_of] in T', K'.
  destruct (push_opened_spec (s_c s4) (dd, PHTML) (ci_len _ _ (si_c _ _ _ S4)))
    as (P1 & _ & _ & _ & _ & _ & _ & _ & _ & P10 & P11).
  exists dd, s'. split; [exact E|]. unfold DDF. csplit.
  - split; assumption.
  - rewrite <- Eh3. eapply kkeep_trans; eassumption.
  - rewrite Rr. eapply same_line_trans; [apply same_pos_line, Sp3|exact SL4].
  - rewrite Rr. rewrite <- (dcl_pos _ _ D3). exact St4.
  - unfold ops. rewrite Cc, P1, Ec4. f_equal. exact (dcl_ops _ _ D3).
  - exact Ldd.
  - intros q. split; [rewrite Ll, <- Ldd'; lia|]. intros j n Hj.
    assert (Hjl : (j < length (s_h s))%nat) by (eapply nth_error_lt, Hj).
    rewrite <- Eh3 in Hj. destruct (Hold j n Hj) as (n4 & E4' & L4 & B4 & C4).
    assert (K4 : bk n4 = bk n).
    { destruct K34 as [_ K34]. destruct (K34 j n Hj) as (n' & E' & K'' & _). rewrite E4' in E'. injection E' as <-. exact K''. }
    destruct (Nat.eq_dec j lst) as [->|Jl].
    + rewrite Eln1 in E4'. injection E4' as <-. eexists. split; [exact Pp|]. cbn [set_ch bk blines bpar bch]. csplit; auto.
      intros C. rewrite <- K4, Kln1 in C. discriminate.
    + exists n4. rewrite (Oo j Jl ltac:(lia)). csplit; auto.
  - eexists. split; [exact Nn|]. split; reflexivity.
  - eexists. split; [exact Pp|]. cbn [set_ch bch]. apply last_id_app.
  - rewrite Cc, P10, Ec4. destruct D3 as (_ & _ & _ & _ & F & _). exact F.
  - rewrite Cc, P11, Ec4. destruct D3 as (_ & _ & _ & _ & _ & F). exact F.
Qed.

End S.
