(* Helper file for FootnoteWfTotBlk.v: the reader-level block parser functions keep the bound on the padding
   (PadB, FootnoteWfTotBlkPad.v).  Model level only (no invariant): each lemma unfolds the function and steps
   through its binds. *)
Require Import GM.model.Base GM.model.Util GM.model.Reader GM.model.Blocks GM.model.ListItem
               GM.model.LeafBlocks GM.model.CodeBlock GM.model.BlockParse.
Require Import GM.proofs.FootnoteWfTotBlkPad.
From Coq Require Import ZArith Lia List Bool.
Import ListNotations.
Open Scope Z_scope.

(* blockquoteParser.process *)
Lemma PadB_bq_process r r' ok : bq_process r = Ok (r', ok) -> PadB r -> PadB r'.
Proof.
  unfold bq_process. intros E H.
  destruct (r_peek_line r) as [[[r1 l] sg]| |] eqn:E1; cbn [bind] in E; try discriminate.
  destruct (PadB_peek_line _ _ _ _ E1 H) as [H1 _]. destruct l as [line|]; [|discriminate].
  destruct (r_line_offset r1) as [[r2 off]| |] eqn:E2; cbn [bind] in E; try discriminate.
  destruct (PadB_line_offset _ _ _ E2 H1) as [H2 _].
  destruct (indent_width line off) as [w pos].
  destruct ((3 <? w) || (zlen line <=? pos)); [injection E as <- _; exact H2|].
  destruct (at_ line pos) as [c| |]; cbn [bind] in E; try discriminate.
  destruct (negb (N.eqb c 62)); [injection E as <- _; exact H2|]. cbv zeta in E.
  destruct (zlen line <=? pos + 1).
  { destruct (r_advance r2 (pos + 1)) as [r3| |] eqn:E3; cbn [bind] in E; try discriminate.
    injection E as <- _. exact (PadB_advance _ _ _ E3 H2). }
  destruct (at_ line (pos + 1)) as [d| |]; cbn [bind] in E; try discriminate.
  destruct (N.eqb d 10).
  { destruct (r_advance r2 (pos + 1)) as [r3| |] eqn:E3; cbn [bind] in E; try discriminate.
    injection E as <- _. exact (PadB_advance _ _ _ E3 H2). }
  destruct (r_advance r2 (pos + 1)) as [r3| |] eqn:E3; cbn [bind] in E; try discriminate.
  pose proof (PadB_advance _ _ _ E3 H2) as H3.
  destruct (N.eqb d 32 || N.eqb d 9); [|injection E as <- _; exact H3].
  destruct (r_line_offset r3) as [[r4 off2]| |] eqn:E4; cbn [bind] in E; try discriminate.
  destruct (PadB_line_offset _ _ _ E4 H3) as [H4 _]. cbv zeta in E.
  match type of E with context [r_advance_and_set_padding r4 1 ?p] =>
    destruct (r_advance_and_set_padding r4 1 p) as [r5| |] eqn:E5; cbn [bind] in E; try discriminate end.
  injection E as <- _. eapply PadB_advance_and_set_padding; [exact E5|exact H4|].
  destruct (N.eqb d 9); [pose proof (tab_width_bound off2); lia|lia].
Qed.

Lemma PadB_bq_process_total r r' ok : bq_process_total r = Ok (r', ok) -> PadB r -> PadB r'.
Proof.
  unfold bq_process_total. intros E H.
  destruct (r_peek_line r) as [[[r1 l] sg]| |] eqn:E1; cbn [bind] in E; try discriminate.
  destruct (PadB_peek_line _ _ _ _ E1 H) as [H1 _]. destruct l as [line|].
  - eapply PadB_bq_process; eassumption.
  - injection E as <- _. exact H1.
Qed.

(* util.IndentWidth: the width is not negative *)
Lemma indent_width_pos_ge bs : forall cur w pos w' pos', indent_width_pos bs cur w pos = (w', pos') -> w <= w'.
Proof.
  induction bs as [|c bs IH]; intros cur w pos w' pos' E; cbn [indent_width_pos] in E.
  - injection E as <- _. lia.
  - destruct (N.eqb c 32); [apply IH in E; lia|].
    destruct (N.eqb c 9); [|injection E as <- _; lia].
    pose proof (Z.mod_pos_bound (cur + w) 4 ltac:(lia)). apply IH in E. lia.
Qed.

Lemma indent_width_nonneg bs cur : 0 <= fst (indent_width bs cur).
Proof.
  unfold indent_width. destruct (indent_width_pos bs cur 0 0) as [w p] eqn:E.
  apply indent_width_pos_ge in E. exact E.
Qed.

(* calcListOffset *)
Lemma calc_list_offset_nonneg tbl line m lo : 0 <= calc_list_offset tbl line m lo.
Proof.
  unfold calc_list_offset. destruct ((m4 m <? 0) || is_blank tbl (zskip (m4 m) line)); [lia|]. cbv zeta.
  destruct (4 <? fst (indent_width (zskip (m4 m) line) (lo + m4 m))); [lia|apply indent_width_nonneg].
Qed.

(* listItemParser.Open *)
Lemma PadB_list_item_open tbl off r no r' kids :
  list_item_open tbl off r = Ok (Some (no, r', kids)) -> PadB r -> PadB r'.
Proof.
  unfold list_item_open. intros E H.
  destruct (r_peek_line r) as [[[r1 l] sg]| |] eqn:E1; cbn [bind] in E; try discriminate.
  destruct (PadB_peek_line _ _ _ _ E1 H) as [H1 _]. destruct l as [line|]; [|discriminate].
  destruct (parse_list_item line) as [m typ].
  destruct (N.eqb typ 0); [discriminate|].
  destruct (3 <? m1 m - off); [discriminate|].
  destruct (r_line_offset r1) as [[r2 lo]| |] eqn:E2; cbn [bind] in E; try discriminate.
  destruct (PadB_line_offset _ _ _ E2 H1) as [H2 _]. cbv zeta in E.
  destruct ((m4 m <? 0) || is_blank tbl (zfirst (m5 m - m4 m) (zskip (m4 m) line))).
  { injection E as _ <- _. exact H2. }
  destruct (indent_position (zskip (m4 m) line) (lo + m4 m) (calc_list_offset tbl line m lo)) as [pos pad] eqn:Eip.
  apply indent_position_bound in Eip; [|apply calc_list_offset_nonneg].
  destruct (r_advance_and_set_padding r2 (m3 m + pos) pad) as [r3| |] eqn:E3; cbn [bind] in E; try discriminate.
  injection E as _ <- _. eapply PadB_advance_and_set_padding; eassumption.
Qed.

(* codeBlockParser: the common part of Open and Continue.  p <= 3: the padding of IndentPosition *)
Lemma PadB_code_block_take r pos p sg r' : code_block_take r pos p = Ok (sg, r') -> PadB r -> p <= 3 -> PadB r'.
Proof.
  unfold code_block_take. intros E H Hp.
  destruct (r_advance_and_set_padding r pos p) as [r1| |] eqn:E1; cbn [bind] in E; try discriminate.
  pose proof (PadB_advance_and_set_padding _ _ _ _ E1 H Hp) as H1.
  destruct (r_peek_line r1) as [[[r2 l] sg2]| |] eqn:E2; cbn [bind] in E; try discriminate.
  destruct (PadB_peek_line _ _ _ _ E2 H1) as [H2 _].
  match type of E with (bind ?a _ = _) => destruct a as [[sg3 r3]| |] eqn:E3; cbn [bind] in E; try discriminate end.
  assert (H3 : PadB r3).
  { destruct (s_pad sg2 =? 0); [injection E3 as _ <-; exact H2|].
    destruct (r_line_offset r2) as [[r4 off]| |] eqn:E4; cbn [bind] in E3; try discriminate.
    destruct (PadB_line_offset _ _ _ E4 H2) as [H4 _]. unfold r_position in E3.
    destruct (r_set_position r4 (r_line r4) (mkseg (s_start (r_pos r4) - 1) (s_stop (r_pos r4)))) as [r5| |] eqn:E5;
      cbn [bind] in E3; try discriminate.
    destruct (r_line_offset r5) as [[r6 off2]| |] eqn:E6; cbn [bind] in E3; try discriminate.
    destruct (r_set_position r6 (r_line r4) (r_pos r4)) as [r7| |] eqn:E7; cbn [bind] in E3; try discriminate.
    injection E3 as _ <-. eapply PadB_set_position; [exact E7|exact H4]. }
  match type of E with (bind ?a _ = _) => destruct a as [r8| |] eqn:E8; cbn [bind] in E; try discriminate end.
  injection E as _ <-. exact (PadB_advance _ _ _ E8 H3).
Qed.

Lemma PadB_code_block_open tbl r sg r' : code_block_open tbl r = Ok (Some (sg, r')) -> PadB r -> PadB r'.
Proof.
  unfold code_block_open. intros E H.
  destruct (r_peek_line r) as [[[r1 l] sg1]| |] eqn:E1; cbn [bind] in E; try discriminate.
  destruct (PadB_peek_line _ _ _ _ E1 H) as [H1 _]. cbv zeta in E.
  destruct (r_line_offset r1) as [[r2 off]| |] eqn:E2; cbn [bind] in E; try discriminate.
  destruct (PadB_line_offset _ _ _ E2 H1) as [H2 _].
  match type of E with context [indent_position ?a ?b ?c] => destruct (indent_position a b c) as [pos pad] eqn:Eip end.
  apply indent_position_bound in Eip; [|lia].
  match type of E with (if ?b then _ else _) = _ => destruct b; [discriminate|] end.
  destruct (code_block_take r2 pos pad) as [[sg3 r3]| |] eqn:E3; cbn [bind] in E; try discriminate.
  injection E as _ <-. eapply PadB_code_block_take; eassumption.
Qed.

Lemma PadB_code_block_continue tbl r sg r' : code_block_continue tbl r = Ok (inl (sg, r')) -> PadB r -> PadB r'.
Proof.
  unfold code_block_continue. intros E H.
  destruct (r_peek_line r) as [[[r1 l] sg1]| |] eqn:E1; cbn [bind] in E; try discriminate.
  destruct (PadB_peek_line _ _ _ _ E1 H) as [H1 _]. cbv zeta in E.
  match type of E with (if ?b then _ else _) = _ => destruct b end.
  { match type of E with (bind ?a _ = _) => destruct a as [t| |]; cbn [bind] in E; try discriminate end.
    injection E as _ <-. exact H1. }
  destruct (r_line_offset r1) as [[r2 off]| |] eqn:E2; cbn [bind] in E; try discriminate.
  destruct (PadB_line_offset _ _ _ E2 H1) as [H2 _].
  match type of E with context [indent_position ?a ?b ?c] => destruct (indent_position a b c) as [pos pad] eqn:Eip end.
  apply indent_position_bound in Eip; [|lia].
  destruct (pos <? 0); [discriminate|].
  destruct (code_block_take r2 pos pad) as [[sg3 r3]| |] eqn:E3; cbn [bind] in E; try discriminate.
  injection E as _ <-. eapply PadB_code_block_take; eassumption.
Qed.

(* fencedCodeBlockParser.Continue: the padding of a content line *)
Lemma fence_continue_padding_bound tbl line off sp ch indent flen pos padding :
  fence_continue tbl line off sp ch indent flen = inr (pos, padding) -> 0 <= sp <= 3 -> 0 <= indent -> padding <= 3.
Proof.
  unfold fence_continue. intros E Hsp Hi. destruct (indent_width line off) as [w p0]. cbv zeta in E.
  match type of E with (if ?b then _ else _) = _ => destruct b; [discriminate|] end.
  destruct (indent_position_padding line off sp indent) as [p pd] eqn:Eip.
  apply indent_position_padding_bound in Eip; [|exact Hsp|exact Hi].
  destruct (p <? 0); injection E as _ <-; lia.
Qed.

Lemma PadB_fence_continue_r tbl r ch indent flen closed ln r' :
  fence_continue_r tbl r ch indent flen = Ok (closed, ln, r') -> PadB r -> 0 <= indent -> PadB r'.
Proof.
  unfold fence_continue_r. intros E H Hi.
  destruct (r_peek_line r) as [[[r1 l] sg]| |] eqn:E1; cbn [bind] in E; try discriminate.
  destruct (PadB_peek_line _ _ _ _ E1 H) as [H1 Hsg]. destruct l as [line|]; [|discriminate].
  destruct (r_line_offset r1) as [[r2 off]| |] eqn:E2; cbn [bind] in E; try discriminate.
  destruct (PadB_line_offset _ _ _ E2 H1) as [H2 _].
  destruct (fence_continue tbl line off (s_pad sg) ch indent flen) as [adv|[pos padding]] eqn:Ef.
  - destruct (r_advance r2 adv) as [r3| |] eqn:E3; cbn [bind] in E; try discriminate.
    injection E as _ _ <-. exact (PadB_advance _ _ _ E3 H2).
  - apply fence_continue_padding_bound in Ef; [|subst sg; exact H|exact Hi]. cbv zeta in E.
    match type of E with (bind ?a _ = _) => destruct a as [[adj r3]| |] eqn:E3; cbn [bind] in E; try discriminate end.
    assert (H3 : PadB r3).
    { destruct (padding =? 0); [injection E3 as _ <-; exact H2|]. unfold r_position in E3.
      destruct (r_set_position r2 (r_line r2) (mkseg (s_start (r_pos r2) - 1) (s_stop (r_pos r2)))) as [r5| |] eqn:E5;
        cbn [bind] in E3; try discriminate.
      destruct (r_line_offset r5) as [[r6 off2]| |] eqn:E6; cbn [bind] in E3; try discriminate.
      destruct (r_set_position r6 (r_line r2) (r_pos r2)) as [r7| |] eqn:E7; cbn [bind] in E3; try discriminate.
      injection E3 as _ <-. eapply PadB_set_position; [exact E7|exact H2]. }
    match type of E with (bind ?a _ = _) => destruct a as [r8| |] eqn:E8; cbn [bind] in E; try discriminate end.
    injection E as _ _ <-. eapply PadB_advance_and_set_padding; eassumption.
Qed.
