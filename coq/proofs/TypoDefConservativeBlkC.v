(* C11 for the model with the DefinitionList extension, block phase (helper file 4): the Close
   functions of the default block parsers and the paragraph transformer (link reference
   definitions) are steps of the state (sR): a node that gets a parent inside one of them is a
   node allocated by it. *)
Require Import GM.model.Base GM.model.Util GM.model.Reader GM.model.Blocks GM.model.ListItem
               GM.model.LeafBlocks GM.model.CodeBlock GM.model.LinkDest GM.model.Regex
               GM.model.BlockParse GM.model.TypoDefParseD.
Require Import GM.proofs.GfmConservativeDefs GM.proofs.ParseBlocksTotalDefs GM.proofs.TypoDefConservativeBlkInv.
Require Import GM.proofs.TypoDefConservativeBlkA GM.proofs.TypoDefConservativeBlkB.
From Coq Require Import List ZArith NArith Bool Lia.
Import ListNotations.
Open Scope Z_scope.

Ltac crunch H :=
  repeat (match type of H with
    | bind ?e _ = Ok _ => let x := fresh "x" in let E := fresh "E" in gc_bind H x E
    | (if ?b then _ else _) = Ok _ => destruct b
    | match ?e with _ => _ end = Ok _ => destruct e
    | Panic = Ok _ => discriminate H
    | OutOfFuel = Ok _ => discriminate H
    end).

(* the loops of list_close as functions *)
Definition lc_kids (c : nat) : list nat -> st -> result st :=
  fix kids (gs : list nat) (s : st) : result st :=
  match gs with
  | [] => Ok s
  | g :: tl =>
    gn <- hget (s_h s) g ;;
    if bkind_eqb (bk gn) BParagraph then
      let '(s, t) := new_node s (set_lines (mknode BTextBlock 0) (blines gn)) in
      h <- replace_child (s_h s) c g t ;;
      kids tl (st_h s h)
    else kids tl s
  end.
Lemma lc_kids_cons c g tl s : lc_kids c (g :: tl) s =
  (gn <- hget (s_h s) g ;;
   if bkind_eqb (bk gn) BParagraph then
     let '(s, t) := new_node s (set_lines (mknode BTextBlock 0) (blines gn)) in
     h <- replace_child (s_h s) c g t ;;
     lc_kids c tl (st_h s h)
   else lc_kids c tl s).
Proof. reflexivity. Qed.
Fixpoint lc_items (cs : list nat) (s : st) : result st :=
  match cs with
  | [] => Ok s
  | c :: rest => cn <- hget (s_h s) c ;; s <- lc_kids c (bch cn) s ;; lc_items rest s
  end.

Lemma lc_kids_sR k c : forall gs s s', (k <= length (s_h s))%nat -> lc_kids c gs s = Ok s' -> sR k s s'.
Proof.
  induction gs as [|g tl IH]; intros s s' Hk H.
  - injection H as <-. apply sR_refl.
  - rewrite lc_kids_cons in H. gc_bind H gn Egn. destruct (bkind_eqb (bk gn) BParagraph); [|exact (IH _ _ Hk H)].
    newn H. gc_bind H h Eh. prjall.
    assert (H1 : sR k s (st_h (st_h s (s_h s ++ [set_lines (mknode BTextBlock 0) (blines gn)])) h)).
    { eapply sR_st_h; [eapply sR_st_h; [apply sR_refl|apply hRk_alloc, dnode_kind; cbn; discriminate]|].
      prj. eapply hRk_replace_child; [exact Eh|exact Hk]. }
    eapply sR_trans; [exact H1|]. eapply IH; [|exact H].
    pose proof (sR_len _ _ _ H1). lia.
Qed.
Lemma lc_items_sR k : forall cs s s', (k <= length (s_h s))%nat -> lc_items cs s = Ok s' -> sR k s s'.
Proof.
  induction cs as [|c rest IH]; intros s s' Hk H; cbn [lc_items] in H.
  - injection H as <-. apply sR_refl.
  - gc_bind H cn Ecn. gc_bind H s1 Es1.
    pose proof (lc_kids_sR k c _ _ _ Hk Es1) as H1.
    eapply sR_trans; [exact H1|]. eapply IH; [|exact H]. pose proof (sR_len _ _ _ H1). lia.
Qed.

Section Close.
Variable space_table punct_table : list N.
Variable norm : bytes -> bytes.

Lemma code_close_sR k s node s' : code_close space_table s node = Ok s' -> sR k s s'.
Proof.
  unfold code_close. intros H. gc_bind H n En. gc_bind H ls Els. gc_bind H h Eh. injection H as <-. srfin.
Qed.
Lemma fenced_close_sR k s node s' : fenced_close s node = Ok s' -> sR k s s'.
Proof.
  unfold fenced_close. intros H. destruct (c_fence (s_c s)) as [[[[ch ind] fl] n]|]; [|discriminate].
  injection H as <-. destruct (Nat.eqb n node); srfin.
Qed.
Lemma paragraph_close_sR k s node s' : paragraph_close space_table s node = Ok s' -> sR k s s'.
Proof.
  unfold paragraph_close. intros H. gc_bind H n En.
  destruct (blines n) as [|sg0 rest].
  - destruct (bpar n) as [p|]; [|discriminate]. gc_bind H h Eh. injection H as <-.
    eapply sR_st_h; [apply sR_refl|]. eapply hRk_remove_child, Eh.
  - gc_bind H ls Els. destruct (rev ls) as [|lst pre]; [discriminate|].
    gc_bind H lst2 El2. gc_bind H h Eh. injection H as <-. srfin.
Qed.

Lemma list_close_sR k s node s' : (k <= length (s_h s))%nat -> list_close s node = Ok s' -> sR k s s'.
Proof.
  unfold list_close. intros Hk H. gc_bind H n En. gc_bind H tight Et. gc_bind H h Eh.
  assert (H1 : sR k s (st_h s h)) by srfin.
  destruct (negb tight); [injection H as <-; exact H1|].
  eapply sR_trans; [exact H1|].
  assert (Hk1 : (k <= length (s_h (st_h s h)))%nat) by (pose proof (sR_len _ _ _ H1); lia).
  exact (lc_items_sR k (bch n) (st_h s h) s' Hk1 H).
Qed.

Lemma setext_close_sR k s node s' : (k <= length (s_h s))%nat -> setext_close space_table s node = Ok s' -> sR k s s'.
Proof.
  unfold setext_close. intros Hk H. gc_bind H n En.
  destruct (blines n) as [|sg rest]; [discriminate|].
  destruct (c_tmp_para (s_c s)) as [tmp|]; [|discriminate].
  gc_bind H h1 Eh1. prjall.
  set (s1 := st_c (st_h s h1) (cset_tmp (s_c s) None)) in *.
  assert (H1 : sR k s s1) by (subst s1; srfin).
  assert (Hk1 : (k <= length (s_h s1))%nat) by (pose proof (sR_len _ _ _ H1); lia).
  gc_bind H t Et.
  destruct (blines t) as [|tl0 tls].
  - destruct (bpar n) as [p|]; [|discriminate].
    gc_bind H pn Epn. gc_bind H sg2 Esg. gc_bind H is_para Eip. gc_bind H s2 Es2. gc_bind H h3 Eh3.
    injection H as <-.
    assert (H2 : sR k s1 s2).
    { destruct is_para.
      - match type of Es2 with match ?nx with Some _ => _ | None => _ end = _ => destruct nx as [y|] end; [|discriminate].
        gc_bind Es2 h2 Eh2. gc_bind Es2 ny Eny. destruct (blines ny); [discriminate|]. injection Es2 as <-.
        eapply sR_st_h; [apply sR_refl|]. eapply hRk_hupd_simple; [exact Eh2|].
        intros m. cbv beta. destruct (blines m); cbn; auto.
      - newn Es2. gc_bind Es2 h2 Eh2. injection Es2 as <-.
        eapply sR_st_h; [eapply sR_st_h; [apply sR_refl|apply hRk_alloc, dnode_kind; cbn; discriminate]|].
        prj. eapply hRk_insert_after; [exact Eh2|exact Hk1]. }
    eapply sR_trans; [exact H1|]. eapply sR_st_h; [exact H2|]. eapply hRk_remove_child, Eh3.
  - gc_bind H h2 Eh2.
    assert (H2 : hRk k (s_h s1) h2) by (eapply hRk_hupd_simple; [exact Eh2|]; intros m; cbn; auto).
    destruct (bpar t) as [tp|].
    + gc_bind H h3 Eh3. injection H as <-. eapply sR_trans; [exact H1|].
      eapply sR_st_h; [apply sR_refl|]. eapply hRk_trans; [exact H2|]. eapply hRk_remove_child, Eh3.
    + injection H as <-. eapply sR_trans; [exact H1|]. eapply sR_st_h; [apply sR_refl|exact H2].
Qed.

Lemma p_close_sR k bp s node s' : (k <= length (s_h s))%nat -> p_close space_table bp s node = Ok s' -> sR k s s'.
Proof.
  intros Hk. destruct bp; cbn [p_close]; intros H; try (injection H as <-; apply sR_refl).
  - eapply setext_close_sR; eassumption.
  - eapply list_close_sR; eassumption.
  - eapply code_close_sR; eassumption.
  - eapply fenced_close_sR; eassumption.
  - eapply paragraph_close_sR; eassumption.
Qed.

(* ---- the link reference definition transformer ---- *)
Lemma add_ref_arr c label dest title : c_arr (add_ref norm c label dest title) = c_arr c /\ c_len (add_ref norm c label dest title) = c_len c.
Proof. unfold add_ref. destruct (existsb _ _); auto. Qed.

Lemma parse_lrd_frame r c x : parse_lrd space_table punct_table norm r c = Ok x ->
  c_arr (snd (fst (fst x))) = c_arr c /\ c_len (snd (fst (fst x))) = c_len c.
Proof.
  unfold parse_lrd. intros H. cbv zeta beta in H.
  crunch H; injection H as <-; cbn [fst snd]; auto using add_ref_arr.
Qed.

Lemma lrd_loop_frame : forall fuel r c removes c' rm,
  lrd_loop space_table punct_table norm fuel r c removes = Ok (c', rm) -> c_arr c' = c_arr c /\ c_len c' = c_len c.
Proof.
  induction fuel as [|f IH]; intros r c removes c' rm H; cbn [lrd_loop] in H; [discriminate|].
  gc_bind H x Ex. apply parse_lrd_frame in Ex. destruct x as [[[r1 c1] a] b]. cbn [fst snd] in Ex.
  destruct (-1 <? a).
  - apply IH in H. destruct H as [Ha Hl]. destruct Ex as [Ea El]. split; congruence.
  - injection H as <- _. exact Ex.
Qed.

Lemma lrd_transform_sR k s node s' : (k <= length (s_h s))%nat ->
  lrd_transform space_table punct_table norm s node = Ok s' -> sR k s s'.
Proof.
  unfold lrd_transform. intros Hk H. gc_bind H n En. gc_bind H br Ebr. gc_bind H x Ex.
  destruct x as [c removes]. apply lrd_loop_frame in Ex. destruct Ex as [Ea El].
  gc_bind H lines Elines.
  assert (H1 : sR k s (st_c s c)) by (apply sR_st_c; [apply sR_refl|exact Ea|exact El]).
  destruct lines as [|l0 ls].
  - newn H. destruct (bpar n) as [p|]; [|discriminate]. gc_bind H h Eh. injection H as <-.
    eapply sR_st_h; [eapply sR_st_h; [exact H1|apply hRk_alloc, dnode_kind; cbn; discriminate]|].
    prj. eapply hRk_replace_child; [exact Eh|exact Hk].
  - gc_bind H h Eh. injection H as <-. eapply sR_st_h; [exact H1|].
    eapply hRk_hupd_simple; [exact Eh|]. intros m; cbn; auto.
Qed.

Lemma transform_paragraph_sR k s node s' g : (k <= length (s_h s))%nat ->
  transform_paragraph space_table punct_table norm s node = Ok (s', g) -> sR k s s'.
Proof.
  unfold transform_paragraph. intros Hk H. gc_bind H s1 Es1. gc_bind H n En. injection H as <- _.
  eapply lrd_transform_sR; eassumption.
Qed.
End Close.
