(* Block quotes around plain paragraphs: the heap of the block phase of a quoted document
   (SpecQuoteShape.qdoc_heap, up to the bblank fields) maps to the tree qdoc_tree false. *)
Require Import GM.model.Base GM.model.Util GM.model.UtilI GM.model.Reader GM.model.HtmlWriter GM.model.Html
               GM.model.SpecDoc GM.model.ListItem GM.model.BlockParse.
Require Import GM.proofs.SpecParaBytes GM.proofs.SpecParaBlocks GM.proofs.SpecQuoteShape.
From Coq Require Import List NArith ZArith Bool Lia.
Import ListNotations.
Open Scope Z_scope.

(* ---------- to_tree does not read the bblank field ---------- *)
Lemma map_res_ext {A B} (f g : A -> result B) l : (forall x, f x = g x) -> map_res f l = map_res g l.
Proof.
  intros H. induction l as [|x t IH]; [reflexivity|]. cbn [map_res]. rewrite H, IH. reflexivity.
Qed.

Lemma kind_of_unblank src n : kind_of src (unblank n) = kind_of src n.
Proof. destruct n. reflexivity. Qed.

Lemma hget_unblank h i : hget (map unblank h) i = (n <- hget h i ;; Ok (unblank n)).
Proof.
  unfold hget. rewrite nth_error_map. destruct (nth_error h i) as [n|]; reflexivity.
Qed.

Lemma to_tree_unblank f src h : forall i, to_tree f src (map unblank h) i = to_tree f src h i.
Proof.
  induction f as [|f IH]; intros i; [reflexivity|].
  cbn [to_tree]. rewrite hget_unblank. destruct (hget h i) as [n| |]; try reflexivity.
  cbn [bind]. rewrite kind_of_unblank.
  destruct (kind_of src n) as [k| |]; try reflexivity. cbn [bind].
  change (bch (unblank n)) with (bch n). change (blines (unblank n)) with (blines n).
  rewrite (map_res_ext _ _ (bch n) IH). reflexivity.
Qed.

Lemma to_tree_succ f src h i : to_tree (S f) src h i =
  (n <- hget h i ;; k <- kind_of src n ;; kids <- map_res (to_tree f src h) (bch n) ;; Ok (Node k (blines n) None kids)).
Proof. reflexivity. Qed.

(* ---------- the heap contains a list of nodes from an index on ---------- *)
Definition contains (h : heap) (idx : nat) (ns : list bnode) : Prop :=
  forall j n, nth_error ns j = Some n -> nth_error h (idx + j) = Some n.

Lemma contains_cons h idx x r : contains h idx (x :: r) -> nth_error h idx = Some x /\ contains h (S idx) r.
Proof.
  intros H. split.
  - specialize (H 0%nat x eq_refl). rewrite Nat.add_0_r in H. exact H.
  - intros j n Hj. specialize (H (S j) n Hj). rewrite Nat.add_succ_r in H. exact H.
Qed.
Lemma contains_app h idx a b : contains h idx (a ++ b) -> contains h idx a /\ contains h (idx + length a) b.
Proof.
  intros H. split.
  - intros j n Hj. apply H. rewrite nth_error_app1; [exact Hj|]. apply nth_error_Some. congruence.
  - intros j n Hj. rewrite <- Nat.add_assoc. apply H. rewrite nth_error_app2 by lia.
    replace (length a + j - length a)%nat with j by lia. exact Hj.
Qed.
Lemma contains_self x ns : contains (x :: ns) 1 ns.
Proof. intros j n Hj. exact Hj. Qed.

(* ---------- sizes ---------- *)
Lemma qb_qbs_nodes_length :
  (forall b tl L off par idx, length (qb_nodes tl L off par idx b) = qb_size b) /\
  (forall bs tl L Ls off par idx, length (qbs_nodes tl L Ls off par idx bs) = qbs_size bs).
Proof.
  apply qb_qbs_ind.
  - intros p tl L off par idx. reflexivity.
  - intros st bs IH tl L off par idx. cbn [qb_nodes qb_size length]. rewrite IH. reflexivity.
  - intros b IH tl L Ls off par idx. cbn [qbs_nodes qbs_size]. apply IH.
  - intros b IHb r IHr tl L Ls off par idx. cbn [qbs_nodes qbs_size]. rewrite app_length, IHb, IHr. reflexivity.
Qed.
Lemma qb_nodes_length b tl L off par idx : length (qb_nodes tl L off par idx b) = qb_size b.
Proof. apply (proj1 qb_qbs_nodes_length). Qed.
Lemma qbs_nodes_length bs tl L Ls off par idx : length (qbs_nodes tl L Ls off par idx bs) = qbs_size bs.
Proof. apply (proj2 qb_qbs_nodes_length). Qed.

Lemma qb_qbs_size_pos : (forall b, (1 <= qb_size b)%nat) /\ (forall bs, (1 <= qbs_size bs)%nat).
Proof.
  apply qb_qbs_ind.
  - intros p. cbn [qb_size]. lia.
  - intros st bs IH. cbn [qb_size]. lia.
  - intros b IH. exact IH.
  - intros b IHb r IHr. cbn [qbs_size]. lia.
Qed.

(* ---------- from the heap to the tree ---------- *)
Lemma qb_qbs_to_tree src h :
  (forall b L off par idx f, contains h idx (qb_nodes 0 L off par idx b) -> (qb_size b <= f)%nat ->
     to_tree f src h idx = Ok (qb_tree false L off b)) /\
  (forall bs L Ls off par idx f, contains h idx (qbs_nodes 0 L Ls off par idx bs) -> (qbs_size bs <= f)%nat ->
     map_res (to_tree f src h) (qbs_ids idx bs) = Ok (qbs_trees false L Ls off bs)).
Proof.
  apply qb_qbs_ind.
  - intros p L off par idx f Hc Hf. cbn [qb_nodes] in Hc. apply contains_cons in Hc. destruct Hc as [Hn _].
    cbn [qb_size] in Hf. destruct f as [|g]; [lia|].
    cbn [to_tree]. unfold hget. rewrite Hn. reflexivity.
  - intros st bs IH L off par idx f Hc Hf. cbn [qb_nodes] in Hc. apply contains_cons in Hc. destruct Hc as [Hn Hc].
    cbn [qb_size] in Hf. destruct f as [|g]; [lia|].
    cbn [to_tree]. unfold hget. rewrite Hn. cbn [bind qnode bk kind_of bch blines].
    rewrite (IH _ _ off idx (S idx) g Hc) by lia. reflexivity.
  - intros b IH L Ls off par idx f Hc Hf. cbn [qbs_nodes qbs_size qbs_ids qbs_trees map_res] in *.
    rewrite (IH L off par idx f Hc Hf). reflexivity.
  - intros b IHb r IHr L Ls off par idx f Hc Hf. cbn [qbs_nodes qbs_size qbs_ids qbs_trees map_res] in *.
    apply contains_app in Hc. destruct Hc as [Hb Hr]. rewrite qb_nodes_length in Hr.
    rewrite (IHb L off par idx f Hb) by lia. cbn [bind].
    rewrite (IHr L Ls _ par _ f Hr) by lia. reflexivity.
Qed.

Theorem qdoc_to_tree : forall d h src, map unblank h = qdoc_heap d ->
  to_tree (S (length h)) src h 0%nat = Ok (qdoc_tree false d).
Proof.
  intros d h src Hh. rewrite <- to_tree_unblank. rewrite <- (map_length unblank h). rewrite Hh.
  unfold qdoc_heap, qdoc_tree. rewrite to_tree_succ. cbn [length hget nth_error bind dnode bk kind_of bch blines].
  rewrite (proj2 (qb_qbs_to_tree src _) d 0 0 0 0%nat 1%nat _ (contains_self _ _)).
  - reflexivity.
  - rewrite qbs_nodes_length. lia.
Qed.
