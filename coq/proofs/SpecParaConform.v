(* C02 on a fragment, for EVERY document of the fragment: the Convert model (the whole parser
   model of model/BlockParse.v + model/InlineParse.v, then the renderer model) maps the
   CommonMark spelling md_of of a document made of plain paragraphs to the HTML the specification
   prescribes, html_of (model/SpecDoc.v).  A plain paragraph is a non-empty list of words
   ([a-z]+) and soft line breaks, with no break first, last, or next to another break.
   Helper files: proofs/SpecPara*.v. *)
Require Import GM.model.Base GM.model.Util GM.model.UtilI GM.model.Reader GM.model.HtmlWriter GM.model.Html GM.model.HtmlI
               GM.model.SpecDoc GM.model.BlockParse GM.model.InlineParse GM.model.ParseI.
Require Import GM.proofs.SpecConformance.
Require Import GM.proofs.SpecParaBytes GM.proofs.SpecParaSpec GM.proofs.SpecParaWords GM.proofs.SpecParaCompose.
From Coq Require Import List NArith ZArith Bool Lia.
Import ListNotations.
Open Scope N_scope.

Definition is_word (w : bytes) : bool := negb (match w with [] => true | _ => false end) && forallb (fun c => (97 <=? c) && (c <=? 122)) w.

(* words and soft breaks; no break first, last or adjacent to another *)
Fixpoint plain_atoms (prev_break : bool) (l : list atom) : bool :=
  match l with
  | [] => negb prev_break
  | AWord w :: r => is_word w && plain_atoms false r
  | ASoft :: r => negb prev_break && plain_atoms true r
  | _ => false
  end.
Definition plain_para (b : block) : bool :=
  match b with BPara 0 a => match a with [] => false | _ => plain_atoms true a end | _ => false end.
Definition plain_doc (d : doc) : bool := negb (match d with [] => true | _ => false end) && forallb plain_para d.

(* stage 1: one paragraph on one line *)
Theorem one_line_paragraph_conforms : forall c ws,
  ws <> [] -> forallb is_word ws = true ->
  ConvertModel c (md_of false true [BPara 0 (map AWord ws)]) = Ok (html_of [BPara 0 (map AWord ws)]).
Proof.
  intros c ws Hne Hw.
  destruct (words_shape ws Hne Hw) as (b & Hb & Hmd & Hhtml).
  rewrite (Hmd true), Hhtml. apply convert_plain_one. exact Hb.
Qed.

(* stage 2: one paragraph, several lines (with the HardWraps option a soft break is written as a
   <br>, which html_of does not describe) *)
Theorem one_paragraph_conforms : forall c a,
  hardwraps c = false -> plain_para (BPara 0 a) = true ->
  ConvertModel c (md_of false true [BPara 0 a]) = Ok (html_of [BPara 0 a]).
Proof.
  intros c a Hc Ha.
  destruct (plain_para_shape a Ha) as (p & Hok & Hmd & Hhtml).
  rewrite (Hmd true), Hhtml. apply convert_plain; [exact Hc|].
  unfold doc_ok. cbn [is_nil negb forallb andb]. rewrite Hok. reflexivity.
Qed.

(* stage 3: every plain document, with or without the final newline *)
Theorem plain_doc_conforms : forall c fin d,
  hardwraps c = false -> plain_doc d = true ->
  ConvertModel c (md_of false fin d) = Ok (html_of d).
Proof.
  intros c fin d Hc Hd.
  destruct (plain_doc_shape d Hd) as (d' & Hok & Hmd & Hhtml).
  rewrite (Hmd fin), Hhtml. apply convert_plain; assumption.
Qed.
