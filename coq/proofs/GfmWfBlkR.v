(* Helper library for GfmWfBlk.v, part R: InsertAfter of a new childless node behind a child that is not
   an opened block (the placeholder of a table behind its paragraph), modelled on the sections
   Append / Replace of part B. *)
Require Import GM.model.Base GM.model.Util GM.model.Reader GM.model.ReaderSpec GM.model.Blocks GM.model.ListItem
               GM.model.LeafBlocks GM.model.CodeBlock GM.model.LinkDest GM.model.Regex GM.model.HtmlWriter
               GM.model.Html GM.model.HtmlSpec GM.model.BlockParse GM.model.InlineParse.
Require Import GM.proofs.ReaderProofs GM.proofs.BlockRangeProofs GM.proofs.ParseInv
               GM.proofs.ParseBlocksRangeA GM.proofs.GfmWfBlkB GM.proofs.GfmWfBlkC
               GM.proofs.GfmWfBlkD GM.proofs.GfmWfBlkE GM.proofs.GfmWfBlkJ.
From Coq Require Import ZArith Lia Sorted.
Open Scope Z_scope.

(* ================= child lists ================= *)
Lemma insert_after_id_in r y l x : In x (insert_after_id r y l) <-> x = y \/ In x l.
Proof.
  induction l as [|z t IH]; cbn [insert_after_id].
  - cbn [In]. intuition auto.
  - destruct (Nat.eqb r z); cbn [In]; [intuition auto|]. rewrite IH. intuition auto.
Qed.

Lemma insert_after_id_nodup r y l : NoDup l -> ~ In y l -> NoDup (insert_after_id r y l).
Proof.
  induction l as [|z t IH]; cbn [insert_after_id]; intros Hnd Hy.
  - constructor; [auto|constructor].
  - inversion Hnd as [|? ? Hz Ht]; subst. destruct (Nat.eqb r z).
    + constructor; [intros [H|H]; [apply Hy; left; congruence|exact (Hz H)]|]. constructor; [|exact Ht]. intros H. apply Hy. right. exact H.
    + constructor.
      * intros H. apply insert_after_id_in in H. destruct H as [->|H]; [apply Hy; left; reflexivity|auto].
      * apply IH; [exact Ht|]. intros H. apply Hy. right. exact H.
Qed.

Lemma insert_after_id_last r y l x : last_id l = Some x -> x <> r -> In r l -> last_id (insert_after_id r y l) = Some x.
Proof.
  intros H Hx Hr. apply last_id_some in H. destruct H as [l' ->]. apply last_id_some.
  apply in_app_or in Hr. destruct Hr as [Hr|[Hr|[]]]; [|congruence].
  induction l' as [|z t IH]; [destruct Hr|]. cbn [app insert_after_id]. destruct (Nat.eqb_spec r z) as [E|E].
  - exists (z :: y :: t). reflexivity.
  - destruct Hr as [Hr|Hr]; [congruence|]. destruct (IH Hr) as [l'' E']. rewrite E'. exists (z :: l''). reflexivity.
Qed.

(* ================= InsertAfter ================= *)
Lemma insert_after_spec h p ref new h1 : insert_after h p ref new = Ok h1 -> new <> p ->
  exists np nn, nth_error h p = Some np /\ nth_error h new = Some nn /\ length h1 = length h /\
    nth_error h1 p = Some (set_ch np (insert_after_id ref new (bch np))) /\
    nth_error h1 new = Some (set_par nn (Some p)) /\
    forall j, j <> p -> j <> new -> nth_error h1 j = nth_error h j.
Proof.
  unfold insert_after. intros H Hne. bind_inv H h0 E0. apply hupd_ok in E0. destruct E0 as [np [Ep ->]].
  apply hupd_ok in H. destruct H as [nn [En ->]]. rewrite nth_hset_ne in En by congruence.
  exists np, nn. csplit; auto.
  - rewrite !length_hset. reflexivity.
  - rewrite nth_hset_ne by congruence. apply nth_hset_eq. eapply nth_some_lt; eassumption.
  - apply nth_hset_eq. rewrite length_hset. eapply nth_some_lt; eassumption.
  - intros j H1 H2. rewrite !nth_hset_ne by congruence. reflexivity.
Qed.

Section Insert.
Variable space_table : list N.
Variable src : bytes.
Notation nodeP := (nodeP space_table src).
Notation heapS := (heapS space_table src).
Notation Jinv := (Jinv src).
Notation fin := (fin src).
Variables (h h1 : heap) (p ref new : nat) (np nn : bnode).
Hypothesis Hnp : new <> p.
Hypothesis Ep : nth_error h p = Some np.
Hypothesis En : nth_error h new = Some nn.
Hypothesis Pn : bpar nn = None.
Hypothesis Cn : bch nn = [].
Hypothesis Href : In ref (bch np).
Hypothesis E1p : nth_error h1 p = Some (set_ch np (insert_after_id ref new (bch np))).
Hypothesis E1n : nth_error h1 new = Some (set_par nn (Some p)).
Hypothesis E1o : forall j, j <> p -> j <> new -> nth_error h1 j = nth_error h j.
Set Default Proof Using "All".

Lemma insert_cases j m : nth_error h1 j = Some m ->
  (j = new /\ m = set_par nn (Some p)) \/ (j = p /\ m = set_ch np (insert_after_id ref new (bch np))) \/
  (j <> new /\ j <> p /\ nth_error h j = Some m).
Proof.
  intros H. destruct (Nat.eq_dec j new) as [->|H1]; [left; split; congruence|].
  destruct (Nat.eq_dec j p) as [->|H2]; [right; left; split; congruence|].
  right. right. rewrite E1o in H by assumption. auto.
Qed.

Lemma insert_bpar_same x nx : x <> new -> nth_error h x = Some nx -> exists nx', nth_error h1 x = Some nx' /\ bpar nx' = bpar nx.
Proof.
  intros Hx Ex. destruct (Nat.eq_dec x p) as [->|Hp].
  - eexists. split; [exact E1p|]. assert (nx = np) by congruence. subst. reflexivity.
  - exists nx. rewrite E1o by assumption. auto.
Qed.

Lemma insert_data_le : data_le h h1.
Proof.
  intros j m Hj. destruct (Nat.eq_dec j new) as [->|H1].
  - eexists. split; [exact E1n|]. assert (m = nn) by congruence. subst. auto.
  - destruct (Nat.eq_dec j p) as [->|H2].
    + eexists. split; [exact E1p|]. assert (m = np) by congruence. subst. auto.
    + exists m. rewrite E1o by assumption. auto.
Qed.

Lemma heapS_insert : heapS h -> new <> 0%nat -> bk nn <> BListItem -> heapS h1.
Proof.
  intros [Hroot HK Hnd Hns Hit Hnode] Hn0 Hli.
  assert (forall x nx, nth_error h1 x = Some nx -> exists nx0, nth_error h x = Some nx0 /\ bk nx0 = bk nx) as Hkind.
  { intros x nx Hx. apply insert_cases in Hx. destruct Hx as [[-> ->]|[[-> ->]|[_ [_ Hx]]]]; eexists; split; try eassumption; reflexivity. }
  assert (~ In new (bch np)) as Hnew.
  { intros Hin. destruct (HK p np new Ep Hin) as [nx [Ex Px]]. congruence. }
  constructor.
  - destruct Hroot as [n0 [E0 [K0 P0]]]. destruct (Nat.eq_dec 0 p) as [<-|Hne].
    + eexists. split; [exact E1p|]. assert (n0 = np) by congruence. subst. auto.
    + exists n0. rewrite E1o by congruence. auto.
  - intros q nq x Hq Hx. apply insert_cases in Hq. destruct Hq as [[-> ->]|[[-> ->]|[H1 [H2 Hq]]]].
    + cbn [set_par bch] in Hx. rewrite Cn in Hx. destruct Hx.
    + cbn [set_ch bch] in Hx. apply insert_after_id_in in Hx. destruct Hx as [->|Hx].
      * eexists. split; [exact E1n|reflexivity].
      * destruct (HK p np x Ep Hx) as [nx [Ex Px]].
        assert (x <> new) as Hxn by (intros ->; congruence).
        destruct (insert_bpar_same x nx Hxn Ex) as [nx' [Ex' Px']]. exists nx'. split; congruence.
    + destruct (HK q nq x Hq Hx) as [nx [Ex Px]].
      assert (x <> new) as Hxn by (intros ->; congruence).
      destruct (insert_bpar_same x nx Hxn Ex) as [nx' [Ex' Px']]. exists nx'. split; congruence.
  - intros q nq Hq. apply insert_cases in Hq. destruct Hq as [[-> ->]|[[-> ->]|[H1 [H2 Hq]]]].
    + cbn [set_par bch]. eapply Hnd; eassumption.
    + cbn [set_ch bch]. apply insert_after_id_nodup; [eapply Hnd; eassumption|exact Hnew].
    + eapply Hnd; eassumption.
  - intros q nq Hq. apply insert_cases in Hq. destruct Hq as [[-> ->]|[[-> ->]|[H1 [H2 Hq]]]].
    + cbn [set_par bpar]. congruence.
    + cbn [set_ch bpar]. eapply Hns; eassumption.
    + eapply Hns; eassumption.
  - intros q nq x nx Hq Hin Hx Kx. destruct (Hkind x nx Hx) as [nx0 [Ex0 Kx0]].
    apply insert_cases in Hq. destruct Hq as [[-> ->]|[[-> ->]|[H1 [H2 Hq]]]].
    + cbn [set_par bch] in Hin. rewrite Cn in Hin. destruct Hin.
    + cbn [set_ch bch bk] in *. apply insert_after_id_in in Hin. destruct Hin as [->|Hin].
      * assert (nx0 = nn) by congruence. subst. congruence.
      * eapply (Hit p np x nx0); try eassumption. congruence.
    + eapply (Hit q nq x nx0); try eassumption. congruence.
  - intros q nq Hq. apply insert_cases in Hq. destruct Hq as [[-> ->]|[[-> ->]|[H1 [H2 Hq]]]].
    + apply (nodeP_same _ _ nn); auto. eapply Hnode; eassumption.
    + apply (nodeP_same _ _ np); auto; [eapply Hnode; eassumption|]. intros Hk. exfalso.
      rewrite (np_leaf _ _ np (Hnode p np Ep) Hk) in Href. destruct Href.
    + eapply Hnode; eassumption.
Qed.

Lemma Jinv_insert R : Jinv h R -> fin nn -> Jinv h1 R.
Proof.
  intros HJ Hfn q nq Hq Hp. apply insert_cases in Hq. destruct Hq as [[-> ->]|[[-> ->]|[H1 [H2 Hq]]]].
  - left. apply (fin_same _ nn); auto.
  - cbn [set_ch bpar] in Hp. destruct (HJ p np Ep Hp) as [Hf|Hin]; [left|right; auto]. apply (fin_same _ np); auto.
  - destruct (HJ q nq Hq Hp); [left|right]; auto.
Qed.

Lemma Bnd_insert b : Bnd h b -> Bnd h1 b.
Proof.
  intros HB q nq sg Hq Hk Hs. apply insert_cases in Hq. destruct Hq as [[-> ->]|[[-> ->]|[H1 [H2 Hq]]]].
  - eapply (HB new nn); eauto.
  - eapply (HB p np); eauto.
  - eapply HB; eauto.
Qed.

Lemma insert_lastchild q y : lastchild h q y -> y <> ref -> lastchild h1 q y.
Proof.
  intros [nq [Eq L]] Hy. destruct (Nat.eq_dec q new) as [->|Hqn].
  - eexists. split; [exact E1n|]. assert (nq = nn) by congruence. subst. exact L.
  - destruct (Nat.eq_dec q p) as [->|Hqp].
    + eexists. split; [exact E1p|]. assert (nq = np) by congruence. subst. cbn [set_ch bch].
      apply insert_after_id_last; assumption.
    + exists nq. rewrite E1o by assumption. auto.
Qed.
Lemma insert_child_keep q y : child h q y -> child h1 q y.
Proof.
  intros [nq [Eq L]]. destruct (Nat.eq_dec q new) as [->|Hqn].
  - eexists. split; [exact E1n|]. assert (nq = nn) by congruence. subst. exact L.
  - destruct (Nat.eq_dec q p) as [->|Hqp].
    + eexists. split; [exact E1p|]. assert (nq = np) by congruence. subst. cbn [set_ch bch].
      apply insert_after_id_in. right. exact L.
    + exists nq. rewrite E1o by assumption. auto.
Qed.
End Insert.

Section R.
Variable space_table punct_table : list N.
Variable norm : bytes -> bytes.
Variable re_t1o re_t1c re_t2 re_t3 re_t4 re_t5 re_t6 re_t7 : re.
Variable allowed_tags : list bytes.
Variable src : bytes.
Hypothesis sp32 : is_space space_table 32%N = true.
Set Default Proof Using "All".

Notation CC f := (f space_table punct_table norm re_t1o re_t1c re_t2 re_t3 re_t4 re_t5 re_t6 re_t7 allowed_tags src sp32) (only parsing).
Notation SInv := (SInv space_table src).
Notation HI := (HI space_table src).
Notation nodeP := (nodeP space_table src).
Notation heapS := (heapS space_table src).
Notation Jinv := (Jinv src).
Notation openS := (openS src).
Notation fin := (fin src).

(* a new node nn is inserted behind ref, a child of p that is not an opened block *)
Lemma HI_insert_spec b h c A D N p ref np nn h1 : HI b h c A D N -> ~ In ref (ids (A ++ D ++ N)) ->
  nth_error h p = Some np -> In ref (bch np) ->
  nodeP nn -> bpar nn = None -> bch nn = [] -> bk nn <> BListItem -> bk nn <> BParagraph -> bk nn <> BHeading ->
  nth_error h1 p = Some (set_ch np (insert_after_id ref (length h) (bch np))) ->
  nth_error h1 (length h) = Some (set_par nn (Some p)) ->
  (forall j, j <> p -> j <> length h -> nth_error h1 j = nth_error (h ++ [nn]) j) ->
  HI b h1 c A D N.
Proof.
  intros HH Hni Ep Href Hnn Pnn Cnn K1 K2 K3 E1p E1n E1o.
  pose proof (nth_some_lt _ _ _ Ep) as Hplt. set (t := length h) in *.
  assert (t <> p) as Hnp by lia.
  assert (nth_error (h ++ [nn]) p = Some np) as Ep'' by (rewrite nth_error_app1 by exact Hplt; exact Ep).
  assert (nth_error (h ++ [nn]) t = Some nn) as Et' by apply nth_app_new.
  assert (fin nn) as Hfn by (intros [K|K]; congruence).
  pose proof (CC HI_alloc _ _ _ _ _ _ nn HH Hnn Pnn Cnn ltac:(intros K; congruence)) as [B0 S0 J0 O0 R0].
  constructor.
  - apply (Bnd_insert space_table src (h ++ [nn]) h1 p ref t np nn Hnp Ep'' Et' Pnn Cnn Href E1p E1n E1o). exact B0.
  - apply (heapS_insert space_table src (h ++ [nn]) h1 p ref t np nn Hnp Ep'' Et' Pnn Cnn Href E1p E1n E1o); [exact S0| |exact K1].
    destruct (hs_root _ _ _ (hi_heap _ _ _ _ _ _ _ _ HH)) as [n0 [E0 _]]. apply nth_some_lt in E0. fold t in E0. lia.
  - apply (Jinv_insert space_table src (h ++ [nn]) h1 p ref t np nn Hnp Ep'' Et' Pnn Cnn Href E1p E1n E1o); assumption.
  - apply (openS_tr src (h ++ [nn])).
    + exact O0.
    + exact (insert_data_le space_table src (h ++ [nn]) h1 p ref t np nn Hnp Ep'' Et' Pnn Cnn Href E1p E1n E1o).
    + intros q y Hy Hl. apply (insert_lastchild space_table src (h ++ [nn]) h1 p ref t np nn Hnp Ep'' Et' Pnn Cnn Href E1p E1n E1o _ _ Hl). intros ->. contradiction.
    + intros q y Hy Hl. exact (insert_child_keep space_table src (h ++ [nn]) h1 p ref t np nn Hnp Ep'' Et' Pnn Cnn Href E1p E1n E1o _ _ Hl).
  - exact R0.
Qed.

Lemma HI_insert_unlisted b h c A D N p ref np nn h1 : HI b h c A D N -> ~ In ref (ids (A ++ D ++ N)) ->
  nth_error h p = Some np -> In ref (bch np) ->
  nodeP nn -> bpar nn = None -> bch nn = [] -> bk nn <> BListItem -> bk nn <> BParagraph -> bk nn <> BHeading ->
  insert_after (h ++ [nn]) p ref (length h) = Ok h1 ->
  HI b h1 c A D N /\ length h1 = S (length h) /\
  nth_error h1 p = Some (set_ch np (insert_after_id ref (length h) (bch np))) /\
  nth_error h1 (length h) = Some (set_par nn (Some p)) /\
  forall j, j <> p -> j <> length h -> nth_error h1 j = nth_error (h ++ [nn]) j.
Proof.
  intros HH Hni Ep Href Hnn Pnn Cnn K1 K2 K3 Hi.
  pose proof (nth_some_lt _ _ _ Ep) as Hplt.
  assert (length h <> p) as Hnp by lia.
  destruct (insert_after_spec _ _ _ _ _ Hi Hnp) as [np' [nn' [Ep' [Enn [Hlen [E1p [E1n E1o]]]]]]].
  rewrite nth_error_app1 in Ep' by exact Hplt. assert (np' = np) by congruence. subst np'.
  rewrite nth_app_new in Enn. injection Enn as <-.
  split; [eapply HI_insert_spec; eassumption|]. csplit; auto. rewrite Hlen, app_length; cbn [length]; lia.
Qed.

End R.
