(* Block quotes around plain paragraphs, block phase, part 7: one line of the per-line loop of
   the parser model is one step of the abstract machine. *)
Require Import GM.model.Base GM.model.Util GM.model.Reader GM.model.ListItem GM.model.Blocks GM.model.CodeBlock
               GM.model.Regex GM.model.BlockParse GM.model.SpecDoc.
Require Import GM.gen.Tables GM.proofs.SpecParaBytes GM.proofs.SpecParaReader GM.proofs.SpecParaBlocks GM.proofs.SpecParaBlocks2
               GM.proofs.SpecQuoteShape GM.proofs.SpecQuoteMachine GM.proofs.SpecQuoteReader GM.proofs.SpecQuoteSteps
               GM.proofs.SpecQuoteSteps2 GM.proofs.SpecQuoteSteps3 GM.proofs.SpecQuoteEach GM.proofs.SpecQuoteEach2
               GM.proofs.SpecQuoteRel.
From Coq Require Import List NArith ZArith Bool Lia.
Import ListNotations.
Open Scope Z_scope.

Opaque space_table punct_table.

Lemma rdA_line src k pre line term rest : no_nl line -> term_ok term rest ->
  rdA src k pre (line ++ term ++ rest) = rd src k (zlen pre) (zlen pre + zlen (line ++ term)) (zlen pre) None (-1).
Proof. intros Hl Ht. unfold rdA. rewrite (fline_text line term rest Hl Ht). reflexivity. Qed.
Lemma at_line_here pre L rest : at_line (pre ++ L ++ rest) pre L rest (zlen pre) (zlen pre + zlen L).
Proof. split; [reflexivity|split; reflexivity]. Qed.
Lemma advance_after src k a b st pk lo pre L rest h c :
  src = pre ++ L ++ rest -> b = zlen pre + zlen L ->
  advance_line_s (mkst h c (rd src k a b st pk lo)) = mkst h c (rdA src (k + 1) (pre ++ L) rest).
Proof.
  intros Hs Hb. unfold advance_line_s, st_r. cbn [s_h s_c s_r].
  rewrite (advance_line_suf' src (pre ++ L) rest); [reflexivity|rewrite Hs, <- app_assoc; reflexivity|rewrite zlen_app; exact Hb].
Qed.
Lemma is_bq_front_inv h x q : is_bq (h ++ [x]) q -> bk x <> BBlockquote -> is_bq h q.
Proof.
  intros (n & Hn & Hk & Hp) Hx.
  assert (Hlt : (q < length h)%nat).
  { assert (Hq : (q < length (h ++ [x]))%nat) by (apply nth_error_Some; rewrite Hn; discriminate).
    rewrite app_length in Hq. cbn [length] in Hq.
    destruct (Nat.eq_dec q (length h)) as [->|Hne]; [|lia].
    rewrite nth_error_last in Hn. injection Hn as <-. contradiction. }
  exists n. split; [|split; assumption]. rewrite nth_error_app1 in Hn by exact Hlt. exact Hn.
Qed.
Lemma pnode_not_bq par ls bl : bk (pnode par ls bl) <> BBlockquote.
Proof. discriminate. Qed.

Lemma Forall_firstn_ {A} (P : A -> Prop) n : forall l, Forall P l -> Forall P (firstn n l).
Proof.
  induction n as [|n IH]; intros l H; [constructor|]. destruct H as [|x l Hx Hl]; [constructor|].
  cbn [firstn]. constructor; [exact Hx|apply IH; exact Hl].
Qed.
Lemma split_at {A} (l : list A) n : (n < length l)%nat -> exists l1 x l2, l = l1 ++ x :: l2 /\ length l1 = n.
Proof.
  revert l. induction n as [|n IH]; intros l Hn.
  - destruct l as [|x l]; [cbn [length] in Hn; lia|]. exists [], x, l. split; reflexivity.
  - destruct l as [|y l]; [cbn [length] in Hn; lia|]. cbn [length] in Hn.
    destruct (IH l ltac:(lia)) as (l1 & x & l2 & -> & Hl). exists (y :: l1), x, l2. split; [reflexivity|cbn [length]; lia].
Qed.

Section Driver.
Variable norm : bytes -> bytes.
Variables re_t1o re_t1c re_t2 re_t3 re_t4 re_t5 re_t6 re_t7 : re.
Variable allowed_tags : list bytes.
Notation OB := (open_blocks space_table punct_table norm re_t1o re_t1c re_t2 re_t3 re_t4 re_t5 re_t6 re_t7 allowed_tags).
Notation EACH := (each_opened space_table punct_table norm re_t1o re_t1c re_t2 re_t3 re_t4 re_t5 re_t6 re_t7 allowed_tags).
Notation LINES := (lines_loop space_table punct_table norm re_t1o re_t1c re_t2 re_t3 re_t4 re_t5 re_t6 re_t7 allowed_tags).

Lemma lines_loop_step f root stats s cap : opened (s_c s) = cap -> cap <> [] ->
  LINES (S f) root stats s =
  (x <- EACH (S (length cap)) cap root 0 (zlen cap - 1) stats s ;;
   let '(r, stats) := x in
   match r with inl s => Ok (inl s, stats) | inr s => LINES f root stats (advance_line_s s) end).
Proof. intros H Hne. cbn [lines_loop]. rewrite H. destruct cap; [congruence|reflexivity]. Qed.

(* a further line of the open paragraph *)
Lemma step_cont f src tl s m k pre ms body term rest stats :
  Rel src tl s m k pre ((chain ms ++ body) ++ term ++ rest) -> a_p s = true -> length ms = length (a_q s) ->
  body_okb body = true -> term_ok term rest ->
  exists stats' m',
    LINES (S f) 0%nat stats m = LINES f 0%nat stats' m' /\
    Rel src (zlen term) (astep (zlen term) s (LTxt ms body)) m' (k + 1) (pre ++ (chain ms ++ body) ++ term) rest.
Proof.
  intros [Hsrc Hoff Hheap [junk Hctx] Hrd Hbq Hpar Hroot] Hp Hlen Hb Ht.
  destruct m as [h c r]. cbn [s_h s_c s_r] in *. subst c r.
  destruct (Hpar Hp) as (h0 & pp & acc & a & e & bl & pre0 & body0 & term0 & Hh & Hacc & Hcur & Hpre & Htl).
  subst h.
  assert (Hlh : length (a_h s) = S (length h0)).
  { rewrite <- Hheap, map_length, app_length. cbn [length]. lia. }
  assert (Hq0 : Forall (is_bq h0) (a_q s)).
  { eapply Forall_impl; [|exact Hbq]. intros x Hx. eapply is_bq_front_inv; [exact Hx|apply pnode_not_bq]. }
  set (L := chain ms ++ body ++ term).
  assert (HL : (chain ms ++ body) ++ term = L) by (unfold L; rewrite <- app_assoc; reflexivity).
  assert (Hsrc' : src = pre ++ L ++ rest) by (rewrite Hsrc, <- HL, <- !app_assoc; reflexivity).
  assert (Hat : at_line src pre L rest (zlen pre) (zlen pre + zlen L)) by (rewrite Hsrc'; apply at_line_here).
  assert (Hcap : aop s = qop (a_q s) ++ [(length h0, PParagraph)]).
  { unfold aop. rewrite Hp, Hlh. replace (S (length h0) - 1)%nat with (length h0) by lia. reflexivity. }
  rewrite Hcap in *.
  destruct (each_txt_cont norm re_t1o re_t1c re_t2 re_t3 re_t4 re_t5 re_t6 re_t7 allowed_tags
              ms (S (length (qop (a_q s) ++ [(length h0, PParagraph)]))) (a_q s) junk 0%nat stats h0 pp (acc ++ [mkseg a e]) bl
              src pre body term rest k (zlen pre) (zlen pre + zlen L) Hat Hb Ht Hq0 Hlen) as (stats' & Heach).
  { rewrite app_length, qop_length. cbn [length]. lia. }
  exists stats'. eexists. split.
  - erewrite lines_loop_step; [|cbn [s_c]; apply opened_octx|destruct (qop (a_q s)); discriminate].
    cbn [s_r]. rewrite (rdA_line src k pre (chain ms ++ body) term rest) by (first [exact Ht|apply no_nl_app; [apply no_nl_chain|apply no_nl_body; exact Hb]]).
    rewrite HL.
    replace (zlen (qop (a_q s) ++ [(length h0, PParagraph)]) - 1) with (zlen (a_q s))
      by (rewrite zlen_app, zlen_qop; change (zlen [(length h0, PParagraph)]) with 1; lia).
    rewrite Heach. cbn [bind].
    rewrite (advance_after src k _ _ _ _ _ pre L rest) by (try exact Hsrc'; reflexivity). reflexivity.
  - assert (Hheap' : map unblank (h0 ++ [pnode (Some pp) ((acc ++ [mkseg a e]) ++ [mkseg (zlen pre + zlen (chain ms)) (zlen pre + zlen L)]) bl]) =
                     a_h (astep (zlen term) s (LTxt ms body))).
    { cbn [astep]. rewrite Hp. cbn [a_h]. rewrite <- Hheap, !map_app. cbn [map]. rewrite !unblank_pnode, upd_last_app.
      unfold add_line. cbn [pnode blines set_lines]. rewrite Hoff. unfold L. rewrite !zlen_app.
      replace (zlen pre + zlen (chain ms) + zlen body + zlen term) with (zlen pre + (zlen (chain ms) + (zlen body + zlen term))) by lia.
      reflexivity. }
    rewrite HL. split; cbn [s_h s_c s_r].
    + rewrite Hsrc'. rewrite <- !app_assoc. reflexivity.
    + cbn [astep]. rewrite Hp. cbn [a_off]. rewrite Hoff, zlen_app. unfold L. rewrite !zlen_app. lia.
    + exact Hheap'.
    + exists junk. f_equal. unfold aop. rewrite <- Hheap'. cbn [astep]. rewrite Hp. cbn [a_q a_p].
      rewrite map_length, app_length. cbn [length]. replace (length h0 + 1 - 1)%nat with (length h0) by lia. reflexivity.
    + reflexivity.
    + cbn [astep]. rewrite Hp. cbn [a_q]. eapply Forall_impl; [|exact Hq0]. intros x Hx. apply is_bq_app. exact Hx.
    + intros _. exists h0, pp, (acc ++ [mkseg a e]), (zlen pre + zlen (chain ms)), (zlen pre + zlen L), bl, (pre ++ chain ms), body, term.
      split; [reflexivity|]. split.
      { apply Forall_app. split; [exact Hacc|]. constructor; [|constructor]. exact (cur_line_good _ _ _ _ _ _ _ Hcur). }
      split.
      { split; [|exact Hb|exact Ht]. apply at_line_shift. exact Hat. }
      split; [unfold L; rewrite <- !app_assoc; reflexivity|reflexivity].
    + rewrite app_length. cbn [length]. lia.
Qed.

(* a separator line: the paragraph and the quotes behind the markers of the line are closed *)
Lemma step_sep f src tl s m k pre tau rest stats :
  Rel src tl s m k pre (lbytes (LSep tau) ++ [10%N] ++ rest) -> a_p s = true ->
  (length (sep_ms tau) <= length (a_q s))%nat ->
  exists stats' m',
    LINES (S f) 0%nat stats m = LINES f 0%nat stats' m' /\
    forall tl', Rel src tl' (astep 1 s (LSep tau)) m' (k + 1) (pre ++ lbytes (LSep tau) ++ [10%N]) rest.
Proof.
  intros [Hsrc Hoff Hheap [junk Hctx] Hrd Hbq Hpar Hroot] Hp Hlen.
  destruct m as [h c r]. cbn [s_h s_c s_r] in *. subst c r.
  destruct (Hpar Hp) as (h0 & pp & acc & a & e & bl & pre0 & body0 & term0 & Hh & Hacc & Hcur & Hpre & Htl).
  subst h.
  assert (Hlh : length (a_h s) = S (length h0)).
  { rewrite <- Hheap, map_length, app_length. cbn [length]. lia. }
  assert (Hq0 : Forall (is_bq h0) (a_q s)).
  { eapply Forall_impl; [|exact Hbq]. intros x Hx. eapply is_bq_front_inv; [exact Hx|apply pnode_not_bq]. }
  set (ms := sep_ms tau) in *.
  assert (Hlb : lbytes (LSep tau) = chain ms) by apply sep_ms_bytes.
  rewrite Hlb in *.
  set (L := chain ms ++ [10%N]).
  assert (Hsrc' : src = pre ++ L ++ rest) by (rewrite Hsrc; unfold L; rewrite <- !app_assoc; reflexivity).
  assert (Hat : at_line src pre L rest (zlen pre) (zlen pre + zlen L)) by (rewrite Hsrc'; apply at_line_here).
  assert (Hcap : aop s = qop (a_q s) ++ [(length h0, PParagraph)]).
  { unfold aop. rewrite Hp, Hlh. replace (S (length h0) - 1)%nat with (length h0) by lia. reflexivity. }
  rewrite Hcap in *.
  assert (Hterm0 : term0 = [10%N]).
  { apply (term_ok_nonempty term0 _ (cl_term _ _ _ _ _ _ _ Hcur)). destruct (chain ms); discriminate. }
  pose proof (cur_line_len _ _ _ _ _ _ _ Hcur) as Hlen0. rewrite Hterm0 in Hlen0. change (zlen [10%N]) with 1 in Hlen0.
  destruct (each_sep norm re_t1o re_t1c re_t2 re_t3 re_t4 re_t5 re_t6 re_t7 allowed_tags
              ms (S (length (qop (a_q s) ++ [(length h0, PParagraph)]))) (a_q s) junk 0%nat stats h0 pp acc bl
              src pre0 body0 term0 _ a e pre rest k (zlen pre) (zlen pre + zlen L) Hacc Hcur Hat Hq0 Hlen) as (stats' & Heach).
  { rewrite app_length, qop_length. cbn [length]. lia. }
  exists stats'. eexists. split.
  - erewrite lines_loop_step; [|cbn [s_c]; apply opened_octx|destruct (qop (a_q s)); discriminate].
    cbn [s_r]. rewrite (rdA_line src k pre (chain ms) [10%N] rest) by (first [left; reflexivity|apply no_nl_chain]).
    fold L.
    replace (zlen (qop (a_q s) ++ [(length h0, PParagraph)]) - 1) with (zlen (a_q s))
      by (rewrite zlen_app, zlen_qop; change (zlen [(length h0, PParagraph)]) with 1; lia).
    rewrite Heach. cbn [bind].
    rewrite (advance_after src k _ _ _ _ _ pre L rest) by (try exact Hsrc'; reflexivity). reflexivity.
  - intros tl'.
    assert (Hn : match tau with None => O | Some t => S (length t) end = length ms) by (unfold ms; rewrite sep_ms_length; reflexivity).
    split; cbn [s_h s_c s_r].
    + rewrite Hsrc'. unfold L. rewrite <- !app_assoc. reflexivity.
    + cbn [astep a_off]. rewrite Hoff, sep_ms_bytes. fold ms. unfold L. rewrite !zlen_app. change (zlen [10%N]) with 1. lia.
    + cbn [astep a_h]. rewrite <- Hheap, !map_app. cbn [map]. rewrite !unblank_pnode, upd_last_app.
      unfold trim_node. cbn [pnode blines set_lines]. rewrite trim_segs_app.
      replace (e - 1) with (a + zlen body0) by lia. reflexivity.
    + eexists. unfold aop. cbn [astep a_q a_p]. rewrite app_nil_r, Hn. reflexivity.
    + reflexivity.
    + cbn [astep a_q]. rewrite Hn. apply Forall_firstn_. eapply Forall_impl; [|exact Hq0]. intros x Hx. apply is_bq_app. exact Hx.
    + cbn [astep a_p]. discriminate.
    + rewrite app_length. cbn [length]. lia.
Qed.

(* the first line of a block inside open quotes *)
Lemma step_open f src tl s m k pre ms body term rest stats :
  Rel src tl s m k pre ((chain ms ++ body) ++ term ++ rest) -> a_p s = false ->
  (1 <= length (a_q s))%nat -> (length (a_q s) <= length ms)%nat ->
  body_okb body = true -> term_ok term rest ->
  exists stats' m',
    LINES (S f) 0%nat stats m = LINES f 0%nat stats' m' /\
    Rel src (zlen term) (astep (zlen term) s (LTxt ms body)) m' (k + 1) (pre ++ (chain ms ++ body) ++ term) rest.
Proof.
  intros [Hsrc Hoff Hheap [junk Hctx] Hrd Hbq Hpar Hroot] Hp Hq1 Hqm Hb Ht.
  destruct m as [h c r]. cbn [s_h s_c s_r] in *. subst c r.
  assert (Hlh : length (a_h s) = length h) by (rewrite <- Hheap, map_length; reflexivity).
  destruct (exists_last (l := a_q s)) as (q' & x & Eq); [intros E; rewrite E in Hq1; cbn [length] in Hq1; lia|].
  assert (Hlq : length (a_q s) = S (length q')) by (rewrite Eq, app_length; cbn [length]; lia).
  destruct (split_at ms (length q')) as (ms1 & s0 & ms2 & Ems & Hms1); [lia|].
  assert (Hm : (length ms - length (a_q s))%nat = length ms2).
  { rewrite Ems, app_length, Hlq. cbn [length]. lia. }
  assert (Hlast : lastq (a_q s) = x) by (unfold lastq; rewrite Eq; apply last_last).
  assert (Hx : is_bq h x) by (apply (proj1 (Forall_forall _ _) Hbq); rewrite Eq; apply in_or_app; right; left; reflexivity).
  destruct Hx as (pn & HP & Hxk & Hxp).
  set (L := chain ms ++ body ++ term).
  assert (HL : (chain ms ++ body) ++ term = L) by (unfold L; rewrite <- app_assoc; reflexivity).
  assert (Hsrc' : src = pre ++ L ++ rest) by (rewrite Hsrc, <- HL, <- !app_assoc; reflexivity).
  assert (Hat : at_line src pre L rest (zlen pre) (zlen pre + zlen L)) by (rewrite Hsrc'; apply at_line_here).
  assert (Hcap : aop s = qop (q' ++ [x])) by (unfold aop; rewrite Hp, Eq, app_nil_r; reflexivity).
  rewrite Hcap in *.
  assert (Hat1 : at_line src pre (chain (ms1 ++ s0 :: ms2) ++ body ++ term) rest (zlen pre) (zlen pre + zlen L)) by (rewrite <- Ems; exact Hat).
  assert (Hbq' : Forall (is_bq h) (q' ++ [x])) by (rewrite <- Eq; exact Hbq).
  destruct (each_txt_open norm re_t1o re_t1c re_t2 re_t3 re_t4 re_t5 re_t6 re_t7 allowed_tags
              ms1 s0 ms2 (S (length (qop (q' ++ [x])))) q' x junk 0%nat stats h pn src pre body term rest k
              (zlen pre) (zlen pre + zlen L) Hat1 Hb Ht Hbq' Hms1 HP) as (stats' & blank & Heach).
  { rewrite qop_length, app_length. cbn [length]. lia. }
  rewrite <- Ems in Heach.
  exists stats'. eexists. split.
  - erewrite lines_loop_step; [|cbn [s_c]; apply opened_octx|rewrite qop_app; destruct (qop q'); discriminate].
    cbn [s_r]. rewrite (rdA_line src k pre (chain ms ++ body) term rest) by (first [exact Ht|apply no_nl_app; [apply no_nl_chain|apply no_nl_body; exact Hb]]).
    rewrite HL.
    replace (zlen (qop (q' ++ [x])) - 1) with (zlen q')
      by (rewrite zlen_qop, zlen_app; change (zlen [x]) with 1; lia).
    rewrite Heach. cbn [bind].
    rewrite (advance_after src k _ _ _ _ _ pre L rest) by (try exact Hsrc'; reflexivity). reflexivity.
  - set (sg := mkseg (zlen pre + zlen (chain ms)) (zlen pre + zlen L)).
    assert (Hla : length (add_children h x [length h]) = length h) by apply add_children_length.
    assert (Hheap' : map unblank (add_children h x [length h] ++ first_nodes blank x (length h) (length ms2) [sg]) =
                     a_h (astep (zlen term) s (LTxt ms body))).
    { cbn [astep]. rewrite Hp. cbn [a_h]. rewrite map_app, unblank_add_children, unblank_first_nodes, Hheap, Hlast, Hlh.
      f_equal. f_equal; [symmetry; exact Hm|].
      unfold sg. rewrite Hoff. unfold L. rewrite !zlen_app.
      replace (zlen pre + zlen (chain ms) + zlen body + zlen term) with (zlen pre + (zlen (chain ms) + (zlen body + zlen term))) by lia.
      reflexivity. }
    destruct (first_nodes_split blank (length ms2) x (length h) [sg]) as (front & pp' & Efn & Hlf).
    rewrite HL. split; cbn [s_h s_c s_r].
    + rewrite Hsrc'. rewrite <- !app_assoc. reflexivity.
    + cbn [astep]. rewrite Hp. cbn [a_off]. rewrite Hoff, zlen_app. unfold L. rewrite !zlen_app. lia.
    + exact Hheap'.
    + eexists. f_equal. unfold aop. rewrite <- Hheap'. cbn [astep]. rewrite Hp. cbn [a_q a_p].
      rewrite map_length, app_length, first_nodes_length, Hla, Hlh, Hm, Eq, !qop_app.
      replace (length h + S (length ms2) - 1)%nat with (length h + length ms2)%nat by lia.
      rewrite <- !app_assoc. reflexivity.
    + reflexivity.
    + cbn [astep]. rewrite Hp. cbn [a_q]. rewrite Hlh, Hm. apply Forall_app. split.
      * eapply Forall_impl; [|exact Hbq]. intros y Hy. apply is_bq_app. apply is_bq_add_children. exact Hy.
      * apply Forall_forall. intros y Hy. apply in_seq in Hy.
        replace y with (length h + (y - length h))%nat by lia. apply first_nodes_bq; [exact Hla|lia].
    + intros _. exists (add_children h x [length h] ++ front), pp', [], (zlen pre + zlen (chain ms)), (zlen pre + zlen L), blank, (pre ++ chain ms), body, term.
      split; [rewrite Efn, <- app_assoc; reflexivity|]. split; [constructor|].
      split.
      { split; [|exact Hb|exact Ht]. apply at_line_shift. exact Hat. }
      split; [unfold L; rewrite <- !app_assoc; reflexivity|reflexivity].
    + rewrite app_length, first_nodes_length. lia.
Qed.
End Driver.
