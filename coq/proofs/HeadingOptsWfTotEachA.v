(* Helper file for HeadingOptsWfTot.v (fork of the first half of ParseBlocksTotalEach.v, through GfmWfTotBlkEachA.v,
   for the heading-options model): list and chain lemmas, the interface statement open_blocksH_spec about openBlocks of the H driver,
   the invariant LineMid inside the loop over the opened blocks, and how the line invariant LineInv (whose
   LastOK has two more conjuncts, HeadingOptsWfTotShape.v) is re-established after openBlocks / closeBlocks.
   These lemmas are about states s : st (the component hx_s of the wrapper state). *)
Require Import GM.model.Base GM.model.Util GM.model.Reader GM.model.ReaderSpec GM.model.Blocks GM.model.ListItem
               GM.model.LeafBlocks GM.model.CodeBlock GM.model.LinkDest GM.model.Regex GM.model.BlockParse
               GM.model.HtmlWriter GM.model.Html GM.model.Attr GM.model.Ids GM.model.HeadingOpts.
Require Import GM.proofs.ReaderProofs GM.proofs.BlocksProofs
               GM.proofs.ParseBlocksTotalReader GM.proofs.ParseBlocksTotalDefs GM.proofs.ParseBlocksTotalSpec
               GM.proofs.ParseBlocksTotalSt GM.proofs.HeadingOptsWfTotShape
               GM.proofs.ParseBlocksTotalLeaf2 GM.proofs.ParseBlocksTotalCont GM.proofs.ParseBlocksTotalPair.
From Coq Require Import ZArith Lia List Bool.
Import ListNotations.
Open Scope Z_scope.

(* ---------- the interface to closeBlocks: copies of the definitions of HeadingOptsWfTotClose.v (convertible with
   them; copied so that this file does not depend on the files about the H closes) ---------- *)
(* the accumulated frame of closing steps *)
Definition CFrame (D : nat -> bnode -> Prop) (C : nat -> Prop) (h h' : heap) : Prop :=
  (length h <= length h')%nat /\
  forall j n, nth_error h j = Some n -> exists n', nth_error h' j = Some n' /\ bk n' = bk n /\
    (~ C j -> blines n' = blines n) /\ (bk n = BList -> bch n' = bch n) /\
    (bpar n' = bpar n \/ (bk n = BParagraph /\ D j n)).

Lemma CFrame_refl D C h : CFrame D C h h.
Proof. split; [lia|]. intros j n H. exists n. csplit; auto. Qed.

(* what the top block of a closing range needs from the context (NEW: the last two conjuncts) *)
Definition ReadyLeaf (src : bytes) (s : st) (node : nat) (p : bparser) : Prop :=
  (p = PFenced -> c_fence (s_c s) <> None) /\
  (p = PSetext -> c_tmp_para (s_c s) <> None /\
                  forall n, nth_error (s_h s) node = Some n -> bpar n <> None -> blines n <> []) /\
  (p = PATX -> forall n, nth_error (s_h s) node = Some n -> Forall (olineE src) (blines n)) /\
  (p = PSetext -> forall t tn, c_tmp_para (s_c s) = Some t -> nth_error (s_h s) t = Some tn ->
                  Forall (fun sg => s_pad sg = 0) (blines tn)).

(* which old paragraphs a closing range may detach: the closed nodes themselves, the temporary
   paragraph of a closed setext heading, the grandchildren of a closed list *)
Definition Dacc (h0 : heap) (c0 : pctx) (closed : list (nat * bparser)) (j : nat) (n : bnode) : Prop :=
  In j (map fst closed) \/
  (c_tmp_para c0 = Some j /\ exists H, In (H, PSetext) closed) \/
  (exists L c ln, In (L, PList) closed /\ bpar n = Some c /\ nth_error h0 L = Some ln /\ In c (bch ln)).

Lemma container_ready src s node p : is_container p = true -> ReadyLeaf src s node p.
Proof. intros H. unfold ReadyLeaf. csplit; intros ->; discriminate. Qed.

(* the entries at indices i-cnt+1 .. i of blocks *)
Definition range_of (blocks : list (nat * bparser)) (cnt : nat) (i : Z) : list (nat * bparser) :=
  firstn cnt (skipn (Z.to_nat (i + 1 - Z.of_nat cnt)) blocks).

(* ---------- the interface to openBlocks (as ParseBlocksTotalOpen.v) ---------- *)
(* the paragraph at the end of the opened blocks, if any *)
Definition last_para (c : pctx) : option nat :=
  match last_opened c with Some (x, PParagraph) => Some x | _ => None end.

(* what openBlocks may do to the old nodes: kinds stay; lines and parents stay except at the last
   opened paragraph; the children of List nodes other than `parent0` stay *)
Definition OFrame (h h' : heap) (parent0 : nat) (x0 : option nat) : Prop :=
  (length h <= length h')%nat /\
  forall j n, nth_error h j = Some n -> exists n', nth_error h' j = Some n' /\ bk n' = bk n /\
    (Some j <> x0 -> blines n' = blines n /\ bpar n' = bpar n) /\
    (bk n = BList -> j <> parent0 -> bch n' = bch n).

Definition pad0 (sg : seg) : Prop := s_pad sg = 0.

(* NEW2 (as in the GFM fork, GfmWfTotBlkSpec.v / GfmWfTotBlkClose.v): how a closing range may change the child lists
   of the old nodes: the parent of a closed paragraph, the parent of the temporary paragraph of a closed setext
   heading (it loses that paragraph), the items of a closed list *)
Definition eo_bch_frame (T : nat -> bnode -> bnode -> Prop) (h h' : heap) : Prop :=
  forall j n n', nth_error h j = Some n -> nth_error h' j = Some n' -> bch n' = bch n \/ T j n n'.
Definition eo_Bacc (h0 : heap) (c0 : pctx) (closed : list (nat * bparser)) (j : nat) (n n' : bnode) : Prop :=
  (exists Q Qn, In (Q, PParagraph) closed /\ nth_error h0 Q = Some Qn /\ bpar Qn = Some j) \/
  (exists tmp H, c_tmp_para c0 = Some tmp /\ In (H, PSetext) closed /\ bch n' = remove_id tmp (bch n)) \/
  (exists L ln, In (L, PList) closed /\ nth_error h0 L = Some ln /\ In j (bch ln)).

(* NEW2 (as in the GFM fork): the open paragraph is the last child of its parent *)
Definition LastParaLC (s : st) : Prop :=
  forall l n, last_opened (s_c s) = Some (l, PParagraph) -> nth_error (s_h s) l = Some n ->
    exists q qn, bpar n = Some q /\ nth_error (s_h s) q = Some qn /\ last_id (bch qn) = Some l.

Lemma last_id_remove_id c l x : last_id l = Some x -> x <> c -> last_id (remove_id c l) = Some x.
Proof.
  induction l as [|y l IH]; intros H Hx; [discriminate|]. cbn [remove_id].
  destruct (Nat.eqb_spec c y) as [->|Hne].
  - destruct l as [|z l']; [unfold last_id in H; cbn in H; congruence|].
    unfold last_id in *. cbn [rev] in *. destruct (rev l' ++ [z]) eqn:E; [destruct (rev l'); discriminate|].
    cbn [app] in H. exact H.
  - destruct l as [|z l'].
    + exact H.
    + assert (H' : last_id (z :: l') = Some x).
      { unfold last_id in *. cbn [rev] in *. destruct (rev l' ++ [z]) eqn:E; [destruct (rev l'); discriminate|]. cbn [app] in H. exact H. }
      specialize (IH H' Hx). unfold last_id in *. cbn [rev]. destruct (rev (remove_id c (z :: l'))) eqn:E; [discriminate|].
      cbn [app]. exact IH.
Qed.

(* The statement about open_blocksH that the loops use: the conclusion of the core lemma open_blocks_ok_fix
   over hx_s, and (NEW) for the last new block the facts behind the new conjuncts of LastOK, (NEW2, as in
   GfmWfTotBlkOpenI.v) the open paragraph is the last child of its parent, so that the RequireParagraph path of
   try_parsersH always closes (= trims, pad 0) and pops the paragraph before the Setext heading is pushed. *)
Section Spec.
Variable hc : hcfg.
Variable space_table punct_table : list N.
Variable norm : bytes -> bytes.
Variable re_t1o re_t1c re_t2 re_t3 re_t4 re_t5 re_t6 re_t7 : re.
Variable allowed_tags : list bytes.
Variable utf8len_table : list N.
Variable spaces : bytes.
Variable src : bytes.
Notation SI := (SI space_table src).
Notation OBH := (open_blocksH hc space_table punct_table norm re_t1o re_t1c re_t2 re_t3 re_t4 re_t5 re_t6 re_t7 allowed_tags
                              utf8len_table spaces).

Definition open_blocksH_spec : Prop :=
  forall fuel parent pn blank x,
  SI (hx_s x) -> nth_error (s_h (hx_s x)) parent = Some pn ->
  (bk pn = BList -> LP space_table (hx_s x) parent) ->
  (forall e n, In e (ops (hx_s x)) -> nth_error (s_h (hx_s x)) (fst e) = Some n -> bpar n <> None) ->
  (forall k e, nth_error (ops (hx_s x)) k = Some e -> (S k < length (ops (hx_s x)))%nat -> is_container (snd e) = true) ->
  Below (s_h (hx_s x)) (s_r (hx_s x)) ->
  LastParaLC (hx_s x) ->                                                                          (* NEW2 *)
  (Z.to_nat (2 * (s_stop (r_pos (s_r (hx_s x))) - s_start (r_pos (s_r (hx_s x)))) + 8) <= fuel)%nat ->
  exists res x', OBH fuel parent blank x = Ok (res, x') /\ SI (hx_s x') /\ r_le (s_r (hx_s x)) (s_r (hx_s x')) /\
    (c_fence (s_c (hx_s x)) <> None -> c_fence (s_c (hx_s x')) <> None) /\
    (c_tmp_para (s_c (hx_s x)) <> None -> c_tmp_para (s_c (hx_s x')) <> None) /\
    (forall t, c_tmp_para (s_c (hx_s x')) = Some t -> (t < length (s_h (hx_s x)))%nat) /\
    (((res = paragraphContinuation \/ res = noBlocksOpened) /\ ops (hx_s x') = ops (hx_s x) /\
      c_fence (s_c (hx_s x')) = c_fence (s_c (hx_s x)) /\ c_tmp_para (s_c (hx_s x')) = c_tmp_para (s_c (hx_s x)) /\
      hsame_pc (s_h (hx_s x)) (s_h (hx_s x')) /\
      (forall j n n', Some j <> last_para (s_c (hx_s x)) -> nth_error (s_h (hx_s x)) j = Some n ->
                      nth_error (s_h (hx_s x')) j = Some n' -> blines n' = blines n) /\
      bk pn <> BList /\
      LastParaLC (hx_s x'))                                                                       (* NEW2 *)
     \/
     (res = newBlocksOpened /\ exists base' new, ops (hx_s x') = base' ++ new /\ new <> [] /\
      (base' = ops (hx_s x) \/ exists y, ops (hx_s x) = base' ++ [(y, PParagraph)]) /\
      OFrame (s_h (hx_s x)) (s_h (hx_s x')) parent (last_para (s_c (hx_s x))) /\
      Chain (s_h (hx_s x')) parent new /\ (forall e, In e new -> (length (s_h (hx_s x)) <= fst e)%nat) /\
      (bk pn = BList -> exists it pn', nth_error new 0%nat = Some (it, PListItem) /\
                                       nth_error (s_h (hx_s x')) parent = Some pn' /\ last_id (bch pn') = Some it) /\
      (forall n p nn, nth_error new (pred (length new)) = Some (n, p) -> nth_error (s_h (hx_s x')) n = Some nn ->
         (p = PFenced -> exists ch ind fl, c_fence (s_c (hx_s x')) = Some (ch, ind, fl, n)) /\
         (p <> PFenced -> c_fence (s_c (hx_s x')) = c_fence (s_c (hx_s x))) /\
         (p = PSetext -> c_tmp_para (s_c (hx_s x')) <> None /\ blines nn <> [] /\
                         exists y, last_opened (s_c (hx_s x)) = Some (y, PParagraph)) /\
         (p <> PSetext -> c_tmp_para (s_c (hx_s x')) = c_tmp_para (s_c (hx_s x)) \/
                          exists y, last_opened (s_c (hx_s x)) = Some (y, PParagraph)) /\
         (* NEW *)
         (p = PATX -> Forall (olineE src) (blines nn)) /\
         (p = PSetext -> exists t tn, last_opened (s_c (hx_s x)) = Some (t, PParagraph) /\
                                      c_tmp_para (s_c (hx_s x')) = Some t /\ nth_error (s_h (hx_s x')) t = Some tn /\
                                      Forall pad0 (blines tn) /\ ops (hx_s x) = base' ++ [(t, PParagraph)]) /\
         (* NEW2 *)
         (p = PParagraph -> exists q qn, bpar nn = Some q /\ nth_error (s_h (hx_s x')) q = Some qn /\
                                         last_id (bch qn) = Some n)) /\
      (* NEW2: the paragraph parser does not interrupt a paragraph *)
      (forall n, new = [(n, PParagraph)] -> base' = ops (hx_s x) -> last_para (s_c (hx_s x)) = None))).

(* The statement about close_blocksH that the loops use: HeadingOptsWfTotClose.close_blocksH_ok, and (NEW2) the
   frame on the child lists. *)
Definition close_blocksH_spec : Prop :=
  forall x from to, SI (hx_s x) -> 0 <= to -> to <= from + 1 -> from < Z.of_nat (c_len (s_c (hx_s x))) ->
  let closed := rev (range_of (ops (hx_s x)) (Z.to_nat (from - to + 1)) from) in
  match closed with [] => True
  | e :: t => ReadyLeaf src (hx_s x) (fst e) (snd e) /\ Forall (fun y => is_container (snd y) = true) t end ->
  exists x', close_blocksH hc space_table punct_table norm utf8len_table spaces x from to = Ok x' /\ SI (hx_s x') /\
    s_r (hx_s x') = s_r (hx_s x) /\
    ops (hx_s x') = firstn (Z.to_nat to) (ops (hx_s x)) ++ skipn (Z.to_nat (from + 1)) (ops (hx_s x)) /\
    (forall ch ind fl nd, c_fence (s_c (hx_s x)) = Some (ch, ind, fl, nd) -> ~ In (nd, PFenced) closed ->
                          c_fence (s_c (hx_s x')) = c_fence (s_c (hx_s x))) /\
    ((forall H, ~ In (H, PSetext) closed) -> c_tmp_para (s_c (hx_s x')) = c_tmp_para (s_c (hx_s x))) /\
    CFrame (Dacc (s_h (hx_s x)) (s_c (hx_s x)) closed) (fun j => In j (map fst closed)) (s_h (hx_s x)) (s_h (hx_s x')) /\
    eo_bch_frame (eo_Bacc (s_h (hx_s x)) (s_c (hx_s x)) closed) (s_h (hx_s x)) (s_h (hx_s x')).
End Spec.

(* ---------- lists ---------- *)
Lemma eo_nth_error_skipn_add {A} (l : list A) a k : nth_error (skipn a l) k = nth_error l (a + k).
Proof.
  revert l. induction a as [|a IH]; intros l; [reflexivity|]. destruct l as [|x l]; [destruct k; reflexivity|].
  cbn [skipn plus nth_error]. apply IH.
Qed.
Lemma eo_in_skipn {A} (l : list A) n x : In x (skipn n l) -> In x l.
Proof. intros H. rewrite <- (firstn_skipn n l). apply in_or_app. right. exact H. Qed.

Lemma eo_nth_lo {A} (l new : list A) j k : (k < j)%nat -> (j <= length l)%nat ->
  nth_error (firstn j l ++ new) k = nth_error l k.
Proof.
  intros Hk Hj. rewrite nth_error_app1 by (rewrite firstn_length; lia).
  revert l k Hk Hj. induction j as [|j IH]; intros l k Hk Hj; [lia|].
  destruct l as [|x l]; [cbn in Hj; lia|]. destruct k as [|k]; [reflexivity|]. cbn [firstn nth_error].
  apply IH; cbn [length] in Hj; lia.
Qed.
Lemma eo_nth_hi {A} (l new : list A) j k : (j <= k)%nat -> (j <= length l)%nat ->
  nth_error (firstn j l ++ new) k = nth_error new (k - j).
Proof.
  intros Hk Hj. rewrite nth_error_app2 by (rewrite firstn_length; lia). rewrite firstn_length. f_equal. lia.
Qed.
Lemma eo_len_glue {A} (l new : list A) j : (j <= length l)%nat -> length (firstn j l ++ new) = (j + length new)%nat.
Proof. intros Hj. rewrite app_length, firstn_length. lia. Qed.

Lemma eo_par_at_lo p0 (cap new : list (nat * bparser)) j k : (j <= length cap)%nat -> (k <= j)%nat ->
  par_at p0 (firstn j cap ++ new) k = par_at p0 cap k.
Proof.
  intros Hj Hk. destruct k as [|k]; [reflexivity|]. cbn [par_at]. f_equal.
  rewrite app_nth1 by (rewrite firstn_length; lia). apply nth_firstn_lt. lia.
Qed.
Lemma eo_par_at_hi p0 (cap new : list (nat * bparser)) j k : (j <= length cap)%nat -> (j <= k)%nat ->
  par_at p0 (firstn j cap ++ new) k = par_at (par_at p0 cap j) new (k - j).
Proof.
  intros Hj Hk. destruct (k - j)%nat as [|m] eqn:E.
  - assert (k = j) by lia. subst k. cbn [par_at]. apply eo_par_at_lo; lia.
  - assert (k = S (j + m)) by lia. subst k. cbn [par_at]. f_equal.
    rewrite app_nth2 by (rewrite firstn_length; lia). rewrite firstn_length. f_equal. lia.
Qed.

(* suffix of the first part of an appended list *)
Lemma eo_range_suffix {A} (base new : list A) j : (j <= length base)%nat ->
  firstn (length base - j) (skipn j (base ++ new)) = skipn j base.
Proof.
  intros Hj. rewrite skipn_app. replace (j - length base)%nat with O by lia. cbn [skipn].
  rewrite <- (skipn_length j base). rewrite firstn_app, Nat.sub_diag, firstn_all. cbn [firstn]. apply app_nil_r.
Qed.
Lemma eo_range_of (base new : list (nat * bparser)) j : (j <= length base)%nat ->
  range_of (base ++ new) (Z.to_nat (zlen base - 1 - Z.of_nat j + 1)) (zlen base - 1) = skipn j base.
Proof.
  intros Hj. unfold range_of, zlen.
  replace (Z.to_nat (Z.of_nat (length base) - 1 - Z.of_nat j + 1)) with (length base - j)%nat by lia.
  replace (Z.to_nat (Z.of_nat (length base) - 1 + 1 - Z.of_nat (length base - j))) with j by lia.
  apply eo_range_suffix, Hj.
Qed.
Lemma eo_after_close {A} (base new : list A) j : (j <= length base)%nat ->
  firstn j (base ++ new) ++ skipn (length base) (base ++ new) = firstn j base ++ new.
Proof.
  intros Hj. rewrite firstn_app. replace (j - length base)%nat with O by lia. cbn [firstn]. rewrite app_nil_r.
  rewrite skipn_app, Nat.sub_diag, skipn_all. reflexivity.
Qed.

(* ---------- chains ---------- *)
Lemma eo_chain_frame h h' parent l : Chain h parent l ->
  (forall n p nn, In (n, p) l -> nth_error h n = Some nn -> exists nn', nth_error h' n = Some nn' /\ bpar nn' = bpar nn) ->
  (forall L Ln, In (L, PList) l -> nth_error h L = Some Ln -> exists Ln', nth_error h' L = Some Ln' /\ bch Ln' = bch Ln) ->
  Chain h' parent l.
Proof.
  intros HC Hp Hc. constructor.
  - intros k n p Hk. destruct (ch_par _ _ _ HC k n p Hk) as [nn [Hn Hpar]].
    destruct (Hp n p nn (nth_error_In _ _ Hk) Hn) as [nn' [Hn' Hpar']]. exists nn'. split; [exact Hn'|congruence].
  - exact (ch_cont _ _ _ HC).
  - intros k L Hk. destruct (ch_list _ _ _ HC k L Hk) as [it [Ln (A & B & C)]].
    destruct (Hc L Ln (nth_error_In _ _ Hk) B) as [Ln' [B' C']]. exists it, Ln'. csplit; auto. congruence.
Qed.

Lemma eo_chain_glue h0 h j cap new :
  Chain h0 0%nat cap -> (j <= length cap)%nat ->
  (forall k e, (k < j)%nat -> nth_error cap k = Some e -> is_container (snd e) = true) ->
  (forall k n p nn, (k < j)%nat -> nth_error cap k = Some (n, p) -> nth_error h0 n = Some nn ->
     exists nn', nth_error h n = Some nn' /\ bpar nn' = bpar nn) ->
  (forall k L Ln, (S k < j)%nat -> nth_error cap k = Some (L, PList) -> nth_error h0 L = Some Ln ->
     exists Ln', nth_error h L = Some Ln' /\ bch Ln' = bch Ln) ->
  (forall k L, j = S k -> nth_error cap k = Some (L, PList) ->
     exists it Ln, nth_error new 0%nat = Some (it, PListItem) /\ nth_error h L = Some Ln /\ last_id (bch Ln) = Some it) ->
  Chain h (par_at 0%nat cap j) new ->
  Chain h 0%nat (firstn j cap ++ new).
Proof.
  intros HC Hj Hcont Hpar Hch Hlist HN. constructor.
  - intros k n p Hk. destruct (Nat.lt_ge_cases k j) as [Hlt|Hge].
    + rewrite eo_nth_lo in Hk by lia. destruct (ch_par _ _ _ HC k n p Hk) as [nn [Hn Hp]].
      destruct (Hpar k n p nn Hlt Hk Hn) as [nn' [Hn' Hp']]. exists nn'. split; [exact Hn'|].
      rewrite Hp', Hp. f_equal. symmetry. apply eo_par_at_lo; lia.
    + rewrite eo_nth_hi in Hk by lia. destruct (ch_par _ _ _ HN _ n p Hk) as [nn [Hn Hp]]. exists nn.
      split; [exact Hn|]. rewrite Hp. f_equal. symmetry. apply eo_par_at_hi; lia.
  - intros k e Hk Hlen. rewrite eo_len_glue in Hlen by lia. destruct (Nat.lt_ge_cases k j) as [Hlt|Hge].
    + rewrite eo_nth_lo in Hk by lia. eapply Hcont; eauto.
    + rewrite eo_nth_hi in Hk by lia. eapply (ch_cont _ _ _ HN); [exact Hk|lia].
  - intros k L Hk. destruct (Nat.lt_ge_cases k j) as [Hlt|Hge].
    + rewrite eo_nth_lo in Hk by lia. destruct (Nat.eq_dec j (S k)) as [Ej|Ej].
      * destruct (Hlist k L Ej Hk) as [it [Ln (A & B & C)]]. exists it, Ln. split; [|auto].
        rewrite eo_nth_hi by lia. replace (S k - j)%nat with O by lia. exact A.
      * destruct (ch_list _ _ _ HC k L Hk) as [it [Ln (A & B & C)]].
        destruct (Hch k L Ln ltac:(lia) Hk B) as [Ln' [B' C']]. exists it, Ln'. rewrite eo_nth_lo by lia.
        split; [exact A|]. split; [exact B'|congruence].
    + rewrite eo_nth_hi in Hk by lia. destruct (ch_list _ _ _ HN _ L Hk) as [it [Ln (A & B & C)]]. exists it, Ln.
      rewrite eo_nth_hi by lia. replace (S k - j)%nat with (S (k - j)) by lia. auto.
Qed.

(* the last opened block, read off the slice *)
Lemma eo_last_opened c : (c_len c <= length (c_arr c))%nat ->
  last_opened c = nth_error (opened c) (pred (length (opened c))).
Proof.
  intros H. rewrite last_opened_spec by exact H. rewrite (opened_length c H).
  destruct (c_len c) as [|k] eqn:E; [|reflexivity]. unfold opened. rewrite E. reflexivity.
Qed.

Section S.
Variable space_table punct_table : list N.
Variable norm : bytes -> bytes.
Variable re_t1o re_t1c re_t2 re_t3 re_t4 re_t5 re_t6 re_t7 : re.
Variable allowed_tags : list bytes.
Variable src : bytes.
Hypothesis tbl : TblOK space_table.
Notation SI := (SI space_table src).
Notation LineInv := (LineInv space_table src).
Notation LastOK := (LastOK src).
Notation ReadyLeaf := (ReadyLeaf src).
Notation olineE := (olineE src).
Notation HInv := (HInv space_table src).

(* the invariant inside the loop: the opened blocks are still the captured ones, and no paragraph
   line reaches the reader's position *)
Definition LineMid (cap : list (nat * bparser)) (s : st) : Prop :=
  LineInv s /\ ops s = cap /\ Below (s_h s) (s_r s).

(* ---------- basic access to the opened blocks ---------- *)
Lemma eo_ops_len s : SI s -> length (ops s) = c_len (s_c s).
Proof using All. intros HS. apply opened_length, (ci_len _ _ (si_c _ _ _ HS)). Qed.

Lemma eo_ops_node s k n p : SI s -> nth_error (ops s) k = Some (n, p) ->
  exists nn, nth_error (s_h s) n = Some nn /\ bk nn = kind_of_parser p.
Proof using All.
  intros HS Hk. apply nth_error_In in Hk. apply opened_in in Hk.
  exact (ci_arr _ _ (si_c _ _ _ HS) _ Hk).
Qed.

Lemma eo_last s : SI s -> last_opened (s_c s) = nth_error (ops s) (pred (length (ops s))).
Proof using All. intros HS. apply eo_last_opened, (ci_len _ _ (si_c _ _ _ HS)). Qed.

Lemma eo_par_at_S (cap : list (nat * bparser)) k n p : nth_error cap k = Some (n, p) -> par_at 0%nat cap (S k) = n.
Proof using All. intros H. cbn [par_at]. rewrite (nth_error_nth _ _ _ H). reflexivity. Qed.

(* a block below a List node is a list item *)
Lemma eo_parent_list s k n p pn : LineInv s -> nth_error (ops s) k = Some (n, p) ->
  nth_error (s_h s) (par_at 0%nat (ops s) k) = Some pn -> bk pn = BList -> p = PListItem.
Proof using All.
  intros HL Hk Hpn Kp. pose proof (li_si _ _ _ HL) as HS.
  destruct (ch_par _ _ _ (li_chain _ _ _ HL) k n p Hk) as [nn [Hn Hp]].
  destruct (eo_ops_node s k n p HS Hk) as [nn' [Hn' Kn]]. rewrite Hn in Hn'. injection Hn' as <-.
  pose proof (hi_listp _ _ _ (si_h _ _ _ HS) n nn _ pn Hn Hp Hpn Kp) as K. rewrite Kn in K.
  destruct p; cbn in K; congruence.
Qed.

(* a list item follows its list *)
Lemma eo_item_prev s k it : LineInv s -> nth_error (ops s) (S k) = Some (it, PListItem) ->
  exists L, nth_error (ops s) k = Some (L, PList).
Proof using All.
  intros HL Hk. pose proof (li_si _ _ _ HL) as HS.
  destruct (ch_par _ _ _ (li_chain _ _ _ HL) (S k) it PListItem Hk) as [nn [Hn Hp]]. cbn [par_at] in Hp.
  destruct (eo_ops_node s (S k) it PListItem HS Hk) as [nn' [Hn' Kn]]. rewrite Hn in Hn'. injection Hn' as <-.
  cbn [kind_of_parser] in Kn.
  destruct (nth_error (ops s) k) as [[L q]|] eqn:Ek.
  2:{ apply nth_error_None in Ek. apply nth_error_lt in Hk. lia. }
  rewrite (nth_error_nth _ _ _ Ek) in Hp. cbn [fst] in Hp.
  destruct (eo_ops_node s k L q HS Ek) as [Ln [HLn KL]].
  pose proof (hi_item _ _ _ (si_h _ _ _ HS) it nn L Ln Hn Kn Hp HLn) as K. rewrite KL in K.
  destruct q; cbn in K; try discriminate. exists L. reflexivity.
Qed.

Lemma eo_root_not_item s it : LineInv s -> nth_error (ops s) 0%nat <> Some (it, PListItem).
Proof using All.
  intros HL E. pose proof (li_si _ _ _ HL) as HS. destruct (li_root _ _ _ HL) as [n0 [H0 K0]].
  pose proof (eo_parent_list s 0%nat it PListItem n0 HL E H0) as K. cbn [par_at] in K.
  destruct (ch_par _ _ _ (li_chain _ _ _ HL) 0%nat it PListItem E) as [nn [Hn Hp]]. cbn [par_at] in Hp.
  destruct (eo_ops_node s 0%nat it PListItem HS E) as [nn' [Hn' Kn]]. rewrite Hn in Hn'. injection Hn' as <-.
  pose proof (hi_item _ _ _ (si_h _ _ _ HS) it nn 0%nat n0 Hn Kn Hp H0). congruence.
Qed.

(* the parent of position j lies before every block at position >= j *)
Lemma eo_par_lt s j m e : LineInv s -> (j <= m)%nat -> nth_error (ops s) m = Some e ->
  (par_at 0%nat (ops s) j < fst e)%nat.
Proof using All.
  intros HL Hjm Hm. pose proof (si_h _ _ _ (li_si _ _ _ HL)) as HH. destruct j as [|j]; cbn [par_at].
  - exact (chain_parent_lt space_table src _ _ _ HH (li_chain _ _ _ HL) m e Hm).
  - destruct (nth_error_ex_lt (ops s) j) as [a Ha]; [apply nth_error_lt in Hm; lia|].
    rewrite (nth_error_nth _ _ _ Ha).
    exact (chain_sorted space_table src _ _ _ HH (li_chain _ _ _ HL) j m a e ltac:(lia) Ha Hm).
Qed.

(* the parent of position j is a node of the heap *)
Lemma eo_par_node s j : LineInv s -> (j <= length (ops s))%nat ->
  exists pn, nth_error (s_h s) (par_at 0%nat (ops s) j) = Some pn /\
    (forall k n p, j = S k -> nth_error (ops s) k = Some (n, p) -> bk pn = kind_of_parser p).
Proof using All.
  intros HL Hj. destruct j as [|k].
  - destruct (li_root _ _ _ HL) as [n0 [H0 K0]]. exists n0. split; [exact H0|]. intros k n p C. discriminate.
  - destruct (nth_error_ex_lt (ops s) k ltac:(lia)) as [[n p] Hk].
    destruct (eo_ops_node s k n p (li_si _ _ _ HL) Hk) as [nn [Hn Kn]]. exists nn.
    rewrite (eo_par_at_S _ _ _ _ Hk). split; [exact Hn|]. intros k' n' p' E Hk'. injection E as <-.
    rewrite Hk in Hk'. injection Hk' as <- <-. exact Kn.
Qed.

Lemma eo_attached s : LineInv s -> forall e n, In e (ops s) -> nth_error (s_h s) (fst e) = Some n -> bpar n <> None.
Proof using All.
  intros HL [x p] n He Hn. apply In_nth_error in He. destruct He as [k Hk].
  destruct (ch_par _ _ _ (li_chain _ _ _ HL) k x p Hk) as [nn [Hn' Hp]]. cbn [fst] in Hn. rewrite Hn in Hn'.
  injection Hn' as <-. congruence.
Qed.

Lemma eo_lastok_cont h c : (forall n p, last_opened c = Some (n, p) -> is_container p = true) -> LastOK h c.
Proof using All. intros H n p nn E _. specialize (H n p E). csplit; intros ->; discriminate. Qed.

(* the open paragraph is the last child of its parent, from the line invariant *)
Lemma eo_lastparalc s : LineInv s -> LastParaLC s.
Proof using All. intros HL l n Hlo Hn. destruct (li_last _ _ _ HL l PParagraph n Hlo Hn) as (_ & _ & _ & _ & D). exact (D eq_refl). Qed.

(* ---------- heap relations, backwards ---------- *)
Lemma eo_struct_back h h' j n' : hsame_struct h h' -> nth_error h' j = Some n' ->
  exists n, nth_error h j = Some n /\ bk n' = bk n /\ bch n' = bch n /\ bpar n' = bpar n /\ blines n' = blines n.
Proof using All.
  intros [L H] Hj. destruct (nth_error_ex_lt h j) as [n Hn]; [apply nth_error_lt in Hj; lia|].
  destruct (H j n Hn) as [n2 (A & B)]. rewrite Hj in A. injection A as <-. exists n. split; [exact Hn|exact B].
Qed.
Lemma eo_pc_back h h' j n' : hsame_pc h h' -> nth_error h' j = Some n' ->
  exists n, nth_error h j = Some n /\ bk n' = bk n /\ bch n' = bch n /\ bpar n' = bpar n.
Proof using All.
  intros [L H] Hj. destruct (nth_error_ex_lt h j) as [n Hn]; [apply nth_error_lt in Hj; lia|].
  destruct (H j n Hn) as [n2 (A & B)]. rewrite Hj in A. injection A as <-. exists n. split; [exact Hn|exact B].
Qed.
Lemma eo_struct_pc h h' : hsame_struct h h' -> hsame_pc h h'.
Proof using All.
  intros [L H]. split; [exact L|]. intros j n Hn. destruct (H j n Hn) as [n' (A & B & C & D & _)]. exists n'. auto.
Qed.

Lemma eo_chain_pc h h' parent l : Chain h parent l -> hsame_pc h h' -> Chain h' parent l.
Proof using All.
  intros HC [L H]. eapply eo_chain_frame; [exact HC| |].
  - intros n p nn _ Hn. destruct (H n nn Hn) as [n' (A & B & C & D)]. exists n'. auto.
  - intros x Ln _ Hn. destruct (H x Ln Hn) as [n' (A & B & C & D)]. exists n'. auto.
Qed.

Lemma eo_ops_cframe s s' : cframe (s_c s) (s_c s') -> ops s' = ops s /\ last_opened (s_c s') = last_opened (s_c s).
Proof using All. intros (A & B & _). unfold ops, opened, last_opened. rewrite A, B. auto. Qed.

(* ---------- the line invariant under steps that keep the structure ---------- *)
(* NEW: while a Setext or ATX heading is the last opened block no node changes its lines *)
Lemma eo_inv_pc s s' : LineInv s -> SI s' -> hsame_pc (s_h s) (s_h s') -> ops s' = ops s ->
  c_fence (s_c s') = c_fence (s_c s) -> c_tmp_para (s_c s') = c_tmp_para (s_c s) ->
  (forall n p, last_opened (s_c s) = Some (n, p) -> p = PSetext \/ p = PATX ->
     forall j y y', nth_error (s_h s) j = Some y -> nth_error (s_h s') j = Some y' -> blines y' = blines y) ->
  LineInv s'.
Proof using All.
  intros HL S' Hpc Ho Hf Ht Hl. pose proof (li_si _ _ _ HL) as HS. constructor.
  - exact S'.
  - rewrite Ho. eapply eo_chain_pc; [apply HL|exact Hpc].
  - intros n p nn' Hlo Hn'. rewrite (eo_last s' S'), Ho, <- (eo_last s HS) in Hlo.
    destruct (eo_pc_back _ _ _ _ Hpc Hn') as [nn (Hn & _)].
    destruct (li_last _ _ _ HL n p nn Hlo Hn) as (A & B & C & D & G). csplit.
    + intros E. rewrite Hf. exact (A E).
    + intros E. destruct (B E) as [B1 B2]. rewrite Ht. split; [exact B1|].
      rewrite (Hl n p Hlo (or_introl E) n nn nn' Hn Hn'). exact B2.
    + intros E. rewrite (Hl n p Hlo (or_intror E) n nn nn' Hn Hn'). exact (C E).
    + intros E t tn' Et Htn'. rewrite Ht in Et. destruct (eo_pc_back _ _ _ _ Hpc Htn') as [tn (Htn & _)].
      rewrite (Hl n p Hlo (or_introl E) t tn tn' Htn Htn'). exact (D E t tn Et Htn).
    + intros E. destruct (G E) as (q & qn & G1 & G2 & G3). destruct Hpc as [_ Hpc].
      destruct (Hpc n nn Hn) as [nn2 (X1 & _ & _ & X4)]. rewrite Hn' in X1. injection X1 as <-.
      destruct (Hpc q qn G2) as [qn' (Y1 & _ & Y3 & _)]. exists q, qn'. csplit; [congruence|exact Y1|congruence].
  - destruct (li_root _ _ _ HL) as [n0 [H0 K0]]. destruct Hpc as [_ Hpc].
    destruct (Hpc _ _ H0) as [n0' (A & B & _)]. exists n0'. split; [exact A|congruence].
Qed.

Lemma eo_below_struct h h' r r' : Below h r -> hsame_struct h h' -> r_le r r' -> Below h' r'.
Proof using All.
  intros HB Hs (_ & Hle & _) i n' Hn' Hk. destruct (eo_struct_back _ _ _ _ Hs Hn') as [n (Hn & K & _ & _ & Ls)].
  rewrite Ls. specialize (HB i n Hn ltac:(congruence)). eapply Forall_impl; [|exact HB]. cbv beta. intros sg Hsg. lia.
Qed.

Lemma eo_mid_struct cap s s' : LineMid cap s -> SI s' -> hsame_struct (s_h s) (s_h s') -> cframe (s_c s) (s_c s') ->
  c_fence (s_c s') = c_fence (s_c s) -> c_tmp_para (s_c s') = c_tmp_para (s_c s) -> r_le (s_r s) (s_r s') ->
  LineMid cap s'.
Proof using All.
  intros (HL & Ho & HB) S' Hs Hc Hf Ht Hle. destruct (eo_ops_cframe s s' Hc) as [Eo El].
  split; [|split].
  - apply (eo_inv_pc s s' HL S' (eo_struct_pc _ _ Hs) Eo Hf Ht).
    intros _ _ _ _ j x x' Hx Hx'. destruct Hs as [_ Hs]. destruct (Hs j x Hx) as [n2 (A & _ & _ & _ & E)].
    rewrite Hx' in A. injection A as <-. exact E.
  - congruence.
  - eapply eo_below_struct; eassumption.
Qed.

Lemma eo_mid_scache cap s s1 : LineMid cap s -> SI s1 -> scache s s1 -> LineMid cap s1.
Proof using All.
  intros HM S1 (Eh & Ec & Ep). apply (eo_mid_struct cap s s1 HM S1).
  - rewrite Eh. apply hsame_struct_refl.
  - rewrite Ec. unfold cframe. auto.
  - rewrite Ec. reflexivity.
  - rewrite Ec. reflexivity.
  - apply same_pos_le, Ep.
Qed.

Lemma eo_mid_cont cap bp node s s' cont kids : LineMid cap s -> cont_post space_table src bp node s s' cont kids ->
  (is_container bp = true \/ cont = false) -> LineMid cap s' /\ same_line (s_r s) (s_r s').
Proof using All.
  intros HM (P1 & P2 & P3 & P4 & P5 & P6 & P7 & P8 & P9) Hor.
  assert (Hs : hsame_struct (s_h s) (s_h s') /\ same_line (s_r s) (s_r s')).
  { destruct (is_container bp) eqn:Ec.
    - destruct (P7 eq_refl) as [A B]. rewrite A. split; [apply hsame_struct_refl|exact B].
    - destruct Hor as [C|C]; [discriminate|]. exact (P8 eq_refl C). }
  destruct Hs as [Hs Hl]. split; [|exact Hl]. eapply eo_mid_struct; eassumption.
Qed.

(* ---------- what closeBlocks needs from the closed range ---------- *)
Lemma eo_all_cont_ready s (l : list (nat * bparser)) : Forall (fun x => is_container (snd x) = true) l ->
  match l with [] => True | e :: t => ReadyLeaf s (fst e) (snd e) /\ Forall (fun x => is_container (snd x) = true) t end.
Proof using All.
  intros H. destruct l as [|e t]; [exact I|]. inversion H as [|x y Hx Hy]; subst.
  split; [apply container_ready; exact Hx|exact Hy].
Qed.

Lemma eo_skipn_nth (cap : list (nat * bparser)) j e : In e (skipn j cap) -> exists m, (j <= m)%nat /\ nth_error cap m = Some e.
Proof using All.
  intros H. apply In_nth_error in H. destruct H as [k Hk]. rewrite eo_nth_error_skipn_add in Hk. exists (j + k)%nat.
  split; [lia|exact Hk].
Qed.

(* the range j .. last of the opened blocks, closed from the top: the last block is ready in s1
   (a state reached from s by steps that keep the context's records), the others are containers *)
Lemma eo_closed_shape cap j s s1 : LineInv s -> ops s = cap -> (j < length cap)%nat ->
  (c_fence (s_c s) <> None -> c_fence (s_c s1) <> None) ->
  (* a last opened Setext / ATX heading: no node has changed its lines, the temporary paragraph is the same *)
  (forall n p, last_opened (s_c s) = Some (n, p) -> p = PSetext \/ p = PATX ->
     (p = PSetext -> c_tmp_para (s_c s1) = c_tmp_para (s_c s)) /\
     forall i y y1, nth_error (s_h s) i = Some y -> nth_error (s_h s1) i = Some y1 -> blines y1 = blines y) ->
  match rev (skipn j cap) with
  | [] => True
  | e :: t => ReadyLeaf s1 (fst e) (snd e) /\ Forall (fun x => is_container (snd x) = true) t
  end.
Proof using All.
  intros HL Ho Hj Hf Hl. destruct (rev (skipn j cap)) as [|e t] eqn:E; [exact I|].
  assert (Es : skipn j cap = rev t ++ [e]).
  { rewrite <- (rev_involutive (skipn j cap)), E. reflexivity. }
  assert (Ec : cap = (firstn j cap ++ rev t) ++ [e]).
  { rewrite <- app_assoc, <- Es. symmetry. apply firstn_skipn. }
  pose proof (li_si _ _ _ HL) as HS. pose proof (ci_len _ _ (si_c _ _ _ HS)) as Hlen.
  assert (Hlast : last_opened (s_c s) = Some e).
  { apply (last_opened_app _ (firstn j cap ++ rev t)); [exact Hlen|]. fold (ops s). rewrite Ho. exact Ec. }
  split.
  - destruct e as [n p]. cbn [fst snd].
    pose proof (last_opened_in _ _ Hlen Hlast) as Hin.
    destruct (ci_arr _ _ (si_c _ _ _ HS) _ Hin) as [nn [Hn Kn]]. cbn [fst snd] in Hn, Kn.
    destruct (li_last _ _ _ HL n p nn Hlast Hn) as (A & B & C & D & _). unfold ReadyLeaf. csplit.
    + intros Ep. apply Hf, A, Ep.
    + intros Ep. destruct (B Ep) as [B1 B2]. destruct (Hl n p Hlast (or_introl Ep)) as [T L]. split.
      * rewrite (T Ep). exact B1.
      * intros n1 Hn1 _. rewrite (L n nn n1 Hn Hn1). exact B2.
    + intros Ep n1 Hn1. destruct (Hl n p Hlast (or_intror Ep)) as [_ L]. rewrite (L n nn n1 Hn Hn1). exact (C Ep).
    + intros Ep t0 tn1 Et Htn1. destruct (Hl n p Hlast (or_introl Ep)) as [T L]. rewrite (T Ep) in Et.
      destruct (ci_tmp _ _ (si_c _ _ _ HS) t0 Et) as [tn [Htn _]]. rewrite (L t0 tn tn1 Htn Htn1).
      exact (D Ep t0 tn Et Htn).
  - apply Forall_forall. intros x Hx. apply in_rev in Hx. apply In_nth_error in Hx. destruct Hx as [k Hk].
    assert (Hkl : (k < length (rev t))%nat) by (eapply nth_error_lt, Hk).
    assert (Hc : nth_error cap (j + k) = Some x).
    { rewrite <- eo_nth_error_skipn_add, Es, nth_error_app1 by exact Hkl. exact Hk. }
    pose proof (li_chain _ _ _ HL) as HC. rewrite Ho in HC. apply (ch_cont _ _ _ HC (j + k)%nat x Hc).
    rewrite Ec at 1. rewrite !app_length, firstn_length. cbn [length]. lia.
Qed.

(* ---------- the line invariant after openBlocks and closeBlocks ----------
   t: the state before openBlocks (opened blocks cap); t1: after openBlocks below position j
   (blocks `new` opened; old nodes changed within OFrame); u: after closing `closed`, a part of
   cap[j..], with opened blocks cap[0..j) ++ new. *)
Lemma eo_finish cap j t t1 u new closed :
  LineInv t -> ops t = cap -> (j <= length cap)%nat ->
  (forall k e, (k < j)%nat -> nth_error cap k = Some e -> is_container (snd e) = true) ->
  SI t1 ->
  OFrame (s_h t) (s_h t1) (par_at 0%nat cap j) (last_para (s_c t)) ->
  Chain (s_h t1) (par_at 0%nat cap j) new ->
  (forall e, In e new -> (length (s_h t) <= fst e)%nat /\ In e (c_arr (s_c t1))) ->
  (forall k L, j = S k -> nth_error cap k = Some (L, PList) ->
     exists it pn', nth_error new 0%nat = Some (it, PListItem) /\ nth_error (s_h t1) L = Some pn' /\
                    last_id (bch pn') = Some it) ->
  (forall t0, c_tmp_para (s_c t1) = Some t0 -> (t0 < length (s_h t))%nat) ->
  (forall n p nn, nth_error new (pred (length new)) = Some (n, p) -> nth_error (s_h t1) n = Some nn ->
     (p = PFenced -> exists ch ind fl, c_fence (s_c t1) = Some (ch, ind, fl, n)) /\
     (p = PSetext -> c_tmp_para (s_c t1) <> None /\ blines nn <> [] /\
                     exists x, last_opened (s_c t) = Some (x, PParagraph)) /\
     (* NEW: the lines of a new ATX heading; the temporary paragraph of a new setext heading has pad-0 lines and is
        not closed *)
     (p = PATX -> Forall olineE (blines nn)) /\
     (p = PSetext -> exists x xn, c_tmp_para (s_c t1) = Some x /\ nth_error (s_h t1) x = Some xn /\ Forall pad0 (blines xn) /\
                                  ~ In x (map fst closed)) /\
     (* a new paragraph is the last child of its parent *)
     (p = PParagraph -> exists q qn, bpar nn = Some q /\ nth_error (s_h t1) q = Some qn /\ last_id (bch qn) = Some n)) ->
  (* a paragraph directly below the parent is opened only when the open paragraph is not closed afterwards *)
  (forall P Q, new = [(P, PParagraph)] -> last_opened (s_c t) = Some (Q, PParagraph) -> ~ In Q (map fst closed)) ->
  SI u -> ops u = firstn j cap ++ new ->
  (forall e, In e closed -> In e (skipn j cap)) ->
  (forall ch ind fl nd, c_fence (s_c t1) = Some (ch, ind, fl, nd) -> ~ In (nd, PFenced) closed ->
                        c_fence (s_c u) = c_fence (s_c t1)) ->
  ((forall H, ~ In (H, PSetext) closed) -> c_tmp_para (s_c u) = c_tmp_para (s_c t1)) ->
  CFrame (Dacc (s_h t1) (s_c t1) closed) (fun x => In x (map fst closed)) (s_h t1) (s_h u) ->
  eo_bch_frame (eo_Bacc (s_h t1) (s_c t1) closed) (s_h t1) (s_h u) ->
  LineInv u.
Proof using All.
  intros HL Ho Hj Hcont S1 [OL OF] HN Hnew Hlist Htmp Hlastnew Hnopara SU Hou Hclosed Hfence Htmpu [CL CF] BF.
  pose proof (li_si _ _ _ HL) as HS. pose proof (si_h _ _ _ HS) as HH.
  pose proof (li_chain _ _ _ HL) as HC. rewrite Ho in HC.
  (* closed entries are old entries at positions >= j *)
  assert (F1 : forall e, In e closed -> exists m, (j <= m)%nat /\ nth_error cap m = Some e).
  { intros e He. apply eo_skipn_nth, Hclosed, He. }
  assert (F2 : forall m n p, nth_error cap m = Some (n, p) ->
            exists nn, nth_error (s_h t) n = Some nn /\ bk nn = kind_of_parser p /\ (n < length (s_h t))%nat).
  { intros m n p Hm. rewrite <- Ho in Hm. destruct (eo_ops_node t m n p HS Hm) as [nn [Hn Kn]]. exists nn.
    csplit; auto. eapply nth_error_lt, Hn. }
  assert (Fnotclosed : forall n, (length (s_h t) <= n)%nat -> ~ In n (map fst closed)).
  { intros n Hn Hin. apply in_map_iff in Hin. destruct Hin as [[x p] [Ex Hin]]. cbn [fst] in Ex. subst x.
    destruct (F1 _ Hin) as [m [_ Hm]]. destruct (F2 m n p Hm) as [nn (_ & _ & Hlt)]. lia. }
  (* old container entries below j keep parent and (for lists other than the parent) children *)
  assert (K1 : forall k n p nn, (k < j)%nat -> nth_error cap k = Some (n, p) -> nth_error (s_h t) n = Some nn ->
            exists nn', nth_error (s_h u) n = Some nn' /\ bk nn' = bk nn /\ bpar nn' = bpar nn /\
                        (bk nn = BList -> n <> par_at 0%nat cap j -> bch nn' = bch nn)).
  { intros k n p nn Hk Hc Hn. pose proof (Hcont k _ Hk Hc) as Hcp. cbn [snd] in Hcp.
    destruct (F2 k n p Hc) as [nn0 (Hn0 & Kn0 & _)]. rewrite Hn in Hn0. injection Hn0 as <-.
    assert (Knp : bk nn <> BParagraph) by (rewrite Kn0; destruct p; cbn in *; congruence).
    assert (Hnl : Some n <> last_para (s_c t)).
    { intros E. unfold last_para in E. destruct (last_opened (s_c t)) as [[x q]|] eqn:El; [|discriminate].
      destruct q; try discriminate. injection E as <-.
      pose proof (last_opened_in _ _ (ci_len _ _ (si_c _ _ _ HS)) El) as Hin.
      destruct (ci_arr _ _ (si_c _ _ _ HS) _ Hin) as [nx [Hx Kx]]. cbn [fst snd kind_of_parser] in Hx, Kx.
      rewrite Hn in Hx. injection Hx as <-. contradiction. }
    destruct (OF n nn Hn) as [n1 (A1 & A2 & A3 & A4)]. destruct (A3 Hnl) as [_ A3p].
    destruct (CF n n1 A1) as [n2 (B1 & B2 & B3 & B4 & B5)]. exists n2. csplit.
    - exact B1.
    - congruence.
    - destruct B5 as [B5|[B5 _]]; [congruence|]. rewrite A2 in B5. contradiction.
    - intros Kl Hne. rewrite B4 by congruence. apply A4; assumption. }
  assert (Hfresh_nd : forall k n p, nth_error new k = Some (n, p) ->
            exists nn, nth_error (s_h t1) n = Some nn /\ bk nn = kind_of_parser p /\ (length (s_h t) <= n)%nat).
  { intros k n p Hk. destruct (Hnew _ (nth_error_In _ _ Hk)) as [A B].
    destruct (ci_arr _ _ (si_c _ _ _ S1) _ B) as [nn [Hn Kn]]. exists nn. auto. }
  (* the closing keeps the parent field of the new nodes *)
  assert (Hnewpar : forall k n p nn, nth_error new k = Some (n, p) -> nth_error (s_h t1) n = Some nn ->
            exists n2, nth_error (s_h u) n = Some n2 /\ bpar n2 = bpar nn).
  { intros k n p nn Hk Hn. destruct (CF n nn Hn) as [n2 (B1 & B2 & B3 & B4 & B5)]. exists n2. split; [exact B1|].
    destruct B5 as [B5|[B5 B6]]; [exact B5|]. exfalso.
    destruct (Hfresh_nd k n p Hk) as [nn' (Hn' & _ & Hfr)].
    destruct (ch_par _ _ _ HN k n p Hk) as [nn2 [Hn2 Hp2]]. rewrite Hn in Hn2. injection Hn2 as <-.
    destruct B6 as [B6|[[B6 _]|B6]].
    -- exact (Fnotclosed n Hfr B6).
    -- apply Htmp in B6. lia.
    -- destruct B6 as [L [c [ln (D1 & D2 & D3 & D4)]]]. destruct (F1 _ D1) as [m [Hjm Hm]].
       destruct (F2 m L PList Hm) as [Ln (HLn & KLn & _)].
       pose proof (eo_par_lt t j m (L, PList) HL Hjm ltac:(rewrite Ho; exact Hm)) as Hpl. rewrite Ho in Hpl.
       cbn [fst] in Hpl. destruct (OF L Ln HLn) as [n1 (A1 & A2 & _ & A4)]. rewrite D3 in A1. injection A1 as <-.
       rewrite (A4 KLn ltac:(lia)) in D4.
       pose proof (hi_ch _ _ _ HH L Ln HLn) as Hch. rewrite Forall_forall in Hch. specialize (Hch c D4).
       rewrite Hp2 in D2. injection D2 as <-. destruct k as [|k]; cbn [par_at] in Hch; [lia|].
       destruct (nth_error_ex_lt new k) as [[a pa] Ha]; [apply nth_error_lt in Hk; lia|].
       rewrite (nth_error_nth _ _ _ Ha) in Hch. cbn [fst] in Hch.
       destruct (Hfresh_nd k a pa Ha) as [_ (_ & _ & Hfa)]. lia. }
  constructor.
  - exact SU.
  - rewrite Hou. apply (eo_chain_glue (s_h t) (s_h u) j cap new HC Hj Hcont).
    + intros k n p nn Hk Hc Hn. destruct (K1 k n p nn Hk Hc Hn) as [nn' (A & _ & B & _)]. exists nn'. auto.
    + intros k L Ln Hk Hc Hn. destruct (K1 k L PList Ln ltac:(lia) Hc Hn) as [nn' (A & _ & _ & B)]. exists nn'.
      split; [exact A|]. destruct (F2 k L PList Hc) as [x (Hx & Kx & _)]. rewrite Hn in Hx. injection Hx as <-.
      apply B; [exact Kx|]. destruct j as [|j']; [lia|].
      destruct (nth_error_ex_lt cap j' ltac:(lia)) as [[a pa] Ha]. rewrite (eo_par_at_S _ _ _ _ Ha).
      pose proof (chain_sorted space_table src _ _ _ HH HC k j' (L, PList) (a, pa) ltac:(lia) Hc Ha) as Hlt.
      cbn [fst] in Hlt. lia.
    + intros k L Ej Hc. destruct (Hlist k L Ej Hc) as [it [pn' (A & B & C)]].
      destruct (F2 k L PList Hc) as [Ln (HLn & KLn & _)]. cbn [kind_of_parser] in KLn.
      destruct (OF L Ln HLn) as [n1 (A1 & A2 & _)].
      rewrite B in A1. injection A1 as <-. destruct (CF L pn' B) as [n2 (B1 & B2 & B3 & B4 & B5)].
      exists it, n2. csplit; auto. rewrite B4 by congruence. exact C.
    + eapply eo_chain_frame; [exact HN| |].
      * intros n p nn Hin Hn. apply In_nth_error in Hin. destruct Hin as [k Hk]. exact (Hnewpar k n p nn Hk Hn).
      * intros L Ln Hin Hn. destruct (Hnew _ Hin) as [_ Hina].
        destruct (ci_arr _ _ (si_c _ _ _ S1) _ Hina) as [x [Hx Kx]]. cbn [fst snd kind_of_parser] in Hx, Kx.
        rewrite Hn in Hx. injection Hx as <-. destruct (CF L Ln Hn) as [n2 (B1 & B2 & B3 & B4 & B5)].
        exists n2. split; [exact B1|]. apply B4, Kx.
  - intros n p nn Hlo Hn. rewrite (eo_last u SU), Hou, eo_len_glue in Hlo by exact Hj.
    destruct new as [|e0 new0] eqn:Enew.
    + cbn [length] in Hlo. rewrite Nat.add_0_r in Hlo. destruct j as [|j']; [cbn in Hlo; discriminate|].
      cbn [pred] in Hlo. rewrite eo_nth_lo in Hlo by lia. pose proof (Hcont j' _ ltac:(lia) Hlo) as Hcp.
      cbn [snd] in Hcp. csplit; intros ->; discriminate.
    + rewrite <- Enew in *. assert (Hlen : (0 < length new)%nat) by (rewrite Enew; cbn; lia).
      rewrite eo_nth_hi in Hlo by lia. replace (pred (j + length new) - j)%nat with (pred (length new)) in Hlo by lia.
      destruct (Hfresh_nd _ n p Hlo) as [nn1 (Hn1 & Kn1 & Hfr)].
      destruct (Hlastnew n p nn1 Hlo Hn1) as (A & C & DA & D & G).
      destruct (CF n nn1 Hn1) as [n2 (B1 & B2 & B3 & B4 & B5)]. rewrite Hn in B1. injection B1 as <-.
      assert (Hold : forall q, ~ In (n, q) closed).
      { intros q Hq. apply (Fnotclosed n Hfr). apply in_map_iff. exists (n, q). auto. }
      assert (Htu : p = PSetext -> c_tmp_para (s_c u) = c_tmp_para (s_c t1)).
      { intros ->. destruct (C eq_refl) as (C1 & C2 & [x C3]). apply Htmpu. intros H Hin. destruct (F1 _ Hin) as [m [Hjm Hm]].
        rewrite (eo_last t HS), Ho in C3. pose proof (nth_error_lt _ _ _ Hm) as Hml.
        destruct (Nat.eq_dec m (pred (length cap))) as [->|Hne]; [congruence|].
        pose proof (ch_cont _ _ _ HC m _ Hm ltac:(lia)) as Hcp. discriminate. }
      csplit.
      * intros ->. destruct (A eq_refl) as (ch & ind & fl & E). rewrite (Hfence ch ind fl n E (Hold PFenced)), E. discriminate.
      * intros Ep. rewrite (Htu Ep). subst p. destruct (C eq_refl) as (C1 & C2 & _). rewrite (B3 (Fnotclosed n Hfr)). auto.
      * intros Ep. rewrite (B3 (Fnotclosed n Hfr)). exact (DA Ep).
      * intros Ep t0 tn Ht0 Htn. rewrite (Htu Ep) in Ht0. subst p. destruct (D eq_refl) as (x & xn & X1 & X2 & X3 & X4).
        rewrite X1 in Ht0. injection Ht0 as <-. destruct (CF x xn X2) as [x2 (Y1 & _ & Y3 & _)].
        rewrite Htn in Y1. injection Y1 as <-. rewrite (Y3 X4). exact X3.
      * intros Ep. subst p. destruct (G eq_refl) as (q & qn & G1 & G2 & G3).
        destruct (Hnewpar _ n PParagraph nn1 Hlo Hn1) as [n2' [X1 X2]]. rewrite Hn in X1. injection X1 as <-.
        destruct (CF q qn G2) as [qn2 (Y1 & _)].
        exists q, qn2. split; [congruence|]. split; [exact Y1|].
        (* q is the parent given by the chain: the parent of the new blocks, or a new block *)
        destruct (ch_par _ _ _ HN _ n PParagraph Hlo) as [nn' [Hn' Hp']]. rewrite Hn1 in Hn'. injection Hn' as <-.
        rewrite G1 in Hp'. injection Hp' as Eq.
        assert (Hq : (q = par_at 0%nat cap j /\ length new = 1%nat) \/ (length (s_h t) <= q)%nat).
        { destruct (pred (length new)) as [|k'] eqn:Ek; cbn [par_at] in Eq.
          - left. split; [exact Eq|lia].
          - right. destruct (nth_error_ex_lt new k') as [[a pa] Ha]; [lia|].
            rewrite (nth_error_nth _ _ _ Ha) in Eq. cbn [fst] in Eq.
            destruct (Hfresh_nd k' a pa Ha) as [_ (_ & _ & Hfa)]. lia. }
        destruct (BF q qn qn2 G2 Y1) as [Eb|[Ba|[Bb|Bc]]].
        -- rewrite Eb. exact G3.
        -- (* q is the parent of a closed paragraph Q, which then was the open paragraph *)
           exfalso. destruct Ba as (Q & Qn & Q1 & Q2 & Q3). destruct (F1 _ Q1) as [m [Hjm Hm]].
           destruct (F2 m Q PParagraph Hm) as [Qn0 (HQn0 & _ & HQlt)].
           pose proof (hi_par _ _ _ (si_h _ _ _ S1) Q Qn q Q2 Q3) as Hqq.
           destruct Hq as [[Eq0 Hl1]|Hq]; [|lia].
           assert (Hml : m = pred (length cap)).
           { destruct (Nat.eq_dec m (pred (length cap))) as [E|E]; [exact E|].
             pose proof (ch_cont _ _ _ HC m _ Hm ltac:(apply nth_error_lt in Hm; lia)) as Hcp. discriminate. }
           subst m. assert (Hlq : last_opened (s_c t) = Some (Q, PParagraph)) by (rewrite (eo_last t HS), Ho; exact Hm).
           apply (Hnopara n Q); [|exact Hlq|apply in_map_iff; exists (Q, PParagraph); auto].
           destruct new as [|e0' [|e2 r]]; cbn [length] in Hl1; try lia. cbn in Hlo. injection Hlo as ->. reflexivity.
        -- (* the parent of the temporary paragraph of a closed setext heading loses that (old) paragraph *)
           destruct Bb as (tmp & H & T1 & T2 & T3). rewrite T3. apply last_id_remove_id; [exact G3|]. apply Htmp in T1. lia.
        -- (* q is an item of a closed list *)
           exfalso. destruct Bc as (L & ln & L1 & L2 & L3). destruct (F1 _ L1) as [m [Hjm Hm]].
           destruct (F2 m L PList Hm) as [Ln (HLn & KLn & _)].
           pose proof (eo_par_lt t j m (L, PList) HL Hjm ltac:(rewrite Ho; exact Hm)) as Hpl. rewrite Ho in Hpl.
           cbn [fst] in Hpl. destruct (OF L Ln HLn) as [n1 (A1 & A2 & _ & A4)]. rewrite L2 in A1. injection A1 as <-.
           rewrite (A4 KLn ltac:(lia)) in L3.
           pose proof (hi_ch _ _ _ HH L Ln HLn) as Hch. rewrite Forall_forall in Hch. specialize (Hch q L3).
           destruct Hq as [[Eq0 _]|Hq]; lia.
  - destruct (li_root _ _ _ HL) as [n0 [H0 K0]]. destruct (OF _ _ H0) as [n1 (A1 & A2 & _)].
    destruct (CF _ _ A1) as [n2 (B1 & B2 & _)]. exists n2. split; [exact B1|congruence].
Qed.

End S.
