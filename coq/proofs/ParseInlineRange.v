(* C05 / C03 / C04 (inline phase): the inline children the inline-phase model produces for a
   block whose lines satisfy lines_ok are well formed in the sense of HtmlSpec.wf_node (text and
   raw HTML segments inside the source, link and image destinations and titles byte strings, code
   spans holding text nodes only) and consist of public inline kinds only: no delimiter, label
   state or other bookkeeping node is left in the tree.
   For all tables, regular expressions, rune classes, label normalisations and reference maps. *)
Require Import GM.model.Base GM.model.Util GM.model.Reader GM.model.ReaderSpec GM.model.Blocks GM.model.ListItem
               GM.model.LeafBlocks GM.model.CodeSpan GM.model.LinkDest GM.model.Regex GM.model.Delim GM.model.HtmlWriter
               GM.model.Html GM.model.HtmlSpec GM.model.BlockParse GM.model.InlineParse.
Require Import GM.proofs.MiscProofs GM.proofs.ReaderProofs GM.proofs.BReaderProofs GM.proofs.BlockRangeProofs GM.proofs.ParseInv.
From Coq Require Import ZArith Lia.
Open Scope Z_scope.

Section S.
Variable space_table punct_table : list N.
Variable norm : bytes -> bytes.
Variable url_table email_table : list N.
Variable re_email_domain re_open_tag re_close_tag : re.
Variable punct_rune space_rune : N -> bool.
Notation IC := (inline_children space_table punct_table norm url_table email_table
                  re_email_domain re_open_tag re_close_tag punct_rune space_rune).

Theorem inline_children_ok : forall refs src lines ts,
  bytes_ok src -> refs_ok refs -> lines_ok src lines ->
  IC refs src lines = Ok ts ->
  Forall (fun t => wf_node src false false t = true) ts.
Proof. Admitted.

(* no delimiter, link label state or other bookkeeping node is left in the tree *)
Theorem inline_children_public_kinds : forall refs src lines ts,
  bytes_ok src -> refs_ok refs -> lines_ok src lines ->
  IC refs src lines = Ok ts ->
  Forall (fun t => all_kinds inline_kind t = true) ts.
Proof. Admitted.

End S.
