(* C05 / C03 / C04 (inline phase): the inline children the inline-phase model produces for a
   block whose lines satisfy lines_ok are well formed in the sense of HtmlSpec.wf_node (text and
   raw HTML segments inside the source, link and image destinations and titles byte strings, code
   spans holding text nodes only) and consist of public inline kinds only: no delimiter, label
   state or other bookkeeping node is left in the tree.
   For all tables, regular expressions, rune classes, label normalisations and reference maps
   - except that the space table must class the bytes 32 and 10 as spaces (see below).
   Theorems: inline_children_ok_sp, inline_children_public_kinds_sp (any tables with that property),
   InlineChildren_ok, InlineChildren_public_kinds (the regenerated tables, model/ParseI.v).

   STATEMENT CHANGE.  The theorem inline_children_ok as first stated (for an arbitrary space_table)
   is FALSE.  Counterexample (checked with vm_compute): space_table = [] (no byte is a space),
   punct_table = repeat 0 96 ++ [1] (only '`' is punctuation), norm = id, url_table = email_table = [],
   all three regular expressions RNone, both rune classes (fun _ => false), refs = [],
   src = [96;32;96] ("` `"), lines = [mkseg 0 3]:
     inline_children ... = Ok [Node KCodeSpan [] None [Node (KText {start=2; stop=1; pad=0} false false true) [] None []]]
   and wf_node src false false of that tree is false (start > stop).  Cause: codeSpanParser.Parse strips
   one space or newline (the literal bytes 32 / 10, is_space_or_newline) from both ends of the content
   unless the content is blank according to util.IsBlank, which consults the space table; with a table in
   which 32 (or 10) is not a space, a one-byte content " " (or a newline) is stripped twice.
   The two hypotheses  is_space space_table 32 = true  and  is_space space_table 10 = true  are exactly
   what is needed; the theorem is proved with them as inline_children_ok_sp, and for the regenerated
   tables (where they hold by computation) as InlineChildren_ok at the end of the file.

   The second theorem of the skeleton, inline_children_public_kinds (no delimiter, label state or block
   node is left among the inline children), is proved under the same two hypotheses as
   inline_children_public_kinds_sp, and for the regenerated tables as InlineChildren_public_kinds: the
   proof runs on top of the invariant of the first theorem (ctx_ok), which needs them.  It has not been
   determined whether the second statement holds for an arbitrary space table (no counterexample is
   known; the counterexample above does not apply: its tree has public kinds only).
   Proof idea for the kinds: the delimiter list of the parse context is at every step the list of the
   delimiter children of the block node, in the same order (so ClearDelimiters, which walks the previous
   siblings of the last delimiter, reaches all of them); delimiter and label state children of the block
   node are in increasing node number order (so the delimiters at or before a link bottom are before the
   label the bottom was pushed with, and none follows the label when its link is made); label state
   nodes with a parent are in the label state list, which CloseBlock empties; node 0 is the only block
   node and has no parent.

   Helper files: ParseInlineRangeHeap.v (heap, tree surgery, delimiter list), ParseInlineRangeReader.v
   (block reader), ParseInlineRangeParsers.v (the inline parsers, scan_line, parse_block_loop);
   for the kinds: ParseInlineRangeKList.v (children lists after the tree surgery, key nodes),
   ParseInlineRangeKStep.v (generic steps, text merging, RemoveDelimiter), ParseInlineRangeKDelim.v
   (ClearDelimiters, ProcessDelimiters), ParseInlineRangeKLabel.v (label state list),
   ParseInlineRangeKInv.v (the invariants), ParseInlineRangeKParsers.v (parsers, scan_line, loop). *)
Require Import GM.model.Base GM.model.Util GM.model.Reader GM.model.ReaderSpec GM.model.Blocks GM.model.ListItem
               GM.model.LeafBlocks GM.model.CodeSpan GM.model.LinkDest GM.model.Regex GM.model.Delim GM.model.HtmlWriter
               GM.model.Html GM.model.HtmlSpec GM.model.BlockParse GM.model.InlineParse.
Require Import GM.proofs.BReaderProofs GM.proofs.ParseInv.
Require Import GM.proofs.ParseInlineRangeHeap GM.proofs.ParseInlineRangeReader GM.proofs.ParseInlineRangeParsers.
Require Import GM.proofs.ParseInlineRangeKList GM.proofs.ParseInlineRangeKStep GM.proofs.ParseInlineRangeKDelim
               GM.proofs.ParseInlineRangeKLabel GM.proofs.ParseInlineRangeKInv GM.proofs.ParseInlineRangeKParsers.
From Coq Require Import ZArith Lia List Bool.
Import ListNotations.
Open Scope Z_scope.

(* wf_node over a node: the local conditions and forallb over the children *)
Lemma wf_node_node src it ir k l a kids :
  wf_node src it ir (Node k l a kids) =
  node_ok src it (Node k l a kids) && (match k with KTableCell _ => ir | _ => true end) &&
  forallb (wf_node src (match k with KTable => true | _ => false end)
                       (match k with KTableHeader | KTableRow => true | _ => false end)) kids.
Proof.
  cbn [wf_node t_kind t_children]. f_equal; try reflexivity;
  (induction kids as [|x r IH]; [reflexivity|cbn [forallb]; rewrite IH; reflexivity]).
Qed.

Lemma map_res_in {A B} (f : A -> result B) : forall l out, map_res f l = Ok out ->
  forall y, In y out -> exists x, In x l /\ f x = Ok y.
Proof.
  induction l as [|x t IH]; intros out H y Hy; cbn [map_res] in H.
  - inversion H; subst. destruct Hy.
  - destruct (f x) as [b| |] eqn:Ef; cbn [bind] in H; try discriminate.
    destruct (map_res f t) as [r| |] eqn:Er; cbn [bind] in H; try discriminate.
    inversion H; subst out. destruct Hy as [<-|Hy].
    + exists x. split; [left; reflexivity|exact Ef].
    + destruct (IH r eq_refl y Hy) as (x' & Hx' & Hf'). exists x'. split; [right; exact Hx'|exact Hf'].
Qed.

Section S.
Variable space_table punct_table : list N.
Variable norm : bytes -> bytes.
Variable url_table email_table : list N.
Variable re_email_domain re_open_tag re_close_tag : re.
Variable punct_rune space_rune : N -> bool.
Hypothesis Hsp32 : is_space space_table 32 = true.
Hypothesis Hsp10 : is_space space_table 10 = true.
Notation IC := (inline_children space_table punct_table norm url_table email_table
                  re_email_domain re_open_tag re_close_tag punct_rune space_rune).
Notation PB := (parse_block space_table punct_table norm url_table email_table
                  re_email_domain re_open_tag re_close_tag punct_rune space_rune).
Notation LOOP := (parse_block_loop space_table punct_table norm url_table email_table
                  re_email_domain re_open_tag re_close_tag punct_rune space_rune).

(* ---------- linkParser.CloseBlock ---------- *)
Lemma close_labels_ok src : forall fuel c cur c' L, close_labels fuel c cur = Ok c' -> ctx_ok src [] c L ->
  ctx_ok src [] c' L /\ kle (i_h c) (i_h c').
Proof.
  induction fuel as [|f IH]; intros c cur c' L H Hc; cbn [close_labels] in H; [discriminate|].
  destruct cur as [x|]; [|inversion H; subst; split; [exact Hc|apply kle_refl]].
  destruct (lget (i_h c) x) as [[[[[[sg im] p] nx] fs] ls]| |] eqn:El; cbn [bind] in H; try discriminate.
  apply lget_view in El. pose proof (h_kind _ _ (proj1 Hc) x _ El) as Hsg. cbn in Hsg.
  destruct (remove_label c x) as [c1| |] eqn:Er; cbn [bind] in H; try discriminate.
  destruct (remove_label_nstep src _ _ _ Er [] L Hc) as [Hc1 Hk1].
  destruct (iget (i_h c1) x) as [n| |] eqn:Eg; cbn [bind] in H; try discriminate.
  assert (Hx : (x < length (i_h c1))%nat). { apply iget_ok in Eg. apply nth_error_Some. congruence. }
  destruct (ipar n) as [par|]; [|discriminate].
  destruct (new_inode c1 (mk_text sg)) as [c2 t] eqn:En.
  destruct (i_replace (i_h c2) par x t) as [h| |] eqn:Erp; cbn [bind] in H; try discriminate.
  destruct (ctx_new src _ _ _ _ _ _ En Hsg Hc1) as (Hc2 & Hk2 & _ & Kt & _ & _ & _ & Ht & _).
  destruct (i_replace_spec _ _ _ _ _ Erp (h_tree _ _ (proj1 Hc2))) as (h1 & Hat & Hrem); [lia|].
  destruct (ctx_attach src _ _ _ _ _ _ Hc2 Hat) as [Hc3 Hk3].
  { eapply text_edge. exact Kt. }
  { left. eapply kd_dlk_none; [exact Kt|cbn; lia]. }
  assert (Hc4 : ctx_ok src [] (cx_h c2 h) L /\ kle h1 h).
  { destruct Hrem as [[_ Hdet]|[_ ->]].
    - destruct (ctx_detach src _ _ _ _ _ Hc3 Hdet) as [X Y]. split; [exact X|exact Y].
    - split; [exact Hc3|apply kle_refl]. }
  destruct Hc4 as [Hc4 Hk4].
  destruct (IH _ _ _ L H Hc4) as [Hc5 Hk5]. split; [exact Hc5|].
  eapply kle_trans; [exact Hk1|]. eapply kle_trans; [exact Hk2|]. eapply kle_trans; [exact Hk3|].
  eapply kle_trans; [exact Hk4|exact Hk5].
Qed.

Lemma link_close_block_ok src c c' L : link_close_block c = Ok c' -> ctx_ok src [] c L -> ctx_ok src [] c' L.
Proof.
  unfold link_close_block. intros H Hc.
  destruct (nstep_fields src c (cx_bottoms c []) eq_refl eq_refl eq_refl [] L Hc) as [Hc0 _].
  exact (proj1 (close_labels_ok src _ _ _ _ L H Hc0)).
Qed.

(* ---------- parseBlock ---------- *)
Lemma init_ok src : ctx_ok src [] init_ictx [] /\ pok (i_h init_ictx) 0.
Proof.
  split; [split|].
  - constructor.
    + constructor.
      * intros p c Hin. unfold ch, init_ictx in Hin. cbn in Hin. destruct p as [|[|p]]; cbn in Hin; destruct Hin.
      * intros p. unfold ch, init_ictx. cbn. destruct p as [|[|p]]; cbn; constructor.
      * intros x p Hp. unfold pr, init_ictx in Hp. cbn in Hp. destruct x as [|[|x]]; cbn in Hp; discriminate.
    + intros j k Hk. unfold kd, init_ictx in Hk. cbn in Hk. destruct j as [|[|j]]; cbn in Hk; inversion Hk. exact I.
    + intros p c k Hp. unfold kd, init_ictx in Hp. cbn in Hp. destruct p as [|[|p]]; cbn in Hp; inversion Hp.
  - constructor; cbn; try reflexivity.
    + constructor.
    + intros p d Hin. unfold ch, init_ictx in Hin. cbn in Hin. destruct p as [|[|p]]; cbn in Hin; destruct Hin.
    + intros d len [].
  - exists IRoot. split; [reflexivity|cbn; lia].
Qed.

(* no line at all: the reader is out of range at once and the loop leaves the context alone *)
Lemma new_block_reader_nil src r : new_block_reader src [] = Ok r -> b_in_range r = false.
Proof. intros H. cbn in H. inversion H. reflexivity. Qed.

Lemma parse_block_loop_out refs fuel s parent esc s' : b_in_range (t_r s) = false ->
  LOOP refs fuel s parent esc = Ok s' -> t_c s' = t_c s.
Proof.
  intros Hr H. destruct fuel as [|f]; cbn [parse_block_loop] in H; [discriminate|].
  unfold b_peek_line in H. rewrite Hr in H. cbn [bind] in H. inversion H. reflexivity.
Qed.

Lemma parse_block_ok refs src lines c : bytes_ok src -> refs_ok refs -> lines_ok src lines ->
  PB refs src lines = Ok c -> exists L, ctx_ok src [] c L.
Proof.
  intros Hsrc Hrefs Hlines H. unfold parse_block in H.
  destruct (new_block_reader src lines) as [r| |] eqn:En; cbn [bind] in H; try discriminate.
  destruct (LOOP refs _ _ 0%nat false) as [s| |] eqn:El; cbn [bind] in H; try discriminate.
  destruct (init_ok src) as [Hc0 Hp0].
  assert (Hc1 : exists L1, ctx_ok src [] (t_c s) L1).
  { destruct lines as [|l0 lines'].
    - apply new_block_reader_nil in En. apply parse_block_loop_out in El; [|exact En].
      rewrite El. exists []. exact Hc0.
    - pose proof (ri_new _ _ _ Hlines ltac:(discriminate) En) as Hr.
      destruct (parse_block_loop_ok space_table punct_table norm url_table email_table re_email_domain re_open_tag re_close_tag
                  punct_rune space_rune refs src (l0 :: lines') Hsp32 Hsp10 Hsrc Hrefs _ _ _ _ _ [] El) as (L1 & [Hc1 _] & _).
      { split; [exact Hc0|exact Hr]. }
      { exact Hp0. }
      exists L1. exact Hc1. }
  destruct Hc1 as [L1 Hc1].
  destruct (process_delimiters (ifuel s) (t_c s) BNil) as [c2| |] eqn:Ep; cbn [bind] in H; try discriminate.
  destruct (process_delimiters_ok src _ _ _ _ _ Ep Hc1) as (L2 & Hc2 & _).
  exists L2. eapply link_close_block_ok; eassumption.
Qed.

(* ---------- from the heap to renderer trees ---------- *)
Lemma itree_text src h : forall fuel i t k, itree fuel src h i = Ok t -> kd h i = Some k -> is_text k = true -> is_text_node t = true.
Proof.
  intros fuel i t k H Hk Ht. destruct fuel as [|f]; cbn [itree] in H; [discriminate|].
  destruct (iget h i) as [n| |] eqn:Eg; cbn [bind] in H; try discriminate.
  apply iget_kd in Eg. destruct Eg as (Ek & _). rewrite Hk in Ek. inversion Ek as [Ek'].
  destruct (map_res _ _) as [kids| |]; cbn [bind] in H; try discriminate.
  rewrite <- Ek' in H. destruct k; cbn in Ht; try discriminate. cbn [bind] in H. inversion H. reflexivity.
Qed.

Lemma itree_wf src h : bytes_ok src -> heap_ok src h -> forall fuel i t, itree fuel src h i = Ok t -> wf_node src false false t = true.
Proof.
  intros Hsrc Hh. induction fuel as [|f IH]; intros i t H; cbn [itree] in H; [discriminate|].
  destruct (iget h i) as [n| |] eqn:Eg; cbn [bind] in H; try discriminate.
  apply iget_kd in Eg. destruct Eg as (Ek & _ & Ec).
  destruct (map_res (itree f src h) (ich n)) as [kids| |] eqn:Em; cbn [bind] in H; try discriminate.
  assert (Hkids : forall a b, a = false -> b = false -> forallb (wf_node src a b) kids = true).
  { intros a b -> ->. apply forallb_forall. intros y Hy. destruct (map_res_in _ _ _ Em y Hy) as (x & _ & Hx). eapply IH. exact Hx. }
  pose proof (h_kind _ _ Hh i _ Ek) as Hko.
  destruct (ik n) as [|s0 soft hard raw| |lv|d ti|d ti|e sg|segs| |] eqn:Ekn; cbn [bind] in H.
  - inversion H; subst t. rewrite wf_node_node. rewrite Hkids by reflexivity. reflexivity.
  - inversion H; subst t. rewrite wf_node_node. rewrite Hkids by reflexivity. cbn in Hko. cbn. rewrite Hko. reflexivity.
  - inversion H; subst t. rewrite wf_node_node. rewrite Hkids by reflexivity. cbn.
    assert (Ht : forallb is_text_node kids = true).
    { apply forallb_forall. intros y Hy. destruct (map_res_in _ _ _ Em y Hy) as (x & Hx & Hxy).
      assert (Hxc : In x (ch h i)) by (rewrite Ec; exact Hx).
      pose proof (t_child _ (h_tree _ _ Hh) i x Hxc) as Hpx. apply pr_valid in Hpx. destruct (valid_kd h x Hpx) as [kx Ekx].
      eapply itree_text; [exact Hxy|exact Ekx|]. eapply (h_cs _ _ Hh i x kx); [exact Ek|exact Hxc|exact Ekx]. }
    rewrite Ht. reflexivity.
  - inversion H; subst t. rewrite wf_node_node. rewrite Hkids by reflexivity. reflexivity.
  - inversion H; subst t. rewrite wf_node_node. rewrite Hkids by reflexivity. cbn in Hko. destruct Hko as [Hd Ht].
    cbn. destruct ti as [ti|]; [rewrite Hd, (Ht ti eq_refl)|rewrite Hd]; reflexivity.
  - inversion H; subst t. rewrite wf_node_node. rewrite Hkids by reflexivity. cbn in Hko. destruct Hko as [Hd Ht].
    cbn. destruct ti as [ti|]; [rewrite Hd, (Ht ti eq_refl)|rewrite Hd]; reflexivity.
  - destruct (seg_value src sg) as [v| |] eqn:Ev; cbn [bind] in H; try discriminate.
    inversion H; subst t. rewrite wf_node_node. rewrite Hkids by reflexivity.
    pose proof (seg_value_bytes _ _ _ Hsrc Ev) as Hv. unfold bytes_ok in Hv. cbn. rewrite Hv. reflexivity.
  - inversion H; subst t. rewrite wf_node_node. rewrite Hkids by reflexivity. cbn in Hko. cbn. rewrite Hko. reflexivity.
  - inversion H; subst t. rewrite wf_node_node. rewrite Hkids by reflexivity. reflexivity.
  - inversion H; subst t. rewrite wf_node_node. rewrite Hkids by reflexivity. reflexivity.
Qed.

(* ---------- the theorems ---------- *)
(* inline_children_ok with the two hypotheses on the space table (see the header) *)
Theorem inline_children_ok_sp : forall refs src lines ts,
  bytes_ok src -> refs_ok refs -> lines_ok src lines ->
  IC refs src lines = Ok ts ->
  Forall (fun t => wf_node src false false t = true) ts.
Proof.
  intros refs src lines ts Hsrc Hrefs Hlines H. unfold inline_children in H.
  destruct (PB refs src lines) as [c| |] eqn:Ep; cbn [bind] in H; try discriminate.
  destruct (itree (S (length (i_h c))) src (i_h c) 0%nat) as [t| |] eqn:Et; cbn [bind] in H; try discriminate.
  inversion H; subst ts. clear H.
  destruct (parse_block_ok refs src lines c Hsrc Hrefs Hlines Ep) as (L & Hh & _).
  pose proof (itree_wf src (i_h c) Hsrc Hh _ _ _ Et) as Hwf.
  destruct t as [k l a kids]. rewrite wf_node_node in Hwf. apply andb_prop in Hwf. destruct Hwf as [_ Hkids].
  cbn [t_children]. apply Forall_forall. intros x Hx. rewrite forallb_forall in Hkids. specialize (Hkids x Hx).
  (* the root is not a table, header or row *)
  unfold itree in Et. destruct (iget (i_h c) 0) as [n| |]; cbn [bind] in Et; try discriminate.
  destruct (map_res _ _) as [ks| |]; cbn [bind] in Et; try discriminate.
  destruct (ik n); cbn [bind] in Et; try (inversion Et; subst; exact Hkids).
  destruct (seg_value src s) as [v| |]; cbn [bind] in Et; try discriminate. inversion Et; subst; exact Hkids.
Qed.

(* ---------- public inline kinds ---------- *)
Lemma all_kinds_node p k l a kids : all_kinds p (Node k l a kids) = p k && forallb (all_kinds p) kids.
Proof.
  cbn [all_kinds]. f_equal.
Qed.

(* a tree whose nodes with a parent are neither block, delimiter nor label state nodes *)
Lemma itree_kinds src h : (forall x p, pr h x = Some p -> nkey h x) -> tree_ok h ->
  forall fuel i t, itree fuel src h i = Ok t -> forallb (all_kinds inline_kind) (t_children t) = true /\
                   (nkey h i -> all_kinds inline_kind t = true).
Proof.
  intros Hnk Ht. induction fuel as [|f IH]; intros i t H; cbn [itree] in H; [discriminate|].
  destruct (iget h i) as [n| |] eqn:Eg; cbn [bind] in H; try discriminate.
  apply iget_kd in Eg. destruct Eg as (Ek & _ & Ec).
  destruct (map_res (itree f src h) (ich n)) as [kids| |] eqn:Em; cbn [bind] in H; try discriminate.
  assert (Hkids : forallb (all_kinds inline_kind) kids = true).
  { apply forallb_forall. intros y Hy. destruct (map_res_in _ _ _ Em y Hy) as (x & Hx & Hxy).
    apply (proj2 (IH x y Hxy)). apply (Hnk x i). apply (t_child h Ht). rewrite Ec. exact Hx. }
  assert (Hfin : forall k, Ok (Node k [] None kids) = Ok t -> (nkey h i -> inline_kind k = true) ->
            forallb (all_kinds inline_kind) (t_children t) = true /\ (nkey h i -> all_kinds inline_kind t = true)).
  { intros k E Hk. inversion E; subst t. cbn [t_children]. split; [exact Hkids|]. intros Hn. rewrite all_kinds_node, (Hk Hn), Hkids. reflexivity. }
  unfold nkey, kcls in Hfin |- *. rewrite Ek in Hfin |- *.
  destruct (ik n) as [|s0 soft hard raw| |lv|d ti|d ti|e sg|segs| |]; cbn [bind cls] in H, Hfin |- *;
    try (apply (Hfin _ H); intros; try reflexivity; lia).
  destruct (seg_value src sg) as [v| |]; cbn [bind] in H; try discriminate. apply (Hfin _ H). reflexivity.
Qed.

(* linkParser.CloseBlock turns every remaining label state into text *)
Lemma close_labels_k src : forall fuel c cur c' L LL, close_labels fuel c cur = Ok c' -> ctx_ok src [] c L ->
  ginv (i_h c) -> lchain c LL -> latt (i_h c) LL [] -> cur = nxt_of LL None ->
  ginv (i_h c') /\ latt (i_h c') [] [].
Proof.
  induction fuel as [|f IH]; intros c cur c' L LL H Hc Hg Hlc Hla Hcur; cbn [close_labels] in H; [discriminate|].
  destruct LL as [|x LL']; cbn [nxt_of] in Hcur; subst cur.
  { inversion H; subst c'. split; assumption. }
  destruct (lget (i_h c) x) as [[[[[[sg im] p] nx] fs] ls]| |] eqn:El; cbn [bind] in H; try discriminate.
  destruct (lget_lab _ _ _ _ _ _ _ _ El) as [Hpn _]. apply lget_view in El.
  pose proof (lc_seg _ _ Hlc) as Hseg. cbn [lseg] in Hseg. destruct Hseg as [Hx _]. rewrite Hx in Hpn. inversion Hpn; subst p nx. clear Hpn.
  pose proof (h_kind _ _ (proj1 Hc) x _ El) as Hsg. cbn in Hsg.
  pose proof (h_tree _ _ (proj1 Hc)) as Ht.
  destruct (remove_label c x) as [c1| |] eqn:Er; cbn [bind] in H; try discriminate.
  destruct (remove_label_nstep src _ _ _ Er [] L Hc) as [Hc1 Hk1].
  destruct (remove_label_head_k _ _ _ _ Er Hlc) as (Hlc1 & S1 & _).
  pose proof (ginv_lstep _ _ Hg S1 Ht) as Hg1.
  assert (Hla1 : latt (i_h c1) LL' [x]).
  { eapply latt_weaken; [eapply latt_lstep; eassumption|]. intros y [[<-|Hy]|[]]; cbn; auto. }
  destruct (iget (i_h c1) x) as [n| |] eqn:Eg; cbn [bind] in H; try discriminate.
  apply iget_kd in Eg. destruct Eg as (_ & Epx & _).
  destruct (ipar n) as [par|] eqn:Epar; [|discriminate].
  destruct (new_inode c1 (mk_text sg)) as [c2 t] eqn:En.
  destruct (i_replace (i_h c2) par x t) as [h| |] eqn:Erp; cbn [bind] in H; try discriminate.
  destruct (ctx_new src _ _ _ _ _ _ En Hsg Hc1) as (Hc2 & Hk2 & _ & Kt & _ & _ & _ & Htl & _).
  pose proof (h_tree _ _ (proj1 Hc1)) as Ht1.
  destruct (gstep_new _ _ _ _ En (plain_text _ _ _ _) Ht1) as (G2 & _ & _ & Ht2 & _ & Pt & _ & _ & C2 & P2 & _).
  destruct (new_inode_view _ _ _ _ En) as (_ & _ & _ & _ & F3 & _).
  destruct (i_replace_spec _ _ _ _ _ Erp (h_tree _ _ (proj1 Hc2))) as (h1 & Hat & Hrem).
  { assert (Hxv : (x < length (i_h c1))%nat) by (eapply pr_valid; exact Epx). lia. }
  destruct (ctx_attach src _ _ _ _ _ _ Hc2 Hat) as [Hc3 Hk3].
  { eapply text_edge. exact Kt. }
  { left. eapply kd_dlk_none; [exact Kt|cbn; lia]. }
  assert (Hc4 : ctx_ok src [] (cx_h c2 h) L).
  { destruct Hrem as [[_ Hdet]|[_ ->]].
    - destruct (ctx_detach src _ _ _ _ _ Hc3 Hdet) as [X _]. exact X.
    - exact Hc3. }
  pose proof (t_par _ Ht1 x par Epx) as Hin. destruct (in_split x _ Hin) as (X & Y & Hsp).
  pose proof (ginv_pos _ Hg1) as H01.
  destruct (gstep_replace _ _ _ _ _ X Y Erp Ht2) as (G3 & _ & _ & _ & _ & P3).
  { rewrite P2. exact Epx. }
  { exact Pt. }
  { lia. }
  { apply nkey_iskey. eapply nkey_kd; [exact Kt|apply plain_text]. }
  { rewrite C2. exact Hsp. }
  assert (G13 : gstep (i_h c1) h) by (eapply gstep_trans; eassumption).
  eapply (IH (cx_h c2 h) (nxt_of LL' None) c' L LL' H Hc4); cbn [i_h cx_h].
  - eapply ginv_gstep; eassumption.
  - eapply (lchain_gstep c1 (cx_h c2 h)); [exact Hlc1|exact F3|exact G13].
  - eapply latt_drop; [eapply latt_gstep; eassumption|]. rewrite P3, Nat.eqb_refl. reflexivity.
  - reflexivity.
Qed.

Lemma hinv_init : hinv init_ictx [] /\ dch (i_h init_ictx) = [].
Proof.
  split; [|reflexivity]. constructor.
  - constructor.
    + reflexivity.
    + intros x Hx. destruct x as [|x]; [reflexivity|]. unfold kcls, kd, init_ictx in Hx. cbn in Hx. destruct x; discriminate.
    + reflexivity.
    + exact I.
  - constructor; cbn; auto; [constructor|intros x Ex; discriminate].
  - intros x Hx _. unfold islab, kcls, kd, init_ictx in Hx. cbn in Hx. destruct x as [|[|x]]; discriminate.
  - constructor.
Qed.

(* after parseBlock no node with a parent is a block node, a delimiter or a label state *)
Lemma parse_block_kinds refs src lines c : bytes_ok src -> refs_ok refs -> lines_ok src lines ->
  PB refs src lines = Ok c -> tree_ok (i_h c) /\ forall x p, pr (i_h c) x = Some p -> nkey (i_h c) x.
Proof.
  intros Hsrc Hrefs Hlines H. unfold parse_block in H.
  destruct (new_block_reader src lines) as [r| |] eqn:En; cbn [bind] in H; try discriminate.
  destruct (LOOP refs _ _ 0%nat false) as [s| |] eqn:El; cbn [bind] in H; try discriminate.
  destruct (init_ok src) as [Hc0 Hp0]. destruct hinv_init as [Hi0 HS0].
  assert (H1 : exists L1 LL1, ctx_ok src [] (t_c s) L1 /\ hinv (t_c s) LL1 /\ dch (i_h (t_c s)) = L1).
  { destruct lines as [|l0 lines'].
    - apply new_block_reader_nil in En. apply parse_block_loop_out in El; [|exact En].
      rewrite El. exists [], []. auto.
    - pose proof (ri_new _ _ _ Hlines ltac:(discriminate) En) as Hr.
      destruct (parse_block_loop_k space_table punct_table norm url_table email_table re_email_domain re_open_tag re_close_tag
                  punct_rune space_rune refs src (l0 :: lines') Hsp32 Hsp10 Hsrc Hrefs _ _ _ _ [] [] El) as (L1 & LL1 & [Hc1 _] & _ & Hi1 & HS1).
      { split; [exact Hc0|exact Hr]. }
      { exact Hi0. }
      { exact HS0. }
      exists L1, LL1. auto. }
  destruct H1 as (L1 & LL1 & Hc1 & Hi1 & HS1).
  destruct (process_delimiters (ifuel s) (t_c s) BNil) as [c2| |] eqn:Ep; cbn [bind] in H; try discriminate.
  destruct (process_delimiters_k src _ _ _ _ _ Ep Hc1 HS1 (gi_incr _ (hi_g _ _ Hi1)) (gi_rootp _ (hi_g _ _ Hi1)))
    as (L2 & Hc2 & _ & G2 & Fl2 & Fb2 & Hbel); [intros b0 E; discriminate|].
  assert (L2 = []).
  { destruct L2 as [|d L2]; [reflexivity|]. destruct (Hbel d ltac:(cbn; auto)) as (b0 & E & _). discriminate. }
  subst L2.
  pose proof (hinv_gstep _ _ _ Hi1 G2 Fl2 Fb2) as Hi2.
  pose proof (link_close_block_ok src _ _ _ H Hc2) as Hc3.
  unfold link_close_block in H.
  destruct (nstep_fields src c2 (cx_bottoms c2 []) eq_refl eq_refl eq_refl [] [] Hc2) as [Hc2' _].
  destruct (close_labels_k src _ _ _ _ [] LL1 H Hc2') as [Hg3 Hla3]; cbn [i_h cx_bottoms i_labels].
  - exact (hi_g _ _ Hi2).
  - eapply lchain_frame; [exact (hi_lc _ _ Hi2)|reflexivity|reflexivity].
  - exact (hi_la _ _ Hi2).
  - exact (lc_head _ _ (hi_lc _ _ Hi2)).
  - pose proof (h_tree _ _ (proj1 Hc3)) as Ht3. split; [exact Ht3|]. intros x p Hp. unfold nkey. repeat split.
    + intros E. apply (gi_root1 _ Hg3) in E. subst x. rewrite (gi_rootp _ Hg3) in Hp. discriminate.
    + intros E. assert (Hd : isdel (i_h c) x = true) by (unfold isdel; rewrite E; reflexivity).
      apply isdel_dlk in Hd. exact (dl_att _ _ _ (proj2 Hc3) p x (t_par _ Ht3 x p Hp) Hd).
    + intros E. assert (Hl : islab (i_h c) x = true) by (unfold islab; rewrite E; reflexivity).
      destruct (Hla3 x Hl ltac:(congruence)) as [[]|[]].
Qed.

(* no delimiter, link label state or other bookkeeping node is left in the tree
   (inline_children_public_kinds with the two hypotheses on the space table, see the header) *)
Theorem inline_children_public_kinds_sp : forall refs src lines ts,
  bytes_ok src -> refs_ok refs -> lines_ok src lines ->
  IC refs src lines = Ok ts ->
  Forall (fun t => all_kinds inline_kind t = true) ts.
Proof.
  intros refs src lines ts Hsrc Hrefs Hlines H. unfold inline_children in H.
  destruct (PB refs src lines) as [c| |] eqn:Ep; cbn [bind] in H; try discriminate.
  destruct (itree (S (length (i_h c))) src (i_h c) 0%nat) as [t| |] eqn:Et; cbn [bind] in H; try discriminate.
  inversion H; subst ts. clear H.
  destruct (parse_block_kinds refs src lines c Hsrc Hrefs Hlines Ep) as [Ht Hnk].
  destruct (itree_kinds src (i_h c) Hnk Ht _ _ _ Et) as [Hk _].
  apply Forall_forall. intros x Hx. rewrite forallb_forall in Hk. exact (Hk x Hx).
Qed.

(* UNPROVED (original statement, false for an arbitrary space table; see the header):
Theorem inline_children_ok : forall refs src lines ts,
  bytes_ok src -> refs_ok refs -> lines_ok src lines ->
  IC refs src lines = Ok ts ->
  Forall (fun t => wf_node src false false t = true) ts.
*)
(* NOT PROVED IN THIS FORM (original statement, for an arbitrary space table; proved above with the two
   hypotheses on the space table as inline_children_public_kinds_sp: the proof goes through the
   invariant of the first theorem, which needs them; whether the statement holds without them is open):
Theorem inline_children_public_kinds : forall refs src lines ts,
  bytes_ok src -> refs_ok refs -> lines_ok src lines ->
  IC refs src lines = Ok ts ->
  Forall (fun t => all_kinds inline_kind t = true) ts.
*)

End S.

(* the inline phase of the parser model with the regenerated tables (model/ParseI.v): the space
   table regenerated from util.IsSpace classes 32 and 10 as spaces, by computation *)
Require GM.gen.Tables GM.model.ParseI.

Theorem InlineChildren_ok : forall refs src lines ts,
  bytes_ok src -> refs_ok refs -> lines_ok src lines ->
  GM.model.ParseI.InlineChildren refs src lines = Ok ts ->
  Forall (fun t => wf_node src false false t = true) ts.
Proof.
  unfold GM.model.ParseI.InlineChildren. apply inline_children_ok_sp; vm_compute; reflexivity.
Qed.

Theorem InlineChildren_public_kinds : forall refs src lines ts,
  bytes_ok src -> refs_ok refs -> lines_ok src lines ->
  GM.model.ParseI.InlineChildren refs src lines = Ok ts ->
  Forall (fun t => all_kinds inline_kind t = true) ts.
Proof.
  unfold GM.model.ParseI.InlineChildren. apply inline_children_public_kinds_sp; vm_compute; reflexivity.
Qed.
