(* Helper file for ParseInlineRange.v (public inline kinds): ClearDelimiters and ProcessDelimiters keep
   the delimiter list of the parse context equal to the list of the delimiter children of the block
   node, in the same order; after ClearDelimiters(bottom) every remaining delimiter is at or before the
   bottom. *)
Require Import GM.model.Base GM.model.Util GM.model.Reader GM.model.HtmlSpec GM.model.BlockParse GM.model.InlineParse.
Require Import GM.proofs.ParseInlineRangeHeap GM.proofs.ParseInlineRangeKList GM.proofs.ParseInlineRangeKStep.
From Coq Require Import ZArith Lia List Bool.
Import ListNotations.
Open Scope Z_scope.

(* ---------- lists ---------- *)
Lemma filter_split (f : nat -> bool) a : forall R A B, filter f R = A ++ a :: B ->
  exists X Y, R = X ++ a :: Y /\ filter f X = A /\ filter f Y = B.
Proof.
  induction R as [|r R IH]; intros A B H; cbn in H; [destruct A; discriminate|].
  destruct (f r) eqn:Er.
  - destruct A as [|a0 A]; cbn in H.
    + injection H as E1 E2. subst r. exists [], R. cbn. auto.
    + injection H as E1 E2. subst r. destruct (IH A B E2) as (X & Y & -> & HX & HY).
      exists (a0 :: X), Y. cbn. rewrite Er, HX. auto.
  - destruct (IH A B H) as (X & Y & -> & HX & HY). exists (r :: X), Y. cbn. rewrite Er. auto.
Qed.

Lemma filter_nil_forall (f : nat -> bool) l : filter f l = [] -> forall y, In y l -> f y = false.
Proof.
  induction l as [|a l IH]; cbn; intros H y Hy; [destruct Hy|]. destruct (f a) eqn:Ea; [discriminate|].
  destruct Hy as [<-|Hy]; [exact Ea|apply IH; assumption].
Qed.

Lemma forall_filter_nil (f : nat -> bool) l : (forall y, In y l -> f y = false) -> filter f l = [].
Proof. apply filter_all_false. Qed.

Lemma incr_app_gt X a Y : incr (X ++ a :: Y) -> forall y, In y X -> (y < a)%nat.
Proof.
  induction X as [|x X IH]; cbn; intros H y Hy; [destruct Hy|]. destruct H as [H1 H2].
  destruct Hy as [<-|Hy]; [apply H1; rewrite in_app_iff; cbn; auto|apply IH; assumption].
Qed.

Fixpoint tk (stop : option nat) (T : list nat) : list nat :=
  match T with [] => [] | x :: T' => if opt_nat_eqb (Some x) stop then [] else x :: tk stop T' end.
Fixpoint dr (stop : option nat) (T : list nat) : list nat :=
  match T with [] => [] | x :: T' => if opt_nat_eqb (Some x) stop then T else dr stop T' end.

Lemma tk_none T : tk None T = T /\ dr None T = [].
Proof. induction T as [|x T [IH1 IH2]]; cbn; [auto|]. rewrite IH1, IH2. auto. Qed.

Lemma tk_mid cl M Y : ~ In cl M -> tk (Some cl) (M ++ cl :: Y) = M /\ dr (Some cl) (M ++ cl :: Y) = cl :: Y.
Proof.
  induction M as [|m M IH]; cbn; intros H.
  - rewrite Nat.eqb_refl. auto.
  - destruct (Nat.eqb_spec m cl) as [->|Hne]; [exfalso; apply H; auto|].
    assert (Hc : ~ In cl M) by (intros Hc; apply H; auto).
    destruct (IH Hc) as [IH1 IH2]. rewrite IH1, IH2. auto.
Qed.

(* ---------- moving a run of siblings below another node ---------- *)
Lemma move_children_k : forall fuel h T X p stop node h',
  move_children fuel h (hd_error T) stop node = Ok h' ->
  tree_ok h -> ch h p = X ++ T -> p <> node -> node <> 0%nat -> pr h 0%nat = None ->
  gstep h h' /\ tree_ok h' /\ same_nodes h h' /\
  ch h' p = X ++ dr stop T /\ ch h' node = ch h node ++ tk stop T /\
  (forall j, j <> p -> j <> node -> ch h' j = ch h j) /\
  (forall x, In x (tk stop T) -> pr h' x = Some node) /\ (forall x, ~ In x (tk stop T) -> pr h' x = pr h x).
Proof.
  induction fuel as [|f IH]; intros h T X p stop node h' H Ht Hc Hpn Hn0 Hr0; cbn [move_children] in H; [discriminate|].
  destruct T as [|x T']; cbn [hd_error] in H.
  { inversion H; subst h'. cbn [tk dr]. rewrite !app_nil_r. split; [apply gstep_refl|]. split; [exact Ht|].
    split; [constructor; reflexivity|]. split; [rewrite Hc, app_nil_r; reflexivity|]. split; [reflexivity|]. split; [reflexivity|]. split; [intros x []|reflexivity]. }
  cbn [tk dr]. destruct (opt_nat_eqb (Some x) stop) eqn:Es.
  { inversion H; subst h'. rewrite !app_nil_r. split; [apply gstep_refl|]. split; [exact Ht|].
    split; [constructor; reflexivity|]. split; [exact Hc|]. split; [reflexivity|]. split; [reflexivity|]. split; [intros y []|reflexivity]. }
  destruct (i_next h x) as [nx| |] eqn:En; cbn [bind] in H; try discriminate.
  destruct (i_append h node x) as [h1| |] eqn:Ea; cbn [bind] in H; try discriminate.
  pose proof (t_nodup h Ht p) as ND. rewrite Hc in ND.
  assert (HxX : ~ In x X) by (apply NoDup_remove_2 in ND; rewrite in_app_iff in ND; tauto).
  assert (HxT : ~ In x T') by (apply NoDup_remove_2 in ND; rewrite in_app_iff in ND; tauto).
  assert (Hpx : pr h x = Some p). { apply (t_child h Ht). rewrite Hc, in_app_iff. cbn. auto. }
  assert (Hnx : nx = hd_error T').
  { unfold i_next in En. destruct (iget h x) as [n| |] eqn:E; cbn [bind] in En; try discriminate.
    apply iget_kd in E. destruct E as (_ & Ep & _). rewrite <- Ep, Hpx in En.
    destruct (iget h p) as [pn| |] eqn:E2; cbn [bind] in En; try discriminate.
    apply iget_kd in E2. destruct E2 as (_ & _ & Ec). rewrite <- Ec, Hc in En. inversion En. apply next_in_mid. exact HxX. }
  subst nx.
  destruct (append_ch h node x h1 Ea Ht) as (Ht1 & S1 & Vn & Vx & C1 & P1).
  pose proof (append_ord h node x h1 Ea Ht) as Ho.
  assert (Hx0 : x <> 0%nat) by congruence.
  destruct (gstep_attach _ _ _ _ Ho Ht Hx0) as (G1 & _); [intros _; split; [congruence|exact Hn0]|].
  assert (Hc1 : ch h1 p = X ++ T').
  { rewrite C1. destruct (Nat.eqb_spec p node); [contradiction|]. rewrite Hc. apply remove_id_mid. exact HxX. }
  assert (Hxn : ~ In x (ch h node)) by (apply notin_other_parent; [exact Ht|congruence]).
  destruct (IH h1 T' X p stop node h' H Ht1 Hc1 Hpn Hn0) as (G2 & Ht2 & S2 & Cp & Cn & Cj & Pi & Po).
  { rewrite P1. destruct (Nat.eqb_spec 0 x); [congruence|exact Hr0]. }
  split; [eapply gstep_trans; eassumption|]. split; [exact Ht2|]. split.
  { destruct S1 as [L1 K1]. destruct S2 as [L2 K2]. constructor; [congruence|]. intros j. rewrite K2. apply K1. }
  split; [exact Cp|]. split.
  { rewrite Cn, C1, Nat.eqb_refl, (remove_id_notin x _ Hxn), <- app_assoc. reflexivity. }
  split.
  { intros j Hj1 Hj2. rewrite (Cj j Hj1 Hj2), C1. destruct (Nat.eqb_spec j node); [contradiction|].
    apply remove_id_notin. apply notin_other_parent; [exact Ht|]. congruence. }
  split.
  - intros y [<-|Hy]; [|apply Pi; exact Hy].
    destruct (in_dec Nat.eq_dec x (tk stop T')) as [Hin|Hnin]; [apply Pi; exact Hin|].
    rewrite (Po x Hnin), P1, Nat.eqb_refl. reflexivity.
  - intros y Hy. cbn in Hy. rewrite Po by tauto. rewrite P1. destruct (Nat.eqb_spec y x) as [->|]; [exfalso; apply Hy; auto|reflexivity].
Qed.

(* ---------- ClearDelimiters ---------- *)
Definition below (b : bottom) (L : list nat) : Prop :=
  forall d, In d L -> exists b0, b = BPtr (Some b0) /\ (d <= b0)%nat.

Lemma isdel_kle h h' y : kle h h' -> (y < length h)%nat -> isdel h' y = isdel h y.
Proof. intros Hk Hy. unfold isdel. rewrite (kle_kcls h h' y Hk Hy). reflexivity. Qed.

Lemma isdel_valid h y : isdel h y = true -> (y < length h)%nat.
Proof.
  unfold isdel, kcls. destruct (kd h y) as [k|] eqn:E; [intros _; eapply kd_valid; exact E|cbn; discriminate].
Qed.

Lemma i_prev_root h x X Y : tree_ok h -> rch h = X ++ x :: Y -> i_prev h x = Ok (last_error X) \/ exists e, i_prev h x = e /\ (e = Panic \/ e = OutOfFuel).
Proof.
  intros Ht Hr. unfold i_prev.
  assert (Hp : pr h x = Some 0%nat). { apply (t_child h Ht). fold (rch h). rewrite Hr, in_app_iff. cbn. auto. }
  destruct (iget h x) as [n| |] eqn:E; cbn [bind]; [|right; eauto|right; eauto].
  apply iget_kd in E. destruct E as (_ & Ep & _). rewrite <- Ep, Hp.
  destruct (iget h 0%nat) as [pn| |] eqn:E0; cbn [bind]; [|right; eauto|right; eauto].
  apply iget_kd in E0. destruct E0 as (_ & _ & Ec). left. f_equal. rewrite <- Ec. fold (rch h). rewrite Hr.
  rewrite prev_in_mid.
  - destruct (last_error X); reflexivity.
  - pose proof (t_nodup h Ht 0%nat) as ND. fold (rch h) in ND. rewrite Hr in ND. apply NoDup_remove_2 in ND. rewrite in_app_iff in ND. tauto.
Qed.

Lemma clear_loop_k src : forall fuel c cur b c' L P Y,
  clear_loop fuel c cur b = Ok c' -> ctx_ok src [] c L -> dch (i_h c) = L -> incr (K (i_h c)) ->
  rch (i_h c) = P ++ Y -> cur = last_error P -> (forall y, In y Y -> isdel (i_h c) y = false) ->
  (forall b0, b = BPtr (Some b0) -> isdel (i_h c) b0 = true) ->
  exists L', ctx_ok src [] c' L' /\ dch (i_h c') = L' /\ gstep (i_h c) (i_h c') /\
             i_labels c' = i_labels c /\ i_bottoms c' = i_bottoms c /\ below b L'.
Proof.
  induction fuel as [|f IH]; intros c cur b c' L P Y H Hc HS HK Hr Hcur HY Hb; cbn [clear_loop] in H; [discriminate|].
  pose proof (h_tree _ _ (proj1 Hc)) as Ht.
  destruct (last_error_cases P) as [[-> E]|(X & x & -> & E)]; rewrite E in Hcur; subst cur.
  { inversion H; subst c'. exists L. split; [exact Hc|]. split; [exact HS|]. split; [apply gstep_refl|]. split; [reflexivity|].
    split; [reflexivity|]. intros d Hd. exfalso. rewrite <- HS in Hd. unfold dch in Hd. rewrite Hr in Hd. cbn [app] in Hd.
    apply filter_In in Hd. destruct Hd as [Hin Hd]. rewrite (HY d Hin) in Hd. discriminate. }
  rewrite <- app_assoc in Hr. cbn [app] in Hr.
  assert (HxX : ~ In x X).
  { pose proof (t_nodup _ Ht 0%nat) as ND. fold (rch (i_h c)) in ND. rewrite Hr in ND. apply NoDup_remove_2 in ND. rewrite in_app_iff in ND. tauto. }
  destruct (is_bottom b x) eqn:Eb.
  { inversion H; subst c'. exists L. split; [exact Hc|]. split; [exact HS|]. split; [apply gstep_refl|]. split; [reflexivity|].
    split; [reflexivity|]. destruct b as [|[b0|]]; cbn in Eb; try discriminate. apply Nat.eqb_eq in Eb. subst b0.
    pose proof (Hb x eq_refl) as Hxd.
    intros d Hd. exists x. split; [reflexivity|]. rewrite <- HS in Hd. unfold dch in Hd. rewrite Hr in Hd.
    rewrite filter_app in Hd. cbn [filter] in Hd. rewrite Hxd in Hd. rewrite in_app_iff in Hd. cbn [In] in Hd.
    destruct Hd as [Hd|[<-|Hd]]; [|lia|].
    - apply Nat.lt_le_incl. unfold K in HK. rewrite Hr, filter_app in HK. cbn [filter] in HK.
      assert (Hxk : iskey (i_h c) x = true) by (unfold iskey; rewrite Hxd; reflexivity). rewrite Hxk in HK.
      eapply incr_app_gt; [exact HK|]. apply filter_In in Hd. apply filter_In. destruct Hd as [Hin Hdd].
      split; [exact Hin|]. unfold iskey. rewrite Hdd. reflexivity.
    - exfalso. apply filter_In in Hd. destruct Hd as [Hin Hdd]. rewrite (HY d Hin) in Hdd. discriminate. }
  destruct (i_prev_root _ x X Y Ht Hr) as [Ep|(e & Ep & [->| ->])]; rewrite Ep in H; cbn [bind] in H; try discriminate.
  destruct (is_delim (i_h c) x) as [isd| |] eqn:Ed; cbn [bind] in H; try discriminate.
  apply is_delim_dlk in Ed.
  destruct isd.
  - assert (Hxd : isdel (i_h c) x = true) by (apply isdel_dlk; apply Ed; reflexivity).
    destruct (remove_delimiter c x) as [c1| |] eqn:Er; cbn [bind] in H; try discriminate.
    assert (HxL : In x L).
    { rewrite <- HS. unfold dch. apply filter_In. split; [|exact Hxd]. rewrite Hr, in_app_iff. cbn. auto. }
    destruct (in_split x L HxL) as (A & B & ->). destruct Hc as [Hh Hd].
    destruct (remove_delimiter_ok src [] c A x B c1 Er Hh Hd) as (Hh1 & Hk1 & Fl & Fb & Hd1 & _).
    specialize (Hd1 [] ltac:(intros ? [])).
    destruct (remove_delimiter_g [] c A x B c1 Er Ht Hd) as (G1 & Ht1 & _ & (par & Hpar & Cj & Cp) & _).
    assert (Hp0 : pr (i_h c) x = Some 0%nat). { apply (t_child _ Ht). fold (rch (i_h c)). rewrite Hr, in_app_iff. cbn. auto. }
    rewrite Hp0 in Hpar. inversion Hpar; subst par.
    destruct (splice_K _ _ x 0%nat Ht G1 Hp0 Cj Cp) as [_ ED].
    destruct (Cp X Y Hr) as (T & HT & HTn).
    assert (HS1 : dch (i_h c1) = A ++ B).
    { rewrite ED, HS. apply remove_id_mid. pose proof (dl_nodup _ _ _ Hd) as ND. apply NoDup_remove_2 in ND. rewrite in_app_iff in ND. tauto. }
    destruct (IH c1 (last_error X) b c' (A ++ B) X (T ++ Y) H (conj Hh1 Hd1) HS1 (g_incr _ _ G1 HK) HT eq_refl)
      as (L' & Hc' & HS' & G' & Fl' & Fb' & Hbel).
    { intros y Hy. rewrite in_app_iff in Hy. destruct Hy as [Hy|Hy].
      - pose proof (nkey_iskey _ _ (HTn y Hy)) as Hk. unfold iskey in Hk. apply orb_false_iff in Hk. tauto.
      - rewrite (isdel_kle _ _ y Hk1); [apply HY; exact Hy|]. apply (rch_valid _ y Ht). rewrite Hr, in_app_iff. cbn. auto. }
    { intros b0 Eb0. rewrite (isdel_kle _ _ b0 Hk1); [apply Hb; exact Eb0|]. apply isdel_valid. apply Hb. exact Eb0. }
    exists L'. split; [exact Hc'|]. split; [exact HS'|]. split; [eapply gstep_trans; eassumption|]. split; [congruence|]. split; [congruence|exact Hbel].
  - cbn [bind] in H.
    assert (Hxd : isdel (i_h c) x = false).
    { destruct (isdel (i_h c) x) eqn:E'; [|reflexivity]. apply isdel_dlk in E'. apply Ed in E'. discriminate. }
    apply (IH c (last_error X) b c' L X (x :: Y) H Hc HS HK Hr eq_refl); [|exact Hb].
    intros y [<-|Hy]; [exact Hxd|apply HY; exact Hy].
Qed.

Lemma filter_last_split (f : nat -> bool) R L0 l : filter f R = L0 ++ [l] ->
  exists X Y, R = (X ++ [l]) ++ Y /\ forall y, In y Y -> f y = false.
Proof.
  intros H. destruct (filter_split f l R L0 [] H) as (X & Y & -> & _ & HY).
  exists X, Y. split; [rewrite <- app_assoc; reflexivity|]. apply filter_nil_forall. exact HY.
Qed.

Lemma clear_delimiters_k src c b c' L : clear_delimiters c b = Ok c' -> ctx_ok src [] c L ->
  dch (i_h c) = L -> incr (K (i_h c)) -> (forall b0, b = BPtr (Some b0) -> isdel (i_h c) b0 = true) ->
  exists L', ctx_ok src [] c' L' /\ dch (i_h c') = L' /\ gstep (i_h c) (i_h c') /\
             i_labels c' = i_labels c /\ i_bottoms c' = i_bottoms c /\ below b L'.
Proof.
  unfold clear_delimiters. intros H Hc HS HK Hb. destruct (i_dlast c) as [l|] eqn:El.
  - destruct Hc as [Hh Hd]. pose proof (dl_last _ _ _ Hd) as Hl. rewrite El in Hl. symmetry in Hl.
    assert (Hne : L <> []) by (intros ->; cbn in Hl; discriminate).
    destruct (lst_of_snoc L None l Hl Hne) as [L0 ->].
    unfold dch in HS. destruct (filter_last_split _ _ _ _ HS) as (X & Y & Hr & HY).
    eapply (clear_loop_k src _ c (Some l) b c' (L0 ++ [l]) (X ++ [l]) Y H (conj Hh Hd)); try eassumption.
    rewrite last_error_snoc. reflexivity.
  - inversion H; subst c'. exists L. split; [exact Hc|]. split; [exact HS|]. split; [apply gstep_refl|]. split; [reflexivity|].
    split; [reflexivity|]. destruct Hc as [_ Hd]. pose proof (dl_last _ _ _ Hd) as Hl. rewrite El in Hl.
    destruct L as [|a L]; [intros d []|]. exfalso. destruct (lst_of_some (a :: L) None) as [l Hl']; [discriminate|]. congruence.
Qed.

(* ---------- ProcessDelimiters ---------- *)
Lemma i_next_root h x X Y r : tree_ok h -> rch h = X ++ x :: Y -> i_next h x = Ok r -> r = hd_error Y.
Proof.
  intros Ht Hr H. unfold i_next in H.
  assert (Hp : pr h x = Some 0%nat). { apply (t_child h Ht). fold (rch h). rewrite Hr, in_app_iff. cbn. auto. }
  destruct (iget h x) as [n| |] eqn:E; cbn [bind] in H; try discriminate.
  apply iget_kd in E. destruct E as (_ & Ep & _). rewrite <- Ep, Hp in H.
  destruct (iget h 0%nat) as [pn| |] eqn:E0; cbn [bind] in H; try discriminate.
  apply iget_kd in E0. destruct E0 as (_ & _ & Ec). inversion H. rewrite <- Ec. fold (rch h). rewrite Hr.
  apply next_in_mid.
  pose proof (t_nodup h Ht 0%nat) as ND. fold (rch h) in ND. rewrite Hr in ND. apply NoDup_remove_2 in ND. rewrite in_app_iff in ND. tauto.
Qed.

Lemma remove_between_k src E : forall fuel c cur cl c' A M B, remove_between fuel c cur cl = Ok c' ->
  ctx_ok src E c (A ++ M ++ cl :: B) -> cur = nxt_of M (Some cl) ->
  (forall m, In m M -> exists par, pr (i_h c) m = Some par /\ par <> 0%nat) ->
  gstep (i_h c) (i_h c') /\ rch (i_h c') = rch (i_h c).
Proof.
  induction fuel as [|f IH]; intros c cur cl c' A M B H Hc Hcur HM; cbn [remove_between] in H; [discriminate|].
  destruct M as [|x M'].
  - cbn in Hcur. subst cur. rewrite Nat.eqb_refl in H. inversion H; subst c'. split; [apply gstep_refl|reflexivity].
  - cbn in Hcur. subst cur. destruct Hc as [Hh Hd]. pose proof (h_tree _ _ Hh) as Ht.
    assert (Hxc : x <> cl).
    { intros ->. pose proof (dl_nodup _ _ _ Hd) as ND. apply nodup_app_r in ND. cbn in ND. inversion ND as [|? ? Hx _]; subst.
      apply Hx. rewrite in_app_iff. cbn. auto. }
    destruct (Nat.eqb_spec x cl); [contradiction|].
    destruct (dget (i_h c) x) as [[[[[[[[sg xo] xc] len] orig] chh] p] nx]| |] eqn:Eg; cbn [bind] in H; try discriminate.
    destruct (remove_delimiter c x) as [c1| |] eqn:Er; cbn [bind] in H; try discriminate.
    destruct (dget_dlk _ _ _ _ _ _ _ _ _ _ Eg) as [Hdl _].
    cbn [app] in Hd. pose proof (dseg_mid _ _ _ _ _ _ (dl_chain _ _ _ Hd)) as Hm. rewrite Hm in Hdl.
    inversion Hdl as [[Hp Hnx]].
    destruct (remove_delimiter_ok src E c A x (M' ++ cl :: B) c1 Er Hh Hd) as (Hh1 & Hk1 & Fl & Fb & Hd1 & _).
    specialize (Hd1 E ltac:(auto)).
    destruct (remove_delimiter_g E c A x (M' ++ cl :: B) c1 Er Ht Hd) as (G1 & Ht1 & _ & (par & Hpar & Cj & _) & Po & _).
    destruct (HM x ltac:(cbn; auto)) as (par' & Hpar' & Hne0). rewrite Hpar in Hpar'. inversion Hpar'; subst par'.
    destruct (IH c1 nx cl c' A M' B H (conj Hh1 Hd1)) as (G2 & R2).
    { rewrite <- Hnx. destruct M'; reflexivity. }
    { intros m Hm'. destruct (HM m ltac:(cbn; auto)) as (pm & Hpm & Hpm0). exists pm. split; [|exact Hpm0].
      rewrite Po; [exact Hpm| |eapply pr_valid; exact Hpm].
      intros ->. pose proof (dl_nodup _ _ _ Hd) as ND. apply nodup_app_r in ND. inversion ND as [|? ? Hx _]; subst.
      apply Hx. rewrite in_app_iff. auto. }
    split; [eapply gstep_trans; eassumption|]. rewrite R2. unfold rch. apply Cj. auto.
Qed.

Lemma consume_chars_g src h d n h' len : consume_chars h d n = Ok h' -> heap_ok src h ->
  dlen h d = Some len -> 0 <= n <= len ->
  gstep h h' /\ K h' = K h /\ dch h' = dch h.
Proof.
  intros H Hh Hl Hn. destruct (consume_chars_ok src _ _ _ _ len H Hh Hl Hn) as (_ & Hk & L & P & C & _ & _ & Kd).
  apply gstep_same_tree; try assumption; [exact (h_tree _ _ Hh)|].
  intros x Hx. apply Kd. intros ->. apply islab_dlk in Hx. unfold dlk in Hx. unfold dlen in Hl.
  destruct (kd h d) as [k|]; [|discriminate]. destruct k; try discriminate.
Qed.

Lemma closer_loop_k src : forall fuel c closer b c' L, closer_loop fuel c closer b = Ok c' -> ctx_ok src [] c L ->
  dch (i_h c) = L -> pr (i_h c) 0%nat = None ->
  (forall cl, closer = Some cl -> In cl L) ->
  exists L', ctx_ok src [] c' L' /\ dch (i_h c') = L' /\ gstep (i_h c) (i_h c') /\
             i_labels c' = i_labels c /\ i_bottoms c' = i_bottoms c.
Proof.
  induction fuel as [|f IH]; intros c closer b c' L H Hc HS Hr0 Hcl; cbn [closer_loop] in H; [discriminate|].
  destruct closer as [cl|].
  2:{ inversion H; subst c'. exists L. split; [exact Hc|]. split; [exact HS|]. split; [apply gstep_refl|]. auto. }
  destruct (dget (i_h c) cl) as [[[[[[[[csg c_open] c_close] c_len] c_orig] c_ch] c_prev] c_next]| |] eqn:Eg;
    cbn [bind] in H; try discriminate.
  destruct (in_split_nat cl L (Hcl cl eq_refl)) as (A & B & ->).
  destruct Hc as [Hh Hd]. pose proof (h_tree _ _ Hh) as Ht.
  destruct (dget_dlk _ _ _ _ _ _ _ _ _ _ Eg) as [Hdl Hln].
  pose proof (dseg_mid _ _ _ _ _ _ (dl_chain _ _ _ Hd)) as Hm. rewrite Hm in Hdl. inversion Hdl as [[Hp Hnx]].
  assert (HnB : forall y, c_next = Some y -> In y B). { intros y Ey. apply nxt_of_in. congruence. }
  assert (HclA : ~ In cl A). { pose proof (dl_nodup _ _ _ Hd) as ND. apply NoDup_remove_2 in ND. rewrite in_app_iff in ND. tauto. }
  destruct (negb c_close).
  { apply (IH c c_next b c' (A ++ cl :: B) H (conj Hh Hd) HS Hr0). intros y Ey. rewrite in_app_iff. cbn. auto. }
  destruct (find_opener (S (length (i_h c))) (i_h c) c_prev b c_open c_len c_orig c_ch false) as [[found maybe]| |] eqn:Ef;
    cbn [bind] in H; try discriminate.
  destruct found as [[op consume]|].
  2:{ destruct (negb maybe && negb c_open).
      - destruct (remove_delimiter c cl) as [c1| |] eqn:Er; cbn [bind] in H; try discriminate.
        destruct (remove_delimiter_ok src [] c A cl B c1 Er Hh Hd) as (Hh1 & Hk1 & Fl & Fb & Hd1 & _).
        specialize (Hd1 [] ltac:(intros ? [])).
        destruct (remove_delimiter_g [] c A cl B c1 Er Ht Hd) as (G1 & Ht1 & _ & (par & Hpar & Cj & Cp) & _).
        destruct (splice_K _ _ cl par Ht G1 Hpar Cj Cp) as [_ ED].
        assert (HS1 : dch (i_h c1) = A ++ B). { rewrite ED, HS. apply remove_id_mid. exact HclA. }
        destruct (IH c1 c_next b c' (A ++ B) H (conj Hh1 Hd1) HS1 (g_root _ _ G1 Hr0)) as (L' & Hc' & HS' & G' & Fl' & Fb').
        { intros y Ey. rewrite in_app_iff. auto. }
        exists L'. split; [exact Hc'|]. split; [exact HS'|]. split; [eapply gstep_trans; eassumption|]. split; congruence.
      - cbn [bind] in H. apply (IH c c_next b c' (A ++ cl :: B) H (conj Hh Hd) HS Hr0). intros y Ey. rewrite in_app_iff. cbn. auto. }
  (* an opener was found *)
  assert (Hcl1 : 1 <= c_len). { apply (dl_len _ _ _ Hd cl c_len); [rewrite in_app_iff; cbn; auto|intros []|exact Hln]. }
  destruct (find_opener_ok (i_h c) A (cl :: B)) with (fuel := S (length (i_h c))) (cur := c_prev) (b := b) (co := c_open)
    (cl_len := c_len) (cl_orig := c_orig) (cl_ch := c_ch) (maybe := false) (o := op) (consume := consume) (m := maybe)
    as (HopA & olen & Hol & Hcons & Hconsc); try assumption.
  { intros o len Ho Hl. apply (dl_len _ _ _ Hd o len); [rewrite in_app_iff; auto|intros []|exact Hl]. }
  { exact (dl_chain _ _ _ Hd). }
  { intros x Ex. rewrite <- Hp in Ex. apply lst_of_in in Ex. destruct Ex; [discriminate|assumption]. }
  destruct (in_split_nat op A HopA) as (A1 & M & ->).
  assert (ND : NoDup (A1 ++ op :: M ++ cl :: B)).
  { pose proof (dl_nodup _ _ _ Hd) as ND. rewrite <- app_assoc in ND. exact ND. }
  assert (Hopcl : op <> cl).
  { intros ->. apply nodup_app_r in ND. inversion ND as [|? ? Hx _]; subst. apply Hx. rewrite in_app_iff. cbn. auto. }
  destruct (consume_chars (i_h c) op consume) as [h1| |] eqn:E1; cbn [bind] in H; try discriminate.
  destruct (consume_chars_ok src _ _ _ _ olen E1 Hh Hol ltac:(lia)) as (Hh1 & Hk1 & L1 & P1 & C1 & V1 & N1 & K1).
  destruct (consume_chars_g src _ _ _ _ olen E1 Hh Hol ltac:(lia)) as (G1 & _ & ED1).
  destruct (consume_chars h1 cl consume) as [h2| |] eqn:E2; cbn [bind] in H; try discriminate.
  assert (Hln1 : dlen h1 cl = Some c_len). { rewrite N1. destruct (Nat.eqb_spec cl op); [congruence|exact Hln]. }
  destruct (consume_chars_ok src _ _ _ _ c_len E2 Hh1 Hln1 ltac:(lia)) as (Hh2 & Hk2 & L2 & P2 & C2 & V2 & N2 & K2).
  destruct (consume_chars_g src _ _ _ _ c_len E2 Hh1 Hln1 ltac:(lia)) as (G2 & _ & ED2).
  assert (Hd2 : dl_ok [cl; op] (cx_h c h2) ((A1 ++ op :: M) ++ cl :: B)).
  { apply (dl_consume [op] (cx_h c h1)); cbn [i_h cx_h]; try assumption.
    - apply dl_consume; try assumption. intros j Hj. rewrite N1. destruct (Nat.eqb_spec j op); [contradiction|reflexivity].
    - intros j Hj. rewrite N2. destruct (Nat.eqb_spec j cl); [contradiction|reflexivity]. }
  destruct (new_inode (cx_h c h2) (IEmphasis consume)) as [c3 node] eqn:En.
  destruct (ctx_new src _ _ _ _ _ _ En I (conj Hh2 Hd2)) as ([Hh3 Hd3] & Hk3 & Hs3 & Kn & Pn & Nn & HnL & Hnode & Kne).
  assert (Hpl : plain (IEmphasis consume)) by (unfold plain; cbn; lia).
  destruct (gstep_new _ _ _ _ En Hpl (h_tree _ _ Hh2)) as (G3 & _ & ED3 & Ht3 & _ & _ & _ & _ & C3 & P3 & _).
  cbn [i_h cx_h] in G3, ED3, C3, P3, Hnode.
  assert (HS3 : dch (i_h c3) = A1 ++ op :: M ++ cl :: B). { rewrite ED3, ED2, ED1, HS, <- app_assoc. reflexivity. }
  assert (G03 : gstep (i_h c) (i_h c3)) by (eapply gstep_trans; [exact G1|eapply gstep_trans; eassumption]).
  assert (Hr3 : pr (i_h c3) 0%nat = None) by (apply (g_root _ _ G03 Hr0)).
  destruct (iget (i_h c3) op) as [opn| |] eqn:Eo; cbn [bind] in H; try discriminate.
  apply iget_kd in Eo. destruct Eo as (Eko & Epo & _).
  destruct (ipar opn) as [parent|] eqn:Epar; [|discriminate].
  (* the root list around the opener and the closer *)
  unfold dch in HS3. destruct (filter_split _ _ _ _ _ HS3) as (X & R2 & HR & HX & HR2).
  destruct (filter_split _ _ _ _ _ HR2) as (Mv & Y & -> & HMv & HY).
  assert (NDR : NoDup (X ++ op :: Mv ++ cl :: Y)). { rewrite <- HR. apply (t_nodup _ Ht3). }
  assert (Hpar0 : parent = 0%nat).
  { assert (Hin : In op (rch (i_h c3))) by (rewrite HR, in_app_iff; cbn; auto).
    apply (t_child _ Ht3) in Hin. congruence. }
  subst parent.
  destruct (i_next (i_h c3) op) as [child| |] eqn:Ech; cbn [bind] in H; try discriminate.
  pose proof (i_next_root _ _ _ _ _ Ht3 HR Ech) as Hchild. subst child.
  destruct (move_children (S (length (i_h c3))) (i_h c3) (hd_error (Mv ++ cl :: Y)) (Some cl) node) as [h4| |] eqn:Em; cbn [bind] in H; try discriminate.
  destruct (move_children_ok src _ _ _ _ _ _ Em Hh3) as (Hh4 & K4 & Hn4 & L4).
  { intros x Ex. exists 0%nat. fold (rch (i_h c3)). rewrite HR. rewrite in_app_iff. right. right.
    destruct Mv; cbn in Ex; inversion Ex; subst; cbn; auto. }
  { rewrite Kn. discriminate. }
  assert (Hopv : (op < length (i_h c))%nat).
  { apply (dl_valid _ _ _ _ Hd). rewrite !in_app_iff. cbn. auto. }
  assert (Hnode0 : node <> 0%nat). { rewrite Hnode. cbn [i_h cx_h]. lia. }
  assert (HclMv : ~ In cl Mv).
  { apply nodup_app_r in NDR. inversion NDR as [|? ? _ ND']; subst. apply NoDup_remove_2 in ND'. rewrite in_app_iff in ND'. tauto. }
  destruct (move_children_k _ _ (Mv ++ cl :: Y) (X ++ [op]) 0%nat (Some cl) node h4 Em Ht3) as (G4 & Ht4 & S4 & C4p & _ & _ & P4i & P4o).
  { fold (rch (i_h c3)). rewrite HR, <- app_assoc. reflexivity. }
  { auto. }
  { exact Hnode0. }
  { exact Hr3. }
  destruct (tk_mid cl Mv Y HclMv) as [Etk Edr]. rewrite Etk in P4i. rewrite Edr in C4p.
  destruct (i_insert_after h4 0%nat op node) as [h5| |] eqn:Ei; cbn [bind] in H; try discriminate.
  pose proof (i_insert_after_spec _ _ _ _ _ Ei (h_tree _ _ Hh4)) as Hat.
  pose proof (insert_after_ord _ _ _ _ _ Ei Ht4) as Hao.
  assert (Hopd : dlk (i_h c3) op <> None).
  { eapply dseg_in; [exact (dl_chain _ _ _ Hd3)|]. rewrite !in_app_iff. cbn. auto. }
  destruct (heap_ok_attach src _ _ _ _ Hat Hh4) as [Hh5 Hk5].
  { intros C0. rewrite K4 in C0. unfold kd in C0. unfold pr in Hr3. destruct (nth_error (i_h c3) 0) as [n0|] eqn:E0; [|discriminate].
    cbn in C0. pose proof (t_par _ Ht3 op 0%nat Epo) as Hin.
    unfold dlk in Hopd. destruct (kd (i_h c3) op) as [ko|] eqn:Eko'; [|congruence].
    assert (C0' : kd (i_h c3) 0%nat = Some ICodeSpan) by (unfold kd; rewrite E0; exact C0).
    pose proof (h_cs _ _ Hh3 0%nat op ko C0' Hin Eko') as Ht'. destruct ko; cbn in Ht'; try discriminate. congruence. }
  assert (Hn5 : dneutral h4 h5).
  { eapply dn_attach; [exact Hat|]. left. unfold dlk. rewrite K4, Kn. reflexivity. }
  pose proof (ctx_neutral src _ _ _ h5 (conj Hh3 Hd3) Hh5 (dn_trans _ _ _ Hn4 Hn5)) as Hc6.
  assert (Hkn4 : iskey h4 node = false).
  { apply nkey_iskey. eapply nkey_kd; [rewrite K4; exact Kn|exact Hpl]. }
  destruct (gstep_attach _ _ _ _ Hao Ht4 Hnode0) as (G5 & EK5 & _); [rewrite Hkn4; discriminate|].
  destruct (EK5 Hkn4) as [_ ED5].
  set (c6 := cx_h c3 h5) in *.
  assert (G06 : gstep (i_h c) (i_h c6)).
  { eapply gstep_trans; [exact G03|]. eapply gstep_trans; [exact G4|exact G5]. }
  assert (HS6 : dch (i_h c6) = A1 ++ op :: cl :: B).
  { subst c6. cbn [i_h cx_h]. rewrite ED5. unfold dch, rch. rewrite C4p, <- app_assoc. cbn [app].
    rewrite filter_app. cbn [filter].
    assert (Hsame : forall x, isdel h4 x = isdel (i_h c3) x) by (intros x; unfold isdel; rewrite (same_kcls _ _ x K4); reflexivity).
    rewrite (filter_ext_in _ _ _ (fun x _ => Hsame x)). rewrite !Hsame.
    assert (Hopdel : isdel (i_h c3) op = true) by (apply isdel_dlk; exact Hopd).
    assert (Hcldel : isdel (i_h c3) cl = true).
    { apply isdel_dlk. eapply dseg_in; [exact (dl_chain _ _ _ Hd3)|]. rewrite !in_app_iff. cbn. auto. }
    rewrite Hopdel, Hcldel, HX. rewrite (filter_ext_in _ _ _ (fun x _ => Hsame x)), HY. reflexivity. }
  assert (Hk6 : kle (i_h c) (i_h c6)) by exact (g_kle _ _ G06).
  assert (Hs6 : i_labels c6 = i_labels c /\ i_bottoms c6 = i_bottoms c).
  { destruct Hs3 as (_ & _ & S3 & S4'). subst c6. cbn. split; [exact S3|exact S4']. }
  destruct (dget (i_h c6) op) as [[[[[[[[osg o_open] o_close] o_len'] o_orig] o_ch] o_prev] o_next]| |] eqn:Eg6;
    cbn [bind] in H; try discriminate.
  destruct (remove_between (S (length (i_h c6))) c6 o_next cl) as [c7| |] eqn:Er7; cbn [bind] in H; try discriminate.
  destruct Hc6 as [Hh6 Hd6].
  assert (Ho_next : o_next = nxt_of M (Some cl)).
  { destruct (dget_dlk _ _ _ _ _ _ _ _ _ _ Eg6) as [Hdl6 _].
    pose proof (dl_chain _ _ _ Hd6) as Hs6'. rewrite <- app_assoc in Hs6'. cbn [app] in Hs6'.
    pose proof (dseg_mid _ _ _ _ _ _ Hs6') as Hm6. rewrite Hm6 in Hdl6. inversion Hdl6 as [[Hx0 Hx]].
    destruct M; reflexivity. }
  assert (Hd6' : dl_ok [cl; op] c6 ((A1 ++ [op]) ++ M ++ cl :: B)).
  { rewrite <- app_assoc. cbn [app]. rewrite <- app_assoc in Hd6. exact Hd6. }
  destruct (remove_between_ok src _ _ _ _ _ _ _ _ _ Er7 (conj Hh6 Hd6') Ho_next) as ([Hh7 Hd7] & Hk7 & Fl7 & Fb7).
  destruct (remove_between_k src _ _ _ _ _ _ _ _ _ Er7 (conj Hh6 Hd6') Ho_next) as (G7 & R7).
  { intros m Hm'. exists node. split; [|exact Hnode0]. subst c6. cbn [i_h cx_h].
    rewrite (ao_pr _ _ _ _ Hao). assert (Hmv : In m Mv) by (rewrite <- HMv in Hm'; apply filter_In in Hm'; tauto).
    destruct (Nat.eqb_spec m node) as [->|_]; [|apply P4i; exact Hmv].
    exfalso. apply (Nn 0%nat). rewrite C3. fold (rch (i_h c3)) in HR. unfold rch in HR. rewrite <- C3, HR. rewrite in_app_iff. cbn. rewrite in_app_iff. auto. }
  assert (HS7 : dch (i_h c7) = A1 ++ op :: cl :: B).
  { destruct (K_same _ _ (h_tree _ _ Hh6) Hk7 R7) as [_ ->]. exact HS6. }
  destruct (dget (i_h c7) op) as [[[[[[[[osg7 o_open7] o_close7] o_len] o_orig7] o_ch7] o_prev7] o_next7]| |] eqn:Eg7;
    cbn [bind] in H; try discriminate.
  destruct (dget_dlk _ _ _ _ _ _ _ _ _ _ Eg7) as [_ Hol7].
  pose proof (h_kind _ _ Hh7 op _ (dget_view _ _ _ _ _ _ _ _ _ _ Eg7)) as Hko7. cbn in Hko7. destruct Hko7 as (_ & Hol0 & _).
  assert (HopA1 : ~ In op A1). { apply NoDup_remove_2 in ND. rewrite in_app_iff in ND. tauto. }
  (* after the opener has been dealt with *)
  assert (H8 : exists c8 A8, (if o_len =? 0 then remove_delimiter c7 op else Ok c7) = Ok c8 /\
            ctx_ok src [cl] c8 (A8 ++ cl :: B) /\ dch (i_h c8) = A8 ++ cl :: B /\ gstep (i_h c7) (i_h c8) /\
            i_labels c8 = i_labels c7 /\ i_bottoms c8 = i_bottoms c7 /\ ~ In cl A8).
  { destruct (Z.eqb_spec o_len 0) as [Ez|Enz].
    - destruct (remove_delimiter c7 op) as [c8| |] eqn:Er8; cbn [bind] in H; try discriminate.
      assert (Hd7' : dl_ok [cl; op] c7 (A1 ++ op :: cl :: B)) by (rewrite <- app_assoc in Hd7; exact Hd7).
      destruct (remove_delimiter_ok src [cl; op] c7 A1 op (cl :: B) c8 Er8 Hh7 Hd7') as (Hh8 & Hk8 & Fl8 & Fb8 & Hd8 & _).
      destruct (remove_delimiter_g _ c7 A1 op (cl :: B) c8 Er8 (h_tree _ _ Hh7) Hd7') as (G8 & _ & _ & (par & Hpar & Cj & Cp) & _).
      destruct (splice_K _ _ op par (h_tree _ _ Hh7) G8 Hpar Cj Cp) as [_ ED8].
      exists c8, A1. split; [reflexivity|]. split; [split; [exact Hh8|]|].
      + apply Hd8. intros x [<-|[<-|[]]]; cbn; auto.
      + split; [rewrite ED8, HS7; apply remove_id_mid; exact HopA1|]. split; [exact G8|]. split; [exact Fl8|]. split; [exact Fb8|].
        intros Hc0. apply (nodup_app_disj _ _ cl ND Hc0). cbn. rewrite in_app_iff. cbn. auto.
    - exists c7, (A1 ++ [op]). split; [reflexivity|]. split; [|split; [rewrite <- app_assoc; exact HS7|split; [apply gstep_refl|split; [reflexivity|split; [reflexivity|]]]]].
      + split; [exact Hh7|]. apply (dl_shrink _ _ _ op).
        * eapply dl_weaken; [exact Hd7|]. intros x [<-|[<-|[]]]; cbn; auto.
        * intros len Hl. rewrite Hol7 in Hl. inversion Hl; subst. lia.
      + rewrite in_app_iff. cbn. intros [Hc0|[Hc0|[]]]; [|congruence].
        apply (nodup_app_disj _ _ cl ND Hc0). cbn. rewrite in_app_iff. cbn. auto. }
  destruct H8 as (c8 & A8 & E8 & [Hh8 Hd8] & HS8 & G8 & Fl8 & Fb8 & HclA8). rewrite E8 in H. cbn [bind] in H.
  destruct (dget (i_h c8) cl) as [[[[[[[[csg8 c_open8] c_close8] cl_len] c_orig8] c_ch8] c_prev8] cl_next]| |] eqn:Eg8;
    cbn [bind] in H; try discriminate.
  destruct (dget_dlk _ _ _ _ _ _ _ _ _ _ Eg8) as [Hdl8 Hln8].
  pose proof (dseg_mid _ _ _ _ _ _ (dl_chain _ _ _ Hd8)) as Hm8. rewrite Hm8 in Hdl8. inversion Hdl8 as [[Hpx8 Hnx8]].
  pose proof (h_kind _ _ Hh8 cl _ (dget_view _ _ _ _ _ _ _ _ _ _ Eg8)) as Hko8. cbn in Hko8. destruct Hko8 as (_ & Hcl0 & _).
  assert (G08 : gstep (i_h c) (i_h c8)). { eapply gstep_trans; [exact G06|]. eapply gstep_trans; eassumption. }
  destruct Hs6 as [Hs6a Hs6b].
  destruct (Z.eqb_spec cl_len 0) as [Ez|Enz].
  - destruct (remove_delimiter c8 cl) as [c9| |] eqn:Er9; cbn [bind] in H; try discriminate.
    destruct (remove_delimiter_ok src _ c8 A8 cl B c9 Er9 Hh8 Hd8) as (Hh9 & Hk9 & Fl9 & Fb9 & Hd9 & _).
    specialize (Hd9 [] ltac:(intros x [<-|[]]; auto)).
    destruct (remove_delimiter_g _ c8 A8 cl B c9 Er9 (h_tree _ _ Hh8) Hd8) as (G9 & _ & _ & (par & Hpar & Cj & Cp) & _).
    destruct (splice_K _ _ cl par (h_tree _ _ Hh8) G9 Hpar Cj Cp) as [_ ED9].
    assert (HS9 : dch (i_h c9) = A8 ++ B). { rewrite ED9, HS8. apply remove_id_mid. exact HclA8. }
    destruct (IH c9 cl_next b c' (A8 ++ B) H (conj Hh9 Hd9) HS9) as (L' & Hc' & HS' & G' & Fl' & Fb').
    { apply (g_root _ _ G9). apply (g_root _ _ G08). exact Hr0. }
    { intros y Ey. rewrite in_app_iff. right. apply nxt_of_in. congruence. }
    exists L'. split; [exact Hc'|]. split; [exact HS'|]. split; [eapply gstep_trans; [exact G08|eapply gstep_trans; eassumption]|]. split; congruence.
  - assert (Hd9 : dl_ok [] c8 (A8 ++ cl :: B)).
    { apply (dl_shrink _ _ _ cl); [exact Hd8|]. intros len Hl. rewrite Hln8 in Hl. inversion Hl; subst. lia. }
    destruct (IH c8 (Some cl) b c' (A8 ++ cl :: B) H (conj Hh8 Hd9) HS8) as (L' & Hc' & HS' & G' & Fl' & Fb').
    { apply (g_root _ _ G08). exact Hr0. }
    { intros y Ey. inversion Ey; subst. rewrite in_app_iff. cbn. auto. }
    exists L'. split; [exact Hc'|]. split; [exact HS'|]. split; [eapply gstep_trans; eassumption|]. split; congruence.
Qed.

Lemma process_delimiters_k src fuel c b c' L : process_delimiters fuel c b = Ok c' -> ctx_ok src [] c L ->
  dch (i_h c) = L -> incr (K (i_h c)) -> pr (i_h c) 0%nat = None ->
  (forall b0, b = BPtr (Some b0) -> isdel (i_h c) b0 = true) ->
  exists L', ctx_ok src [] c' L' /\ dch (i_h c') = L' /\ gstep (i_h c) (i_h c') /\
             i_labels c' = i_labels c /\ i_bottoms c' = i_bottoms c /\ below b L'.
Proof.
  unfold process_delimiters. intros H Hc HS HK Hr0 Hb. destruct (i_dlast c) as [last|] eqn:El.
  2:{ inversion H; subst c'. exists L. split; [exact Hc|]. split; [exact HS|]. split; [apply gstep_refl|]. split; [reflexivity|].
      split; [reflexivity|]. destruct Hc as [_ Hd]. pose proof (dl_last _ _ _ Hd) as Hl. rewrite El in Hl.
      destruct L as [|a L]; [intros d []|]. exfalso. destruct (lst_of_some (a :: L) None) as [l Hl']; [discriminate|]. congruence. }
  set (closer0 := match b with
                  | BNil => Ok (i_dfirst c)
                  | BPtr _ => if is_bottom b last then Ok None
                              else pv <- i_prev (i_h c) last ;; earliest_delim (S (length (i_h c))) (i_h c) pv b None
                  end) in H.
  destruct closer0 as [closer| |] eqn:Ec; cbn [bind] in H; try discriminate.
  assert (Hcl : forall cl, closer = Some cl -> In cl L).
  { destruct Hc as [_ Hd]. subst closer0. destruct b as [|bp].
    - inversion Ec; subst closer. intros cl Ecl. rewrite (dl_first _ _ _ Hd) in Ecl. apply nxt_of_in. exact Ecl.
    - destruct (is_bottom (BPtr bp) last); [inversion Ec; subst; discriminate|].
      destruct (i_prev (i_h c) last) as [pv| |] eqn:Ep; cbn [bind] in Ec; try discriminate.
      eapply (earliest_delim_ok _ _ _ Hd); [exact Ec| |discriminate].
      intros y ->. apply i_prev_in in Ep. destruct Ep as (p & _ & Hin). exists p. exact Hin. }
  assert (Hfin : forall c1 L1, ctx_ok src [] c1 L1 -> dch (i_h c1) = L1 -> gstep (i_h c) (i_h c1) ->
            i_labels c1 = i_labels c -> i_bottoms c1 = i_bottoms c -> clear_delimiters c1 b = Ok c' ->
            exists L', ctx_ok src [] c' L' /\ dch (i_h c') = L' /\ gstep (i_h c) (i_h c') /\
                       i_labels c' = i_labels c /\ i_bottoms c' = i_bottoms c /\ below b L').
  { intros c1 L1 Hc1 HS1 G1 Fl1 Fb1 Hcd.
    destruct (clear_delimiters_k src _ _ _ _ Hcd Hc1 HS1 (g_incr _ _ G1 HK)) as (L' & Hc' & HS' & G' & Fl' & Fb' & Hbel).
    { intros b0 Eb0. rewrite (isdel_kle _ _ b0 (g_kle _ _ G1)); [apply Hb; exact Eb0|]. apply isdel_valid. apply Hb. exact Eb0. }
    exists L'. split; [exact Hc'|]. split; [exact HS'|]. split; [eapply gstep_trans; eassumption|]. split; [congruence|]. split; [congruence|exact Hbel]. }
  destruct closer as [cl|].
  - destruct (closer_loop fuel c (Some cl) b) as [c1| |] eqn:Ecl; cbn [bind] in H; try discriminate.
    destruct (closer_loop_k src _ _ _ _ _ _ Ecl Hc HS Hr0 Hcl) as (L1 & Hc1 & HS1 & G1 & Fl1 & Fb1).
    eapply Hfin; eassumption.
  - eapply Hfin; [exact Hc|exact HS|apply gstep_refl|reflexivity|reflexivity|exact H].
Qed.
