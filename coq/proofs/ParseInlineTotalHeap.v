(* Inline heap of model/InlineParse.v: accessor view (par, chl, kd), the forest invariant HWF
   (parent and children fields agree, children lists duplicate-free, node 0 a root), ranks
   (acyclicity), and the tree-surgery operations: each is total under HWF and preserves it. *)
Require Import GM.model.Base GM.model.Util GM.model.Reader GM.model.BlockParse GM.model.InlineParse.
From Coq Require Import ZArith Lia List Arith.
Import ListNotations.

(* ---------- accessors ---------- *)
Definition par (h : iheap) (x : nat) : option nat :=
  match nth_error h x with Some n => ipar n | None => None end.
Definition chl (h : iheap) (x : nat) : list nat :=
  match nth_error h x with Some n => ich n | None => [] end.
Definition kd (h : iheap) (x : nat) : option ikind :=
  match nth_error h x with Some n => Some (ik n) | None => None end.

Lemma iget_ok h i n : nth_error h i = Some n -> iget h i = Ok n.
Proof. intros H. unfold iget. rewrite H. reflexivity. Qed.

Lemma nth_error_ex_lt {A} (l : list A) i : (i < length l)%nat -> exists n, nth_error l i = Some n.
Proof.
  intros H. destruct (nth_error l i) eqn:E; [eauto|]. apply nth_error_None in E. lia.
Qed.

Lemma nth_error_lt {A} (l : list A) i n : nth_error l i = Some n -> (i < length l)%nat.
Proof. intros H. apply nth_error_Some. congruence. Qed.

Lemma length_iset h i v : length (iset h i v) = length h.
Proof.
  revert i. induction h as [|x t IH]; intros i; [reflexivity|].
  destruct i; cbn [iset length]; [reflexivity|]. rewrite IH. reflexivity.
Qed.

Lemma nth_iset_eq h i v : (i < length h)%nat -> nth_error (iset h i v) i = Some v.
Proof.
  revert i. induction h as [|x t IH]; intros i Hi; [cbn in Hi; lia|].
  destruct i; cbn [iset nth_error]; [reflexivity|]. apply IH. cbn in Hi. lia.
Qed.

Lemma nth_iset_ne h i j v : j <> i -> nth_error (iset h i v) j = nth_error h j.
Proof.
  revert i j. induction h as [|x t IH]; intros i j Hne; [reflexivity|].
  destruct i, j; cbn [iset nth_error]; try reflexivity; try congruence.
  apply IH. congruence.
Qed.

Lemma iupd_ok h i f n : nth_error h i = Some n -> iupd h i f = Ok (iset h i (f n)).
Proof. intros H. unfold iupd. rewrite (iget_ok _ _ _ H). reflexivity. Qed.

Lemma par_lt h x p : par h x = Some p -> (x < length h)%nat.
Proof. unfold par. destruct (nth_error h x) eqn:E; [|discriminate]. intros _. eapply nth_error_lt; eauto. Qed.
Lemma kd_lt h x k : kd h x = Some k -> (x < length h)%nat.
Proof. unfold kd. destruct (nth_error h x) eqn:E; [|discriminate]. intros _. eapply nth_error_lt; eauto. Qed.
Lemma kd_some h x : (x < length h)%nat -> exists k, kd h x = Some k.
Proof. intros H. destruct (nth_error_ex_lt h x H) as [n Hn]. unfold kd. rewrite Hn. eauto. Qed.
Lemma chl_lt h x c : In c (chl h x) -> (x < length h)%nat.
Proof. unfold chl. destruct (nth_error h x) eqn:E; [|intros []]. intros _. eapply nth_error_lt; eauto. Qed.

(* the node at index i after an update of par / chl / kind *)
Lemma par_iset_eq h i v : (i < length h)%nat -> par (iset h i v) i = ipar v.
Proof. intros H. unfold par. rewrite nth_iset_eq by exact H. reflexivity. Qed.
Lemma par_iset_ne h i j v : j <> i -> par (iset h i v) j = par h j.
Proof. intros H. unfold par. rewrite nth_iset_ne by exact H. reflexivity. Qed.
Lemma chl_iset_eq h i v : (i < length h)%nat -> chl (iset h i v) i = ich v.
Proof. intros H. unfold chl. rewrite nth_iset_eq by exact H. reflexivity. Qed.
Lemma chl_iset_ne h i j v : j <> i -> chl (iset h i v) j = chl h j.
Proof. intros H. unfold chl. rewrite nth_iset_ne by exact H. reflexivity. Qed.
Lemma kd_iset_eq h i v : (i < length h)%nat -> kd (iset h i v) i = Some (ik v).
Proof. intros H. unfold kd. rewrite nth_iset_eq by exact H. reflexivity. Qed.
Lemma kd_iset_ne h i j v : j <> i -> kd (iset h i v) j = kd h j.
Proof. intros H. unfold kd. rewrite nth_iset_ne by exact H. reflexivity. Qed.

(* ---------- remove_id / insert_before_id / next_in / prev_in ---------- *)
Lemma remove_id_notin x l : ~ In x l -> remove_id x l = l.
Proof.
  induction l as [|y t IH]; intros H; [reflexivity|]. cbn [remove_id].
  destruct (Nat.eqb_spec x y) as [E|E]; [exfalso; apply H; left; congruence|].
  rewrite IH; [reflexivity|]. intros C. apply H. right. exact C.
Qed.

Lemma in_remove_id x l a : NoDup l -> (In a (remove_id x l) <-> a <> x /\ In a l).
Proof.
  induction l as [|y t IH]; intros Hnd; [cbn; tauto|].
  inversion Hnd as [|? ? Hy Ht]; subst. cbn [remove_id].
  destruct (Nat.eqb_spec x y) as [E|E].
  - subst y. split.
    + intros Ha. split; [intros C; subst a; contradiction | right; exact Ha].
    + intros [Hne [Hx|Hx]]; [congruence | exact Hx].
  - cbn [In]. rewrite (IH Ht). split.
    + intros [Ha|[Hne Ha]]; [subst a; split; [congruence | left; reflexivity] | split; [exact Hne | right; exact Ha]].
    + intros [Hne [Ha|Ha]]; [left; exact Ha | right; split; assumption].
Qed.

Lemma nodup_remove_id x l : NoDup l -> NoDup (remove_id x l).
Proof.
  induction l as [|y t IH]; intros Hnd; [constructor|].
  inversion Hnd as [|? ? Hy Ht]; subst. cbn [remove_id].
  destruct (Nat.eqb_spec x y) as [E|E]; [exact Ht|].
  constructor; [|apply IH; exact Ht].
  intros C. destruct (proj1 (in_remove_id x t y Ht) C) as [_ C2]. contradiction.
Qed.

Lemma length_remove_id_le x l : (length (remove_id x l) <= length l)%nat.
Proof.
  induction l as [|y t IH]; [cbn; lia|]. cbn [remove_id].
  destruct (Nat.eqb x y); cbn [length]; lia.
Qed.

Lemma in_insert_before x y l a : In a (insert_before_id x y l) <-> a = y \/ In a l.
Proof.
  induction l as [|z t IH]; [cbn; intuition congruence|]. cbn [insert_before_id].
  destruct (Nat.eqb x z); cbn [In]; [intuition congruence|]. rewrite IH. intuition congruence.
Qed.

Lemma nodup_insert_before x y l : NoDup l -> ~ In y l -> NoDup (insert_before_id x y l).
Proof.
  induction l as [|z t IH]; intros Hnd Hy; [cbn; constructor; [intros []|constructor]|].
  inversion Hnd as [|? ? Hz Ht]; subst. cbn [insert_before_id].
  destruct (Nat.eqb x z).
  - constructor; [exact Hy | exact Hnd].
  - constructor.
    + intros C. apply in_insert_before in C. destruct C as [C|C]; [subst z; apply Hy; left; reflexivity | contradiction].
    + apply IH; [exact Ht|]. intros C. apply Hy. right. exact C.
Qed.

Lemma next_in_in x l y : next_in x l = Some y -> In y l.
Proof.
  induction l as [|a t IH]; [discriminate|]. cbn [next_in].
  destruct t as [|b t']; [discriminate|].
  destruct (Nat.eqb x a).
  - intros E. inversion E; subst. right. left. reflexivity.
  - intros E. right. apply IH. exact E.
Qed.

Lemma prev_in_in x l : forall pv y, prev_in x l pv = Some y -> pv = Some y \/ In y l.
Proof.
  induction l as [|a t IH]; intros pv y; [discriminate|]. cbn [prev_in].
  destruct (Nat.eqb x a).
  - intros E. left. exact E.
  - intros E. apply IH in E. destruct E as [E|E]; [inversion E; subst; right; left; reflexivity | right; right; exact E].
Qed.

(* ---------- the forest invariant ---------- *)
Record HWF (h : iheap) : Prop := {
  w_pc : forall x c, In c (chl h x) <-> par h c = Some x;
  w_nd : forall x, NoDup (chl h x);
  w_len : (0 < length h)%nat;
  w_root : par h 0 = None
}.

Lemma hwf_child_lt h x c : HWF h -> In c (chl h x) -> (c < length h)%nat.
Proof. intros H Hc. apply (w_pc h H) in Hc. eapply par_lt; eauto. Qed.
Lemma hwf_par_lt h x p : HWF h -> par h x = Some p -> (p < length h)%nat.
Proof. intros H Hp. apply (w_pc h H) in Hp. eapply chl_lt; eauto. Qed.
Lemma hwf_notin h c : HWF h -> par h c = None -> forall y, ~ In c (chl h y).
Proof. intros H Hp y Hc. apply (w_pc h H) in Hc. congruence. Qed.
Lemma hwf_par_ne h x p : HWF h -> par h x = Some p -> (exists rk : nat -> nat, forall a b, par h a = Some b -> (rk b < rk a)%nat) -> p <> x.
Proof. intros H Hp [rk Hrk] E. subst p. specialize (Hrk _ _ Hp). lia. Qed.

(* ranks: a witness of acyclicity *)
Definition Ranked (rk : nat -> nat) (h : iheap) : Prop :=
  forall x p, par h x = Some p -> (rk p < rk x)%nat.

(* frames *)
Definition same_kinds (h h' : iheap) : Prop :=
  length h' = length h /\ forall y, kd h' y = kd h y.
Definition same_tree (h h' : iheap) : Prop :=
  length h' = length h /\ (forall y, par h' y = par h y) /\ (forall y, chl h' y = chl h y).

Lemma same_kinds_refl h : same_kinds h h.
Proof. split; auto. Qed.
Lemma same_kinds_trans a b c : same_kinds a b -> same_kinds b c -> same_kinds a c.
Proof. intros [L1 K1] [L2 K2]. split; [congruence|]. intros y. rewrite K2, K1. reflexivity. Qed.
Lemma same_tree_refl h : same_tree h h.
Proof. repeat split; auto. Qed.
Lemma same_tree_trans a b c : same_tree a b -> same_tree b c -> same_tree a c.
Proof.
  intros (L1 & P1 & C1) (L2 & P2 & C2). split; [congruence|]. split; intros y; [rewrite P2, P1 | rewrite C2, C1]; reflexivity.
Qed.

Lemma hwf_same_tree h h' : same_tree h h' -> HWF h -> HWF h'.
Proof.
  intros (L & P & C) H. constructor.
  - intros x c. rewrite C, P. apply (w_pc h H).
  - intros x. rewrite C. apply (w_nd h H).
  - rewrite L. apply (w_len h H).
  - rewrite P. apply (w_root h H).
Qed.
Lemma ranked_same_tree rk h h' : same_tree h h' -> Ranked rk h -> Ranked rk h'.
Proof. intros (L & P & C) H x p Hp. rewrite P in Hp. apply H. exact Hp. Qed.

(* ---------- Detach ---------- *)
Lemma i_detach_spec h c : HWF h -> (c < length h)%nat ->
  exists h', i_detach h c = Ok h' /\ HWF h' /\ same_kinds h h' /\
    par h' c = None /\ (forall y, y <> c -> par h' y = par h y) /\
    (forall y, chl h' y = remove_id c (chl h y)).
Proof.
  intros H Hc. destruct (nth_error_ex_lt h c Hc) as [n Hn].
  unfold i_detach. rewrite (iget_ok _ _ _ Hn). cbn [bind].
  destruct (ipar n) as [p|] eqn:Ep.
  - assert (Hpar : par h c = Some p) by (unfold par; rewrite Hn; exact Ep).
    pose proof (hwf_par_lt _ _ _ H Hpar) as Hp.
    destruct (nth_error_ex_lt h p Hp) as [pn Hpn].
    rewrite (iupd_ok _ _ _ _ Hpn). cbn [bind].
    set (h1 := iset h p (iset_ch pn (remove_id c (ich pn)))).
    assert (L1 : length h1 = length h) by apply length_iset.
    assert (Hc1 : exists n1, nth_error h1 c = Some n1 /\ ik n1 = ik n /\
                    ich n1 = (if Nat.eqb c p then remove_id c (ich pn) else ich n)).
    { destruct (Nat.eqb_spec c p) as [E|E].
      - subst p. unfold h1. rewrite nth_iset_eq by exact Hc. eexists. split; [reflexivity|].
        rewrite Hn in Hpn. inversion Hpn; subst pn. split; reflexivity.
      - unfold h1. rewrite nth_iset_ne by exact E. exists n. auto. }
    destruct Hc1 as (n1 & Hn1 & Hk1 & Hch1).
    rewrite (iupd_ok _ _ _ _ Hn1). eexists. split; [reflexivity|].
    set (h2 := iset h1 c (iset_par n1 None)).
    assert (L2 : length h2 = length h) by (unfold h2; rewrite length_iset; exact L1).
    assert (Pc : par h2 c = None) by (unfold h2; rewrite par_iset_eq by lia; reflexivity).
    assert (Pn : forall y, y <> c -> par h2 y = par h y).
    { intros y Hy. unfold h2. rewrite par_iset_ne by exact Hy.
      destruct (Nat.eq_dec y p) as [E|E].
      - subst y. unfold h1. rewrite par_iset_eq by exact Hp. unfold par. rewrite Hpn. reflexivity.
      - unfold h1. rewrite par_iset_ne by exact E. reflexivity. }
    assert (Cn : forall y, chl h2 y = remove_id c (chl h y)).
    { intros y. destruct (Nat.eq_dec y c) as [E|E].
      - subst y. unfold h2. rewrite chl_iset_eq by lia. cbn [iset_par ich]. rewrite Hch1.
        destruct (Nat.eqb_spec c p) as [E2|E2].
        + subst p. unfold chl. rewrite Hpn. reflexivity.
        + unfold chl at 1. rewrite Hn. symmetry. apply remove_id_notin.
          intros C. assert (C' : In c (chl h c)) by (unfold chl; rewrite Hn; exact C).
          apply (w_pc h H) in C'. congruence.
      - unfold h2. rewrite chl_iset_ne by exact E.
        destruct (Nat.eq_dec y p) as [E2|E2].
        + subst y. unfold h1. rewrite chl_iset_eq by exact Hp. unfold chl. rewrite Hpn. reflexivity.
        + unfold h1. rewrite chl_iset_ne by exact E2. symmetry. apply remove_id_notin.
          intros C. apply (w_pc h H) in C. congruence. }
    assert (Kn : forall y, kd h2 y = kd h y).
    { intros y. destruct (Nat.eq_dec y c) as [E|E].
      - subst y. unfold h2. rewrite kd_iset_eq by lia. cbn [iset_par ik]. rewrite Hk1. unfold kd. rewrite Hn. reflexivity.
      - unfold h2. rewrite kd_iset_ne by exact E.
        destruct (Nat.eq_dec y p) as [E2|E2].
        + subst y. unfold h1. rewrite kd_iset_eq by exact Hp. unfold kd. rewrite Hpn. reflexivity.
        + unfold h1. rewrite kd_iset_ne by exact E2. reflexivity. }
    split; [|split; [split; [exact L2|exact Kn]|split; [exact Pc|split; [exact Pn|exact Cn]]]].
    constructor.
    + intros x a. rewrite Cn. rewrite in_remove_id by apply (w_nd h H).
      destruct (Nat.eq_dec a c) as [E|E].
      * subst a. rewrite Pc. split; [tauto|discriminate].
      * rewrite Pn by exact E. rewrite (w_pc h H). tauto.
    + intros x. rewrite Cn. apply nodup_remove_id. apply (w_nd h H).
    + rewrite L2. apply (w_len h H).
    + destruct (Nat.eq_dec 0 c) as [E|E]; [subst c; exact Pc | rewrite Pn by exact E; apply (w_root h H)].
  - exists h. split; [reflexivity|].
    assert (Hpar : par h c = None) by (unfold par; rewrite Hn; exact Ep).
    split; [exact H|]. split; [apply same_kinds_refl|]. split; [exact Hpar|]. split; [auto|].
    intros y. symmetry. apply remove_id_notin. apply hwf_notin; assumption.
Qed.

Lemma ranked_detach rk h h' c : Ranked rk h -> par h' c = None -> (forall y, y <> c -> par h' y = par h y) -> Ranked rk h'.
Proof.
  intros R Pc Pn x p Hp. destruct (Nat.eq_dec x c) as [E|E]; [subst x; congruence|].
  rewrite Pn in Hp by exact E. apply R. exact Hp.
Qed.

(* ---------- AppendChild ---------- *)
Lemma nodup_snoc (l : list nat) c : NoDup l -> ~ In c l -> NoDup (l ++ [c]).
Proof.
  induction l as [|a t IH]; intros Hnd Hc; [constructor; [intros []|constructor]|].
  inversion Hnd as [|? ? Ha Ht]; subst. cbn [app]. constructor.
  - intros C. apply in_app_iff in C. destruct C as [C|[C|[]]]; [contradiction | subst a; apply Hc; left; reflexivity].
  - apply IH; [exact Ht|]. intros C. apply Hc. right. exact C.
Qed.

Lemma i_append_spec h p c : HWF h -> (p < length h)%nat -> (c < length h)%nat -> p <> c -> c <> 0%nat ->
  exists h', i_append h p c = Ok h' /\ HWF h' /\ same_kinds h h' /\
    par h' c = Some p /\ (forall y, y <> c -> par h' y = par h y) /\
    chl h' p = remove_id c (chl h p) ++ [c] /\
    (forall y, y <> p -> chl h' y = remove_id c (chl h y)).
Proof.
  intros H Hp Hc Hne Hc0.
  destruct (i_detach_spec h c H Hc) as (h1 & E1 & W1 & (L1 & K1) & Pc1 & Pn1 & C1).
  unfold i_append. rewrite E1. cbn [bind].
  assert (Hc1 : (c < length h1)%nat) by lia. assert (Hp1 : (p < length h1)%nat) by lia.
  destruct (nth_error_ex_lt h1 c Hc1) as [n Hn]. rewrite (iupd_ok _ _ _ _ Hn). cbn [bind].
  set (h2 := iset h1 c (iset_par n (Some p))).
  assert (L2 : length h2 = length h1) by apply length_iset.
  assert (Hpn : exists pn, nth_error h2 p = Some pn /\ nth_error h1 p = Some pn).
  { unfold h2. rewrite nth_iset_ne by exact Hne. destruct (nth_error_ex_lt h1 p Hp1) as [pn Hpn]. eauto. }
  destruct Hpn as (pn & Hpn2 & Hpn1). rewrite (iupd_ok _ _ _ _ Hpn2).
  eexists. split; [reflexivity|]. set (h3 := iset h2 p (iset_ch pn (ich pn ++ [c]))).
  assert (L3 : length h3 = length h) by (unfold h3; rewrite length_iset; lia).
  assert (Pc : par h3 c = Some p).
  { unfold h3. rewrite par_iset_ne by congruence. unfold h2. rewrite par_iset_eq by exact Hc1. reflexivity. }
  assert (Pn : forall y, y <> c -> par h3 y = par h y).
  { intros y Hy. rewrite <- Pn1 by exact Hy. destruct (Nat.eq_dec y p) as [E|E].
    - subst y. unfold h3. rewrite par_iset_eq by lia. cbn [iset_ch ipar]. unfold par. rewrite Hpn1. reflexivity.
    - unfold h3. rewrite par_iset_ne by exact E. unfold h2. rewrite par_iset_ne by exact Hy. reflexivity. }
  assert (Cp : chl h3 p = remove_id c (chl h p) ++ [c]).
  { unfold h3. rewrite chl_iset_eq by lia. cbn [iset_ch ich]. rewrite <- C1. unfold chl. rewrite Hpn1. reflexivity. }
  assert (Cn : forall y, y <> p -> chl h3 y = remove_id c (chl h y)).
  { intros y Hy. rewrite <- C1. unfold h3. rewrite chl_iset_ne by exact Hy.
    destruct (Nat.eq_dec y c) as [E|E].
    - subst y. unfold h2. rewrite chl_iset_eq by exact Hc1. cbn [iset_par ich]. unfold chl. rewrite Hn. reflexivity.
    - unfold h2. rewrite chl_iset_ne by exact E. reflexivity. }
  assert (Kn : forall y, kd h3 y = kd h y).
  { intros y. rewrite <- K1. destruct (Nat.eq_dec y p) as [E|E].
    - subst y. unfold h3. rewrite kd_iset_eq by lia. cbn [iset_ch ik]. unfold kd. rewrite Hpn1. reflexivity.
    - unfold h3. rewrite kd_iset_ne by exact E.
      destruct (Nat.eq_dec y c) as [E2|E2].
      + subst y. unfold h2. rewrite kd_iset_eq by exact Hc1. cbn [iset_par ik]. unfold kd. rewrite Hn. reflexivity.
      + unfold h2. rewrite kd_iset_ne by exact E2. reflexivity. }
  split; [|split; [split; [exact L3|exact Kn]|split; [exact Pc|split; [exact Pn|split; [exact Cp|exact Cn]]]]].
  constructor.
  - intros x a. destruct (Nat.eq_dec x p) as [E|E].
    + subst x. rewrite Cp, in_app_iff, in_remove_id by apply (w_nd h H). cbn [In].
      destruct (Nat.eq_dec a c) as [E2|E2].
      * subst a. rewrite Pc. tauto.
      * rewrite Pn by exact E2. rewrite (w_pc h H). split; [intros [[_ X]|[X|[]]]; congruence | intros X; left; tauto].
    + rewrite Cn by exact E. rewrite in_remove_id by apply (w_nd h H).
      destruct (Nat.eq_dec a c) as [E2|E2].
      * subst a. rewrite Pc. split; [tauto | intros X; congruence].
      * rewrite Pn by exact E2. rewrite (w_pc h H). tauto.
  - intros x. destruct (Nat.eq_dec x p) as [E|E].
    + subst x. rewrite Cp. apply nodup_snoc.
      * apply nodup_remove_id. apply (w_nd h H).
      * intros C. destruct (proj1 (in_remove_id c _ c (w_nd h H p)) C) as [C2 _]. congruence.
    + rewrite Cn by exact E. apply nodup_remove_id. apply (w_nd h H).
  - rewrite L3. apply (w_len h H).
  - rewrite Pn by auto. apply (w_root h H).
Qed.

Lemma ranked_set_par rk h h' c p : Ranked rk h -> par h' c = Some p -> (rk p < rk c)%nat ->
  (forall y, y <> c -> par h' y = par h y) -> Ranked rk h'.
Proof.
  intros R Pc Hrk Pn x q Hq. destruct (Nat.eq_dec x c) as [E|E].
  - subst x. rewrite Pc in Hq. inversion Hq; subst q. exact Hrk.
  - rewrite Pn in Hq by exact E. apply R. exact Hq.
Qed.

(* ---------- RemoveChild ---------- *)
Lemma i_remove_spec h p c : HWF h -> (c < length h)%nat ->
  exists h', i_remove h p c = Ok h' /\ HWF h' /\ same_kinds h h' /\
    (par h c = Some p -> par h' c = None) /\ (forall y, y <> c -> par h' y = par h y) /\
    (forall y, par h' y = None \/ par h' y = par h y) /\
    (forall y, chl h' y = if opt_nat_eqb (par h c) (Some p) then remove_id c (chl h y) else chl h y).
Proof.
  intros H Hc. destruct (nth_error_ex_lt h c Hc) as [n Hn].
  unfold i_remove. rewrite (iget_ok _ _ _ Hn). cbn [bind].
  assert (Ep : ipar n = par h c) by (unfold par; rewrite Hn; reflexivity). rewrite Ep.
  destruct (opt_nat_eqb (par h c) (Some p)) eqn:Eq.
  - destruct (i_detach_spec h c H Hc) as (h' & E1 & W1 & K1 & Pc1 & Pn1 & C1).
    exists h'. split; [exact E1|]. split; [exact W1|]. split; [exact K1|]. split; [auto|]. split; [exact Pn1|].
    split; [|exact C1].
    intros y. destruct (Nat.eq_dec y c) as [E|E]; [subst y; left; exact Pc1 | right; apply Pn1; exact E].
  - exists h. split; [reflexivity|]. split; [exact H|]. split; [apply same_kinds_refl|].
    split.
    + intros Hp. rewrite Hp in Eq. cbn in Eq. rewrite Nat.eqb_refl in Eq. discriminate.
    + split; [auto|]. split; [auto|]. auto.
Qed.

Lemma opt_nat_eqb_true a b : opt_nat_eqb a b = true <-> a = b.
Proof.
  destruct a, b; cbn; try (split; [discriminate|congruence]); [|tauto].
  rewrite Nat.eqb_eq. split; congruence.
Qed.

(* ---------- InsertBefore ---------- *)
Lemma i_insert_before_spec h p ref new : HWF h -> par h ref = Some p -> (new < length h)%nat ->
  new <> p -> new <> 0%nat ->
  exists h', i_insert_before h p ref new = Ok h' /\ HWF h' /\ same_kinds h h' /\
    par h' new = Some p /\ (forall y, y <> new -> par h' y = par h y) /\
    chl h' p = insert_before_id ref new (remove_id new (chl h p)) /\
    (forall y, y <> p -> chl h' y = remove_id new (chl h y)).
Proof.
  intros H Hr Hnew Hne Hn0.
  pose proof (par_lt _ _ _ Hr) as Hrlt. pose proof (hwf_par_lt _ _ _ H Hr) as Hp.
  destruct (nth_error_ex_lt h ref Hrlt) as [rn Hrn].
  unfold i_insert_before. rewrite (iget_ok _ _ _ Hrn). cbn [bind].
  assert (Ep : ipar rn = Some p) by (unfold par in Hr; rewrite Hrn in Hr; exact Hr).
  rewrite Ep. replace (opt_nat_eqb (Some p) (Some p)) with true by (symmetry; apply opt_nat_eqb_true; reflexivity).
  destruct (i_detach_spec h new H Hnew) as (h1 & E1 & W1 & (L1 & K1) & Pc1 & Pn1 & C1).
  rewrite E1. cbn [bind].
  assert (Hp1 : (p < length h1)%nat) by lia. assert (Hnew1 : (new < length h1)%nat) by lia.
  destruct (nth_error_ex_lt h1 p Hp1) as [pn Hpn]. rewrite (iupd_ok _ _ _ _ Hpn). cbn [bind].
  set (h2 := iset h1 p (iset_ch pn (insert_before_id ref new (ich pn)))).
  assert (L2 : length h2 = length h1) by apply length_iset.
  assert (Hnn : exists n, nth_error h2 new = Some n /\ nth_error h1 new = Some n).
  { unfold h2. rewrite nth_iset_ne by exact Hne. destruct (nth_error_ex_lt h1 new Hnew1) as [n Hn]. eauto. }
  destruct Hnn as (n & Hn2 & Hn1). rewrite (iupd_ok _ _ _ _ Hn2).
  eexists. split; [reflexivity|]. set (h3 := iset h2 new (iset_par n (Some p))).
  assert (L3 : length h3 = length h) by (unfold h3; rewrite length_iset; lia).
  assert (Pc : par h3 new = Some p) by (unfold h3; rewrite par_iset_eq by lia; reflexivity).
  assert (Pn : forall y, y <> new -> par h3 y = par h y).
  { intros y Hy. rewrite <- Pn1 by exact Hy. unfold h3. rewrite par_iset_ne by exact Hy.
    destruct (Nat.eq_dec y p) as [E|E].
    - subst y. unfold h2. rewrite par_iset_eq by lia. cbn [iset_ch ipar]. unfold par. rewrite Hpn. reflexivity.
    - unfold h2. rewrite par_iset_ne by exact E. reflexivity. }
  assert (Cp : chl h3 p = insert_before_id ref new (remove_id new (chl h p))).
  { unfold h3. rewrite chl_iset_ne by congruence. unfold h2. rewrite chl_iset_eq by lia. cbn [iset_ch ich].
    rewrite <- C1. unfold chl. rewrite Hpn. reflexivity. }
  assert (Cn : forall y, y <> p -> chl h3 y = remove_id new (chl h y)).
  { intros y Hy. rewrite <- C1. destruct (Nat.eq_dec y new) as [E|E].
    - subst y. unfold h3. rewrite chl_iset_eq by lia. cbn [iset_par ich]. unfold chl. rewrite Hn1. reflexivity.
    - unfold h3. rewrite chl_iset_ne by exact E. unfold h2. rewrite chl_iset_ne by exact Hy. reflexivity. }
  assert (Kn : forall y, kd h3 y = kd h y).
  { intros y. rewrite <- K1. destruct (Nat.eq_dec y new) as [E|E].
    - subst y. unfold h3. rewrite kd_iset_eq by lia. cbn [iset_par ik]. unfold kd. rewrite Hn1. reflexivity.
    - unfold h3. rewrite kd_iset_ne by exact E.
      destruct (Nat.eq_dec y p) as [E2|E2].
      + subst y. unfold h2. rewrite kd_iset_eq by lia. cbn [iset_ch ik]. unfold kd. rewrite Hpn. reflexivity.
      + unfold h2. rewrite kd_iset_ne by exact E2. reflexivity. }
  split; [|split; [split; [exact L3|exact Kn]|split; [exact Pc|split; [exact Pn|split; [exact Cp|exact Cn]]]]].
  constructor.
  - intros x a. destruct (Nat.eq_dec x p) as [E|E].
    + subst x. rewrite Cp, in_insert_before, in_remove_id by apply (w_nd h H).
      destruct (Nat.eq_dec a new) as [E2|E2].
      * subst a. rewrite Pc. tauto.
      * rewrite Pn by exact E2. rewrite (w_pc h H). tauto.
    + rewrite Cn by exact E. rewrite in_remove_id by apply (w_nd h H).
      destruct (Nat.eq_dec a new) as [E2|E2].
      * subst a. rewrite Pc. split; [tauto | intros X; congruence].
      * rewrite Pn by exact E2. rewrite (w_pc h H). tauto.
  - intros x. destruct (Nat.eq_dec x p) as [E|E].
    + subst x. rewrite Cp. apply nodup_insert_before.
      * apply nodup_remove_id. apply (w_nd h H).
      * intros C. destruct (proj1 (in_remove_id new _ new (w_nd h H p)) C) as [C2 _]. congruence.
    + rewrite Cn by exact E. apply nodup_remove_id. apply (w_nd h H).
  - rewrite L3. apply (w_len h H).
  - rewrite Pn by auto. apply (w_root h H).
Qed.

(* ---------- siblings ---------- *)
Lemma i_next_spec h x : (x < length h)%nat -> HWF h ->
  i_next h x = Ok (match par h x with None => None | Some p => next_in x (chl h p) end).
Proof.
  intros Hx H. destruct (nth_error_ex_lt h x Hx) as [n Hn].
  unfold i_next. rewrite (iget_ok _ _ _ Hn). cbn [bind]. unfold par. rewrite Hn.
  destruct (ipar n) as [p|] eqn:Ep; [|reflexivity].
  assert (Hp : par h x = Some p) by (unfold par; rewrite Hn; exact Ep).
  pose proof (hwf_par_lt _ _ _ H Hp) as Hplt. destruct (nth_error_ex_lt h p Hplt) as [pn Hpn].
  rewrite (iget_ok _ _ _ Hpn). cbn [bind]. unfold chl. rewrite Hpn. reflexivity.
Qed.

Lemma i_prev_spec h x : (x < length h)%nat -> HWF h ->
  i_prev h x = Ok (match par h x with None => None | Some p => prev_in x (chl h p) None end).
Proof.
  intros Hx H. destruct (nth_error_ex_lt h x Hx) as [n Hn].
  unfold i_prev. rewrite (iget_ok _ _ _ Hn). cbn [bind]. unfold par. rewrite Hn.
  destruct (ipar n) as [p|] eqn:Ep; [|reflexivity].
  assert (Hp : par h x = Some p) by (unfold par; rewrite Hn; exact Ep).
  pose proof (hwf_par_lt _ _ _ H Hp) as Hplt. destruct (nth_error_ex_lt h p Hplt) as [pn Hpn].
  rewrite (iget_ok _ _ _ Hpn). cbn [bind]. unfold chl. rewrite Hpn. reflexivity.
Qed.

Definition last_error {A} (l : list A) : option A := match rev l with [] => None | x :: _ => Some x end.
Lemma last_error_snoc {A} (l : list A) x : last_error (l ++ [x]) = Some x.
Proof. unfold last_error. rewrite rev_app_distr. reflexivity. Qed.
Lemma last_error_nil {A} : last_error (@nil A) = None.
Proof. reflexivity. Qed.
Lemma last_error_cons {A} (a : A) l : l <> [] -> last_error (a :: l) = last_error l.
Proof.
  intros Hl. destruct (exists_last Hl) as (l' & x & E). subst l.
  rewrite app_comm_cons, !last_error_snoc. reflexivity.
Qed.

Lemma next_in_split x l1 l2 : ~ In x l1 -> next_in x (l1 ++ x :: l2) = hd_error l2.
Proof.
  induction l1 as [|a t IH]; intros Hx.
  - cbn [app next_in]. destruct l2 as [|b l2']; [reflexivity|]. rewrite Nat.eqb_refl. reflexivity.
  - cbn [app]. assert (Ha : Nat.eqb x a = false) by (apply Nat.eqb_neq; intros C; apply Hx; left; congruence).
    cbn [next_in]. destruct (t ++ x :: l2) as [|b r] eqn:E; [destruct t; discriminate|].
    rewrite Ha. apply IH. intros C. apply Hx. right. exact C.
Qed.

Lemma prev_in_split x l1 l2 : forall pv, ~ In x l1 ->
  prev_in x (l1 ++ x :: l2) pv = match last_error l1 with Some y => Some y | None => pv end.
Proof.
  induction l1 as [|a t IH]; intros pv Hx.
  - cbn [app prev_in]. rewrite Nat.eqb_refl. reflexivity.
  - cbn [app prev_in]. assert (Ha : Nat.eqb x a = false) by (apply Nat.eqb_neq; intros C; apply Hx; left; congruence).
    rewrite Ha. rewrite IH by (intros C; apply Hx; right; exact C).
    destruct t as [|b t']; [reflexivity|]. rewrite (last_error_cons a (b :: t')) by discriminate.
    destruct (last_error (b :: t')) eqn:E; [reflexivity|].
    exfalso. unfold last_error in E. destruct (rev (b :: t')) eqn:E2; [|discriminate].
    apply (f_equal (@length nat)) in E2. rewrite rev_length in E2. discriminate.
Qed.

Lemma remove_id_split x l1 l2 : ~ In x l1 -> remove_id x (l1 ++ x :: l2) = l1 ++ l2.
Proof.
  induction l1 as [|a t IH]; intros Hx.
  - cbn. rewrite Nat.eqb_refl. reflexivity.
  - cbn [app remove_id]. assert (Ha : Nat.eqb x a = false) by (apply Nat.eqb_neq; intros C; apply Hx; left; congruence).
    rewrite Ha. rewrite IH by (intros C; apply Hx; right; exact C). reflexivity.
Qed.

Lemma insert_before_split x y l1 l2 : ~ In x l1 -> insert_before_id x y (l1 ++ x :: l2) = l1 ++ y :: x :: l2.
Proof.
  induction l1 as [|a t IH]; intros Hx.
  - cbn. rewrite Nat.eqb_refl. reflexivity.
  - cbn [app insert_before_id]. assert (Ha : Nat.eqb x a = false) by (apply Nat.eqb_neq; intros C; apply Hx; left; congruence).
    rewrite Ha. rewrite IH by (intros C; apply Hx; right; exact C). reflexivity.
Qed.

Lemma in_split_nodup (x : nat) l : In x l -> NoDup l -> exists l1 l2, l = l1 ++ x :: l2 /\ ~ In x l1 /\ ~ In x l2.
Proof.
  intros Hin Hnd. destruct (in_split _ _ Hin) as (l1 & l2 & E). subst l. exists l1, l2. split; [reflexivity|].
  apply NoDup_remove_2 in Hnd. split; intros C; apply Hnd; apply in_app_iff; tauto.
Qed.

(* the children list has no more entries than the heap has nodes *)
Lemma nodup_bounded_length (l : list nat) n : NoDup l -> (forall a, In a l -> (a < n)%nat) -> (length l <= n)%nat.
Proof.
  intros Hnd Hb. rewrite <- (seq_length n 0). apply NoDup_incl_length; [exact Hnd|].
  intros a Ha. apply in_seq. specialize (Hb a Ha). lia.
Qed.
Lemma chl_length_le h x : HWF h -> (length (chl h x) <= length h)%nat.
Proof.
  intros H. apply nodup_bounded_length; [apply (w_nd h H)|]. intros a Ha. eapply hwf_child_lt; eauto.
Qed.

(* ---------- new nodes ---------- *)
Definition fresh (k : ikind) : inode := {| ik := k; ipar := None; ich := [] |}.
Lemma nth_snoc {A} (l : list A) (a : A) y :
  nth_error (l ++ [a]) y = if Nat.eqb y (length l) then Some a else nth_error l y.
Proof.
  destruct (Nat.eqb_spec y (length l)) as [E|E].
  - subst y. rewrite nth_error_app2 by lia. rewrite Nat.sub_diag. reflexivity.
  - destruct (Nat.lt_ge_cases y (length l)) as [Hlt|Hge].
    + apply nth_error_app1. exact Hlt.
    + assert (H1 : nth_error l y = None) by (apply nth_error_None; lia). rewrite H1.
      apply nth_error_None. rewrite app_length. cbn. lia.
Qed.
Lemma par_snoc h k y : par (h ++ [fresh k]) y = par h y.
Proof.
  unfold par. rewrite nth_snoc. destruct (Nat.eqb_spec y (length h)) as [E|E]; [|reflexivity].
  subst y. cbn. assert (H1 : nth_error h (length h) = None) by (apply nth_error_None; lia). rewrite H1. reflexivity.
Qed.
Lemma chl_snoc h k y : chl (h ++ [fresh k]) y = chl h y.
Proof.
  unfold chl. rewrite nth_snoc. destruct (Nat.eqb_spec y (length h)) as [E|E]; [|reflexivity].
  subst y. cbn. assert (H1 : nth_error h (length h) = None) by (apply nth_error_None; lia). rewrite H1. reflexivity.
Qed.
Lemma kd_snoc h k y : kd (h ++ [fresh k]) y = if Nat.eqb y (length h) then Some k else kd h y.
Proof. unfold kd. rewrite nth_snoc. destruct (Nat.eqb y (length h)); reflexivity. Qed.
Lemma kd_snoc_old h k y : (y < length h)%nat -> kd (h ++ [fresh k]) y = kd h y.
Proof. intros H. rewrite kd_snoc. destruct (Nat.eqb_spec y (length h)); [lia|reflexivity]. Qed.
Lemma kd_snoc_new h k : kd (h ++ [fresh k]) (length h) = Some k.
Proof. rewrite kd_snoc, Nat.eqb_refl. reflexivity. Qed.
Lemma hwf_snoc h k : HWF h -> HWF (h ++ [fresh k]).
Proof.
  intros H. constructor.
  - intros x c. rewrite chl_snoc, par_snoc. apply (w_pc h H).
  - intros x. rewrite chl_snoc. apply (w_nd h H).
  - rewrite app_length. cbn. lia.
  - rewrite par_snoc. apply (w_root h H).
Qed.
Lemma ranked_snoc rk h k : Ranked rk h -> Ranked rk (h ++ [fresh k]).
Proof. intros R x p Hp. rewrite par_snoc in Hp. apply R. exact Hp. Qed.
Lemma new_inode_eq c k : new_inode c k = (cx_h c (i_h c ++ [fresh k]), length (i_h c)).
Proof. reflexivity. Qed.

(* re-ranking: a node without parent and children may take any rank *)
Definition rk_set (rk : nat -> nat) (x v : nat) : nat -> nat := fun y => if Nat.eqb y x then v else rk y.
Lemma ranked_rk_set rk h x v : HWF h -> Ranked rk h -> par h x = None -> chl h x = [] -> Ranked (rk_set rk x v) h.
Proof.
  intros H R Hp Hc a b Hab. unfold rk_set.
  destruct (Nat.eqb_spec a x) as [E|E]; [subst a; congruence|].
  destruct (Nat.eqb_spec b x) as [E2|E2].
  - subst b. apply (w_pc h H) in Hab. rewrite Hc in Hab. destruct Hab.
  - apply R. exact Hab.
Qed.
(* doubling leaves room between a parent and its children *)
Lemma ranked_double rk h : Ranked rk h -> Ranked (fun y => 2 * rk y)%nat h.
Proof. intros R a b Hab. specialize (R a b Hab). lia. Qed.
(* the root can be given rank 0 and everything else a positive rank *)
Lemma ranked_root0 rk h : HWF h -> Ranked rk h ->
  Ranked (fun y => if Nat.eqb y 0 then 0 else S (rk y))%nat h.
Proof.
  intros H R a b Hab. destruct (Nat.eqb_spec a 0) as [E|E].
  - subst a. rewrite (w_root h H) in Hab. discriminate.
  - destruct (Nat.eqb_spec b 0); [lia|]. specialize (R a b Hab). lia.
Qed.

(* ---------- kinds: updates, validity of the segments they carry ---------- *)
Lemma iupd_kind_spec h l k' : (l < length h)%nat ->
  exists h', iupd h l (fun m => iset_kind m k') = Ok h' /\ same_tree h h' /\
    kd h' l = Some k' /\ (forall y, y <> l -> kd h' y = kd h y).
Proof.
  intros Hl. destruct (nth_error_ex_lt h l Hl) as [n Hn]. rewrite (iupd_ok _ _ _ _ Hn).
  eexists. split; [reflexivity|]. split; [|split].
  - split; [apply length_iset|]. split; intros y.
    + destruct (Nat.eq_dec y l) as [E|E]; [subst y; rewrite par_iset_eq by exact Hl; unfold par; rewrite Hn; reflexivity | apply par_iset_ne; exact E].
    + destruct (Nat.eq_dec y l) as [E|E]; [subst y; rewrite chl_iset_eq by exact Hl; unfold chl; rewrite Hn; reflexivity | apply chl_iset_ne; exact E].
  - rewrite kd_iset_eq by exact Hl. reflexivity.
  - intros y Hy. apply kd_iset_ne. exact Hy.
Qed.

Definition is_dk (k : ikind) : bool := match k with IDelim _ _ _ _ _ _ _ _ => true | _ => false end.
Definition is_lk (k : ikind) : bool := match k with ILabel _ _ _ _ _ _ => true | _ => false end.
(* the delimiter view and the label view of the heap *)
Definition dv (h : iheap) (y : nat) : option ikind :=
  match kd h y with Some k => if is_dk k then Some k else None | None => None end.
Definition lv (h : iheap) (y : nat) : option ikind :=
  match kd h y with Some k => if is_lk k then Some k else None | None => None end.
Definition dl_same (h h' : iheap) : Prop := (forall y, dv h' y = dv h y) /\ (forall y, lv h' y = lv h y).
Lemma dl_same_refl h : dl_same h h.
Proof. split; auto. Qed.
Lemma dl_same_trans a b c : dl_same a b -> dl_same b c -> dl_same a c.
Proof. intros [D1 L1] [D2 L2]. split; intros y; [rewrite D2, D1 | rewrite L2, L1]; reflexivity. Qed.
Lemma dl_same_kinds h h' : same_kinds h h' -> dl_same h h'.
Proof. intros [_ K]. split; intros y; unfold dv, lv; rewrite K; reflexivity. Qed.
Lemma dv_some h y k : dv h y = Some k <-> kd h y = Some k /\ is_dk k = true.
Proof.
  unfold dv. destruct (kd h y) as [k0|]; [|split; [discriminate | intros [X _]; discriminate]].
  destruct (is_dk k0) eqn:E; split.
  - intros X. inversion X; subst. auto.
  - intros [X _]. exact X.
  - discriminate.
  - intros [X Y]. inversion X; subst. congruence.
Qed.
Lemma lv_some h y k : lv h y = Some k <-> kd h y = Some k /\ is_lk k = true.
Proof.
  unfold lv. destruct (kd h y) as [k0|]; [|split; [discriminate | intros [X _]; discriminate]].
  destruct (is_lk k0) eqn:E; split.
  - intros X. inversion X; subst. auto.
  - intros [X _]. exact X.
  - discriminate.
  - intros [X Y]. inversion X; subst. congruence.
Qed.
Lemma dl_same_snoc h k : is_dk k = false -> is_lk k = false -> dl_same h (h ++ [fresh k]).
Proof.
  intros Hd Hl. split; intros y; unfold dv, lv; rewrite kd_snoc; destruct (Nat.eqb_spec y (length h)) as [E|E]; try reflexivity.
  - rewrite Hd. subst y. destruct (kd h (length h)) eqn:E2; [apply kd_lt in E2; lia | reflexivity].
  - rewrite Hl. subst y. destruct (kd h (length h)) eqn:E2; [apply kd_lt in E2; lia | reflexivity].
Qed.
(* an update of a node that is neither delimiter nor label, to a kind that is neither *)
Lemma dl_same_upd h h' l k k' : kd h l = Some k -> is_dk k = false -> is_lk k = false ->
  is_dk k' = false -> is_lk k' = false -> kd h' l = Some k' -> (forall y, y <> l -> kd h' y = kd h y) -> dl_same h h'.
Proof.
  intros Hk Hd Hl Hd' Hl' Hk' Hn. split; intros y; unfold dv, lv; (destruct (Nat.eq_dec y l) as [E|E]; [subst y; rewrite Hk, Hk' | rewrite Hn by exact E; reflexivity]).
  - rewrite Hd, Hd'. reflexivity.
  - rewrite Hl, Hl'. reflexivity.
Qed.

Open Scope Z_scope.
Section KOK.
Variable src : bytes.
Variable lo : Z.      (* the start of the block's first line *)
Definition seg_in (s : seg) : Prop := 0 <= s_start s <= s_stop s /\ s_stop s <= zlen src.
Definition KOK (k : ikind) : Prop :=
  match k with
  | IText s _ _ raw => raw = false -> seg_in s
  | IDelim s _ _ len _ _ _ _ => 0 <= s_start s /\ 0 <= len /\ s_stop s = s_start s + len /\ s_stop s <= zlen src
  | ILabel s _ _ _ _ _ => seg_in s /\ lo <= s_stop s
  | IAutoLink _ s => seg_in s /\ s_pad s = 0 /\ s_fnl s = false
  | _ => True
  end.
Definition KOKh (h : iheap) : Prop := forall y k, kd h y = Some k -> KOK k.
Lemma kokh_snoc h k : KOKh h -> KOK k -> KOKh (h ++ [fresh k]).
Proof.
  intros H Hk y k0. rewrite kd_snoc. destruct (Nat.eqb y (length h)); [intros E; inversion E; subst; exact Hk | apply H].
Qed.
Lemma kokh_same h h' : same_kinds h h' -> KOKh h -> KOKh h'.
Proof. intros [_ K] H y k. rewrite K. apply H. Qed.
Lemma kokh_upd h h' l k' : KOKh h -> KOK k' -> kd h' l = Some k' -> (forall y, y <> l -> kd h' y = kd h y) -> KOKh h'.
Proof.
  intros H Hk Hl Hn y k. destruct (Nat.eq_dec y l) as [E|E].
  - subst y. rewrite Hl. intros X. inversion X; subst. exact Hk.
  - rewrite Hn by exact E. apply H.
Qed.
End KOK.
Close Scope Z_scope.

Definition Acyc (h : iheap) : Prop := exists rk, Ranked rk h.
Definition ctx_same (c c' : ictx) : Prop :=
  i_dfirst c' = i_dfirst c /\ i_dlast c' = i_dlast c /\ i_labels c' = i_labels c /\ i_bottoms c' = i_bottoms c.
Lemma ctx_same_refl c : ctx_same c c.
Proof. repeat split. Qed.
Lemma ctx_same_trans a b c : ctx_same a b -> ctx_same b c -> ctx_same a c.
Proof. intros (A1 & A2 & A3 & A4) (B1 & B2 & B3 & B4). repeat split; congruence. Qed.
Lemma ctx_same_cx_h c v : ctx_same c (cx_h c v).
Proof. repeat split. Qed.

(* ---------- MergeOrAppendTextSegment / MergeOrReplaceTextSegment ---------- *)
Lemma last_id_in l x : last_id l = Some x -> In x l.
Proof.
  unfold last_id. destruct (rev l) as [|y t] eqn:E; [discriminate|]. intros X. inversion X; subst y.
  apply in_rev. rewrite E. left. reflexivity.
Qed.

Lemma acyc_new_child h k p : HWF h -> Acyc h -> (p < length h)%nat ->
  exists rk, Ranked rk (h ++ [fresh k]) /\ (rk p < rk (length h))%nat.
Proof.
  intros H [rk R] Hp. exists (rk_set rk (length h) (S (rk p))). split.
  - apply ranked_rk_set; [apply hwf_snoc; exact H | apply ranked_snoc; exact R | |].
    + rewrite par_snoc. destruct (par h (length h)) eqn:E; [apply par_lt in E; lia | reflexivity].
    + rewrite chl_snoc. destruct (chl h (length h)) eqn:E; [reflexivity|].
      assert (X : In n (chl h (length h))) by (rewrite E; left; reflexivity). apply chl_lt in X. lia.
  - unfold rk_set. rewrite Nat.eqb_refl. destruct (Nat.eqb_spec p (length h)); lia.
Qed.

Section Merge.
Variable src : bytes.
Variable lo : Z.

(* a fresh text node appended under parent *)
Lemma fresh_append_spec c parent k :
  HWF (i_h c) -> KOKh src lo (i_h c) -> Acyc (i_h c) -> (parent < length (i_h c))%nat -> KOK src lo k ->
  is_dk k = false -> is_lk k = false ->
  exists h', i_append (i_h c ++ [fresh k]) parent (length (i_h c)) = Ok h' /\
    HWF h' /\ KOKh src lo h' /\ Acyc h' /\ dl_same (i_h c) h' /\ length h' = S (length (i_h c)) /\
    (forall y, (y < length (i_h c))%nat -> par h' y = par (i_h c) y) /\
    par h' (length (i_h c)) = Some parent /\ kd h' (length (i_h c)) = Some k /\
    chl h' parent = chl (i_h c) parent ++ [length (i_h c)] /\
    (forall y, y <> parent -> chl h' y = chl (i_h c) y).
Proof.
  intros H K A Hp Hk Hd Hl. set (h := i_h c) in *. set (h1 := h ++ [fresh k]).
  assert (W1 : HWF h1) by (apply hwf_snoc; exact H).
  assert (L1 : length h1 = S (length h)) by (unfold h1; rewrite app_length; cbn; lia).
  pose proof (w_len h H) as Hpos.
  destruct (i_append_spec h1 parent (length h) W1) as (h' & E & W' & (L' & K') & Pc & Pn & Cp & Cn); try lia.
  exists h'. split; [exact E|]. split; [exact W'|].
  assert (Hnotin : forall y, ~ In (length h) (chl h y)).
  { intros y C. apply (hwf_child_lt h y _ H) in C. lia. }
  split; [|split; [|split; [|split; [lia|split; [|split; [exact Pc|split; [|split]]]]]]].
  - eapply kokh_same; [split; [exact L'|exact K']|]. apply kokh_snoc; assumption.
  - destruct (acyc_new_child h k parent H A Hp) as (rk & R & Hlt). exists rk.
    eapply ranked_set_par; [exact R | exact Pc | exact Hlt | exact Pn].
  - eapply dl_same_trans; [apply dl_same_snoc; eassumption | apply dl_same_kinds; split; [exact L'|exact K']].
  - intros y Hy. rewrite Pn by lia. apply par_snoc.
  - rewrite K'. apply kd_snoc_new.
  - rewrite Cp. unfold h1. rewrite chl_snoc. rewrite remove_id_notin by apply Hnotin. reflexivity.
  - intros y Hy. rewrite Cn by exact Hy. unfold h1. rewrite chl_snoc. apply remove_id_notin. apply Hnotin.
Qed.

Lemma merge_or_append_spec c parent s :
  HWF (i_h c) -> KOKh src lo (i_h c) -> Acyc (i_h c) -> (parent < length (i_h c))%nat -> seg_in src s ->
  exists c', merge_or_append c parent s = Ok c' /\ HWF (i_h c') /\ KOKh src lo (i_h c') /\ Acyc (i_h c') /\
    ctx_same c c' /\ dl_same (i_h c) (i_h c') /\ (length (i_h c) <= length (i_h c'))%nat /\
    (forall y, (y < length (i_h c))%nat -> par (i_h c') y = par (i_h c) y).
Proof.
  intros H K A Hp Hs. destruct (nth_error_ex_lt _ _ Hp) as [pn Hpn].
  unfold merge_or_append. rewrite (iget_ok _ _ _ Hpn). cbn [bind].
  assert (Hfresh : exists c', (let '(c0, t) := new_inode c (mk_text s) in
                     h <- i_append (i_h c0) parent t ;; Ok (cx_h c0 h)) = Ok c' /\ HWF (i_h c') /\ KOKh src lo (i_h c') /\ Acyc (i_h c') /\
    ctx_same c c' /\ dl_same (i_h c) (i_h c') /\ (length (i_h c) <= length (i_h c'))%nat /\
    (forall y, (y < length (i_h c))%nat -> par (i_h c') y = par (i_h c) y)).
  { rewrite new_inode_eq. cbn [i_h cx_h].
    destruct (fresh_append_spec c parent (mk_text s) H K A Hp) as (h' & E & W' & K' & A' & D' & L' & Pn & _); [intros _; exact Hs|reflexivity|reflexivity|].
    rewrite E. cbn [bind]. eexists. split; [reflexivity|]. cbn [i_h cx_h].
    split; [exact W'|]. split; [exact K'|]. split; [exact A'|]. split; [repeat split|]. split; [exact D'|]. split; [lia|exact Pn]. }
  destruct (last_id (ich pn)) as [l|] eqn:El; [|exact Hfresh].
  assert (Hl : (l < length (i_h c))%nat).
  { apply last_id_in in El. apply (hwf_child_lt (i_h c) parent l H). unfold chl. rewrite Hpn. exact El. }
  destruct (nth_error_ex_lt _ _ Hl) as [ln Hln]. rewrite (iget_ok _ _ _ Hln). cbn [bind].
  destruct (ik ln) as [|ts soft hard raw| | | | | | | |] eqn:Ek; try exact Hfresh.
  destruct ((s_stop ts =? s_start s)%Z && negb soft) eqn:Ec; [|exact Hfresh].
  destruct (iupd_kind_spec (i_h c) l (IText (seg_with_stop ts (s_stop s)) soft hard raw) Hl) as (h' & E & T & Kl & Kn).
  rewrite E. cbn [bind]. eexists. split; [reflexivity|]. cbn [i_h cx_h].
  assert (Hkl : kd (i_h c) l = Some (IText ts soft hard raw)) by (unfold kd; rewrite Hln, Ek; reflexivity).
  split; [eapply hwf_same_tree; eassumption|]. split.
  - eapply kokh_upd; [exact K | | exact Kl | exact Kn].
    pose proof (K l _ Hkl) as Kt. cbn in Kt |- *. intros Hraw. specialize (Kt Hraw). unfold seg_in in *. cbn [seg_with_stop mksegp s_start s_stop].
    apply andb_prop in Ec. destruct Ec as [Ec _]. apply Z.eqb_eq in Ec. lia.
  - split; [destruct A as [rk R]; exists rk; eapply ranked_same_tree; eassumption|].
    split; [repeat split|]. split.
    + eapply dl_same_upd; [exact Hkl | | | | | exact Kl | exact Kn]; reflexivity.
    + destruct T as (L & P & C). split; [lia|]. intros y _. apply P.
Qed.
End Merge.

Lemma last_error_in {A} (l : list A) x : last_error l = Some x -> In x l.
Proof.
  unfold last_error. destruct (rev l) as [|y t] eqn:E; [discriminate|]. intros X. inversion X; subst y.
  apply in_rev. rewrite E. left. reflexivity.
Qed.

Section Merge2.
Variable src : bytes.
Variable lo : Z.

Lemma merge_or_replace_spec c parent n s :
  HWF (i_h c) -> KOKh src lo (i_h c) -> Acyc (i_h c) -> par (i_h c) n = Some parent -> seg_in src s ->
  exists c' m, merge_or_replace c parent n s = Ok c' /\ HWF (i_h c') /\ KOKh src lo (i_h c') /\ Acyc (i_h c') /\
    ctx_same c c' /\ dl_same (i_h c) (i_h c') /\ (length (i_h c) <= length (i_h c'))%nat /\
    par (i_h c') n = None /\
    (forall y, (y < length (i_h c))%nat -> y <> n -> par (i_h c') y = par (i_h c) y) /\
    (forall l1 l2, chl (i_h c) parent = l1 ++ n :: l2 -> ~ In n l1 -> chl (i_h c') parent = l1 ++ m ++ l2) /\
    (forall a, In a m -> (length (i_h c) <= a)%nat) /\
    (forall a, (length (i_h c) <= a)%nat -> par (i_h c') a = None \/ par (i_h c') a = Some parent).
Proof.
  intros H K A Hn Hs. set (h := i_h c) in *.
  pose proof (par_lt _ _ _ Hn) as Hnlt. pose proof (hwf_par_lt _ _ _ H Hn) as Hp.
  pose proof (w_len h H) as Hpos.
  unfold merge_or_replace. fold h. rewrite (i_prev_spec h n Hnlt H). cbn [bind]. rewrite Hn.
  assert (Hin : In n (chl h parent)) by (apply (w_pc h H); exact Hn).
  assert (Hnp : n <> parent).
  { destruct A as [rk R]. intros E. subst parent. specialize (R _ _ Hn). lia. }
  (* the replace path *)
  assert (Hrepl : exists c' m, (let '(c0, t) := new_inode c (mk_text s) in
                     h0 <- i_replace (i_h c0) parent n t ;; Ok (cx_h c0 h0)) = Ok c' /\
    HWF (i_h c') /\ KOKh src lo (i_h c') /\ Acyc (i_h c') /\
    ctx_same c c' /\ dl_same h (i_h c') /\ (length h <= length (i_h c'))%nat /\
    par (i_h c') n = None /\
    (forall y, (y < length h)%nat -> y <> n -> par (i_h c') y = par h y) /\
    (forall l1 l2, chl h parent = l1 ++ n :: l2 -> ~ In n l1 -> chl (i_h c') parent = l1 ++ m ++ l2) /\
    (forall a, In a m -> (length h <= a)%nat) /\
    (forall a, (length h <= a)%nat -> par (i_h c') a = None \/ par (i_h c') a = Some parent)).
  { rewrite new_inode_eq. cbn [i_h cx_h]. fold h. set (h1 := h ++ [fresh (mk_text s)]). set (t := length h).
    assert (W1 : HWF h1) by (apply hwf_snoc; exact H).
    assert (L1 : length h1 = S (length h)) by (unfold h1; rewrite app_length; cbn; lia).
    assert (Hn1 : par h1 n = Some parent) by (unfold h1; rewrite par_snoc; exact Hn).
    unfold i_replace.
    destruct (i_insert_before_spec h1 parent n t W1 Hn1) as (h2 & E2 & W2 & (L2 & K2) & Pt2 & Pn2 & Cp2 & Cn2); try (unfold t; lia).
    rewrite E2. cbn [bind].
    destruct (i_remove_spec h2 parent n W2) as (h3 & E3 & W3 & (L3 & K3) & Pc3 & Pn3 & _ & C3); [lia|].
    rewrite E3. cbn [bind]. exists (cx_h (cx_h c h1) h3), [t]. split; [reflexivity|]. cbn [i_h cx_h].
    assert (Hn2 : par h2 n = Some parent) by (rewrite Pn2 by (unfold t; lia); exact Hn1).
    assert (Hnotin : forall y, ~ In t (chl h y)).
    { intros y C. apply (hwf_child_lt h y _ H) in C. unfold t in C. lia. }
    split; [exact W3|]. split.
    { eapply kokh_same; [split; [exact L3|exact K3]|]. eapply kokh_same; [split; [exact L2|exact K2]|].
      apply kokh_snoc; [exact K|intros _; exact Hs]. }
    split.
    { destruct (acyc_new_child h (mk_text s) parent H A Hp) as (rk & R & Hlt). exists rk.
      eapply ranked_detach; [|exact (Pc3 Hn2)|exact Pn3].
      eapply ranked_set_par; [exact R | exact Pt2 | exact Hlt | exact Pn2]. }
    split; [repeat split|]. split.
    { eapply dl_same_trans; [apply (dl_same_snoc h (mk_text s)); reflexivity|].
      eapply dl_same_trans; apply dl_same_kinds; split; eassumption. }
    split; [lia|]. split; [exact (Pc3 Hn2)|]. split.
    { intros y Hy Hyn. rewrite Pn3 by exact Hyn. rewrite Pn2 by (unfold t; lia). unfold h1. apply par_snoc. }
    split.
    { intros l1 l2 El Hl1. rewrite C3. rewrite Hn2.
      replace (opt_nat_eqb (Some parent) (Some parent)) with true by (symmetry; apply opt_nat_eqb_true; reflexivity).
      rewrite Cp2. unfold h1. rewrite chl_snoc. fold h. rewrite (remove_id_notin t) by apply Hnotin.
      rewrite El. rewrite insert_before_split by exact Hl1.
      change (l1 ++ t :: n :: l2) with (l1 ++ [t] ++ n :: l2). rewrite app_assoc.
      rewrite remove_id_split.
      - rewrite <- app_assoc. reflexivity.
      - intros C. apply in_app_iff in C. destruct C as [C|[C|[]]]; [contradiction | unfold t in C; lia]. }
    split; [intros a [Ha|[]]; subst a; unfold t; lia|].
    intros a Ha. destruct (Nat.eq_dec a t) as [Eat|Eat].
    - right. subst a. rewrite Pn3 by (unfold t; lia). exact Pt2.
    - left. destruct (par h3 a) eqn:X; [apply par_lt in X; unfold t in Eat; lia|reflexivity]. }
  destruct (in_split_nodup n _ Hin (w_nd h H parent)) as (l1 & l2 & El & Hl1 & Hl2).
  assert (Epv : prev_in n (chl h parent) None = last_error l1).
  { rewrite El. rewrite prev_in_split by exact Hl1. destruct (last_error l1); reflexivity. }
  rewrite Epv.
  destruct (last_error l1) as [p|] eqn:Elast; [|exact Hrepl].
  assert (Hpin : In p (chl h parent)).
  { rewrite El. apply in_app_iff. left. apply last_error_in. exact Elast. }
  pose proof (hwf_child_lt h parent p H Hpin) as Hplt.
  destruct (nth_error_ex_lt _ _ Hplt) as [pn Hpn]. rewrite (iget_ok _ _ _ Hpn). cbn [bind].
  destruct (ik pn) as [|ts soft hard raw| | | | | | | |] eqn:Ek; try exact Hrepl.
  destruct ((s_stop ts =? s_start s)%Z && negb soft) eqn:Ec; [|exact Hrepl].
  destruct (iupd_kind_spec h p (IText (seg_with_stop ts (s_stop s)) soft hard raw) Hplt) as (h1 & E1 & T1 & Kl & Kn).
  rewrite E1. cbn [bind].
  assert (W1 : HWF h1) by (eapply hwf_same_tree; eassumption).
  destruct T1 as (L1 & P1 & C1).
  destruct (i_remove_spec h1 parent n W1) as (h3 & E3 & W3 & (L3 & K3) & Pc3 & Pn3 & _ & C3); [lia|].
  rewrite E3. cbn [bind]. exists (cx_h c h3), []. split; [reflexivity|]. cbn [i_h cx_h].
  assert (Hkl : kd h p = Some (IText ts soft hard raw)) by (unfold kd; rewrite Hpn, Ek; reflexivity).
  assert (Hn1 : par h1 n = Some parent) by (rewrite P1; exact Hn).
  split; [exact W3|]. split.
  { eapply kokh_same; [split; [exact L3|exact K3]|].
    eapply kokh_upd; [exact K | | exact Kl | exact Kn].
    pose proof (K p _ Hkl) as Kt. cbn in Kt |- *. intros Hraw. specialize (Kt Hraw). unfold seg_in in *. cbn [seg_with_stop mksegp s_start s_stop].
    apply andb_prop in Ec. destruct Ec as [Ec _]. apply Z.eqb_eq in Ec. lia. }
  split.
  { destruct A as [rk R]. exists rk. eapply ranked_detach; [|exact (Pc3 Hn1)|exact Pn3].
    eapply ranked_same_tree; [|exact R]. repeat split; assumption. }
  split; [repeat split|]. split.
  { eapply dl_same_trans; [|apply dl_same_kinds; split; eassumption].
    eapply dl_same_upd; [exact Hkl | | | | | exact Kl | exact Kn]; reflexivity. }
  split; [lia|]. split; [exact (Pc3 Hn1)|]. split.
  { intros y Hy Hyn. rewrite Pn3 by exact Hyn. apply P1. }
  split; [|split; [intros a []|]].
  - intros l1' l2' El' Hl1'. rewrite C3, Hn1.
    replace (opt_nat_eqb (Some parent) (Some parent)) with true by (symmetry; apply opt_nat_eqb_true; reflexivity).
    rewrite C1. fold h. rewrite El'. rewrite remove_id_split by exact Hl1'. reflexivity.
  - intros a Ha. left. destruct (par h3 a) eqn:X; [apply par_lt in X; lia|reflexivity].
Qed.
End Merge2.

(* ---------- InsertAfter ---------- *)
Lemma i_insert_after_spec h p ref new : HWF h -> par h ref = Some p -> (new < length h)%nat ->
  new <> p -> new <> 0%nat -> new <> ref ->
  exists h', i_insert_after h p ref new = Ok h' /\ HWF h' /\ same_kinds h h' /\
    par h' new = Some p /\ (forall y, y <> new -> par h' y = par h y).
Proof.
  intros H Hr Hnew Hne Hn0 Hnr.
  pose proof (par_lt _ _ _ Hr) as Hrlt. pose proof (hwf_par_lt _ _ _ H Hr) as Hp.
  destruct (nth_error_ex_lt h ref Hrlt) as [rn Hrn].
  unfold i_insert_after. rewrite (iget_ok _ _ _ Hrn). cbn [bind].
  assert (Ep : ipar rn = Some p) by (unfold par in Hr; rewrite Hrn in Hr; exact Hr).
  rewrite Ep. replace (opt_nat_eqb (Some p) (Some p)) with true by (symmetry; apply opt_nat_eqb_true; reflexivity).
  destruct (i_detach_spec h new H Hnew) as (h1 & E1 & W1 & (L1 & K1) & Pc1 & Pn1 & C1).
  rewrite E1. cbn [bind].
  assert (Hr1 : par h1 ref = Some p) by (rewrite Pn1 by congruence; exact Hr).
  rewrite (i_next_spec h1 ref) by (try lia; exact W1). cbn [bind]. rewrite Hr1.
  destruct (next_in ref (chl h1 p)) as [y|] eqn:Ey.
  - assert (Hy : par h1 y = Some p) by (apply (w_pc h1 W1); eapply next_in_in; exact Ey).
    destruct (i_insert_before_spec h1 p y new W1 Hy) as (h2 & E2 & W2 & (L2 & K2) & Pt2 & Pn2 & _); try lia; try assumption.
    exists h2. split; [exact E2|]. split; [exact W2|]. split.
    + split; [lia|]. intros z. rewrite K2, K1. reflexivity.
    + split; [exact Pt2|]. intros z Hz. rewrite Pn2 by exact Hz. apply Pn1. exact Hz.
  - destruct (i_append_spec h1 p new W1) as (h2 & E2 & W2 & (L2 & K2) & Pt2 & Pn2 & _); try lia; try congruence.
    exists h2. split; [exact E2|]. split; [exact W2|]. split.
    + split; [lia|]. intros z. rewrite K2, K1. reflexivity.
    + split; [exact Pt2|]. intros z Hz. rewrite Pn2 by exact Hz. apply Pn1. exact Hz.
Qed.

(* a fresh node replaces the child n of parent *)
Lemma replace_fresh_spec src lo h parent n k :
  HWF h -> KOKh src lo h -> Acyc h -> par h n = Some parent -> KOK src lo k ->
  is_dk k = false -> is_lk k = false ->
  exists h', i_replace (h ++ [fresh k]) parent n (length h) = Ok h' /\
    HWF h' /\ KOKh src lo h' /\ Acyc h' /\ dl_same h h' /\ length h' = S (length h) /\
    par h' n = None /\ (forall y, (y < length h)%nat -> y <> n -> par h' y = par h y) /\
    par h' (length h) = Some parent.
Proof.
  intros H K A Hn Hk Hdk Hlk.
  pose proof (par_lt _ _ _ Hn) as Hnlt. pose proof (hwf_par_lt _ _ _ H Hn) as Hp.
  pose proof (w_len h H) as Hpos.
  set (h1 := h ++ [fresh k]). set (t := length h).
  assert (W1 : HWF h1) by (apply hwf_snoc; exact H).
  assert (L1 : length h1 = S (length h)) by (unfold h1; rewrite app_length; cbn; lia).
  assert (Hn1 : par h1 n = Some parent) by (unfold h1; rewrite par_snoc; exact Hn).
  unfold i_replace.
  destruct (i_insert_before_spec h1 parent n t W1 Hn1) as (h2 & E2 & W2 & (L2 & K2) & Pt2 & Pn2 & Cp2 & Cn2); try (unfold t; lia).
  rewrite E2. cbn [bind].
  destruct (i_remove_spec h2 parent n W2) as (h3 & E3 & W3 & (L3 & K3) & Pc3 & Pn3 & _ & C3); [lia|].
  rewrite E3. exists h3. split; [reflexivity|].
  assert (Hn2 : par h2 n = Some parent) by (rewrite Pn2 by (unfold t; lia); exact Hn1).
  split; [exact W3|]. split.
  { eapply kokh_same; [split; [exact L3|exact K3]|]. eapply kokh_same; [split; [exact L2|exact K2]|].
    apply kokh_snoc; [exact K|exact Hk]. }
  split.
  { destruct (acyc_new_child h k parent H A Hp) as (rk & R & Hlt). exists rk.
    eapply ranked_detach; [|exact (Pc3 Hn2)|exact Pn3].
    eapply ranked_set_par; [exact R | exact Pt2 | exact Hlt | exact Pn2]. }
  split.
  { eapply dl_same_trans; [apply (dl_same_snoc h k); assumption|].
    eapply dl_same_trans; apply dl_same_kinds; split; eassumption. }
  split; [lia|]. split; [exact (Pc3 Hn2)|]. split.
  { intros y Hy Hyn. rewrite Pn3 by exact Hyn. rewrite Pn2 by (unfold t; lia). unfold h1. apply par_snoc. }
  rewrite Pn3 by (unfold t; lia). exact Pt2.
Qed.
