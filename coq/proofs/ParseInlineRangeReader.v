(* Helper file for ParseInlineRange.v: the block reader over the lines of one inline-bearing block
   (non-empty lines without padding): the invariant RI = BInv + source + lines + padding 0 and its
   preservation by PeekLine, Advance, AdvanceLine, SetPosition, SkipSpaces, FindClosure, ReadRune,
   with the position facts (start/stop of the position, order of positions) the inline parsers use. *)
Require Import GM.model.Base GM.model.Util GM.model.Reader GM.model.ReaderSpec GM.model.HtmlSpec
               GM.model.BlockParse GM.model.InlineParse.
Require Import GM.model.Regex GM.model.LinkDest GM.model.ListItem.
Require Import GM.proofs.BReaderProofs GM.proofs.ParseInv GM.proofs.RegexProofs.
From Coq Require Import ZArith Lia List Bool.
Import ListNotations.
Open Scope Z_scope.

(* ---------- lines_ok ---------- *)
Definition pads0 (l : list seg) : Prop := Forall (fun s => s_pad s = 0) l.

Lemma segs_sorted_b_ok l : segs_sorted_b l = true -> segs_sorted l.
Proof.
  induction l as [|a l IH]; cbn; [auto|]. destruct l as [|b l']; [auto|].
  rewrite andb_true_iff, Z.leb_le. intros [H1 H2]. split; [exact H1|apply IH; exact H2].
Qed.

Lemma lines_ok_segs src lines : lines_ok src lines -> segs_ok src lines /\ pads0 lines.
Proof.
  intros [H1 H2]. split; [split|].
  - rewrite forallb_forall in H1. apply Forall_forall. intros s Hs. specialize (H1 s Hs).
    unfold seg_ok_b in H1. rewrite !andb_true_iff, negb_true_iff, !Z.leb_le, Z.ltb_lt, Z.eqb_eq in H1.
    unfold seg_ok. lia.
  - apply segs_sorted_b_ok. exact H2.
  - rewrite forallb_forall in H1. apply Forall_forall. intros s Hs. specialize (H1 s Hs).
    unfold seg_ok_b in H1. rewrite !andb_true_iff, Z.eqb_eq in H1. tauto.
Qed.

(* ---------- byte strings ---------- *)
Lemma bytes_ok_app a b : bytes_ok a -> bytes_ok b -> bytes_ok (a ++ b).
Proof. unfold bytes_ok, all_bytes_b. rewrite forallb_app. intros -> ->. reflexivity. Qed.
Lemma bytes_ok_nil : bytes_ok [].
Proof. reflexivity. Qed.
Lemma bytes_ok_sub (v w : bytes) : (forall x, In x w -> In x v) -> bytes_ok v -> bytes_ok w.
Proof.
  unfold bytes_ok, all_bytes_b. rewrite !forallb_forall. intros Hs Hv x Hx. apply Hv. apply Hs. exact Hx.
Qed.
Lemma in_firstn {A} n (l : list A) x : In x (firstn n l) -> In x l.
Proof. revert l. induction n as [|n IH]; intros [|a l]; cbn; try tauto. intros [H|H]; auto. Qed.
Lemma in_skipn {A} n (l : list A) x : In x (skipn n l) -> In x l.
Proof. revert l. induction n as [|n IH]; intros [|a l]; cbn; try tauto. intros H; auto. Qed.
Lemma bytes_ok_firstn n v : bytes_ok v -> bytes_ok (firstn n v).
Proof. apply bytes_ok_sub. apply in_firstn. Qed.
Lemma bytes_ok_skipn n v : bytes_ok v -> bytes_ok (skipn n v).
Proof. apply bytes_ok_sub. apply in_skipn. Qed.
Lemma bytes_ok_spaces p : bytes_ok (spaces_n p).
Proof.
  unfold spaces_n, bytes_ok, all_bytes_b. rewrite forallb_forall. intros x Hx. apply repeat_spec in Hx. subst x. reflexivity.
Qed.
Lemma slice_bytes src a b v : bytes_ok src -> slice src a b = Ok v -> bytes_ok v.
Proof.
  unfold slice. intros Hs. destruct (_ && _ && _); [|discriminate]. intros H. inversion H.
  apply bytes_ok_firstn, bytes_ok_skipn. exact Hs.
Qed.
Lemma seg_value_bytes src t v : bytes_ok src -> seg_value src t = Ok v -> bytes_ok v.
Proof.
  unfold seg_value. intros Hs. destruct (slice src (s_start t) (s_stop t)) as [w| |] eqn:E; cbn [bind]; try discriminate.
  pose proof (slice_bytes _ _ _ _ Hs E) as Hw.
  set (r := if s_pad t =? 0 then w else if s_pad t <? 0 then w else spaces_n (s_pad t) ++ w).
  assert (Hr : bytes_ok r).
  { subst r. destruct (s_pad t =? 0); [exact Hw|]. destruct (s_pad t <? 0); [exact Hw|].
    apply bytes_ok_app; [apply bytes_ok_spaces|exact Hw]. }
  destruct (s_pad t <? 0); [discriminate|]. destruct (s_fnl t).
  - destruct (rev r) as [|c rr]; [intros H; inversion H; subst; exact Hr|].
    destruct (N.eqb c 10); intros H; inversion H; subst; [exact Hr|].
    apply bytes_ok_app; [exact Hr|reflexivity].
  - intros H; inversion H; subst; exact Hr.
Qed.

Lemma b_value_loop_bytes : forall fuel r sg line i acc v, bytes_ok (b_src r) -> bytes_ok acc ->
  b_value_loop fuel r sg line i acc = Ok v -> bytes_ok v.
Proof.
  induction fuel as [|f IH]; intros r sg line i acc v Hs Ha H; cbn [b_value_loop] in H; [discriminate|].
  destruct (line <? b_nsegs r); [|inversion H; subst; exact Ha].
  destruct (seg_at (b_segs r) line) as [s| |]; cbn [bind] in H; try discriminate.
  assert (Hp : forall t, bytes_ok (pad_bytes t)).
  { intros t. unfold pad_bytes. destruct (0 <? s_pad t); [apply bytes_ok_spaces|reflexivity]. }
  destruct (i <? 0).
  - destruct (copy_range (b_src r) (s_start s) (s_stop sg) (s_stop s)) as [w| |] eqn:Ec; cbn [bind] in H; try discriminate.
    assert (Hw : bytes_ok w).
    { unfold copy_range in Ec. destruct (_ <? _); [eapply slice_bytes; [exact Hs|exact Ec]|inversion Ec; reflexivity]. }
    destruct (s_stop sg <=? s_stop s).
    + inversion H; subst. repeat apply bytes_ok_app; auto.
    + eapply IH; [exact Hs| |exact H]. repeat apply bytes_ok_app; auto.
  - destruct (copy_range (b_src r) i (s_stop sg) (s_stop s)) as [w| |] eqn:Ec; cbn [bind] in H; try discriminate.
    assert (Hw : bytes_ok w).
    { unfold copy_range in Ec. destruct (_ <? _); [eapply slice_bytes; [exact Hs|exact Ec]|inversion Ec; reflexivity]. }
    destruct (s_stop sg <=? s_stop s).
    + inversion H; subst. repeat apply bytes_ok_app; auto.
    + eapply IH; [exact Hs| |exact H]. repeat apply bytes_ok_app; auto.
Qed.

Lemma b_value_bytes r sg v : bytes_ok (b_src r) -> b_value r sg = Ok v -> bytes_ok v.
Proof.
  unfold b_value. intros Hs. destruct (_ <? 0); [discriminate|].
  destruct (b_value_find_line _ _ _ _) as [line| |]; cbn [bind]; try discriminate.
  destruct (s_start sg <? 0).
  - apply b_value_loop_bytes; [exact Hs|reflexivity].
  - destruct (line <? 0).
    + destruct (0 <? b_nsegs r); [discriminate|]. intros H; inversion H. reflexivity.
    + apply b_value_loop_bytes; [exact Hs|reflexivity].
Qed.

Lemma bvalues_bytes r l v : bytes_ok (b_src r) -> bvalues r l = Ok v -> bytes_ok v.
Proof.
  intros Hs. revert v. induction l as [|x t IH]; intros v H; cbn [bvalues] in H.
  - inversion H. reflexivity.
  - destruct (b_value r x) as [a| |] eqn:Ea; cbn [bind] in H; try discriminate.
    destruct (bvalues r t) as [w| |] eqn:Ew; cbn [bind] in H; try discriminate.
    inversion H; subst. apply bytes_ok_app; [eapply b_value_bytes; eassumption|apply IH; reflexivity].
Qed.

(* ---------- padding 0 (no invariant needed) ---------- *)
Definition pad0 (r : breader) : Prop := s_pad (b_pos r) = 0 /\ pads0 (b_segs r).

Lemma seg_at_in l i s : seg_at l i = Ok s -> In s l.
Proof.
  unfold seg_at. destruct (_ && _); [|discriminate]. destruct (nth_error l (Z.to_nat i)) eqn:E; [|discriminate].
  intros H; inversion H; subst. eapply nth_error_In. exact E.
Qed.

Lemma pads0_in l s : pads0 l -> In s l -> s_pad s = 0.
Proof. intros H Hs. eapply (proj1 (Forall_forall _ l) H). exact Hs. Qed.

Lemma b_set_position_pad0 r line pos r' : b_set_position r line pos = Ok r' -> pads0 (b_segs r) ->
  (s_start pos = -1 -> s_pad (b_pos r) = 0) -> s_pad pos = 0 -> pad0 r' /\ b_segs r' = b_segs r /\ b_src r' = b_src r.
Proof.
  unfold b_set_position, b_nsegs. bsimpl. intros H Hp Hm Hpos.
  destruct (s_start pos =? -1) eqn:Em.
  - apply Z.eqb_eq in Em. destruct (line <? zlen (b_segs r)).
    + destruct (seg_at (b_segs r) line) as [s| |] eqn:Es; cbn [bind] in H; try discriminate.
      inversion H; subst r'. bsimpl. split; [|auto]. split; [|exact Hp]. bsimpl. eapply pads0_in; [exact Hp|eapply seg_at_in; exact Es].
    + inversion H; subst r'. bsimpl. split; [|auto]. split; [|exact Hp]. bsimpl. auto.
  - destruct (line <? zlen (b_segs r)).
    + destruct (seg_at (b_segs r) line) as [s| |] eqn:Es; cbn [bind] in H; try discriminate.
      inversion H; subst r'. bsimpl. split; [|auto]. split; [|exact Hp]. bsimpl. exact Hpos.
    + inversion H; subst r'. bsimpl. split; [|auto]. split; [|exact Hp]. bsimpl. exact Hpos.
Qed.

Lemma b_advance_line_pad0 r r' : b_advance_line r = Ok r' -> pad0 r -> pad0 r' /\ b_segs r' = b_segs r.
Proof.
  unfold b_advance_line. intros H [Hp Hs].
  destruct (b_set_position r (b_line r + 1) (mkseg (-1) (-1))) as [r1| |] eqn:E; cbn [bind] in H; try discriminate.
  inversion H; subst r'. destruct (b_set_position_pad0 _ _ _ _ E Hs) as ([P1 P2] & S1 & _); [auto|reflexivity|].
  split; [|exact S1]. split; [exact P1|exact P2].
Qed.

Lemma b_step_pad0 r r1 : b_step r = Ok r1 -> pad0 r -> pad0 r1 /\ b_segs r1 = b_segs r.
Proof.
  unfold b_step. intros H [Hp Hs]. rewrite Hp in H. cbn [Z.eqb negb] in H.
  destruct (_ && _).
  - apply b_advance_line_pad0; [exact H|split; assumption].
  - inversion H; subst r1. bsimpl. split; [|reflexivity]. split; bsimpl; auto.
Qed.

Lemma b_advance_slow_pad0 : forall fuel r n r', b_advance_slow fuel r n = Ok r' -> pad0 r -> pad0 r' /\ b_segs r' = b_segs r.
Proof.
  induction fuel as [|f IH]; intros r n r' H Hp; [discriminate|].
  rewrite b_advance_slow_step in H. destruct (0 <? n); [|inversion H; subst; auto].
  destruct (b_step r) as [r1| |] eqn:E; cbn [bind] in H; try discriminate.
  destruct (b_step_pad0 _ _ E Hp) as [Hp1 Hs1]. destruct (IH _ _ _ H Hp1) as [Hp' Hs']. split; [exact Hp'|congruence].
Qed.

Lemma b_advance_pad0 r n r' : b_advance r n = Ok r' -> pad0 r -> pad0 r' /\ b_segs r' = b_segs r.
Proof.
  unfold b_advance. intros H Hp. bsimpl. destruct (_ && _).
  - inversion H; subst r'. bsimpl. destruct Hp as [H1 H2]. split; [|reflexivity]. split; bsimpl; assumption.
  - eapply b_advance_slow_pad0 in H; [exact H|]. destruct Hp as [H1 H2]. split; bsimpl; assumption.
Qed.

(* ---------- the reader invariant of the inline phase ---------- *)
Record RI (src : bytes) (lines : list seg) (r : breader) : Prop := {
  ri_inv : BInv r;
  ri_src : b_src r = src;
  ri_segs : b_segs r = lines;
  ri_pad : s_pad (b_pos r) = 0;
  ri_ne : lines <> [];
  ri_pads : pads0 lines
}.

Lemma ri_pad0 src lines r : RI src lines r -> pad0 r.
Proof. intros H. split; [apply (ri_pad _ _ _ H)|rewrite (ri_segs _ _ _ H); apply (ri_pads _ _ _ H)]. Qed.

Lemma ri_mk src lines r r' : RI src lines r -> BInv r' -> b_src r' = b_src r -> b_segs r' = b_segs r -> pad0 r' -> RI src lines r'.
Proof.
  intros H Hi Hs Hg [Hp _]. constructor; try assumption.
  - rewrite Hs. apply (ri_src _ _ _ H).
  - rewrite Hg. apply (ri_segs _ _ _ H).
  - apply (ri_ne _ _ _ H).
  - apply (ri_pads _ _ _ H).
Qed.

(* the position is always inside the source *)
Lemma ri_bounds src lines r : RI src lines r -> 0 <= s_start (b_pos r) <= zlen src.
Proof.
  intros H. destruct (bi_bounds _ (ri_inv _ _ _ H)) as [(E & _)|(_ & _ & Hb)].
  - rewrite (ri_segs _ _ _ H) in E. exfalso. exact (ri_ne _ _ _ H E).
  - rewrite (ri_src _ _ _ H) in Hb. exact Hb.
Qed.

(* PeekLine *)
Lemma ri_peek src lines r r' line sg : RI src lines r -> b_peek_line r = Ok (r', line, sg) ->
  r' = r /\ sg = b_pos r /\
  match line with
  | Some v => b_in_range r = true /\ v = sub src (s_start sg) (s_stop sg) /\ zlen v = s_stop sg - s_start sg /\
              0 <= s_start sg /\ s_start sg < s_stop sg /\ s_stop sg <= zlen src /\ b_line r < zlen lines
  | None => b_in_range r = false
  end.
Proof.
  intros H Hp. rewrite (b_peek_line_view r (ri_inv _ _ _ H)) in Hp. inversion Hp; subst r' sg. clear Hp.
  split; [reflexivity|]. split; [reflexivity|]. destruct (b_in_range r) eqn:Hin; subst line; [|reflexivity].
  pose proof (view_length r (ri_inv _ _ _ H) Hin) as Hvl.
  destruct (binv_in r (ri_inv _ _ _ H) Hin) as (s & pre & post & Hn & El & Elen & Hok & Ha & Hb & Hc & Hd & Hle & _).
  unfold seg_ok in Hok. rewrite (ri_src _ _ _ H) in Hok.
  pose proof (in_range_true r Hin) as [Hl _]. rewrite (ri_segs _ _ _ H) in Hl.
  unfold b_view in *. rewrite (ri_pad _ _ _ H) in *. change (spaces_n 0) with (@nil N) in *. cbn [app] in *.
  rewrite (ri_src _ _ _ H) in *. repeat split; try lia.
Qed.

(* positions in reading order *)
Definition pos_le (r r' : breader) : Prop :=
  b_line r <= b_line r' /\
  (b_line r' = b_line r -> s_start (b_pos r) <= s_start (b_pos r') /\ s_stop (b_pos r') = s_stop (b_pos r)).
Lemma pos_le_refl r : pos_le r r.
Proof. split; [lia|]. intros _. lia. Qed.
Lemma pos_le_trans a b c : pos_le a b -> pos_le b c -> pos_le a c.
Proof.
  intros [A1 A2] [B1 B2]. split; [lia|]. intros E. assert (E1 : b_line b = b_line a) by lia.
  assert (E2 : b_line c = b_line b) by lia. specialize (A2 E1). specialize (B2 E2). lia.
Qed.

Lemma b_advance_line_line r r' : b_advance_line r = Ok r' -> b_line r' = b_line r + 1 /\
  (b_line r + 1 < zlen (b_segs r) -> nth_error (b_segs r) (Z.to_nat (b_line r + 1)) = Some (b_pos r')).
Proof.
  unfold b_advance_line, b_set_position, b_nsegs. bsimpl. change (-1 =? -1) with true. cbv iota.
  destruct (b_line r + 1 <? zlen (b_segs r)) eqn:El.
  - destruct (seg_at (b_segs r) (b_line r + 1)) as [s| |] eqn:Es; cbn [bind]; try discriminate.
    intros H; inversion H; subst r'. bsimpl. split; [reflexivity|]. intros _.
    unfold seg_at in Es. destruct (_ && _); [|discriminate]. destruct (nth_error _ _); inversion Es; reflexivity.
  - cbn [bind]. intros H; inversion H; subst r'. bsimpl. split; [reflexivity|]. apply Z.ltb_ge in El. lia.
Qed.

Lemma b_step_pos r r1 : b_step r = Ok r1 -> BInv r -> s_pad (b_pos r) = 0 -> pos_le r r1.
Proof.
  unfold b_step. intros H Hi Hp. rewrite Hp in H. cbn [Z.eqb negb] in H. destruct (_ && _).
  - apply b_advance_line_line in H. destruct H as [Hl _]. split; [lia|]. intros E. lia.
  - inversion H; subst r1. split; bsimpl; [lia|]. intros _. lia.
Qed.

Lemma b_advance_slow_pos : forall fuel r n r', BInv r -> b_loff r = -1 -> pad0 r ->
  0 <= n <= zlen (b_rest r) -> b_advance_slow fuel r n = Ok r' -> pos_le r r'.
Proof.
  induction fuel as [|f IH]; intros r n r' Hi Hl Hp Hn H; [discriminate|].
  rewrite b_advance_slow_step in H. destruct (Z.ltb_spec 0 n) as [Hpos|Hz]; [|inversion H; subst; apply pos_le_refl].
  assert (Hin : b_in_range r = true).
  { destruct (b_in_range r) eqn:E; [reflexivity|]. rewrite (b_rest_out r E) in Hn. unfold zlen in Hn. cbn [length] in Hn. lia. }
  destruct (b_step_spec r Hi Hl Hin) as (r1 & Hr1 & Hinv1 & Hl1 & Hsrc1 & Hsegs1 & Hrest1).
  rewrite Hr1 in H. cbn [bind] in H.
  pose proof (b_step_pos _ _ Hr1 Hi (proj1 Hp)) as P1.
  destruct (b_step_pad0 _ _ Hr1 Hp) as [Hp1 _].
  eapply pos_le_trans; [exact P1|]. eapply (IH r1 (n - 1)); try eassumption.
  rewrite Hrest1. unfold zlen in *. rewrite skipn_length. lia.
Qed.

Lemma ri_advance src lines r n r' : RI src lines r -> 0 <= n <= zlen (b_rest r) -> b_advance r n = Ok r' ->
  RI src lines r' /\ b_rest r' = skipn (Z.to_nat n) (b_rest r) /\ pos_le r r'.
Proof.
  intros H Hn Ha. destruct (b_advance_spec r n (ri_inv _ _ _ H) Hn) as (r2 & E2 & Hi2 & Hs2 & Hg2 & Hr2).
  rewrite Ha in E2. inversion E2; subst r2. clear E2.
  destruct (b_advance_pad0 _ _ _ Ha (ri_pad0 _ _ _ H)) as [Hp' _].
  split; [eapply ri_mk; eassumption|]. split; [exact Hr2|].
  unfold b_advance in Ha. bsimpl. destruct (_ && _) eqn:Ef.
  - inversion Ha; subst r'. split; bsimpl; [lia|]. intros _. lia.
  - eapply (b_advance_slow_pos _ (bset_loff r (-1)) n r') in Ha; [exact Ha| | | |].
    + apply binv_set_loff. exact (ri_inv _ _ _ H).
    + reflexivity.
    + destruct (ri_pad0 _ _ _ H) as [P1 P2]. split; assumption.
    + exact Hn.
Qed.

(* inside the current line *)
Lemma ri_rest_ge src lines r : RI src lines r -> b_in_range r = true ->
  s_stop (b_pos r) - s_start (b_pos r) <= zlen (b_rest r).
Proof.
  intros H Hin. rewrite (b_rest_in r Hin), zlen_app. pose proof (view_length r (ri_inv _ _ _ H) Hin) as Hv.
  rewrite (ri_pad _ _ _ H) in Hv. pose proof (zlen_nonneg (flat_map (seg_bytes (b_src r)) (skipn (Z.to_nat (b_line r + 1)) (b_segs r)))). lia.
Qed.

Lemma ri_advance_in src lines r n r' : RI src lines r -> b_in_range r = true ->
  0 <= n <= s_stop (b_pos r) - s_start (b_pos r) -> b_advance r n = Ok r' ->
  RI src lines r' /\ pos_le r r'.
Proof.
  intros H Hin Hn Ha. pose proof (ri_rest_ge _ _ _ H Hin) as Hr.
  destruct (ri_advance src lines r n r' H) as (H1 & _ & H3); [lia|exact Ha|]. split; assumption.
Qed.

(* strictly inside the line: the fast path *)
Lemma ri_advance_fast src lines r n r' : RI src lines r -> 0 <= n < s_stop (b_pos r) - s_start (b_pos r) ->
  b_advance r n = Ok r' ->
  b_line r' = b_line r /\ s_start (b_pos r') = s_start (b_pos r) + n /\ s_stop (b_pos r') = s_stop (b_pos r).
Proof.
  intros H Hn Ha. unfold b_advance in Ha. bsimpl. rewrite (ri_pad _ _ _ H) in Ha.
  replace (n <? s_stop (b_pos r) - s_start (b_pos r)) with true in Ha by lia. cbn in Ha.
  inversion Ha; subst r'. bsimpl. auto.
Qed.

Lemma ri_advance_line src lines r r' : RI src lines r -> b_advance_line r = Ok r' ->
  RI src lines r' /\ b_line r' = b_line r + 1 /\
  (b_line r' < zlen lines -> nth_error lines (Z.to_nat (b_line r')) = Some (b_pos r')).
Proof.
  intros H Ha. destruct (b_advance_line_spec r (ri_inv _ _ _ H)) as (r2 & E2 & Hi2 & Hs2 & Hg2 & _ & Hl2 & _).
  rewrite Ha in E2. inversion E2; subst r2. clear E2.
  destruct (b_advance_line_pad0 _ _ Ha (ri_pad0 _ _ _ H)) as [Hp' _].
  split; [eapply ri_mk; eassumption|]. split; [exact Hl2|].
  destruct (b_advance_line_line _ _ Ha) as [_ Hn]. rewrite (ri_segs _ _ _ H) in Hn. rewrite Hl2. exact Hn.
Qed.

(* SetPosition to a position saved from a reader of the same block *)
Lemma ri_set_position src lines r r0 r' : RI src lines r -> RI src lines r0 ->
  b_set_position r (b_line r0) (b_pos r0) = Ok r' ->
  RI src lines r' /\ b_line r' = b_line r0 /\ b_pos r' = b_pos r0.
Proof.
  intros H H0 Hs.
  destruct (b_set_position_spec r (b_line r0) (b_pos r0) (ri_inv _ _ _ H)) as (r2 & E2 & Hi2 & Hs2 & Hg2 & Hp2).
  - exists r0. split; [exact (ri_inv _ _ _ H0)|]. split; [rewrite (ri_src _ _ _ H0), (ri_src _ _ _ H); reflexivity|].
    split; [rewrite (ri_segs _ _ _ H0), (ri_segs _ _ _ H); reflexivity|reflexivity].
  - left. rewrite (ri_segs _ _ _ H). exact (ri_ne _ _ _ H).
  - rewrite Hs in E2. inversion E2; subst r2. clear E2. unfold b_position in Hp2.
    assert (Hl : b_line r' = b_line r0) by congruence. assert (Hp : b_pos r' = b_pos r0) by congruence.
    split; [|split; [exact Hl|exact Hp]]. apply (ri_mk src lines r r' H Hi2 Hs2 Hg2).
    split; [rewrite Hp; exact (ri_pad _ _ _ H0)|rewrite Hg2, (ri_segs _ _ _ H); exact (ri_pads _ _ _ H)].
Qed.

(* readers at the same position of the same block deliver the same *)
Lemma ri_same_rest src lines r r' : RI src lines r -> RI src lines r' -> b_line r' = b_line r -> b_pos r' = b_pos r ->
  b_rest r' = b_rest r /\ b_in_range r' = b_in_range r.
Proof.
  intros H H' El Ep. unfold b_rest, b_in_range, b_view, b_nsegs.
  rewrite El, Ep, (ri_src _ _ _ H), (ri_src _ _ _ H'), (ri_segs _ _ _ H), (ri_segs _ _ _ H').
  rewrite (bi_last _ (ri_inv _ _ _ H)), (bi_last _ (ri_inv _ _ _ H')), (ri_segs _ _ _ H), (ri_segs _ _ _ H'). auto.
Qed.

(* NewBlockReader *)
Lemma ri_new src lines r : lines_ok src lines -> lines <> [] -> new_block_reader src lines = Ok r -> RI src lines r.
Proof.
  intros Hl Hne Hn. destruct (lines_ok_segs _ _ Hl) as [Hs Hp].
  destruct (new_block_reader_spec src lines Hs) as (r2 & E2 & Hi & Hsrc & Hsegs). rewrite Hn in E2. inversion E2; subst r2.
  constructor; try assumption.
  unfold new_block_reader, b_reset_position in Hn.
  match type of Hn with (r <- ?X ;; _) = _ => destruct X as [r1| |] eqn:E1 end; cbn [bind] in Hn; try discriminate.
  assert (H1 : pad0 r1).
  { destruct (0 <? _) in E1.
    - destruct (seg_at _ _) in E1; cbn [bind] in E1; try discriminate. inversion E1; subst r1. split; [reflexivity|exact Hp].
    - inversion E1; subst r1. split; [reflexivity|exact Hp]. }
  apply b_advance_line_pad0 in Hn; [|exact H1]. exact (proj1 (proj1 Hn)).
Qed.

(* ---------- composite reader operations ---------- *)
Section Tables.
Variable space_table punct_table : list N.
Variable src : bytes.
Variable lines : list seg.
Notation RI := (RI src lines).

(* SkipSpaces *)
Lemma skip_spaces_inner_ri : forall line i r chars sg r' res, RI r ->
  zlen line <= zlen (b_rest r) ->
  skip_spaces_inner space_table breader b_advance line i r chars sg = Ok (r', res) -> RI r'.
Proof.
  induction line as [|c tl IH]; intros i r chars sg r' res H Hl Hs; cbn [skip_spaces_inner] in Hs.
  - inversion Hs; subst. exact H.
  - destruct (is_space space_table c); [|inversion Hs; subst; exact H].
    destruct (b_advance r 1) as [r1| |] eqn:E1; cbn [bind] in Hs; try discriminate.
    rewrite zlen_cons in Hl. pose proof (zlen_nonneg tl) as Ht.
    destruct (ri_advance src lines r 1 r1 H) as (H1 & Hr1 & _); [lia|exact E1|].
    eapply IH; [exact H1| |exact Hs]. rewrite Hr1. unfold zlen in *. rewrite skipn_length. lia.
Qed.

Lemma skip_spaces_ri : forall fuel r chars r' sg ch ok, RI r ->
  skip_spaces space_table breader b_peek_line b_advance fuel r chars = Ok (r', sg, ch, ok) -> RI r'.
Proof.
  induction fuel as [|f IH]; intros r chars r' sg ch ok H Hs; cbn [skip_spaces] in Hs; [discriminate|].
  destruct (b_peek_line r) as [[[r1 line] sg1]| |] eqn:Ep; cbn [bind] in Hs; try discriminate.
  destruct (ri_peek _ _ _ _ _ _ H Ep) as (-> & -> & Hline).
  destruct line as [l|]; [|inversion Hs; subst; exact H].
  destruct Hline as (Hin & Hv & Hlen & _).
  destruct (skip_spaces_inner _ _ _ l 0 r chars (b_pos r)) as [[r2 res]| |] eqn:Ei; cbn [bind] in Hs; try discriminate.
  assert (H2 : RI r2).
  { eapply skip_spaces_inner_ri; [exact H| |exact Ei]. pose proof (ri_rest_ge _ _ _ H Hin). lia. }
  destruct res as [[sg' ch']|]; [inversion Hs; subst; exact H2|]. eapply IH; eassumption.
Qed.

Lemma b_skip_spaces_ri fuel r r' sg ch ok : RI r -> b_skip_spaces space_table fuel r = Ok (r', sg, ch, ok) -> RI r'.
Proof. intros H Hs. eapply skip_spaces_ri; eassumption. Qed.

Lemma skip_spaces_r_ri r r' : RI r -> skip_spaces_r space_table r = Ok r' -> RI r'.
Proof.
  unfold skip_spaces_r. intros H Hs. destruct (b_skip_spaces _ _ _) as [[[[r1 sg] ch] ok]| |] eqn:E; cbn [bind] in Hs; try discriminate.
  inversion Hs; subst. eapply b_skip_spaces_ri; eassumption.
Qed.

(* FindClosure (with or without Advance) *)
Lemma fc_lines_pad0 opts o c : forall fuel r opened cso ret r' res, pad0 r ->
  fc_lines punct_table breader b_peek_line b_advance b_advance_line fuel opts o c r opened cso ret = Ok (r', res) -> pad0 r'.
Proof.
  induction fuel as [|f IH]; intros r opened cso ret r' res Hp H; cbn [fc_lines] in H; [discriminate|].
  unfold b_peek_line in H at 1. destruct (b_in_range r).
  - destruct (seg_value (b_src r) (b_pos r)) as [bs| |]; cbn [bind] in H; try discriminate.
    destruct (fc_scan _ _ _ _ _ _ _ _ _) as [sr| |]; cbn [bind] in H; try discriminate.
    destruct sr as [i| |op cs].
    + destruct (b_advance r (i + 1)) as [r1| |] eqn:E1; cbn [bind] in H; try discriminate.
      inversion H; subst. eapply b_advance_pad0; eassumption.
    + inversion H; subst. exact Hp.
    + destruct (negb (o_newline opts)); [inversion H; subst; exact Hp|].
      destruct (b_advance_line r) as [r1| |] eqn:E1; cbn [bind] in H; try discriminate.
      eapply IH; [|exact H]. eapply b_advance_line_pad0; eassumption.
  - cbn [bind] in H. inversion H; subst. exact Hp.
Qed.

Lemma b_find_closure_ri fuel r o c opts r' res : RI r ->
  b_find_closure punct_table fuel r o c opts = Ok (r', res) -> RI r'.
Proof.
  intros H Hf. destruct (b_find_closure_inv punct_table fuel r o c opts r' res (ri_inv _ _ _ H) Hf) as (Hi & Hs & Hg & Hpos).
  apply (ri_mk src lines r r' H Hi Hs Hg).
  unfold b_find_closure, find_closure, b_position in Hf.
  destruct (fc_lines _ _ _ _ _ _ _ _ _ _ _ _ _) as [[r1 res1]| |] eqn:E1; cbn [bind] in Hf; try discriminate.
  pose proof (fc_lines_pad0 _ _ _ _ _ _ _ _ _ _ (ri_pad0 _ _ _ H) E1) as Hp1.
  destruct (negb (o_advance opts)).
  - destruct (b_set_position r1 (b_line r) (b_pos r)) as [r2| |] eqn:E2; cbn [bind] in Hf; try discriminate.
    inversion Hf; subst. destruct (b_set_position_pad0 _ _ _ _ E2 (proj2 Hp1)) as (Hp2 & _).
    + intros _. exact (proj1 Hp1).
    + exact (ri_pad _ _ _ H).
    + exact Hp2.
  - cbn [bind] in Hf. inversion Hf; subst. exact Hp1.
Qed.

(* ReadRune and the input of the regular expression engine *)
Lemma encode_decode_len v rn w : decode_rune v = (rn, w) -> rn <> 65533%N -> zlen (encode_rune rn) <= Z.of_N w.
Proof.
  unfold decode_rune, encode_rune, valid_rune, cont, zlen. destruct v as [|c0 r0]; [intros H; inversion H; congruence|].
  repeat match goal with
  | |- context [if ?b then _ else _] => destruct b eqn:?
  | |- context [match ?l with [] => _ | _ :: _ => _ end] => destruct l
  end; intros H; inversion H; subst; intros Hn; try congruence; cbn [length]; try lia.
Qed.

Lemma rune_input_len : forall fuel r acc inp, RI r -> rune_input fuel r acc = Ok inp ->
  zlen inp <= zlen acc + zlen (b_rest r).
Proof.
  induction fuel as [|f IH]; intros r acc inp H Hr; cbn [rune_input] in Hr; [discriminate|].
  unfold b_read_rune, read_rune in Hr.
  destruct (b_peek_line r) as [[[r1 line] sg1]| |] eqn:Ep; cbn [bind] in Hr; try discriminate.
  destruct (ri_peek _ _ _ _ _ _ H Ep) as (-> & -> & Hline).
  destruct line as [l|]; cbn [bind] in Hr.
  2:{ inversion Hr; subst. pose proof (zlen_nonneg (b_rest r)). lia. }
  destruct Hline as (Hin & Hv & Hlen & Hs0 & Hs1 & _).
  destruct (decode_rune l) as [rn w] eqn:Ed.
  destruct (N.eqb_spec rn 65533) as [E|E]; cbn [bind] in Hr.
  { inversion Hr; subst. pose proof (zlen_nonneg (b_rest r)). lia. }
  destruct (b_advance r (Z.of_N w)) as [r2| |] eqn:Ea; cbn [bind] in Hr; try discriminate.
  assert (Hl : l <> []). { intros ->. unfold zlen in Hlen. cbn in Hlen. lia. }
  destruct (decode_rune_width _ _ _ Hl Ed) as [Hw1 Hw2].
  pose proof (ri_rest_ge _ _ _ H Hin) as Hrest.
  assert (Hwz : 0 <= Z.of_N w <= zlen (b_rest r)). { unfold zlen in *. lia. }
  destruct (ri_advance _ _ _ _ _ H Hwz Ea) as (H2 & Hr2 & _).
  specialize (IH r2 (acc ++ encode_rune rn) inp H2 Hr).
  rewrite zlen_app in IH. rewrite Hr2 in IH. pose proof (encode_decode_len _ _ _ Ed E) as He.
  unfold zlen in *. rewrite skipn_length in IH. lia.
Qed.

(* parseLinkDestination on the peeked line *)
Lemma angle_close_range : forall fuel l i k, angle_close punct_table fuel l i = Some k -> i <= k < i + zlen l.
Proof.
  induction fuel as [|f IH]; intros l i k H; cbn [angle_close] in H; [discriminate|].
  destruct l as [|c r]; [discriminate|]. rewrite zlen_cons. destruct r as [|d r'].
  - destruct (N.eqb c 62); inversion H; subst. change (zlen (@nil N)) with 0. lia.
  - rewrite zlen_cons. pose proof (zlen_nonneg r'). destruct (_ && _).
    + apply IH in H. lia.
    + destruct (N.eqb c 62); [inversion H; lia|]. apply IH in H. rewrite zlen_cons in H. lia.
Qed.

Lemma bare_end_range : forall fuel l i opened, i <= bare_end space_table punct_table fuel l i opened <= i + zlen l.
Proof.
  induction fuel as [|f IH]; intros l i opened; cbn [bare_end]; [pose proof (zlen_nonneg l); lia|].
  destruct l as [|c r]; [change (zlen (@nil N)) with 0; lia|]. rewrite zlen_cons. destruct r as [|d r'].
  - change (zlen (@nil N)) with 0.
    repeat match goal with |- context [if ?b then _ else _] => destruct b end; lia.
  - pose proof (IH r' (i + 2) opened) as I1. pose proof (IH (d :: r') (i + 1) (opened + 1)) as I2.
    pose proof (IH (d :: r') (i + 1) (opened - 1)) as I3. pose proof (IH (d :: r') (i + 1) opened) as I4.
    rewrite zlen_cons in *. pose proof (zlen_nonneg r').
    repeat match goal with |- context [if ?b then _ else _] => destruct b end; lia.
Qed.

Lemma parse_link_destination_range line d adv : parse_link_destination space_table punct_table line = Some (d, adv) ->
  0 <= adv <= zlen line /\ forall x, In x d -> In x line.
Proof.
  unfold parse_link_destination. intros H.
  assert (Hbare : forall i, i = bare_end space_table punct_table (S (length line)) line 0 0 ->
                   (if i =? 0 then None else Some (zfirst i line, i)) = Some (d, adv) ->
                  0 <= adv <= zlen line /\ forall x, In x d -> In x line).
  { intros i Hi. pose proof (bare_end_range (S (length line)) line 0 0) as Hb. rewrite <- Hi in Hb. clear Hi.
    destruct (i =? 0); [discriminate|].
    intros E. injection E as E1 E2. subst d adv. split; [lia|]. intros x Hx. unfold zfirst in Hx. eapply in_firstn. exact Hx. }
  destruct line as [|c rest]; [eapply Hbare; [reflexivity|exact H]|].
  destruct (N.eqb_spec c 60) as [->|Hne].
  - destruct (angle_close punct_table (S (length (60%N :: rest))) rest 1) as [i|] eqn:Ea; [|discriminate].
    injection H as E1 E2. subst d adv. apply angle_close_range in Ea. rewrite zlen_cons. split; [lia|].
    intros x Hx. right. unfold zfirst in Hx. eapply in_firstn. exact Hx.
  - eapply Hbare; [reflexivity|].
    destruct c as [|p]; [exact H|].
    do 7 (try (destruct p as [p|p|]; try exact H)). congruence.
Qed.

Lemma bytes_ok_subr a b : bytes_ok src -> bytes_ok (sub src a b).
Proof. intros H. unfold sub. apply bytes_ok_firstn, bytes_ok_skipn. exact H. Qed.

Lemma ri_in_range_len r : RI r -> b_in_range r = true -> s_start (b_pos r) < s_stop (b_pos r).
Proof.
  intros H Hin. destruct (binv_in r (ri_inv _ _ _ H) Hin) as (s & pre & post & Hn & El & Elen & Hok & Ha & Hb & _). exact Hb.
Qed.

Lemma ri_peek_in r c : RI r -> b_peek r = Ok c -> c <> 255%N -> b_in_range r = true.
Proof. unfold b_peek. intros H Hp Hc. destruct (b_in_range r); [reflexivity|]. inversion Hp. congruence. Qed.

Lemma ri_advance1 r r' : RI r -> b_in_range r = true -> b_advance r 1 = Ok r' -> RI r' /\ pos_le r r'.
Proof.
  intros H Hin Ha. pose proof (ri_in_range_len _ H Hin). eapply ri_advance_in; [exact H|exact Hin| |exact Ha]. lia.
Qed.

Lemma b_parse_link_destination_ri r r' dest : RI r -> bytes_ok src ->
  b_parse_link_destination space_table punct_table r = Ok (r', dest) ->
  RI r' /\ forall d, dest = Some d -> bytes_ok d.
Proof.
  unfold b_parse_link_destination. intros H Hb Hp.
  destruct (b_skip_spaces space_table (bfuel r) r) as [[[[r1 sg] ch] ok]| |] eqn:Es; cbn [bind] in Hp; try discriminate.
  pose proof (b_skip_spaces_ri _ _ _ _ _ _ H Es) as H1.
  destruct (b_peek_line r1) as [[[r2 line] sg2]| |] eqn:Ep; cbn [bind] in Hp; try discriminate.
  destruct (ri_peek _ _ _ _ _ _ H1 Ep) as (-> & -> & Hline).
  destruct (parse_link_destination space_table punct_table (line_of line)) as [[d adv]|] eqn:Ed.
  2:{ inversion Hp; subst. split; [exact H1|]. intros d Hd. discriminate. }
  destruct (b_advance r1 adv) as [r3| |] eqn:Ea; cbn [bind] in Hp; try discriminate.
  inversion Hp; subst r' dest. clear Hp.
  destruct (parse_link_destination_range _ _ _ Ed) as [Hadv Hsub].
  destruct line as [l|]; cbn [line_of] in *.
  - destruct Hline as (Hin & Hv & Hlen & _). split.
    + eapply ri_advance_in; [exact H1|exact Hin| |exact Ea]. lia.
    + intros d0 E0. inversion E0; subst d0. eapply bytes_ok_sub; [exact Hsub|]. rewrite Hv. apply bytes_ok_subr. exact Hb.
  - change (zlen (@nil N)) with 0 in Hadv. split.
    + destruct (ri_advance src lines r1 adv r3 H1) as (H3 & _); [pose proof (zlen_nonneg (b_rest r1)); lia|exact Ea|exact H3].
    + intros d0 E0. inversion E0; subst d0. eapply bytes_ok_sub; [exact Hsub|reflexivity].
Qed.

End Tables.
