(* Helper file for ParseInlineRange.v: the inline heap of model/InlineParse.v seen as three
   functions (kind, parent, children of a node number) and the effect of the tree surgery
   (i_detach, i_append, i_remove, i_insert_before, i_insert_after, i_replace) on them; the
   parent/children consistency of the heap (tree_ok) is preserved by every operation. *)
Require Import GM.model.Base GM.model.Util GM.model.Reader GM.model.HtmlSpec GM.model.BlockParse GM.model.InlineParse.
From Coq Require Import ZArith Lia List Bool.
Import ListNotations.
Open Scope Z_scope.

(* ---------- the heap as functions ---------- *)
Definition kd (h : iheap) (j : nat) : option ikind := option_map ik (nth_error h j).
Definition pr (h : iheap) (j : nat) : option nat := match nth_error h j with Some n => ipar n | None => None end.
Definition ch (h : iheap) (j : nat) : list nat := match nth_error h j with Some n => ich n | None => [] end.

Lemma iget_ok h i n : iget h i = Ok n -> nth_error h i = Some n.
Proof. unfold iget. destruct (nth_error h i); intros H; inversion H; reflexivity. Qed.

Lemma iget_some h i n : nth_error h i = Some n -> iget h i = Ok n.
Proof. unfold iget. intros ->. reflexivity. Qed.

Lemma iget_kd h i n : iget h i = Ok n -> kd h i = Some (ik n) /\ pr h i = ipar n /\ ch h i = ich n.
Proof. intros H. apply iget_ok in H. unfold kd, pr, ch. rewrite H. auto. Qed.

Lemma kd_valid h j k : kd h j = Some k -> (j < length h)%nat.
Proof. unfold kd. intros H. apply nth_error_Some. destruct (nth_error h j); [discriminate | discriminate]. Qed.

Lemma kd_none h j : (length h <= j)%nat -> kd h j = None.
Proof. intros H. unfold kd. apply nth_error_None in H. rewrite H. reflexivity. Qed.

Lemma pr_valid h j p : pr h j = Some p -> (j < length h)%nat.
Proof. unfold pr. intros H. apply nth_error_Some. destruct (nth_error h j); [discriminate | discriminate]. Qed.

Lemma ch_valid h j c : In c (ch h j) -> (j < length h)%nat.
Proof. unfold ch. intros H. apply nth_error_Some. destruct (nth_error h j); [discriminate | destruct H]. Qed.

Lemma valid_kd h j : (j < length h)%nat -> exists k, kd h j = Some k.
Proof.
  intros H. unfold kd. destruct (nth_error h j) as [n|] eqn:E.
  - exists (ik n). reflexivity.
  - apply nth_error_None in E. lia.
Qed.

Lemma length_iset h i n : length (iset h i n) = length h.
Proof. revert i. induction h as [|x t IH]; intros [|i]; cbn; auto. Qed.

Lemma nth_error_iset_eq h i n m : nth_error h i = Some m -> nth_error (iset h i n) i = Some n.
Proof. revert i. induction h as [|x t IH]; intros [|i] H; cbn in *; try discriminate; auto. Qed.

Lemma nth_error_iset_ne h i n j : j <> i -> nth_error (iset h i n) j = nth_error h j.
Proof.
  revert i j. induction h as [|x t IH]; intros [|i] [|j] H; cbn; auto; try congruence.
Qed.

(* one update of a node *)
Lemma iupd_spec h i f h' : iupd h i f = Ok h' ->
  exists n, nth_error h i = Some n /\ length h' = length h /\ nth_error h' i = Some (f n) /\
            forall j, j <> i -> nth_error h' j = nth_error h j.
Proof.
  unfold iupd. destruct (iget h i) as [n| |] eqn:E; cbn [bind]; intros H; inversion H; subst h'.
  apply iget_ok in E. exists n. split; [exact E|]. split; [apply length_iset|].
  split; [eapply nth_error_iset_eq; exact E|]. intros j Hj. apply nth_error_iset_ne. exact Hj.
Qed.

Lemma iset_spec h i n m : nth_error h i = Some m ->
  length (iset h i n) = length h /\ nth_error (iset h i n) i = Some n /\
  forall j, j <> i -> nth_error (iset h i n) j = nth_error h j.
Proof.
  intros E. split; [apply length_iset|]. split; [eapply nth_error_iset_eq; exact E|].
  intros j Hj. apply nth_error_iset_ne. exact Hj.
Qed.

(* the three kinds of update in terms of the views *)
Lemma upd_kind_view h i k h' n : nth_error h i = Some n ->
  length h' = length h -> nth_error h' i = Some (iset_kind n k) ->
  (forall j, j <> i -> nth_error h' j = nth_error h j) ->
  (forall j, kd h' j = if Nat.eqb j i then Some k else kd h j) /\
  (forall j, pr h' j = pr h j) /\ (forall j, ch h' j = ch h j).
Proof.
  intros E Hl Hi Hj. unfold kd, pr, ch.
  split; [|split]; intros j; destruct (Nat.eqb_spec j i) as [->|Hne];
    try rewrite Hi; try rewrite E; try rewrite (Hj j Hne); reflexivity.
Qed.

Lemma iupd_kind h i k h' : iupd h i (fun m => iset_kind m k) = Ok h' ->
  (i < length h)%nat /\ length h' = length h /\
  (forall j, kd h' j = if Nat.eqb j i then Some k else kd h j) /\
  (forall j, pr h' j = pr h j) /\ (forall j, ch h' j = ch h j).
Proof.
  intros H. apply iupd_spec in H. destruct H as (n & E & Hl & Hi & Hj).
  split; [apply nth_error_Some; congruence|]. split; [exact Hl|].
  eapply upd_kind_view; eauto.
Qed.

Lemma iupd_par h i p h' : iupd h i (fun m => iset_par m p) = Ok h' ->
  (i < length h)%nat /\ length h' = length h /\
  (forall j, kd h' j = kd h j) /\
  (forall j, pr h' j = if Nat.eqb j i then p else pr h j) /\ (forall j, ch h' j = ch h j).
Proof.
  intros H. apply iupd_spec in H. destruct H as (n & E & Hl & Hi & Hj).
  split; [apply nth_error_Some; congruence|]. split; [exact Hl|]. unfold kd, pr, ch.
  split; [|split]; intros j; destruct (Nat.eqb_spec j i) as [->|Hne];
    try rewrite Hi; try rewrite E; try rewrite (Hj j Hne); reflexivity.
Qed.

Lemma iupd_ch h i g h' : iupd h i (fun m => iset_ch m (g (ich m))) = Ok h' ->
  (i < length h)%nat /\ length h' = length h /\
  (forall j, kd h' j = kd h j) /\
  (forall j, pr h' j = pr h j) /\ (forall j, ch h' j = if Nat.eqb j i then g (ch h j) else ch h j).
Proof.
  intros H. apply iupd_spec in H. destruct H as (n & E & Hl & Hi & Hj).
  split; [apply nth_error_Some; congruence|]. split; [exact Hl|]. unfold kd, pr, ch.
  split; [|split]; intros j; destruct (Nat.eqb_spec j i) as [->|Hne];
    try rewrite Hi; try rewrite E; try rewrite (Hj j Hne); reflexivity.
Qed.

(* a fresh node *)
Lemma new_inode_view c k c' x : new_inode c k = (c', x) ->
  x = length (i_h c) /\ length (i_h c') = S (length (i_h c)) /\
  i_dfirst c' = i_dfirst c /\ i_dlast c' = i_dlast c /\ i_labels c' = i_labels c /\ i_bottoms c' = i_bottoms c /\
  (forall j, kd (i_h c') j = if Nat.eqb j x then Some k else kd (i_h c) j) /\
  (forall j, pr (i_h c') j = pr (i_h c) j) /\ (forall j, ch (i_h c') j = ch (i_h c) j).
Proof.
  unfold new_inode. intros H. inversion H; subst c' x. clear H. cbn [i_h cx_h i_dfirst i_dlast i_labels i_bottoms].
  split; [reflexivity|]. split; [rewrite app_length; cbn; lia|].
  repeat (split; [reflexivity|]). unfold kd, pr, ch.
  split; [|split]; intros j.
  - destruct (Nat.eqb_spec j (length (i_h c))) as [->|Hne].
    + rewrite nth_error_app2 by lia. rewrite Nat.sub_diag. reflexivity.
    + destruct (Nat.lt_ge_cases j (length (i_h c))) as [Hlt|Hge].
      * rewrite nth_error_app1 by exact Hlt. reflexivity.
      * rewrite (proj2 (nth_error_None (i_h c) j)) by lia.
        rewrite (proj2 (nth_error_None _ j)); [reflexivity|]. rewrite app_length. cbn. lia.
  - destruct (Nat.lt_ge_cases j (length (i_h c))) as [Hlt|Hge].
    + rewrite nth_error_app1 by exact Hlt. reflexivity.
    + rewrite (proj2 (nth_error_None (i_h c) j)) by lia.
      destruct (Nat.eq_dec j (length (i_h c))) as [->|Hne].
      * rewrite nth_error_app2 by lia. rewrite Nat.sub_diag. reflexivity.
      * rewrite (proj2 (nth_error_None _ j)); [reflexivity|]. rewrite app_length. cbn. lia.
  - destruct (Nat.lt_ge_cases j (length (i_h c))) as [Hlt|Hge].
    + rewrite nth_error_app1 by exact Hlt. reflexivity.
    + rewrite (proj2 (nth_error_None (i_h c) j)) by lia.
      destruct (Nat.eq_dec j (length (i_h c))) as [->|Hne].
      * rewrite nth_error_app2 by lia. rewrite Nat.sub_diag. reflexivity.
      * rewrite (proj2 (nth_error_None _ j)); [reflexivity|]. rewrite app_length. cbn. lia.
Qed.

(* ---------- lists of node numbers ---------- *)
Lemma in_remove_id x l y : In y (remove_id x l) -> In y l.
Proof.
  induction l as [|z t IH]; cbn; [auto|]. destruct (Nat.eqb x z); cbn; intros H; [auto|].
  destruct H; auto.
Qed.

Lemma remove_id_notin x l : ~ In x l -> remove_id x l = l.
Proof.
  induction l as [|z t IH]; cbn; [auto|]. intros H. destruct (Nat.eqb_spec x z) as [->|Hne].
  - exfalso. apply H. auto.
  - f_equal. apply IH. intros Hx. apply H. auto.
Qed.

Lemma remove_id_nodup x l : NoDup l -> NoDup (remove_id x l) /\ ~ In x (remove_id x l) /\
  forall y, y <> x -> In y l -> In y (remove_id x l).
Proof.
  induction l as [|z t IH]; cbn; intros Hnd.
  - split; [constructor|]. split; auto.
  - inversion Hnd as [|z' t' Hz Ht]; subst. destruct (Nat.eqb_spec x z) as [->|Hne].
    + split; [exact Ht|]. split; [exact Hz|]. intros y Hy [E|Hin]; [congruence|exact Hin].
    + destruct (IH Ht) as (H1 & H2 & H3). split.
      * constructor; [|exact H1]. intros Hin. apply Hz. eapply in_remove_id. exact Hin.
      * split.
        -- cbn. intros [E|Hin]; [congruence|auto].
        -- intros y Hy [E|Hin]; cbn; [auto|]. right. apply H3; assumption.
Qed.

Lemma in_insert_before x y l z : In z (insert_before_id x y l) <-> z = y \/ In z l.
Proof.
  induction l as [|w t IH]; cbn.
  - intuition.
  - destruct (Nat.eqb x w); cbn; [intuition|]. rewrite IH. intuition.
Qed.

Lemma nodup_insert_before x y l : NoDup l -> ~ In y l -> NoDup (insert_before_id x y l).
Proof.
  induction l as [|w t IH]; cbn; intros Hnd Hy.
  - constructor; [intros []|constructor].
  - destruct (Nat.eqb x w).
    + constructor; [exact Hy|exact Hnd].
    + inversion Hnd as [|w' t' Hw Ht]; subst. constructor.
      * rewrite in_insert_before. intros [E|Hin]; [apply Hy; cbn; auto|auto].
      * apply IH; [exact Ht|]. intros Hin. apply Hy. cbn. auto.
Qed.

Lemma nodup_snoc (l : list nat) y : NoDup l -> ~ In y l -> NoDup (l ++ [y]).
Proof.
  induction l as [|w t IH]; cbn; intros Hnd Hy.
  - constructor; [intros []|constructor].
  - inversion Hnd as [|w' t' Hw Ht]; subst. constructor.
    + rewrite in_app_iff. cbn. intros [Hin|[E|[]]]; [auto|]. apply Hy. auto.
    + apply IH; [exact Ht|]. intros Hin. apply Hy. auto.
Qed.

Lemma opt_nat_eqb_true a b : opt_nat_eqb a b = true <-> a = b.
Proof.
  destruct a as [x|], b as [y|]; cbn; split; intros H; try discriminate; try reflexivity.
  - apply Nat.eqb_eq in H. congruence.
  - inversion H. apply Nat.eqb_refl.
Qed.

(* ---------- parent / children consistency ---------- *)
Record tree_ok (h : iheap) : Prop := {
  t_child : forall p c, In c (ch h p) -> pr h c = Some p;
  t_nodup : forall p, NoDup (ch h p);
  t_par : forall x p, pr h x = Some p -> In x (ch h p)
}.

(* what a tree operation does: kinds and length unchanged, new parent and children functions *)
Definition tree_step (h h' : iheap) (P : nat -> option nat) (C : nat -> list nat) : Prop :=
  length h' = length h /\ (forall j, kd h' j = kd h j) /\ (forall j, pr h' j = P j) /\ (forall j, ch h' j = C j).

Lemma i_detach_view h c h' : i_detach h c = Ok h' -> tree_ok h ->
  tree_step h h' (fun j => if Nat.eqb j c then None else pr h j)
                 (fun j => if opt_nat_eqb (pr h c) (Some j) then remove_id c (ch h j) else ch h j).
Proof.
  unfold i_detach. intros H Hok. destruct (iget h c) as [n| |] eqn:E; cbn [bind] in H; try discriminate.
  apply iget_kd in E. destruct E as (Ek & Ep & Ec).
  destruct (ipar n) as [p|] eqn:Epar.
  - destruct (iupd h p _) as [h1| |] eqn:E1; cbn [bind] in H; try discriminate.
    apply (iupd_ch h p (remove_id c)) in E1. destruct E1 as (_ & L1 & K1 & P1 & C1).
    apply iupd_par in H. destruct H as (_ & L2 & K2 & P2 & C2).
    split; [congruence|]. split; [intros j; rewrite K2; apply K1|].
    split.
    + intros j. rewrite P2, P1. reflexivity.
    + intros j. rewrite C2, C1. rewrite Ep. cbn [opt_nat_eqb]. rewrite Nat.eqb_sym. reflexivity.
  - inversion H; subst h'. split; [reflexivity|]. split; [reflexivity|]. split.
    + intros j. destruct (Nat.eqb_spec j c) as [->|Hne]; [congruence | reflexivity].
    + intros j. rewrite Ep. reflexivity.
Qed.

(* detaching keeps the tree consistent; the node is then in no list *)
Lemma i_detach_ok h c h' : i_detach h c = Ok h' -> tree_ok h ->
  tree_ok h' /\ pr h' c = None /\ (forall j, ~ In c (ch h' j)) /\
  length h' = length h /\ (forall j, kd h' j = kd h j) /\
  (forall j, j <> c -> pr h' j = pr h j) /\
  (forall j y, In y (ch h' j) -> In y (ch h j)) /\
  (forall j y, y <> c -> In y (ch h j) -> In y (ch h' j)) /\
  (forall j, pr h c <> Some j -> ch h' j = ch h j) /\
  (forall j, pr h c = Some j -> ch h' j = remove_id c (ch h j)).
Proof.
  intros H Hok. destruct (i_detach_view h c h' H Hok) as (L & K & P & C).
  assert (Hnot : forall j, ~ In c (ch h' j)).
  { intros j. rewrite C. destruct (opt_nat_eqb (pr h c) (Some j)) eqn:E.
    - apply (remove_id_nodup c (ch h j) (t_nodup h Hok j)).
    - intros Hin. apply (t_child h Hok) in Hin. rewrite Hin in E. cbn in E. rewrite Nat.eqb_refl in E. discriminate. }
  assert (Hsub : forall j y, In y (ch h' j) -> In y (ch h j)).
  { intros j y. rewrite C. destruct (opt_nat_eqb (pr h c) (Some j)); [apply in_remove_id | auto]. }
  assert (Hkeep : forall j y, y <> c -> In y (ch h j) -> In y (ch h' j)).
  { intros j y Hy Hin. rewrite C. destruct (opt_nat_eqb (pr h c) (Some j)); [|exact Hin].
    apply (remove_id_nodup c (ch h j) (t_nodup h Hok j)); assumption. }
  split; [|split; [|split; [exact Hnot|split; [exact L|split; [exact K|split; [|split; [exact Hsub|split; [exact Hkeep|split]]]]]]]].
  - constructor.
    + intros p x Hin. rewrite P. destruct (Nat.eqb_spec x c) as [->|Hne].
      * exfalso. exact (Hnot p Hin).
      * apply (t_child h Hok). apply Hsub. exact Hin.
    + intros p. rewrite C. destruct (opt_nat_eqb (pr h c) (Some p)); [|apply (t_nodup h Hok)].
      apply (remove_id_nodup c (ch h p) (t_nodup h Hok p)).
    + intros x p. rewrite P. destruct (Nat.eqb_spec x c) as [->|Hne]; [discriminate|].
      intros Hx. apply Hkeep; [exact Hne|]. apply (t_par h Hok). exact Hx.
  - rewrite P. rewrite Nat.eqb_refl. reflexivity.
  - intros j Hj. rewrite P. destruct (Nat.eqb_spec j c); [contradiction|reflexivity].
  - intros j Hj. rewrite C. destruct (opt_nat_eqb (pr h c) (Some j)) eqn:E; [|reflexivity].
    apply opt_nat_eqb_true in E. contradiction.
  - intros j Hj. rewrite C. rewrite Hj. cbn. rewrite Nat.eqb_refl. reflexivity.
Qed.

(* appending: c becomes the last child of p *)
Lemma i_append_ok h p c h' : i_append h p c = Ok h' -> tree_ok h ->
  tree_ok h' /\ length h' = length h /\ (forall j, kd h' j = kd h j) /\
  (p < length h)%nat /\ (c < length h)%nat /\
  pr h' c = Some p /\ (forall j, j <> c -> pr h' j = pr h j) /\
  (forall j y, In y (ch h' j) -> (j = p /\ y = c) \/ (y <> c /\ In y (ch h j))) /\
  (forall j y, y <> c -> In y (ch h j) -> In y (ch h' j)) /\
  In c (ch h' p) /\
  (forall j, j <> p -> pr h c <> Some j -> ch h' j = ch h j) /\
  (exists l, ch h' p = l ++ [c] /\ (forall y, In y l <-> (y <> c /\ In y (ch h p))) /\
             (pr h c <> Some p -> l = ch h p) /\ (pr h c = Some p -> l = remove_id c (ch h p))).
Proof.
  unfold i_append. intros H Hok.
  destruct (i_detach h c) as [h1| |] eqn:E1; cbn [bind] in H; try discriminate.
  destruct (i_detach_ok h c h1 E1 Hok) as (Hok1 & Pc1 & Hnot1 & L1 & K1 & P1 & Sub1 & Keep1 & Same1 & Rem1).
  destruct (iupd h1 c _) as [h2| |] eqn:E2; cbn [bind] in H; try discriminate.
  apply iupd_par in E2. destruct E2 as (Vc & L2 & K2 & P2 & C2).
  apply (iupd_ch h2 p (fun l => l ++ [c])) in H. destruct H as (Vp & L3 & K3 & P3 & C3).
  assert (Hch : forall j, ch h' j = if Nat.eqb j p then ch h1 j ++ [c] else ch h1 j).
  { intros j. rewrite C3, C2. reflexivity. }
  assert (Hpr : forall j, pr h' j = if Nat.eqb j c then Some p else pr h1 j).
  { intros j. rewrite P3, P2. reflexivity. }
  split; [|split; [congruence|split; [intros j; rewrite K3, K2; apply K1|split; [lia|split; [lia|]]]]].
  - constructor.
    + intros q x. rewrite Hch, Hpr. destruct (Nat.eqb_spec q p) as [->|Hq].
      * rewrite in_app_iff. cbn. intros [Hin|[E|[]]].
        -- destruct (Nat.eqb_spec x c) as [->|Hx]; [reflexivity|]. apply (t_child h1 Hok1). exact Hin.
        -- subst x. rewrite Nat.eqb_refl. reflexivity.
      * intros Hin. destruct (Nat.eqb_spec x c) as [->|Hx].
        -- exfalso. exact (Hnot1 q Hin).
        -- apply (t_child h1 Hok1). exact Hin.
    + intros q. rewrite Hch. destruct (Nat.eqb_spec q p) as [->|Hq]; [|apply (t_nodup h1 Hok1)].
      apply nodup_snoc; [apply (t_nodup h1 Hok1)|apply Hnot1].
    + intros x q. rewrite Hpr, Hch. destruct (Nat.eqb_spec x c) as [->|Hx].
      * intros E. inversion E; subst q. rewrite Nat.eqb_refl. rewrite in_app_iff. cbn. auto.
      * intros Hx1. apply (t_par h1 Hok1) in Hx1. destruct (Nat.eqb q p); [rewrite in_app_iff; auto|exact Hx1].
  - split; [rewrite Hpr, Nat.eqb_refl; reflexivity|].
    split; [intros j Hj; rewrite Hpr; destruct (Nat.eqb_spec j c); [contradiction|apply P1; exact Hj]|].
    split.
    { intros j y. rewrite Hch. destruct (Nat.eqb_spec j p) as [->|Hj].
      - rewrite in_app_iff. cbn. intros [Hin|[E|[]]].
        + right. split; [intros ->; exact (Hnot1 p Hin)|apply Sub1; exact Hin].
        + left. auto.
      - intros Hin. right. split; [intros ->; exact (Hnot1 j Hin)|apply Sub1; exact Hin]. }
    split.
    { intros j y Hy Hin. rewrite Hch. destruct (Nat.eqb j p); [rewrite in_app_iff; left|]; apply Keep1; assumption. }
    split.
    { rewrite Hch, Nat.eqb_refl, in_app_iff. cbn. auto. }
    split.
    { intros j Hj Hc. rewrite Hch. destruct (Nat.eqb_spec j p); [contradiction|]. apply Same1. exact Hc. }
    exists (ch h1 p). split; [rewrite Hch, Nat.eqb_refl; reflexivity|]. split; [|split].
    + intros y. split.
      * intros Hin. split; [intros ->; exact (Hnot1 p Hin)|apply Sub1; exact Hin].
      * intros [Hy Hin]. apply Keep1; assumption.
    + intros Hc. apply Same1. exact Hc.
    + intros Hc. apply Rem1. exact Hc.
Qed.

(* membership-level description of attaching / detaching a node *)
Definition attach_spec (h h' : iheap) (p c : nat) : Prop :=
  tree_ok h' /\ length h' = length h /\ (forall j, kd h' j = kd h j) /\
  (p < length h)%nat /\ (c < length h)%nat /\
  pr h' c = Some p /\ (forall j, j <> c -> pr h' j = pr h j) /\
  (forall j y, In y (ch h' j) <-> (j = p /\ y = c) \/ (y <> c /\ In y (ch h j))).
Definition detach_spec (h h' : iheap) (c : nat) : Prop :=
  tree_ok h' /\ length h' = length h /\ (forall j, kd h' j = kd h j) /\
  pr h' c = None /\ (forall j, j <> c -> pr h' j = pr h j) /\
  (forall j y, In y (ch h' j) <-> (y <> c /\ In y (ch h j))).

Lemma i_detach_spec h c h' : i_detach h c = Ok h' -> tree_ok h -> detach_spec h h' c.
Proof.
  intros H Hok. destruct (i_detach_ok h c h' H Hok) as (Hok1 & Pc1 & Hnot1 & L1 & K1 & P1 & Sub1 & Keep1 & _).
  split; [exact Hok1|]. split; [exact L1|]. split; [exact K1|]. split; [exact Pc1|]. split; [exact P1|].
  intros j y. split.
  - intros Hin. split; [intros ->; exact (Hnot1 j Hin)|apply Sub1; exact Hin].
  - intros [Hy Hin]. apply Keep1; assumption.
Qed.

Lemma i_append_spec h p c h' : i_append h p c = Ok h' -> tree_ok h -> attach_spec h h' p c.
Proof.
  intros H Hok. destruct (i_append_ok h p c h' H Hok) as (Hok1 & L1 & K1 & Vp & Vc & Pc & P1 & Sub1 & Keep1 & Hin1 & _).
  split; [exact Hok1|]. split; [exact L1|]. split; [exact K1|]. split; [exact Vp|]. split; [exact Vc|].
  split; [exact Pc|]. split; [exact P1|].
  intros j y. split.
  - apply Sub1.
  - intros [[-> ->]|[Hy Hin]]; [exact Hin1|apply Keep1; assumption].
Qed.

Lemma i_remove_spec h p c h' : i_remove h p c = Ok h' -> tree_ok h ->
  (pr h c = Some p /\ detach_spec h h' c) \/ (pr h c <> Some p /\ h' = h).
Proof.
  unfold i_remove. intros H Hok. destruct (iget h c) as [n| |] eqn:E; cbn [bind] in H; try discriminate.
  apply iget_kd in E. destruct E as (_ & Ep & _). rewrite <- Ep in H.
  destruct (opt_nat_eqb (pr h c) (Some p)) eqn:Eq.
  - left. apply opt_nat_eqb_true in Eq. split; [exact Eq|]. apply i_detach_spec; assumption.
  - right. split; [|inversion H; reflexivity]. intros C. apply opt_nat_eqb_true in C. congruence.
Qed.

Lemma i_insert_before_spec h p ref new h' : i_insert_before h p ref new = Ok h' -> tree_ok h -> attach_spec h h' p new.
Proof.
  unfold i_insert_before. intros H Hok. destruct (iget h ref) as [r| |] eqn:E; cbn [bind] in H; try discriminate.
  destruct (opt_nat_eqb (ipar r) (Some p)); [|apply i_append_spec; assumption].
  destruct (i_detach h new) as [h1| |] eqn:E1; cbn [bind] in H; try discriminate.
  destruct (i_detach_ok h new h1 E1 Hok) as (Hok1 & Pc1 & Hnot1 & L1 & K1 & P1 & Sub1 & Keep1 & _).
  destruct (iupd h1 p _) as [h2| |] eqn:E2; cbn [bind] in H; try discriminate.
  apply (iupd_ch h1 p (insert_before_id ref new)) in E2. destruct E2 as (Vp & L2 & K2 & P2 & C2).
  apply iupd_par in H. destruct H as (Vc & L3 & K3 & P3 & C3).
  assert (Hch : forall j, ch h' j = if Nat.eqb j p then insert_before_id ref new (ch h1 j) else ch h1 j).
  { intros j. rewrite C3, C2. reflexivity. }
  assert (Hpr : forall j, pr h' j = if Nat.eqb j new then Some p else pr h1 j).
  { intros j. rewrite P3, P2. reflexivity. }
  assert (Hmem : forall j y, In y (ch h' j) <-> (j = p /\ y = new) \/ (y <> new /\ In y (ch h j))).
  { intros j y. rewrite Hch. destruct (Nat.eqb_spec j p) as [->|Hj].
    - rewrite in_insert_before. split.
      + intros [->|Hin]; [left; auto|]. right. split; [intros ->; exact (Hnot1 p Hin)|apply Sub1; exact Hin].
      + intros [[_ ->]|[Hy Hin]]; [left; reflexivity|right; apply Keep1; assumption].
    - split.
      + intros Hin. right. split; [intros ->; exact (Hnot1 j Hin)|apply Sub1; exact Hin].
      + intros [[-> _]|[Hy Hin]]; [contradiction|apply Keep1; assumption]. }
  split; [|split; [congruence|split; [intros j; rewrite K3, K2; apply K1|split; [lia|split; [lia|
          split; [rewrite Hpr, Nat.eqb_refl; reflexivity|split; [|exact Hmem]]]]]]].
  - constructor.
    + intros q x Hin. rewrite Hpr. apply Hmem in Hin. destruct Hin as [[-> ->]|[Hx Hin]].
      * rewrite Nat.eqb_refl. reflexivity.
      * destruct (Nat.eqb_spec x new); [contradiction|]. rewrite P1 by assumption. apply (t_child h Hok). exact Hin.
    + intros q. rewrite Hch. destruct (Nat.eqb_spec q p) as [->|Hq]; [|apply (t_nodup h1 Hok1)].
      apply nodup_insert_before; [apply (t_nodup h1 Hok1)|apply Hnot1].
    + intros x q. rewrite Hpr. destruct (Nat.eqb_spec x new) as [->|Hx].
      * intros E'. inversion E'; subst q. apply Hmem. left. auto.
      * intros Hx1. apply Hmem. right. split; [exact Hx|]. apply (t_par h Hok). rewrite <- P1 by assumption. exact Hx1.
  - intros j Hj. rewrite Hpr. destruct (Nat.eqb_spec j new); [contradiction|apply P1; exact Hj].
Qed.

Lemma i_next_in h x y : i_next h x = Ok (Some y) -> exists p, pr h x = Some p /\ In y (ch h p).
Proof.
  unfold i_next. destruct (iget h x) as [n| |] eqn:E; cbn [bind]; try discriminate.
  apply iget_kd in E. destruct E as (_ & Ep & _). destruct (ipar n) as [p|]; [|discriminate].
  destruct (iget h p) as [pn| |] eqn:E2; cbn [bind]; try discriminate.
  apply iget_kd in E2. destruct E2 as (_ & _ & Ec). intros H. inversion H as [Hn]. exists p. split; [exact Ep|].
  rewrite Ec. clear -Hn. induction (ich pn) as [|a l IH]; cbn in Hn; [discriminate|].
  destruct l as [|b l']; [discriminate|]. destruct (Nat.eqb x a).
  - inversion Hn; subst. cbn. auto.
  - right. apply IH. exact Hn.
Qed.

Lemma prev_in_in x l : forall acc y, prev_in x l acc = Some y -> acc = Some y \/ In y l.
Proof.
  induction l as [|a l IH]; intros acc y H; cbn in H; [discriminate|].
  destruct (Nat.eqb x a); [left; exact H|]. apply IH in H. destruct H as [H|H]; [inversion H; cbn; auto|cbn; auto].
Qed.

Lemma i_prev_in h x y : i_prev h x = Ok (Some y) -> exists p, pr h x = Some p /\ In y (ch h p).
Proof.
  unfold i_prev. destruct (iget h x) as [n| |] eqn:E; cbn [bind]; try discriminate.
  apply iget_kd in E. destruct E as (_ & Ep & _). destruct (ipar n) as [p|]; [|discriminate].
  destruct (iget h p) as [pn| |] eqn:E2; cbn [bind]; try discriminate.
  apply iget_kd in E2. destruct E2 as (_ & _ & Ec). intros H. inversion H as [Hn]. exists p. split; [exact Ep|].
  rewrite Ec. apply prev_in_in in Hn. destruct Hn as [Hn|Hn]; [discriminate|exact Hn].
Qed.

Lemma i_insert_after_spec h p ref new h' : i_insert_after h p ref new = Ok h' -> tree_ok h -> attach_spec h h' p new.
Proof.
  unfold i_insert_after. intros H Hok. destruct (iget h ref) as [r| |] eqn:E; cbn [bind] in H; try discriminate.
  destruct (opt_nat_eqb (ipar r) (Some p)); [|apply i_append_spec; assumption].
  destruct (i_detach h new) as [h1| |] eqn:E1; cbn [bind] in H; try discriminate.
  pose proof (i_detach_spec h new h1 E1 Hok) as (Hok1 & L1 & K1 & Pc1 & P1 & M1).
  destruct (i_next h1 ref) as [nx| |] eqn:E2; cbn [bind] in H; try discriminate.
  assert (Hatt : attach_spec h1 h' p new).
  { destruct nx as [y|]; [apply (i_insert_before_spec h1 p y new)|apply i_append_spec]; assumption. }
  destruct Hatt as (Hok2 & L2 & K2 & Vp & Vc & Pc2 & P2 & M2).
  split; [exact Hok2|]. split; [congruence|]. split; [intros j; rewrite K2; apply K1|].
  split; [lia|]. split; [lia|]. split; [exact Pc2|]. split.
  - intros j Hj. rewrite P2 by exact Hj. apply P1. exact Hj.
  - intros j y. rewrite M2, M1. tauto.
Qed.

(* ReplaceChild: new takes old's place *)
Lemma i_replace_spec h p old new h' : i_replace h p old new = Ok h' -> tree_ok h -> old <> new ->
  exists h1, attach_spec h h1 p new /\
    ((pr h old = Some p /\ detach_spec h1 h' old) \/ (pr h old <> Some p /\ h' = h1)).
Proof.
  unfold i_replace. intros H Hok Hne.
  destruct (i_insert_before h p old new) as [h1| |] eqn:E1; cbn [bind] in H; try discriminate.
  pose proof (i_insert_before_spec h p old new h1 E1 Hok) as Hatt.
  exists h1. split; [exact Hatt|].
  destruct Hatt as (Hok1 & L1 & K1 & Vp & Vc & Pc1 & P1 & M1).
  rewrite <- (P1 old Hne). apply i_remove_spec; assumption.
Qed.

(* ---------- kinds ---------- *)
Definition cls (k : ikind) : nat :=
  match k with
  | IRoot => 0 | IText _ _ _ _ => 1 | ICodeSpan => 2 | IEmphasis _ => 3 | ILink _ _ => 4 | IImage _ _ => 5
  | IAutoLink _ _ => 6 | IRawHTML _ => 7 | IDelim _ _ _ _ _ _ _ _ => 8 | ILabel _ _ _ _ _ _ => 9
  end%nat.
Definition is_text (k : ikind) : bool := match k with IText _ _ _ _ => true | _ => false end.

(* every node of h is a node of h' of the same class *)
Definition kle (h h' : iheap) : Prop := forall j k, kd h j = Some k -> exists k', kd h' j = Some k' /\ cls k' = cls k.
Lemma kle_refl h : kle h h.
Proof. intros j k H. exists k. auto. Qed.
Lemma kle_trans a b c : kle a b -> kle b c -> kle a c.
Proof.
  intros H1 H2 j k H. destruct (H1 j k H) as (k1 & E1 & C1). destruct (H2 j k1 E1) as (k2 & E2 & C2).
  exists k2. split; [exact E2|congruence].
Qed.
Lemma kle_same h h' : (forall j, kd h' j = kd h j) -> kle h h'.
Proof. intros H j k E. exists k. rewrite H. auto. Qed.
Lemma kle_length h h' : kle h h' -> (length h <= length h')%nat.
Proof.
  intros H. destruct (Nat.le_gt_cases (length h) (length h')) as [Hle|Hgt]; [exact Hle|].
  destruct (valid_kd h (length h')) as [k Hk]; [lia|]. destruct (H _ _ Hk) as (k' & E & _).
  apply kd_valid in E. lia.
Qed.

(* ---------- the heap invariant ---------- *)
Lemma seg_in_iff src s : seg_in src s = true <->
  (0 <= s_start s /\ s_start s <= s_stop s /\ s_stop s <= zlen src /\ 0 <= s_pad s).
Proof. unfold seg_in. rewrite !andb_true_iff, !Z.leb_le. tauto. Qed.

Section Inv.
Variable src : bytes.

Definition kind_ok (k : ikind) : Prop :=
  match k with
  | IText s _ _ _ => seg_in src s = true
  | ILink d t | IImage d t => all_bytes_b d = true /\ (forall x, t = Some x -> all_bytes_b x = true)
  | IRawHTML segs => forallb (seg_in src) segs = true
  | IDelim s _ _ len _ _ _ _ => seg_in src s = true /\ 0 <= len /\ s_stop s = s_start s + len
  | ILabel s _ _ _ _ _ => seg_in src s = true
  | _ => True
  end.

Record heap_ok (h : iheap) : Prop := {
  h_tree : tree_ok h;
  h_kind : forall j k, kd h j = Some k -> kind_ok k;
  h_cs : forall p c k, kd h p = Some ICodeSpan -> In c (ch h p) -> kd h c = Some k -> is_text k = true
}.

(* the edge p -> c may be added *)
Definition edge_ok (h : iheap) (p c : nat) : Prop :=
  kd h p = Some ICodeSpan -> forall k, kd h c = Some k -> is_text k = true.

Lemma heap_ok_attach h h' p c : attach_spec h h' p c -> heap_ok h -> edge_ok h p c -> heap_ok h' /\ kle h h'.
Proof.
  intros (Hok' & L & K & Vp & Vc & Pc & P & M) [Ht Hk Hc] He. split; [|apply kle_same; exact K].
  constructor; [exact Hok'| |].
  - intros j k. rewrite K. apply Hk.
  - intros q x k. rewrite !K, M. intros Hq [[-> ->]|[Hx Hin]] Hx'.
    + apply He; assumption.
    + eapply Hc; eassumption.
Qed.

Lemma heap_ok_detach h h' c : detach_spec h h' c -> heap_ok h -> heap_ok h' /\ kle h h'.
Proof.
  intros (Hok' & L & K & Pc & P & M) [Ht Hk Hc]. split; [|apply kle_same; exact K].
  constructor; [exact Hok'| |].
  - intros j k. rewrite K. apply Hk.
  - intros q x k. rewrite !K, M. intros Hq [Hx Hin] Hx'. eapply Hc; eassumption.
Qed.

(* a change of the kind of node i within its class *)
Definition kind_step (h h' : iheap) (i : nat) (k' : ikind) : Prop :=
  length h' = length h /\ (forall j, kd h' j = if Nat.eqb j i then Some k' else kd h j) /\
  (forall j, pr h' j = pr h j) /\ (forall j, ch h' j = ch h j).

Lemma tree_ok_same h h' : (forall j, pr h' j = pr h j) -> (forall j, ch h' j = ch h j) -> tree_ok h -> tree_ok h'.
Proof.
  intros P C [T1 T2 T3]. constructor.
  - intros p c. rewrite C, P. apply T1.
  - intros p. rewrite C. apply T2.
  - intros x p. rewrite C, P. apply T3.
Qed.

Lemma heap_ok_kind h h' i k k' : kind_step h h' i k' -> kd h i = Some k -> cls k' = cls k -> kind_ok k' ->
  heap_ok h -> heap_ok h' /\ kle h h'.
Proof.
  intros (L & K & P & C) Hi Hcls Hko [Ht Hk Hc]. split.
  - constructor.
    + eapply tree_ok_same; eassumption.
    + intros j kj. rewrite K. destruct (Nat.eqb_spec j i) as [->|Hj]; [intros E; inversion E; subst; exact Hko|apply Hk].
    + intros q x kx. rewrite !K, C. destruct (Nat.eqb_spec q i) as [->|Hq].
      * intros E. inversion E; subst k'. assert (Hki : k = ICodeSpan) by (destruct k; cbn in Hcls; try discriminate; reflexivity).
        subst k. intros Hin. destruct (Nat.eqb_spec x i) as [->|Hx].
        -- intros E'. inversion E'; subst kx. apply (Hc i i ICodeSpan Hi Hin Hi).
        -- intros E'. eapply (Hc i x); eassumption.
      * intros Hq' Hin. destruct (Nat.eqb_spec x i) as [->|Hx].
        -- intros E. inversion E; subst kx. pose proof (Hc q i k Hq' Hin Hi) as Ht'.
           destruct k; cbn in Ht'; try discriminate. destruct k'; cbn in Hcls; try discriminate. reflexivity.
        -- intros E'. eapply (Hc q x); eassumption.
  - intros j kj Hj. rewrite K. destruct (Nat.eqb_spec j i) as [->|Hne].
    + exists k'. split; [reflexivity|]. congruence.
    + exists kj. auto.
Qed.

Lemma heap_ok_new c k c' x : new_inode c k = (c', x) -> kind_ok k -> heap_ok (i_h c) ->
  heap_ok (i_h c') /\ kle (i_h c) (i_h c') /\ kd (i_h c') x = Some k /\ pr (i_h c') x = None /\ ch (i_h c') x = [] /\
  (forall p, ~ In x (ch (i_h c') p)) /\ x = length (i_h c).
Proof.
  intros H Hko [Ht Hk Hc]. destruct (new_inode_view c k c' x H) as (Hx & L & _ & _ & _ & _ & K & P & C).
  assert (Hkx : kd (i_h c) x = None) by (apply kd_none; lia).
  assert (Hnot : forall p, ~ In x (ch (i_h c) p)).
  { intros p Hin. apply (t_child _ Ht) in Hin. apply pr_valid in Hin. lia. }
  split; [|split; [|split; [rewrite K, Nat.eqb_refl; reflexivity|split; [|split; [|split; [|exact Hx]]]]]].
  - constructor.
    + eapply tree_ok_same; eassumption.
    + intros j kj. rewrite K. destruct (Nat.eqb_spec j x) as [->|Hj]; [intros E; inversion E; subst; exact Hko|apply Hk].
    + intros q y ky. rewrite !K, C. destruct (Nat.eqb_spec q x) as [->|Hq].
      * intros _ Hin. apply ch_valid in Hin. lia.
      * intros Hq' Hin. destruct (Nat.eqb_spec y x) as [->|Hy]; [exfalso; exact (Hnot q Hin)|]. intros E'. eapply (Hc q y); eassumption.
  - intros j kj Hj. rewrite K. destruct (Nat.eqb_spec j x) as [->|Hne]; [congruence|]. exists kj. auto.
  - rewrite P. unfold pr. rewrite (proj2 (nth_error_None _ _)) by lia. reflexivity.
  - rewrite C. unfold ch. rewrite (proj2 (nth_error_None _ _)) by lia. reflexivity.
  - intros p. rewrite C. apply Hnot.
Qed.

End Inv.

(* ---------- the delimiter list ---------- *)
Definition dlk (h : iheap) (d : nat) : option (option nat * option nat) :=
  match kd h d with Some (IDelim _ _ _ _ _ _ p n) => Some (p, n) | _ => None end.
Definition dlen (h : iheap) (d : nat) : option Z :=
  match kd h d with Some (IDelim _ _ _ len _ _ _ _) => Some len | _ => None end.

Definition nxt_of (L : list nat) (nxt : option nat) : option nat := match L with [] => nxt | e :: _ => Some e end.
Fixpoint lst_of (prev : option nat) (L : list nat) : option nat :=
  match L with [] => prev | d :: L' => lst_of (Some d) L' end.
(* the nodes of L are linked in this order, between prev and nxt *)
Fixpoint dseg (h : iheap) (prev : option nat) (L : list nat) (nxt : option nat) : Prop :=
  match L with
  | [] => True
  | d :: L' => dlk h d = Some (prev, nxt_of L' nxt) /\ dseg h (Some d) L' nxt
  end.

Lemma nxt_of_app A B nxt : nxt_of (A ++ B) nxt = nxt_of A (nxt_of B nxt).
Proof. destruct A; reflexivity. Qed.
Lemma lst_of_app prev A B : lst_of prev (A ++ B) = lst_of (lst_of prev A) B.
Proof. revert prev. induction A as [|a A IH]; intros prev; cbn; [reflexivity|apply IH]. Qed.

Lemma dseg_app h A : forall prev B nxt,
  dseg h prev (A ++ B) nxt <-> dseg h prev A (nxt_of B nxt) /\ dseg h (lst_of prev A) B nxt.
Proof.
  induction A as [|a A IH]; intros prev B nxt; cbn [app dseg lst_of].
  - tauto.
  - rewrite IH, nxt_of_app. tauto.
Qed.

Lemma dseg_ext h h' L : forall prev nxt, (forall d, In d L -> dlk h' d = dlk h d) ->
  dseg h prev L nxt -> dseg h' prev L nxt.
Proof.
  induction L as [|a L IH]; intros prev nxt Hs; cbn [dseg]; [auto|].
  intros [H1 H2]. split; [rewrite Hs by (cbn; auto); exact H1|]. apply IH; [|exact H2].
  intros d Hd. apply Hs. cbn. auto.
Qed.

Lemma dseg_in h L : forall prev nxt d, dseg h prev L nxt -> In d L -> dlk h d <> None.
Proof.
  induction L as [|a L IH]; intros prev nxt d; cbn [dseg In]; [tauto|].
  intros [H1 H2] [->|Hin]; [congruence|]. eapply IH; eassumption.
Qed.

(* the links of a member: L = A ++ d :: B *)
Lemma dseg_mid h A d B prev nxt : dseg h prev (A ++ d :: B) nxt ->
  dlk h d = Some (lst_of prev A, nxt_of B nxt).
Proof. rewrite dseg_app. cbn [dseg]. tauto. Qed.

Record dl_ok (E : list nat) (c : ictx) (L : list nat) : Prop := {
  dl_nodup : NoDup L;
  dl_first : i_dfirst c = nxt_of L None;
  dl_last : i_dlast c = lst_of None L;
  dl_chain : dseg (i_h c) None L None;
  (* delimiters attached to the tree are in the list *)
  dl_att : forall p d, In d (ch (i_h c) p) -> dlk (i_h c) d <> None -> In d L;
  (* the runs of the listed delimiters are not empty *)
  dl_len : forall d len, In d L -> ~ In d E -> dlen (i_h c) d = Some len -> 1 <= len
}.

Lemma dlk_kd h h' d : kd h' d = kd h d -> dlk h' d = dlk h d /\ dlen h' d = dlen h d.
Proof. unfold dlk, dlen. intros ->. auto. Qed.

Lemma dl_frame E c L c' : dl_ok E c L ->
  i_dfirst c' = i_dfirst c -> i_dlast c' = i_dlast c ->
  (forall d, In d L -> kd (i_h c') d = kd (i_h c) d) ->
  (forall p d, In d (ch (i_h c') p) -> dlk (i_h c') d <> None ->
     In d L \/ (exists q, In d (ch (i_h c) q) /\ dlk (i_h c) d <> None)) ->
  dl_ok E c' L.
Proof.
  intros [H1 H2 H3 H4 H5 H6] Hf Hl Hk Ha. constructor.
  - exact H1.
  - congruence.
  - congruence.
  - eapply dseg_ext; [|exact H4]. intros d Hd. apply dlk_kd. apply Hk. exact Hd.
  - intros p d Hin Hd. destruct (Ha p d Hin Hd) as [Hl'|(q & Hq & Hd')]; [exact Hl'|]. eapply H5; eassumption.
  - intros d len Hd He. destruct (dlk_kd _ _ d (Hk d Hd)) as [_ ->]. apply H6; assumption.
Qed.

Lemma dl_weaken E E' c L : dl_ok E c L -> (forall d, In d E -> In d E') -> dl_ok E' c L.
Proof.
  intros [H1 H2 H3 H4 H5 H6] Hs. constructor; try assumption.
  intros d len Hd He. apply H6; [exact Hd|]. intros C. apply He. apply Hs. exact C.
Qed.

(* reading and writing delimiter nodes *)
Lemma dget_view h d s co cc len orig chh p nx :
  dget h d = Ok (s, co, cc, len, orig, chh, p, nx) -> kd h d = Some (IDelim s co cc len orig chh p nx).
Proof.
  unfold dget. destruct (iget h d) as [n| |] eqn:E; cbn [bind]; try discriminate.
  apply iget_kd in E. destruct E as (Ek & _). destruct (ik n); try discriminate.
  intros H. inversion H; subst. exact Ek.
Qed.

Lemma dget_dlk h d s co cc len orig chh p nx :
  dget h d = Ok (s, co, cc, len, orig, chh, p, nx) -> dlk h d = Some (p, nx) /\ dlen h d = Some len.
Proof. intros H. apply dget_view in H. unfold dlk, dlen. rewrite H. auto. Qed.

Definition link_step (h h' : iheap) (d : nat) (p nx : option nat) : Prop :=
  exists s co cc len orig chh p0 n0, kd h d = Some (IDelim s co cc len orig chh p0 n0) /\
    kind_step h h' d (IDelim s co cc len orig chh p nx).

Lemma dset_links_step h d p nx h' : dset_links h d p nx = Ok h' -> link_step h h' d p nx.
Proof.
  unfold dset_links. destruct (iget h d) as [n| |] eqn:E; cbn [bind]; try discriminate.
  pose proof (iget_ok _ _ _ E) as En. apply iget_kd in E. destruct E as (Ek & _).
  destruct (ik n) eqn:Ekn; try discriminate. intros H. inversion H; subst h'.
  do 8 eexists. split; [exact Ek|]. destruct (iset_spec h d (iset_kind n (IDelim s can_open can_close len orig ch0 p nx)) n En) as (L & Hi & Hj).
  split; [exact L|]. eapply upd_kind_view; eauto.
Qed.

Lemma dset_prev_step h d p h' : dset_prev h d p = Ok h' -> exists p0 nx, dlk h d = Some (p0, nx) /\ link_step h h' d p nx.
Proof.
  unfold dset_prev. destruct (dget h d) as [[[[[[[[s co] cc] len] orig] chh] p0] nx]| |] eqn:E; cbn [bind]; try discriminate.
  intros H. exists p0, nx. split; [apply (dget_dlk _ _ _ _ _ _ _ _ _ _ E)|]. apply dset_links_step. exact H.
Qed.

Lemma dset_next_step h d nx h' : dset_next h d nx = Ok h' -> exists p n0, dlk h d = Some (p, n0) /\ link_step h h' d p nx.
Proof.
  unfold dset_next. destruct (dget h d) as [[[[[[[[s co] cc] len] orig] chh] p0] n0]| |] eqn:E; cbn [bind]; try discriminate.
  intros H. exists p0, n0. split; [apply (dget_dlk _ _ _ _ _ _ _ _ _ _ E)|]. apply dset_links_step. exact H.
Qed.

Lemma link_step_view h h' d p nx : link_step h h' d p nx ->
  (forall j, dlk h' j = if Nat.eqb j d then Some (p, nx) else dlk h j) /\
  (forall j, dlen h' j = dlen h j) /\
  (forall j, j <> d -> kd h' j = kd h j) /\
  (forall j, pr h' j = pr h j) /\ (forall j, ch h' j = ch h j) /\ length h' = length h /\ dlk h d <> None.
Proof.
  intros (s & co & cc & len & orig & chh & p0 & n0 & Hk & L & K & P & C).
  split; [|split; [|split; [|split; [exact P|split; [exact C|split; [exact L|]]]]]].
  - intros j. unfold dlk. rewrite K. destruct (Nat.eqb_spec j d); reflexivity.
  - intros j. unfold dlen. rewrite K. destruct (Nat.eqb_spec j d) as [->|]; [rewrite Hk|]; reflexivity.
  - intros j Hj. rewrite K. destruct (Nat.eqb_spec j d); [contradiction|reflexivity].
  - unfold dlk. rewrite Hk. discriminate.
Qed.

Lemma link_step_heap src h h' d p nx : link_step h h' d p nx -> heap_ok src h -> heap_ok src h' /\ kle h h'.
Proof.
  intros (s & co & cc & len & orig & chh & p0 & n0 & Hk & Hs) Hok.
  eapply heap_ok_kind; [exact Hs|exact Hk|reflexivity| |exact Hok].
  exact (h_kind src h Hok d _ Hk).
Qed.

(* ---------- the context invariant ---------- *)
Definition ctx_ok (src : bytes) (E : list nat) (c : ictx) (L : list nat) : Prop :=
  heap_ok src (i_h c) /\ dl_ok E c L.
(* the control fields are unchanged *)
Definition same_ctl (c c' : ictx) : Prop :=
  i_dfirst c' = i_dfirst c /\ i_dlast c' = i_dlast c /\ i_labels c' = i_labels c /\ i_bottoms c' = i_bottoms c.
Lemma same_ctl_refl c : same_ctl c c.
Proof. repeat split. Qed.
Lemma same_ctl_trans a b c : same_ctl a b -> same_ctl b c -> same_ctl a c.
Proof. unfold same_ctl. intros (A1 & A2 & A3 & A4) (B1 & B2 & B3 & B4). repeat split; congruence. Qed.
Lemma same_ctl_cx_h c h : same_ctl c (cx_h c h).
Proof. repeat split. Qed.

Lemma dl_valid E c L d : dl_ok E c L -> In d L -> (d < length (i_h c))%nat.
Proof.
  intros H Hd. pose proof (dseg_in _ _ _ _ d (dl_chain _ _ _ H) Hd) as Hk. unfold dlk in Hk.
  destruct (kd (i_h c) d) as [k|] eqn:E'; [|congruence]. eapply kd_valid. exact E'.
Qed.

Lemma ctx_new src E c L k c' x : new_inode c k = (c', x) -> kind_ok src k -> ctx_ok src E c L ->
  ctx_ok src E c' L /\ kle (i_h c) (i_h c') /\ same_ctl c c' /\
  kd (i_h c') x = Some k /\ pr (i_h c') x = None /\ (forall p, ~ In x (ch (i_h c') p)) /\ ~ In x L /\ x = length (i_h c) /\
  (forall j, j <> x -> kd (i_h c') j = kd (i_h c) j).
Proof.
  intros H Hk [Hh Hd].
  destruct (heap_ok_new src c k c' x H Hk Hh) as (Hh' & Hkle & Kx & Px & Cx & Nx & Hx).
  destruct (new_inode_view c k c' x H) as (_ & L' & F1 & F2 & F3 & F4 & K & P & C).
  assert (HxL : ~ In x L). { intros Hin. apply (dl_valid _ _ _ _ Hd) in Hin. lia. }
  assert (Kne : forall j, j <> x -> kd (i_h c') j = kd (i_h c) j).
  { intros j Hj. rewrite K. destruct (Nat.eqb_spec j x); [contradiction|reflexivity]. }
  split; [split; [exact Hh'|]|repeat split; try assumption].
  eapply dl_frame; [exact Hd|exact F1|exact F2| |].
  - intros d Hin. apply Kne. intros ->. contradiction.
  - intros p d Hin Hdl. right. exists p. rewrite C in Hin. split; [exact Hin|].
    assert (d <> x). { intros ->. apply (Nx p). rewrite C. exact Hin. }
    destruct (dlk_kd _ _ d (Kne d H0)) as [<- _]. exact Hdl.
Qed.

Lemma ctx_attach src E c L h' p x : ctx_ok src E c L -> attach_spec (i_h c) h' p x -> edge_ok (i_h c) p x ->
  (dlk (i_h c) x = None \/ In x L \/ exists q, In x (ch (i_h c) q)) ->
  ctx_ok src E (cx_h c h') L /\ kle (i_h c) h'.
Proof.
  intros [Hh Hd] Ha He Hx. destruct (heap_ok_attach src _ _ _ _ Ha Hh He) as [Hh' Hkle].
  split; [|exact Hkle]. split; [exact Hh'|].
  destruct Ha as (_ & _ & K & _ & _ & _ & _ & M).
  eapply dl_frame; [exact Hd|reflexivity|reflexivity| |]; cbn [i_h cx_h].
  - intros d _. apply K.
  - intros q d Hin Hdl. destruct (dlk_kd _ _ d (K d)) as [Hdk _]. rewrite Hdk in Hdl.
    apply M in Hin. destruct Hin as [[-> ->]|[_ Hin]].
    + destruct Hx as [Hx|[Hx|(q' & Hx)]]; [congruence|left; exact Hx|right; exists q'; auto].
    + right. exists q. auto.
Qed.

Lemma ctx_detach src E c L h' x : ctx_ok src E c L -> detach_spec (i_h c) h' x ->
  ctx_ok src E (cx_h c h') L /\ kle (i_h c) h'.
Proof.
  intros [Hh Hd] Ha. destruct (heap_ok_detach src _ _ _ Ha Hh) as [Hh' Hkle].
  split; [|exact Hkle]. split; [exact Hh'|].
  destruct Ha as (_ & _ & K & _ & _ & M).
  eapply dl_frame; [exact Hd|reflexivity|reflexivity| |]; cbn [i_h cx_h].
  - intros d _. apply K.
  - intros q d Hin Hdl. destruct (dlk_kd _ _ d (K d)) as [Hdk _]. rewrite Hdk in Hdl.
    apply M in Hin. right. exists q. tauto.
Qed.

(* a kind change of a node that is not a delimiter *)
Lemma ctx_kind src E c L h' i k k' : ctx_ok src E c L -> kind_step (i_h c) h' i k' -> kd (i_h c) i = Some k ->
  cls k' = cls k -> cls k <> 8%nat -> kind_ok src k' ->
  ctx_ok src E (cx_h c h') L /\ kle (i_h c) h'.
Proof.
  intros [Hh Hd] Hs Hi Hc Hn Hk. destruct (heap_ok_kind src _ _ _ _ _ Hs Hi Hc Hk Hh) as [Hh' Hkle].
  split; [|exact Hkle]. split; [exact Hh'|].
  destruct Hs as (_ & K & P & C).
  assert (HiL : ~ In i L).
  { intros Hin. pose proof (dseg_in _ _ _ _ i (dl_chain _ _ _ Hd) Hin) as Hdl. unfold dlk in Hdl. rewrite Hi in Hdl.
    destruct k; try congruence. cbn in Hn. congruence. }
  eapply dl_frame; [exact Hd|reflexivity|reflexivity| |]; cbn [i_h cx_h].
  - intros d Hin. rewrite K. destruct (Nat.eqb_spec d i) as [->|]; [contradiction|reflexivity].
  - intros q d Hin Hdl. right. exists q. rewrite C in Hin. split; [exact Hin|].
    unfold dlk in *. rewrite K in Hdl. destruct (Nat.eqb_spec d i) as [->|]; [|exact Hdl].
    exfalso. destruct k'; try congruence. destruct k; cbn in Hc; try discriminate. cbn in Hn. congruence.
Qed.

(* ---------- steps that do not concern the delimiters ---------- *)
Definition dneutral (h h' : iheap) : Prop :=
  (forall d, dlk h d <> None -> kd h' d = kd h d) /\
  (forall q d, In d (ch h' q) -> dlk h' d <> None -> exists q', In d (ch h q') /\ dlk h d <> None).
Lemma dn_refl h : dneutral h h.
Proof. split; [reflexivity|]. intros q d H1 H2. exists q. auto. Qed.
Lemma dn_trans a b c : dneutral a b -> dneutral b c -> dneutral a c.
Proof.
  intros [A1 A2] [B1 B2]. split.
  - intros d Hd. rewrite B1, A1; [reflexivity|exact Hd|]. destruct (dlk_kd _ _ d (A1 d Hd)) as [-> _]. exact Hd.
  - intros q d H1 H2. destruct (B2 q d H1 H2) as (q1 & H3 & H4). exact (A2 q1 d H3 H4).
Qed.

Lemma dl_frame_dn E c L c' : dl_ok E c L -> i_dfirst c' = i_dfirst c -> i_dlast c' = i_dlast c ->
  dneutral (i_h c) (i_h c') -> dl_ok E c' L.
Proof.
  intros Hd Hf Hl [N1 N2]. eapply dl_frame; [exact Hd|exact Hf|exact Hl| |].
  - intros d Hin. apply N1. eapply dseg_in; [apply (dl_chain _ _ _ Hd)|exact Hin].
  - intros p d H1 H2. right. exact (N2 p d H1 H2).
Qed.

Lemma dn_same_kd h h' : (forall j, kd h' j = kd h j) ->
  (forall q d, In d (ch h' q) -> dlk h d <> None -> exists q', In d (ch h q')) -> dneutral h h'.
Proof.
  intros K M. split; [intros d _; apply K|]. intros q d H1 H2. destruct (dlk_kd _ _ d (K d)) as [E _].
  rewrite E in H2. destruct (M q d H1 H2) as (q' & Hq). exists q'. auto.
Qed.

Lemma dn_attach h h' p x : attach_spec h h' p x -> (dlk h x = None \/ exists q, In x (ch h q)) -> dneutral h h'.
Proof.
  intros (_ & _ & K & _ & _ & _ & _ & M) Hx. apply dn_same_kd; [exact K|].
  intros q d Hin Hd. apply M in Hin. destruct Hin as [[-> ->]|[_ Hin]]; [|exists q; exact Hin].
  destruct Hx as [Hx|Hx]; [congruence|exact Hx].
Qed.

Lemma dn_detach h h' x : detach_spec h h' x -> dneutral h h' /\ (forall q, ~ In x (ch h' q)).
Proof.
  intros (_ & _ & K & _ & _ & M). split.
  - apply dn_same_kd; [exact K|]. intros q d Hin _. apply M in Hin. exists q. tauto.
  - intros q Hin. apply M in Hin. tauto.
Qed.

Lemma dn_kind h h' i k k' : kind_step h h' i k' -> kd h i = Some k -> cls k' = cls k -> cls k <> 8%nat -> dneutral h h'.
Proof.
  intros (_ & K & P & C) Hi Hc Hn. split.
  - intros d Hd. rewrite K. destruct (Nat.eqb_spec d i) as [->|]; [|reflexivity].
    exfalso. unfold dlk in Hd. rewrite Hi in Hd. destruct k; try congruence. cbn in Hn. congruence.
  - intros q d Hin Hd. exists q. rewrite C in Hin. split; [exact Hin|].
    unfold dlk in *. rewrite K in Hd. destruct (Nat.eqb_spec d i) as [->|]; [|exact Hd].
    exfalso. destruct k'; try congruence. destruct k; cbn in Hc; try discriminate. cbn in Hn. congruence.
Qed.

Lemma dn_new c k c' x : new_inode c k = (c', x) -> tree_ok (i_h c) -> dneutral (i_h c) (i_h c').
Proof.
  intros H Ht. destruct (new_inode_view c k c' x H) as (Hx & L' & _ & _ & _ & _ & K & P & C).
  assert (Hnot : forall p, ~ In x (ch (i_h c) p)).
  { intros p Hin. apply (t_child _ Ht) in Hin. apply pr_valid in Hin. lia. }
  assert (Kne : forall j, j <> x -> kd (i_h c') j = kd (i_h c) j).
  { intros j Hj. rewrite K. destruct (Nat.eqb_spec j x); [contradiction|reflexivity]. }
  split.
  - intros d Hd. apply Kne. intros ->. unfold dlk in Hd. rewrite kd_none in Hd by lia. congruence.
  - intros q d Hin Hd. exists q. rewrite C in Hin. split; [exact Hin|].
    assert (d <> x) by (intros ->; exact (Hnot q Hin)).
    destruct (dlk_kd _ _ d (Kne d H0)) as [<- _]. exact Hd.
Qed.

Section Merge.
Variable src : bytes.

(* what the text-merging helpers guarantee *)
Definition neutral_step (c c' : ictx) : Prop :=
  heap_ok src (i_h c') /\ kle (i_h c) (i_h c') /\ dneutral (i_h c) (i_h c') /\ same_ctl c c'.

Lemma text_edge h p t s a b r : kd h t = Some (IText s a b r) -> edge_ok h p t.
Proof. intros H _ k Hk. rewrite H in Hk. inversion Hk. reflexivity. Qed.

Lemma fresh_text_ok c s parent c1 t h : heap_ok src (i_h c) -> seg_in src s = true ->
  new_inode c (mk_text s) = (c1, t) -> i_append (i_h c1) parent t = Ok h ->
  neutral_step c (cx_h c1 h).
Proof.
  intros Hh Hs Hn Ha.
  destruct (heap_ok_new src c _ c1 t Hn Hs Hh) as (Hh1 & Hk1 & Kt & Pt & Ct & Nt & Hx).
  pose proof (dn_new _ _ _ _ Hn (h_tree _ _ Hh)) as Hd1.
  destruct (new_inode_view c _ c1 t Hn) as (_ & _ & F1 & F2 & F3 & F4 & _).
  pose proof (i_append_spec _ _ _ _ Ha (h_tree _ _ Hh1)) as Hat.
  destruct (heap_ok_attach src _ _ _ _ Hat Hh1 (text_edge _ _ _ _ _ _ _ Kt)) as [Hh2 Hk2].
  assert (Hd2 : dneutral (i_h c1) h).
  { eapply dn_attach; [exact Hat|]. left. unfold dlk. rewrite Kt. reflexivity. }
  split; [exact Hh2|]. split; [eapply kle_trans; eassumption|]. split; [eapply dn_trans; eassumption|].
  repeat split; assumption.
Qed.

Lemma merge_text_ok c l ts soft hard raw s h : heap_ok src (i_h c) -> seg_in src s = true ->
  kd (i_h c) l = Some (IText ts soft hard raw) -> s_stop ts = s_start s ->
  iupd (i_h c) l (fun m => iset_kind m (IText (seg_with_stop ts (s_stop s)) soft hard raw)) = Ok h ->
  neutral_step c (cx_h c h).
Proof.
  intros Hh Hs Hl Est Hu. apply iupd_kind in Hu. destruct Hu as (_ & L & K & P & C).
  assert (Hst : kind_step (i_h c) h l (IText (seg_with_stop ts (s_stop s)) soft hard raw)) by (repeat split; assumption).
  pose proof (h_kind _ _ Hh l _ Hl) as Hko. cbn in Hko.
  assert (Hko' : kind_ok src (IText (seg_with_stop ts (s_stop s)) soft hard raw)).
  { cbn. apply seg_in_iff in Hko. apply seg_in_iff in Hs. apply seg_in_iff. cbn. lia. }
  destruct (heap_ok_kind src _ _ _ _ _ Hst Hl eq_refl Hko' Hh) as [Hh' Hk'].
  split; [exact Hh'|]. split; [exact Hk'|]. split; [|apply same_ctl_cx_h].
  eapply dn_kind; [exact Hst|exact Hl|reflexivity|cbn; lia].
Qed.

Lemma merge_or_append_ok c parent s c' : merge_or_append c parent s = Ok c' ->
  heap_ok src (i_h c) -> seg_in src s = true -> neutral_step c c'.
Proof.
  unfold merge_or_append. intros H Hh Hs.
  destruct (iget (i_h c) parent) as [pn| |]; cbn [bind] in H; try discriminate.
  destruct (new_inode c (mk_text s)) as [c1 t] eqn:En.
  assert (Hfresh : forall r, (h <- i_append (i_h c1) parent t;; Ok (cx_h c1 h)) = Ok r -> neutral_step c r).
  { intros r Hr. destruct (i_append (i_h c1) parent t) as [h| |] eqn:Ea; cbn [bind] in Hr; try discriminate.
    inversion Hr; subst r. eapply fresh_text_ok; eassumption. }
  destruct (last_id (ich pn)) as [l|]; [|apply Hfresh; exact H].
  destruct (iget (i_h c) l) as [ln| |] eqn:El; cbn [bind] in H; try discriminate.
  apply iget_kd in El. destruct El as (Ekl & _).
  destruct (ik ln) as [|ts soft hard raw| | | | | | | |]; try (apply Hfresh; exact H).
  destruct ((s_stop ts =? s_start s) && negb soft) eqn:Ec; [|apply Hfresh; exact H].
  destruct (iupd (i_h c) l _) as [h| |] eqn:Eu; cbn [bind] in H; try discriminate.
  inversion H; subst c'. eapply merge_text_ok; try eassumption.
  apply andb_prop in Ec. destruct Ec as [Ec _]. apply Z.eqb_eq in Ec. exact Ec.
Qed.

(* MergeOrReplaceTextSegment: the node n leaves the tree when it was a child of parent *)
Lemma merge_or_replace_ok c parent n s c' : merge_or_replace c parent n s = Ok c' ->
  heap_ok src (i_h c) -> seg_in src s = true ->
  neutral_step c c' /\ (pr (i_h c) n = Some parent -> forall q, ~ In n (ch (i_h c') q)).
Proof.
  unfold merge_or_replace. intros H Hh Hs.
  destruct (i_prev (i_h c) n) as [pv| |] eqn:Ep; cbn [bind] in H; try discriminate.
  assert (Hn : (n < length (i_h c))%nat).
  { unfold i_prev in Ep. destruct (iget (i_h c) n) as [nn| |] eqn:E; cbn [bind] in Ep; try discriminate.
    apply iget_ok in E. apply nth_error_Some. congruence. }
  destruct (new_inode c (mk_text s)) as [c1 t] eqn:En.
  assert (Hrepl : forall r, (h <- i_replace (i_h c1) parent n t;; Ok (cx_h c1 h)) = Ok r ->
            neutral_step c r /\ (pr (i_h c) n = Some parent -> forall q, ~ In n (ch (i_h r) q))).
  { intros r Hr. destruct (i_replace (i_h c1) parent n t) as [h| |] eqn:Ea; cbn [bind] in Hr; try discriminate.
    inversion Hr; subst r. clear Hr.
    destruct (heap_ok_new src c _ c1 t En Hs Hh) as (Hh1 & Hk1 & Kt & Pt & Ct & Nt & Hx).
    pose proof (dn_new _ _ _ _ En (h_tree _ _ Hh)) as Hd1.
    destruct (new_inode_view c _ c1 t En) as (_ & _ & F1 & F2 & F3 & F4 & _ & P1 & _).
    destruct (i_replace_spec _ _ _ _ _ Ea (h_tree _ _ Hh1)) as (h1 & Hat & Hrem); [lia|].
    destruct (heap_ok_attach src _ _ _ _ Hat Hh1 (text_edge _ _ _ _ _ _ _ Kt)) as [Hh2 Hk2].
    assert (Hd2 : dneutral (i_h c1) h1).
    { eapply dn_attach; [exact Hat|]. left. unfold dlk. rewrite Kt. reflexivity. }
    destruct Hrem as [[Hpn Hdet]|[Hpn ->]].
    - destruct (heap_ok_detach src _ _ _ Hdet Hh2) as [Hh3 Hk3].
      destruct (dn_detach _ _ _ Hdet) as [Hd3 Hnot].
      split; [|intros _; exact Hnot].
      split; [exact Hh3|]. split; [eapply kle_trans; [exact Hk1|eapply kle_trans; eassumption]|].
      split; [eapply dn_trans; [exact Hd1|eapply dn_trans; eassumption]|]. repeat split; assumption.
    - split; [|intros Hc; rewrite <- P1 in Hc; contradiction].
      split; [exact Hh2|]. split; [eapply kle_trans; eassumption|].
      split; [eapply dn_trans; eassumption|]. repeat split; assumption. }
  destruct pv as [p|]; [|apply Hrepl; exact H].
  destruct (iget (i_h c) p) as [pn| |] eqn:El; cbn [bind] in H; try discriminate.
  apply iget_kd in El. destruct El as (Ekl & _).
  destruct (ik pn) as [|ts soft hard raw| | | | | | | |]; try (apply Hrepl; exact H).
  destruct ((s_stop ts =? s_start s) && negb soft) eqn:Ec; [|apply Hrepl; exact H].
  destruct (iupd (i_h c) p _) as [h| |] eqn:Eu; cbn [bind] in H; try discriminate.
  destruct (i_remove h parent n) as [h2| |] eqn:Er; cbn [bind] in H; try discriminate.
  inversion H; subst c'. clear H.
  apply andb_prop in Ec. destruct Ec as [Ec _]. apply Z.eqb_eq in Ec.
  destruct (merge_text_ok c p ts soft hard raw s h Hh Hs Ekl Ec Eu) as (Hh1 & Hk1 & Hd1 & Hc1).
  cbn [i_h cx_h] in *.
  assert (Ppr : forall j, pr h j = pr (i_h c) j).
  { apply iupd_kind in Eu. tauto. }
  destruct (i_remove_spec _ _ _ _ Er (h_tree _ _ Hh1)) as [[Hpn Hdet]|[Hpn ->]].
  - destruct (heap_ok_detach src _ _ _ Hdet Hh1) as [Hh3 Hk3].
    destruct (dn_detach _ _ _ Hdet) as [Hd3 Hnot].
    split; [|intros _; exact Hnot].
    split; [exact Hh3|]. split; [eapply kle_trans; eassumption|].
    split; [eapply dn_trans; eassumption|]. apply same_ctl_cx_h.
  - split; [|intros Hc; rewrite <- Ppr in Hc; contradiction].
    split; [exact Hh1|]. split; [exact Hk1|]. split; [exact Hd1|]. apply same_ctl_cx_h.
Qed.

End Merge.

(* ---------- PushDelimiter / RemoveDelimiter ---------- *)
Lemma lst_of_snoc L : forall prev l, lst_of prev L = Some l -> L <> [] -> exists A, L = A ++ [l].
Proof.
  induction L as [|a L IH]; intros prev l H Hne; [congruence|]. cbn in H.
  destruct L as [|b L'].
  - cbn in H. inversion H; subst. exists []. reflexivity.
  - destruct (IH (Some a) l H) as [A HA]; [discriminate|]. exists (a :: A). rewrite HA. reflexivity.
Qed.

Lemma link_step_neutral_tree h h' d p nx : link_step h h' d p nx ->
  (forall j, pr h' j = pr h j) /\ (forall j, ch h' j = ch h j).
Proof. intros H. apply link_step_view in H. tauto. Qed.

Lemma push_delimiter_ok src E c L d c' len : push_delimiter c d = Ok c' -> ctx_ok src E c L ->
  dlk (i_h c) d = Some (None, None) -> ~ In d L -> dlen (i_h c) d = Some len -> 1 <= len ->
  ctx_ok src E c' (L ++ [d]) /\ kle (i_h c) (i_h c') /\ i_labels c' = i_labels c /\ i_bottoms c' = i_bottoms c /\
  (forall j, pr (i_h c') j = pr (i_h c) j) /\ (forall j, ch (i_h c') j = ch (i_h c) j) /\
  (forall j, dlk (i_h c) j = None -> kd (i_h c') j = kd (i_h c) j).
Proof.
  unfold push_delimiter. intros H [Hh Hd] Hdk HdL Hlen Hl1.
  destruct Hd as [D1 D2 D3 D4 D5 D6].
  destruct (i_dfirst c) as [f|] eqn:Ef.
  - destruct (i_dlast c) as [l|] eqn:El; [|discriminate].
    destruct (dset_next (i_h c) l (Some d)) as [h1| |] eqn:E1; cbn [bind] in H; try discriminate.
    destruct (dset_prev h1 d (Some l)) as [h2| |] eqn:E2; cbn [bind] in H; try discriminate.
    inversion H; subst c'. clear H. cbn [i_h cx_h cx_d i_labels i_bottoms].
    assert (HLne : L <> []) by (intros ->; cbn in D2; discriminate).
    symmetry in D3. destruct (lst_of_snoc L None l D3 HLne) as [A HA]. subst L.
    apply dset_next_step in E1. destruct E1 as (pl & nl & Hdl & S1).
    apply dset_prev_step in E2. destruct E2 as (pd & nd & Hdd & S2).
    destruct (link_step_heap src _ _ _ _ _ S1 Hh) as [Hh1 Hk1].
    destruct (link_step_heap src _ _ _ _ _ S2 Hh1) as [Hh2 Hk2].
    destruct (link_step_view _ _ _ _ _ S1) as (V1 & N1 & K1 & P1 & C1 & _).
    destruct (link_step_view _ _ _ _ _ S2) as (V2 & N2 & K2 & P2 & C2 & _).
    assert (Hld : l <> d). { intros ->. apply HdL. rewrite in_app_iff. cbn. auto. }
    assert (HlA : ~ In l A). { apply NoDup_remove_2 in D1. rewrite app_nil_r in D1. exact D1. }
    pose proof (dseg_mid _ A l [] None None D4) as Hl0. cbn in Hl0. rewrite Hl0 in Hdl. inversion Hdl; subst pl nl.
    rewrite V1 in Hdd. destruct (Nat.eqb_spec d l) as [->|_]; [congruence|]. rewrite Hdk in Hdd. inversion Hdd; subst pd nd.
    split; [split; [exact Hh2|]|].
    + constructor; cbn [i_h cx_h cx_d i_dfirst i_dlast].
      * apply nodup_snoc; assumption.
      * rewrite D2. rewrite <- app_assoc. destruct A; reflexivity.
      * rewrite lst_of_app. reflexivity.
      * rewrite <- app_assoc. cbn [app]. apply dseg_app. apply dseg_app in D4. destruct D4 as [D4a _]. split.
        -- eapply dseg_ext; [|exact D4a]. intros x Hx. rewrite V2, V1.
           destruct (Nat.eqb_spec x d) as [->|_]; [exfalso; apply HdL; rewrite in_app_iff; auto|].
           destruct (Nat.eqb_spec x l) as [->|_]; [contradiction|reflexivity].
        -- cbn [dseg nxt_of]. split; [|split; [|exact I]].
           ++ rewrite V2, V1. destruct (Nat.eqb_spec l d); [contradiction|]. rewrite Nat.eqb_refl. reflexivity.
           ++ rewrite V2. rewrite Nat.eqb_refl. reflexivity.
      * intros p x. rewrite C2, C1. intros Hin Hx. rewrite V2, V1 in Hx. rewrite in_app_iff.
        destruct (Nat.eqb_spec x d) as [->|_]; [right; cbn; auto|]. left. apply (D5 p x Hin).
        destruct (Nat.eqb_spec x l) as [->|_]; [congruence|exact Hx].
      * intros x lx. rewrite N2, N1. rewrite in_app_iff. cbn. intros [Hx|[<-|[]]] He Hlx.
        -- eapply D6; eassumption.
        -- congruence.
    + split; [eapply kle_trans; eassumption|]. split; [reflexivity|]. split; [reflexivity|].
      split; [intros j; rewrite P2; apply P1|]. split; [intros j; rewrite C2; apply C1|].
      intros j Hj. rewrite K2, K1; [reflexivity| |]; intros ->; congruence.
  - inversion H; subst c'. clear H. cbn [i_h cx_h cx_d i_labels i_bottoms].
    assert (L = []) by (destruct L; [reflexivity|cbn in D2; discriminate]). subst L.
    split; [split; [exact Hh|]|].
    + constructor; cbn [i_h cx_h cx_d i_dfirst i_dlast app]; try reflexivity.
      * constructor; [intros []|constructor].
      * cbn. split; [exact Hdk|exact I].
      * intros p x Hin Hx. exfalso. exact (D5 p x Hin Hx).
      * intros x lx [<-|[]] _ Hlx. congruence.
    + split; [apply kle_refl|]. repeat split; reflexivity.
Qed.

(* changes of delimiter links only *)
Definition lonly (h h' : iheap) : Prop :=
  length h' = length h /\ (forall j, pr h' j = pr h j) /\ (forall j, ch h' j = ch h j) /\
  (forall j, dlen h' j = dlen h j) /\ (forall j, dlk h j = None -> kd h' j = kd h j) /\
  (forall j, dlk h' j = None <-> dlk h j = None).
Lemma lonly_refl h : lonly h h.
Proof. repeat split; auto. Qed.
Lemma lonly_trans a b c : lonly a b -> lonly b c -> lonly a c.
Proof.
  intros (A1 & A2 & A3 & A4 & A5 & A6) (B1 & B2 & B3 & B4 & B5 & B6).
  split; [congruence|]. split; [intros j; rewrite B2; apply A2|]. split; [intros j; rewrite B3; apply A3|].
  split; [intros j; rewrite B4; apply A4|]. split.
  - intros j Hj. rewrite B5, A5; [reflexivity|exact Hj|]. apply A6. exact Hj.
  - intros j. rewrite B6. apply A6.
Qed.
Lemma link_step_lonly h h' d p nx : link_step h h' d p nx -> lonly h h'.
Proof.
  intros S. destruct (link_step_view _ _ _ _ _ S) as (V & N & K & P & C & L & Hd).
  split; [exact L|]. split; [exact P|]. split; [exact C|]. split; [exact N|]. split.
  - intros j Hj. apply K. intros ->. contradiction.
  - intros j. rewrite V. destruct (Nat.eqb_spec j d) as [->|]; [|tauto]. split; [discriminate|contradiction].
Qed.
Lemma link_same h h' x p nx : link_step h h' x p nx -> dlk h x = Some (p, nx) -> forall j, dlk h' j = dlk h j.
Proof.
  intros S E j. destruct (link_step_view _ _ _ _ _ S) as (V & _). rewrite V.
  destruct (Nat.eqb_spec j x) as [->|]; [symmetry; exact E|reflexivity].
Qed.

(* link changes keep the heap invariant *)
Definition lstep_ok (src : bytes) (h h' : iheap) : Prop :=
  lonly h h' /\ (heap_ok src h -> heap_ok src h' /\ kle h h').
Lemma lstep_refl src h : lstep_ok src h h.
Proof. split; [apply lonly_refl|]. intros H. split; [exact H|apply kle_refl]. Qed.
Lemma lstep_trans src a b c : lstep_ok src a b -> lstep_ok src b c -> lstep_ok src a c.
Proof.
  intros [A1 A2] [B1 B2]. split; [eapply lonly_trans; eassumption|]. intros H.
  destruct (A2 H) as [H1 K1]. destruct (B2 H1) as [H2 K2]. split; [exact H2|eapply kle_trans; eassumption].
Qed.
Lemma lstep_link src h h' d p nx : link_step h h' d p nx -> lstep_ok src h h'.
Proof. intros S. split; [eapply link_step_lonly; exact S|]. eapply link_step_heap. exact S. Qed.

Lemma dseg_last h L : forall prev nxt l, dseg h prev L nxt -> L <> [] -> lst_of prev L = Some l ->
  exists p0, dlk h l = Some (p0, nxt).
Proof.
  induction L as [|a L IH]; intros prev nxt l H Hne Hl; [congruence|]. cbn in *. destruct H as [Ha HL].
  destruct L as [|b L'].
  - cbn in *. inversion Hl; subst. eauto.
  - eapply IH; [exact HL|discriminate|exact Hl].
Qed.

Lemma lst_of_in L : forall prev l, lst_of prev L = Some l -> prev = Some l \/ In l L.
Proof.
  induction L as [|a L IH]; intros prev l H; cbn in *; [auto|].
  apply IH in H. destruct H as [H|H]; [inversion H; auto|auto].
Qed.

Lemma nodup_app_disj (X Y : list nat) x : NoDup (X ++ Y) -> In x X -> In x Y -> False.
Proof.
  induction X as [|a X IH]; cbn; intros Hnd HX HY; [exact HX|].
  inversion Hnd as [|? ? Ha Hnd']; subst. destruct HX as [->|HX].
  - apply Ha. rewrite in_app_iff. auto.
  - eapply IH; eassumption.
Qed.

Lemma nodup_app_r (X Y : list nat) : NoDup (X ++ Y) -> NoDup Y.
Proof. induction X as [|a X IH]; cbn; intros H; [exact H|]. inversion H; subst. auto. Qed.

(* the link part of RemoveDelimiter *)
Definition rd_links (c : ictx) (d : nat) (p nx : option nat) : result ictx :=
  c <- match p with
       | None => Ok (cx_d c nx (i_dlast c))
       | Some pp =>
         h <- dset_next (i_h c) pp nx ;;
         h <- match nx with Some n => dset_prev h n (Some pp) | None => Ok h end ;;
         Ok (cx_h c h)
       end ;;
  let c := match nx with None => cx_d c (i_dfirst c) p | Some _ => c end in
  h <- match i_dfirst c with Some f => dset_prev (i_h c) f None | None => Ok (i_h c) end ;;
  h <- match i_dlast c with Some l => dset_next h l None | None => Ok h end ;;
  h <- dset_links h d None None ;;
  Ok (cx_h c h).

Lemma step3_noop src h L h3 : dseg h None L None ->
  match nxt_of L None with Some f => dset_prev h f None | None => Ok h end = Ok h3 ->
  lstep_ok src h h3 /\ forall j, dlk h3 j = dlk h j.
Proof.
  intros Hs H. destruct L as [|f L']; cbn [nxt_of] in H.
  - inversion H; subst. split; [apply lstep_refl|reflexivity].
  - cbn [dseg] in Hs. destruct Hs as [Hf _]. apply dset_prev_step in H. destruct H as (p0 & nx0 & E & S).
    rewrite Hf in E. inversion E; subst p0 nx0. split; [eapply lstep_link; exact S|].
    eapply link_same; [exact S|exact Hf].
Qed.

Lemma lst_of_some L : forall prev, L <> [] -> exists l, lst_of prev L = Some l.
Proof.
  induction L as [|a L IH]; intros prev Hne; [congruence|]. cbn. destruct L as [|b L'].
  - cbn. eauto.
  - apply IH. discriminate.
Qed.

Lemma step4_noop src h L h4 : dseg h None L None ->
  match lst_of None L with Some l => dset_next h l None | None => Ok h end = Ok h4 ->
  lstep_ok src h h4 /\ forall j, dlk h4 j = dlk h j.
Proof.
  intros Hs H. destruct L as [|a L'].
  - cbn in H. inversion H; subst. split; [apply lstep_refl|reflexivity].
  - destruct (lst_of_some (a :: L') None) as [l Hl]; [discriminate|]. rewrite Hl in H.
    destruct (dseg_last _ _ _ _ _ Hs ltac:(discriminate) Hl) as [p0 Hdl].
    apply dset_next_step in H. destruct H as (p1 & n1 & E & S). rewrite Hdl in E. inversion E; subst p1 n1.
    split; [eapply lstep_link; exact S|]. eapply link_same; [exact S|exact Hdl].
Qed.

Lemma rd_links_ok src E c A d B c3 : rd_links c d (lst_of None A) (nxt_of B None) = Ok c3 ->
  dl_ok E c (A ++ d :: B) ->
  lstep_ok src (i_h c) (i_h c3) /\ i_labels c3 = i_labels c /\ i_bottoms c3 = i_bottoms c /\
  i_dfirst c3 = nxt_of (A ++ B) None /\ i_dlast c3 = lst_of None (A ++ B) /\
  dseg (i_h c3) None (A ++ B) None /\ dlk (i_h c3) d = Some (None, None).
Proof.
  intros H [D1 D2 D3 D4 D5 D6].
  pose proof (dseg_mid _ _ _ _ _ _ D4) as Hdd.
  assert (HdA : ~ In d A) by (apply NoDup_remove_2 in D1; rewrite in_app_iff in D1; tauto).
  assert (HdB : ~ In d B) by (apply NoDup_remove_2 in D1; rewrite in_app_iff in D1; tauto).
  unfold rd_links in H.
  (* after the first three steps *)
  assert (Hmid : exists c2 h3, lstep_ok src (i_h c) h3 /\ i_labels c2 = i_labels c /\ i_bottoms c2 = i_bottoms c /\
            i_dfirst c2 = nxt_of (A ++ B) None /\ i_dlast c2 = lst_of None (A ++ B) /\
            dseg h3 None (A ++ B) None /\ dlk h3 d = Some (lst_of None A, nxt_of B None) /\
            (h <- match i_dlast c2 with Some l => dset_next h3 l None | None => Ok h3 end ;;
             h <- dset_links h d None None ;; Ok (cx_h c2 h)) = Ok c3).
  { destruct A as [|a0 A0].
    - cbn [lst_of app] in *. cbn [bind] in H. destruct B as [|n B'].
      + cbn [nxt_of] in *. cbn [i_dfirst i_dlast cx_d i_h] in H. cbn [bind] in H.
        exists (cx_d (cx_d c None (i_dlast c)) None None), (i_h c). split; [apply lstep_refl|]. split; [reflexivity|]. split; [reflexivity|].
        split; [reflexivity|]. split; [reflexivity|]. split; [exact I|]. split; [exact Hdd|]. exact H.
      + cbn [nxt_of] in *. cbn [i_dfirst i_dlast cx_d i_h] in H.
        destruct (dset_prev (i_h c) n None) as [h3| |] eqn:E3; cbn [bind] in H; try discriminate.
        cbn [dseg] in D4. destruct D4 as (_ & Hn & HB').
        apply dset_prev_step in E3. destruct E3 as (p0 & nx0 & En & S). rewrite Hn in En. inversion En; subst p0 nx0.
        destruct (link_step_view _ _ _ _ _ S) as (V & _).
        assert (Hnd : n <> d). { intros ->. apply HdB. cbn. auto. }
        exists (cx_d c (Some n) (i_dlast c)), h3. split; [eapply lstep_link; exact S|].
        split; [reflexivity|]. split; [reflexivity|]. split; [reflexivity|].
        split; [cbn [i_dlast cx_d]; rewrite D3; reflexivity|]. split; [|split; [|exact H]].
        * cbn [dseg]. split; [rewrite V, Nat.eqb_refl; reflexivity|].
          eapply dseg_ext; [|exact HB']. intros x Hx. rewrite V. destruct (Nat.eqb_spec x n) as [->|]; [|reflexivity].
          inversion D1 as [|? ? _ D1']; subst. inversion D1' as [|? ? Hn' _]; subst. contradiction.
        * rewrite V. destruct (Nat.eqb_spec d n); [congruence|exact Hdd].
    - destruct (exists_last (l := a0 :: A0)) as (A' & pp & EA); [discriminate|]. rewrite EA in *. clear EA a0 A0.
      rewrite lst_of_app in H, Hdd. cbn [lst_of] in H, Hdd.
      rewrite <- app_assoc in D4, D1, D2, D3. cbn [app] in D4, D1, D2, D3.
      assert (HppA : ~ In pp A'). { apply NoDup_remove_2 in D1. rewrite in_app_iff in D1. tauto. }
      assert (Hppd : pp <> d). { intros ->. apply HdA. rewrite in_app_iff. cbn. auto. }
      assert (HppB : ~ In pp B). { apply NoDup_remove_2 in D1. rewrite in_app_iff in D1. cbn in D1. tauto. }
      destruct (dset_next (i_h c) pp (nxt_of B None)) as [h1| |] eqn:E1; cbn [bind] in H; try discriminate.
      pose proof (dseg_mid _ _ _ _ _ _ D4) as Hpp. cbn [nxt_of] in Hpp.
      apply dset_next_step in E1. destruct E1 as (p1 & n1 & Ep & S1). rewrite Hpp in Ep. inversion Ep; subst p1 n1.
      destruct (link_step_view _ _ _ _ _ S1) as (V1 & _).
      apply dseg_app in D4. destruct D4 as [DA' D4]. cbn [dseg] in D4. destruct D4 as (_ & _ & DB).
      (* steps 1 and 2 *)
      assert (H12 : exists h2, lstep_ok src (i_h c) h2 /\ dseg h2 None (A' ++ pp :: B) None /\
                dlk h2 d = Some (Some pp, nxt_of B None) /\
                match nxt_of B None with Some n => dset_prev h1 n (Some pp) | None => Ok h1 end = Ok h2).
      { destruct B as [|n B']; cbn [nxt_of] in *.
        - exists h1. split; [eapply lstep_link; exact S1|]. split; [|split; [|reflexivity]].
          + apply dseg_app. cbn [nxt_of dseg]. split; [|split; [|exact I]].
            * eapply dseg_ext; [|exact DA']. intros x Hx. rewrite V1. destruct (Nat.eqb_spec x pp) as [->|]; [contradiction|reflexivity].
            * rewrite V1, Nat.eqb_refl. reflexivity.
          + rewrite V1. destruct (Nat.eqb_spec d pp); [congruence|exact Hdd].
        - destruct (dset_prev h1 n (Some pp)) as [h2| |] eqn:E2; cbn [bind] in H; try discriminate.
          cbn [dseg] in DB. destruct DB as [Hn DB'].
          assert (Hnpp : n <> pp). { intros ->. apply HppB. cbn. auto. }
          assert (Hnd : n <> d). { intros ->. apply HdB. cbn. auto. }
          apply dset_prev_step in E2. destruct E2 as (p2 & n2 & En & S2).
          rewrite V1 in En. destruct (Nat.eqb_spec n pp); [contradiction|]. rewrite Hn in En. inversion En; subst p2 n2.
          destruct (link_step_view _ _ _ _ _ S2) as (V2 & _).
          exists h2. split; [eapply lstep_trans; eapply lstep_link; eassumption|]. split; [|split; [|reflexivity]].
          + apply dseg_app. cbn [nxt_of dseg]. split; [|split; [|split]].
            * eapply dseg_ext; [|exact DA']. intros x Hx. rewrite V2, V1.
              destruct (Nat.eqb_spec x n) as [->|]; [exfalso; apply (nodup_app_disj _ _ n D1 Hx); cbn; auto|].
              destruct (Nat.eqb_spec x pp) as [->|]; [contradiction|reflexivity].
            * rewrite V2, V1. destruct (Nat.eqb_spec pp n); [congruence|]. rewrite Nat.eqb_refl. reflexivity.
            * rewrite V2, Nat.eqb_refl. reflexivity.
            * eapply dseg_ext; [|exact DB']. intros x Hx. rewrite V2, V1.
              assert (NB : NoDup (n :: B')).
              { apply nodup_app_r in D1. inversion D1 as [|? ? _ D1']; subst. inversion D1'; assumption. }
              destruct (Nat.eqb_spec x n) as [->|]; [inversion NB; contradiction|].
              destruct (Nat.eqb_spec x pp) as [->|]; [exfalso; apply HppB; cbn; auto|reflexivity].
          + rewrite V2, V1. destruct (Nat.eqb_spec d n); [congruence|]. destruct (Nat.eqb_spec d pp); [congruence|exact Hdd]. }
      destruct H12 as (h2 & L2 & S2 & Hd2 & E2). rewrite E2 in H. cbn [bind] in H.
      set (c2 := match nxt_of B None with None => cx_d (cx_h c h2) (i_dfirst (cx_h c h2)) (Some pp) | Some _ => cx_h c h2 end) in *.
      assert (F2 : i_dfirst c2 = nxt_of (A' ++ pp :: B) None).
      { subst c2. destruct (nxt_of B None); cbn; rewrite D2; destruct A'; reflexivity. }
      assert (Lst2 : i_dlast c2 = lst_of None (A' ++ pp :: B)).
      { subst c2. destruct B as [|n B']; cbn [nxt_of].
        - cbn. rewrite lst_of_app. reflexivity.
        - cbn [i_dlast cx_h]. rewrite D3. rewrite !lst_of_app. reflexivity. }
      assert (Hh2 : i_h c2 = h2). { subst c2. destruct (nxt_of B None); reflexivity. }
      rewrite Hh2, F2 in H.
      destruct (match nxt_of (A' ++ pp :: B) None with Some f => dset_prev h2 f None | None => Ok h2 end) as [h3| |] eqn:E3;
        cbn [bind] in H; try discriminate.
      destruct (step3_noop src _ _ _ S2 E3) as [L3 V3].
      exists c2, h3. split; [eapply lstep_trans; eassumption|].
      split; [subst c2; destruct (nxt_of B None); reflexivity|]. split; [subst c2; destruct (nxt_of B None); reflexivity|].
      rewrite <- app_assoc. cbn [app]. split; [exact F2|]. split; [exact Lst2|]. split; [|split].
      + eapply dseg_ext; [|exact S2]. intros x _. apply V3.
      + rewrite V3. rewrite lst_of_app. exact Hd2.
      + exact H. }
  destruct Hmid as (c2 & h3 & L3 & Fl & Fb & F1 & F2 & S3 & Hd3 & H').
  rewrite F2 in H'.
  destruct (match lst_of None (A ++ B) with Some l => dset_next h3 l None | None => Ok h3 end) as [h4| |] eqn:E4;
    cbn [bind] in H'; try discriminate.
  destruct (step4_noop src _ _ _ S3 E4) as [L4 V4].
  destruct (dset_links h4 d None None) as [h5| |] eqn:E5; cbn [bind] in H'; try discriminate.
  inversion H'; subst c3. clear H'. cbn [i_h cx_h i_labels i_bottoms i_dfirst i_dlast].
  apply dset_links_step in E5. destruct (link_step_view _ _ _ _ _ E5) as (V5 & _).
  split; [eapply lstep_trans; [exact L3|eapply lstep_trans; [exact L4|eapply lstep_link; exact E5]]|].
  split; [exact Fl|]. split; [exact Fb|]. split; [exact F1|]. split; [exact F2|]. split.
  - eapply dseg_ext; [|exact S3]. intros x Hx. rewrite V5, V4. destruct (Nat.eqb_spec x d) as [->|]; [|reflexivity].
    rewrite in_app_iff in Hx. tauto.
  - rewrite V5, Nat.eqb_refl. reflexivity.
Qed.

Lemma remove_delimiter_eq c d :
  remove_delimiter c d =
  (x <- dget (i_h c) d ;;
   let '(sg, _, _, len, _, _, p, nx) := x in
   c <- rd_links c d p nx ;;
   n <- iget (i_h c) d ;;
   match ipar n with
   | None => Panic
   | Some par =>
     if negb (len =? 0) then merge_or_replace c par d sg
     else h <- i_remove (i_h c) par d ;; Ok (cx_h c h)
   end).
Proof.
  unfold remove_delimiter, rd_links.
  destruct (dget (i_h c) d) as [[[[[[[[sg co] cc] len] orig] chh] p] nx]| |]; cbn [bind]; try reflexivity.
  destruct p as [pp|]; cbn [bind].
  - destruct (dset_next (i_h c) pp nx) as [h1| |]; cbn [bind]; try reflexivity.
    destruct (match nx with Some n => dset_prev h1 n (Some pp) | None => Ok h1 end) as [h2| |]; cbn [bind]; try reflexivity.
    destruct (match i_dfirst _ with Some f => _ | None => _ end) as [h3| |]; cbn [bind]; try reflexivity.
    destruct (match i_dlast _ with Some f => _ | None => _ end) as [h4| |]; cbn [bind]; try reflexivity.
    destruct (dset_links h4 d None None) as [h5| |]; cbn [bind]; reflexivity.
  - destruct (match i_dfirst _ with Some f => _ | None => _ end) as [h3| |]; cbn [bind]; try reflexivity.
    destruct (match i_dlast _ with Some f => _ | None => _ end) as [h4| |]; cbn [bind]; try reflexivity.
    destruct (dset_links h4 d None None) as [h5| |]; cbn [bind]; reflexivity.
Qed.

Lemma remove_delimiter_ok src E c A d B c' : remove_delimiter c d = Ok c' ->
  heap_ok src (i_h c) -> dl_ok E c (A ++ d :: B) ->
  heap_ok src (i_h c') /\ kle (i_h c) (i_h c') /\ i_labels c' = i_labels c /\ i_bottoms c' = i_bottoms c /\
  (forall E', (forall x, In x E -> x = d \/ In x E') -> dl_ok E' c' (A ++ B)) /\
  (forall q, ~ In d (ch (i_h c') q)).
Proof.
  rewrite remove_delimiter_eq. intros H Hh Hd.
  destruct (dget (i_h c) d) as [[[[[[[[sg co] cc] len] orig] chh] p] nx]| |] eqn:Eg; cbn [bind] in H; try discriminate.
  pose proof (dget_view _ _ _ _ _ _ _ _ _ _ Eg) as Hkd.
  pose proof (dseg_mid _ _ _ _ _ _ (dl_chain _ _ _ Hd)) as Hdd.
  destruct (dget_dlk _ _ _ _ _ _ _ _ _ _ Eg) as [Hdd' _]. rewrite Hdd in Hdd'. inversion Hdd'; subst p nx. clear Hdd'.
  destruct (rd_links c d (lst_of None A) (nxt_of B None)) as [c3| |] eqn:E3; cbn [bind] in H; try discriminate.
  destruct (rd_links_ok src E c A d B c3 E3 Hd) as ([Lo Lh] & Fl & Fb & F1 & F2 & S3 & Hd3).
  destruct (Lh Hh) as [Hh3 Hk3].
  destruct Lo as (_ & P3 & C3 & N3 & K3 & Z3).
  destruct (iget (i_h c3) d) as [nd| |] eqn:En; cbn [bind] in H; try discriminate.
  apply iget_kd in En. destruct En as (Ekd & Epd & _).
  destruct (ipar nd) as [par|] eqn:Epar; [|discriminate].
  pose proof (h_kind _ _ Hh d _ Hkd) as Hko. cbn in Hko. destruct Hko as (Hsg & Hlen0 & _).
  assert (Hnodup : NoDup (A ++ B)).
  { pose proof (dl_nodup _ _ _ Hd) as ND. apply NoDup_remove_1 in ND. exact ND. }
  assert (HdAB : ~ In d (A ++ B)).
  { pose proof (dl_nodup _ _ _ Hd) as ND. apply NoDup_remove_2 in ND. exact ND. }
  (* the common end: a neutral step from c3 that detaches d *)
  assert (Hfin : forall c4, heap_ok src (i_h c4) -> kle (i_h c3) (i_h c4) -> dneutral (i_h c3) (i_h c4) -> same_ctl c3 c4 ->
             (forall q, ~ In d (ch (i_h c4) q)) ->
             heap_ok src (i_h c4) /\ kle (i_h c) (i_h c4) /\ i_labels c4 = i_labels c /\ i_bottoms c4 = i_bottoms c /\
             (forall E', (forall x, In x E -> x = d \/ In x E') -> dl_ok E' c4 (A ++ B)) /\
             (forall q, ~ In d (ch (i_h c4) q))).
  { intros c4 Hh4 Hk4 [N1 N2] (G1 & G2 & G3 & G4) Hdet.
    split; [exact Hh4|]. split; [eapply kle_trans; eassumption|]. split; [congruence|]. split; [congruence|].
    split; [|exact Hdet]. intros E' HE'.
    assert (Hkeep : forall x, In x (A ++ B) -> kd (i_h c4) x = kd (i_h c3) x).
    { intros x Hx. apply N1. eapply dseg_in; eassumption. }
    constructor.
    - exact Hnodup.
    - congruence.
    - congruence.
    - eapply dseg_ext; [|exact S3]. intros x Hx. apply dlk_kd. apply Hkeep. exact Hx.
    - intros q x Hin Hx. destruct (N2 q x Hin Hx) as (q' & Hin' & Hx').
      rewrite C3 in Hin'. assert (Hx0 : dlk (i_h c) x <> None). { intros C0. apply Z3 in C0. contradiction. }
      pose proof (dl_att _ _ _ Hd q' x Hin' Hx0) as HL. rewrite in_app_iff in *. cbn in HL.
      destruct HL as [HL|[<-|HL]]; [auto| |auto]. exfalso. exact (Hdet q Hin).
    - intros x lx Hx HxE Hlx. destruct (dlk_kd _ _ x (Hkeep x Hx)) as [_ Hl']. rewrite Hl', N3 in Hlx.
      apply (dl_len _ _ _ Hd x lx); [rewrite in_app_iff in *; cbn; tauto| |exact Hlx].
      intros C0. destruct (HE' x C0) as [->|C1]; contradiction. }
  destruct (negb (len =? 0)) eqn:El.
  - destruct (merge_or_replace_ok src c3 par d sg c' H Hh3 Hsg) as [(Hh4 & Hk4 & Hn4 & Hc4) Hdet].
    apply Hfin; try assumption. apply Hdet. exact Epd.
  - destruct (i_remove (i_h c3) par d) as [h4| |] eqn:Er; cbn [bind] in H; try discriminate.
    inversion H; subst c'. clear H.
    destruct (i_remove_spec _ _ _ _ Er (h_tree _ _ Hh3)) as [[_ Hdet]|[Hne _]]; [|contradiction].
    destruct (heap_ok_detach src _ _ _ Hdet Hh3) as [Hh4 Hk4]. destruct (dn_detach _ _ _ Hdet) as [Hn4 Hnot].
    apply Hfin; try assumption. apply same_ctl_cx_h.
Qed.

(* ---------- ClearDelimiters ---------- *)
Lemma prev_in_ne x l : forall acc y, prev_in x l acc = Some y -> acc = Some y \/ (In y l /\ y <> x).
Proof.
  induction l as [|a l IH]; intros acc y H; cbn in H; [discriminate|].
  destruct (Nat.eqb_spec x a) as [->|Hne]; [left; exact H|].
  apply IH in H. destruct H as [H|[H1 H2]]; [inversion H; subst; right; cbn; auto|right; cbn; auto].
Qed.

Lemma i_prev_ne h x y : i_prev h x = Ok (Some y) -> y <> x.
Proof.
  unfold i_prev. destruct (iget h x) as [n| |]; cbn [bind]; try discriminate.
  destruct (ipar n) as [p|]; [|discriminate]. destruct (iget h p) as [pn| |]; cbn [bind]; try discriminate.
  intros H. inversion H as [Hn]. apply prev_in_ne in Hn. destruct Hn as [Hn|[_ Hn]]; [discriminate|exact Hn].
Qed.

Lemma kle_dlk h h' j : kle h h' -> (j < length h)%nat -> dlk h' j <> None -> dlk h j <> None.
Proof.
  intros Hk Hj Hd. destruct (valid_kd h j Hj) as [k Ek]. destruct (Hk j k Ek) as (k' & Ek' & Hc).
  unfold dlk in *. rewrite Ek. rewrite Ek' in Hd. destruct k'; try congruence. destruct k; cbn in Hc; discriminate.
Qed.

Lemma is_delim_dlk h x b : is_delim h x = Ok b -> (b = true <-> dlk h x <> None).
Proof.
  unfold is_delim. destruct (iget h x) as [n| |] eqn:E; cbn [bind]; try discriminate.
  apply iget_kd in E. destruct E as (Ek & _). intros H. inversion H; subst b. unfold dlk. rewrite Ek.
  destruct (ik n); split; intros; congruence.
Qed.

Lemma in_split_nat (x : nat) l : In x l -> exists A B, l = A ++ x :: B.
Proof. apply in_split. Qed.

Lemma clear_loop_ok src : forall fuel c cur b c' L, clear_loop fuel c cur b = Ok c' -> ctx_ok src [] c L ->
  (forall x, cur = Some x -> dlk (i_h c) x <> None -> In x L) ->
  exists L', ctx_ok src [] c' L' /\ kle (i_h c) (i_h c') /\ i_labels c' = i_labels c /\ i_bottoms c' = i_bottoms c /\
             (forall x, In x L' -> In x L).
Proof.
  induction fuel as [|f IH]; intros c cur b c' L H Hc Hcur; cbn [clear_loop] in H; [discriminate|].
  destruct cur as [x|].
  2:{ inversion H; subst c'. exists L. split; [exact Hc|]. split; [apply kle_refl|]. auto. }
  destruct (is_bottom b x).
  { inversion H; subst c'. exists L. split; [exact Hc|]. split; [apply kle_refl|]. auto. }
  destruct (i_prev (i_h c) x) as [pv| |] eqn:Ep; cbn [bind] in H; try discriminate.
  destruct (is_delim (i_h c) x) as [isd| |] eqn:Ed; cbn [bind] in H; try discriminate.
  apply is_delim_dlk in Ed.
  assert (Hpv : forall y, pv = Some y -> (y < length (i_h c))%nat /\ y <> x).
  { intros y ->. split; [|eapply i_prev_ne; exact Ep]. apply i_prev_in in Ep. destruct Ep as (p & _ & Hin).
    destruct Hc as [Hh _]. apply (t_child _ (h_tree _ _ Hh)) in Hin. eapply pr_valid. exact Hin. }
  assert (Hpvd : forall y, pv = Some y -> dlk (i_h c) y <> None -> In y L).
  { intros y -> Hy. apply i_prev_in in Ep. destruct Ep as (p & _ & Hin). destruct Hc as [_ Hd]. eapply (dl_att _ _ _ Hd); eassumption. }
  destruct isd.
  - destruct (remove_delimiter c x) as [c1| |] eqn:Er; cbn [bind] in H; try discriminate.
    assert (HxL : In x L) by (apply Hcur; [reflexivity|apply Ed; reflexivity]).
    destruct (in_split_nat x L HxL) as (A & B & ->). destruct Hc as [Hh Hd].
    destruct (remove_delimiter_ok src [] c A x B c1 Er Hh Hd) as (Hh1 & Hk1 & Fl & Fb & Hd1 & _).
    specialize (Hd1 [] ltac:(intros ? [])).
    destruct (IH c1 pv b c' (A ++ B) H (conj Hh1 Hd1)) as (L' & Hc' & Hk' & Fl' & Fb' & Hsub).
    { intros y Ey Hy. destruct (Hpv y Ey) as [Hv Hne]. pose proof (kle_dlk _ _ _ Hk1 Hv Hy) as Hy0.
      pose proof (Hpvd y Ey Hy0) as HyL. rewrite in_app_iff in *. cbn in HyL. destruct HyL as [?|[?|?]]; [auto|congruence|auto]. }
    exists L'. split; [exact Hc'|]. split; [eapply kle_trans; eassumption|]. split; [congruence|]. split; [congruence|].
    intros y Hy. apply Hsub in Hy. rewrite in_app_iff in *. cbn. tauto.
  - cbn [bind] in H. destruct (IH c pv b c' L H Hc) as (L' & Hc' & Hk' & Fl' & Fb' & Hsub); [exact Hpvd|].
    exists L'. auto.
Qed.

Lemma clear_delimiters_ok src c b c' L : clear_delimiters c b = Ok c' -> ctx_ok src [] c L ->
  exists L', ctx_ok src [] c' L' /\ kle (i_h c) (i_h c') /\ i_labels c' = i_labels c /\ i_bottoms c' = i_bottoms c /\
             (forall x, In x L' -> In x L).
Proof.
  unfold clear_delimiters. intros H Hc. destruct (i_dlast c) as [l|] eqn:El.
  - eapply clear_loop_ok; [exact H|exact Hc|]. intros x Ex _. inversion Ex; subst x.
    destruct Hc as [_ Hd]. rewrite (dl_last _ _ _ Hd) in El. apply lst_of_in in El. destruct El; [discriminate|assumption].
  - inversion H; subst c'. exists L. split; [exact Hc|]. split; [apply kle_refl|]. auto.
Qed.

(* ---------- ProcessDelimiters ---------- *)
Lemma calc_consumption_range oc ol oo co cl cor :
  1 <= ol -> 1 <= cl ->
  0 <= calc_consumption oc ol oo co cl cor <= 2 /\
  calc_consumption oc ol oo co cl cor <= ol /\ calc_consumption oc ol oo co cl cor <= cl.
Proof.
  intros H1 H2. unfold calc_consumption.
  destruct ((oc || co) && ((oo + cor) mod 3 =? 0) && negb (cor mod 3 =? 0)); [lia|].
  destruct (Z.leb_spec 2 ol); destruct (Z.leb_spec 2 cl); cbn [andb]; lia.
Qed.

Lemma dprev_in_prefix h A R o q n : dseg h None (A ++ R) None -> In o A -> dlk h o = Some (Some q, n) -> In q A.
Proof.
  intros Hs Ho Hd. destruct (in_split_nat o A Ho) as (A1 & A2 & ->).
  rewrite <- app_assoc in Hs. cbn [app] in Hs. pose proof (dseg_mid _ _ _ _ _ _ Hs) as Hm.
  rewrite Hm in Hd. inversion Hd as [[Hq Hn]]. apply lst_of_in in Hq. destruct Hq as [Hq|Hq]; [discriminate|].
  rewrite in_app_iff. auto.
Qed.

Lemma find_opener_ok h A R (lens_ok : forall o len, In o A -> dlen h o = Some len -> 1 <= len) :
  dseg h None (A ++ R) None ->
  forall fuel cur b co cl_len cl_orig cl_ch maybe o consume m,
  find_opener fuel h cur b co cl_len cl_orig cl_ch maybe = Ok (Some (o, consume), m) ->
  (forall x, cur = Some x -> In x A) -> 1 <= cl_len ->
  In o A /\ exists len, dlen h o = Some len /\ 1 <= consume <= len /\ consume <= cl_len.
Proof.
  intros Hs. induction fuel as [|f IH]; intros cur b co cl_len cl_orig cl_ch maybe o consume m H Hcur Hcl;
    cbn [find_opener] in H; [discriminate|].
  destruct cur as [x|]; [|discriminate]. destruct (is_bottom b x); [discriminate|].
  destruct (dget h x) as [[[[[[[[sg xo] xc] len] orig] chh] p] nx]| |] eqn:Eg; cbn [bind] in H; try discriminate.
  destruct (dget_dlk _ _ _ _ _ _ _ _ _ _ Eg) as [Hdl Hln].
  pose proof (Hcur x eq_refl) as HxA.
  assert (Hp : forall y, p = Some y -> In y A).
  { intros y ->. eapply dprev_in_prefix; eassumption. }
  destruct (xo && N.eqb chh cl_ch).
  - destruct (Z.ltb_spec 0 (calc_consumption xc len orig co cl_len cl_orig)) as [Hpos|Hneg].
    + inversion H; subst o consume m. split; [exact HxA|]. exists len. split; [exact Hln|].
      pose proof (lens_ok x len HxA Hln) as Hl1.
      pose proof (calc_consumption_range xc len orig co cl_len cl_orig Hl1 Hcl). lia.
    + eapply IH; eassumption.
  - eapply IH; eassumption.
Qed.

Lemma consume_chars_ok src h d n h' len : consume_chars h d n = Ok h' -> heap_ok src h ->
  dlen h d = Some len -> 0 <= n <= len ->
  heap_ok src h' /\ kle h h' /\ length h' = length h /\
  (forall j, pr h' j = pr h j) /\ (forall j, ch h' j = ch h j) /\ (forall j, dlk h' j = dlk h j) /\
  (forall j, dlen h' j = if Nat.eqb j d then Some (len - n) else dlen h j) /\
  (forall j, j <> d -> kd h' j = kd h j).
Proof.
  unfold consume_chars. intros H Hh Hl Hn.
  destruct (iget h d) as [nd| |] eqn:E; cbn [bind] in H; try discriminate.
  pose proof (iget_ok _ _ _ E) as En. apply iget_kd in E. destruct E as (Ek & _).
  destruct (ik nd) as [| | | | | | | |s co cc len0 orig chh p nx|] eqn:Ekn; try discriminate.
  inversion H; subst h'. clear H.
  assert (len0 = len). { unfold dlen in Hl. rewrite Ek in Hl. inversion Hl. reflexivity. } subst len0.
  set (k' := IDelim (seg_with_stop s (s_start s + (len - n))) co cc (len - n) orig chh p nx).
  destruct (iset_spec h d (iset_kind nd k') nd En) as (L & Hi & Hj).
  destruct (upd_kind_view h d k' _ nd En L Hi Hj) as (K & P & C).
  assert (Hst : kind_step h (iset h d (iset_kind nd k')) d k') by (repeat split; assumption).
  pose proof (h_kind _ _ Hh d _ Ek) as Hko. cbn in Hko. destruct Hko as (Hsg & Hl0 & Hstop).
  assert (Hko' : kind_ok src k').
  { subst k'. cbn. apply seg_in_iff in Hsg. rewrite seg_in_iff. cbn. lia. }
  destruct (heap_ok_kind src _ _ _ _ _ Hst Ek eq_refl Hko' Hh) as [Hh' Hk'].
  split; [exact Hh'|]. split; [exact Hk'|]. split; [exact L|]. split; [exact P|]. split; [exact C|]. split; [|split].
  - intros j. unfold dlk. rewrite K. destruct (Nat.eqb_spec j d) as [->|]; [rewrite Ek|]; reflexivity.
  - intros j. unfold dlen. rewrite K. destruct (Nat.eqb_spec j d); reflexivity.
  - intros j Hjd. rewrite K. destruct (Nat.eqb_spec j d); [contradiction|reflexivity].
Qed.

Lemma next_in_in x l y : next_in x l = Some y -> In y l.
Proof.
  induction l as [|a l IH]; cbn; [discriminate|]. destruct l as [|b l']; [discriminate|].
  destruct (Nat.eqb x a); intros H; [inversion H; subst; cbn; auto|right; apply IH; exact H].
Qed.

Lemma move_children_ok src : forall fuel h cur stop node h', move_children fuel h cur stop node = Ok h' ->
  heap_ok src h -> (forall x, cur = Some x -> exists q, In x (ch h q)) -> kd h node <> Some ICodeSpan ->
  heap_ok src h' /\ (forall j, kd h' j = kd h j) /\ dneutral h h' /\ length h' = length h.
Proof.
  induction fuel as [|f IH]; intros h cur stop node h' H Hh Hcur Hnode; cbn [move_children] in H; [discriminate|].
  destruct cur as [x|].
  2:{ inversion H; subst h'. split; [exact Hh|]. split; [reflexivity|]. split; [apply dn_refl|reflexivity]. }
  destruct (opt_nat_eqb (Some x) stop).
  { inversion H; subst h'. split; [exact Hh|]. split; [reflexivity|]. split; [apply dn_refl|reflexivity]. }
  destruct (i_next h x) as [nx| |] eqn:En; cbn [bind] in H; try discriminate.
  destruct (i_append h node x) as [h1| |] eqn:Ea; cbn [bind] in H; try discriminate.
  pose proof (i_append_spec _ _ _ _ Ea (h_tree _ _ Hh)) as Hat.
  destruct (heap_ok_attach src _ _ _ _ Hat Hh) as [Hh1 Hk1].
  { intros C. contradiction. }
  assert (Hd1 : dneutral h h1). { eapply dn_attach; [exact Hat|]. right. apply Hcur. reflexivity. }
  destruct Hat as (_ & L1 & K1 & _ & _ & _ & _ & M1).
  destruct (IH h1 nx stop node h' H Hh1) as (Hh' & K' & Hd' & L').
  - intros y ->. apply i_next_in in En. destruct En as (p & _ & Hin).
    destruct (Nat.eq_dec y x) as [->|Hne].
    + exists node. apply M1. left. auto.
    + exists p. apply M1. right. auto.
  - rewrite K1. exact Hnode.
  - split; [exact Hh'|]. split; [intros j; rewrite K'; apply K1|]. split; [eapply dn_trans; eassumption|congruence].
Qed.

Lemma remove_between_ok src E : forall fuel c cur cl c' A M B, remove_between fuel c cur cl = Ok c' ->
  ctx_ok src E c (A ++ M ++ cl :: B) -> cur = nxt_of M (Some cl) ->
  ctx_ok src E c' (A ++ cl :: B) /\ kle (i_h c) (i_h c') /\ i_labels c' = i_labels c /\ i_bottoms c' = i_bottoms c.
Proof.
  induction fuel as [|f IH]; intros c cur cl c' A M B H Hc Hcur; cbn [remove_between] in H; [discriminate|].
  destruct M as [|x M'].
  - cbn in Hcur. subst cur. rewrite Nat.eqb_refl in H. inversion H; subst c'. cbn [app] in Hc.
    split; [exact Hc|]. split; [apply kle_refl|]. auto.
  - cbn in Hcur. subst cur. destruct Hc as [Hh Hd].
    assert (Hxc : x <> cl).
    { intros ->. pose proof (dl_nodup _ _ _ Hd) as ND. apply nodup_app_r in ND. cbn in ND. inversion ND as [|? ? Hx _]; subst.
      apply Hx. rewrite in_app_iff. cbn. auto. }
    destruct (Nat.eqb_spec x cl); [contradiction|].
    destruct (dget (i_h c) x) as [[[[[[[[sg xo] xc] len] orig] chh] p] nx]| |] eqn:Eg; cbn [bind] in H; try discriminate.
    destruct (remove_delimiter c x) as [c1| |] eqn:Er; cbn [bind] in H; try discriminate.
    destruct (dget_dlk _ _ _ _ _ _ _ _ _ _ Eg) as [Hdl _].
    cbn [app] in Hd. pose proof (dseg_mid _ _ _ _ _ _ (dl_chain _ _ _ Hd)) as Hm. rewrite Hm in Hdl.
    inversion Hdl as [[Hp Hnx]].
    destruct (remove_delimiter_ok src E c A x (M' ++ cl :: B) c1 Er Hh Hd) as (Hh1 & Hk1 & Fl & Fb & Hd1 & _).
    specialize (Hd1 E ltac:(auto)).
    destruct (IH c1 nx cl c' A M' B H (conj Hh1 Hd1)) as (Hc' & Hk' & Fl' & Fb').
    { rewrite <- Hnx. destruct M'; reflexivity. }
    split; [exact Hc'|]. split; [eapply kle_trans; eassumption|]. split; congruence.
Qed.

Lemma dl_consume E c L h' d : dl_ok E c L ->
  (forall j, pr h' j = pr (i_h c) j) -> (forall j, ch h' j = ch (i_h c) j) -> (forall j, dlk h' j = dlk (i_h c) j) ->
  (forall j, j <> d -> dlen h' j = dlen (i_h c) j) ->
  dl_ok (d :: E) (cx_h c h') L.
Proof.
  intros [D1 D2 D3 D4 D5 D6] P C V N. constructor; cbn [i_h cx_h i_dfirst i_dlast]; try assumption.
  - eapply dseg_ext; [|exact D4]. intros x _. apply V.
  - intros p x. rewrite C, V. apply D5.
  - intros x lx Hx He. cbn in He. assert (Hxd : x <> d) by (intros ->; apply He; auto).
    rewrite N by assumption. intros Hl. apply (D6 x lx); [exact Hx|tauto|exact Hl].
Qed.

Lemma dl_shrink E c L x : dl_ok (x :: E) c L -> (forall len, dlen (i_h c) x = Some len -> 1 <= len) -> dl_ok E c L.
Proof.
  intros [D1 D2 D3 D4 D5 D6] Hx. constructor; try assumption.
  intros y ly Hy He Hl. destruct (Nat.eq_dec y x) as [->|Hne]; [apply Hx; exact Hl|].
  apply (D6 y ly); [exact Hy| |exact Hl]. cbn. intros [E0|E0]; [congruence|contradiction].
Qed.

Lemma ctx_neutral src E c L h' : ctx_ok src E c L -> heap_ok src h' -> dneutral (i_h c) h' -> ctx_ok src E (cx_h c h') L.
Proof.
  intros [Hh Hd] Hh' Hn. split; [exact Hh'|]. eapply dl_frame_dn; [exact Hd|reflexivity|reflexivity|exact Hn].
Qed.

Lemma nxt_of_in B y : nxt_of B None = Some y -> In y B.
Proof. destruct B; cbn; intros H; inversion H; auto. Qed.

Lemma closer_loop_ok src : forall fuel c closer b c' L, closer_loop fuel c closer b = Ok c' -> ctx_ok src [] c L ->
  (forall cl, closer = Some cl -> In cl L) ->
  exists L', ctx_ok src [] c' L' /\ kle (i_h c) (i_h c') /\ i_labels c' = i_labels c /\ i_bottoms c' = i_bottoms c.
Proof.
  induction fuel as [|f IH]; intros c closer b c' L H Hc Hcl; cbn [closer_loop] in H; [discriminate|].
  destruct closer as [cl|].
  2:{ inversion H; subst c'. exists L. split; [exact Hc|]. split; [apply kle_refl|]. auto. }
  destruct (dget (i_h c) cl) as [[[[[[[[csg c_open] c_close] c_len] c_orig] c_ch] c_prev] c_next]| |] eqn:Eg;
    cbn [bind] in H; try discriminate.
  destruct (in_split_nat cl L (Hcl cl eq_refl)) as (A & B & ->).
  destruct Hc as [Hh Hd].
  destruct (dget_dlk _ _ _ _ _ _ _ _ _ _ Eg) as [Hdl Hln].
  pose proof (dseg_mid _ _ _ _ _ _ (dl_chain _ _ _ Hd)) as Hm. rewrite Hm in Hdl. inversion Hdl as [[Hp Hnx]].
  assert (HnB : forall y, c_next = Some y -> In y B). { intros y Ey. apply nxt_of_in. congruence. }
  destruct (negb c_close).
  { apply (IH c c_next b c' (A ++ cl :: B) H (conj Hh Hd)). intros y Ey. rewrite in_app_iff. cbn. auto. }
  destruct (find_opener (S (length (i_h c))) (i_h c) c_prev b c_open c_len c_orig c_ch false) as [[found maybe]| |] eqn:Ef;
    cbn [bind] in H; try discriminate.
  destruct found as [[op consume]|].
  2:{ destruct (negb maybe && negb c_open).
      - destruct (remove_delimiter c cl) as [c1| |] eqn:Er; cbn [bind] in H; try discriminate.
        destruct (remove_delimiter_ok src [] c A cl B c1 Er Hh Hd) as (Hh1 & Hk1 & Fl & Fb & Hd1 & _).
        specialize (Hd1 [] ltac:(intros ? [])).
        destruct (IH c1 c_next b c' (A ++ B) H (conj Hh1 Hd1)) as (L' & Hc' & Hk' & Fl' & Fb').
        { intros y Ey. rewrite in_app_iff. auto. }
        exists L'. split; [exact Hc'|]. split; [eapply kle_trans; eassumption|]. split; congruence.
      - cbn [bind] in H. apply (IH c c_next b c' (A ++ cl :: B) H (conj Hh Hd)). intros y Ey. rewrite in_app_iff. cbn. auto. }
  (* an opener was found *)
  assert (Hcl1 : 1 <= c_len). { apply (dl_len _ _ _ Hd cl c_len); [rewrite in_app_iff; cbn; auto|intros []|exact Hln]. }
  destruct (find_opener_ok (i_h c) A (cl :: B)) with (fuel := S (length (i_h c))) (cur := c_prev) (b := b) (co := c_open)
    (cl_len := c_len) (cl_orig := c_orig) (cl_ch := c_ch) (maybe := false) (o := op) (consume := consume) (m := maybe)
    as (HopA & olen & Hol & Hcons & Hconsc); try assumption.
  { intros o len Ho Hl. apply (dl_len _ _ _ Hd o len); [rewrite in_app_iff; auto|intros []|exact Hl]. }
  { exact (dl_chain _ _ _ Hd). }
  { intros x Ex. rewrite <- Hp in Ex. apply lst_of_in in Ex. destruct Ex; [discriminate|assumption]. }
  destruct (in_split_nat op A HopA) as (A1 & M & ->).
  assert (ND : NoDup (A1 ++ op :: M ++ cl :: B)).
  { pose proof (dl_nodup _ _ _ Hd) as ND. rewrite <- app_assoc in ND. exact ND. }
  assert (Hopcl : op <> cl).
  { intros ->. apply nodup_app_r in ND. inversion ND as [|? ? Hx _]; subst. apply Hx. rewrite in_app_iff. cbn. auto. }
  destruct (consume_chars (i_h c) op consume) as [h1| |] eqn:E1; cbn [bind] in H; try discriminate.
  destruct (consume_chars_ok src _ _ _ _ olen E1 Hh Hol ltac:(lia)) as (Hh1 & Hk1 & L1 & P1 & C1 & V1 & N1 & K1).
  destruct (consume_chars h1 cl consume) as [h2| |] eqn:E2; cbn [bind] in H; try discriminate.
  assert (Hln1 : dlen h1 cl = Some c_len). { rewrite N1. destruct (Nat.eqb_spec cl op); [congruence|exact Hln]. }
  destruct (consume_chars_ok src _ _ _ _ c_len E2 Hh1 Hln1 ltac:(lia)) as (Hh2 & Hk2 & L2 & P2 & C2 & V2 & N2 & K2).
  assert (Hd2 : dl_ok [cl; op] (cx_h c h2) ((A1 ++ op :: M) ++ cl :: B)).
  { apply (dl_consume [op] (cx_h c h1)); cbn [i_h cx_h]; try assumption.
    - apply dl_consume; try assumption. intros j Hj. rewrite N1. destruct (Nat.eqb_spec j op); [contradiction|reflexivity].
    - intros j Hj. rewrite N2. destruct (Nat.eqb_spec j cl); [contradiction|reflexivity]. }
  destruct (new_inode (cx_h c h2) (IEmphasis consume)) as [c3 node] eqn:En.
  destruct (ctx_new src _ _ _ _ _ _ En I (conj Hh2 Hd2)) as ([Hh3 Hd3] & Hk3 & Hs3 & Kn & Pn & Nn & HnL & Hnode & Kne).
  destruct (iget (i_h c3) op) as [opn| |] eqn:Eo; cbn [bind] in H; try discriminate.
  apply iget_kd in Eo. destruct Eo as (Eko & Epo & _).
  destruct (ipar opn) as [parent|] eqn:Epar; [|discriminate].
  destruct (i_next (i_h c3) op) as [child| |] eqn:Ech; cbn [bind] in H; try discriminate.
  destruct (move_children (S (length (i_h c3))) (i_h c3) child (Some cl) node) as [h4| |] eqn:Em; cbn [bind] in H; try discriminate.
  destruct (move_children_ok src _ _ _ _ _ _ Em Hh3) as (Hh4 & K4 & Hn4 & L4).
  { intros x ->. apply i_next_in in Ech. destruct Ech as (p & _ & Hin). exists p. exact Hin. }
  { rewrite Kn. discriminate. }
  destruct (i_insert_after h4 parent op node) as [h5| |] eqn:Ei; cbn [bind] in H; try discriminate.
  pose proof (i_insert_after_spec _ _ _ _ _ Ei (h_tree _ _ Hh4)) as Hat.
  assert (Hopd : dlk (i_h c3) op <> None).
  { eapply dseg_in; [exact (dl_chain _ _ _ Hd3)|]. rewrite !in_app_iff. cbn. auto. }
  assert (Hpar : kd (i_h c3) parent <> Some ICodeSpan).
  { intros C0. pose proof (t_par _ (h_tree _ _ Hh3) op parent Epo) as Hin.
    unfold dlk in Hopd. destruct (kd (i_h c3) op) as [ko|] eqn:Eko'; [|congruence].
    pose proof (h_cs _ _ Hh3 parent op ko C0 Hin Eko') as Ht. destruct ko; cbn in Ht; try discriminate. congruence. }
  destruct (heap_ok_attach src _ _ _ _ Hat Hh4) as [Hh5 Hk5].
  { intros C0. rewrite K4 in C0. contradiction. }
  assert (Hn5 : dneutral h4 h5).
  { eapply dn_attach; [exact Hat|]. left. unfold dlk. rewrite K4, Kn. reflexivity. }
  pose proof (ctx_neutral src _ _ _ h5 (conj Hh3 Hd3) Hh5 (dn_trans _ _ _ Hn4 Hn5)) as Hc6.
  set (c6 := cx_h c3 h5) in *.
  assert (Hk6 : kle (i_h c) (i_h c6)).
  { eapply kle_trans; [exact Hk1|]. eapply kle_trans; [exact Hk2|]. eapply kle_trans; [exact Hk3|].
    eapply kle_trans; [apply kle_same; exact K4|exact Hk5]. }
  assert (Hs6 : i_labels c6 = i_labels c /\ i_bottoms c6 = i_bottoms c).
  { destruct Hs3 as (_ & _ & S3 & S4). subst c6. cbn. split; [exact S3|exact S4]. }
  destruct (dget (i_h c6) op) as [[[[[[[[osg o_open] o_close] o_len'] o_orig] o_ch] o_prev] o_next]| |] eqn:Eg6;
    cbn [bind] in H; try discriminate.
  destruct (remove_between (S (length (i_h c6))) c6 o_next cl) as [c7| |] eqn:Er7; cbn [bind] in H; try discriminate.
  destruct Hc6 as [Hh6 Hd6].
  assert (Ho_next : o_next = nxt_of M (Some cl)).
  { destruct (dget_dlk _ _ _ _ _ _ _ _ _ _ Eg6) as [Hdl6 _].
    pose proof (dl_chain _ _ _ Hd6) as Hs6'. rewrite <- app_assoc in Hs6'. cbn [app] in Hs6'.
    pose proof (dseg_mid _ _ _ _ _ _ Hs6') as Hm6. rewrite Hm6 in Hdl6. inversion Hdl6 as [[Hx0 Hx]].
    destruct M; reflexivity. }
  assert (Hd6' : dl_ok [cl; op] c6 ((A1 ++ [op]) ++ M ++ cl :: B)).
  { rewrite <- app_assoc. cbn [app]. rewrite <- app_assoc in Hd6. exact Hd6. }
  destruct (remove_between_ok src _ _ _ _ _ _ _ _ _ Er7 (conj Hh6 Hd6') Ho_next) as ([Hh7 Hd7] & Hk7 & Fl7 & Fb7).
  destruct (dget (i_h c7) op) as [[[[[[[[osg7 o_open7] o_close7] o_len] o_orig7] o_ch7] o_prev7] o_next7]| |] eqn:Eg7;
    cbn [bind] in H; try discriminate.
  destruct (dget_dlk _ _ _ _ _ _ _ _ _ _ Eg7) as [_ Hol7].
  pose proof (h_kind _ _ Hh7 op _ (dget_view _ _ _ _ _ _ _ _ _ _ Eg7)) as Hko7. cbn in Hko7. destruct Hko7 as (_ & Hol0 & _).
  (* after the opener has been dealt with *)
  assert (H8 : exists c8 A8, (if o_len =? 0 then remove_delimiter c7 op else Ok c7) = Ok c8 /\
            ctx_ok src [cl] c8 (A8 ++ cl :: B) /\ kle (i_h c7) (i_h c8) /\ i_labels c8 = i_labels c7 /\ i_bottoms c8 = i_bottoms c7).
  { destruct (Z.eqb_spec o_len 0) as [Ez|Enz].
    - destruct (remove_delimiter c7 op) as [c8| |] eqn:Er8; cbn [bind] in H; try discriminate.
      destruct (remove_delimiter_ok src [cl; op] c7 A1 op (cl :: B) c8 Er8 Hh7) as (Hh8 & Hk8 & Fl8 & Fb8 & Hd8 & _).
      { rewrite <- app_assoc in Hd7. exact Hd7. }
      exists c8, A1. split; [reflexivity|]. split; [split; [exact Hh8|]|auto].
      apply Hd8. intros x [<-|[<-|[]]]; cbn; auto.
    - exists c7, (A1 ++ [op]). split; [reflexivity|]. split; [|split; [apply kle_refl|auto]].
      split; [exact Hh7|]. apply (dl_shrink _ _ _ op).
      + eapply dl_weaken; [exact Hd7|]. intros x [<-|[<-|[]]]; cbn; auto.
      + intros len Hl. rewrite Hol7 in Hl. inversion Hl; subst. lia. }
  destruct H8 as (c8 & A8 & E8 & [Hh8 Hd8] & Hk8 & Fl8 & Fb8). rewrite E8 in H. cbn [bind] in H.
  destruct (dget (i_h c8) cl) as [[[[[[[[csg8 c_open8] c_close8] cl_len] c_orig8] c_ch8] c_prev8] cl_next]| |] eqn:Eg8;
    cbn [bind] in H; try discriminate.
  destruct (dget_dlk _ _ _ _ _ _ _ _ _ _ Eg8) as [Hdl8 Hln8].
  pose proof (dseg_mid _ _ _ _ _ _ (dl_chain _ _ _ Hd8)) as Hm8. rewrite Hm8 in Hdl8. inversion Hdl8 as [[Hpx8 Hnx8]].
  pose proof (h_kind _ _ Hh8 cl _ (dget_view _ _ _ _ _ _ _ _ _ _ Eg8)) as Hko8. cbn in Hko8. destruct Hko8 as (_ & Hcl0 & _).
  assert (Hk08 : kle (i_h c) (i_h c8)). { eapply kle_trans; [exact Hk6|]. eapply kle_trans; eassumption. }
  destruct Hs6 as [Hs6a Hs6b].
  destruct (Z.eqb_spec cl_len 0) as [Ez|Enz].
  - destruct (remove_delimiter c8 cl) as [c9| |] eqn:Er9; cbn [bind] in H; try discriminate.
    destruct (remove_delimiter_ok src _ c8 A8 cl B c9 Er9 Hh8 Hd8) as (Hh9 & Hk9 & Fl9 & Fb9 & Hd9 & _).
    specialize (Hd9 [] ltac:(intros x [<-|[]]; auto)).
    destruct (IH c9 cl_next b c' (A8 ++ B) H (conj Hh9 Hd9)) as (L' & Hc' & Hk' & Fl' & Fb').
    { intros y Ey. rewrite in_app_iff. right. apply nxt_of_in. congruence. }
    exists L'. split; [exact Hc'|]. split; [eapply kle_trans; [exact Hk08|eapply kle_trans; eassumption]|]. split; congruence.
  - assert (Hd9 : dl_ok [] c8 (A8 ++ cl :: B)).
    { apply (dl_shrink _ _ _ cl); [exact Hd8|]. intros len Hl. rewrite Hln8 in Hl. inversion Hl; subst. lia. }
    destruct (IH c8 (Some cl) b c' (A8 ++ cl :: B) H (conj Hh8 Hd9)) as (L' & Hc' & Hk' & Fl' & Fb').
    { intros y Ey. inversion Ey; subst. rewrite in_app_iff. cbn. auto. }
    exists L'. split; [exact Hc'|]. split; [eapply kle_trans; eassumption|]. split; congruence.
Qed.

Lemma earliest_delim_ok E c L : dl_ok E c L -> forall fuel cur b acc r,
  earliest_delim fuel (i_h c) cur b acc = Ok r ->
  (forall x, cur = Some x -> exists q, In x (ch (i_h c) q)) -> (forall a, acc = Some a -> In a L) ->
  forall a, r = Some a -> In a L.
Proof.
  intros Hd. induction fuel as [|f IH]; intros cur b acc r H Hcur Hacc; cbn [earliest_delim] in H; [discriminate|].
  destruct cur as [x|]; [|inversion H; subst; exact Hacc].
  destruct (is_bottom b x); [inversion H; subst; exact Hacc|].
  destruct (is_delim (i_h c) x) as [isd| |] eqn:Ed; cbn [bind] in H; try discriminate.
  destruct (i_prev (i_h c) x) as [pv| |] eqn:Ep; cbn [bind] in H; try discriminate.
  apply is_delim_dlk in Ed.
  eapply IH; [exact H| |].
  - intros y ->. apply i_prev_in in Ep. destruct Ep as (p & _ & Hin). exists p. exact Hin.
  - destruct isd; [|exact Hacc]. intros a Ea. inversion Ea; subst a.
    destruct (Hcur x eq_refl) as (q & Hq). eapply (dl_att _ _ _ Hd); [exact Hq|]. apply Ed. reflexivity.
Qed.

Lemma process_delimiters_ok src fuel c b c' L : process_delimiters fuel c b = Ok c' -> ctx_ok src [] c L ->
  exists L', ctx_ok src [] c' L' /\ kle (i_h c) (i_h c') /\ i_labels c' = i_labels c /\ i_bottoms c' = i_bottoms c.
Proof.
  unfold process_delimiters. intros H Hc. destruct (i_dlast c) as [last|] eqn:El.
  2:{ inversion H; subst c'. exists L. split; [exact Hc|]. split; [apply kle_refl|]. auto. }
  set (closer0 := match b with
                  | BNil => Ok (i_dfirst c)
                  | BPtr _ => if is_bottom b last then Ok None
                              else pv <- i_prev (i_h c) last ;; earliest_delim (S (length (i_h c))) (i_h c) pv b None
                  end) in H.
  destruct closer0 as [closer| |] eqn:Ec; cbn [bind] in H; try discriminate.
  assert (Hcl : forall cl, closer = Some cl -> In cl L).
  { destruct Hc as [_ Hd]. subst closer0. destruct b as [|bp].
    - inversion Ec; subst closer. intros cl Ecl. rewrite (dl_first _ _ _ Hd) in Ecl. apply nxt_of_in. exact Ecl.
    - destruct (is_bottom (BPtr bp) last); [inversion Ec; subst; discriminate|].
      destruct (i_prev (i_h c) last) as [pv| |] eqn:Ep; cbn [bind] in Ec; try discriminate.
      eapply (earliest_delim_ok _ _ _ Hd); [exact Ec| |discriminate].
      intros y ->. apply i_prev_in in Ep. destruct Ep as (p & _ & Hin). exists p. exact Hin. }
  assert (Hfin : forall c1 L1, ctx_ok src [] c1 L1 -> kle (i_h c) (i_h c1) -> i_labels c1 = i_labels c -> i_bottoms c1 = i_bottoms c ->
            clear_delimiters c1 b = Ok c' ->
            exists L', ctx_ok src [] c' L' /\ kle (i_h c) (i_h c') /\ i_labels c' = i_labels c /\ i_bottoms c' = i_bottoms c).
  { intros c1 L1 Hc1 Hk1 Fl1 Fb1 Hcd. destruct (clear_delimiters_ok src _ _ _ _ Hcd Hc1) as (L' & Hc' & Hk' & Fl' & Fb' & _).
    exists L'. split; [exact Hc'|]. split; [eapply kle_trans; eassumption|]. split; congruence. }
  destruct closer as [cl|].
  - destruct (closer_loop fuel c (Some cl) b) as [c1| |] eqn:Ecl; cbn [bind] in H; try discriminate.
    destruct (closer_loop_ok src _ _ _ _ _ _ Ecl Hc Hcl) as (L1 & Hc1 & Hk1 & Fl1 & Fb1).
    eapply Hfin; eassumption.
  - eapply Hfin; [exact Hc|apply kle_refl|reflexivity|reflexivity|exact H].
Qed.

(* ---------- steps that keep the context invariant whatever the delimiter list is ---------- *)
Definition nstep (src : bytes) (c c' : ictx) : Prop :=
  forall E L, ctx_ok src E c L -> ctx_ok src E c' L /\ kle (i_h c) (i_h c').
Lemma nstep_refl src c : nstep src c c.
Proof. intros E L H. split; [exact H|apply kle_refl]. Qed.
Lemma nstep_trans src a b c : nstep src a b -> nstep src b c -> nstep src a c.
Proof.
  intros A B E L H. destruct (A E L H) as [H1 K1]. destruct (B E L H1) as [H2 K2].
  split; [exact H2|eapply kle_trans; eassumption].
Qed.

Lemma dl_fields E c c' L : dl_ok E c L -> i_h c' = i_h c -> i_dfirst c' = i_dfirst c -> i_dlast c' = i_dlast c -> dl_ok E c' L.
Proof. intros [D1 D2 D3 D4 D5 D6] Hh Hf Hl. constructor; rewrite ?Hh, ?Hf, ?Hl; assumption. Qed.

Lemma nstep_fields src c c' : i_h c' = i_h c -> i_dfirst c' = i_dfirst c -> i_dlast c' = i_dlast c -> nstep src c c'.
Proof.
  intros Hh Hf Hl E L [H1 H2]. split; [|rewrite Hh; apply kle_refl]. split; [rewrite Hh; exact H1|].
  eapply dl_fields; eassumption.
Qed.

Lemma nstep_neutral src c c' : (heap_ok src (i_h c) -> neutral_step src c c') -> nstep src c c'.
Proof.
  intros H E L [Hh Hd]. destruct (H Hh) as (Hh' & Hk & Hn & (F1 & F2 & _)). split; [|exact Hk]. split; [exact Hh'|].
  eapply dl_frame_dn; eassumption.
Qed.

(* ---------- link label states: only the links of ILabel nodes change ---------- *)
Lemma lget_view h x s im p nx fs ls : lget h x = Ok (s, im, p, nx, fs, ls) -> kd h x = Some (ILabel s im p nx fs ls).
Proof.
  unfold lget. destruct (iget h x) as [n| |] eqn:E; cbn [bind]; try discriminate.
  apply iget_kd in E. destruct E as (Ek & _). destruct (ik n); try discriminate.
  intros H. inversion H; subst. exact Ek.
Qed.

Lemma lset_step h x p nx fs ls h' : lset h x p nx fs ls = Ok h' ->
  exists s im p0 n0 f0 l0, kd h x = Some (ILabel s im p0 n0 f0 l0) /\ kind_step h h' x (ILabel s im p nx fs ls).
Proof.
  unfold lset. destruct (iget h x) as [n| |] eqn:E; cbn [bind]; try discriminate.
  pose proof (iget_ok _ _ _ E) as En. apply iget_kd in E. destruct E as (Ek & _).
  destruct (ik n) eqn:Ekn; try discriminate. intros H. inversion H; subst h'.
  do 6 eexists. split; [exact Ek|].
  destruct (iset_spec h x (iset_kind n (ILabel s is_image p nx fs ls)) n En) as (L & Hi & Hj).
  split; [exact L|]. eapply upd_kind_view; eauto.
Qed.

Lemma lset_nstep src c x p nx fs ls h' c' : lset (i_h c) x p nx fs ls = Ok h' ->
  i_h c' = h' -> i_dfirst c' = i_dfirst c -> i_dlast c' = i_dlast c -> nstep src c c'.
Proof.
  intros H Eh Ef El. apply lset_step in H. destruct H as (s & im & p0 & n0 & f0 & l0 & Hk & Hs).
  eapply nstep_trans; [|apply (nstep_fields src (cx_h c h') c'); [exact Eh|exact Ef|exact El]].
  intros E L Hc. eapply ctx_kind; [exact Hc|exact Hs|exact Hk|reflexivity|cbn; lia|].
  destruct Hc as [Hh _]. exact (h_kind _ _ Hh x _ Hk).
Qed.

Lemma lset_nstep_h src c h x p nx fs ls h' : lset h x p nx fs ls = Ok h' -> nstep src (cx_h c h) (cx_h c h').
Proof. intros H. eapply (lset_nstep src (cx_h c h)); [exact H|reflexivity|reflexivity|reflexivity]. Qed.

Lemma cx_h_id src c : nstep src c (cx_h c (i_h c)).
Proof. apply nstep_fields; reflexivity. Qed.

Lemma push_label_nstep src c v c' : push_label c v = Ok c' -> nstep src c c'.
Proof.
  unfold push_label. intros H. destruct (i_labels c) as [lst|].
  - destruct (lget (i_h c) lst) as [[[[[[s im] p] nx] fs] ls]| |]; cbn [bind] in H; try discriminate.
    destruct ls as [l|]; [|discriminate].
    destruct (lset (i_h c) lst p nx fs (Some v)) as [h1| |] eqn:E1; cbn [bind] in H; try discriminate.
    destruct (lget h1 l) as [[[[[[s2 im2] lp] n2] lf] ll]| |]; cbn [bind] in H; try discriminate.
    destruct (lset h1 l lp (Some v) lf ll) as [h2| |] eqn:E2; cbn [bind] in H; try discriminate.
    destruct (lget h2 v) as [[[[[[s3 im3] p3] vn] vf] vl]| |]; cbn [bind] in H; try discriminate.
    destruct (lset h2 v (Some l) vn vf vl) as [h3| |] eqn:E3; cbn [bind] in H; try discriminate.
    inversion H; subst c'.
    eapply nstep_trans; [apply cx_h_id|]. eapply nstep_trans; [eapply lset_nstep_h; exact E1|].
    eapply nstep_trans; [eapply lset_nstep_h; exact E2|]. eapply lset_nstep_h; exact E3.
  - destruct (lget (i_h c) v) as [[[[[[s im] p] nx] fs] ls]| |]; cbn [bind] in H; try discriminate.
    destruct (lset (i_h c) v p nx (Some v) (Some v)) as [h1| |] eqn:E1; cbn [bind] in H; try discriminate.
    inversion H; subst c'. eapply lset_nstep; [exact E1|reflexivity|reflexivity|reflexivity].
Qed.

Lemma remove_label_nstep src c d c' : remove_label c d = Ok c' -> nstep src c c'.
Proof.
  unfold remove_label. intros H. destruct (i_labels c) as [lst0|]; [|inversion H; apply nstep_refl].
  destruct (lget (i_h c) d) as [[[[[[s im] dp] dn] df] dl]| |]; cbn [bind] in H; try discriminate.
  (* the relinking *)
  match type of H with (r <- ?R ;; _) = _ => destruct R as [[c1 lst]| |] eqn:ER end; cbn [bind] in H; try discriminate.
  assert (N1 : nstep src c c1).
  { destruct dp as [pp|].
    - destruct (lget (i_h c) pp) as [[[[[[s2 im2] ppv] n2] pf] pl]| |]; cbn [bind] in ER; try discriminate.
      destruct (lset (i_h c) pp ppv dn pf pl) as [h1| |] eqn:E1; cbn [bind] in ER; try discriminate.
      destruct dn as [nl|].
      + destruct (lget h1 nl) as [[[[[[s3 im3] p3] nn] nf] nl2]| |]; cbn [bind] in ER; try discriminate.
        destruct (lset h1 nl (Some pp) nn nf nl2) as [h2| |] eqn:E2; cbn [bind] in ER; try discriminate.
        inversion ER; subst c1 lst.
        eapply nstep_trans; [apply cx_h_id|]. eapply nstep_trans; [eapply lset_nstep_h; exact E1|]. eapply lset_nstep_h; exact E2.
      + cbn [bind] in ER. inversion ER; subst c1 lst.
        eapply nstep_trans; [apply cx_h_id|]. eapply lset_nstep_h; exact E1.
    - destruct dn as [nl|].
      + destruct (lget (i_h c) nl) as [[[[[[s3 im3] p3] nn] nf] nl2]| |]; cbn [bind] in ER; try discriminate.
        destruct (lset (i_h c) nl None nn (Some d) dl) as [h1| |] eqn:E1; cbn [bind] in ER; try discriminate.
        inversion ER; subst c1 lst. eapply lset_nstep; [exact E1|reflexivity|reflexivity|reflexivity].
      + inversion ER; subst c1 lst. apply nstep_fields; reflexivity. }
  match type of H with (h <- ?R ;; _) = _ => destruct R as [h2| |] eqn:E2 end; cbn [bind] in H; try discriminate.
  destruct (lset h2 d None None None None) as [h3| |] eqn:E3; cbn [bind] in H; try discriminate.
  inversion H; subst c'.
  eapply nstep_trans; [exact N1|].
  assert (N2 : nstep src c1 (cx_h c1 h2)).
  { destruct lst as [l|]; [destruct dn|]; try (inversion E2; subst h2; apply cx_h_id).
    destruct (lget (i_h c1) l) as [[[[[[s3 im3] lp] ln] lf] ll]| |]; cbn [bind] in E2; try discriminate.
    eapply lset_nstep; [exact E2|reflexivity|reflexivity|reflexivity]. }
  eapply nstep_trans; [exact N2|]. eapply lset_nstep_h; exact E3.
Qed.
