(* Leaf blocks: the three phases composed.  On the source of a document of plain paragraphs, ATX
   headings, thematic breaks and fenced code blocks the Convert model yields the HTML of
   SpecLeafBytes.ldoc_html. *)
Require Import GM.model.Base GM.model.Util GM.model.UtilI GM.model.Reader GM.model.HtmlWriter GM.model.Html GM.model.HtmlI
               GM.model.SpecDoc GM.model.BlockParse GM.model.InlineParse GM.model.ParseI.
Require Import GM.proofs.SpecParaBytes GM.proofs.SpecParaCompose GM.proofs.SpecLeafBytes GM.proofs.SpecLeafBlocks GM.proofs.SpecLeafInline
               GM.proofs.SpecLeafRender.
From Coq Require Import List NArith ZArith Bool Lia.
Import ListNotations.
Open Scope Z_scope.

(* the whole parser model *)
Theorem parse_tree_leaf d fin : ldoc_ok d = true ->
  ParseTree (ldoc_src d fin) = Ok (Node KDocument [] None (ldoc_full 0 d)).
Proof.
  intros Hd. unfold ParseTree. rewrite (parse_blocks_tree_leaf d fin Hd). cbn [bind].
  unfold ldoc_ok in Hd. apply andb_true_iff in Hd. destruct Hd as [_ Hd].
  rewrite attach_inlines_eq. cbn [has_inlines].
  unfold ldoc_src.
  change (ldoc_body d ++ (if fin then [10%N] else [])) with ([] ++ ldoc_body d ++ (if fin then [10%N] else [])).
  change 0 with (zlen (@nil N)).
  rewrite (attach_ldoc_blocks [] d [] _ Hd). reflexivity.
Qed.

Theorem convert_leaf c d fin : hardwraps c = false -> xhtml c = true -> ldoc_ok d = true ->
  ConvertModel c (ldoc_src d fin) = Ok (ldoc_html d).
Proof.
  intros Hc Hx Hd. unfold ConvertModel. rewrite (parse_tree_leaf d fin Hd). cbn [bind].
  unfold ldoc_src. apply render_leaf; assumption.
Qed.
