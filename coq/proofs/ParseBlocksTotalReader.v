(* Helper file for ParseBlocksTotal.v: the plain reader under the invariant RI (RInv plus bounds
   on the line head), with monotonicity (r_le) and "stays on the line" (same_line) facts that the
   laws of ReaderProofs.v / BlocksProofs.v do not state. *)
Require Import GM.model.Base GM.model.Util GM.model.Reader GM.model.ReaderSpec GM.model.Blocks.
Require Import GM.proofs.ReaderProofs GM.proofs.BlocksProofs.
From Coq Require Import ZArith Lia List Bool.
Open Scope Z_scope.

Definition RI (r : reader) : Prop := RInv r /\ 0 <= r_head r <= s_start (r_pos r).
Definition same_pos (r r' : reader) : Prop :=
  r_src r' = r_src r /\ r_pos r' = r_pos r /\ r_head r' = r_head r /\ r_line r' = r_line r.
Definition r_le (r r' : reader) : Prop :=
  r_src r' = r_src r /\ s_start (r_pos r) <= s_start (r_pos r') /\ s_stop (r_pos r) <= s_stop (r_pos r').
Definition same_line (r r' : reader) : Prop :=
  r_src r' = r_src r /\ s_stop (r_pos r') = s_stop (r_pos r) /\ s_start (r_pos r) <= s_start (r_pos r') /\
  r_head r' = r_head r /\ r_line r' = r_line r.

Lemma same_pos_refl r : same_pos r r.
Proof. unfold same_pos. auto. Qed.
Lemma same_pos_trans a b c : same_pos a b -> same_pos b c -> same_pos a c.
Proof. unfold same_pos. intros (A1 & A2 & A3 & A4) (B1 & B2 & B3 & B4). csplit; congruence. Qed.
Lemma r_le_refl r : r_le r r.
Proof. unfold r_le. csplit; auto; lia. Qed.
Lemma r_le_trans a b c : r_le a b -> r_le b c -> r_le a c.
Proof. unfold r_le. intros (A1 & A2 & A3) (B1 & B2 & B3). csplit; [congruence|lia|lia]. Qed.
Lemma same_line_refl r : same_line r r.
Proof. unfold same_line. csplit; auto; lia. Qed.
Lemma same_line_trans a b c : same_line a b -> same_line b c -> same_line a c.
Proof. unfold same_line. intros (A1 & A2 & A3 & A4 & A5) (B1 & B2 & B3 & B4 & B5). csplit; try congruence; lia. Qed.
Lemma same_pos_line a b : same_pos a b -> same_line a b.
Proof. unfold same_pos, same_line. intros (A1 & A2 & A3 & A4). rewrite A2. csplit; auto; lia. Qed.
Lemma same_line_le a b : same_line a b -> r_le a b.
Proof. unfold same_line, r_le. intros (A1 & A2 & A3 & A4 & A5). csplit; auto; lia. Qed.
Lemma same_pos_le a b : same_pos a b -> r_le a b.
Proof. intros H. apply same_line_le, same_pos_line, H. Qed.
Lemma same_pos_view a b : same_pos a b -> r_view b = r_view a.
Proof. unfold same_pos, r_view. intros (A1 & A2 & _). rewrite A1, A2. reflexivity. Qed.
Lemma same_pos_in_range a b : same_pos a b -> r_in_range b = r_in_range a.
Proof. unfold same_pos, r_in_range, r_len. intros (A1 & A2 & _). rewrite A1, A2. reflexivity. Qed.
Lemma same_pos_column a b : same_pos a b -> r_column b (r_head b) = r_column a (r_head a).
Proof. unfold same_pos, r_column. intros (A1 & A2 & A3 & _). rewrite A1, A2, A3. reflexivity. Qed.

Lemma ri_bounds r : RI r ->
  0 <= r_head r <= s_start (r_pos r) /\ s_start (r_pos r) <= s_stop (r_pos r) /\
  s_stop (r_pos r) <= zlen (r_src r) /\ 0 <= s_pad (r_pos r).
Proof. intros [Hinv Hh]. pose proof (inv_bounds r Hinv). pose proof (ri_pad r Hinv). lia. Qed.

(* ---------- nth of the view ---------- *)
Lemma nth_skipn_add {A} (d : A) (l : list A) a j : nth j (skipn a l) d = nth (a + j) l d.
Proof.
  revert l. induction a as [|a IH]; intros l; [reflexivity|].
  destruct l as [|x l]; [destruct j; reflexivity|]. cbn [skipn Nat.add nth]. apply IH.
Qed.
Lemma nth_firstn_lt {A} (d : A) (l : list A) n j : (j < n)%nat -> nth j (firstn n l) d = nth j l d.
Proof.
  revert l j. induction n as [|n IH]; intros l j Hj; [lia|].
  destruct l as [|x l]; [reflexivity|]. destruct j as [|j]; [reflexivity|]. cbn [firstn nth]. apply IH. lia.
Qed.
Lemma nth_sub src a b j : 0 <= a -> 0 <= j < b - a -> nth (Z.to_nat j) (sub src a b) 0%N = nth (Z.to_nat (a + j)) src 0%N.
Proof.
  intros Ha Hj. unfold sub. rewrite nth_firstn_lt by lia. rewrite nth_skipn_add. f_equal. lia.
Qed.
Lemma nth_repeat_in {A} (x d : A) n k : (k < n)%nat -> nth k (repeat x n) d = x.
Proof. revert k. induction n as [|n IH]; intros k Hk; [lia|]. destruct k; [reflexivity|]. cbn [repeat nth]. apply IH. lia. Qed.
Lemma nth_view_pad r k : 0 <= k < s_pad (r_pos r) -> nth (Z.to_nat k) (r_view r) 0%N = 32%N.
Proof.
  intros Hk. unfold r_view. rewrite app_nth1 by (unfold spaces_n; rewrite repeat_length; lia).
  unfold spaces_n. apply nth_repeat_in. lia.
Qed.
Lemma nth_view_src r k : RI r -> s_pad (r_pos r) <= k < zlen (r_view r) ->
  nth (Z.to_nat k) (r_view r) 0%N = nth (Z.to_nat (s_start (r_pos r) + (k - s_pad (r_pos r)))) (r_src r) 0%N.
Proof.
  intros HI Hk. pose proof (ri_bounds r HI) as Hb. destruct HI as [Hinv _].
  rewrite (view_zlen r Hinv) in Hk. unfold r_view.
  rewrite app_nth2 by (unfold spaces_n; rewrite repeat_length; lia).
  unfold spaces_n at 1. rewrite repeat_length.
  replace (Z.to_nat k - Z.to_nat (s_pad (r_pos r)))%nat with (Z.to_nat (k - s_pad (r_pos r))) by lia.
  apply nth_sub; lia.
Qed.

(* a peeked line has a newline at most as its last byte *)
Lemma view_no_nl r k : RI r -> 0 <= k < zlen (r_view r) - 1 -> nth (Z.to_nat k) (r_view r) 0%N <> 10%N.
Proof.
  intros HI Hk. pose proof (ri_bounds r HI) as Hb.
  destruct (Z.lt_ge_cases k (s_pad (r_pos r))) as [Hlt|Hge].
  - rewrite nth_view_pad by lia. discriminate.
  - rewrite nth_view_src by (assumption || lia). destruct HI as [Hinv _].
    rewrite (view_zlen r Hinv) in Hk. apply no_nl_before_end; [exact Hinv|lia|lia].
Qed.

Lemma view_nonempty r : RI r -> r_in_range r = true -> 0 < zlen (r_view r).
Proof.
  intros [Hinv _] Hin. destruct (view_prefix_rest r Hinv Hin) as [Hne _].
  destruct (r_view r) as [|c l]; [congruence|]. rewrite zlen_cons. pose proof (zlen_nonneg l). lia.
Qed.

(* ---------- PeekLine ---------- *)
Lemma ri_peek r : RI r ->
  exists r', r_peek_line r = Ok (r', (if r_in_range r then Some (r_view r) else None), r_pos r) /\
             RI r' /\ same_pos r r' /\ r_loff r' = r_loff r.
Proof.
  intros [Hinv Hh]. unfold r_peek_line. pose proof (seg_value_view r Hinv) as Hv.
  destruct (r_in_range r) eqn:Hin.
  - destruct (r_peeked r) as [v|] eqn:Hpk.
    + pose proof (ri_peeked r Hinv v Hpk) as Hv'. rewrite Hv in Hv'. injection Hv' as <-.
      exists r. csplit; auto; try apply same_pos_refl. split; assumption.
    + rewrite Hv. cbn [bind]. exists (rset_peeked r (Some (r_view r))). csplit; try reflexivity.
      * split; [apply RInv_set_peeked; assumption|exact Hh].
      * unfold same_pos. csplit; reflexivity.
  - exists r. csplit; auto; try apply same_pos_refl. split; assumption.
Qed.

(* ---------- LineOffset ---------- *)
Lemma ri_line_offset r : RI r ->
  exists r', r_line_offset r = Ok (r', r_column r (r_head r)) /\ RI r' /\ same_pos r r' /\
             r_peeked r' = r_peeked r.
Proof.
  intros HI. pose proof (ri_bounds r HI) as Hb. destruct HI as [Hinv Hh]. unfold r_line_offset.
  destruct (Z.ltb_spec (r_loff r) 0) as [Hneg|Hpos].
  - destruct (Z.ltb_spec (r_head r) (s_start (r_pos r))) as [Hlt|Hge].
    + rewrite slice_sub by lia. cbn [bind]. exists (rset_loff r (r_column r (r_head r))).
      csplit; try reflexivity.
      * split; [apply RInv_set_loff; [exact Hinv|reflexivity]|exact Hh].
      * unfold same_pos. csplit; reflexivity.
    + assert (r_column r (r_head r) = 0 - s_pad (r_pos r)) as Hcol.
      { unfold r_column. rewrite sub_empty by lia. reflexivity. }
      rewrite <- Hcol. exists (rset_loff r (r_column r (r_head r))).
      csplit; try reflexivity.
      * split; [apply RInv_set_loff; [exact Hinv|reflexivity]|exact Hh].
      * unfold same_pos. csplit; reflexivity.
  - exists r. rewrite (ri_loff r Hinv) by lia. csplit; auto; try apply same_pos_refl. split; assumption.
Qed.

(* line offset on an arbitrary reader record (used for the look-behind of preserveLeadingTab) *)
Lemma line_offset_any r : 0 <= r_head r -> s_start (r_pos r) <= zlen (r_src r) ->
  exists o, r_line_offset r = Ok ((if r_loff r <? 0 then rset_loff r o else r), o).
Proof.
  intros Hh Hs. unfold r_line_offset. destruct (r_loff r <? 0).
  - destruct (Z.ltb_spec (r_head r) (s_start (r_pos r))) as [Hlt|Hge].
    + rewrite slice_sub by lia. cbn [bind]. eexists. reflexivity.
    + eexists. reflexivity.
  - eexists. reflexivity.
Qed.

(* ---------- AdvanceLine ---------- *)
Lemma ri_advance_line r : RI r -> RI (r_advance_line r) /\ r_le r (r_advance_line r) /\
  s_start (r_pos (r_advance_line r)) = s_stop (r_pos r).
Proof.
  intros HI. pose proof (ri_bounds r HI) as Hb. destruct HI as [Hinv Hh].
  pose proof (advance_line_inv r Hinv) as Hinv'.
  rewrite r_advance_line_eq in * by lia. unfold RI, r_le. rsimpl.
  pose proof (line_end_range (r_src r) (s_stop (r_pos r)) ltac:(lia)).
  csplit; auto; lia.
Qed.

(* ---------- Advance: any n >= 0 ---------- *)
Lemma slow_mono fuel : forall n r, RInv r -> r_peeked r = None -> r_loff r = -1 -> 0 <= n ->
  (Z.to_nat n < fuel)%nat -> 0 <= r_head r <= s_start (r_pos r) ->
  exists r', r_advance_slow fuel r n = Ok r' /\ RInv r' /\ r_src r' = r_src r /\
             0 <= r_head r' <= s_start (r_pos r') /\ s_start (r_pos r) <= s_start (r_pos r') /\
             s_stop (r_pos r) <= s_stop (r_pos r').
Proof.
  induction fuel as [|f IH]; intros n r Hinv Hpk Hlo Hn Hf Hh; [lia|].
  cbn [r_advance_slow]. unfold r_len.
  destruct (Z.ltb_spec 0 n) as [Hn0|Hn0]; cbn [andb].
  2: { exists r. csplit; auto; lia. }
  destruct (Z.ltb_spec (s_start (r_pos r)) (zlen (r_src r))) as [Hlt|Hge].
  2: { exists r. csplit; auto; lia. }
  pose proof (inv_bounds r Hinv) as Hb.
  destruct (Z.eqb_spec (s_pad (r_pos r)) 0) as [Hp0|Hp0]; cbn [negb].
  - rewrite at_nth by lia. cbn [bind].
    destruct (N.eqb_spec (nth (Z.to_nat (s_start (r_pos r))) (r_src r) 0%N) 10) as [Hc|Hc].
    + destruct (ri_advance_line r (conj Hinv Hh)) as [[Hi1 Hh1] [(L1 & L2 & L3) _]].
      destruct (IH (n - 1) (r_advance_line r)) as [r' (H1 & H2 & H3 & H4 & H5 & H6)]; auto.
      * apply advance_line_peeked.
      * apply advance_line_loff.
      * lia.
      * lia.
      * exists r'. csplit; auto; try lia. congruence.
    + destruct (step_char r Hinv Hpk Hlo ltac:(lia) Hp0 Hc) as [Hi1 _].
      match goal with |- context [r_advance_slow f ?r1 _] => set (r1' := r1) in * end.
      destruct (IH (n - 1) r1') as [r' (H1 & H2 & H3 & H4 & H5 & H6)]; auto; try lia.
      { subst r1'. rsimpl. lia. }
      exists r'. subst r1'. rsimpl. csplit; auto; lia.
  - destruct (step_pad r Hinv Hpk Hlo ltac:(lia) Hp0) as [Hi1 _].
    match goal with |- context [r_advance_slow f ?r1 _] => set (r1' := r1) in * end.
    destruct (IH (n - 1) r1') as [r' (H1 & H2 & H3 & H4 & H5 & H6)]; auto; try lia.
    exists r'. subst r1'. rsimpl. csplit; auto; lia.
Qed.

Lemma ri_advance r n : RI r -> 0 <= n -> exists r', r_advance r n = Ok r' /\ RI r' /\ r_le r r'.
Proof.
  intros [Hinv Hh] Hn.
  assert (exists r', r_advance_slow (Z.to_nat n + 1) (rset_peeked (rset_loff r (-1)) None) n = Ok r' /\ RI r' /\ r_le r r') as Hslow.
  { destruct (slow_mono (Z.to_nat n + 1) n (rset_peeked (rset_loff r (-1)) None)) as [r' (H1 & H2 & H3 & H4 & H5 & H6)];
      try reflexivity; try lia.
    - apply RInv_clear. exact Hinv.
    - exact Hh.
    - exists r'. split; [exact H1|]. split; [split; assumption|]. unfold r_le. csplit; auto. }
  unfold r_advance. rsimpl.
  destruct (r_peeked r) as [v|] eqn:Hpk.
  - destruct (Z.ltb_spec n (zlen v)) as [Hlt|Hge]; cbn [andb]; [|exact Hslow].
    destruct (Z.eqb_spec (s_pad (r_pos r)) 0) as [Hp0|Hp0]; [|exact Hslow].
    destruct (advance_fast r n v Hinv Hpk ltac:(lia) Hp0) as [H1 _].
    eexists. split; [reflexivity|]. split; [split; [exact H1|rsimpl; lia]|]. unfold r_le. rsimpl. csplit; auto; lia.
  - destruct (Z.ltb_spec n 0) as [Hlt|Hge]; [lia|]. cbn [andb]. exact Hslow.
Qed.

(* ---------- Advance inside the line ---------- *)
Lemma ri_advance_in_line r n : RI r -> r_in_range r = true -> 0 <= n <= zlen (r_view r) ->
  (forall k, 0 <= k < n -> nth (Z.to_nat k) (r_view r) 0%N <> 10%N) ->
  exists r', r_advance r n = Ok r' /\ RI r' /\ same_line r r' /\
     s_start (r_pos r') = s_start (r_pos r) + Z.max 0 (n - s_pad (r_pos r)) /\
     s_pad (r_pos r') = Z.max 0 (s_pad (r_pos r) - n) /\
     r_view r' = skipn (Z.to_nat n) (r_view r).
Proof.
  intros HI Hin Hn Hnl. pose proof (ri_bounds r HI) as Hb. pose proof HI as [Hinv Hh].
  apply in_range_true in Hin. pose proof (view_zlen r Hinv) as Hvz.
  destruct (advance_in_line r n Hinv Hn ltac:(lia)) as [r' (H1 & H2 & H3 & H4 & H5 & H6 & H7 & H8)].
  { intros t Ht. specialize (Hnl (t - s_start (r_pos r) + s_pad (r_pos r)) ltac:(lia)).
    rewrite nth_view_src in Hnl by (assumption || lia).
    replace (s_start (r_pos r) + (t - s_start (r_pos r) + s_pad (r_pos r) - s_pad (r_pos r))) with t in Hnl by lia.
    exact Hnl. }
  exists r'. split; [exact H1|]. split; [split; [exact H2|lia]|].
  split; [unfold same_line; csplit; auto; lia|]. csplit; auto.
  unfold r_view. rewrite H3, H6, H7, H8. apply view_after; lia.
Qed.

Lemma ri_advance_within r n : RI r -> r_in_range r = true -> 0 <= n < zlen (r_view r) ->
  exists r', r_advance r n = Ok r' /\ RI r' /\ same_line r r' /\
     s_start (r_pos r') = s_start (r_pos r) + Z.max 0 (n - s_pad (r_pos r)) /\
     s_pad (r_pos r') = Z.max 0 (s_pad (r_pos r) - n) /\
     r_view r' = skipn (Z.to_nat n) (r_view r) /\ r_in_range r' = true.
Proof.
  intros HI Hin Hn.
  destruct (ri_advance_in_line r n HI Hin ltac:(lia)) as [r' (H1 & H2 & H3 & H4 & H5 & H6)].
  { intros k Hk. apply view_no_nl; [exact HI|lia]. }
  exists r'. csplit; auto.
  pose proof (ri_bounds r HI) as Hb. destruct HI as [Hinv _]. pose proof (view_zlen r Hinv) as Hvz.
  apply in_range_true in Hin. destruct H3 as (S1 & S2 & S3 & _).
  apply in_range_intro. rewrite S1, H4. lia.
Qed.

(* ---------- SetPadding ---------- *)
Lemma ri_set_padding r v : RI r -> 0 <= v ->
  RI (r_set_padding r v) /\ same_line r (r_set_padding r v) /\
  s_start (r_pos (r_set_padding r v)) = s_start (r_pos r) /\ s_pad (r_pos (r_set_padding r v)) = v.
Proof.
  intros [Hinv Hh] Hv. destruct (set_padding_inv r v Hinv Hv) as (H1 & H2 & H3 & H4).
  split; [split; [exact H1|exact Hh]|]. split; [|split; [exact H3|exact H4]].
  unfold same_line, r_set_padding. rsimpl. csplit; auto; lia.
Qed.

Lemma ri_advance_and_set_padding r n p : RI r -> 0 <= n -> 0 <= p ->
  exists r', r_advance_and_set_padding r n p = Ok r' /\ RI r' /\ r_le r r'.
Proof.
  intros HI Hn Hp. unfold r_advance_and_set_padding.
  destruct (ri_advance r n HI Hn) as [r1 (H1 & H2 & H3)]. rewrite H1. cbn [bind].
  destruct (s_pad (r_pos r1) <? p).
  - destruct (ri_set_padding r1 p H2 Hp) as (K1 & K2 & _).
    eexists. split; [reflexivity|]. split; [exact K1|]. eapply r_le_trans; [exact H3|apply same_line_le, K2].
  - exists r1. auto.
Qed.

Lemma ri_advance_and_set_padding_in_line r n p : RI r -> r_in_range r = true -> 0 <= n <= zlen (r_view r) ->
  (forall k, 0 <= k < n -> nth (Z.to_nat k) (r_view r) 0%N <> 10%N) -> 0 <= p ->
  exists r', r_advance_and_set_padding r n p = Ok r' /\ RI r' /\ same_line r r' /\
     s_start (r_pos r') = s_start (r_pos r) + Z.max 0 (n - s_pad (r_pos r)).
Proof.
  intros HI Hin Hn Hnl Hp. unfold r_advance_and_set_padding.
  destruct (ri_advance_in_line r n HI Hin Hn Hnl) as [r1 (H1 & H2 & H3 & H4 & _)]. rewrite H1. cbn [bind].
  destruct (s_pad (r_pos r1) <? p).
  - destruct (ri_set_padding r1 p H2 Hp) as (K1 & K2 & K3 & _).
    eexists. split; [reflexivity|]. split; [exact K1|]. split; [eapply same_line_trans; eassumption|]. congruence.
  - exists r1. auto.
Qed.

(* ---------- SetPosition on the current line ---------- *)
Definition sp (r : reader) (p : seg) : reader :=
  rset_pos (rset_line (rset_peeked (rset_loff r (-1)) None) (r_line r)) p.
Lemma set_position_same_line r p : r_set_position r (r_line r) p = Ok (sp r p).
Proof. unfold r_set_position, sp. rsimpl. rewrite Z.eqb_refl. reflexivity. Qed.
Lemma sp_back r p o : sp (rset_loff (sp r p) o) (r_pos r) = rset_peeked (rset_loff r (-1)) None.
Proof. destruct r. reflexivity. Qed.
Lemma sp_back' r p : sp (sp r p) (r_pos r) = rset_peeked (rset_loff r (-1)) None.
Proof. destruct r. reflexivity. Qed.
Lemma ri_clear r : RI r -> RI (rset_peeked (rset_loff r (-1)) None) /\ same_pos r (rset_peeked (rset_loff r (-1)) None).
Proof.
  intros [Hinv Hh]. split; [split; [apply RInv_clear; exact Hinv|exact Hh]|]. unfold same_pos. csplit; reflexivity.
Qed.

(* the look-behind of preserveLeadingTabInCodeBlock: SetPosition one byte back, LineOffset, SetPosition back *)
Lemma look_behind r : RI r ->
  exists o,
    (r1 <- r_set_position r (r_line r) (mkseg (s_start (r_pos r) - 1) (s_stop (r_pos r))) ;; r_line_offset r1)
      = Ok ((rset_loff (sp r (mkseg (s_start (r_pos r) - 1) (s_stop (r_pos r)))) o), o) /\
    (s_start (r_pos r) = 0 -> o = 0).
Proof.
  intros HI. pose proof (ri_bounds r HI) as Hb. rewrite set_position_same_line. cbn [bind].
  unfold r_line_offset, sp. rsimpl. change (-1 <? 0) with true. cbv iota.
  destruct (Z.ltb_spec (r_head r) (s_start (r_pos r) - 1)) as [Hlt|Hge].
  - rewrite slice_sub by lia. cbn [bind]. eexists. split; [reflexivity|]. intros E. lia.
  - eexists. split; [reflexivity|]. intros E. reflexivity.
Qed.

(* ---------- skipBlankLines ---------- *)
Section Skip.
Variable space_table : list N.
Lemma ri_skip_blank_lines fuel : forall r lines, RI r ->
  (Z.to_nat (zlen (r_src r) - s_start (r_pos r)) < fuel)%nat ->
  exists r' sg n ok,
    skip_blank_lines space_table reader r_peek_line r_advance_line_res fuel r lines = Ok (r', sg, n, ok) /\
    RI r' /\ r_le r r' /\ (ok = true -> r_in_range r' = true) /\ (ok = false -> r_in_range r' = false).
Proof.
  induction fuel as [|f IH]; intros r lines HI Hf; [lia|]. cbn [skip_blank_lines].
  destruct (ri_peek r HI) as [r1 (H1 & H2 & H3 & _)]. rewrite H1. cbn [bind].
  destruct (r_in_range r) eqn:Hin.
  - destruct (is_blank space_table (r_view r)).
    + unfold r_advance_line_res. cbn [bind].
      destruct (ri_advance_line r1 H2) as (K1 & K2 & K3).
      pose proof (ri_bounds r HI) as Hb. apply in_range_true in Hin.
      destruct HI as [Hinv _]. pose proof (inv_bounds_in r Hinv ltac:(lia)) as Hlt.
      destruct H3 as (S1 & S2 & S3 & S4).
      destruct (IH (r_advance_line r1) (lines + 1) K1) as (r' & sg & n & ok & E & Q1 & Q2 & Q3 & Q4).
      { rewrite advance_line_src, S1, K3, S2. lia. }
      exists r', sg, n, ok. csplit; auto.
      eapply r_le_trans; [|exact Q2]. eapply r_le_trans; [|exact K2]. apply same_pos_le. unfold same_pos. auto.
    + exists r1, (r_pos r), lines, true. csplit; auto.
      * apply same_pos_le, H3.
      * intros _. rewrite (same_pos_in_range r r1 H3). exact Hin.
      * discriminate.
  - exists r1, (r_pos r), lines, false. csplit; auto.
    + apply same_pos_le, H3.
    + discriminate.
    + intros _. rewrite (same_pos_in_range r r1 H3). exact Hin.
Qed.
End Skip.
