(* Helper file for TypoDefConservativeDef.v: on a source without the byte 58 (':') no step of the
   block phase brings a 58 into the reader: neither into its source (r_src) nor into its cache
   of the peeked line (r_peeked), along successful runs.  A copy of the frame lemmas of
   GfmConservativeTableBSrc.v (tbs_*: r_src only) with the stronger invariant gd_r. *)
Require Import GM.model.Base GM.model.Util GM.model.Reader GM.model.Blocks GM.model.ListItem
               GM.model.LeafBlocks GM.model.CodeBlock GM.model.LinkDest GM.model.Regex
               GM.model.Html GM.model.BlockParse.
Require Import GM.proofs.GfmConservativeDefs GM.proofs.GfmConservativeSrc
               GM.proofs.GfmConservativeTableBSrc.
From Coq Require Import List ZArith NArith Bool Lia.
Import ListNotations.
Open Scope Z_scope.

(* the invariant of the reader: no 58 in the source and none in the cached line *)
Definition gd_r (r : reader) : Prop :=
  ~ In 58%N (r_src r) /\ (forall v, r_peeked r = Some v -> ~ In 58%N v).
Definition gd (s : st) : Prop := gd_r (s_r s).

Lemma gd_keep r r' :
  r_src r' = r_src r -> (r_peeked r' = None \/ r_peeked r' = r_peeked r) -> gd_r r -> gd_r r'.
Proof.
  intros Hs Hp [G1 G2]. split.
  - rewrite Hs. exact G1.
  - intros v Hv. destruct Hp as [Hp|Hp].
    + rewrite Hp in Hv. discriminate Hv.
    + rewrite Hp in Hv. exact (G2 v Hv).
Qed.

Lemma from_src_no58 src v : ~ In 58%N src -> from_src src v -> ~ In 58%N v.
Proof.
  intros Hs Hf Hin. destruct (Hf _ Hin) as [H|[H|H]]; [exact (Hs H)|discriminate H|discriminate H].
Qed.

(* ---------------- the reader primitives ---------------- *)
Lemma gd_advance_line r : gd_r r -> gd_r (r_advance_line r).
Proof.
  apply gd_keep.
  - apply tbs_advance_line.
  - left. unfold r_advance_line. cbn [rset_peeked rset_loff rset_head rset_pos rset_line r_peeked r_pos s_stop].
    destruct (s_stop (r_pos r) <? 0); reflexivity.
Qed.

Lemma gd_peek_line r r' l sg : r_peek_line r = Ok (r', l, sg) -> gd_r r -> gd_r r' /\ ~ In 58%N (line_of l).
Proof.
  unfold r_peek_line. intros H G. destruct (r_in_range r).
  - destruct (r_peeked r) as [v|] eqn:Ev.
    + injection H as <- <- _. split; [exact G|]. cbn [line_of]. exact (proj2 G v Ev).
    + gc_bind H v Hv. injection H as <- <- _.
      assert (Hn : ~ In 58%N v).
      { exact (from_src_no58 (r_src r) v (proj1 G) (seg_value_from [] (fun x => x) (r_src r) (r_pos r) v Hv)). }
      split; [|exact Hn]. split; [exact (proj1 G)|].
      cbn [rset_peeked r_peeked]. intros v' Hv'. injection Hv' as <-. exact Hn.
  - injection H as <- <- _. split; [exact G|]. cbn [line_of In]. tauto.
Qed.

Lemma gd_peek_line1 r r' l sg : r_peek_line r = Ok (r', l, sg) -> gd_r r -> gd_r r'.
Proof. intros H G. exact (proj1 (gd_peek_line _ _ _ _ H G)). Qed.

Lemma gd_line_offset r r' o : r_line_offset r = Ok (r', o) -> gd_r r -> gd_r r'.
Proof.
  unfold r_line_offset. intros H. destruct (r_loff r <? 0).
  - destruct (r_head r <? s_start (r_pos r)).
    + gc_bind H v Hv. injection H as <- _. apply gd_keep; [reflexivity|right; reflexivity].
    + injection H as <- _. apply gd_keep; [reflexivity|right; reflexivity].
  - injection H as <- _. exact (fun G => G).
Qed.

Lemma gd_rset_pos r p : gd_r r -> gd_r (rset_pos r p).
Proof. apply gd_keep; [reflexivity|right; reflexivity]. Qed.

Lemma gd_advance_slow : forall fuel r n r', r_advance_slow fuel r n = Ok r' -> gd_r r -> gd_r r'.
Proof.
  induction fuel as [|f IH]; intros r n r' H G; cbn [r_advance_slow] in H; [discriminate|].
  destruct ((0 <? n) && (s_start (r_pos r) <? r_len r)).
  - destruct (negb (s_pad (r_pos r) =? 0)).
    + apply IH in H; [exact H|]. apply gd_rset_pos. exact G.
    + gc_bind H c Hc. destruct (N.eqb c 10).
      * apply IH in H; [exact H|]. apply gd_advance_line. exact G.
      * apply IH in H; [exact H|]. apply gd_rset_pos. exact G.
  - injection H as <-. exact G.
Qed.

Lemma gd_advance r n r' : r_advance r n = Ok r' -> gd_r r -> gd_r r'.
Proof.
  unfold r_advance. intros H G.
  match type of H with (if ?b then _ else _) = _ => destruct b end.
  - injection H as <-. revert G. apply gd_keep; [reflexivity|left; reflexivity].
  - apply gd_advance_slow in H; [exact H|]. revert G. apply gd_keep; [reflexivity|left; reflexivity].
Qed.

Lemma gd_set_padding r v : gd_r r -> gd_r (r_set_padding r v).
Proof. apply gd_keep; [reflexivity|left; reflexivity]. Qed.

Lemma gd_set_position r line pos r' : r_set_position r line pos = Ok r' -> gd_r r -> gd_r r'.
Proof.
  unfold r_set_position. intros H. gc_bind H r1 H1. injection H as <-.
  apply gd_keep.
  - cbn [rset_pos rset_line r_src].
    destruct (negb (line =? r_line (rset_peeked (rset_loff r (-1)) None))).
    + gc_bind H1 h Hh. injection H1 as <-. destruct (0 <=? h); reflexivity.
    + injection H1 as <-. reflexivity.
  - left. cbn [rset_pos rset_line r_peeked].
    destruct (negb (line =? r_line (rset_peeked (rset_loff r (-1)) None))).
    + gc_bind H1 h Hh. injection H1 as <-. destruct (0 <=? h); reflexivity.
    + injection H1 as <-. reflexivity.
Qed.

Lemma gd_advance_and_set_padding r n p r' :
  r_advance_and_set_padding r n p = Ok r' -> gd_r r -> gd_r r'.
Proof.
  unfold r_advance_and_set_padding. intros H G. gc_bind H r1 H1. apply gd_advance in H1; [|exact G].
  destruct (s_pad (r_pos r1) <? p); injection H as <-; [apply gd_set_padding|]; exact H1.
Qed.

Lemma gd_skip_blank_lines tbl : forall fuel r lines r' sg n ok,
  skip_blank_lines tbl reader r_peek_line r_advance_line_res fuel r lines = Ok (r', sg, n, ok) ->
  gd_r r -> gd_r r'.
Proof.
  induction fuel as [|f IH]; intros r lines r' sg n ok H G; cbn [skip_blank_lines] in H; [discriminate|].
  gc_bind H x Hx. destruct x as [[r1 line] sg1]. apply gd_peek_line1 in Hx; [|exact G].
  destruct line as [l|].
  - destruct (Reader.is_blank tbl l).
    + unfold r_advance_line_res in H. cbn [bind] in H. apply IH in H; [exact H|].
      apply gd_advance_line. exact Hx.
    + injection H as <- _ _ _. exact Hx.
  - injection H as <- _ _ _. exact Hx.
Qed.

Lemma gd_r_skip_blank_lines tbl fuel r r' sg n ok :
  r_skip_blank_lines tbl fuel r = Ok (r', sg, n, ok) -> gd_r r -> gd_r r'.
Proof. apply gd_skip_blank_lines. Qed.

(* ---------------- inversion of successful runs ---------------- *)
Ltac gd_unpair := repeat match goal with p : (_ * _)%type |- _ => destruct p end.

Ltac gd_side := first [ assumption | unfold gd in *; cbn [s_r st_h st_c st_r fst snd] in *; assumption ].
(* a fact "the callee keeps the invariant" for the equation E of a callee *)
Ltac gd_fact0 E :=
  first [ apply gd_peek_line1 in E; [|gd_side]
        | apply gd_line_offset in E; [|gd_side]
        | apply gd_advance_and_set_padding in E; [|gd_side]
        | apply gd_advance in E; [|gd_side]
        | apply gd_set_position in E; [|gd_side] ].
Ltac gd_fact E := gd_fact0 E.

Ltac gd_step H :=
  match type of H with
  | bind _ _ = Ok _ =>
    let x := fresh "x" in let E := fresh "E" in
    gc_bind H x E; gd_unpair; first [ gd_fact E | progress (repeat gd_step E) | idtac ]
  | (if ?b then _ else _) = Ok _ => destruct b
  | match ?x with Some _ => _ | None => _ end = Ok _ => destruct x
  | match ?x with inl _ => _ | inr _ => _ end = Ok _ => destruct x
  | (let '(_, _) := ?x in _) = Ok _ => destruct x
  | Ok _ = Ok _ => inversion H; subst; clear H
  | Panic = Ok _ => discriminate H
  end.
Ltac gd_done :=
  repeat match goal with |- context [if ?b then _ else _] => destruct b end;
  repeat match goal with E : _ = Ok _ |- _ => gd_fact E end;
  unfold gd in *; cbn [s_r st_h st_c st_r fst snd] in *;
  first [ assumption | apply gd_set_padding; assumption | apply gd_advance_line; assumption ].

(* ---------------- the reader-level parts of the block parsers ---------------- *)
Lemma gd_bq_process r r' b : bq_process r = Ok (r', b) -> gd_r r -> gd_r r'.
Proof.
  unfold bq_process. intros H G. repeat gd_step H; gd_done.
Qed.

Lemma gd_bq_process_total r r' b : bq_process_total r = Ok (r', b) -> gd_r r -> gd_r r'.
Proof.
  unfold bq_process_total. intros H G. gd_step H.
  match type of H with match ?l with Some _ => _ | None => _ end = _ => destruct l as [line|] end.
  - apply gd_bq_process in H; assumption.
  - gd_step H. gd_done.
Qed.

Lemma gd_list_item_open tbl lo r off r' ch :
  list_item_open tbl lo r = Ok (Some (off, r', ch)) -> gd_r r -> gd_r r'.
Proof.
  unfold list_item_open. intros H G. repeat gd_step H; gd_done.
Qed.

Lemma gd_code_block_take r pos padding sg r' :
  code_block_take r pos padding = Ok (sg, r') -> gd_r r -> gd_r r'.
Proof.
  unfold code_block_take, r_position. intros H G. repeat gd_step H; gd_done.
Qed.
Ltac gd_fact1 E := first [ gd_fact0 E | apply gd_code_block_take in E; [|gd_side] ].
Ltac gd_fact E ::= gd_fact1 E.

Lemma gd_code_block_open tbl r sg r' : code_block_open tbl r = Ok (Some (sg, r')) -> gd_r r -> gd_r r'.
Proof.
  unfold code_block_open. intros H G. repeat gd_step H; gd_done.
Qed.

Lemma gd_code_block_continue tbl r sg r' :
  code_block_continue tbl r = Ok (inl (sg, r')) -> gd_r r -> gd_r r'.
Proof.
  unfold code_block_continue. intros H G. repeat gd_step H; gd_done.
Qed.

Lemma gd_fence_continue_r tbl r ch indent flen closed ln r' :
  fence_continue_r tbl r ch indent flen = Ok (closed, ln, r') -> gd_r r -> gd_r r'.
Proof.
  unfold fence_continue_r, r_position. intros H G. repeat gd_step H; gd_done.
Qed.

(* ---------------- the state-level steps ---------------- *)
Section St.
Variable space_table punct_table : list N.
Variable norm : bytes -> bytes.
Variable re_t1o re_t1c re_t2 re_t3 re_t4 re_t5 re_t6 re_t7 : re.
Variable allowed_tags : list bytes.
Notation p_open := (p_open space_table re_t1o re_t2 re_t3 re_t4 re_t5 re_t6 re_t7 allowed_tags).
Notation p_continue := (p_continue space_table re_t1c).
Notation p_close := (p_close space_table).
Notation lrd_transform := (lrd_transform space_table punct_table norm).
Notation transform_paragraph := (transform_paragraph space_table punct_table norm).

Lemma gd_peek_line_s s s' l sg : peek_line_s s = Ok (s', l, sg) -> gd s -> gd s' /\ ~ In 58%N (line_of l).
Proof.
  unfold peek_line_s, gd. intros H G. gc_bind H x Hx. destruct x as [[r l1] sg1].
  apply gd_peek_line in Hx; [|exact G]. injection H as <- <- _. exact Hx.
Qed.
Lemma gd_peek_line_s1 s s' l sg : peek_line_s s = Ok (s', l, sg) -> gd s -> gd s'.
Proof. intros H G. exact (proj1 (gd_peek_line_s _ _ _ _ H G)). Qed.
Lemma gd_line_offset_s s s' o : line_offset_s s = Ok (s', o) -> gd s -> gd s'.
Proof.
  unfold line_offset_s, gd. intros H G. gc_bind H x Hx. destruct x as [r o1].
  apply gd_line_offset in Hx; [|exact G]. injection H as <- _. exact Hx.
Qed.
Lemma gd_advance_s s n s' : advance_s s n = Ok s' -> gd s -> gd s'.
Proof.
  unfold advance_s, gd. intros H G. gc_bind H r Hr. apply gd_advance in Hr; [|exact G].
  injection H as <-. exact Hr.
Qed.
Lemma gd_advance_line_s s : gd s -> gd (advance_line_s s).
Proof. unfold advance_line_s, gd. cbn [st_r s_r]. apply gd_advance_line. Qed.

Ltac gd_fact2 E :=
  first [ apply gd_peek_line_s1 in E; [|gd_side]
        | apply gd_line_offset_s in E; [|gd_side]
        | apply gd_advance_s in E; [|gd_side]
        | apply gd_bq_process_total in E; [|gd_side]
        | apply gd_list_item_open in E; [|gd_side]
        | apply gd_code_block_open in E; [|gd_side]
        | apply gd_code_block_continue in E; [|gd_side]
        | apply gd_fence_continue_r in E; [|gd_side]
        | gd_fact1 E ].
Ltac gd_fact E ::= gd_fact2 E.

Lemma gd_p_open bp s parent s' o : p_open bp s parent = Ok (s', o) -> gd s -> gd s'.
Proof.
  intros H G. unfold gd in G. destruct bp; cbn [p_open] in H.
  - unfold setext_open, new_node, halloc in H. repeat gd_step H; gd_done.
  - unfold thematic_open, new_node, halloc in H. repeat gd_step H; gd_done.
  - unfold list_open, new_node, halloc in H. repeat gd_step H; gd_done.
  - unfold list_item_open_s, new_node, halloc in H. repeat gd_step H; gd_done.
  - unfold code_open, new_node, halloc in H. repeat gd_step H; gd_done.
  - unfold atx_open_s, new_node, halloc in H. repeat gd_step H; gd_done.
  - unfold fenced_open, new_node, halloc in H. repeat gd_step H; gd_done.
  - unfold bq_open, new_node, halloc in H. repeat gd_step H; gd_done.
  - unfold html_open, new_node, halloc in H. cbv zeta in H. repeat gd_step H; gd_done.
  - unfold paragraph_open, new_node, halloc in H. repeat gd_step H; gd_done.
Qed.

Lemma gd_p_continue bp s node s' c k : p_continue bp s node = Ok (s', c, k) -> gd s -> gd s'.
Proof.
  intros H G. unfold gd in G. destruct bp; cbn [p_continue] in H.
  - repeat gd_step H; gd_done.
  - repeat gd_step H; gd_done.
  - unfold list_continue in H. cbv zeta in H. repeat gd_step H; gd_done.
  - unfold list_item_continue in H. cbv zeta in H. repeat gd_step H; gd_done.
  - unfold code_continue in H. repeat gd_step H; gd_done.
  - repeat gd_step H; gd_done.
  - unfold fenced_continue in H. destruct (c_fence (s_c s)) as [[[[ch indent] flen] fnode]|]; [|discriminate].
    repeat gd_step H; gd_done.
  - unfold bq_continue in H. repeat gd_step H; gd_done.
  - unfold html_continue in H. cbv zeta in H. repeat gd_step H; gd_done.
  - unfold paragraph_continue in H. repeat gd_step H; gd_done.
Qed.

Lemma gd_p_close bp s node s' : p_close bp s node = Ok s' -> gd s -> gd s'.
Proof. intros H G. apply tbs_p_close_r in H. unfold gd. rewrite H. exact G. Qed.

Lemma gd_lrd_transform s node s' : lrd_transform s node = Ok s' -> gd s -> gd s'.
Proof. intros H G. apply tbs_lrd_transform_r in H. unfold gd. rewrite H. exact G. Qed.

Lemma gd_transform_paragraph s node s' b : transform_paragraph s node = Ok (s', b) -> gd s -> gd s'.
Proof.
  unfold transform_paragraph. intros H G. gc_bind H s1 H1. gc_bind H n Hn. injection H as <- _.
  exact (gd_lrd_transform _ _ _ H1 G).
Qed.
End St.
