(* Helper file for ParseBlocksTotal.v: the leaf block parsers (paragraph, thematic break, ATX heading,
   fenced code, indented code, HTML block, setext heading) under the state invariant SI. *)
Require Import GM.model.Base GM.model.Util GM.model.Reader GM.model.ReaderSpec GM.model.Blocks GM.model.ListItem
               GM.model.LeafBlocks GM.model.CodeBlock GM.model.LinkDest GM.model.Regex GM.model.BlockParse.
Require Import GM.proofs.ReaderProofs GM.proofs.BlocksProofs GM.proofs.BlockRangeProofs
               GM.proofs.ParseBlocksTotalReader GM.proofs.FootnoteWfTotBlkPad GM.proofs.FootnoteWfTotBlkPad2 GM.proofs.FootnoteWfTotBlkDefs GM.proofs.FootnoteWfTotBlkSpec
               GM.proofs.FootnoteWfTotBlkSt.
From Coq Require Import ZArith Lia List Bool.
Open Scope Z_scope.

Section S.
Variable space_table punct_table : list N.
Variable norm : bytes -> bytes.
Variable re_t1o re_t1c re_t2 re_t3 re_t4 re_t5 re_t6 re_t7 : re.
Variable allowed_tags : list bytes.
Variable src : bytes.
Variable lst : option nat.
Hypothesis tbl : TblOK space_table.
Notation SI := (SI space_table src lst).
Notation open_post := (open_post space_table src lst).
Notation cont_post := (cont_post space_table src lst).
Notation close_post := (close_post space_table src lst).

(* ---------- Open ---------- *)
(* ---------- generic shapes of the postcondition ---------- *)
Lemma cframe_refl c : cframe c c.
Proof. unfold cframe. auto. Qed.

Lemma open_none bp parent s s1 : SI s1 -> scache s s1 -> open_post bp parent s s1 None.
Proof.
  intros S1 (E1 & E2 & E3). unfold open_post. rewrite E1, E2. csplit; auto.
  - apply same_pos_le, E3.
  - apply cframe_refl.
Qed.

(* a leaf parser that leaves the context alone *)
Lemma open_some_leaf bp parent s s' nd :
  SI s' -> r_le (s_r s) (s_r s') -> s_c s' = s_c s -> s_h s' = s_h s ++ [nd] ->
  bk nd = kind_of_parser bp -> bpar nd = None -> bch nd = [] ->
  bp <> PFenced -> bp <> PSetext -> open_extra bp parent s s' nd false ->
  open_post bp parent s s' (Some (length (s_h s), false, false)).
Proof.
  intros S1 L EC EH K P C NF NS X. unfold open_post. rewrite EC. csplit; auto.
  - apply cframe_refl.
  - exists nd. csplit; auto; try discriminate; try contradiction. destruct bp; congruence.
Qed.

Lemma new_node_eq s nd : new_node s nd = (st_h s (s_h s ++ [nd]), length (s_h s)).
Proof. reflexivity. Qed.

(* ---------- paragraph ---------- *)
Lemma tls_not_blank v : trim_left_space_len space_table v < zlen v ->
  Reader.is_blank space_table (skipn (Z.to_nat (trim_left_space_len space_table v)) v) = false.
Proof.
  induction v as [|c r IH]; cbn [trim_left_space_len]; intros H.
  - unfold zlen in H. cbn in H. lia.
  - rewrite zlen_cons in H. destruct (is_space space_table c) eqn:E.
    + pose proof (br_tls_range space_table r) as Hr.
      replace (Z.to_nat (1 + trim_left_space_len space_table r)) with (S (Z.to_nat (trim_left_space_len space_table r))) by lia.
      cbn [skipn]. apply IH. lia.
    + cbn [Z.to_nat skipn Reader.is_blank]. rewrite E. reflexivity.
Qed.

Lemma paragraph_open_ok s parent : SI s -> sin s ->
  exists s' o, paragraph_open space_table s = Ok (s', o) /\ open_post PParagraph parent s s' o.
Proof using All.
  intros HS Hin. unfold paragraph_open.
  destruct (peek_line_s_ok _ _ _ s HS) as [s1 (E1 & S1 & C1 & _)]. rewrite E1. cbn [bind].
  pose proof (ri_bounds _ (si_r _ _ _ _ HS)) as Hb. rewrite (si_src _ _ _ _ HS) in Hb.
  unfold seg_trim_left_space, src_of. rewrite (si_src _ _ _ _ S1).
  rewrite slice_sub by lia. cbn [bind].
  set (v := sub src (s_start (r_pos (s_r s))) (s_stop (r_pos (s_r s)))).
  pose proof (br_tls_range space_table v) as Ht.
  assert (Hv : zlen v = s_stop (r_pos (s_r s)) - s_start (r_pos (s_r s))) by (unfold v; apply zlen_sub; lia).
  unfold seg_is_empty. cbn [mkseg s_start s_stop s_pad]. rewrite Z.eqb_refl, andb_true_r.
  destruct (Z.leb_spec (s_stop (r_pos (s_r s))) (s_start (r_pos (s_r s)) + trim_left_space_len space_table v)) as [Hle|Hlt].
  - exists s1, None. split; [reflexivity|]. apply open_none; assumption.
  - set (sg := mkseg (s_start (r_pos (s_r s)) + trim_left_space_len space_table v) (s_stop (r_pos (s_r s)))).
    set (nd := set_lines (mknode BParagraph 0) [sg]).
    rewrite new_node_eq.
    destruct (new_node_ok space_table src lst s1 nd S1) as (N1 & N2 & N3 & N4 & N5); try reflexivity.
    { unfold node_ok, para_lines. cbn [nd set_lines mknode bk blines].
      split; [discriminate|]. split; [split; [|exact I]|].
      - constructor; [|constructor]. unfold seg_ok, sg. cbn [mkseg s_start s_stop s_pad s_fnl]. lia.
      - constructor; [|constructor]. unfold seg_nonblank, sg. cbn [mkseg s_start s_stop].
        rewrite sub_skipn by lia. apply (tls_not_blank v). lia. }
    { intros _. constructor; [|constructor]. unfold sg. cbn [mkseg s_stop]. rewrite (scache_pos _ _ C1). lia. }
    rewrite new_node_eq in N1, N3, N4, N5. cbn [fst snd] in N1, N3, N4, N5.
    destruct (advance_s_ok _ _ _ _ (seg_len sg - 1) N1) as [s3 (E3 & S3 & H3 & C3 & L3)].
    { unfold seg_len, sg. cbn [mkseg s_start s_stop s_pad]. lia. }
    rewrite E3. cbn [bind]. destruct C1 as (CH & CC & CP).
    exists s3. eexists. split; [reflexivity|]. cbn [st_h s_h]. rewrite CH.
    apply (open_some_leaf PParagraph parent s s3 nd); auto; try discriminate.
    + eapply r_le_trans; [apply same_pos_le, CP|]. cbn [st_h s_r] in L3. exact L3.
    + rewrite C3. cbn [st_h s_c]. exact CC.
    + rewrite H3. cbn [st_h s_h]. rewrite CH. reflexivity.
    + exact I.
Qed.

(* ---------- thematic break ---------- *)
Lemma seg_len_view s : SI s -> seg_len (r_pos (s_r s)) = zlen (sview s).
Proof.
  intros HS. unfold sview. rewrite view_zlen by apply HS. unfold seg_len. lia.
Qed.
Lemma sview_pos s : SI s -> sin s -> 0 < zlen (sview s).
Proof. intros HS Hin. apply view_nonempty; [apply HS|exact Hin]. Qed.

Lemma thematic_open_ok s parent : SI s -> sin s ->
  exists s' o, thematic_open space_table s = Ok (s', o) /\ open_post PThematic parent s s' o /\
    (o = None <-> is_thematic_break space_table (sview s) (soff s) = false).
Proof using All.
  intros HS Hin. unfold thematic_open.
  destruct (peek_line_s_ok _ _ _ s HS) as [s1 (E1 & S1 & C1 & _)]. rewrite E1. cbn [bind].
  destruct (line_offset_s_ok _ _ _ s1 S1) as [s2 (E2 & S2 & C2 & _)]. rewrite E2. cbn [bind].
  rewrite (scache_off _ _ C1). unfold sin in Hin. rewrite Hin. cbn [line_of].
  pose proof (scache_trans _ _ _ C1 C2) as C12.
  destruct (is_thematic_break space_table (sview s) (soff s)) eqn:Etb.
  - destruct (advance_s_ok _ _ _ s2 (seg_len (r_pos (s_r s)) - 1) S2) as [s3 (E3 & S3 & H3 & C3 & L3)].
    { rewrite (seg_len_view s HS). pose proof (sview_pos s HS Hin). lia. }
    rewrite E3. cbn [bind]. rewrite new_node_eq.
    destruct (new_node_ok space_table src lst s3 (mknode BThematicBreak 0) S3) as (N1 & _); try reflexivity.
    { discriminate. }
    rewrite new_node_eq in N1. cbn [fst] in N1.
    destruct C12 as (CH & CC & CP).
    eexists. eexists. split; [reflexivity|]. split; [|split; discriminate].
    rewrite H3, CH in N1 |- *.
    apply (open_some_leaf PThematic parent s _ (mknode BThematicBreak 0)); cbn [st_h s_h s_c s_r]; auto; try discriminate; try congruence; try exact I.
    eapply r_le_trans; [apply same_pos_le, CP|exact L3].
  - exists s2, None. split; [reflexivity|]. split; [apply open_none; assumption|]. split; auto.
Qed.

(* ---------- ATX heading ---------- *)
Lemma open_alloc_leaf bp parent s s1 nd : SI s1 -> scache s s1 ->
  bk nd = kind_of_parser bp -> bpar nd = None -> bch nd = [] -> node_ok space_table src nd ->
  bk nd <> BParagraph -> bp <> PFenced -> bp <> PSetext -> open_extra bp parent s (st_h s1 (s_h s1 ++ [nd])) nd false ->
  open_post bp parent s (st_h s1 (s_h s1 ++ [nd])) (Some (length (s_h s1), false, false)).
Proof.
  intros S1 (CH & CC & CP) K P C OK NP NF NS X.
  destruct (new_node_ok space_table src lst s1 nd S1 C P OK) as (N1 & _); [intros; contradiction|].
  rewrite new_node_eq in N1. cbn [fst] in N1. rewrite CH in N1 |- *.
  apply (open_some_leaf bp parent s _ nd); cbn [st_h s_h s_c s_r]; auto.
  apply same_pos_le, CP.
Qed.

Lemma atx_open_ok s parent : SI s -> sin s ->
  exists s' o, atx_open_s space_table s = Ok (s', o) /\ open_post PATX parent s s' o.
Proof using All.
  intros HS Hin. unfold atx_open_s.
  destruct (peek_line_s_ok _ _ _ s HS) as [s1 (E1 & S1 & C1 & _)]. rewrite E1. cbn [bind].
  destruct (br_atx_open_cases space_table (line_of (if r_in_range (s_r s) then Some (sview s) else None)) (c_boff (s_c s1)))
    as [E|[lv [_ [E|[a [b [E _]]]]]]]; rewrite E; cbn [bind].
  - exists s1, None. split; [reflexivity|]. apply open_none; assumption.
  - rewrite new_node_eq. eexists. eexists. split; [reflexivity|].
    apply open_alloc_leaf; auto; try discriminate; exact I.
  - rewrite new_node_eq. eexists. eexists. split; [reflexivity|].
    apply open_alloc_leaf; auto; try discriminate; exact I.
Qed.

(* ---------- fenced code ---------- *)
Lemma open_some bp parent s s' nd kids req :
  SI s' -> r_le (s_r s) (s_r s') -> cframe (s_c s) (s_c s') -> s_h s' = s_h s ++ [nd] ->
  bk nd = kind_of_parser bp -> bpar nd = None -> bch nd = [] ->
  req = (match bp with PSetext => true | _ => false end) ->
  (kids = true -> is_container bp = true) ->
  (bp <> PFenced -> c_fence (s_c s') = c_fence (s_c s)) -> (bp = PFenced -> c_fence (s_c s') <> None) ->
  (bp <> PSetext -> c_tmp_para (s_c s') = c_tmp_para (s_c s)) ->
  open_extra bp parent s s' nd kids ->
  open_post bp parent s s' (Some (length (s_h s), kids, req)).
Proof.
  intros. unfold open_post. csplit; auto. exists nd. csplit; auto.
Qed.

Lemma fence_open_ok (line : bytes) (pos : Z) : pos < zlen line -> exists x, fence_open space_table line pos = Ok x.
Proof.
  intros Hlt. pose proof (fence_open_total space_table line pos Hlt) as HP.
  destruct (fence_open space_table line pos) as [x| |] eqn:E; [eauto|congruence|].
  exfalso. clear HP. revert E. unfold fence_open.
  destruct (Z.ltb_spec pos 0) as [Hneg|Hpos]; [discriminate|].
  unfold at_.
  destruct (Z.leb_spec 0 pos) as [_|Hc]; [|lia].
  destruct (Z.ltb_spec pos (zlen line)) as [_|Hc]; [|lia].
  cbn [andb bind]. cbv zeta.
  set (c := nth (Z.to_nat pos) line 0%N).
  destruct (negb (N.eqb c 96 || N.eqb c 126)); [discriminate|].
  destruct (count_byte c (zskip pos line) <? 3); [discriminate|].
  destruct (pos + count_byte c (zskip pos line) <? zlen line - 1); [|discriminate].
  match goal with |- (if ?b then _ else _) = _ -> _ => destruct b end; [|discriminate].
  match goal with |- (if ?b then _ else _) = _ -> _ => destruct b end; discriminate.
Qed.

Lemma fenced_open_ok s parent : SI s -> sin s -> BoffOK s ->
  exists s' o, fenced_open space_table s = Ok (s', o) /\ open_post PFenced parent s s' o.
Proof using All.
  intros HS Hin [B1 B2]. unfold fenced_open.
  destruct (peek_line_s_ok _ _ _ s HS) as [s1 (E1 & S1 & C1 & _)]. rewrite E1. cbn [bind].
  unfold sin in Hin. rewrite Hin. cbn [line_of]. pose proof C1 as (CH & CC & CP). rewrite CC.
  destruct (fence_open_ok (sview s) (c_boff (s_c s)) B1) as [x E]. rewrite E. cbn [bind].
  destruct x as [[[[ch ind] fl] info]|].
  2:{ exists s1, None. split; [reflexivity|]. apply open_none; assumption. }
  assert (Hpos : 0 <= c_boff (s_c s)).
  { destruct (Z.ltb_spec (c_boff (s_c s)) 0) as [Hn|Hn]; [|exact Hn].
    unfold fence_open in E. destruct (Z.ltb_spec (c_boff (s_c s)) 0); [discriminate|lia]. }
  destruct (fence_open_in_range _ _ _ _ _ _ _ Hpos E) as (_ & Hind & Hn & Hpn & Hinfo).
  pose proof (ri_bounds _ (si_r _ _ _ _ HS)) as Hb. rewrite (si_src _ _ _ _ HS) in Hb.
  pose proof (seg_len_view s HS) as Hv. unfold seg_len in Hv.
  specialize (B2 Hpos).
  match goal with |- context [set_seg (mknode BFenced 0) ?i] => set (iseg := i) end.
  set (nd := set_seg (mknode BFenced 0) iseg).
  rewrite new_node_eq. cbn [st_h s_h s_c].
  destruct (new_node_ok space_table src lst s1 nd S1) as (N1 & _); try reflexivity.
  { unfold node_ok. cbn [nd set_seg mknode bk b_seg]. unfold iseg.
    destruct info as [[a b]|]; [|exact I].
    destruct (Z.eqb_spec (s_start (r_pos (s_r s)) - s_pad (r_pos (s_r s)) + a) (s_start (r_pos (s_r s)) - s_pad (r_pos (s_r s)) + b)); [exact I|].
    unfold seg_rng. cbn [mkseg s_start s_stop s_pad]. lia. }
  { discriminate. }
  rewrite new_node_eq in N1. cbn [fst] in N1.
  eexists. eexists. split; [reflexivity|]. rewrite CH in N1 |- *.
  apply (open_some PFenced parent s _ nd); cbn [st_h st_c s_h s_c s_r cset_fence c_fence c_tmp_para]; auto; try discriminate; try congruence.
  - apply SI_set_c; [exact N1|]. cbn [st_h s_h s_c].
    pose proof (si_c _ _ _ _ N1) as [K1 K2 K3 K4]. cbn [st_h s_h s_c] in K1, K2, K3, K4.
    constructor; cbn [cset_fence c_arr c_len c_tmp_para c_fence]; auto.
    intros ch' ind' fl' nd' Ef. injection Ef as _ <- _ _. lia.
  - apply same_pos_le, CP.
  - unfold cframe. rewrite CC. cbn. auto.
  - exact I.
Qed.

(* ---------- indented code ---------- *)
Lemma ip_loop_nonblank line cur width : forall w i w' i', ListItem.is_blank space_table line = false ->
  indent_position_loop line cur w i 0 width = (w', i') -> i' < i + zlen line.
Proof.
  induction line as [|c r IH]; intros w i w' i' Hb H.
  - discriminate.
  - rewrite zlen_cons. pose proof (zlen_nonneg r) as Hr. cbn [indent_position_loop] in H.
    change (0 <? 0) with false in H. cbv iota in H.
    unfold ListItem.is_blank in Hb, IH. cbn [forallb] in Hb.
    destruct (N.eqb_spec c 9) as [E9|E9]; cbn [andb] in H.
    + destruct (w <? width).
      * subst c. rewrite tbl in Hb. cbn in Hb. apply IH in H; [lia|exact Hb].
      * destruct (N.eqb c 32); cbn [andb] in H; injection H as _ <-; lia.
    + destruct (N.eqb_spec c 32) as [E32|E32]; cbn [andb] in H.
      * destruct (w <? width).
        -- subst c. rewrite tbl in Hb. cbn in Hb. apply IH in H; [lia|exact Hb].
        -- injection H as _ <-; lia.
      * injection H as _ <-; lia.
Qed.

Lemma indent_position_4 line off pos padding : ListItem.is_blank space_table line = false ->
  indent_position line off 4 = (pos, padding) -> pos = -1 \/ (0 <= pos < zlen line /\ 0 <= padding).
Proof.
  intros Hb H. unfold indent_position, indent_position_padding in H. change (4 =? 0) with false in H. cbv iota in H.
  destruct (indent_position_loop line off 0 0 0 4) as [w i] eqn:El.
  pose proof (br_ip_loop_range _ _ _ _ _ _ _ _ El) as Hr. pose proof (ip_loop_nonblank _ _ _ _ _ _ _ Hb El) as Hn.
  destruct (Z.leb_spec 4 w); injection H as <- <-; [right|left]; lia.
Qed.

Lemma same_line_src a b : same_line a b -> r_src b = r_src a.
Proof. intros (H & _). exact H. Qed.
Lemma same_pos_src a b : same_pos a b -> r_src b = r_src a.
Proof. intros (H & _). exact H. Qed.
Lemma same_pos_pos a b : same_pos a b -> r_pos b = r_pos a.
Proof. intros (_ & H & _). exact H. Qed.

Lemma code_block_take_ri r pos padding : RI r -> r_in_range r = true -> 0 <= pos < zlen (r_view r) -> 0 <= padding ->
  exists sg r', code_block_take r pos padding = Ok (sg, r') /\ RI r' /\ r_le r r' /\ seg_rng (r_src r) sg.
Proof.
  intros HI Hin Hpos Hpad. unfold code_block_take.
  (* AdvanceAndSetPadding *)
  assert (exists r1, r_advance_and_set_padding r pos padding = Ok r1 /\ RI r1 /\ same_line r r1 /\ r_in_range r1 = true)
    as [r1 (E1 & I1 & L1 & In1)].
  { unfold r_advance_and_set_padding.
    destruct (ri_advance_within r pos HI Hin Hpos) as [ra (A1 & A2 & A3 & _ & _ & _ & A7)]. rewrite A1. cbn [bind].
    destruct (s_pad (r_pos ra) <? padding).
    - destruct (ri_set_padding ra padding A2 Hpad) as (K1 & K2 & K3 & _).
      eexists. split; [reflexivity|]. split; [exact K1|]. split; [eapply same_line_trans; eassumption|].
      apply in_range_true in A7. apply in_range_intro. rewrite K3, (same_line_src _ _ K2). exact A7.
    - exists ra. auto. }
  rewrite E1. cbn [bind].
  (* PeekLine *)
  destruct (ri_peek r1 I1) as [r2 (E2 & I2 & P2 & _)]. rewrite E2. cbn [bind].
  pose proof (ri_bounds r1 I1) as Hb1. pose proof (in_range_true _ In1) as Hr1.
  pose proof (inv_bounds_in r1 (proj1 I1) ltac:(lia)) as Hlt1.
  pose proof (same_line_src _ _ L1) as Hsrc1. rewrite Hsrc1 in Hb1.
  (* preserveLeadingTabInCodeBlock *)
  assert (exists sg r4, (if s_pad (r_pos r1) =? 0 then Ok (r_pos r1, r2)
            else y <- r_line_offset r2 ;;
                 (let '(r0, off) := y in
                  let '(sl, ss) := r_position r0 in
                  r3 <- r_set_position r0 sl (mkseg (s_start ss - 1) (s_stop ss)) ;;
                  z <- r_line_offset r3 ;;
                  (let '(r5, off2) := z in
                   r6 <- r_set_position r5 sl ss ;;
                   Ok (if off =? off2 then mksegp (s_start (r_pos r1) - 1) (s_stop (r_pos r1)) 0 else r_pos r1, r6))))
          = Ok (sg, r4) /\ RI r4 /\ same_pos r1 r4 /\
          0 <= s_start sg <= s_stop sg /\ s_stop sg <= zlen (r_src r) /\ 0 <= s_pad sg /\ 1 <= seg_len sg)
    as (sg & r4 & E4 & I4 & P4 & Hsg).
  { destruct (Z.eqb_spec (s_pad (r_pos r1)) 0) as [Ep|Ep].
    - exists (r_pos r1), r2. csplit; auto; unfold seg_len; try lia.
    - destruct (ri_line_offset r2 I2) as [r3 (E3 & I3 & P3 & _)]. rewrite E3. cbn [bind]. unfold r_position.
      rewrite set_position_same_line. cbn [bind].
      destruct (look_behind r3 I3) as [o [Eo Ho]]. rewrite set_position_same_line in Eo. cbn [bind] in Eo.
      rewrite Eo. cbn [bind].
      change (r_line r3) with (r_line (rset_loff (sp r3 (mkseg (s_start (r_pos r3) - 1) (s_stop (r_pos r3)))) o)).
      rewrite set_position_same_line. cbn [bind]. rewrite sp_back.
      destruct (ri_clear r3 I3) as [I5 P5].
      pose proof (same_pos_trans _ _ _ P2 P3) as P23.
      eexists. eexists. split; [reflexivity|]. split; [exact I5|]. split; [eapply same_pos_trans; eassumption|].
      destruct (Z.eqb_spec (r_column r2 (r_head r2)) o) as [Eoff|Eoff]; unfold seg_len; cbn [mksegp s_start s_stop s_pad]; [|lia].
      assert (s_start (r_pos r1) <> 0); [|lia].
      intros E0. rewrite (same_pos_pos _ _ P23) in Ho. specialize (Ho E0). subst o.
      unfold r_column in Eoff. destruct P2 as (Q1 & Q2 & Q3 & Q4). rewrite Q2, Q3 in Eoff.
      rewrite sub_empty in Eoff by lia. cbn [col_width] in Eoff. lia. }
  rewrite E4. cbn [bind].
  match goal with |- context [r_advance r4 ?n] => destruct (ri_advance r4 n I4) as [r5 (E5 & I5 & L5)] end.
  { unfold seg_len in *. cbn [s_start s_stop s_pad]. lia. }
  rewrite E5. cbn [bind]. eexists. eexists. split; [reflexivity|]. split; [exact I5|]. split.
  - eapply r_le_trans; [apply same_line_le, L1|]. eapply r_le_trans; [apply same_pos_le, P4|exact L5].
  - unfold seg_rng. cbn [s_start s_stop s_pad]. lia.
Qed.

Lemma code_block_open_ri r : RI r -> r_in_range r = true ->
  code_block_open space_table r = Ok None \/
  exists sg r', code_block_open space_table r = Ok (Some (sg, r')) /\ RI r' /\ r_le r r' /\ seg_rng (r_src r) sg.
Proof.
  intros HI Hin. unfold code_block_open.
  destruct (ri_peek r HI) as [r1 (E1 & I1 & P1 & _)]. rewrite E1. cbn [bind]. rewrite Hin.
  destruct (ri_line_offset r1 I1) as [r2 (E2 & I2 & P2 & _)]. rewrite E2. cbn [bind].
  destruct (indent_position (r_view r) (r_column r1 (r_head r1)) 4) as [pos padding] eqn:Eip.
  destruct (Z.ltb_spec pos 0) as [Hn|Hn]; cbn [orb]; [left; reflexivity|].
  destruct (ListItem.is_blank space_table (r_view r)) eqn:Eb; [left; reflexivity|].
  destruct (indent_position_4 _ _ _ _ Eb Eip) as [Hp|[Hp Hq]]; [lia|].
  pose proof (same_pos_trans _ _ _ P1 P2) as P12.
  destruct (code_block_take_ri r2 pos padding I2) as (sg & r' & Et & I' & L' & Hsg); auto.
  { rewrite (same_pos_in_range _ _ P12). exact Hin. }
  { rewrite (same_pos_view _ _ P12). exact Hp. }
  right. exists sg, r'. rewrite Et. cbn [bind]. split; [reflexivity|]. split; [exact I'|]. split.
  - eapply r_le_trans; [apply same_pos_le, P12|exact L'].
  - rewrite (same_pos_src _ _ P12) in Hsg. exact Hsg.
Qed.

Lemma code_open_ok s parent : SI s -> sin s ->
  exists s' o, code_open space_table s = Ok (s', o) /\ open_post PCodeBlock parent s s' o.
Proof using All.
  intros HS Hin. unfold code_open.
  destruct (code_block_open_ri (s_r s) (si_r _ _ _ _ HS) Hin) as [E|(sg & r' & E & I' & L' & Hsg)]; rewrite E; cbn [bind].
  - exists s, None. split; [reflexivity|]. apply open_none; [exact HS|apply scache_refl].
  - rewrite (si_src _ _ _ _ HS) in Hsg. rewrite new_node_eq. cbn [st_r s_h].
    pose proof (SI_set_r _ _ _ s r' HS I' L' (PadB_code_block_open _ _ _ _ E (si_pad _ _ _ _ HS))) as S1.
    set (nd := set_lines (mknode BCodeBlock 0) [sg]).
    destruct (new_node_ok space_table src lst (st_r s r') nd S1) as (N1 & _); try reflexivity.
    { unfold node_ok. cbn [nd set_lines mknode bk blines]. constructor; [exact Hsg|constructor]. }
    { discriminate. }
    rewrite new_node_eq in N1. cbn [fst st_r s_h] in N1.
    eexists. eexists. split; [reflexivity|].
    apply (open_some_leaf PCodeBlock parent s _ nd); cbn [st_h st_r s_h s_c s_r]; auto; try discriminate.
    exact I.
Qed.

(* ---------- HTML block ---------- *)
Lemma last_opened_in c e : last_opened c = Some e -> In e (c_arr c).
Proof.
  unfold last_opened. destruct (c_len c) as [|k]; [discriminate|]. apply nth_error_In.
Qed.

Lemma is_paragraph_ok s l p : SI s -> last_opened (s_c s) = Some (l, p) ->
  exists n, nth_error (s_h s) l = Some n /\ bk n = kind_of_parser p /\
            is_paragraph (s_h s) l = Ok (bkind_eqb (bk n) BParagraph).
Proof.
  intros HS E. apply last_opened_in in E.
  destruct (ci_arr _ _ _ (si_c _ _ _ _ HS) _ E) as [n [En K]]. cbn [fst snd] in En, K.
  exists n. csplit; auto. unfold is_paragraph. rewrite (hget_some _ _ _ En). reflexivity.
Qed.

(* advance by a non-negative amount, then allocate a leaf node *)
Lemma open_adv_alloc_leaf bp parent s s2 s3 n nd : SI s2 -> scache s s2 -> 0 <= n -> advance_s s2 n = Ok s3 ->
  bk nd = kind_of_parser bp -> bpar nd = None -> bch nd = [] -> node_ok space_table src nd ->
  bk nd <> BParagraph -> bp <> PFenced -> bp <> PSetext ->
  (forall s', open_extra bp parent s s' nd false) ->
  open_post bp parent s (st_h s3 (s_h s3 ++ [nd])) (Some (length (s_h s3), false, false)).
Proof.
  intros S2 (CH & CC & CP) Hn E K P C OK NP NF NS X.
  destruct (advance_s_ok _ _ _ s2 n S2 Hn) as [s3' (E3 & S3 & H3 & C3 & L3)].
  rewrite E in E3. injection E3 as <-.
  destruct (new_node_ok space_table src lst s3 nd S3 C P OK) as (N1 & _); [intros; contradiction|].
  rewrite new_node_eq in N1. cbn [fst] in N1. rewrite H3, CH in N1 |- *.
  apply (open_some_leaf bp parent s _ nd); cbn [st_h s_h s_c s_r]; auto; try congruence.
  eapply r_le_trans; [apply same_pos_le, CP|exact L3].
Qed.

Lemma html_open_ok s parent : SI s -> sin s -> BoffOK s ->
  exists s' o, html_open space_table re_t1o re_t2 re_t3 re_t4 re_t5 re_t6 re_t7 allowed_tags s = Ok (s', o) /\
               open_post PHTML parent s s' o.
Proof using All.
  intros HS Hin [B1 B2]. unfold html_open.
  destruct (peek_line_s_ok _ _ _ s HS) as [s1 (E1 & S1 & C1 & _)]. rewrite E1. cbn [bind].
  unfold sin in Hin. rewrite Hin. cbn [line_of]. pose proof C1 as (CH & CC & CP). rewrite CC.
  cbv zeta.
  destruct (Z.ltb_spec (c_boff (s_c s)) 0) as [Hneg|Hpos].
  { exists s1, None. split; [reflexivity|]. apply open_none; assumption. }
  rewrite at_nth by lia. cbn [bind].
  destruct (negb (N.eqb (nth (Z.to_nat (c_boff (s_c s))) (sview s) 0%N) 60)).
  { exists s1, None. split; [reflexivity|]. apply open_none; assumption. }
  assert (exists b, match last_opened (s_c s) with
                    | Some (l, _) => is_paragraph (s_h s1) l
                    | None => Ok false
                    end = Ok b) as [b Eb].
  { destruct (last_opened (s_c s)) as [[l p]|] eqn:El; [|eauto].
    destruct (is_paragraph_ok s l p HS El) as [n (_ & _ & E)]. rewrite CH. eauto. }
  rewrite Eb. cbn [bind].
  match goal with |- exists s' o, (if ?t =? 0 then _ else _) = _ /\ _ => destruct (Z.eqb_spec t 0) as [Et|Et]; [|generalize t; intros typ] end.
  { exists s1, None. split; [reflexivity|]. apply open_none; assumption. }
  assert (Hn : 0 <= seg_len (r_pos (s_r s)) - trim_right_space_len space_table (sview s)).
  { rewrite (seg_len_view s HS). pose proof (br_trs_range space_table (sview s)). lia. }
  destruct (advance_s_ok _ _ _ s1 _ S1 Hn) as [s3 (E3 & _)]. rewrite E3. cbn [bind]. rewrite new_node_eq.
  eexists. eexists. split; [reflexivity|].
  eapply open_adv_alloc_leaf; try eassumption; try reflexivity; try discriminate.
  unfold node_ok. cbn [set_lines mknode bk blines]. constructor; [|constructor].
  pose proof (ri_bounds _ (si_r _ _ _ _ HS)) as Hb. rewrite (si_src _ _ _ _ HS) in Hb. unfold seg_rng. lia.
Qed.

(* ---------- setext heading ---------- *)
Lemma matches_setext_bar_ok line : 0 < zlen line -> exists m, matches_setext_bar space_table line = Ok m.
Proof.
  intros Hl. unfold matches_setext_bar. cbv zeta.
  destruct (3 <? count_in [32%N] line); [eauto|].
  rewrite at_nth by lia. cbn [bind].
  match goal with |- exists m, (if ?b then _ else _) = _ => destruct b end; eauto.
Qed.

Lemma opt_nat_eqb_true a b : opt_nat_eqb a b = true -> a = b.
Proof.
  destruct a as [x|], b as [y|]; cbn; try discriminate; auto. intros H. apply Nat.eqb_eq in H. congruence.
Qed.

Lemma setext_open_ok s parent : SI s -> sin s ->
  exists s' o, setext_open space_table s parent = Ok (s', o) /\ open_post PSetext parent s s' o.
Proof using All.
  intros HS Hin. unfold setext_open.
  destruct (last_opened (s_c s)) as [[last lp]|] eqn:El.
  2:{ exists s, None. split; [reflexivity|]. apply open_none; [exact HS|apply scache_refl]. }
  destruct (is_paragraph_ok s last lp HS El) as [ln (En & _ & _)].
  rewrite (hget_some _ _ _ En). cbn [bind].
  destruct (bkind_eqb_spec (bk ln) BParagraph) as [Kp|Kp]; cbn [andb negb].
  2:{ exists s, None. split; [reflexivity|]. apply open_none; [exact HS|apply scache_refl]. }
  destruct (opt_nat_eqb (bpar ln) (Some parent)) eqn:Ep; cbn [negb].
  2:{ exists s, None. split; [reflexivity|]. apply open_none; [exact HS|apply scache_refl]. }
  apply opt_nat_eqb_true in Ep.
  destruct (peek_line_s_ok _ _ _ s HS) as [s1 (E1 & S1 & C1 & _)]. rewrite E1. cbn [bind].
  pose proof Hin as Hin'. unfold sin in Hin'. rewrite Hin'. cbn [line_of]. pose proof C1 as (CH & CC & CP).
  destruct (matches_setext_bar_ok (sview s) (sview_pos s HS Hin)) as [m Em]. rewrite Em. cbn [bind].
  destruct m as [c|].
  2:{ exists s1, None. split; [reflexivity|]. apply open_none; assumption. }
  match goal with |- context [set_lines (mknode BHeading ?l) ?ls] => set (nd := set_lines (mknode BHeading l) ls) end.
  rewrite new_node_eq. cbn [st_h s_h s_c].
  destruct (new_node_ok space_table src lst s1 nd S1) as (N1 & _); try reflexivity.
  { discriminate. }
  rewrite new_node_eq in N1. cbn [fst] in N1.
  eexists. eexists. split; [reflexivity|]. rewrite CH in N1 |- *.
  apply (open_some PSetext parent s _ nd); cbn [st_h st_c s_h s_c s_r cset_tmp c_fence c_tmp_para]; auto; try discriminate; try congruence.
  - apply SI_set_c; [exact N1|]. cbn [st_h s_h s_c].
    pose proof (si_c _ _ _ _ N1) as [K1 K2 K3 K4]. cbn [st_h s_h s_c] in K1, K2, K3, K4.
    constructor; cbn [cset_tmp c_arr c_len c_tmp_para c_fence]; auto.
    intros t Et. injection Et as <-. exists ln. split; [apply nth_error_alloc_old, En|exact Kp].
  - apply same_pos_le, CP.
  - unfold cframe. rewrite CC. cbn. auto.
  - exists last, lp, ln. csplit; auto. discriminate.
Qed.

End S.
