(* Block quotes around plain paragraphs, shared definitions: quoted documents as trees of line
   bodies (the analogue of SpecParaBytes.doc_ok documents), their source text, the heap the
   block phase builds for them, the trees after the block and inline phases, and their HTML. *)
Require Import GM.model.Base GM.model.Util GM.model.UtilI GM.model.Reader GM.model.HtmlWriter GM.model.Html
               GM.model.SpecDoc GM.model.ListItem GM.model.BlockParse GM.model.InlineParse.
Require Import GM.proofs.SpecParaBytes GM.proofs.SpecParaBlocks.
From Coq Require Import List NArith ZArith Bool Lia.
Import ListNotations.
Open Scope Z_scope.

(* a block: a paragraph (its line bodies) or a block quote (marker style: true = "> ", false = ">")
   of a non-empty list of blocks *)
Inductive qb := QP (p : list bytes) | QQ (st : bool) (bs : qbs)
with qbs := QOne (b : qb) | QCons (b : qb) (r : qbs).
Scheme qb_mind := Induction for qb Sort Prop
  with qbs_mind := Induction for qbs Sort Prop.
Combined Scheme qb_qbs_ind from qb_mind, qbs_mind.

Fixpoint qb_ok (b : qb) : bool :=
  match b with QP p => para_ok p | QQ _ bs => qbs_ok bs end
with qbs_ok (bs : qbs) : bool :=
  match bs with QOne b => qb_ok b | QCons b r => qb_ok b && qbs_ok r end.

Definition mk (st : bool) : bytes := if st then [62%N;32%N] else [62%N].

(* ---------- the source ---------- *)
(* pfx: what every line of the block begins with; sep: the line between two blocks of the list *)
Fixpoint qb_src (pfx : bytes) (b : qb) : bytes :=
  match b with
  | QP p => join nl (map (app pfx) p)
  | QQ st bs => qbs_src (pfx ++ mk st) (pfx ++ [62%N]) bs
  end
with qbs_src (pfx sep : bytes) (bs : qbs) : bytes :=
  match bs with
  | QOne b => qb_src pfx b
  | QCons b r => qb_src pfx b ++ nl ++ sep ++ nl ++ qbs_src pfx sep r
  end.
Definition qdoc_src (d : qbs) (fin : bool) : bytes := qbs_src [] [] d ++ (if fin then nl else []).

(* lengths: L = length of the prefix, Ls = length of the separator line *)
Fixpoint plen (L : Z) (p : list bytes) : Z :=
  match p with
  | [] => 0
  | [b] => L + zlen b
  | b :: r => L + zlen b + 1 + plen L r
  end.
Fixpoint qb_len (L : Z) (b : qb) : Z :=
  match b with
  | QP p => plen L p
  | QQ st bs => qbs_len (L + zlen (mk st)) (L + 1) bs
  end
with qbs_len (L Ls : Z) (bs : qbs) : Z :=
  match bs with
  | QOne b => qb_len L b
  | QCons b r => qb_len L b + 1 + Ls + 1 + qbs_len L Ls r
  end.

(* ---------- segments ---------- *)
(* the lines of a paragraph whose first line begins at off, behind a prefix of length L; tl: the
   length of the terminator kept in the last line (0 once the paragraph is closed) *)
Fixpoint qsegs (L tl off : Z) (p : list bytes) : list seg :=
  match p with
  | [] => []
  | [b] => [mkseg (off + L) (off + L + zlen b + tl)]
  | b :: r => mkseg (off + L) (off + L + zlen b + 1) :: qsegs L tl (off + L + zlen b + 1) r
  end.
Fixpoint qtexts (L off : Z) (p : list bytes) : list tree :=
  match p with
  | [] => []
  | [b] => [text_node (off + L) b false]
  | b :: r => text_node (off + L) b true :: qtexts L (off + L + zlen b + 1) r
  end.

(* ---------- the trees after the block phase / after the inline phase ---------- *)
Fixpoint qb_tree (full : bool) (L off : Z) (b : qb) : tree :=
  match b with
  | QP p => Node KParagraph (qsegs L 0 off p) None (if full then qtexts L off p else [])
  | QQ st bs => Node KBlockquote [] None (qbs_trees full (L + zlen (mk st)) (L + 1) off bs)
  end
with qbs_trees (full : bool) (L Ls off : Z) (bs : qbs) : list tree :=
  match bs with
  | QOne b => [qb_tree full L off b]
  | QCons b r => qb_tree full L off b :: qbs_trees full L Ls (off + qb_len L b + 1 + Ls + 1) r
  end.
Definition qdoc_tree (full : bool) (d : qbs) : tree := Node KDocument [] None (qbs_trees full 0 0 0 d).

(* ---------- the HTML ---------- *)
Definition bq_name : bytes := [98;108;111;99;107;113;117;111;116;101]%N.
Fixpoint qb_html (b : qb) : bytes :=
  match b with
  | QP p => para_html p
  | QQ _ bs => tag bq_name ++ nl ++ qbs_html bs ++ ctag bq_name ++ nl
  end
with qbs_html (bs : qbs) : bytes :=
  match bs with QOne b => qb_html b | QCons b r => qb_html b ++ qbs_html r end.

(* ---------- the heap of the block phase ---------- *)
Definition qnode (par : option nat) (cs : list nat) (bl : bool) : bnode :=
  {| bk := BBlockquote; bpar := par; bch := cs; blines := []; bblank := bl; b_i1 := 0; b_i2 := 0; b_tight := true; b_seg := None |}.
Definition unblank (n : bnode) : bnode := set_blank n false.

Fixpoint qb_size (b : qb) : nat :=
  match b with QP _ => 1%nat | QQ _ bs => S (qbs_size bs) end
with qbs_size (bs : qbs) : nat :=
  match bs with QOne b => qb_size b | QCons b r => (qb_size b + qbs_size r)%nat end.
Fixpoint qbs_ids (idx : nat) (bs : qbs) : list nat :=
  match bs with QOne _ => [idx] | QCons b r => idx :: qbs_ids (idx + qb_size b) r end.

(* all the nodes of a block allocated from index idx on, child of par; tl as in qsegs, for the
   last paragraph of the block only *)
Fixpoint qb_nodes (tl L off : Z) (par idx : nat) (b : qb) : list bnode :=
  match b with
  | QP p => [pnode (Some par) (qsegs L tl off p) false]
  | QQ st bs => qnode (Some par) (qbs_ids (S idx) bs) false :: qbs_nodes tl (L + zlen (mk st)) (L + 1) off idx (S idx) bs
  end
with qbs_nodes (tl L Ls off : Z) (par idx : nat) (bs : qbs) : list bnode :=
  match bs with
  | QOne b => qb_nodes tl L off par idx b
  | QCons b r => qb_nodes 0 L off par idx b ++ qbs_nodes tl L Ls (off + qb_len L b + 1 + Ls + 1) par (idx + qb_size b) r
  end.
Definition qdoc_heap (d : qbs) : heap := dnode (qbs_ids 1 d) :: qbs_nodes 0 0 0 0 0%nat 1%nat d.

(* the nodes just after the first line of the block: the chain of first children down to the
   first paragraph with its first line [.., e) *)
Fixpoint qb_first (b : qb) : list bytes * list bool :=
  match b with
  | QP p => (p, [])
  | QQ st bs => let '(p, sts) := qbs_first bs in (p, st :: sts)
  end
with qbs_first (bs : qbs) : list bytes * list bool :=
  match bs with QOne b => qb_first b | QCons b _ => qb_first b end.
