(* The tree phase of C11 for the parser model with extension.Footnote: on a heap without
   Footnote / FootnoteList nodes and with an inline parser that behaves like the default one and
   leaves the footnote state alone, walking the blocks (walk_blocks), the AST transformer without
   a list (the identity) and to_treeF yield what to_tree followed by attach_inlines yields. *)
Require Import GM.model.Base GM.model.Util GM.model.Reader GM.model.HtmlWriter GM.model.Html
               GM.model.BlockParse GM.model.InlineParse
               GM.model.FootnoteParseBlock GM.model.FootnoteParseInline GM.model.FootnoteParse.
Require Import GM.proofs.ParseInv GM.proofs.ParseCompose GM.proofs.FootnoteConservativeDefs.
From Coq Require Import List ZArith Bool Lia.
Import ListNotations.
Open Scope Z_scope.

(* ---------- small facts ---------- *)
Lemma fct_hget_nth h i n : hget h i = Ok n -> nth_error h i = Some n.
Proof. unfold hget. destruct (nth_error h i) as [m|]; intros H; [injection H as ->; reflexivity|discriminate]. Qed.

Lemma fct_plain_get h i n : plain h -> hget h i = Ok n -> plain_node n.
Proof.
  intros Hp Hg. apply fct_hget_nth in Hg. apply nth_error_In in Hg.
  unfold plain in Hp. rewrite Forall_forall in Hp. exact (Hp n Hg).
Qed.

(* the inline-bearing kinds are the kinds of the inline-bearing blocks *)
Lemma fct_kind_of_has_inlines src n k : kind_of src n = Ok k -> has_inlines k = block_has_inlines n.
Proof.
  unfold kind_of, block_has_inlines. intros H.
  destruct (bk n); try (injection H as <-; reflexivity);
  destruct (b_seg n) as [sg|]; try (injection H as <-; reflexivity);
  fc_bind H v Hv; injection H as <-; reflexivity.
Qed.

Lemma fct_lookup_in {A} (l : list (nat * A)) i v : lookup_id l i = Some v -> In (i, v) l.
Proof.
  induction l as [|[j w] r IH]; cbn [lookup_id]; intros H; [discriminate|].
  destruct (Nat.eqb_spec i j) as [->|Hne].
  - injection H as ->. left. reflexivity.
  - right. exact (IH H).
Qed.

Lemma fct_lookup_some {A} (l : list (nat * A)) i v : In (i, v) l -> exists w, lookup_id l i = Some w.
Proof.
  induction l as [|[j w] r IH]; cbn [lookup_id]; intros H; [destruct H|].
  destruct (Nat.eqb_spec i j) as [->|Hne]; [exists w; reflexivity|].
  destruct H as [H|H]; [injection H as <- _; contradiction|exact (IH H)].
Qed.

(* the loop over the children inside walk_blocks, as a function of its own *)
Section WalkList.
Variable inlF : fstate -> list seg -> result (list tree * fstate).
Fixpoint walk_list (f : nat) (h : heap) (l : list nat) (fs : fstate) (acc : list (nat * list tree))
  : result (fstate * list (nat * list tree)) :=
  match l with
  | [] => Ok (fs, acc)
  | c :: t => y <- walk_blocks inlF f h c fs acc ;; walk_list f h t (fst y) (snd y)
  end.

Lemma walk_blocks_unfold f h i fs acc :
  walk_blocks inlF (S f) h i fs acc =
  (n <- hget h i ;;
   r <- walk_list f h (bch n) fs acc ;;
   let '(fs, acc) := r in
   if block_has_inlines n then
     y <- inlF fs (blines n) ;;
     Ok (snd y, acc ++ [(i, fst y)])
   else Ok (fs, acc)).
Proof.
  cbn [walk_blocks]. destruct (hget h i) as [n| |]; cbn [bind]; try reflexivity.
  assert (E : forall l fs' acc',
    (fix go (l : list nat) (fs : fstate) (acc : list (nat * list tree)) : result (fstate * list (nat * list tree)) :=
       match l with
       | [] => Ok (fs, acc)
       | c :: t => y <- walk_blocks inlF f h c fs acc ;; go t (fst y) (snd y)
       end) l fs' acc' = walk_list f h l fs' acc').
  { induction l as [|c t IH]; intros fs' acc'; [reflexivity|].
    cbn [walk_list]. destruct (walk_blocks inlF f h c fs' acc') as [y| |]; cbn [bind]; try reflexivity.
    apply IH. }
  rewrite E. reflexivity.
Qed.
End WalkList.

Lemma to_treeF_unfold f src p i :
  to_treeF (S f) src p i =
  match lookup_id (fp_back p) i with
  | Some k => Ok (Node k [] None [])
  | None =>
    n <- hget (fp_h p) i ;;
    if block_has_inlines n then
      k <- kind_of src n ;;
      Ok (Node k (blines n) None (match lookup_id (fp_inl p) i with Some ts => ts | None => [] end))
    else
      k <- (if is_footnote_node n then Ok (KFootnote (b_i2 n))
            else if is_fnlist_node n then Ok KFootnoteList
            else kind_of src n) ;;
      kids <- map_res (to_treeF f src p) (bch n) ;;
      Ok (Node k (blines n) None kids)
  end.
Proof. reflexivity. Qed.

Section Tree.
Variable src : bytes.
Variable h : heap.
Variable IC : list seg -> result (list tree).
Variable inlF : fstate -> list seg -> result (list tree * fstate).
Let fs0 := {| fs_defs := None; fs_count := 0; fs_links := [] |}.
Hypothesis Hplain : plain h.
Hypothesis Hleaf : forall i n, nth_error h i = Some n -> block_has_inlines n = true -> bch n = [].
Hypothesis HinlF : forall lines, lines_ok src lines -> inlF fs0 lines = (ts <- IC lines ;; Ok (ts, fs0)).

(* every recorded pair holds the inline children of that block *)
Definition good (l : list (nat * list tree)) : Prop :=
  forall j ts, In (j, ts) l -> exists n, hget h j = Ok n /\ IC (blines n) = Ok ts.

Lemma good_app a b : good a -> good b -> good (a ++ b).
Proof. intros Ha Hb j ts Hin. apply in_app_or in Hin as [Hin|Hin]; [exact (Ha j ts Hin)|exact (Hb j ts Hin)]. Qed.

Lemma good_app_l a b : good (a ++ b) -> good a.
Proof. intros H j ts Hin. apply (H j ts). apply in_or_app. left. exact Hin. Qed.

Definition mkp (l : list (nat * list tree)) : fpost := {| fp_h := h; fp_inl := l; fp_back := [] |}.

Definition node_stmt (f : nat) : Prop :=
  forall i t t' acc,
    to_tree f src h i = Ok t -> tree_lines_ok src t = true -> attach_inlines IC t = Ok t' -> good acc ->
    exists more, walk_blocks inlF f h i fs0 acc = Ok (fs0, acc ++ more) /\ good (acc ++ more) /\
      forall rest, good (acc ++ more ++ rest) -> to_treeF f src (mkp (acc ++ more ++ rest)) i = Ok t'.

Definition list_stmt (f : nat) : Prop :=
  forall cs ts ts' acc,
    map_res (to_tree f src h) cs = Ok ts -> forallb (tree_lines_ok src) ts = true ->
    map_res (attach_inlines IC) ts = Ok ts' -> good acc ->
    exists more, walk_list inlF f h cs fs0 acc = Ok (fs0, acc ++ more) /\ good (acc ++ more) /\
      forall rest, good (acc ++ more ++ rest) -> map_res (to_treeF f src (mkp (acc ++ more ++ rest))) cs = Ok ts'.

Lemma list_of_node f : node_stmt f -> list_stmt f.
Proof.
  intros Hn cs. induction cs as [|c cs IH]; intros ts ts' acc Hts Hl Hat Hg.
  - cbn [map_res] in Hts. injection Hts as <-. cbn [map_res] in Hat. injection Hat as <-.
    exists []. cbn [walk_list]. rewrite app_nil_r. split; [reflexivity|]. split; [exact Hg|].
    intros rest _. reflexivity.
  - cbn [map_res] in Hts. fc_bind Hts t Ht. fc_bind Hts tr Htr. injection Hts as <-.
    cbn [forallb] in Hl. apply andb_true_iff in Hl as [Hl1 Hl2].
    cbn [map_res] in Hat. fc_bind Hat t' Ht'. fc_bind Hat tr' Htr'. injection Hat as <-.
    destruct (Hn c t t' acc Ht Hl1 Ht' Hg) as (m1 & Hw1 & Hg1 & Hr1).
    destruct (IH tr tr' (acc ++ m1) Htr Hl2 Htr' Hg1) as (m2 & Hw2 & Hg2 & Hr2).
    exists (m1 ++ m2). cbn [walk_list]. rewrite Hw1. cbn [bind fst snd]. rewrite Hw2.
    rewrite <- !app_assoc in *. split; [reflexivity|]. split; [exact Hg2|].
    intros rest Hgr. cbn [map_res]. rewrite <- !app_assoc in *.
    rewrite (Hr1 (m2 ++ rest) Hgr). cbn [bind].
    specialize (Hr2 rest). rewrite <- !app_assoc in Hr2.
    rewrite (Hr2 Hgr). reflexivity.
Qed.

Lemma node_step f : node_stmt f -> node_stmt (S f).
Proof.
  intros Hn i t t' acc Ht Hl Hat Hg.
  pose proof (list_of_node f Hn) as Hlist.
  cbn [to_tree] in Ht. fc_bind Ht n Hget. fc_bind Ht k Hk. fc_bind Ht kids Hkids. injection Ht as <-.
  rewrite tree_lines_ok_unfold in Hl. apply andb_true_iff in Hl as [Hl1 Hl2].
  rewrite attach_inlines_unfold in Hat.
  pose proof (fct_kind_of_has_inlines src n k Hk) as Hhas.
  destruct (plain_not_footnote n (fct_plain_get h i n Hplain Hget)) as [Hnf Hnl].
  rewrite walk_blocks_unfold. rewrite Hget. cbn [bind].
  destruct (block_has_inlines n) eqn:Hb.
  - rewrite Hhas in Hat, Hl1.
    pose proof (Hleaf i n (fct_hget_nth h i n Hget) Hb) as Hch.
    rewrite Hch in *. cbn [walk_list bind].
    fc_bind Hat ch Hch'. injection Hat as <-.
    apply andb_true_iff in Hl1 as [Hs1 Hs2].
    rewrite (HinlF (blines n) (conj Hs1 Hs2)). rewrite Hch'. cbn [bind fst snd].
    exists [(i, ch)]. split; [reflexivity|].
    assert (Hg' : good (acc ++ [(i, ch)])).
    { apply good_app; [exact Hg|]. intros j ts [Hin|[]]. injection Hin as <- <-. exists n. split; [exact Hget|exact Hch']. }
    split; [exact Hg'|].
    intros rest Hgr. rewrite to_treeF_unfold. cbn [mkp fp_back fp_inl fp_h lookup_id].
    rewrite Hget. cbn [bind]. rewrite Hb, Hk. cbn [bind].
    cbn [map_res] in Hkids. injection Hkids as <-.
    assert (Hin : In (i, ch) (acc ++ [(i, ch)] ++ rest)).
    { apply in_or_app. right. left. reflexivity. }
    destruct (fct_lookup_some _ _ _ Hin) as [w Hw]. rewrite Hw.
    apply fct_lookup_in in Hw. destruct (Hgr i w Hw) as (n' & Hget' & Hic).
    rewrite Hget in Hget'. injection Hget' as <-. rewrite Hch' in Hic. injection Hic as <-. reflexivity.
  - rewrite Hhas in Hat. fc_bind Hat kids' Hkids'. injection Hat as <-.
    destruct (Hlist (bch n) kids kids' acc Hkids Hl2 Hkids' Hg) as (more & Hw & Hgm & Hr).
    rewrite Hw. cbn [bind].
    exists more. split; [reflexivity|]. split; [exact Hgm|].
    intros rest Hgr. rewrite to_treeF_unfold. cbn [mkp fp_back fp_inl fp_h lookup_id].
    rewrite Hget. cbn [bind]. rewrite Hb, Hnf, Hnl, Hk. cbn [bind].
    rewrite (Hr rest Hgr). reflexivity.
Qed.

Lemma node_all f : node_stmt f.
Proof.
  induction f as [|f IH]; [|exact (node_step f IH)].
  intros i t t' acc Ht. cbn [to_tree] in Ht. discriminate.
Qed.
End Tree.

Theorem tree_phase : forall (src : bytes) (h : heap) (t : tree)
    (IC : list seg -> result (list tree)) (inlF : fstate -> list seg -> result (list tree * fstate)),
  let fs0 := {| fs_defs := None; fs_count := 0; fs_links := [] |} in
  plain h ->
  (forall i n, nth_error h i = Some n -> block_has_inlines n = true -> bch n = []) ->
  to_tree (S (length h)) src h 0%nat = Ok t ->
  tree_lines_ok src t = true ->
  (forall lines, lines_ok src lines -> inlF fs0 lines = (ts <- IC lines ;; Ok (ts, fs0))) ->
  (exists t', attach_inlines IC t = Ok t') ->
  (w <- walk_blocks inlF (S (length h)) h 0%nat fs0 [] ;;
   let '(fs, kids) := w in
   p <- ast_transform h None fs kids ;;
   to_treeF (S (length (fp_h p))) src p 0%nat) = attach_inlines IC t.
Proof.
  intros src h t IC inlF fs0 Hplain Hleaf Ht Hl HinlF [t' Hat].
  assert (Hg0 : good h IC []) by (intros j ts []).
  destruct (node_all src h IC inlF Hplain Hleaf HinlF (S (length h)) 0%nat t t' [] Ht Hl Hat Hg0)
    as (more & Hw & Hgm & Hr).
  cbn [app] in Hw, Hgm, Hr. fold fs0 in Hw. rewrite Hw. cbn [bind]. unfold ast_transform. cbn [bind fp_h].
  specialize (Hr []). rewrite app_nil_r in Hr. rewrite Hat. exact (Hr Hgm).
Qed.
