(* C02 / C04: the link destination scanner (model/LinkDest.v, parser/link.go
   parseLinkDestination) reads the destination md_of writes, in both spellings. *)
Require Import GM.model.Base GM.model.Util GM.model.ListItem GM.model.LinkDest GM.model.SpecDoc.
From Coq Require Import ZArith Lia ZifyBool ZifyNat ZifyN.
Open Scope Z_scope.

Section WithTables.
Variable space_table punct_table : list N.
Hypothesis sp32 : is_space space_table 32%N = true.
(* no destination character of the generator's alphabet is white space *)
Hypothesis dest_not_space : forall c, dest_char c = true -> is_space space_table c = false.
Notation P := (parse_link_destination space_table punct_table).

(* ---- auxiliary facts ---- *)
Lemma dest_char_ne (c : N) : dest_char c = true ->
  c <> 92%N /\ c <> 40%N /\ c <> 41%N /\ c <> 60%N.
Proof.
  unfold dest_char, lower. cbn [existsb]. intros H. lia.
Qed.

Lemma zlen_cons (c : N) (l : bytes) : zlen (c :: l) = zlen l + 1.
Proof. unfold zlen. cbn [length]. lia. Qed.

Lemma zfirst_app_len (d x : bytes) (n : Z) : n = zlen d -> zfirst n (d ++ x) = d.
Proof.
  intros ->. unfold zfirst, zlen. rewrite Nat2Z.id.
  rewrite firstn_app, Nat.sub_diag, firstn_all. cbn [firstn]. apply app_nil_r.
Qed.

Lemma P_bare (c : N) (r : bytes) : c <> 60%N ->
  P (c :: r) =
  (let i := bare_end space_table punct_table (S (length (c :: r))) (c :: r) 0 0 in
   if i =? 0 then None else Some (zfirst i (c :: r), i)).
Proof.
  intros Hc. unfold parse_link_destination.
  destruct c as [|p]; [reflexivity|].
  do 6 (destruct p as [p|p|]; try reflexivity).
  exfalso. apply Hc. reflexivity.
Qed.

Lemma P_angle (r : bytes) :
  P (60%N :: r) =
  match angle_close punct_table (S (length (60%N :: r))) r 1 with
  | Some i => Some (zfirst (i - 1) r, i + 1)
  | None => None
  end.
Proof. reflexivity. Qed.

Lemma bare_stop (f : nat) (stop : N) (rest : bytes) (i : Z) :
  (stop = 32%N \/ stop = 41%N) ->
  bare_end space_table punct_table (S f) (stop :: rest) i 0 = i.
Proof.
  intros [-> | ->]; destruct rest as [|x r]; cbn [bare_end].
  - change (N.eqb 32 40) with false. change (N.eqb 32 41) with false.
    cbv iota. rewrite sp32. reflexivity.
  - change (N.eqb 32 92) with false. cbn [andb].
    change (N.eqb 32 40) with false. change (N.eqb 32 41) with false.
    cbv iota. rewrite sp32. reflexivity.
  - reflexivity.
  - reflexivity.
Qed.

Lemma bare_scan (d : bytes) : forall (fuel : nat) (i : Z) (stop : N) (rest : bytes),
  (length d < fuel)%nat -> forallb dest_char d = true ->
  (stop = 32%N \/ stop = 41%N) ->
  bare_end space_table punct_table fuel (d ++ stop :: rest) i 0 = i + zlen d.
Proof.
  induction d as [|c d' IH]; intros fuel i stop rest Hf Hd Hs.
  - destruct fuel as [|f]; [cbn [length] in Hf; lia|].
    cbn [app]. rewrite bare_stop by exact Hs. unfold zlen. cbn [length]. lia.
  - destruct fuel as [|f]; [cbn [length] in Hf; lia|].
    cbn [forallb] in Hd. apply andb_prop in Hd. destruct Hd as [Hc Hd].
    pose proof (dest_char_ne c Hc) as (H92 & H40 & H41 & _).
    pose proof (dest_not_space c Hc) as Hsp.
    cbn [app].
    destruct (d' ++ stop :: rest) as [|x r] eqn:E.
    + exfalso. symmetry in E. exact (app_cons_not_nil _ _ _ E).
    + cbn [bare_end].
      rewrite (proj2 (N.eqb_neq c 92) H92). cbn [andb].
      rewrite (proj2 (N.eqb_neq c 40) H40), (proj2 (N.eqb_neq c 41) H41), Hsp.
      rewrite <- E. rewrite IH; [|cbn [length] in Hf; lia|exact Hd|exact Hs].
      rewrite zlen_cons. lia.
Qed.

Lemma angle_scan (d : bytes) : forall (fuel : nat) (i : Z) (rest : bytes),
  (length d < fuel)%nat ->
  (forall c, In c d -> c <> 62%N /\ c <> 92%N) ->
  angle_close punct_table fuel (d ++ 62%N :: rest) i = Some (i + zlen d).
Proof.
  induction d as [|c d' IH]; intros fuel i rest Hf Hd.
  - destruct fuel as [|f]; [cbn [length] in Hf; lia|].
    cbn [app]. unfold zlen. cbn [length]. rewrite Z.add_0_r.
    destruct rest as [|x r]; reflexivity.
  - destruct fuel as [|f]; [cbn [length] in Hf; lia|].
    destruct (Hd c (or_introl eq_refl)) as [H62 H92].
    cbn [app].
    destruct (d' ++ 62%N :: rest) as [|x r] eqn:E.
    + exfalso. symmetry in E. exact (app_cons_not_nil _ _ _ E).
    + cbn [angle_close].
      rewrite (proj2 (N.eqb_neq c 92) H92). cbn [andb].
      rewrite (proj2 (N.eqb_neq c 62) H62).
      rewrite <- E. rewrite IH; [|cbn [length] in Hf; lia|].
      * rewrite zlen_cons. f_equal. lia.
      * intros c' Hin. apply Hd. right. exact Hin.
Qed.

Lemma angle_none (d : bytes) : forall (fuel : nat) (i : Z),
  (forall c, In c d -> c <> 62%N /\ c <> 92%N) ->
  angle_close punct_table fuel d i = None.
Proof.
  induction d as [|c d' IH]; intros fuel i Hd.
  - destruct fuel; reflexivity.
  - destruct fuel as [|f]; [reflexivity|].
    destruct (Hd c (or_introl eq_refl)) as [H62 H92].
    assert (Hd' : forall c', In c' d' -> c' <> 62%N /\ c' <> 92%N)
      by (intros c' Hin; apply Hd; right; exact Hin).
    destruct d' as [|x r].
    + cbn [angle_close]. rewrite (proj2 (N.eqb_neq c 62) H62). reflexivity.
    + cbn [angle_close].
      rewrite (proj2 (N.eqb_neq c 92) H92). cbn [andb].
      rewrite (proj2 (N.eqb_neq c 62) H62).
      apply IH. exact Hd'.
Qed.

(* bare spelling: a non-empty destination over the alphabet, ended by a blank or by the closing
   parenthesis of the inline link *)
Theorem bare_destination (d rest : bytes) (stop : N) :
  d <> [] -> forallb dest_char d = true -> (stop = 32%N \/ stop = 41%N) ->
  P (d ++ stop :: rest) = Some (d, zlen d).
Proof.
  intros Hne Hd Hs.
  destruct d as [|c d']; [congruence|].
  pose proof Hd as Hd0. cbn [forallb] in Hd0. apply andb_prop in Hd0.
  destruct Hd0 as [Hc _].
  pose proof (dest_char_ne c Hc) as (_ & _ & _ & H60).
  change ((c :: d') ++ stop :: rest) with (c :: (d' ++ stop :: rest)).
  rewrite (P_bare c _ H60).
  change (c :: (d' ++ stop :: rest)) with ((c :: d') ++ stop :: rest).
  cbv zeta.
  rewrite bare_scan; [|rewrite app_length; cbn [length]; lia|exact Hd|exact Hs].
  rewrite Z.add_0_l.
  destruct (Z.eqb_spec (zlen (c :: d')) 0) as [Hz|Hz].
  - rewrite zlen_cons in Hz. unfold zlen in Hz. lia.
  - rewrite zfirst_app_len by reflexivity. reflexivity.
Qed.

(* pointy-bracket spelling: anything without '>', '<', backslash or line ending *)
Theorem angle_destination (d rest : bytes) :
  (forall c, In c d -> c <> 62%N /\ c <> 92%N /\ c <> 10%N) ->
  P (60%N :: d ++ 62%N :: rest) = Some (d, zlen d + 2).
Proof.
  intros Hd. rewrite P_angle.
  rewrite angle_scan.
  - rewrite zfirst_app_len by lia. f_equal. f_equal. lia.
  - cbn [length]. rewrite app_length. lia.
  - intros c Hin. destruct (Hd c Hin) as (H62 & H92 & _). split; assumption.
Qed.

(* an unclosed pointy bracket is no destination *)
Theorem angle_unclosed (d : bytes) :
  (forall c, In c d -> c <> 62%N /\ c <> 92%N) ->
  P (60%N :: d) = None.
Proof.
  intros Hd. rewrite P_angle. rewrite angle_none by exact Hd. reflexivity.
Qed.

(* nothing before the closing parenthesis: no destination (the empty inline link "()" is
   handled by the caller) *)
Theorem empty_destination (rest : bytes) : P (41%N :: rest) = None /\ P (32%N :: rest) = None.
Proof.
  split.
  - rewrite P_bare by discriminate. cbv zeta.
    rewrite bare_stop by (right; reflexivity). reflexivity.
  - rewrite P_bare by discriminate. cbv zeta.
    rewrite bare_stop by (left; reflexivity). reflexivity.
Qed.
End WithTables.
