(* Helper library for TypoDefWfBlk.v, part C: Open and Continue of the ten block parsers. *)
Require Import GM.model.Base GM.model.Util GM.model.Reader GM.model.ReaderSpec GM.model.Blocks GM.model.ListItem
               GM.model.LeafBlocks GM.model.CodeBlock GM.model.LinkDest GM.model.Regex GM.model.HtmlWriter
               GM.model.Html GM.model.HtmlSpec GM.model.BlockParse GM.model.InlineParse GM.model.TypoDefParseD.
Require Import GM.proofs.ReaderProofs GM.proofs.BlockRangeProofs GM.proofs.ParseInv
               GM.proofs.ParseBlocksRangeA GM.proofs.TypoDefWfBlkB GM.proofs.TypoDefWfBlkT.
From Coq Require Import ZArith Lia Sorted.
Open Scope Z_scope.

Section C.
Variable space_table punct_table : list N.
Variable norm : bytes -> bytes.
Variable re_t1o re_t1c re_t2 re_t3 re_t4 re_t5 re_t6 re_t7 : re.
Variable allowed_tags : list bytes.
Variable src : bytes.
Hypothesis sp32 : is_space space_table 32%N = true.
Set Default Proof Using "All".

Notation SInv := (SInv space_table src).
Notation HI := (HI space_table src).
Notation nodeP := (nodeP space_table src).
Notation heapS := (heapS space_table src).
Notation Jinv := (Jinv src).
Notation openS := (openS src).
Notation pline := (pline space_table src).
Notation oline := (oline src).
Notation fin_lines := (fin_lines src).

(* ---------- white space ---------- *)
Lemma is_blank_app a b : Reader.is_blank space_table (a ++ b) = (Reader.is_blank space_table a && Reader.is_blank space_table b)%bool.
Proof.
  induction a as [|c r IH]; cbn [app Reader.is_blank]; [reflexivity|]. rewrite IH. apply andb_assoc.
Qed.
Lemma is_blank_spaces p : Reader.is_blank space_table (spaces_n p) = true.
Proof.
  unfold spaces_n. induction (Z.to_nat p) as [|k IH]; cbn [repeat Reader.is_blank]; [reflexivity|].
  rewrite sp32, IH. reflexivity.
Qed.
Lemma tls_skip v : Reader.is_blank space_table (skipn (Z.to_nat (trim_left_space_len space_table v)) v) = Reader.is_blank space_table v.
Proof.
  induction v as [|c r IH]; cbn [trim_left_space_len]; [reflexivity|].
  destruct (is_space space_table c) eqn:E.
  - pose proof (br_tls_range space_table r). replace (Z.to_nat (1 + trim_left_space_len space_table r)) with (S (Z.to_nat (trim_left_space_len space_table r))) by lia.
    cbn [skipn Reader.is_blank]. rewrite E. cbn [andb]. exact IH.
  - reflexivity.
Qed.
Lemma tls_lt_nonblank v : Reader.is_blank space_table v = false -> trim_left_space_len space_table v < zlen v.
Proof.
  induction v as [|c r IH]; cbn [trim_left_space_len Reader.is_blank]; [discriminate|].
  rewrite zlen_cons. pose proof (zlen_nonneg r) as Hr. destruct (is_space space_table c); cbn [andb]; intros Hb; [apply IH in Hb|]; lia.
Qed.
Lemma tls_lt_nonblank_inv v : trim_left_space_len space_table v < zlen v -> Reader.is_blank space_table v = false.
Proof.
  induction v as [|c r IH]; cbn [trim_left_space_len Reader.is_blank]; [unfold zlen; cbn [length]; lia|].
  rewrite zlen_cons. destruct (is_space space_table c); cbn [andb]; intros Hb; [apply IH; lia|reflexivity].
Qed.
Lemma is_blank_rev v : Reader.is_blank space_table (rev v) = Reader.is_blank space_table v.
Proof.
  induction v as [|c r IH]; [reflexivity|]. cbn [rev]. rewrite is_blank_app, IH. cbn [Reader.is_blank].
  rewrite andb_true_r. apply andb_comm.
Qed.

Lemma sub_skip a k b : 0 <= a -> 0 <= k -> sub src (a + k) b = skipn (Z.to_nat k) (sub src a b).
Proof.
  intros Ha Hk. unfold sub. rewrite skipn_firstn_comm. rewrite skipn_skipn_nat.
  f_equal; [lia|]. f_equal. lia.
Qed.
Lemma sub_take a b k : 0 <= a -> 0 <= k -> k <= b - a -> sub src a (b - k) = firstn (Z.to_nat (b - a - k)) (sub src a b).
Proof.
  intros Ha Hk Hle. unfold sub. rewrite firstn_firstn. f_equal. lia.
Qed.

Lemma firstn_rev_skipn {A} (l : list A) k : firstn (length l - k) l = rev (skipn k (rev l)).
Proof. rewrite skipn_rev, rev_involutive. reflexivity. Qed.

(* trimming keeps a byte that is not white space *)
Lemma trs_keep v : Reader.is_blank space_table v = false ->
  trim_right_space_len space_table v < zlen v /\
  Reader.is_blank space_table (firstn (Z.to_nat (zlen v - trim_right_space_len space_table v)) v) = false.
Proof.
  intros Hb. unfold trim_right_space_len. rewrite <- is_blank_rev in Hb.
  pose proof (tls_lt_nonblank _ Hb) as Hlt. pose proof (br_tls_range space_table (rev v)) as Hr.
  unfold zlen in Hlt, Hr |- *. rewrite rev_length in Hlt, Hr. split; [exact Hlt|].
  replace (Z.to_nat (Z.of_nat (length v) - trim_left_space_len space_table (rev v)))
    with (length v - Z.to_nat (trim_left_space_len space_table (rev v)))%nat by lia.
  rewrite firstn_rev_skipn. rewrite is_blank_rev, tls_skip. exact Hb.
Qed.


(* ---------- state-level wrappers ---------- *)
Lemma R2_bounds r : R2 src r -> 0 <= s_start (r_pos r) <= s_stop (r_pos r) /\ s_stop (r_pos r) <= zlen src.
Proof. intros [Hinv [Hsrc _]]. pose proof (inv_bounds r Hinv). rewrite Hsrc in *. lia. Qed.

Lemma HI_mono b b' h c A D N : HI b h c A D N -> b <= b' -> HI b' h c A D N.
Proof. intros [H1 H2 H3 H4 H5] Hle. constructor; auto. eapply Bnd_mono; eauto. Qed.

Lemma HI_ctx b h c c' A D N : HI b h c A D N -> c_tmp_para c' = c_tmp_para c -> c_fence c' = c_fence c ->
  c_refs c' = c_refs c -> HI b h c' A D N.
Proof.
  intros [H1 H2 H3 H4 H5] E1 E2 E3. constructor; auto; [eapply openS_ctx; eauto|rewrite E3; exact H5].
Qed.

Lemma HI_alloc b h c A D N n : HI b h c A D N -> nodeP n -> bpar n = None -> bch n = [] ->
  (bk n = BParagraph -> forall sg, In sg (blines n) -> s_stop sg <= b) -> HI b (h ++ [n]) c A D N.
Proof.
  intros [H1 H2 H3 H4 H5] Hn P C Hb. constructor; auto.
  - apply Bnd_app; assumption.
  - apply heapS_app; assumption.
  - apply Jinv_app; assumption.
  - apply openS_app; assumption.
Qed.

Lemma SInv_reader s r' A D N : SInv FF s A D N -> R2 src r' -> Rle (s_r s) r' -> SInv FF (st_r s r') A D N.
Proof. intros [HR HH] HR' [_ Hle]. split; [exact HR'|]. cbn. eapply HI_mono; eauto. Qed.

Lemma SInv_FW s A D N : SInv FF s A D N -> SInv WW s A D N.
Proof.
  intros [HR HH]. split; [apply R2_RW; exact HR|]. cbn in *. eapply HI_mono; [exact HH|].
  pose proof (R2_bounds _ HR). lia.
Qed.

Lemma SInv_weak s r' A D N : SInv FF s A D N -> RW src r' -> s_stop (r_pos (s_r s)) <= s_stop (r_pos r') ->
  SInv WW (st_r s r') A D N.
Proof.
  intros [HR HH] HW Hle. split; [exact HW|]. cbn in *. eapply HI_mono; [exact HH|].
  pose proof (R2_bounds _ HR). lia.
Qed.

Lemma peek_s_ok s s' l sg A D N : SInv FF s A D N -> peek_line_s s = Ok (s', l, sg) ->
  SInv FF s' A D N /\ s_h s' = s_h s /\ s_c s' = s_c s /\ r_pos (s_r s') = r_pos (s_r s) /\ sg = r_pos (s_r s) /\
  l = (if r_in_range (s_r s) then Some (r_view (s_r s)) else None) /\ r_in_range (s_r s') = r_in_range (s_r s) /\
  r_src (s_r s') = src.
Proof.
  intros HS H. unfold peek_line_s in H. bind_inv H x Ex. destruct x as [[r1 l1] sg1]. injection H as <- <- <-.
  destruct (peek_R2 src _ _ _ _ (proj1 HS) Ex) as [HR1 [Hle [Hp [Hsg [Hl Hin]]]]].
  csplit; auto. - apply SInv_reader; assumption. - apply HR1.
Qed.

Lemma loff_s_ok s s' o A D N : SInv FF s A D N -> line_offset_s s = Ok (s', o) ->
  SInv FF s' A D N /\ s_h s' = s_h s /\ s_c s' = s_c s /\ r_pos (s_r s') = r_pos (s_r s) /\
  r_in_range (s_r s') = r_in_range (s_r s).
Proof.
  intros HS H. unfold line_offset_s in H. bind_inv H x Ex. destruct x as [r1 o1]. injection H as <- <-.
  destruct (loff_R2 src _ _ _ (proj1 HS) Ex) as [HR1 [Hle [Hp Hin]]].
  csplit; auto. apply SInv_reader; assumption.
Qed.

Lemma adv_s_weak s n s' A D N : SInv FF s A D N -> advance_s s n = Ok s' ->
  SInv WW s' A D N /\ s_h s' = s_h s /\ s_c s' = s_c s.
Proof.
  intros HS H. unfold advance_s in H. bind_inv H r1 E1. injection H as <-.
  destruct HS as [[Hinv [Hsrc Hpad]] HH].
  destruct (adv_RW src _ _ _ Hinv Hsrc E1) as [HW Hle]. csplit; auto.
  apply SInv_weak; [split; [exact (conj Hinv (conj Hsrc Hpad))|exact HH]|exact HW|exact Hle].
Qed.

Lemma adv_s_full s n s' A D N : SInv FF s A D N -> 0 <= n -> advance_s s n = Ok s' ->
  SInv FF s' A D N /\ s_h s' = s_h s /\ s_c s' = s_c s.
Proof.
  intros HS Hn H. unfold advance_s in H. bind_inv H r1 E1. injection H as <-.
  destruct (adv_R2 src _ _ _ (proj1 HS) Hn E1) as [HR Hle]. csplit; auto. apply SInv_reader; assumption.
Qed.

(* the view of the current line, when there is one *)
Lemma line_view s l : SInv FF s [] [] [] \/ True -> l = (if r_in_range (s_r s) then Some (r_view (s_r s)) else None) ->
  forall v, l = Some v -> r_in_range (s_r s) = true /\ v = r_view (s_r s).
Proof. intros _ Hl v E. eapply peeked_some; eassumption. Qed.

Lemma new_node_eq s n : new_node s n = (st_h s (s_h s ++ [n]), length (s_h s)).
Proof. reflexivity. Qed.

(* ---------- what Open leaves behind ---------- *)
(* parent conditions, common to all parsers *)
Definition open_post (bp : bparser) (s s' : st) (o : open_res) (A D N : list (nat * bparser)) : Prop :=
  c_arr (s_c s') = c_arr (s_c s) /\ c_len (s_c s') = c_len (s_c s) /\
  match o with
  | None => SInv FF s' A D N /\ s_h s' = s_h s
  | Some (node, hc, rp) =>
    node = length (s_h s) /\
    (exists n, s_h s' = s_h s ++ [n] /\ bpar n = None /\ bch n = [] /\ bk n = pkind bp /\
               (bp = PATX -> fin_lines (blines n))) /\
    SInv WW s' A D N /\
    (hc = true -> container (pkind bp) = true /\ SInv FF s' A D N) /\
    rp = false /\ bp <> PSetext
  end.

Lemma cnt_not_html n : bk n <> BHTML -> cnt n = container (bk n).
Proof. intros H. destruct (not_html_d n H) as [D1 [_ D3]]. unfold cnt. rewrite D1, D3, !Bool.orb_false_r. reflexivity. Qed.
Lemma cnt_pkind n bp : bk n = pkind bp -> bp <> PHTML -> cnt n = container (pkind bp).
Proof. intros K Hbp. rewrite cnt_not_html; [rewrite K; reflexivity|]. rewrite K. destruct bp; cbn; congruence. Qed.
Lemma cnt_container n : container (bk n) = true -> cnt n = true.
Proof. unfold cnt. intros ->. reflexivity. Qed.

(* goals about the node kinds of the extension, for a node of a kind other than BHTML *)
Ltac dsolve := try (unfold is_dt, is_dl, is_dd; cbn [mknode set_lines set_seg set_i2 set_blank set_tight bk b_i1 b_i2 bkind_eqb andb]; intros; (discriminate || lia)).

Lemma nodeP_plain k i1 : k <> BHeading -> k <> BParagraph -> k <> BHTML -> (k = BListItem -> 0 <= i1) -> nodeP (mknode k i1).
Proof.
  intros H1 H2 H0 H3. destruct (not_html_d (mknode k i1) H0) as [D1 [D2 D3]].
  constructor; cbn [mknode blines b_seg bk b_i1 b_i2 bch]; try congruence; auto; try discriminate; try lia.
  intros ->. split; constructor.
Qed.

Lemma SInv_alloc_W s r' n A D N : SInv FF s A D N -> RW src r' -> s_stop (r_pos (s_r s)) <= s_stop (r_pos r') ->
  nodeP n -> bpar n = None -> bch n = [] ->
  (bk n = BParagraph -> forall sg, In sg (blines n) -> s_stop sg <= s_stop (r_pos r')) ->
  forall c', c_tmp_para c' = c_tmp_para (s_c s) -> c_fence c' = c_fence (s_c s) -> c_refs c' = c_refs (s_c s) ->
  SInv WW {| s_h := s_h s ++ [n]; s_c := c'; s_r := r' |} A D N.
Proof.
  intros HS HW Hle Hn P C Hb c' E1 E2 E3. destruct (SInv_weak s r' A D N HS HW Hle) as [_ HH].
  split; [exact HW|]. cbn in *. eapply HI_ctx; [|eassumption..]. apply HI_alloc; assumption.
Qed.

Lemma SInv_alloc_F s r' n A D N : SInv FF s A D N -> R2 src r' -> Rle (s_r s) r' ->
  nodeP n -> bpar n = None -> bch n = [] -> bk n <> BParagraph ->
  forall c', c_tmp_para c' = c_tmp_para (s_c s) -> c_fence c' = c_fence (s_c s) -> c_refs c' = c_refs (s_c s) ->
  SInv FF {| s_h := s_h s ++ [n]; s_c := c'; s_r := r' |} A D N.
Proof.
  intros HS HR Hle Hn P C Hk c' E1 E2 E3. destruct (SInv_reader s r' A D N HS HR Hle) as [_ HH].
  split; [exact HR|]. cbn in *. eapply HI_ctx; [|eassumption..]. apply HI_alloc; auto. congruence.
Qed.


Ltac node_cbn := cbn [mknode set_lines set_seg set_i2 set_blank set_tight blines b_seg bk b_i1 bch bpar].

Lemma sorted_single (sg : seg) : sorted_segs [sg].
Proof. constructor; constructor. Qed.

(* ---------- paragraph.go Open ---------- *)
Lemma paragraph_open_ok s s' o A D N : SInv FF s A D N ->
  paragraph_open space_table s = Ok (s', o) -> open_post PParagraph s s' o A D N.
Proof.
  intros HS H. unfold paragraph_open in H.
  bind_inv H x Ex. destruct x as [[s1 l] sg].
  destruct (peek_s_ok _ _ _ _ _ _ _ HS Ex) as [HS1 [Eh1 [Ec1 [Ep1 [Esg [El [Ein Esrc1]]]]]]].
  bind_inv H sg' Et. unfold src_of in Et. rewrite Esrc1 in Et.
  pose proof (R2_bounds _ (proj1 HS)) as Hb.
  unfold seg_trim_left_space in Et. subst sg. rewrite slice_sub in Et by lia. cbn [bind] in Et. injection Et as <-.
  set (v := sub src (s_start (r_pos (s_r s))) (s_stop (r_pos (s_r s)))) in *.
  pose proof (br_tls_range space_table v) as Htl.
  assert (zlen v = s_stop (r_pos (s_r s)) - s_start (r_pos (s_r s))) as Hzv by (apply ReaderProofs.zlen_sub; lia).
  destruct (seg_is_empty _) eqn:Eemp.
  - injection H as <- <-. unfold open_post. rewrite Ec1. csplit; auto.
  - unfold new_node, halloc in H. cbv beta iota zeta in H. bind_inv H s3 Ea. injection H as <- <-.
    unfold advance_s in Ea. cbn [st_h s_r s_h s_c] in Ea. bind_inv Ea r3 Er. injection Ea as <-.
    destruct HS1 as [HR1 HH1]. destruct (adv_RW src _ _ _ (proj1 HR1) Esrc1 Er) as [HW Hle].
    unfold seg_is_empty in Eemp. cbn [mkseg s_start s_stop s_pad] in Eemp.
    assert (s_start (r_pos (s_r s)) + trim_left_space_len space_table v < s_stop (r_pos (s_r s))) as Hne.
    { destruct (Z.leb_spec (s_stop (r_pos (s_r s))) (s_start (r_pos (s_r s)) + trim_left_space_len space_table v)); [discriminate|lia]. }
    set (sg' := mkseg (s_start (r_pos (s_r s)) + trim_left_space_len space_table v) (s_stop (r_pos (s_r s)))) in *.
    assert (pline sg') as Hpl.
    { unfold pline, seg_inr, sg'. cbn [mkseg s_start s_stop s_pad s_fnl]. csplit; try lia; try reflexivity.
      rewrite sub_skip by lia. fold v. rewrite tls_skip. apply tls_lt_nonblank_inv. lia. }
    assert (nodeP (set_lines (mknode BParagraph 0) [sg'])) as Hn.
    { constructor; node_cbn; try discriminate; auto.
      - constructor; [apply Hpl|constructor].
      - intros _. csplit; [constructor; [exact Hpl|constructor]|apply sorted_single|discriminate]. }
    assert (bk (set_lines (mknode BParagraph 0) [sg']) = BParagraph ->
            forall sg, In sg (blines (set_lines (mknode BParagraph 0) [sg'])) -> s_stop sg <= s_stop (r_pos r3)) as Hbn.
    { node_cbn. intros _ sg [<-|[]]. unfold sg'. cbn [mkseg s_stop]. rewrite Ep1 in Hle. exact Hle. }
    unfold open_post. cbn [st_h st_r st_c s_c s_h s_r].
    split; [rewrite Ec1; reflexivity|]. split; [rewrite Ec1; reflexivity|].
    split; [rewrite Eh1; reflexivity|].
    split; [eexists; rewrite Eh1; csplit; [reflexivity|reflexivity|reflexivity|reflexivity|discriminate]|].
    split; [apply (SInv_alloc_W s1 r3 _ A D N (conj HR1 HH1) HW Hle Hn eq_refl eq_refl Hbn); reflexivity|].
    split; [discriminate|]. split; [reflexivity|discriminate].
Qed.


(* ---------- generic state changes, any flavour ---------- *)
Lemma SInv_alloc fl s n A D N : SInv fl s A D N -> nodeP n -> bpar n = None -> bch n = [] -> bk n <> BParagraph ->
  SInv fl (st_h s (s_h s ++ [n])) A D N.
Proof.
  intros [HR HH] Hn P C Hk. split; [exact HR|]. cbn [st_h s_h s_c s_r]. apply HI_alloc; auto. congruence.
Qed.

Lemma SInv_ctx fl s c' A D N : SInv fl s A D N -> c_tmp_para c' = c_tmp_para (s_c s) -> c_fence c' = c_fence (s_c s) ->
  c_refs c' = c_refs (s_c s) -> SInv fl (st_c s c') A D N.
Proof. intros [HR HH] E1 E2 E3. split; [exact HR|]. cbn [st_c s_h s_c s_r]. eapply HI_ctx; eauto. Qed.

Lemma SInv_fence fl s v A D N : SInv fl s A D N -> (forall ch i l n, v = Some (ch, i, l, n) -> 0 <= i) ->
  SInv fl (st_c s (cset_fence (s_c s) v)) A D N.
Proof.
  intros [HR [H1 H2 H3 H4 H5]] Hv. split; [exact HR|]. cbn [st_c s_h s_c s_r]. constructor; auto.
  apply openS_fence; assumption.
Qed.

(* finishing an Open that allocated node n on top of state s1 (same heap and context lists as s) *)
Lemma open_post_some bp s s1 s' n hc A D N : s' = st_h s1 (s_h s1 ++ [n]) ->
  s_h s1 = s_h s -> c_arr (s_c s1) = c_arr (s_c s) -> c_len (s_c s1) = c_len (s_c s) ->
  bpar n = None -> bch n = [] -> bk n = pkind bp -> (bp = PATX -> fin_lines (blines n)) -> bp <> PSetext ->
  SInv WW (st_h s1 (s_h s1 ++ [n])) A D N ->
  (hc = true -> container (pkind bp) = true /\ SInv FF (st_h s1 (s_h s1 ++ [n])) A D N) ->
  open_post bp s s' (Some (length (s_h s1), hc, false)) A D N.
Proof.
  intros -> Eh Ea El P C K Fa Hs HW HF. unfold open_post. cbn [st_h s_c s_h]. csplit; auto.
  - congruence.
  - exists n. rewrite Eh. csplit; auto.
Qed.

(* ---------- thematic_break.go Open ---------- *)
Lemma thematic_open_ok s s' o A D N : SInv FF s A D N ->
  thematic_open space_table s = Ok (s', o) -> open_post PThematic s s' o A D N.
Proof.
  intros HS H. unfold thematic_open in H.
  bind_inv H x Ex. destruct x as [[s1 l] sg].
  destruct (peek_s_ok _ _ _ _ _ _ _ HS Ex) as [HS1 [Eh1 [Ec1 _]]].
  bind_inv H y Ey. destruct y as [s2 off].
  destruct (loff_s_ok _ _ _ _ _ _ HS1 Ey) as [HS2 [Eh2 [Ec2 _]]].
  destruct (is_thematic_break space_table (line_of l) off).
  - bind_inv H s3 Ea. destruct (adv_s_weak _ _ _ _ _ _ HS2 Ea) as [HS3 [Eh3 Ec3]].
    unfold new_node, halloc in H. cbv beta iota zeta in H. injection H as <- <-.
    eapply open_post_some with (s1 := s3); try reflexivity; try congruence; try discriminate.
    apply SInv_alloc; auto; try discriminate. apply nodeP_plain; discriminate.
  - injection H as <- <-. unfold open_post. rewrite Ec2, Ec1. csplit; auto. congruence.
Qed.

(* ---------- atx_heading.go Open ---------- *)
Lemma atx_open_nil pos : atx_open space_table [] pos = Ok None.
Proof.
  unfold atx_open. destruct (pos <? 0); [reflexivity|]. cbv zeta.
  replace (zskip pos (@nil BinNums.N)) with (@nil BinNums.N) by (unfold zskip; destruct (Z.to_nat pos); reflexivity).
  cbn [count_byte]. rewrite Z.add_0_r, Z.eqb_refl. reflexivity.
Qed.

Lemma atx_open_s_ok s s' o A D N : SInv FF s A D N ->
  atx_open_s space_table s = Ok (s', o) -> open_post PATX s s' o A D N.
Proof.
  intros HS H. unfold atx_open_s in H.
  bind_inv H x Ex. destruct x as [[s1 l] sg].
  destruct (peek_s_ok _ _ _ _ _ _ _ HS Ex) as [HS1 [Eh1 [Ec1 [Ep1 [Esg [El [Ein Esrc1]]]]]]].
  bind_inv H a Ea. destruct a as [[level body]|].
  2: { injection H as <- <-. unfold open_post. rewrite Ec1. csplit; auto. }
  unfold new_node, halloc in H. cbv beta iota zeta in H. injection H as <- <-.
  pose proof (atx_open_level space_table _ _ _ _ Ea) as Hlv.
  set (lines := match body with None => [] | Some (a, b) => [mkseg (s_start sg + a - s_pad sg) (s_start sg + b - s_pad sg)] end) in *.
  assert (Forall oline lines /\ Forall (seg_inr src) lines) as [Hol Hin].
  { destruct body as [[a b]|]; [|split; constructor]. subst lines.
    destruct l as [v|]; [|cbn [line_of] in Ea; rewrite atx_open_nil in Ea; discriminate].
    destruct (peeked_some _ _ El v eq_refl) as [Hir Hv]. cbn [line_of] in Ea.
    destruct (atx_open_in_range space_table _ _ _ _ _ Ea) as [_ [Hpa [Hab Hbl]]].
    destruct (atx_open_pos space_table _ _ _ _ _ Ea) as [Hp0 Hnth].
    pose proof (R2_bounds _ (proj1 HS)) as Hb. destruct HS as [[Hinv [Hsrc _]] _].
    rewrite Hv in Hnth, Hbl. rewrite view_spaces in Hnth. rewrite view_zlen in Hbl by exact Hinv.
    pose proof (view_idx_pad _ _ _ _ Hp0 Hnth ltac:(discriminate)) as Hpp. subst sg.
    assert (oline (mkseg (s_start (r_pos (s_r s)) + a - s_pad (r_pos (s_r s))) (s_start (r_pos (s_r s)) + b - s_pad (r_pos (s_r s))))) as Ho.
    { unfold oline. cbn [mkseg s_start s_stop s_pad s_fnl]. csplit; try lia; reflexivity. }
    split; constructor; [exact Ho|constructor| |constructor].
    unfold oline in Ho. unfold seg_inr. cbn [mkseg s_start s_stop s_pad s_fnl] in *. lia. }
  eapply open_post_some with (s1 := s1); try reflexivity; try congruence; try discriminate.
  - intros _. node_cbn. split; [exact Hol|]. destruct body as [[a b]|]; subst lines; [apply sorted_single|constructor].
  - apply SInv_alloc; [apply SInv_FW; exact HS1| |reflexivity|reflexivity|discriminate].
    constructor; node_cbn; try discriminate; auto.
Qed.

(* ---------- fcode_block.go Open ---------- *)
Lemma fenced_open_ok s s' o A D N : SInv FF s A D N ->
  fenced_open space_table s = Ok (s', o) -> open_post PFenced s s' o A D N.
Proof.
  intros HS H. unfold fenced_open in H.
  bind_inv H x Ex. destruct x as [[s1 l] sg].
  destruct (peek_s_ok _ _ _ _ _ _ _ HS Ex) as [HS1 [Eh1 [Ec1 [Ep1 [Esg [El [Ein Esrc1]]]]]]].
  bind_inv H a Ea. destruct a as [[[[ch indent] flen] info]|].
  2: { injection H as <- <-. unfold open_post. rewrite Ec1. csplit; auto. }
  unfold new_node, halloc in H. cbv beta iota zeta in H. injection H as <- <-.
  destruct (fence_open_pos space_table _ _ _ _ _ _ Ea) as [Hp0 Hnth].
  destruct (fence_open_in_range space_table _ _ _ _ _ _ (proj1 Hp0) Ea) as [_ [Hind [Hfl [_ Hinfo]]]].
  set (iseg := match info with None => None | Some (a, b) =>
                 if s_start sg - s_pad sg + a =? s_start sg - s_pad sg + b then None
                 else Some (mkseg (s_start sg - s_pad sg + a) (s_start sg - s_pad sg + b)) end) in *.
  assert (forall sg', iseg = Some sg' -> seg_inr src sg') as Hseg.
  { intros sg' E. destruct info as [[a b]|]; [|discriminate]. subst iseg.
    destruct (_ =? _); [discriminate|]. injection E as <-.
    destruct l as [v|]; [|cbn [line_of] in Hp0; unfold zlen in Hp0; cbn in Hp0; lia].
    destruct (peeked_some _ _ El v eq_refl) as [Hir Hv]. cbn [line_of] in *.
    pose proof (R2_bounds _ (proj1 HS)) as Hb. destruct HS as [[Hinv [Hsrc _]] _].
    rewrite Hv in Hnth, Hinfo, Hp0. rewrite view_spaces in Hnth. rewrite view_zlen in Hinfo, Hp0 by exact Hinv.
    assert (s_pad (r_pos (s_r s)) <= indent).
    { subst indent. destruct Hnth as [Hn|Hn]; eapply view_idx_pad; try exact Hn; try lia; discriminate. }
    subst sg. unfold seg_inr. cbn [mkseg s_start s_stop s_pad]. lia. }
  eapply open_post_some with (s1 := st_c s1 (cset_fence (s_c s1) (Some (ch, indent, flen, length (s_h s1))))); try reflexivity; try (cbn [st_c st_h st_r s_h s_c s_r cset_fence c_arr c_len]; congruence); try discriminate.
  - apply SInv_alloc; [| |reflexivity|reflexivity|discriminate].
    + apply SInv_fence; [apply SInv_FW; exact HS1|]. intros ch' i l' n' E. injection E as _ <- _ _. lia.
    + constructor; node_cbn; try discriminate; auto.
Qed.

(* ---------- code_block.go Open ---------- *)
Lemma code_open_ok s s' o A D N : SInv FF s A D N ->
  code_open space_table s = Ok (s', o) -> open_post PCodeBlock s s' o A D N.
Proof.
  intros HS H. unfold code_open in H. bind_inv H x Ex. destruct x as [[sg r]|].
  2: { injection H as <- <-. unfold open_post. csplit; auto. }
  unfold new_node, halloc in H. cbv beta iota zeta in H. injection H as <- <-.
  destruct (code_block_open_ok space_table src _ _ _ (proj1 HS) Ex) as [HW [Hle Hsg]].
  eapply open_post_some with (s1 := st_r s r); try reflexivity; try discriminate.
  apply SInv_alloc; [apply SInv_weak; assumption| |reflexivity|reflexivity|discriminate].
    constructor; node_cbn; try discriminate; auto.
Qed.

(* ---------- blockquote.go Open ---------- *)
Lemma bq_open_ok s s' o A D N : SInv FF s A D N ->
  bq_open s = Ok (s', o) -> open_post PBlockquote s s' o A D N.
Proof.
  intros HS H. unfold bq_open in H. bind_inv H x Ex. destruct x as [r ok].
  destruct (bq_process_total_ok src _ _ _ (proj1 HS) Ex) as [HR [Hle _]].
  pose proof (SInv_reader s r A D N HS HR Hle) as HS1.
  destruct ok.
  - unfold new_node, halloc in H. cbv beta iota zeta in H. injection H as <- <-.
    assert (SInv FF (st_h (st_r s r) (s_h (st_r s r) ++ [mknode BBlockquote 0])) A D N) as HF.
    { apply SInv_alloc; auto; try discriminate. apply nodeP_plain; discriminate. }
    eapply open_post_some with (s1 := st_r s r); try reflexivity; try discriminate.
    + apply SInv_FW. exact HF.
    + intros _. split; [reflexivity|exact HF].
  - injection H as <- <-. unfold open_post. csplit; auto.
Qed.


(* ---------- html_block.go Open ---------- *)
Lemma html_open_ok s s' o A D N : SInv FF s A D N ->
  html_open space_table re_t1o re_t2 re_t3 re_t4 re_t5 re_t6 re_t7 allowed_tags s = Ok (s', o) ->
  open_post PHTML s s' o A D N.
Proof.
  intros HS H. unfold html_open in H.
  bind_inv H x Ex. destruct x as [[s1 l] sg].
  destruct (peek_s_ok _ _ _ _ _ _ _ HS Ex) as [HS1 [Eh1 [Ec1 [Ep1 [Esg [El [Ein Esrc1]]]]]]].
  assert (open_post PHTML s s1 None A D N) as Hnone.
  { unfold open_post. rewrite Ec1. csplit; auto. }
  cbv zeta in H. destruct (c_boff (s_c s1) <? 0); [injection H as <- <-; exact Hnone|].
  bind_inv H c Ec. destruct (negb (N.eqb c 60)); [injection H as <- <-; exact Hnone|].
  bind_inv H lip Elip.
  match type of H with (if ?t =? 0 then _ else _) = _ => assert (Htyp : 0 <= t <= 7); [clear H|set (typ := t) in *] end.
  { repeat first [ match goal with |- context [if ?b then _ else _] => destruct b end
                 | match goal with |- context [match ?b with Some _ => _ | None => _ end] => destruct b end ]; lia. }
  destruct (typ =? 0); [injection H as <- <-; exact Hnone|].
  bind_inv H s2 Ea. destruct (adv_s_weak _ _ _ _ _ _ HS1 Ea) as [HS2 [Eh2 Ec2]].
  unfold new_node, halloc in H. cbv beta iota zeta in H. injection H as <- <-.
  eapply open_post_some with (s1 := s2); try reflexivity; try congruence; try discriminate.
  apply SInv_alloc; auto; try discriminate.
  constructor; node_cbn; try discriminate; auto.
  all: try (unfold is_dt, is_dl; cbn [set_lines mknode bk b_i1 b_i2 bkind_eqb andb]; intros E; lia).
  constructor; [|constructor]. subst sg. apply pos_inr. exact (proj1 HS).
Qed.

(* ---------- list.go Open ---------- *)
Lemma list_open_ok s parent s' o A D N : SInv FF s A D N ->
  list_open space_table s parent = Ok (s', o) -> open_post PList s s' o A D N.
Proof.
  intros HS H. unfold list_open in H. bind_inv H lastb Elast. cbv zeta in H.
  match type of H with (if ?b then _ else _) = _ => destruct b end.
  { injection H as <- <-. unfold open_post. cbn [st_c s_c s_h cset_skip c_arr c_len]. csplit; auto.
    apply SInv_ctx; auto. }
  bind_inv H x Ex. destruct x as [[s1 l] sg].
  destruct (peek_s_ok _ _ _ _ _ _ _ HS Ex) as [HS1 [Eh1 [Ec1 _]]].
  assert (open_post PList s s1 None A D N) as Hnone.
  { unfold open_post. rewrite Ec1. csplit; auto. }
  destruct (matches_list_item (line_of l) true) as [m typ].
  destruct (N.eqb typ 0); [injection H as <- <-; exact Hnone|].
  match type of H with (if ?b then _ else _) = _ => destruct b; [injection H as <- <-; exact Hnone|] end.
  bind_inv H mk Emk.
  unfold new_node, halloc in H. cbv beta iota zeta in H. injection H as <- <-.
  match goal with |- open_post _ _ (st_c (st_h _ (_ ++ [?n0])) _) _ _ _ _ => set (nd := n0) end.
  assert (nodeP nd /\ bpar nd = None /\ bch nd = [] /\ bk nd = BList) as [Hn [P [C K]]].
  { subst nd. destruct (-1 <? _); csplit; try reflexivity; constructor; node_cbn; try discriminate; auto. }
  assert (SInv FF (st_h (st_c s1 (cset_empty (s_c s1) false)) (s_h s1 ++ [nd])) A D N) as HF.
  { apply (SInv_alloc FF (st_c s1 (cset_empty (s_c s1) false))); auto; [|congruence].
    apply SInv_ctx; auto. }
  eapply open_post_some with (s1 := st_c s1 (cset_empty (s_c s1) false)) (n := nd);
    try reflexivity; try (cbn [st_c st_h st_r s_h s_c s_r cset_empty c_arr c_len]; congruence); try discriminate;
    try (cbn [pkind]; assumption).
  - apply SInv_FW. exact HF.
  - intros _. split; [reflexivity|exact HF].
Qed.

(* ---------- list_item.go Open ---------- *)
Lemma list_item_open_s_ok s parent s' o A D N : SInv FF s A D N ->
  list_item_open_s space_table s parent = Ok (s', o) -> open_post PListItem s s' o A D N.
Proof.
  intros HS H. unfold list_item_open_s in H. bind_inv H pn Epn.
  assert (open_post PListItem s s None A D N) as Hnone by (unfold open_post; csplit; auto).
  destruct (negb (bkind_eqb (bk pn) BList)); [injection H as <- <-; exact Hnone|].
  bind_inv H offset Eoff. bind_inv H x Ex. destruct x as [[[no r] children]|]; [|injection H as <- <-; exact Hnone].
  unfold new_node, halloc in H. cbv beta iota zeta in H. injection H as <- <-.
  destruct (list_item_open_ok space_table src _ _ _ _ _ (proj1 HS) Ex) as [HR [Hle Hno]].
  assert (SInv FF (st_h (st_c (st_r s r) (cset_empty (s_c s) false)) (s_h s ++ [mknode BListItem no])) A D N) as HF.
  { apply (SInv_alloc FF (st_c (st_r s r) (cset_empty (s_c s) false))); auto; try discriminate.
    - apply SInv_ctx; auto. apply SInv_reader; assumption.
    - apply nodeP_plain; try discriminate. auto. }
  eapply open_post_some with (s1 := st_c (st_r s r) (cset_empty (s_c s) false)) (n := mknode BListItem no);
    try reflexivity; try discriminate.
  - apply SInv_FW. exact HF.
  - intros _. split; [reflexivity|exact HF].
Qed.


(* ---------- the top of the opened blocks ---------- *)
Lemma not_last_adj l y : In y l -> y <> last l 0%nat -> exists z, Adj l y z.
Proof.
  induction l as [|a t IH]; intros Hin Hne; [destruct Hin|]. destruct t as [|b t'].
  - cbn in Hne. destruct Hin as [->|[]]. congruence.
  - destruct Hin as [->|Hin].
    + exists b. exists [], t'. reflexivity.
    + rewrite last_cons_ne in Hne by discriminate. destruct (IH Hin Hne) as [z Hz]. exists z.
      apply Adj_cons. right. exact Hz.
Qed.

Lemma exists_last_or_nil {X} (l : list X) : l = [] \/ exists l' x, l = l' ++ [x].
Proof. destruct l as [|a t]; [left; reflexivity|right]. destruct (@exists_last X (a :: t)) as [l' [x E]]; [discriminate|]. eauto. Qed.

Lemma ids_snoc E e : ids (E ++ [e]) = ids E ++ [fst e].
Proof. unfold ids. rewrite map_app. reflexivity. Qed.

Lemma snoc_cases {X} (A D N E' : list X) e : A ++ D ++ N = E' ++ [e] ->
  (exists N', N = N' ++ [e]) \/ (N = [] /\ exists D', D = D' ++ [e]) \/ (N = [] /\ D = [] /\ exists A', A = A' ++ [e]).
Proof.
  intros H. destruct (exists_last_or_nil N) as [->|[N' [x ->]]].
  - destruct (exists_last_or_nil D) as [->|[D' [x ->]]].
    + right. right. cbn [app] in H. rewrite app_nil_r in H. subst A. csplit; auto. eexists; reflexivity.
    + right. left. rewrite app_nil_r in H. rewrite app_assoc in H. apply app_inj_tail in H. destruct H as [_ ->].
      split; [reflexivity|eexists; reflexivity].
  - left. rewrite !app_assoc in H. apply app_inj_tail in H. destruct H as [_ ->]. eexists; reflexivity.
Qed.

(* with no new blocks, an opened node that is not a container is the last opened one *)
Lemma leaf_entry_top h c A D E' e y ny : heapS h -> openS h c A D [] -> A ++ D = E' ++ [e] ->
  In y (ids (A ++ D)) -> nth_error h y = Some ny -> cnt ny = false -> y = fst e.
Proof.
  intros HS HO HE Hin Ey Hk.
  assert (forall z, child h y z -> False) as Hnc.
  { intros z Hc. destruct (parent_container _ _ _ _ _ HS Hc) as [nq [Eq Kq]]. congruence. }
  pose proof (os_spine _ _ _ _ _ _ HO) as Hsp. rewrite app_nil_r in Hsp. apply spineL_chainL in Hsp.
  pose proof (os_chain_nil _ _ _ _ _ HO) as Hch.
  rewrite ids_app in Hin. apply in_app_or in Hin.
  destruct (exists_last_or_nil D) as [->|[D' [x ->]]].
  - rewrite app_nil_r in HE. subst A. destruct Hin as [Hin|[]]. rewrite ids_snoc in *.
    destruct (Nat.eq_dec y (last (ids E' ++ [fst e]) 0%nat)) as [E|E].
    + rewrite last_app_single in E. exact E.
    + exfalso. destruct (not_last_adj _ _ Hin E) as [z Hz]. apply (Hnc z). apply Hsp. apply Adj_cons. right. exact Hz.
  - rewrite app_assoc in HE. apply app_inj_tail in HE. destruct HE as [_ ->]. rewrite ids_snoc in *.
    destruct Hin as [Hin|Hin].
    + exfalso. destruct (Nat.eq_dec y (last (ids A) 0%nat)) as [E|E].
      * unfold lastid in Hch. rewrite <- E in Hch.
        destruct (ids D' ++ [fst e]) as [|d t] eqn:Ed; [destruct (ids D'); discriminate|].
        apply (Hnc d). apply Hch. exists [], t. reflexivity.
      * destruct (not_last_adj _ _ Hin E) as [z Hz]. apply (Hnc z). apply Hsp. apply Adj_cons. right. exact Hz.
    + destruct (Nat.eq_dec y (last (ids D' ++ [fst e]) 0%nat)) as [E|E].
      * rewrite last_app_single in E. exact E.
      * exfalso. destruct (not_last_adj _ _ Hin E) as [z Hz]. apply (Hnc z). apply Hch. apply Adj_cons. right. exact Hz.
Qed.


(* ---------- the opened-blocks slice of the context ---------- *)
Definition Oeq (c : pctx) (E : list (nat * bparser)) : Prop := opened c = E /\ (c_len c <= length (c_arr c))%nat.
(* when blocks were opened on this line, the last of them is a container *)
Definition PC (N : list (nat * bparser)) (h : heap) : Prop :=
  N <> [] -> exists nn, nth_error h (lastid (ids N)) = Some nn /\ cnt nn = true.

Lemma last_opened_spec c E : Oeq c E ->
  match last_opened c with Some e => exists E', E = E' ++ [e] | None => E = [] end.
Proof.
  intros [Ho Hl]. unfold last_opened, opened in *. destruct (c_len c) as [|k].
  - cbn in Ho. auto.
  - destruct (nth_error (c_arr c) k) as [e|] eqn:En.
    + exists (firstn k (c_arr c)). rewrite <- Ho.
      rewrite (ReaderProofs.firstn_succ_nth e) by lia. f_equal. f_equal. apply nth_error_nth. exact En.
    + apply nth_error_None in En. lia.
Qed.

Lemma bkind_eqb_eq a b : bkind_eqb a b = true <-> a = b.
Proof. split; [destruct a, b; cbn; congruence|intros ->; destruct b; reflexivity]. Qed.

Lemma SInv_tmp fl s v A D N : SInv fl s A D N -> (forall y, ~ In (y, PSetext) (A ++ D ++ N)) ->
  SInv fl (st_c s (cset_tmp (s_c s) v)) A D N.
Proof.
  intros [HR [H1 H2 H3 [Hp Ha Hnd Hs Hc Hl Ht Hf] H5]] Hno. split; [exact HR|]. cbn [st_c s_h s_c s_r].
  constructor; auto. constructor; auto. intros x Hin. destruct (Hno x Hin).
Qed.

(* ---------- setext_headings.go Open ---------- *)
Lemma setext_open_ok s parent s' o A D N : SInv FF s A D N -> Oeq (s_c s) (A ++ D ++ N) -> PC N (s_h s) ->
  setext_open space_table s parent = Ok (s', o) ->
  c_arr (s_c s') = c_arr (s_c s) /\ c_len (s_c s') = c_len (s_c s) /\
  match o with
  | None => SInv FF s' A D N /\ s_h s' = s_h s
  | Some (node, hc, rp) =>
    hc = false /\ rp = true /\ node = length (s_h s) /\
    (exists n, s_h s' = s_h s ++ [n] /\ bpar n = None /\ bch n = [] /\ bk n = BHeading) /\
    SInv FF s' A D N /\
    exists last lp nl, last_opened (s_c s) = Some (last, lp) /\ c_tmp_para (s_c s') = Some last /\
      nth_error (s_h s) last = Some nl /\ bk nl = BParagraph /\ bpar nl = Some parent /\ N = []
  end.
Proof.
  intros HS HO HPC H. unfold setext_open in H.
  pose proof (last_opened_spec _ _ HO) as Hlo.
  destruct (last_opened (s_c s)) as [[last lp]|] eqn:Elo.
  2: { injection H as <- <-. csplit; auto. }
  destruct Hlo as [E' HE]. bind_inv H ln Eln. apply hget_ok in Eln.
  destruct (bkind_eqb (bk ln) BParagraph && opt_nat_eqb (bpar ln) (Some parent))%bool eqn:Ecnd; cbn [negb] in H.
  2: { injection H as <- <-. csplit; auto. }
  apply andb_true_iff in Ecnd. destruct Ecnd as [Ek Ep]. apply bkind_eqb_eq in Ek. apply opt_nat_eqb_true in Ep.
  bind_inv H x Ex. destruct x as [[s1 l] sg].
  destruct (peek_s_ok _ _ _ _ _ _ _ HS Ex) as [HS1 [Eh1 [Ec1 [Ep1 [Esg _]]]]].
  bind_inv H mb Em. destruct mb as [c|].
  2: { injection H as <- <-. rewrite Ec1. csplit; auto. }
  unfold new_node, halloc in H. cbv beta iota zeta in H. injection H as <- <-.
  cbn [st_c st_h s_c s_h cset_tmp c_arr c_len c_tmp_para].
  (* no blocks were opened on this line, and no setext heading is open *)
  assert (N = []) as HN.
  { destruct (snoc_cases _ _ _ _ _ HE) as [[N' ->]|[[-> _]|[-> _]]]; auto.
    exfalso. destruct HPC as [nn [En Kn]]; [destruct N'; discriminate|].
    rewrite ids_snoc, lastid_snoc in En. cbn [fst] in En. assert (nn = ln) by congruence. subst.
    rewrite cnt_not_html, Ek in Kn by (rewrite Ek; discriminate). discriminate. }
  subst N. rewrite app_nil_r in HE.
  assert (forall y, ~ In (y, PSetext) (A ++ D ++ [])) as Hno.
  { intros y Hin. rewrite app_nil_r in Hin. destruct HS as [_ [_ HHS _ HOS _]].
    destruct (os_pair _ _ _ _ _ _ HOS y PSetext) as [ny [Ey Ky]]; [rewrite app_nil_r; exact Hin|].
    assert (y = last) as ->.
    { change last with (fst (last, lp)). eapply leaf_entry_top; try eassumption.
      - eapply in_ids; eassumption.
      - rewrite (cnt_pkind _ _ Ky) by discriminate. reflexivity. }
    assert (ny = ln) by congruence. subst. cbn [pkind] in Ky. congruence. }
  rewrite Ec1, Eh1. csplit; auto.
  - eexists. csplit; reflexivity.
  - assert (nodeP (set_lines (mknode BHeading (if (c =? 45)%N then 2 else 1)) [sg])) as Hn.
    { constructor; node_cbn; try discriminate; auto.
      - constructor; [|constructor]. subst sg. apply pos_inr. exact (proj1 HS).
      - intros _. destruct (c =? 45)%N; lia. }
    rewrite <- Eh1, <- Ec1.
    apply (SInv_tmp FF (st_h s1 (s_h s1 ++ [_]))); [|exact Hno].
    apply SInv_alloc; auto. discriminate.
  - exists last, lp, ln. csplit; auto.
Qed.


(* ---------- Open of any parser ---------- *)
Definition popen_post (bp : bparser) (s : st) (parent : nat) (s' : st) (o : open_res) (A D N : list (nat * bparser)) : Prop :=
  c_arr (s_c s') = c_arr (s_c s) /\ c_len (s_c s') = c_len (s_c s) /\
  match o with
  | None => SInv FF s' A D N /\ s_h s' = s_h s
  | Some (node, hc, rp) =>
    node = length (s_h s) /\
    (exists n, s_h s' = s_h s ++ [n] /\ bpar n = None /\ bch n = [] /\ bk n = pkind bp /\
               (bp = PATX -> fin_lines (blines n))) /\
    SInv WW s' A D N /\
    (hc = true -> container (pkind bp) = true /\ SInv FF s' A D N) /\
    (rp = false -> bp <> PSetext) /\
    (rp = true -> bp = PSetext /\ hc = false /\ SInv FF s' A D N /\ N = [] /\
       exists last lp nl, last_opened (s_c s) = Some (last, lp) /\ c_tmp_para (s_c s') = Some last /\
         nth_error (s_h s) last = Some nl /\ bk nl = BParagraph /\ bpar nl = Some parent)
  end.

Lemma open_post_popen bp s parent s' o A D N : open_post bp s s' o A D N -> popen_post bp s parent s' o A D N.
Proof.
  unfold open_post, popen_post. intros [H1 [H2 H3]]. split; [exact H1|]. split; [exact H2|].
  destruct o as [[[node hc] rp]|]; [|exact H3].
  destruct H3 as [Hn [Hex [HW [HF [Hrp Hbp]]]]]. subst rp. csplit; auto. discriminate.
Qed.

Lemma p_open_spec bp s parent s' o A D N : SInv FF s A D N -> Oeq (s_c s) (A ++ D ++ N) -> PC N (s_h s) ->
  p_open space_table re_t1o re_t2 re_t3 re_t4 re_t5 re_t6 re_t7 allowed_tags bp s parent = Ok (s', o) ->
  popen_post bp s parent s' o A D N.
Proof.
  intros HS HO HPC H. destruct bp; cbn [p_open] in H.
  - pose proof (setext_open_ok _ _ _ _ _ _ _ HS HO HPC H) as [H1 [H2 H3]]. unfold popen_post.
    split; [exact H1|]. split; [exact H2|]. destruct o as [[[node hc] rp]|]; [|exact H3].
    destruct H3 as [-> [-> [Hn [[n [E1 [E2 [E3 E4]]]] [HF [last [lp [nl [L1 [L2 [L3 [L4 [L5 L6]]]]]]]]]]]]].
    split; [exact Hn|]. split; [exists n; csplit; auto; discriminate|].
    split; [apply SInv_FW; exact HF|]. split; [discriminate|]. split; [discriminate|].
    intros _. csplit; auto. exists last, lp, nl. csplit; auto.
  - apply open_post_popen. eapply thematic_open_ok; eassumption.
  - apply open_post_popen. eapply list_open_ok; eassumption.
  - apply open_post_popen. eapply list_item_open_s_ok; eassumption.
  - apply open_post_popen. eapply code_open_ok; eassumption.
  - apply open_post_popen. eapply atx_open_s_ok; eassumption.
  - apply open_post_popen. eapply fenced_open_ok; eassumption.
  - apply open_post_popen. eapply bq_open_ok; eassumption.
  - apply open_post_popen. eapply html_open_ok; eassumption.
  - apply open_post_popen. eapply paragraph_open_ok; eassumption.
Qed.

End C.
