(* Shared definitions for the well-formedness proof of the GFM parser model (GfmWf*.v):
   what the block phase of the GFM model guarantees about the tables kept next to the heap and
   about the lines of the inline-bearing blocks of its tree. *)
Require Import GM.model.Base GM.model.Util GM.model.Reader GM.model.ReaderSpec GM.model.HtmlWriter GM.model.Html GM.model.HtmlSpec
               GM.model.TableX GM.model.BlockParse GM.model.InlineParse GM.model.BlockParseX GM.model.InlineParseX
               GM.model.GfmParse.
Require Import GM.proofs.ParseInv.
From Coq Require Import List ZArith Bool.
Import ListNotations.
Open Scope Z_scope.

(* ---------- the cells of a table (TableX.cell = option seg * align) ---------- *)
(* the segment of a cell written in the source: inside the source, no padding, possibly empty *)
Definition cseg_ok (src : bytes) (sg : seg) : Prop :=
  0 <= s_start sg /\ s_start sg <= s_stop sg /\ s_stop sg <= zlen src /\ s_pad sg = 0 /\ s_fnl sg = false.
Definition cell_ok (src : bytes) (c : cell) : Prop :=
  match fst c with Some sg => cseg_ok src sg | None => True end.
Definition table_ok (src : bytes) (t : table) : Prop :=
  Forall (cell_ok src) (t_header t) /\ Forall (Forall (cell_ok src)) (t_rows t).
Definition tabs_ok (src : bytes) (tabs : list (nat * table)) : Prop :=
  Forall (fun e => table_ok src (snd e)) tabs.

(* ---------- the lines handed to the inline phase ---------- *)
(* either what the block reader's invariant wants (ParseInv.lines_ok: non-empty segments inside the
   source, no padding, sorted), or the single empty segment of an empty table cell ("| |"), on
   which the block reader is out of range at once *)
Definition lines_okX_b (src : bytes) (lines : list seg) : bool :=
  (forallb (seg_ok_b src) lines && segs_sorted_b lines) ||
  match lines with
  | [sg] => (0 <=? s_start sg) && (s_start sg =? s_stop sg) && (s_stop sg <=? zlen src) && (s_pad sg =? 0) && negb (s_fnl sg)
  | _ => false
  end.

Fixpoint tree_lines_okX (src : bytes) (t : tree) {struct t} : bool :=
  match t with
  | Node k lines _ kids =>
    (if has_inlinesX k then lines_okX_b src lines else true) &&
    (fix go (l : list tree) : bool := match l with [] => true | x :: r => tree_lines_okX src x && go r end) kids
  end.

(* the kinds the block phase of the GFM model produces *)
Definition block_kindX (k : kind) : bool :=
  match k with
  | KDocument | KBlockquote | KList _ _ | KListItem | KParagraph | KTextBlock | KHeading _
  | KThematicBreak | KCodeBlock | KFencedCodeBlock _ | KHTMLBlock _
  | KTable | KTableHeader | KTableRow | KTableCell _ => true
  | _ => false
  end.
