(* Plain paragraphs, shared definitions: the byte classes of the fragment, the shape of the
   source (line bodies joined by newlines, paragraphs by an empty line), the segments and trees
   the phases of the parser model produce for it, and the finite table facts about these bytes. *)
Require Import GM.model.Base GM.model.Util GM.model.UtilI GM.model.Reader GM.model.HtmlWriter GM.model.Html
               GM.model.SpecDoc GM.model.ListItem GM.model.BlockParse GM.model.InlineParse.
Require Import GM.gen.Tables.
From Coq Require Import List NArith ZArith Bool Lia.
Import ListNotations.
Open Scope N_scope.

(* ---------- byte classes ---------- *)
Definition wordc (c : N) : bool := (97 <=? c) && (c <=? 122).
Definition textc (c : N) : bool := wordc c || (c =? 32).

(* a line body: letters and blanks, beginning and ending with a letter *)
Definition body_okb (b : bytes) : bool :=
  forallb textc b && match b with c :: _ => wordc c | [] => false end
                  && match rev b with c :: _ => wordc c | [] => false end.
Definition is_nil {A} (l : list A) : bool := match l with [] => true | _ => false end.
(* a paragraph: a non-empty list of line bodies; a document: a non-empty list of paragraphs *)
Definition para_ok (p : list bytes) : bool := negb (is_nil p) && forallb body_okb p.
Definition doc_ok (d : list (list bytes)) : bool := negb (is_nil d) && forallb para_ok d.

Definition para_src (p : list bytes) : bytes := join nl p.
Definition pdoc_body (d : list (list bytes)) : bytes := join [10;10] (map para_src d).
Definition pdoc_src (d : list (list bytes)) (fin : bool) : bytes := pdoc_body d ++ (if fin then [10] else []).

(* the lines of a paragraph that begins at offset off, as the block phase leaves them *)
Fixpoint para_segs (off : Z) (p : list bytes) : list seg :=
  match p with
  | [] => []
  | [b] => [mkseg off (off + zlen b)]
  | b :: r => mkseg off (off + zlen b + 1) :: para_segs (off + zlen b + 1) r
  end.
(* its inline children *)
Definition text_node (off : Z) (b : bytes) (soft : bool) : tree :=
  Node (KText (mkseg off (off + zlen b)) soft false false) [] None [].
Fixpoint para_texts (off : Z) (p : list bytes) : list tree :=
  match p with
  | [] => []
  | [b] => [text_node off b false]
  | b :: r => text_node off b true :: para_texts (off + zlen b + 1) r
  end.
(* the children of the document after the block phase / after the inline phase *)
Fixpoint doc_blocks (off : Z) (d : list (list bytes)) : list tree :=
  match d with
  | [] => []
  | p :: r => Node KParagraph (para_segs off p) None [] :: doc_blocks (off + zlen (para_src p) + 2) r
  end.
Fixpoint doc_full (off : Z) (d : list (list bytes)) : list tree :=
  match d with
  | [] => []
  | p :: r => Node KParagraph (para_segs off p) None (para_texts off p) :: doc_full (off + zlen (para_src p) + 2) r
  end.
Definition para_html (p : list bytes) : bytes := [60;112;62] ++ para_src p ++ [60;47;112;62;10].
Definition pdoc_html (d : list (list bytes)) : bytes := flat_map para_html d.

(* ---------- the 26 letters ---------- *)
Definition letters : list N := map N.of_nat (seq 97 26).
Lemma wordc_in c : wordc c = true -> In c letters.
Proof.
  unfold wordc. intros H. apply andb_true_iff in H. destruct H as [H1 H2].
  apply N.leb_le in H1. apply N.leb_le in H2.
  unfold letters. rewrite <- (N2Nat.id c). apply in_map. apply in_seq. lia.
Qed.
Lemma letters_forall (P : N -> bool) : forallb P letters = true -> forall c, wordc c = true -> P c = true.
Proof. intros H c Hc. exact (proj1 (forallb_forall P letters) H c (wordc_in c Hc)). Qed.

Lemma textc_cases c : textc c = true -> wordc c = true \/ c = 32.
Proof.
  unfold textc. intros H. apply orb_true_iff in H. destruct H as [H|H]; [left; exact H|right; apply N.eqb_eq; exact H].
Qed.
Lemma text_forall (P : N -> bool) : forallb P letters = true -> P 32 = true -> forall c, textc c = true -> P c = true.
Proof. intros H H32 c Hc. destruct (textc_cases c Hc) as [Hw| ->]; [apply (letters_forall P H c Hw)|exact H32]. Qed.

Lemma wordc_range c : wordc c = true -> 97 <= c <= 122.
Proof. unfold wordc. intros H. apply andb_true_iff in H. destruct H as [H1 H2]. apply N.leb_le in H1. apply N.leb_le in H2. lia. Qed.
Lemma textc_range c : textc c = true -> 97 <= c <= 122 \/ c = 32.
Proof. intros H. destruct (textc_cases c H) as [Hw|Hw]; [left; apply wordc_range; exact Hw|right; exact Hw]. Qed.
Lemma wordc_textc c : wordc c = true -> textc c = true.
Proof. unfold textc. intros ->. reflexivity. Qed.

(* ---------- table facts ---------- *)
Lemma word_not_space c : wordc c = true -> is_space space_table c = false.
Proof. intros H. apply negb_true_iff. revert c H. apply letters_forall. vm_compute. reflexivity. Qed.
Lemma word_not_punct c : wordc c = true -> is_punct punct_table c = false.
Proof. intros H. apply negb_true_iff. revert c H. apply letters_forall. vm_compute. reflexivity. Qed.
Lemma blank_is_space : is_space space_table 32 = true.
Proof. vm_compute. reflexivity. Qed.
Lemma nl_is_space : is_space space_table 10 = true.
Proof. vm_compute. reflexivity. Qed.
Lemma blank_not_punct : is_punct punct_table 32 = false.
Proof. vm_compute. reflexivity. Qed.
Lemma text_not_punct c : textc c = true -> is_punct punct_table c = false.
Proof. intros H. destruct (textc_cases c H) as [Hw| ->]; [apply word_not_punct; exact Hw|exact blank_not_punct]. Qed.
Lemma text_esc1 c : textc c = true -> esc1 html_escape_table c = [c].
Proof.
  intros H.
  assert (E : (match esc_entry html_escape_table c with None => true | Some _ => false end) = true).
  { revert c H. apply text_forall; vm_compute; reflexivity. }
  unfold esc1. destruct (esc_entry html_escape_table c); [discriminate|reflexivity].
Qed.
Lemma word_candidates c : wordc c = true -> candidates c = free_parsers.
Proof.
  intros H. apply wordc_range in H. unfold candidates.
  repeat match goal with |- context [N.eqb c ?k] => replace (N.eqb c k) with false by (symmetry; apply N.eqb_neq; lia) end.
  replace ((48 <=? c) && (c <=? 57)) with false.
  2:{ symmetry. apply andb_false_iff. right. apply N.leb_gt. lia. }
  reflexivity.
Qed.
Lemma blank_inline_parsers : inline_parsers 32 = [].
Proof. reflexivity. Qed.

(* ---------- bodies ---------- *)
Lemma body_ok_text b : body_okb b = true -> forallb textc b = true.
Proof. unfold body_okb. intros H. apply andb_true_iff in H. destruct H as [H _]. apply andb_true_iff in H. destruct H as [H _]. exact H. Qed.
Lemma body_ok_head b : body_okb b = true -> exists c r, b = c :: r /\ wordc c = true.
Proof.
  unfold body_okb. intros H. apply andb_true_iff in H. destruct H as [H _]. apply andb_true_iff in H. destruct H as [_ H].
  destruct b as [|c r]; [discriminate|]. exists c, r. split; [reflexivity|exact H].
Qed.
Lemma body_ok_last b : body_okb b = true -> exists r c, b = r ++ [c] /\ wordc c = true.
Proof.
  unfold body_okb. intros H. apply andb_true_iff in H. destruct H as [_ H].
  destruct (rev b) as [|c r] eqn:E; [discriminate|]. exists (rev r), c. split; [|exact H].
  rewrite <- (rev_involutive b), E. reflexivity.
Qed.
Lemma body_ok_nonempty b : body_okb b = true -> (0 < zlen b)%Z.
Proof. intros H. destruct (body_ok_head b H) as (c & r & -> & _). unfold zlen. cbn [length]. lia. Qed.

Lemma para_ok_inv p : para_ok p = true -> exists b r, p = b :: r /\ body_okb b = true /\ forallb body_okb r = true.
Proof.
  unfold para_ok. intros H. apply andb_true_iff in H. destruct H as [H1 H2].
  destruct p as [|b r]; [discriminate|]. cbn [forallb] in H2. apply andb_true_iff in H2. destruct H2 as [Hb Hr].
  exists b, r. auto.
Qed.
Lemma para_ok_cons b r : body_okb b = true -> forallb body_okb r = true -> para_ok (b :: r) = true.
Proof. intros Hb Hr. unfold para_ok. cbn [is_nil negb forallb andb]. rewrite Hb, Hr. reflexivity. Qed.

(* ---------- lengths ---------- *)
Lemma zlen_app {A} (a b : list A) : zlen (a ++ b) = (zlen a + zlen b)%Z.
Proof. unfold zlen. rewrite app_length. lia. Qed.
Lemma zlen_cons {A} (x : A) (l : list A) : zlen (x :: l) = (1 + zlen l)%Z.
Proof. unfold zlen. cbn [length]. lia. Qed.
Lemma zlen_nil {A} : zlen (@nil A) = 0%Z.
Proof. reflexivity. Qed.
Lemma zlen_nonneg {A} (l : list A) : (0 <= zlen l)%Z.
Proof. unfold zlen. lia. Qed.

Lemma join_cons2 sep x y r : join sep (x :: y :: r) = x ++ sep ++ join sep (y :: r).
Proof. reflexivity. Qed.
Lemma para_src_cons2 b b' r : para_src (b :: b' :: r) = b ++ [10] ++ para_src (b' :: r).
Proof. reflexivity. Qed.
