(* C03: every attribute name parser.ParseAttributes yields (model/Attr.v) is a name of the safe
   grammar the renderer's attribute theorems ask for (HtmlWriter.attr_name_ok): "id", "class", or
   [A-Za-z_:][A-Za-z0-9_:.-]*; the same holds for nested attribute lists inside values. *)
Require Import GM.model.Base GM.model.Util GM.model.Reader GM.model.HtmlWriter GM.model.Attr.
From Coq Require Import ZArith Lia Bool List ZifyBool ZifyN.
Open Scope Z_scope.

(* names at every nesting level *)
Fixpoint pval_names_ok (v : pval) : Prop :=
  match v with
  | PArray l => (fix all (l : list pval) : Prop := match l with [] => True | x :: r => pval_names_ok x /\ all r end) l
  | PAttrs l => (fix all (l : list (bytes * pval)) : Prop :=
                   match l with [] => True | (n, x) :: r => attr_name_ok n = true /\ pval_names_ok x /\ all r end) l
  | _ => True
  end.

Definition attr_ok (a : bytes * pval) : Prop := attr_name_ok (fst a) = true /\ pval_names_ok (snd a).

Lemma pval_ok_array : forall l, pval_names_ok (PArray l) <-> Forall pval_names_ok l.
Proof.
  induction l as [|x l IH].
  - split; intros _; [constructor | exact I].
  - split.
    + intros [Hx Hl]. constructor; [exact Hx | apply IH; exact Hl].
    + intros H. inversion H as [|x0 l0 Hx Hl]; subst. split; [exact Hx | apply IH; exact Hl].
Qed.

Lemma pval_ok_attrs : forall l, pval_names_ok (PAttrs l) <-> Forall attr_ok l.
Proof.
  induction l as [|[n x] l IH].
  - split; intros _; [constructor | exact I].
  - split.
    + intros [Hn [Hx Hl]]. constructor; [split; assumption | apply IH; exact Hl].
    + intros H. inversion H as [|x0 l0 [Hn Hx] Hl]; subst. split; [exact Hn | split; [exact Hx | apply IH; exact Hl]].
Qed.

Lemma name_char_eq : forall c, is_name_char c = attr_name_char c.
Proof.
  intros c. unfold is_name_char, is_name_start, attr_name_char, is_alnum. lia.
Qed.

Lemma name_start_char : forall c, is_name_start c = true -> is_name_char c = true.
Proof. intros c H. unfold is_name_char. rewrite H. reflexivity. Qed.

Lemma take_while_name_chars : forall l, forallb attr_name_char (take_while is_name_char l) = true.
Proof.
  induction l as [|c l IH]; [reflexivity|].
  cbn [take_while]. destruct (is_name_char c) eqn:E; [|reflexivity].
  cbn [forallb]. rewrite IH, <- name_char_eq, E. reflexivity.
Qed.

Lemma take_while_name_ok : forall c l, is_name_start c = true ->
  attr_name_ok (take_while is_name_char (c :: l)) = true.
Proof.
  intros c l H. pose proof (take_while_name_chars (c :: l)) as Hall.
  cbn [take_while] in *. rewrite (name_start_char c H) in *.
  unfold attr_name_ok. rewrite Hall. unfold is_name_start in H. rewrite H. reflexivity.
Qed.

Lemma n_id_ok : attr_name_ok n_id = true. Proof. reflexivity. Qed.
Lemma n_class_ok : attr_name_ok n_class = true. Proof. reflexivity. Qed.

Lemma merge_class_ok : forall l v l', Forall attr_ok l -> merge_class l v = Some l' -> Forall attr_ok l'.
Proof.
  induction l as [|[n x] l IH]; intros v l' Hl H; cbn [merge_class] in H; [discriminate|].
  inversion Hl as [|a0 l0 [Hn Hx] Hl']; subst. cbn [fst snd] in *.
  destruct (bytes_eqb n n_class).
  - destruct x; try discriminate. injection H as <-. constructor; [split; [exact Hn | exact I] | exact Hl'].
  - destruct (merge_class l v) as [tl'|] eqn:E; [|discriminate]. injection H as <-.
    constructor; [split; assumption | eapply IH; eauto].
Qed.

Section S.
Variable space_table punct_table : list N.
Notation st := space_table.
Notation pt := punct_table.
Notation skip_sp := (skip_sp st).
Notation short_char := (short_char st pt).

(* parseAttribute, with the value parser as a parameter; c is the byte under the reader *)
Definition parse_attr1 (pv : reader -> result (reader * option pval)) (c : N) (r : reader)
    : result (reader * option (bytes * pval)) :=
  if (N.eqb c 35 || N.eqb c 46) then
    r <- r_advance r 1 ;;
    x <- peek_line_b r ;;
    let '(r, line) := x in
    let v := take_while short_char line in
    r <- r_advance r (zlen v) ;;
    Ok (r, Some (if N.eqb c 35 then n_id else n_class, PBytes v))
  else
    x <- peek_line_b r ;;
    let '(r, line) := x in
    match line with
    | [] => Ok (r, None)
    | c0 :: _ =>
      if negb (is_name_start c0) then Ok (r, None)
      else
        let name := take_while is_name_char line in
        r <- r_advance r (zlen name) ;;
        r <- skip_sp r ;;
        c <- r_peek r ;;
        if negb (N.eqb c 61) then Ok (r, None)
        else
          r <- r_advance r 1 ;;
          r <- skip_sp r ;;
          y <- pv r ;;
          let '(r, v) := y in
          match v with
          | None => Ok (r, None)
          | Some v =>
            if bytes_eqb name n_class then
              match v with PBytes _ => Ok (r, Some (name, v)) | _ => Ok (r, None) end
            else Ok (r, Some (name, v))
          end
    end.

(* ParseAttributes' append / class merge *)
Definition add_attr (attrs : list (bytes * pval)) (name : bytes) (v : pval) : list (bytes * pval) :=
  if bytes_eqb name n_class then
    match v with
    | PBytes vb => match merge_class attrs vb with Some l => l | None => attrs ++ [(name, v)] end
    | _ => attrs ++ [(name, v)]
    end
  else attrs ++ [(name, v)].

(* the attribute loop of parse_attributes, with the value parser and the failure exit as parameters *)
Definition attr_loop (pv : reader -> result (reader * option pval))
    (fail : reader -> result (reader * option (list (bytes * pval)))) :=
  fix loop (n : nat) (r : reader) (attrs : list (bytes * pval)) : result (reader * option (list (bytes * pval))) :=
    match n with
    | O => OutOfFuel
    | S n' =>
      c <- r_peek r ;;
      if N.eqb c 125 then (r <- r_advance r 1 ;; Ok (r, Some attrs))
      else
        r <- skip_sp r ;;
        c <- r_peek r ;;
        a <- parse_attr1 pv c r ;;
        let '(r, attr) := a in
        match attr with
        | None => fail r
        | Some (name, v) =>
          r <- skip_sp r ;;
          c <- r_peek r ;;
          r <- (if N.eqb c 44 then (r <- r_advance r 1 ;; skip_sp r) else Ok r) ;;
          loop n' r (add_attr attrs name v)
        end
    end.

Lemma parse_attributes_unfold : forall f r0,
  parse_attributes st pt (S f) r0 =
    (let fail := fun r : reader => (r <- r_set_position r (r_line r0) (r_pos r0) ;; Ok (r, None)) in
     r <- skip_sp r0 ;;
     c <- r_peek r ;;
     if negb (N.eqb c 123) then fail r
     else r <- r_advance r 1 ;; attr_loop (parse_value st pt f) fail (rfuel r) r []).
Proof. reflexivity. Qed.

Lemma parse_value_unfold : forall f r,
  parse_value st pt (S f) r =
    (r <- skip_sp r ;;
    c <- r_peek r ;;
    if N.eqb c 255 then Ok (r, None)
    else if N.eqb c 123 then
      x <- parse_attributes st pt f r ;;
      let '(r, res) := x in Ok (r, match res with Some l => Some (PAttrs l) | None => None end)
    else if N.eqb c 91 then
      r <- r_advance r 1 ;;
      x <- parse_array st pt f r 0 [] ;;
      let '(r, res) := x in Ok (r, match res with Some l => Some (PArray l) | None => None end)
    else if N.eqb c 34 then
      x <- parse_string r ;;
      let '(r, res) := x in Ok (r, match res with Some v => Some (PBytes v) | None => None end)
    else if (N.eqb c 45 || N.eqb c 43 || is_numeric c) then
      x <- parse_number r ;;
      let '(r, ok) := x in Ok (r, if ok then Some PNumber else None)
    else parse_others r).
Proof. reflexivity. Qed.

Lemma parse_array_unfold : forall f r i acc,
  parse_array st pt (S f) r i acc =
    (c <- r_peek r ;;
    let comma := negb (i =? 0) && N.eqb c 44 in
    r <- (if comma then r_advance r 1 else Ok r) ;;
    if N.eqb c 93 then
      (if negb comma then (r <- r_advance r 1 ;; Ok (r, Some acc)) else Ok (r, None))
    else
      r <- skip_sp r ;;
      x <- parse_value st pt f r ;;
      let '(r, v) := x in
      match v with
      | None => Ok (r, None)
      | Some v => r <- skip_sp r ;; parse_array st pt f r (i + 1) (acc ++ [v])
      end).
Proof. reflexivity. Qed.

Ltac optinv :=
  repeat match goal with
  | H : match ?o with Some _ => _ | None => _ end = Some _ |- _ => destruct o; [|discriminate H]
  | H : (if ?b then _ else _) = Some _ |- _ => destruct b; [|discriminate H]
  | H : Some _ = Some _ |- _ => injection H; clear H; intros; subst
  | H : None = Some _ |- _ => discriminate H
  end.

(* one inversion step on a hypothesis  <monadic term> = Ok _ *)
Ltac step H :=
  cbn [bind] in H;
  match type of H with
  | bind ?x _ = Ok _ => let E := fresh "E" in destruct x eqn:E; cbn [bind] in H; [|discriminate H|discriminate H]
  | (let '(_, _) := ?p in _) = Ok _ => destruct p
  | (if ?c then _ else _) = Ok _ => let E := fresh "Ec" in destruct c eqn:E
  | match ?o with Some _ => _ | None => _ end = Ok _ => destruct o
  | match ?o with [] => _ | _ :: _ => _ end = Ok _ => destruct o
  | Panic = Ok _ => discriminate H
  | OutOfFuel = Ok _ => discriminate H
  | Ok _ = Ok _ => first [discriminate H | injection H; clear H; intros; subst; optinv]
  end.

Lemma parse_others_ok : forall r r' v, parse_others r = Ok (r', Some v) -> pval_names_ok v.
Proof.
  intros r r' v H. unfold parse_others in H. repeat step H.
  repeat match goal with |- context [if ?c then _ else _] => destruct c end; exact I.
Qed.

Lemma fail_none : forall r r0 r' (attrs : list (bytes * pval)),
  (r1 <- r_set_position r (r_line r0) (r_pos r0) ;; Ok (r1, @None (list (bytes * pval)))) = Ok (r', Some attrs) -> False.
Proof. intros r r0 r' attrs H. repeat step H. Qed.

Lemma parse_attr1_ok : forall pv c r r' name v,
  (forall r r' v, pv r = Ok (r', Some v) -> pval_names_ok v) ->
  parse_attr1 pv c r = Ok (r', Some (name, v)) -> attr_ok (name, v).
Proof.
  intros pv c r r' name v Hpv H. unfold parse_attr1 in H. cbv zeta in H.
  step H.
  - repeat step H. split; [|exact I]. cbn [fst]. destruct (c =? 35)%N; reflexivity.
  - destruct (peek_line_b r) as [[r1 line]| |] eqn:E1; cbn [bind] in H; try discriminate H.
    destruct line as [|c0 rest]; [discriminate H|].
    destruct (is_name_start c0) eqn:Hc0; cbn [negb] in H; [|discriminate H].
    pose proof (take_while_name_ok c0 rest Hc0) as Hnm.
    remember (take_while is_name_char (c0 :: rest)) as nm eqn:Enm. clear Enm.
    do 4 step H; [repeat step H|].
    do 5 step H; [|repeat step H].
    match goal with Hv : pv _ = Ok (_, Some ?p) |- _ =>
      assert (Hp : pval_names_ok p) by (eapply Hpv; exact Hv); destruct (bytes_eqb nm n_class); [destruct p|] end;
    repeat step H; split; assumption.
Qed.

Lemma add_attr_ok : forall acc name v, Forall attr_ok acc -> attr_ok (name, v) -> Forall attr_ok (add_attr acc name v).
Proof.
  intros acc name v Hacc Ha.
  assert (Happ : Forall attr_ok (acc ++ [(name, v)])).
  { apply Forall_app. split; [exact Hacc|]. constructor; [exact Ha|constructor]. }
  unfold add_attr. destruct (bytes_eqb name n_class); [|exact Happ].
  destruct v; try exact Happ.
  destruct (merge_class acc v) as [l|] eqn:E; [|exact Happ].
  eapply merge_class_ok; [exact Hacc | exact E].
Qed.

Lemma attr_loop_ok : forall pv fail r' res,
  (forall r r' v, pv r = Ok (r', Some v) -> pval_names_ok v) ->
  (forall r, fail r = Ok (r', Some res) -> False) ->
  forall n r acc, Forall attr_ok acc -> attr_loop pv fail n r acc = Ok (r', Some res) -> Forall attr_ok res.
Proof.
  intros pv fail r' res Hpv Hfail.
  induction n as [|n IHn]; intros r acc Hacc H; [discriminate|].
  cbn [attr_loop] in H. fold (attr_loop pv fail) in H.
  do 2 step H.
  { repeat step H. exact Hacc. }
  do 5 step H; [|exfalso; eapply Hfail; exact H].
  match goal with Hp : parse_attr1 _ _ _ = Ok (_, Some ?p) |- _ =>
    destruct p as [name v]; apply parse_attr1_ok in Hp; [|exact Hpv];
    pose proof (add_attr_ok acc name v Hacc Hp) as Hadd end.
  do 3 step H. eapply IHn; [exact Hadd | exact H].
Qed.

(* the three parsers simultaneously, by induction on the common fuel *)
Lemma parse_names_ok_mutual : forall fuel,
  (forall r r' v, parse_value st pt fuel r = Ok (r', Some v) -> pval_names_ok v) /\
  (forall r i acc r' l, Forall pval_names_ok acc -> parse_array st pt fuel r i acc = Ok (r', Some l) -> Forall pval_names_ok l) /\
  (forall r r' attrs, parse_attributes st pt fuel r = Ok (r', Some attrs) -> Forall attr_ok attrs).
Proof.
  induction fuel as [|f [IHv [IHa IHt]]].
  { repeat split; intros; discriminate. }
  split; [|split].
  - intros r r' v H. rewrite parse_value_unfold in H.
    do 3 step H. 1: step H.
    step H.
    { repeat step H. apply pval_ok_attrs. eapply IHt; eauto. }
    step H.
    { repeat step H. apply pval_ok_array. eapply IHa; [|eauto]. constructor. }
    step H.
    { repeat step H. exact I. }
    step H.
    { repeat step H. exact I. }
    eapply parse_others_ok; eauto.
  - intros r i acc r' l Hacc H. rewrite parse_array_unfold in H. cbv zeta in H.
    do 3 step H.
    { repeat step H. exact Hacc. }
    do 5 step H.
    eapply IHa; [|eauto]. apply Forall_app. split; [exact Hacc|]. constructor; [|constructor]. eapply IHv; eauto.
  - intros r r' attrs H. rewrite parse_attributes_unfold in H. cbv zeta in H.
    do 3 step H; [repeat step H|].
    step H.
    eapply attr_loop_ok; [exact IHv | | constructor | exact H].
    intros r1 Hf. eapply fail_none; exact Hf.
Qed.

Theorem parse_attributes_names_ok : forall fuel r r' attrs,
  parse_attributes space_table punct_table fuel r = Ok (r', Some attrs) ->
  Forall (fun a => attr_name_ok (fst a) = true /\ pval_names_ok (snd a)) attrs.
Proof. intros fuel r r' attrs H. eapply (proj2 (proj2 (parse_names_ok_mutual fuel))); exact H. Qed.

End S.
