(* C11 for the GFM parser model, Table extension, part C/N: openBlocks of the block driver with the
   Table extension on (model/BlockParseX.v, table_on = true) on a source without '-': the core
   function lifted through the state (replay of ParseBlocksRangeN.v on the X driver). *)
Require Import GM.model.Base GM.model.Util GM.model.Reader GM.model.ReaderSpec GM.model.Blocks GM.model.ListItem
               GM.model.LeafBlocks GM.model.CodeBlock GM.model.LinkDest GM.model.Regex GM.model.HtmlWriter
               GM.model.Html GM.model.HtmlSpec GM.model.TableX GM.model.BlockParse GM.model.BlockParseX GM.model.InlineParse.
Require Import GM.proofs.ReaderProofs GM.proofs.BlockRangeProofs GM.proofs.ParseInv
               GM.proofs.ParseBlocksRangeA GM.proofs.ParseBlocksRangeB GM.proofs.ParseBlocksRangeC
               GM.proofs.ParseBlocksRangeD GM.proofs.ParseBlocksRangeE
               GM.proofs.ParseBlocksRangeG GM.proofs.ParseBlocksRangeJ GM.proofs.ParseBlocksRangeL
               GM.proofs.ParseBlocksRangeM GM.proofs.ParseBlocksRangeN.
Require Import GM.proofs.GfmConservativeDefs GM.proofs.GfmConservativeTableA GM.proofs.GfmConservativeBlk
               GM.proofs.GfmConservativeTableC.
From Coq Require Import List ZArith NArith Bool Lia Sorted.
Import ListNotations.
Open Scope Z_scope.

(* an attached node other than the updated one is still attached *)
Lemma gct_attached_hupd h node f h' last nl q :
  hupd h node f = Ok h' -> last <> node -> nth_error h last = Some nl -> bpar nl = Some q ->
  attached h' last = Ok true.
Proof.
  intros H Hne En Pn. apply hupd_ok in H. destruct H as [n [_ ->]].
  unfold attached, hget. rewrite nth_hset_ne by congruence. rewrite En. cbn [bind]. rewrite Pn. reflexivity.
Qed.

Section CN.
Variable space_table punct_table : list N.
Variable norm : bytes -> bytes.
Variable re_t1o re_t1c re_t2 re_t3 re_t4 re_t5 re_t6 re_t7 : re.
Variable allowed_tags : list bytes.
Variable src : bytes.
Hypothesis sp32 : is_space space_table 32%N = true.
Hypothesis Hsrc : bytes_ok src.
Hypothesis Hnd : ~ In 45%N src.
Set Default Proof Using "All".

Notation SInv := (SInv space_table src).
Notation OInv := (OInv space_table src).
Notation fin_lines := (fin_lines src).
Notation CC f := (f space_table punct_table norm re_t1o re_t1c re_t2 re_t3 re_t4 re_t5 re_t6 re_t7 allowed_tags src sp32) (only parsing).
Notation CE f := (f space_table punct_table norm re_t1o re_t1c re_t2 re_t3 re_t4 re_t5 re_t6 re_t7 allowed_tags src sp32) (only parsing).
Notation CJ f := (f space_table punct_table norm re_t1o re_t1c re_t2 re_t3 re_t4 re_t5 re_t6 re_t7 allowed_tags src sp32 Hsrc) (only parsing).
Notation CX f := (f space_table punct_table norm re_t1o re_t1c re_t2 re_t3 re_t4 re_t5 re_t6 re_t7 allowed_tags src sp32 Hsrc Hnd) (only parsing).
Notation p_open := (p_open space_table re_t1o re_t2 re_t3 re_t4 re_t5 re_t6 re_t7 allowed_tags).
Notation p_continue := (p_continue space_table re_t1c).
Notation p_close := (p_close space_table).
Notation TP := (transform_paragraph space_table punct_table norm).
Notation TPX := (transform_paragraphX true space_table punct_table norm).
Notation CB := (close_blocks space_table punct_table norm).
Notation CBX := (close_blocksX true space_table punct_table norm).
Notation TRY := (try_parsers space_table punct_table norm re_t1o re_t2 re_t3 re_t4 re_t5 re_t6 re_t7 allowed_tags).
Notation TRYX := (try_parsersX true space_table punct_table norm re_t1o re_t2 re_t3 re_t4 re_t5 re_t6 re_t7 allowed_tags).
Notation OBL := (open_blocks_loop space_table punct_table norm re_t1o re_t2 re_t3 re_t4 re_t5 re_t6 re_t7 allowed_tags).
Notation OBLX := (open_blocks_loopX true space_table punct_table norm re_t1o re_t2 re_t3 re_t4 re_t5 re_t6 re_t7 allowed_tags).
Notation OB := (open_blocks space_table punct_table norm re_t1o re_t1c re_t2 re_t3 re_t4 re_t5 re_t6 re_t7 allowed_tags).
Notation OBX := (open_blocksX true space_table punct_table norm re_t1o re_t1c re_t2 re_t3 re_t4 re_t5 re_t6 re_t7 allowed_tags).

Section Track.
Variables (s0 : st) (A D0 : list (nat * bparser)) (cont0 : bool).
Notation TPre := (TPre space_table src A).
Notation Trk := (Trk s0 D0 cont0).
Notation CT f := (f space_table punct_table norm re_t1o re_t1c re_t2 re_t3 re_t4 re_t5 re_t6 re_t7 allowed_tags src sp32 Hsrc s0 A D0 cont0) (only parsing).

Lemma try_parsersX_on blank w : forall bps x D N parent res cont, TPre (bx_s x) D N parent -> Trk (bx_s x) D N res cont ->
  TRYX bps parent blank cont res w x = (t <- TRY bps parent blank cont res w (bx_s x) ;; Ok (lift_try x t)).
Proof.
  induction bps as [|bp rest IH]; intros x D N parent res cont HP HT; cbn [try_parsersX try_parsers].
  - cbn [bind lift_try]. rewrite stx_s_id. reflexivity.
  - destruct (cont && (res =? noBlocksOpened) && negb (can_interrupt_paragraph bp))%bool; [eapply IH; eassumption|].
    destruct ((3 <? w) && negb (can_accept_indented bp))%bool; [eapply IH; eassumption|].
    set (s := bx_s x) in *.
    destruct (p_open bp s parent) as [[s1 o]| |] eqn:Ex; cbn [bind]; try reflexivity.
    pose proof HP as [[HS [HO Hu]] [Hpar Htop]].
    assert (PC N (s_h s)) as HPC.
    { intros HN. rewrite <- (CJ lastid_app_ne A N HN). eapply (CE parent_node); eassumption. }
    pose proof (CC p_open_spec bp s parent s1 o A D N HS HO HPC Ex) as [Ea [El Hpost]].
    assert (Oeq (s_c s1) (A ++ D ++ N)) as HO1 by (eapply (CE Oeq_same); eassumption).
    assert (last_opened (s_c s1) = last_opened (s_c s)) as Elo1 by (unfold last_opened; rewrite Ea, El; reflexivity).
    destruct o as [[[node hc] rp]|].
    2: { destruct Hpost as [HS1 Eh1]. rewrite (IH (stx_s x s1) D N parent res cont).
         - reflexivity.
         - cbn [bx_s stx_s]. eapply (CT TPre_same); eassumption.
         - cbn [bx_s stx_s]. eapply (CT Trk_same); eassumption. }
    cbn [bx_s stx_s].
    destruct Hpost as [Hnode [[n [Eh1 [Pn [Cn [Kn Hatx]]]]] [HW1 [Hhc [Hrpf Hrpt]]]]].
    assert (nth_error (s_h s1) node = Some n) as En1 by (rewrite Eh1, Hnode; apply nth_app_new).
    assert (forall z, In z (ids (A ++ D ++ N)) -> (z < node)%nat) as Hold.
    { intros z Hz. apply in_ids_inv in Hz. destruct Hz as [bq Hz].
      destruct (CE SInv_entry _ _ _ _ _ _ _ HS Hz) as [nz [_ [_ Hlt]]]. lia. }
    destruct rp.
    + (* RequireParagraph: a setext heading *)
      destruct (Hrpt eq_refl) as [-> [-> [HF1 [-> [last [lp [nl [Elo [Etmp [Enl [Knl Pnl]]]]]]]]]]].
      rewrite Elo.
      destruct (hget (s_h s1) parent) as [pn| |] eqn:Epn; cbn [bind]; try reflexivity.
      apply hget_ok in Epn.
      assert (nth_error (s_h s1) last = Some nl) as Enl1 by (rewrite Eh1; apply (CT nth_app_old); exact Enl).
      rewrite <- Elo1 in Elo.
      destruct (CJ setext_pos FF s1 A D last lp nl parent HF1 HO1 Elo Enl1 Knl Pnl Hpar) as [-> [[pn' [Epn' Hlc]] Hno]].
      assert (pn' = pn) by congruence. subst pn'. rewrite Hlc. cbn [opt_nat_eqb]. rewrite Nat.eqb_refl.
      assert (lp = PParagraph) as ->.
      { assert (In (last, lp) (A ++ [(last, PParagraph)] ++ [])) as Hin.
        { pose proof (CC last_opened_spec _ _ HO1) as Hs. rewrite Elo in Hs. destruct Hs as [E' HE]. rewrite HE. apply in_or_app. right. left. reflexivity. }
        destruct (CE SInv_entry _ _ _ _ _ _ _ HF1 Hin) as [n0 [En0 [K0 _]]]. apply (CE pkind_para). congruence. }
      destruct (p_close PParagraph s1 last) as [s2| |] eqn:Ec2; cbn [bind]; try reflexivity.
      cbn [BlockParse.p_close] in Ec2.
      assert (In (last, PParagraph) (A ++ [(last, PParagraph)] ++ [])) as Hin by (apply in_or_app; right; left; reflexivity).
      destruct (CE paragraph_close_ok FF s1 last s2 A _ [] HF1 Hin Ec2) as [HF2 [Ec2' [Er2 [Hlen2 [Hsh2 [n2 [En2 Ffin2]]]]]]].
      destruct (Nat.eqb (c_len (s_c s2)) 0); [reflexivity|].
      set (s3 := st_c s2 (cset_open (s_c s2) (c_arr (s_c s2)) (Init.Nat.pred (c_len (s_c s2))))) in *.
      assert (SInv FF s3 A ([] ++ [(last, PParagraph)]) []) as HF3 by (apply (CC SInv_ctx); auto).
      rewrite (CX transform_paragraphX_on FF (stx_s (stx_s x s1) s3) last A [] [] HF3). cbn [bx_s stx_s].
      destruct (TP s3 last) as [[s4 gone]| |] eqn:Et; cbn [bind fst snd]; try reflexivity.
      destruct gone; [reflexivity|]. cbn [bind bx_s stx_s].
      destruct (CJ transform_paragraph_ok FF s3 last s4 false A [] [] HF3 Et) as [T1 [T2 [T3 [T4 [T5 [T6 [T7 T8]]]]]]].
      destruct (T8 eq_refl) as [HF4 Hfin4].
      assert (In (last, PParagraph) (A ++ ([] ++ [(last, PParagraph)]) ++ [])) as Hin4 by (apply in_or_app; right; left; reflexivity).
      destruct (CE SInv_entry _ _ _ _ _ _ _ HF4 Hin4) as [l4 [El4 [Kl4 _]]].
      assert (node <> last) as Hnl by (apply nth_some_lt in Enl; lia).
      destruct (hupd (s_h s4) node (fun n0 => set_blank n0 blank)) as [h5| |] eqn:Eh5; cbn [bind]; try reflexivity.
      cbn [st_h s_h].
      destruct (bpar l4) as [q|] eqn:Pq.
      2:{ pose proof (proj2 (T6 l4 El4) Pq). discriminate. }
      rewrite (gct_attached_hupd _ _ _ _ last l4 q Eh5 (not_eq_sym Hnl) El4 Pq). cbn [bind negb bx_s stx_s st_h s_h s_c].
      destruct (append_child h5 parent node) as [h6| |]; cbn [bind]; reflexivity.
    + (* an ordinary Open *)
      cbn [bind bx_s stx_s].
      destruct (hupd (s_h s1) node (fun n0 => set_blank n0 blank)) as [h2| |] eqn:Eh2; cbn [bind]; try reflexivity.
      destruct (last_opened (s_c s)) as [[last lp]|] eqn:Elo.
      * assert (In last (ids (A ++ D ++ N))) as Hin.
        { pose proof (CC last_opened_spec _ _ HO) as Hs. rewrite Elo in Hs. destruct Hs as [E' HE]. rewrite HE, (CC ids_snoc).
          apply in_or_app. right. left. reflexivity. }
        destruct (CE opened_attached _ _ _ _ _ _ HS Hin) as [q [nx [Ex' Px]]].
        assert (nth_error (s_h s1) last = Some nx) as Ex1 by (rewrite Eh1; apply (CT nth_app_old); exact Ex').
        assert (last <> node) as Hne by (apply Hold in Hin; lia).
        cbn [st_h s_h].
        rewrite (gct_attached_hupd _ _ _ _ last nx q Eh2 Hne Ex1 Px). cbn [bind negb bx_s stx_s st_h s_h s_c].
        destruct (append_child h2 parent node) as [h3| |]; cbn [bind]; try reflexivity.
        destruct hc; reflexivity.
      * cbn [bind bx_s stx_s st_h s_h s_c].
        destruct (append_child h2 parent node) as [h3| |]; cbn [bind]; try reflexivity.
        destruct hc; reflexivity.
Qed.

Lemma open_blocks_loopX_on blank : forall fuel parent x D N res cont, TPre (bx_s x) D N parent -> Trk (bx_s x) D N res cont ->
  OBLX fuel parent blank cont res x =
  (y <- OBL fuel parent blank cont res (bx_s x) ;; Ok (fst (fst y), snd (fst y), stx_s x (snd y))).
Proof.
  induction fuel as [|f IH]; intros parent x D N res cont HP HT; cbn [open_blocks_loopX open_blocks_loop]; [reflexivity|].
  set (s := bx_s x) in *.
  destruct (peek_line_s s) as [[[s1 line] sg]| |] eqn:Ex; cbn [bind]; try reflexivity.
  pose proof HP as [[HS [HO Hu]] [Hpar Htop]].
  destruct (CC peek_s_ok _ _ _ _ _ _ _ HS Ex) as [HS1 [Eh1 [Ec1 _]]].
  destruct (line_offset_s s1) as [[s2 off]| |] eqn:Ey; cbn [bind]; try reflexivity.
  destruct (CC loff_s_ok _ _ _ _ _ _ HS1 Ey) as [HS2 [Eh2 [Ec2 _]]].
  destruct (Blocks.indent_width (line_of line) off) as [w pos].
  cbn [bx_s stx_s].
  match goal with |- context [st_c s2 ?c] => set (c3 := c) in * end.
  assert (c_tmp_para c3 = c_tmp_para (s_c s2) /\ c_fence c3 = c_fence (s_c s2) /\ c_refs c3 = c_refs (s_c s2) /\
          c_arr c3 = c_arr (s_c s2) /\ c_len c3 = c_len (s_c s2)) as [C1 [C2 [C3 [C4 C5]]]].
  { unfold c3. destruct (zlen (line_of line) <=? w); cbn [cset_off c_tmp_para c_fence c_refs c_arr c_len]; auto. }
  assert (TPre (st_c s2 c3) D N parent) as HP3.
  { eapply (CT TPre_same); [exact HP|apply (CC SInv_ctx); auto|cbn [st_c s_c]; congruence|cbn [st_c s_c]; congruence]. }
  assert (Trk (st_c s2 c3) D N res cont) as HT3.
  { eapply (CT Trk_same); [exact HT|cbn [st_c s_h]; congruence|cbn [st_c s_c]; congruence]. }
  match goal with |- (if ?b then _ else _) = _ => destruct b end; [reflexivity|].
  rewrite (try_parsersX_on blank w _ (stx_s x (st_c s2 c3)) D N parent res cont HP3 HT3). cbn [bx_s stx_s].
  destruct (TRY _ parent blank cont res w (st_c s2 c3)) as [[p2 k2 r2 t2|r2 t2]| |] eqn:Et; cbn [bind lift_try]; try reflexivity.
  pose proof (CT try_parsers_ok _ _ _ _ _ _ _ _ _ _ HP3 HT3 Et) as Ht. cbv beta iota in Ht.
  destruct Ht as [D' [N' [HP' HT']]].
  rewrite (IH p2 (stx_s (stx_s x (st_c s2 c3)) t2) D' N' r2 k2 HP' HT'). reflexivity.
Qed.

End Track.

Lemma open_blocksX_on fuel parent blank x A D : OInv FF (bx_s x) A D [] -> topC A -> parent = lastid (ids A) ->
  OBX fuel parent blank x = (y <- OB fuel parent blank (bx_s x) ;; Ok (fst y, stx_s x (snd y))).
Proof.
  intros HO0 Htop Hpar. unfold open_blocksX, open_blocks.
  set (s := bx_s x) in *.
  match goal with |- (cont <- ?e ;; _) = _ => destruct e as [cont| |] end; cbn [bind]; try reflexivity.
  assert (TPre space_table src A s D [] parent) as HP.
  { split; [exact HO0|]. rewrite app_nil_r. auto. }
  assert (Trk s D cont s D [] noBlocksOpened cont) as HT.
  { constructor; auto. - intros Hc. split; [exact Hc|]. intros _. split; [reflexivity|apply shape_le_refl]. - intros y []. }
  rewrite (open_blocks_loopX_on s A D cont blank fuel parent x D [] noBlocksOpened cont HP HT).
  fold s.
  destruct (OBL fuel parent blank cont noBlocksOpened s) as [[[res c2] s2]| |]; cbn [bind fst snd]; try reflexivity.
  cbn [bx_s stx_s].
  destruct ((res =? noBlocksOpened) && c2)%bool; [|reflexivity].
  destruct (last_opened (s_c s2)) as [[l lp]|]; [|reflexivity].
  destruct (p_continue lp s2 l) as [[[s3 c3] k3]| |]; cbn [bind]; reflexivity.
Qed.

End CN.
