(* Helper library for TypoDefWfBlk.v, part N (second half of the fork of ParseBlocksRangeN.v): openBlocks of the driver with the definition
   list parsers (try_parsersD, open_blocks_loopD, open_blocksD). *)
Require Import GM.model.Base GM.model.Util GM.model.Reader GM.model.ReaderSpec GM.model.Blocks GM.model.ListItem
               GM.model.LeafBlocks GM.model.CodeBlock GM.model.LinkDest GM.model.Regex GM.model.HtmlWriter
               GM.model.Html GM.model.HtmlSpec GM.model.BlockParse GM.model.InlineParse GM.model.TypoDefParseD.
Require Import GM.proofs.ReaderProofs GM.proofs.BlockRangeProofs GM.proofs.ParseInv
               GM.proofs.ParseBlocksRangeA GM.proofs.TypoDefWfBlkB GM.proofs.TypoDefWfBlkT GM.proofs.TypoDefWfBlkC
               GM.proofs.TypoDefWfBlkD GM.proofs.TypoDefWfBlkE
               GM.proofs.TypoDefWfBlkG GM.proofs.TypoDefWfBlkH GM.proofs.TypoDefWfBlkJ GM.proofs.TypoDefWfBlkM
               GM.proofs.TypoDefWfBlkR GM.proofs.TypoDefWfBlkS GM.proofs.TypoDefWfBlkO.
Require GM.proofs.TypoDefConservativeBlkInv GM.proofs.TypoDefConservativeBlkA GM.proofs.TypoDefConservativeBlk.
From Coq Require Import ZArith Lia Sorted.
Open Scope Z_scope.

Section N.
Variable space_table punct_table : list N.
Variable norm : bytes -> bytes.
Variable re_t1o re_t1c re_t2 re_t3 re_t4 re_t5 re_t6 re_t7 : re.
Variable allowed_tags : list bytes.
Variable src : bytes.
Hypothesis sp32 : is_space space_table 32%N = true.
Set Default Proof Using "All".

(* lemmas of parts C and D take all the section variables: CC supplies them *)
Notation CC f := (f space_table punct_table norm re_t1o re_t1c re_t2 re_t3 re_t4 re_t5 re_t6 re_t7 allowed_tags src sp32) (only parsing).
Notation SInv := (SInv space_table src).
Notation HI := (HI space_table src).
Notation nodeP := (nodeP space_table src).
Notation heapS := (heapS space_table src).
Notation Jinv := (Jinv src).
Notation openS := (openS src).
Notation pline := (pline space_table src).
Notation oline := (oline src).
Notation fin_lines := (fin_lines src).
Notation fin := (fin src).
Notation cont_post := (cont_post space_table src).
Notation item_guard := (item_guard space_table).
Notation verdict := (verdict space_table).
Hypothesis Hsrc : bytes_ok src.
Notation CE f := (f space_table punct_table norm re_t1o re_t1c re_t2 re_t3 re_t4 re_t5 re_t6 re_t7 allowed_tags src sp32) (only parsing).
Notation CJ f := (f space_table punct_table norm re_t1o re_t1c re_t2 re_t3 re_t4 re_t5 re_t6 re_t7 allowed_tags src sp32 Hsrc) (only parsing).
Notation OInv := (OInv space_table src).


(* the lemmas of part O take all the section variables *)
Notation fr_refl := (CJ TypoDefWfBlkO.fr_refl) (only parsing).
Notation fr_trans := (CJ TypoDefWfBlkO.fr_trans) (only parsing).
Notation fr_app := (CJ TypoDefWfBlkO.fr_app) (only parsing).
Notation fr_hupd := (CJ TypoDefWfBlkO.fr_hupd) (only parsing).
Notation transform_frame := (CJ TypoDefWfBlkO.transform_frame) (only parsing).
Notation paragraph_close_frame := (CJ TypoDefWfBlkO.paragraph_close_frame) (only parsing).
Notation paragraph_continue_shape := (CJ TypoDefWfBlkO.paragraph_continue_shape) (only parsing).
Notation list_item_open_parent := (CJ TypoDefWfBlkO.list_item_open_parent) (only parsing).
Notation uniqS_snoc := (CJ TypoDefWfBlkO.uniqS_snoc) (only parsing).
Notation peek_line_s_c := (CJ TypoDefWfBlkO.peek_line_s_c) (only parsing).
Notation line_offset_s_c := (CJ TypoDefWfBlkO.line_offset_s_c) (only parsing).
Notation advance_s_c := (CJ TypoDefWfBlkO.advance_s_c) (only parsing).
Notation p_open_tmp := (CJ TypoDefWfBlkO.p_open_tmp) (only parsing).
Notation nodup_app_disj := (CJ TypoDefWfBlkO.nodup_app_disj) (only parsing).
Notation append_child_length := (CJ TypoDefWfBlkO.append_child_length) (only parsing).
Notation lastid_app_ne := (CJ TypoDefWfBlkO.lastid_app_ne) (only parsing).
Notation shape_le_length := (CJ TypoDefWfBlkO.shape_le_length) (only parsing).
Notation p_closeD_para := (CJ TypoDefWfBlkO.p_closeD_para) (only parsing).
Notation p_continueD_para := (CJ TypoDefWfBlkO.p_continueD_para) (only parsing).
Notation flat4 := (CJ TypoDefWfBlkO.flat4) (only parsing).
Notation attach_state := (CJ TypoDefWfBlkO.attach_state) (only parsing).
Notation setext_pos := (CJ TypoDefWfBlkO.setext_pos) (only parsing).
Notation LineG_rkey := (CJ TypoDefWfBlkO.LineG_rkey) (only parsing).
Notation Off_rkey := (CJ TypoDefWfBlkO.Off_rkey) (only parsing).
Notation guardC_rkey := (CJ TypoDefWfBlkO.guardC_rkey) (only parsing).
Notation Off_guard_LineG := (CJ TypoDefWfBlkO.Off_guard_LineG) (only parsing).
Notation DShape_tl := (CJ TypoDefWfBlkO.DShape_tl) (only parsing).
Notation Forall_core_map := (CJ TypoDefWfBlkO.Forall_core_map) (only parsing).

(* ---------- the bookkeeping of one call of openBlocks, relative to its start ---------- *)
Section Track.
Variables (s0 : st) (A D0 : list (nat * bparser)) (cont0 : bool).

Record Trk (s : st) (D N : list (nat * bparser)) (res : Z) (cont : bool) : Prop := {
  tk_len : (length (s_h s0) <= length (s_h s))%nat;
  tk_kb : kb_le (s_h s0) (s_h s);
  tk_D : D = D0 \/ (D = [] /\ exists x, D0 = [(x, PParagraph)]);
  tk_arr : N = [] -> c_arr (s_c s) = c_arr (s_c s0);
  tk_res : (res = noBlocksOpened /\ N = []) \/ (res = newBlocksOpened /\ N <> []);
  tk_cont : cont = true -> cont0 = true /\ (N = [] -> D = D0 /\ shape_le (s_h s0) (s_h s));
  tk_new : forall y bq, In (y, bq) N -> (length (s_h s0) <= y)%nat \/ bq = PHTML }.

(* the list whose b_seg the list parser has just set: the description parser is about to clear it *)
Definition pendingP (s : st) (x : nat) : Prop := exists n, nth_error (s_h s) x = Some n /\ is_dl n = true /\ b_seg n <> None.

Definition TPre (s : st) (D N : list (nat * bparser)) (parent : nat) : Prop :=
  OInv FF s A D N /\ parent = lastid (ids (A ++ N)) /\ topN (s_h s) (A ++ N) /\ PndF s A D N parent.

Definition TPost (bps : list bparserD) (cont : bool) (t : try_res) : Prop :=
  match t with
  | TRetry p' cont' res' s' => exists D' N', TPre s' D' N' p' /\ Trk s' D' N' res' cont' /\
                                 (pendingP s' p' -> LineG (s_r s') /\ In DDefList bps)
  | TDone res' s' => exists D' N', OInv WW s' A D' N' /\ Trk s' D' N' res' cont /\ (N' = [] -> OInv FF s' A D' N') /\
                       npend (s_h s') N'
  end.

Lemma TPost_incl bps bps' cont t : incl bps bps' -> TPost bps cont t -> TPost bps' cont t.
Proof.
  intros Hi H. destruct t as [p' c' r' s'|r' s']; [|exact H].
  destruct H as [D' [N' [H1 [H2 H3]]]]. exists D', N'. csplit; auto. intros Hp. destruct (H3 Hp) as [G Hin]. auto.
Qed.

Lemma Trk_same s s1 D N res cont : Trk s D N res cont -> s_h s1 = s_h s -> c_arr (s_c s1) = c_arr (s_c s) -> Trk s1 D N res cont.
Proof. intros [T1 T2 T3 T4 T5 T6 T7] Eh Ea. constructor; rewrite ?Eh, ?Ea; auto. Qed.

Lemma PF_same s s1 D N para : PF s A D N para -> s_h s1 = s_h s -> PF s1 A D N para.
Proof. unfold PF. intros H ->. exact H. Qed.
Lemma PndF_same s s1 D N parent : PndF s A D N parent -> s_h s1 = s_h s -> PndF s1 A D N parent.
Proof. unfold PndF, PF. intros H ->. exact H. Qed.

Lemma TPre_same s s1 D N parent : TPre s D N parent -> SInv FF s1 A D N -> s_h s1 = s_h s -> c_arr (s_c s1) = c_arr (s_c s) ->
  c_len (s_c s1) = c_len (s_c s) -> TPre s1 D N parent.
Proof.
  intros [[_ [HO Hu]] [Hp [Ht HF]]] HS Eh Ea El. split; [|split; [exact Hp|split; [rewrite Eh; exact Ht|eapply PndF_same; eassumption]]].
  split; [exact HS|]. split; [|exact Hu]. eapply (CE Oeq_same); eassumption.
Qed.

(* with a parent that is not such a list, no opened block is *)
Lemma nopend_parent fl s D N : SInv fl s A D N -> ~ pendingP s (lastid (ids (A ++ N))) -> nopend (s_h s) (A ++ D ++ N).
Proof.
  intros [_ HH] Hnp x bq n Hin Ex Hdl. destruct (b_seg n) as [sg|] eqn:Esg; [exfalso|reflexivity].
  destruct (os_pend _ _ _ _ _ _ (hi_open _ _ _ _ _ _ _ _ HH) x bq n Hin Ex Hdl ltac:(congruence)) as [HN Ex'].
  apply Hnp. rewrite (lastid_app_ne A N HN), <- Ex'. exists n. csplit; auto. congruence.
Qed.

Lemma npend_not_pending s N : ~ pendingP s (lastid (ids N)) -> npend (s_h s) N.
Proof.
  intros Hnp n En Hdl. destruct (b_seg n) as [sg|] eqn:Esg; [exfalso|reflexivity]. apply Hnp. exists n. csplit; auto. congruence.
Qed.

(* the tail of a successful Open of a new block: Blank flag, AppendChild, append to the opened blocks *)
Lemma tail_new fl (sa : st) D N parent node bp blank (lb : option (nat * bparser)) nn h2 s2 h3 :
  OInv fl sa A D N -> nth_error (s_h sa) node = Some nn -> bpar nn = None -> bk nn = pkind bp -> is_dt nn = false ->
  (bp = PATX -> fin_lines (blines nn)) ->
  (bp = PSetext -> (forall z, ~ In (z, PSetext) (A ++ D ++ N)) /\
     exists tmp t, c_tmp_para (s_c sa) = Some tmp /\ nth_error (s_h sa) tmp = Some t /\ bk t = BParagraph /\
                   fin_lines (blines t) /\ ~ In tmp (ids (A ++ D ++ N)) /\ tmp <> node) ->
  (forall tmp y, c_tmp_para (s_c sa) = Some tmp -> In (y, PSetext) (A ++ D ++ N) -> tmp <> node) ->
  ~ In node (ids (A ++ D ++ N)) -> node <> 0%nat -> topN (s_h sa) (A ++ N) -> parent = lastid (ids (A ++ N)) ->
  (bp = PListItem -> exists pn, nth_error (s_h sa) parent = Some pn /\ bk pn = BList) ->
  (forall last lp, lb = Some (last, lp) -> last <> node /\ exists nl q, nth_error (s_h sa) last = Some nl /\ bpar nl = Some q) ->
  nopend (s_h sa) (A ++ D ++ N) ->
  hupd (s_h sa) node (fun n => set_blank n blank) = Ok h2 ->
  match lb with
  | Some (last, _) =>
      att <- attached (s_h (st_h sa h2)) last ;;
      (if negb att
       then close_blocksD space_table punct_table norm (st_h sa h2) (Z.of_nat (c_len (s_c (st_h sa h2))) - 1)
              (Z.of_nat (c_len (s_c (st_h sa h2))) - 1)
       else Ok (st_h sa h2))
  | None => Ok (st_h sa h2)
  end = Ok s2 ->
  append_childD (s_h s2) parent node = Ok h3 ->
  OInv fl (st_c (st_h s2 h3) (push_opened (s_c s2) (node, bp))) A D (N ++ [(node, bp)]) /\
  length h3 = length (s_h sa) /\ kb_le (s_h sa) h3 /\
  nth_error h3 node = Some (set_par (set_blank nn blank) (Some parent)) /\ s_r s2 = s_r sa /\ s_c s2 = s_c sa.
Proof.
  intros HO En Pn Kn Hdt Hatx Hset Htmp Hni Hn0 Htop Hpar Hli Hlb Hnpe Eh2 Es2 Eh3.
  apply hupd_ok in Eh2. destruct Eh2 as [nn0 [En0 ->]]. assert (nn0 = nn) by congruence. subst nn0.
  assert (s2 = st_h sa (hset (s_h sa) node (set_blank nn blank))) as ->.
  { destruct lb as [[last lp]|]; [|injection Es2 as <-; reflexivity].
    destruct (Hlb last lp eq_refl) as [Hne [nl [q [Enl Pnl]]]].
    unfold attached, hget in Es2. cbn [st_h s_h] in Es2. rewrite nth_hset_ne in Es2 by congruence. rewrite Enl in Es2.
    cbn [bind] in Es2. rewrite Pnl in Es2. cbn [negb] in Es2. injection Es2 as <-. reflexivity. }
  cbn [st_h s_h s_c] in *.
  pose proof (nth_some_lt _ _ _ En) as Ln.
  assert (nth_error (hset (s_h sa) node (set_blank nn blank)) node = Some (set_blank nn blank)) as En2 by (apply nth_hset_eq; exact Ln).
  rewrite (GM.proofs.TypoDefConservativeBlk.append_childD_core _ _ _ _ En2 Pn) in Eh3.
  destruct (CE parent_node fl sa A D N (proj1 HO) Htop) as [np [Ep Kp]].
  assert (node <> parent) as Hcp.
  { subst parent. destruct (CE lastid_cases (ids (A ++ N))) as [[_ E]|[_ Hin]]; [congruence|]. intros E. apply Hni. rewrite E.
    apply in_AN_all. exact Hin. }
  csplit.
  - subst parent. eapply (attach_state fl sa _ A D N node bp nn np blank); try eassumption; try reflexivity.
    intros Kli. assert (bp = PListItem) as Eb by (destruct bp; cbn [pkind] in *; congruence).
    destruct (Hli Eb) as [pn [Epn Kpn]]. congruence.
  - apply append_child_length in Eh3. rewrite Eh3. apply length_hset.
  - destruct (append_child_spec _ _ _ _ Eh3 Hcp) as [nc [np' [Ec [Ep' [Hlen [E1c [E1p E1o]]]]]]].
    eapply kb_le_trans; [eapply (kb_le_hset _ _ nn (set_blank nn blank)); [exact En|reflexivity|reflexivity]|].
    apply kind_kb_le. apply data_kind_le. exact (append_data_le _ _ _ _ _ _ Ec Ep' E1c E1p E1o).
  - destruct (append_child_spec _ _ _ _ Eh3 Hcp) as [nc [np' [Ec [Ep' [Hlen [E1c [E1p E1o]]]]]]].
    assert (nc = set_blank nn blank) by congruence. subst nc. exact E1c.
  - reflexivity.
  - reflexivity.
Qed.

(* the tail of a successful Open that returned an existing definition list *)
Lemma tail_old fl (sa : st) D N parent lst nl w sg blank (lb : option (nat * bparser)) h1 h2 s2 h3 :
  OInv fl sa A D N -> nth_error (s_h sa) lst = Some nl -> is_dl nl = true -> bpar nl = Some parent ->
  topN (s_h sa) (A ++ N) -> parent = lastid (ids (A ++ N)) -> ~ In lst (ids (A ++ N)) -> 0 <= w ->
  (forall x bq n, In (x, bq) (A ++ D ++ N) -> x <> lst -> nth_error (s_h sa) x = Some n -> is_dl n = true -> b_seg n = None) ->
  (forall last lp, lb = Some (last, lp) -> exists nl' q, nth_error (s_h sa) last = Some nl' /\ bpar nl' = Some q) ->
  hupd (s_h sa) lst (fun m => set_seg (set_i2 m w) sg) = Ok h1 ->
  hupd h1 lst (fun n => set_blank n blank) = Ok h2 ->
  match lb with
  | Some (last, _) =>
      att <- attached (s_h (st_h (st_h sa h1) h2)) last ;;
      (if negb att
       then close_blocksD space_table punct_table norm (st_h (st_h sa h1) h2) (Z.of_nat (c_len (s_c (st_h (st_h sa h1) h2))) - 1)
              (Z.of_nat (c_len (s_c (st_h (st_h sa h1) h2))) - 1)
       else Ok (st_h (st_h sa h1) h2))
  | None => Ok (st_h (st_h sa h1) h2)
  end = Ok s2 ->
  append_childD (s_h s2) parent lst = Ok h3 ->
  OInv fl (st_c (st_h s2 h3) (push_opened (s_c s2) (lst, PHTML))) A D (N ++ [(lst, PHTML)]) /\
  length h3 = length (s_h sa) /\ kb_le (s_h sa) h3 /\
  nth_error h3 lst = Some (set_par (set_par (set_blank (set_seg (set_i2 nl w) sg) blank) None) (Some parent)) /\
  (forall j, j <> lst -> j <> parent -> nth_error h3 j = nth_error (s_h sa) j) /\ s_r s2 = s_r sa /\ s_c s2 = s_c sa.
Proof.
  intros [[HR HH] [HO Hu]] En Hdl Pn Htop Hpar Hni Hw Hnpe Hlb Eh1 Eh2 Es2 Eh3.
  apply hupd_ok in Eh1. destruct Eh1 as [n0 [En0 ->]]. assert (n0 = nl) by congruence. subst n0.
  pose proof (nth_some_lt _ _ _ En) as Ln.
  apply hupd_ok in Eh2. destruct Eh2 as [n1 [En1 ->]]. rewrite nth_hset_eq in En1 by exact Ln. injection En1 as <-.
  rewrite (CE hset_hset) in *.
  set (n12 := set_blank (set_seg (set_i2 nl w) sg) blank) in *.
  assert (s2 = st_h (st_h sa (hset (s_h sa) lst (set_seg (set_i2 nl w) sg))) (hset (s_h sa) lst n12)) as ->.
  { destruct lb as [[last lp]|]; [|injection Es2 as <-; reflexivity].
    destruct (Hlb last lp eq_refl) as [nl' [q [Enl' Pnl']]].
    unfold attached, hget in Es2. cbn [st_h s_h] in Es2. destruct (Nat.eq_dec last lst) as [->|Hne].
    - rewrite nth_hset_eq in Es2 by exact Ln. cbn [bind n12 set_blank set_seg set_i2 bpar] in Es2. rewrite Pn in Es2.
      cbn [negb] in Es2. injection Es2 as <-. reflexivity.
    - rewrite nth_hset_ne in Es2 by congruence. rewrite Enl' in Es2. cbn [bind] in Es2. rewrite Pnl' in Es2.
      cbn [negb] in Es2. injection Es2 as <-. reflexivity. }
  cbn [st_h s_h s_c s_r] in *.
  unfold append_childD, hget in Eh3. rewrite nth_hset_eq in Eh3 by exact Ln. cbn [bind] in Eh3.
  cbn [n12 set_blank set_seg set_i2 bpar] in Eh3. rewrite Pn in Eh3. bind_inv Eh3 hr Er.
  destruct (CE parent_node fl sa A D N (conj HR HH) Htop) as [np [Ep Kp]].
  subst parent.
  destruct (CC HI_attach_old _ _ _ A D N lst nl n12 np hr h3 HH En Hdl Pn) as [HH3 [Hlen3 [Hk3 [Hoth3 E3l]]]];
    try reflexivity; try assumption.
  csplit; auto.
  split; [|split].
  - split; [exact HR|]. cbn [st_c st_h s_h s_c s_r]. eapply (CC HI_ctx); [exact HH3|reflexivity..].
  - cbn [st_c st_h s_c]. rewrite flat4. apply (CE Oeq_push). exact HO.
  - rewrite flat4. apply uniqS_snoc; [exact Hu|]. intros E. discriminate E.
Qed.

(* ---------- RequireParagraph: Close of the paragraph before, its link reference definitions ---------- *)
Definition rp_step (parent : nat) (last_block : option (nat * bparser)) (s : st) : result (st + st) :=
  match last_block with
  | None => Ok (inl s)
  | Some (last, lp) =>
    pn <- hget (s_h s) parent ;;
    if opt_nat_eqb (Some last) (last_id (bch pn)) then
      s <- p_closeD space_table lp s last ;;
      let c := s_c s in
      (if Nat.eqb (c_len c) 0 then Panic
       else
         let s := st_c s (cset_open c (c_arr c) (pred (c_len c))) in
         isp <- is_paragraph (s_h s) last ;;
         if negb isp then Panic
         else
         t <- transform_paragraph space_table punct_table norm s last ;;
         let '(s, gone) := t in
         if gone then Ok (inr s) else Ok (inl s))
    else Ok (inl s)
  end.

Lemma rp_step_ok s1 D N parent r :
  OInv FF s1 A D N -> parent = lastid (ids (A ++ N)) -> topN (s_h s1) (A ++ N) ->
  (forall last lp pn, last_opened (s_c s1) = Some (last, lp) -> nth_error (s_h s1) parent = Some pn ->
     last_id (bch pn) = Some last -> exists nl, nth_error (s_h s1) last = Some nl /\ bk nl = BParagraph) ->
  rp_step parent (last_opened (s_c s1)) s1 = Ok r ->
  match r with
  | inl s4 =>
    (s4 = s1 /\ ~ (exists last lp pn, last_opened (s_c s1) = Some (last, lp) /\ nth_error (s_h s1) parent = Some pn /\
                                      last_id (bch pn) = Some last)) \/
    exists last nl4, D = [(last, PParagraph)] /\ N = [] /\ last_opened (s_c s1) = Some (last, PParagraph) /\
      OInv FF s4 A [] [] /\ nth_error (s_h s4) last = Some nl4 /\ bk nl4 = BParagraph /\ bpar nl4 <> None /\
      fin_lines (blines nl4) /\ ~ In last (ids A) /\ (forall z, ~ In (z, PSetext) A) /\
      fr last (length (s_h s1)) (s_h s1) (s_h s4) /\ kind_le (s_h s1) (s_h s4) /\
      c_arr (s_c s4) = c_arr (s_c s1) /\ c_tmp_para (s_c s4) = c_tmp_para (s_c s1) /\ s_r s4 = s_r s1 /\
      (length (s_h s1) <= length (s_h s4))%nat
  | inr s4 =>
    exists last, D = [(last, PParagraph)] /\ N = [] /\ OInv FF s4 A [] [] /\ kind_le (s_h s1) (s_h s4) /\
      c_arr (s_c s4) = c_arr (s_c s1) /\ s_r s4 = s_r s1 /\ (length (s_h s1) <= length (s_h s4))%nat
  end.
Proof.
  intros [HF1 [HO1 Hu]] Hpar Htop Hlast H. unfold rp_step in H.
  destruct (last_opened (s_c s1)) as [[last lp]|] eqn:Elo.
  2: { injection H as <-. left. split; [reflexivity|]. intros [l0 [lp0 [pn0 [E0 _]]]]. discriminate E0. }
  bind_inv H pn Epn. apply hget_ok in Epn.
  destruct (opt_nat_eqb (Some last) (last_id (bch pn))) eqn:Eeq.
  2: { injection H as <-. left. split; [reflexivity|]. intros [l0 [lp0 [pn0 [E0 [E1 E2]]]]]. injection E0 as <- <-.
       assert (pn0 = pn) by congruence. subst pn0. rewrite E2 in Eeq. cbn [opt_nat_eqb] in Eeq. rewrite Nat.eqb_refl in Eeq. discriminate. }
  apply opt_nat_eqb_true in Eeq. symmetry in Eeq.
  destruct (Hlast last lp pn eq_refl Epn Eeq) as [nl [Enl Knl]].
  pose proof HF1 as [_ HH1]. pose proof (hi_heap _ _ _ _ _ _ _ _ HH1) as HhS.
  destruct (hs_K _ _ _ HhS parent pn last Epn (last_id_in _ _ Eeq)) as [nl' [Enl' Pnl]]. assert (nl' = nl) by congruence. subst nl'.
  (* no blocks were opened on this line: the last opened block is a leaf *)
  pose proof (CC last_opened_spec _ _ HO1) as Hlo. rewrite Elo in Hlo. destruct Hlo as [E' HE].
  assert (N = []) as HN.
  { destruct (CC snoc_cases _ _ _ _ _ HE) as [[N' ->]|[[-> _]|[-> _]]]; auto. exfalso.
    destruct (Htop (A ++ N') last lp ltac:(rewrite app_assoc; reflexivity)) as [n0 [En0 Kn0]]. assert (n0 = nl) by congruence. subst n0.
    rewrite (CC cnt_not_html) in Kn0 by congruence. rewrite Knl in Kn0. discriminate. }
  subst N.
  destruct (setext_pos FF s1 A D last lp nl parent HF1 HO1 Elo Enl Knl Pnl Hpar) as [-> [[pn' [Epn' Hlc]] Hno]].
  assert (lp = PParagraph) as ->.
  { assert (In (last, lp) (A ++ [(last, PParagraph)] ++ [])) as Hin by (rewrite HE; apply in_or_app; right; left; reflexivity).
    destruct (CE SInv_entry _ _ _ _ _ _ _ HF1 Hin) as [n0 [En0 [K0 _]]]. apply (CE pkind_para). congruence. }
  bind_inv H s2 Ec2. apply (p_closeD_para _ _ _ _ Enl Knl) in Ec2.
  assert (In (last, PParagraph) (A ++ [(last, PParagraph)] ++ [])) as Hin by (apply in_or_app; right; left; reflexivity).
  destruct (CE paragraph_close_ok FF s1 last s2 A _ [] HF1 Hin Ec2) as [HF2 [Ec2' [Er2 [Hlen2 [Hsh2 [n2 [En2 Ffin2]]]]]]].
  assert (blines nl <> []) as Hlne by (apply (np_para _ _ _ (hs_node _ _ _ HhS _ _ Enl) Knl)).
  pose proof (paragraph_close_frame _ _ _ _ Enl Hlne Ec2) as Hfr2.
  cbv zeta in H. destruct (Nat.eqb (c_len (s_c s2)) 0); [discriminate|].
  set (s3 := st_c s2 (cset_open (s_c s2) (c_arr (s_c s2)) (Init.Nat.pred (c_len (s_c s2))))) in *.
  bind_inv H isp Eisp. destruct (negb isp); [discriminate|]. bind_inv H t4 Et. destruct t4 as [s4 gone].
  assert (SInv FF s3 A ([] ++ [(last, PParagraph)]) []) as HF3 by (apply (CC SInv_ctx); auto).
  destruct (Hsh2 last nl Enl) as [n2' [En2' [K2' [P2' C2']]]]. assert (n2' = n2) by congruence. subst n2'.
  destruct (CJ transform_paragraph_ok FF s3 last s4 gone A [] [] HF3) as [T1 [T2 [T3 [T4 [T5 [T6 [T7 [T8 T9]]]]]]]].
  { exists n2, parent. split; [exact En2|congruence]. }
  { exact Et. }
  pose proof (transform_frame _ _ _ _ Et) as Hfr. cbn [s3 st_c s_h] in Hfr, T5, T9.
  assert (Oeq (s_c s4) (A ++ [] ++ [])) as HO4.
  { eapply (CE Oeq_same); [|exact T1|exact T2]. cbn [s3 st_c s_c app]. rewrite app_nil_r. rewrite Ec2'.
    eapply (CE Oeq_pop). cbn [app] in HO1. exact HO1. }
  assert (uniqS (A ++ [] ++ [])) as Hu4.
  { eapply (CE uniqS_incl); [exact Hu|]. intros e He. cbn [app] in He. rewrite app_nil_r in He. apply in_or_app. left. exact He. }
  assert (c_arr (s_c s4) = c_arr (s_c s1)) as Earr4 by (rewrite T1; cbn [s3 st_c s_c cset_open c_arr]; congruence).
  assert (kind_le (s_h s1) (s_h s4)) as Hk4 by (eapply kind_le_trans; [apply shape_kind_le; exact Hsh2|exact T9]).
  assert (s_r s4 = s_r s1) as Er4 by (rewrite T4; cbn [s3 st_c s_r]; exact Er2).
  assert (length (s_h s1) <= length (s_h s4))%nat as Hlen4 by lia.
  destruct gone.
  - injection H as <-. exists last. csplit; auto. split; [apply T7; reflexivity|]. split; assumption.
  - injection H as <-. right. destruct (T8 eq_refl) as [HF4 Hfin4].
    assert (In (last, PParagraph) (A ++ ([] ++ [(last, PParagraph)]) ++ [])) as Hin4 by (apply in_or_app; right; left; reflexivity).
    destruct (CE SInv_entry _ _ _ _ _ _ _ HF4 Hin4) as [l4 [El4 [Kl4 _]]].
    assert (fin_lines (blines l4)) as Ffin4 by (eapply Hfin4; [exact En2|exact El4|exact Ffin2]).
    assert (SInv FF s4 A [] []) as HF4'.
    { eapply (CE SInv_drop); [exact HF4|]. intros m Em _ _. assert (m = l4) by congruence. subst m. exact Ffin4. }
    exists last, l4. csplit; auto.
    + split; [exact HF4'|split; assumption].
    + intros Pq. pose proof (proj2 (T6 l4 El4) Pq). discriminate.
    + destruct HF1 as [_ HH]. pose proof (os_ndD _ _ _ _ _ _ (hi_open _ _ _ _ _ _ _ _ HH)) as Hnd.
      rewrite ids_app in Hnd. intros Hi. eapply nodup_app_disj; [exact Hnd|exact Hi|left; reflexivity].
    + intros z Hz. apply (Hno z). apply in_or_app. left. exact Hz.
    + intros j nj Ej Hj Hl. rewrite <- (Hfr2 j Hj) in Ej. apply (Hfr j nj Ej Hj). rewrite Hlen2. exact Hl.
    + rewrite T3. cbn [s3 st_c s_c cset_open c_tmp_para]. rewrite Ec2'. reflexivity.
Qed.

(* ---------- what follows a successful Open ---------- *)
Definition openedD (parent : nat) (blank continuable : bool) (res : Z) (last_block : option (nat * bparser))
  (rbp : bparser) (s : st) (node : nat) (has_children require_para : bool) : result try_res :=
  r <- (if require_para then rp_step parent last_block s else Ok (inl s)) ;;
  match r with
  | inr s => Ok (TRetry parent false res s)
  | inl s =>
    h <- hupd (s_h s) node (fun n => set_blank n blank) ;;
    let s := st_h s h in
    s <- match last_block with
         | None => Ok s
         | Some (last, _) =>
           att <- attached (s_h s) last ;;
           if negb att then
             let lp := Z.of_nat (c_len (s_c s)) - 1 in close_blocksD space_table punct_table norm s lp lp
           else Ok s
         end ;;
    h <- append_childD (s_h s) parent node ;;
    let s := st_c (st_h s h) (push_opened (s_c s) (node, rbp)) in
    if has_children then Ok (TRetry node continuable newBlocksOpened s)
    else Ok (TDone newBlocksOpened s)
  end.

Lemma try_parsersD_cons bp rest parent blank continuable res w s :
  try_parsersD space_table punct_table norm re_t1o re_t2 re_t3 re_t4 re_t5 re_t6 re_t7 allowed_tags
    (bp :: rest) parent blank continuable res w s =
  if (continuable && (res =? noBlocksOpened) && negb (can_interrupt_paragraphD bp))%bool then
    try_parsersD space_table punct_table norm re_t1o re_t2 re_t3 re_t4 re_t5 re_t6 re_t7 allowed_tags rest parent blank continuable res w s
  else if ((3 <? w) && negb (can_accept_indentedD bp))%bool then
    try_parsersD space_table punct_table norm re_t1o re_t2 re_t3 re_t4 re_t5 re_t6 re_t7 allowed_tags rest parent blank continuable res w s
  else
    x <- p_openD space_table re_t1o re_t2 re_t3 re_t4 re_t5 re_t6 re_t7 allowed_tags bp s parent ;;
    let '(s1, o) := x in
    match o with
    | None => try_parsersD space_table punct_table norm re_t1o re_t2 re_t3 re_t4 re_t5 re_t6 re_t7 allowed_tags rest parent blank continuable res w s1
    | Some (node, hc, rp) => openedD parent blank continuable res (last_opened (s_c s)) (recorded bp) s1 node hc rp
    end.
Proof.
  cbn [try_parsersD]. destruct (_ && _ && _)%bool; [reflexivity|]. destruct (_ && _)%bool; [reflexivity|].
  destruct (p_openD _ _ _ _ _ _ _ _ _ bp s parent) as [[s1 [[[node hc] rp]|]]| |]; reflexivity.
Qed.

(* a block that is not pending stays so under changes that keep kind and the b_seg of lists *)
Lemma not_pending_kind s s' x : kind_le (s_h s) (s_h s') -> (exists n, nth_error (s_h s) x = Some n) -> ~ pendingP s x -> ~ pendingP s' x.
Proof.
  intros Hk [n En] Hnp [n' [En' [Hdl Hsg]]]. destruct (kind_le_nth _ _ _ _ Hk En) as [n2 [En2 [_ [_ [Kdl [_ [_ [_ Ksg]]]]]]]].
  assert (n2 = n') by congruence. subst n2. apply Hnp. exists n. rewrite Kdl in Hdl. csplit; auto. rewrite <- (Ksg Hdl). exact Hsg.
Qed.

Lemma PndF_not_pending s D N parent : ~ pendingP s parent -> PndF s A D N parent.
Proof. intros Hnp pn sg Epn Hdl Hsg. exfalso. apply Hnp. exists pn. csplit; auto. congruence. Qed.

Lemma nth_app_old {X} (h : list X) n i x : nth_error h i = Some x -> nth_error (h ++ [n]) i = Some x.
Proof. intros H. rewrite nth_error_app1 by (eapply nth_some_lt; eassumption). exact H. Qed.

(* the new node allocated by an Open is not pending ... *)
Lemma PC_of_top s D N : SInv FF s A D N -> topN (s_h s) (A ++ N) -> PC N (s_h s).
Proof. intros HS Htop HN. rewrite <- (lastid_app_ne A N HN). eapply (CE parent_node); eassumption. Qed.

(* ---------- an Open of a parser of the default configuration ---------- *)
Lemma opened_core_ok bps blank q s D N parent res cont s1 node hc rp t :
  TPre s D N parent -> Trk s D N res cont -> ~ pendingP s parent ->
  p_open space_table re_t1o re_t2 re_t3 re_t4 re_t5 re_t6 re_t7 allowed_tags q s parent = Ok (s1, Some (node, hc, rp)) ->
  openedD parent blank cont res (last_opened (s_c s)) q s1 node hc rp = Ok t ->
  TPost bps cont t.
Proof.
  intros HP HT Hnpp Ex H. pose proof HP as [[HS [HO Hu]] [Hpar [Htop HPF]]].
  pose proof (PC_of_top _ _ _ HS Htop) as HPC.
  pose proof (CC p_open_spec q s parent s1 _ A D N HS HO HPC Ex) as [Ea [El Hpost]].
  assert (Oeq (s_c s1) (A ++ D ++ N)) as HO1 by (eapply (CE Oeq_same); eassumption).
  assert (last_opened (s_c s1) = last_opened (s_c s)) as Elo1 by (unfold last_opened; rewrite Ea, El; reflexivity).
  destruct Hpost as [Hnode [[n [Eh1 [Pn [Cn [Kn Hatx]]]]] [HW1 [Hhc [Hrpf Hrpt]]]]].
  assert (is_dl n = false /\ is_dt n = false /\ is_dd n = false) as [Dl [Dt Dd]].
  { destruct (TypoDefConservativeBlkA.p_open_post _ _ _ _ _ _ _ _ _ _ _ _ _ _ Ex) as [_ [_ [n' [Eh' [_ [_ [Hd _]]]]]]].
    rewrite Eh1 in Eh'. apply app_inj_tail in Eh'. destruct Eh' as [_ <-]. exact Hd. }
  assert (nth_error (s_h s1) node = Some n) as En1 by (rewrite Eh1, Hnode; apply nth_app_new).
  assert (forall x, In x (ids (A ++ D ++ N)) -> (x < node)%nat) as Hold.
  { intros x Hx. apply in_ids_inv in Hx. destruct Hx as [bq Hx].
    destruct (CE SInv_entry _ _ _ _ _ _ _ HS Hx) as [nx [_ [_ Hlt]]]. lia. }
  assert (node <> 0%nat) as Hn0.
  { destruct HS as [_ HH]. destruct (hs_root _ _ _ (hi_heap _ _ _ _ _ _ _ _ HH)) as [r0 [E0 _]]. apply nth_some_lt in E0. lia. }
  assert (~ In node (ids (A ++ D ++ N))) as Hni by (intros Hi; apply Hold in Hi; lia).
  assert (length (s_h s1) = S (length (s_h s))) as Hlen1 by (rewrite Eh1, app_length; cbn [length]; lia).
  assert (kind_le (s_h s) (s_h s1)) as Hk1 by (rewrite Eh1; apply kind_le_app).
  assert (exists pnn, nth_error (s_h s) parent = Some pnn) as Hpex.
  { destruct (CE parent_node FF s A D N HS Htop) as [np [Ep _]]. rewrite <- Hpar in Ep. eauto. }
  assert (~ pendingP s1 parent) as Hnpp1 by (eapply not_pending_kind; eassumption).
  unfold openedD in H. destruct rp.
  - (* RequireParagraph: a setext heading *)
    destruct (Hrpt eq_refl) as [-> [-> [HF1 [-> [last [lp [nl [Elo [Etmp [Enl [Knl Pnl]]]]]]]]]]].
    bind_inv H r Er. rewrite <- Elo1 in Er.
    assert (nth_error (s_h s1) last = Some nl) as Enl1 by (rewrite Eh1; apply nth_app_old; exact Enl).
    assert (topN (s_h s1) (A ++ [])) as Htop1 by (eapply (CC topN_kind); eassumption).
    pose proof (rp_step_ok s1 D [] parent r (conj HF1 (conj HO1 Hu)) Hpar Htop1) as Hr.
    rewrite <- Elo1 in Elo.
    destruct (setext_pos FF s1 A D last lp nl parent HF1 HO1 Elo Enl1 Knl Pnl Hpar) as [ED [[pnl [Epnl Hlc]] Hno]].
    specialize (Hr ltac:(intros l0 lp0 pn0 E0 E1 E2; rewrite Elo in E0; injection E0 as <- <-; eauto) Er).
    destruct r as [s4|s4].
    + destruct Hr as [[_ Hbad]|(last' & l4 & ED' & _ & Elo' & HO4 & El4 & Kl4 & Pl4 & Ffin4 & Hlast & Hno4 & Hfr & Hk4 & Earr4 & Etmp4 & Er4 & Hlen4)].
      { exfalso. apply Hbad. exists last, lp, pnl. auto. }
      rewrite Elo in Elo'. injection Elo' as <- ->.
      cbn [bind] in H. bind_inv H h5 Eh5. bind_inv H s5 Es5. bind_inv H h6 Eh6. injection H as <-.
      assert (node <> last) as Hnl by (apply nth_some_lt in Enl; lia).
      destruct (Hfr node n En1 Hnl ltac:(lia)) as [n4 [En4 [K4 [P4 [C4 [I4 [J4 [S4 L4]]]]]]]].
      assert (D0 = [(last, PParagraph)]) as ED0.
      { destruct (tk_D _ _ _ _ _ HT) as [E|[E _]]; [congruence|rewrite E in ED; discriminate ED]. }
      rewrite <- Elo1 in Es5.
      destruct (tail_new FF s4 [] [] parent node PSetext blank (Some (last, PParagraph)) n4 h5 s5 h6) as [HO6 [Hlen6 [Hk6 [E6n _]]]]; auto.
      * congruence.
      * cbn [pkind]. cbn [pkind] in Kn. congruence.
      * unfold is_dt. rewrite K4, I4. exact Dt.
      * discriminate.
      * intros _. split; [intros z Hz; apply (Hno4 z); cbn [app] in Hz; rewrite app_nil_r in Hz; exact Hz|].
        exists last, l4. csplit; auto; [rewrite Etmp4; exact Etmp|cbn [app]; rewrite app_nil_r; exact Hlast].
      * intros tmp y _ Hy. exfalso. apply (Hno4 y). cbn [app] in Hy. rewrite app_nil_r in Hy. exact Hy.
      * intros Hi. apply Hni. cbn [app] in Hi. rewrite app_nil_r in Hi. rewrite ids_app. apply in_or_app. left. exact Hi.
      * eapply (CC topN_kind); eassumption.
      * discriminate.
      * intros l' lp' E. injection E as <- <-. split; [auto|]. destruct (bpar l4) as [q'|] eqn:Pq; [eauto|congruence].
      * apply (nopend_parent FF s4 [] []); [exact (proj1 HO4)|]. cbn [app]. rewrite app_nil_r.
        rewrite app_nil_r in Hpar. rewrite <- Hpar. eapply not_pending_kind; [exact Hk4| |exact Hnpp1].
        destruct Hpex as [pnn Epn]. exists pnn. rewrite Eh1. apply nth_app_old. exact Epn.
      * rewrite Elo in Es5. exact Es5.
      * exists [], ([] ++ [(node, PSetext)]). split; [apply (CE OInv_FW); exact HO6|]. split; [|split; [intros E; discriminate|]].
        -- constructor; auto.
           ++ cbn [st_c st_h s_h]. pose proof (tk_len _ _ _ _ _ HT). lia.
           ++ cbn [st_c st_h s_h]. eapply kb_le_trans; [exact (tk_kb _ _ _ _ _ HT)|]. eapply kb_le_trans; [apply kind_kb_le; exact Hk1|].
              eapply kb_le_trans; [apply kind_kb_le; exact Hk4|exact Hk6].
           ++ right. split; [reflexivity|]. eauto.
           ++ intros E. discriminate.
           ++ right. split; [reflexivity|discriminate].
           ++ intros Hc. split; [exact (proj1 (tk_cont _ _ _ _ _ HT Hc))|intros E; discriminate].
           ++ intros y bq [E|[]]. injection E as <- <-. left. pose proof (tk_len _ _ _ _ _ HT). lia.
        -- apply npend_not_pending. change (lastid (ids ([] ++ [(node, PSetext)]))) with node. intros [n6 [E6 [Hd6 _]]]. cbn [st_c st_h s_h] in E6.
           rewrite E6n in E6. injection E6 as <-. unfold is_dl in Hd6. cbn [set_par set_blank bk b_i1] in Hd6. rewrite K4, I4 in Hd6.
           unfold is_dl in Dl. congruence.
    + (* the paragraph held only link reference definitions *)
      destruct Hr as [last' [ED' [_ [HO4 [Hk4 [Earr4 [Er4 Hlen4]]]]]]].
      cbn [bind] in H. injection H as <-. exists [], []. split; [|split].
      * split; [exact HO4|]. split; [exact Hpar|]. split.
        -- cbn [app] in Htop1. rewrite app_nil_r in Htop1. cbn [app]. rewrite app_nil_r. eapply (CC topN_kind); [exact Htop1|exact Hk4].
        -- apply PndF_not_pending. eapply not_pending_kind; [exact Hk4| |exact Hnpp1].
           destruct Hpex as [pnn Epn]. exists pnn. rewrite Eh1. apply nth_app_old. exact Epn.
      * assert (D0 = [(last', PParagraph)]) as ED0.
        { destruct (tk_D _ _ _ _ _ HT) as [E|[E _]]; [congruence|rewrite E in ED'; discriminate ED']. }
        constructor; auto.
        -- pose proof (tk_len _ _ _ _ _ HT). lia.
        -- eapply kb_le_trans; [exact (tk_kb _ _ _ _ _ HT)|]. eapply kb_le_trans; [apply kind_kb_le; exact Hk1|apply kind_kb_le; exact Hk4].
        -- right. split; [reflexivity|]. eauto.
        -- intros _. rewrite Earr4, Ea. apply (tk_arr _ _ _ _ _ HT). reflexivity.
        -- destruct (tk_res _ _ _ _ _ HT) as [Hr|[_ Hr]]; [left; exact Hr|congruence].
        -- discriminate.
        -- intros y bq [].
      * intros Hp. exfalso. revert Hp. eapply not_pending_kind; [exact Hk4| |exact Hnpp1].
        destruct Hpex as [pnn Epn]. exists pnn. rewrite Eh1. apply nth_app_old. exact Epn.
  - (* an ordinary Open *)
    pose proof (Hrpf eq_refl) as Hbp. cbn [bind] in H. bind_inv H h2 Eh2. bind_inv H s2 Es2. bind_inv H h3 Eh3.
    pose proof (p_open_tmp _ _ _ _ _ Ex Hbp) as Etmp.
    assert (forall fl, SInv fl s1 A D N -> OInv fl (st_c (st_h s2 h3) (push_opened (s_c s2) (node, q))) A D (N ++ [(node, q)]) /\
                       length h3 = length (s_h s1) /\ kb_le (s_h s1) h3 /\
                       nth_error h3 node = Some (set_par (set_blank n blank) (Some parent)) /\ s_r s2 = s_r s1 /\ s_c s2 = s_c s1) as Hatt.
    { intros fl HS1. eapply (tail_new fl s1 D N parent node q blank (last_opened (s_c s)) n h2 s2 h3); auto; try eassumption.
      - split; [exact HS1|split; assumption].
      - intros E. congruence.
      - intros tmp y Et Hy. destruct HS as [_ HH]. destruct (os_tmp _ _ _ _ _ _ (hi_open _ _ _ _ _ _ _ _ HH) y Hy) as [tmp' [t' [T1 [T2 _]]]].
        rewrite Etmp in Et. assert (tmp' = tmp) by congruence. subst tmp'. apply nth_some_lt in T2. lia.
      - eapply (CC topN_kind); eassumption.
      - intros E. subst q. cbn [p_open] in Ex. destruct (list_item_open_parent _ _ _ _ Ex) as [pn [Epn Kpn]].
        exists pn. split; [rewrite Eh1; apply nth_app_old; exact Epn|exact Kpn].
      - intros last lp Elo.
        pose proof (CC last_opened_spec _ _ HO) as Hs. rewrite Elo in Hs. destruct Hs as [E' HE].
        assert (In last (ids (A ++ D ++ N))) as Hin by (rewrite HE, (CC ids_snoc); apply in_or_app; right; left; reflexivity).
        split; [apply Hold in Hin; lia|]. destruct (CE last_attached _ _ _ _ _ _ _ _ HS HE) as [q' [nx [Ex' Px]]].
        exists nx, q'. split; [rewrite Eh1; apply nth_app_old; exact Ex'|exact Px].
      - apply (nopend_parent fl s1 D N HS1). rewrite <- Hpar. exact Hnpp1. }
    assert (Trk (st_c (st_h s2 h3) (push_opened (s_c s2) (node, q))) D (N ++ [(node, q)]) newBlocksOpened cont) as HT3.
    { destruct (Hatt WW HW1) as [_ [Hlen3 [Hk3 _]]]. constructor.
      - cbn [st_c st_h s_h]. pose proof (tk_len _ _ _ _ _ HT). lia.
      - cbn [st_c st_h s_h]. eapply kb_le_trans; [exact (tk_kb _ _ _ _ _ HT)|]. eapply kb_le_trans; [apply kind_kb_le; exact Hk1|exact Hk3].
      - exact (tk_D _ _ _ _ _ HT).
      - intros E. destruct N; discriminate.
      - right. split; [reflexivity|]. destruct N; discriminate.
      - intros Hc. split; [exact (proj1 (tk_cont _ _ _ _ _ HT Hc))|intros E; destruct N; discriminate].
      - intros y bq Hy. apply in_app_or in Hy. destruct Hy as [Hy|[E|[]]].
        + exact (tk_new _ _ _ _ _ HT y bq Hy).
        + injection E as <- <-. left. pose proof (tk_len _ _ _ _ _ HT). lia. }
    assert (forall fl, SInv fl s1 A D N -> ~ pendingP (st_c (st_h s2 h3) (push_opened (s_c s2) (node, q))) node) as Hnp3.
    { intros fl HS1 [n6 [E6 [Hd6 _]]]. cbn [st_c st_h s_h] in E6. destruct (Hatt fl HS1) as [_ [_ [_ [E6n _]]]].
      rewrite E6n in E6. injection E6 as <-. unfold is_dl in *. cbn [set_par set_blank bk b_i1] in Hd6. congruence. }
    destruct hc.
    + injection H as <-. destruct (Hhc eq_refl) as [Kc HF1]. destruct (Hatt FF HF1) as [HO3 [Hlen3 [Hk3 [E3n _]]]].
      exists D, (N ++ [(node, q)]). split; [|split; [exact HT3|]].
      * split; [exact HO3|]. split; [rewrite app_assoc; rewrite (CE lastid_ids_snoc); reflexivity|]. split.
        -- intros E' y bq HE. rewrite app_assoc in HE. apply app_inj_tail in HE. destruct HE as [_ HE]. injection HE as <- <-.
           cbn [st_c st_h s_h]. eexists. split; [exact E3n|]. apply (CC cnt_container). cbn [set_par set_blank bk]. rewrite Kn. exact Kc.
        -- apply PndF_not_pending. exact (Hnp3 FF HF1).
      * intros Hp. exfalso. exact (Hnp3 FF HF1 Hp).
    + injection H as <-. destruct (Hatt WW HW1) as [HO3 _]. exists D, (N ++ [(node, q)]). split; [exact HO3|]. split; [exact HT3|].
      split; [intros E; destruct N; discriminate|].
      apply npend_not_pending. rewrite (CC ids_snoc), lastid_snoc. cbn [fst]. exact (Hnp3 WW HW1).
Qed.

Lemma Trk_push s s' D N res cont node bq : Trk s D N res cont -> kb_le (s_h s) (s_h s') ->
  (length (s_h s0) <= node)%nat \/ bq = PHTML -> Trk s' D (N ++ [(node, bq)]) newBlocksOpened cont.
Proof.
  intros HT Hk Hn. pose proof (kb_le_length _ _ Hk) as Hl. constructor.
  - pose proof (tk_len _ _ _ _ _ HT). lia.
  - eapply kb_le_trans; [exact (tk_kb _ _ _ _ _ HT)|exact Hk].
  - exact (tk_D _ _ _ _ _ HT).
  - intros E. destruct N; discriminate.
  - right. split; [reflexivity|]. destruct N; discriminate.
  - intros Hc. split; [exact (proj1 (tk_cont _ _ _ _ _ HT Hc))|intros E; destruct N; discriminate].
  - intros y bq' Hy. apply in_app_or in Hy. destruct Hy as [Hy|[E|[]]].
    + exact (tk_new _ _ _ _ _ HT y bq' Hy).
    + injection E as <- <-. exact Hn.
Qed.

(* ---------- an Open of the description parser ---------- *)
Lemma opened_defdesc_ok bps blank s D N parent res cont s1 node hc rp t :
  TPre s D N parent -> Trk s D N res cont ->
  defdesc_open space_table s parent = Ok (s1, Some (node, hc, rp)) ->
  openedD parent blank cont res (last_opened (s_c s)) PHTML s1 node hc rp = Ok t -> TPost bps cont t.
Proof.
  intros HP HT Ex H. pose proof HP as [[HS [HO Hu]] [Hpar [Htop HPF]]].
  destruct (CC defdesc_open_ok s parent s1 _ A D N HS Hpar HPF Ex) as [Ec [-> [-> [Hlo [Hlen [En1 [HS1 [Hk1 Hnp1]]]]]]]].
  set (dd := set_tight (mknode BHTML 102) false) in *.
  assert (Oeq (s_c s1) (A ++ D ++ N)) as HO1 by (rewrite Ec; exact HO).
  assert (forall x, In x (ids (A ++ D ++ N)) -> (x < node)%nat) as Hold.
  { intros x Hx. apply in_ids_inv in Hx. destruct Hx as [bq Hx].
    destruct (CE SInv_entry _ _ _ _ _ _ _ HS Hx) as [nx [_ [_ Hlt]]]. lia. }
  assert (node <> 0%nat) as Hn0.
  { destruct HS as [_ HH]. destruct (hs_root _ _ _ (hi_heap _ _ _ _ _ _ _ _ HH)) as [r0 [E0 _]]. apply nth_some_lt in E0. lia. }
  unfold openedD in H. cbn [bind] in H. bind_inv H h2 Eh2. bind_inv H s2 Es2. bind_inv H h3 Eh3. injection H as <-.
  destruct (tail_new FF s1 D N parent node PHTML blank (last_opened (s_c s)) dd h2 s2 h3) as [HO3 [Hlen3 [Hk3 [E3n _]]]]; auto; try discriminate.
  - split; [exact HS1|split; assumption].
  - intros tmp y Et Hy. destruct (os_tmp _ _ _ _ _ _ (hi_open _ _ _ _ _ _ _ _ (proj2 HS1)) y Hy) as [tmp' [t' [T1 [T2 [_ [_ T5]]]]]].
    assert (tmp' = tmp) by congruence. subst tmp'. intros ->.
    destruct (os_tmp _ _ _ _ _ _ (hi_open _ _ _ _ _ _ _ _ (proj2 HS)) y Hy) as [tmp2 [t2 [T1' [T2' _]]]].
    rewrite Ec in T1. assert (tmp2 = node) by congruence. subst tmp2. apply nth_some_lt in T2'. lia.
  - intros Hi. apply Hold in Hi. lia.
  - eapply topN_kb; eassumption.
  - intros last lp Elo. pose proof (CC last_opened_spec _ _ HO) as Hs. rewrite Elo in Hs. destruct Hs as [E' HE].
    assert (In last (ids (A ++ D ++ N))) as Hin by (rewrite HE, (CC ids_snoc); apply in_or_app; right; left; reflexivity).
    split; [apply Hold in Hin; lia|]. destruct (CE last_attached _ _ _ _ _ _ _ _ HS1 HE) as [q' [nx [Ex' Px]]]. eauto.
  - assert (~ pendingP (st_c (st_h s2 h3) (push_opened (s_c s2) (node, PHTML))) node) as Hnp3.
    { intros [n6 [E6 [Hd6 _]]]. cbn [st_c st_h s_h] in E6. rewrite E3n in E6. injection E6 as <-. discriminate Hd6. }
    exists D, (N ++ [(node, PHTML)]). split; [|split].
    + split; [exact HO3|]. split; [rewrite app_assoc; rewrite (CE lastid_ids_snoc); reflexivity|]. split.
      * intros E' y bq HE. rewrite app_assoc in HE. apply app_inj_tail in HE. destruct HE as [_ HE]. injection HE as <- <-.
        cbn [st_c st_h s_h]. eexists. split; [exact E3n|]. reflexivity.
      * apply PndF_not_pending. exact Hnp3.
    + eapply Trk_push; [exact HT| |right; reflexivity]. cbn [st_c st_h s_h]. eapply kb_le_trans; eassumption.
    + intros Hp. exfalso. exact (Hnp3 Hp).
Qed.

Lemma nodeP_newdl w sg : 0 <= w -> nodeP (set_seg (set_i2 (mknode BHTML 100) w) sg).
Proof.
  intros Hw. constructor; cbn [set_seg set_i2 mknode blines b_seg bk b_i1 b_i2 bch]; try discriminate; auto.
Qed.

Lemma para_ref_nat l : Z.to_nat (s_start (mkseg (Z.of_nat l) 0)) = l.
Proof. cbn [mkseg s_start]. apply Nat2Z.id. Qed.

(* ---------- an Open of the list parser ---------- *)
Lemma opened_deflist_ok bps blank w s D N parent res cont s1 node hc rp t :
  TPre s D N parent -> Trk s D N res cont -> Off s w -> In DDefList bps ->
  deflist_open s parent = Ok (s1, Some (node, hc, rp)) ->
  openedD parent blank cont res (last_opened (s_c s)) PHTML s1 node hc rp = Ok t -> TPost bps cont t.
Proof.
  intros HP HT Hoff Hbps Ex H. pose proof HP as [[HS [HO Hu]] [Hpar [Htop HPF]]].
  pose proof (CC deflist_open_raw s parent s1 _ A D N HS Ex) as (-> & Hg & sp & pn & l & ln & w' & HSp & Ehp & Ecp & Ekp & Epn & Hpdl & Elast & Eln & Hw' & Hcase).
  destruct (Off_guard_LineG _ _ Hoff Hg) as [HLG _].
  assert (LineG (s_r sp)) as HLGp by (eapply LineG_rkey; [symmetry; exact Ekp|exact HLG]).
  pose proof HS as [_ HH]. pose proof (hi_heap _ _ _ _ _ _ _ _ HH) as HhS. pose proof (hi_open _ _ _ _ _ _ _ _ HH) as HoS.
  assert (In l (bch pn)) as Hlin by (apply last_id_in; exact Elast).
  rewrite Hpar in Epn.
  assert (Oeq (s_c sp) (A ++ D ++ N)) as HOp by (rewrite Ecp; exact HO).
  assert (~ pendingP s (lastid (ids (A ++ N)))) as Hnpp.
  { intros [n0 [E0 [Hd0 _]]]. assert (n0 = pn) by congruence. subst n0. congruence. }
  assert (forall x, In x (ids (A ++ D ++ N)) -> (x < length (s_h s))%nat) as Hold.
  { intros x Hx. apply in_ids_inv in Hx. destruct Hx as [bq Hx].
    destruct (CE SInv_entry _ _ _ _ _ _ _ HS Hx) as [nx [_ [_ Hlt]]]. exact Hlt. }
  unfold openedD in H.
  destruct Hcase as [[-> [Kln [Enode Es1]]]|[[-> [Kln [[nl [Enl [Hnld Hnin]]] [h1 [Eh1 Es1]]]]]|[-> [Enode [Hlnd [h1 [Eh1 Es1]]]]]]].
  - (* the first item: a new list *)
    destruct (CC last_para_pos _ _ _ _ _ _ _ _ HS Epn Hpdl Hlin Eln Kln) as [HlAN HlD].
    set (n0 := set_seg (set_i2 (mknode BHTML 100) w') (para_ref l)) in *.
    assert (SInv FF s1 A D N) as HS1.
    { rewrite Es1, <- Ehp. apply (CC SInv_alloc); auto; [apply nodeP_newdl; exact Hw'|discriminate]. }
    assert (s_c s1 = s_c s /\ s_r s1 = s_r sp /\ s_h s1 = s_h s ++ [n0]) as [Ec1 [Er1 Eh1]] by (rewrite Es1; cbn [st_h s_c s_r s_h]; auto).
    assert (Oeq (s_c s1) (A ++ D ++ N)) as HO1 by (rewrite Ec1; exact HO).
    assert (nth_error (s_h s1) node = Some n0) as En1 by (rewrite Eh1, Enode; apply nth_app_new).
    assert (kind_le (s_h s) (s_h s1)) as Hk1 by (rewrite Eh1; apply kind_le_app).
    assert (node <> 0%nat) as Hn0.
    { destruct (hs_root _ _ _ HhS) as [r0 [E0 _]]. apply nth_some_lt in E0. lia. }
    assert (~ In node (ids (A ++ D ++ N))) as Hni by (intros Hi; apply Hold in Hi; lia).
    assert (nth_error (s_h s1) (lastid (ids (A ++ N))) = Some pn) as Epn1 by (rewrite Eh1; apply nth_app_old; exact Epn).
    assert (~ pendingP s1 (lastid (ids (A ++ N)))) as Hnpp1.
    { intros [m [E0 [Hd0 _]]]. assert (m = pn) by congruence. subst m. congruence. }
    assert (l < length (s_h s))%nat as Ll by (eapply nth_some_lt; exact Eln).
    bind_inv H r Er. assert (last_opened (s_c s1) = last_opened (s_c s)) as Elo1 by (rewrite Ec1; reflexivity).
    rewrite <- Elo1 in Er.
    assert (topN (s_h s1) (A ++ N)) as Htop1 by (eapply (CC topN_kind); eassumption).
    pose proof (rp_step_ok s1 D N parent r (conj HS1 (conj HO1 Hu)) Hpar Htop1) as Hr.
    specialize (Hr ltac:(intros l0 lp0 pn0 E0 E1 E2; rewrite Hpar in E1; assert (pn0 = pn) by congruence; subst pn0;
                         assert (l0 = l) by congruence; subst l0; exists ln; split; [rewrite Eh1; apply nth_app_old; exact Eln|exact Kln]) Er).
    destruct r as [s4|s4].
    + destruct Hr as [[-> _]|(last' & l4 & ED' & EN' & Elo' & HO4 & El4 & Kl4 & Pl4 & Ffin4 & Hlast & Hno4 & Hfr & Hk4 & Earr4 & Etmp4 & Er4 & Hlen4)].
      * (* the paragraph is closed already, or is not the last opened block *)
        bind_inv H h2 Eh2. bind_inv H s2 Es2. bind_inv H h3 Eh3. injection H as <-.
        destruct (tail_new FF s1 D N parent node PHTML blank (last_opened (s_c s)) n0 h2 s2 h3) as [HO3 [Hlen3 [Hk3 [E3n [E2r _]]]]]; auto; try discriminate.
        -- split; [exact HS1|split; assumption].
        -- intros tmp y Et Hy. destruct (os_tmp _ _ _ _ _ _ HoS y Hy) as [tmp' [t' [T1 [T2 _]]]].
           rewrite Ec1 in Et. assert (tmp' = tmp) by congruence. subst tmp'. apply nth_some_lt in T2. lia.
        -- intros last lp Elo. pose proof (CC last_opened_spec _ _ HO) as Hs. rewrite Elo in Hs. destruct Hs as [E' HE].
           assert (In last (ids (A ++ D ++ N))) as Hin by (rewrite HE, (CC ids_snoc); apply in_or_app; right; left; reflexivity).
           split; [apply Hold in Hin; lia|]. destruct (CE last_attached _ _ _ _ _ _ _ _ HS1 HE) as [q' [nx [Ex' Px]]]. eauto.
        -- apply (nopend_parent FF s1 D N HS1). exact Hnpp1.
        -- exists D, (N ++ [(node, PHTML)]). split; [|split].
           ++ split; [exact HO3|]. split; [rewrite app_assoc; rewrite (CE lastid_ids_snoc); reflexivity|]. split.
              ** intros E' y bq HE. rewrite app_assoc in HE. apply app_inj_tail in HE. destruct HE as [_ HE]. injection HE as <- <-.
                 cbn [st_c st_h s_h]. eexists. split; [exact E3n|]. reflexivity.
              ** intros pn' sg' Epn' Hd' Hsg'. cbn [st_c st_h s_h] in Epn'. rewrite E3n in Epn'. injection Epn' as <-.
                 cbn [set_par set_blank n0 set_seg b_seg para_ref] in Hsg'. injection Hsg' as <-. rewrite para_ref_nat.
                 split; [|split].
                 --- destruct (kb_le_nth _ _ _ _ (kb_le_trans _ _ _ (kind_kb_le _ _ Hk1) Hk3) Eln) as [ln' [Eln' [Kln' _]]].
                     exists ln'. cbn [st_c st_h s_h]. split; [exact Eln'|congruence].
                 --- rewrite app_assoc, (CC ids_snoc). cbn [fst]. intros Hi. apply in_app_or in Hi. destruct Hi as [Hi|[Hi|[]]]; [exact (HlAN Hi)|lia].
                 --- exact HlD.
           ++ eapply Trk_push; [exact HT| |right; reflexivity]. cbn [st_c st_h s_h]. eapply kb_le_trans; [apply kind_kb_le; exact Hk1|exact Hk3].
           ++ intros _. split; [|exact Hbps]. cbn [st_c st_h s_r]. eapply LineG_rkey; [|exact HLGp].
              rewrite E2r, Er1. reflexivity.
      * (* the paragraph was the last opened block: it has been closed, its link reference definitions taken out *)
        subst D N. rewrite Elo1 in Elo'.
        cbn [bind] in H. bind_inv H h5 Eh5. bind_inv H s5 Es5. bind_inv H h6 Eh6. injection H as <-.
        assert (last' = l) as ->.
        { (* the paragraph of D is the last child of the parent *)
          pose proof (os_lc _ _ _ _ _ _ HoS eq_refl) as Hl. cbn [fst] in Hl. destruct Hl as [pn' [Epn' Hl]].
          assert (pn' = pn) by (rewrite app_nil_r in Epn; congruence). subst pn'. congruence. }
        assert (node <> l) as Hnl by lia.
        destruct (Hfr node n0 En1 Hnl ltac:(rewrite Eh1, app_length; cbn [length]; lia)) as [n4 [En4 [K4 [P4 [C4 [I4 [J4 [S4 L4]]]]]]]].
        assert (D0 = [(l, PParagraph)]) as ED0.
        { destruct (tk_D _ _ _ _ _ HT) as [E|[E _]]; [congruence|discriminate E]. }
        assert (~ pendingP s4 (lastid (ids (A ++ [])))) as Hnpp4.
        { eapply not_pending_kind; [exact Hk4|eauto|exact Hnpp1]. }
        rewrite Elo' in Es5.
        destruct (tail_new FF s4 [] [] parent node PHTML blank (Some (l, PParagraph)) n4 h5 s5 h6) as [HO6 [Hlen6 [Hk6 [E6n [E6r _]]]]]; auto; try discriminate.
        -- unfold is_dt. rewrite K4, I4. reflexivity.
        -- intros tmp y _ Hy. exfalso. apply (Hno4 y). cbn [app] in Hy. rewrite app_nil_r in Hy. exact Hy.
        -- intros Hi. apply Hni. cbn [app] in Hi. rewrite app_nil_r in Hi. rewrite ids_app. apply in_or_app. left. exact Hi.
        -- eapply (CC topN_kind); eassumption.
        -- intros l' lp' E. injection E as <- <-. split; [auto|]. destruct (bpar l4) as [q'|] eqn:Pq; [eauto|congruence].
        -- apply (nopend_parent FF s4 [] []); [exact (proj1 HO4)|exact Hnpp4].
        -- exists [], ([] ++ [(node, PHTML)]). split; [|split].
           ++ split; [exact HO6|]. split; [cbn [app]; rewrite (CE lastid_ids_snoc); reflexivity|]. split.
              ** intros E' y bq HE. cbn [app] in HE. apply app_inj_tail in HE. destruct HE as [_ HE]. injection HE as <- <-.
                 cbn [st_c st_h s_h]. eexists. split; [exact E6n|]. unfold cnt, is_dl. cbn [set_par set_blank bk b_i1]. rewrite K4, I4. reflexivity.
              ** intros pn' sg' Epn' Hd' Hsg'. cbn [st_c st_h s_h] in Epn'. rewrite E6n in Epn'. injection Epn' as <-.
                 cbn [set_par set_blank b_seg] in Hsg'. rewrite S4 in Hsg'. cbn [n0 set_seg b_seg para_ref] in Hsg'. injection Hsg' as <-.
                 rewrite para_ref_nat. split; [|split].
                 --- destruct (kb_le_nth _ _ _ _ Hk6 El4) as [ln' [Eln' [Kln' _]]]. exists ln'. cbn [st_c st_h s_h]. split; [exact Eln'|congruence].
                 --- cbn [app]. rewrite app_nil_r in *. rewrite (CC ids_snoc). cbn [fst]. intros Hi. apply in_app_or in Hi.
                     destruct Hi as [Hi|[Hi|[]]]; [exact (Hlast Hi)|lia].
                 --- intros [].
           ++ constructor.
              ** cbn [st_c st_h s_h]. pose proof (tk_len _ _ _ _ _ HT). rewrite Eh1, app_length in Hlen4. lia.
              ** cbn [st_c st_h s_h]. eapply kb_le_trans; [exact (tk_kb _ _ _ _ _ HT)|]. eapply kb_le_trans; [apply kind_kb_le; exact Hk1|].
                 eapply kb_le_trans; [apply kind_kb_le; exact Hk4|exact Hk6].
              ** right. split; [reflexivity|]. eauto.
              ** intros E. discriminate.
              ** right. split; [reflexivity|discriminate].
              ** intros Hc. split; [exact (proj1 (tk_cont _ _ _ _ _ HT Hc))|intros E; discriminate].
              ** intros y bq [E|[]]. right. congruence.
           ++ intros _. split; [|exact Hbps]. cbn [st_c st_h s_r]. eapply LineG_rkey; [|exact HLGp]. rewrite E6r, Er4, Er1. reflexivity.
    + (* the paragraph held only link reference definitions *)
      destruct Hr as [last' [ED' [EN' [HO4 [Hk4 [Earr4 [Er4 Hlen4]]]]]]]. subst D N.
      cbn [bind] in H. injection H as <-.
      assert (~ pendingP s4 parent) as Hnpp4.
      { rewrite Hpar. eapply not_pending_kind; [exact Hk4|eauto|exact Hnpp1]. }
      exists [], []. split; [|split].
      * split; [exact HO4|]. split; [exact Hpar|]. split; [eapply (CC topN_kind); eassumption|apply PndF_not_pending; exact Hnpp4].
      * assert (D0 = [(last', PParagraph)]) as ED0.
        { destruct (tk_D _ _ _ _ _ HT) as [E|[E _]]; [congruence|discriminate E]. }
        constructor; auto.
        -- pose proof (tk_len _ _ _ _ _ HT). rewrite Eh1, app_length in Hlen4. lia.
        -- eapply kb_le_trans; [exact (tk_kb _ _ _ _ _ HT)|]. eapply kb_le_trans; [apply kind_kb_le; exact Hk1|apply kind_kb_le; exact Hk4].
        -- right. split; [reflexivity|]. eauto.
        -- intros _. rewrite Earr4, Ec1. apply (tk_arr _ _ _ _ _ HT). reflexivity.
        -- destruct (tk_res _ _ _ _ _ HT) as [Hr|[_ Hr]]; [left; exact Hr|congruence].
        -- discriminate.
        -- intros y bq [].
      * intros Hp. exfalso. exact (Hnpp4 Hp).
  - (* not the first item: the list before the paragraph *)
    destruct (CC last_para_pos _ _ _ _ _ _ _ _ HS Epn Hpdl Hlin Eln Kln) as [HlAN HlD].
    assert (s_c s1 = s_c s /\ s_r s1 = s_r sp) as [Ec1 Er1] by (rewrite Es1; cbn [st_h s_c s_r]; auto).
    destruct (hs_K _ _ _ HhS _ pn node Epn Hnin) as [nl' [Enl' Pnl]]. assert (nl' = nl) by congruence. subst nl'.
    cbn [bind] in H. rewrite Es1 in H. cbn [st_h s_h s_c] in H. bind_inv H h2 Eh2. bind_inv H s2 Es2. bind_inv H h3 Eh3. injection H as <-.
    rewrite <- Ehp in Eh1, Enl.
    destruct (tail_old FF sp D N parent node nl w' (para_ref l) blank (last_opened (s_c s)) h1 h2 s2 h3)
      as [HO3 [Hlen3 [Hk3 [E3l [Hoth3 [E2r _]]]]]]; auto.
    + split; [exact HSp|split; assumption].
    + rewrite Hpar. exact Pnl.
    + rewrite Ehp. exact Htop.
    + intros Hi. eapply (CC spine_not_child_of_last); [exact HhS|exact HoS|exact Hi|]. exists pn. auto.
    + intros x bq n Hin _ Ex' Hdl. rewrite Ehp in Ex'. exact (nopend_parent FF s D N HS Hnpp x bq n Hin Ex' Hdl).
    + intros last lp Elo. pose proof (CC last_opened_spec _ _ HO) as Hs. rewrite Elo in Hs. destruct Hs as [E' HE].
      destruct (CE last_attached _ _ _ _ _ _ _ _ HSp HE) as [q' [nx [Ex' Px]]]. eauto.
    + assert (node <> l) as Hnl. { intros E. rewrite E in Enl. rewrite Ehp in Enl. assert (nl = ln) by congruence. subst nl.
        apply is_dl_kind in Hnld. destruct Hnld as [Kd _]. congruence. }
      exists D, (N ++ [(node, PHTML)]). split; [|split].
      * split; [exact HO3|]. split; [rewrite app_assoc; rewrite (CE lastid_ids_snoc); reflexivity|]. split.
        -- intros E' y bq HE. rewrite app_assoc in HE. apply app_inj_tail in HE. destruct HE as [_ HE]. injection HE as <- <-.
           cbn [st_c st_h s_h]. eexists. split; [exact E3l|]. unfold cnt, is_dl in *. cbn [set_par set_blank set_seg set_i2 bk b_i1].
           rewrite Hnld, Bool.orb_true_r. reflexivity.
        -- intros pn' sg' Epn' Hd' Hsg'. cbn [st_c st_h s_h] in Epn'. rewrite E3l in Epn'. injection Epn' as <-.
           cbn [set_par set_blank set_seg b_seg para_ref] in Hsg'. injection Hsg' as <-. rewrite para_ref_nat. split; [|split].
           ++ rewrite <- Ehp in Eln. destruct (kb_le_nth _ _ _ _ Hk3 Eln) as [ln' [Eln' [Kln' _]]]. exists ln'. cbn [st_c st_h s_h]. split; [exact Eln'|congruence].
           ++ rewrite app_assoc, (CC ids_snoc). cbn [fst]. intros Hi. apply in_app_or in Hi. destruct Hi as [Hi|[Hi|[]]]; [exact (HlAN Hi)|congruence].
           ++ exact HlD.
      * eapply Trk_push; [exact HT| |right; reflexivity]. cbn [st_c st_h s_h]. rewrite <- Ehp. exact Hk3.
      * intros _. split; [|exact Hbps]. cbn [st_c st_h s_r]. eapply LineG_rkey; [|exact HLGp]. rewrite E2r. reflexivity.
  - (* a further description of the last term: the list is the last child *)
    subst node.
    assert (s_c s1 = s_c s /\ s_r s1 = s_r sp) as [Ec1 Er1] by (rewrite Es1; cbn [st_h s_c s_r]; auto).
    destruct (hs_K _ _ _ HhS _ pn l Epn Hlin) as [nl' [Enl' Pnl]]. assert (nl' = ln) by congruence. subst nl'.
    cbn [bind] in H. rewrite Es1 in H. cbn [st_h s_h s_c] in H. bind_inv H h2 Eh2. bind_inv H s2 Es2. bind_inv H h3 Eh3. injection H as <-.
    rewrite <- Ehp in Eh1, Eln.
    destruct (tail_old FF sp D N parent l ln w' None blank (last_opened (s_c s)) h1 h2 s2 h3)
      as [HO3 [Hlen3 [Hk3 [E3l [Hoth3 [E2r _]]]]]]; auto.
    + split; [exact HSp|split; assumption].
    + rewrite Hpar. exact Pnl.
    + rewrite Ehp. exact Htop.
    + intros Hi. eapply (CC spine_not_child_of_last); [exact HhS|exact HoS|exact Hi|]. exists pn. auto.
    + intros x bq n Hin _ Ex' Hdl. rewrite Ehp in Ex'. exact (nopend_parent FF s D N HS Hnpp x bq n Hin Ex' Hdl).
    + intros last lp Elo. pose proof (CC last_opened_spec _ _ HO) as Hs. rewrite Elo in Hs. destruct Hs as [E' HE].
      destruct (CE last_attached _ _ _ _ _ _ _ _ HSp HE) as [q' [nx [Ex' Px]]]. eauto.
    + assert (~ pendingP (st_c (st_h s2 h3) (push_opened (s_c s2) (l, PHTML))) l) as Hnp3.
      { intros [n6 [E6 [_ Hs6]]]. cbn [st_c st_h s_h] in E6. rewrite E3l in E6. injection E6 as <-. apply Hs6. reflexivity. }
      exists D, (N ++ [(l, PHTML)]). split; [|split].
      * split; [exact HO3|]. split; [rewrite app_assoc; rewrite (CE lastid_ids_snoc); reflexivity|]. split.
        -- intros E' y bq HE. rewrite app_assoc in HE. apply app_inj_tail in HE. destruct HE as [_ HE]. injection HE as <- <-.
           cbn [st_c st_h s_h]. eexists. split; [exact E3l|]. unfold cnt, is_dl in *. cbn [set_par set_blank set_seg set_i2 bk b_i1].
           rewrite Hlnd, Bool.orb_true_r. reflexivity.
        -- apply PndF_not_pending. exact Hnp3.
      * eapply Trk_push; [exact HT| |right; reflexivity]. cbn [st_c st_h s_h]. rewrite <- Ehp. exact Hk3.
      * intros Hp. exfalso. exact (Hnp3 Hp).
Qed.

Lemma pendingP_same s s1 x : s_h s1 = s_h s -> pendingP s1 x -> pendingP s x.
Proof. unfold pendingP. intros ->. auto. Qed.

Lemma DShape_core_head q rest : DShape (DCore q :: rest) -> Forall isCoreP (DCore q :: rest).
Proof. intros [H|[[r [E _]]|[r [E _]]]]; [exact H|discriminate E|discriminate E]. Qed.

Lemma npend_TPre s D N parent : TPre s D N parent -> ~ pendingP s parent -> npend (s_h s) N.
Proof.
  intros [[HS _] [Hpar _]] Hnp n En Hdl. destruct (CC exists_last_or_nil N) as [->|[N' [e EN]]].
  - exfalso. change (lastid (ids [])) with 0%nat in En. destruct HS as [_ HH]. destruct (hs_root _ _ _ (hi_heap _ _ _ _ _ _ _ _ HH)) as [n0 [E0 [K0 _]]].
    assert (n0 = n) by congruence. subst n0. apply is_dl_kind in Hdl. destruct Hdl as [Kd _]. congruence.
  - destruct (b_seg n) as [sg|] eqn:Esg; [exfalso|reflexivity]. apply Hnp. rewrite Hpar, (lastid_app_ne A N) by (rewrite EN; destruct N'; discriminate).
    exists n. csplit; auto. congruence.
Qed.

(* ---------- the parsers of a line, in their order ---------- *)
Lemma try_parsersD_ok blank w : forall bps s D N parent res cont t, TPre s D N parent -> Trk s D N res cont ->
  DShape bps -> (~ Forall isCoreP bps -> Off s w) ->
  (pendingP s parent -> w <= 3 /\ guardC s /\ ~ Forall isCoreP bps) ->
  try_parsersD space_table punct_table norm re_t1o re_t2 re_t3 re_t4 re_t5 re_t6 re_t7 allowed_tags
    bps parent blank cont res w s = Ok t -> TPost bps cont t.
Proof.
  induction bps as [|bp rest IH]; intros s D N parent res cont t HP HT Hsh Hoff Hpe H.
  - cbn [try_parsersD] in H. injection H as <-. exists D, N. pose proof HP as [HO _]. csplit; auto.
    + apply (CE OInv_FW). exact HO.
    + eapply npend_TPre; [exact HP|]. intros Hp. destruct (Hpe Hp) as [_ [_ Hn]]. apply Hn. constructor.
  - rewrite try_parsersD_cons in H.
    assert (forall t', TPost rest cont t' -> TPost (bp :: rest) cont t') as Hincl by (intros t' Ht'; eapply TPost_incl; [|exact Ht']; intros x Hx; right; exact Hx).
    assert (~ Forall isCoreP rest -> ~ Forall isCoreP (bp :: rest)) as Hnc.
    { intros Hn Hf. apply Hn. inversion Hf; assumption. }
    destruct (cont && (res =? noBlocksOpened) && negb (can_interrupt_paragraphD bp))%bool eqn:Esk1.
    { apply Hincl. eapply IH; try eassumption; [eapply DShape_tl; exact Hsh|auto|].
      intros Hp. exfalso. destruct (Hpe Hp) as [_ [_ Hn]]. apply Hn.
      destruct bp as [q| |]; [apply DShape_core_head; exact Hsh| |]; cbn [can_interrupt_paragraphD negb] in Esk1; rewrite Bool.andb_false_r in Esk1; discriminate. }
    destruct ((3 <? w) && negb (can_accept_indentedD bp))%bool eqn:Esk2.
    { apply Hincl. eapply IH; try eassumption; [eapply DShape_tl; exact Hsh|auto|].
      intros Hp. exfalso. destruct (Hpe Hp) as [Hw _]. apply andb_true_iff in Esk2. destruct Esk2 as [Esk2 _]. lia. }
    bind_inv H x Ex. destruct x as [s1 o]. pose proof HP as [[HS [HO Hu]] [Hpar [Htop HPF]]].
    destruct bp as [q| |]; cbn [p_openD recorded] in Ex, H.
    + (* a parser of the default configuration *)
      assert (~ pendingP s parent) as Hnpp.
      { intros Hp. destruct (Hpe Hp) as [_ [_ Hn]]. apply Hn. apply DShape_core_head. exact Hsh. }
      destruct o as [[[node hc] rp]|]; [apply Hincl; eapply opened_core_ok; eassumption|].
      pose proof (PC_of_top _ _ _ HS Htop) as HPC.
      pose proof (CC p_open_spec q s parent s1 _ A D N HS HO HPC Ex) as [Ea [El [HS1 Eh1]]].
      apply Hincl. eapply IH; [eapply TPre_same; eassumption|eapply Trk_same; eassumption|eapply DShape_tl; exact Hsh| | |exact H].
      * intros Hn. exfalso. apply Hn. pose proof (DShape_core_head _ _ Hsh) as Hf. inversion Hf; assumption.
      * intros Hp. exfalso. apply Hnpp. eapply pendingP_same; eassumption.
    + (* the list parser *)
      assert (Off s w) as Hoffs.
      { apply Hoff. intros Hf. inversion Hf as [|? ? Hc _]. exact Hc. }
      destruct o as [[[node hc] rp]|]; [eapply opened_deflist_ok; try eassumption; left; reflexivity|].
      pose proof (CC deflist_open_raw s parent s1 _ A D N HS Ex) as [HS1 [Eh1 [Ec1 Ek1]]].
      apply Hincl. eapply IH; [eapply TPre_same; try eassumption; rewrite Ec1; reflexivity|eapply Trk_same; [exact HT|exact Eh1|rewrite Ec1; reflexivity]
                              |eapply DShape_tl; exact Hsh| | |exact H].
      * intros _. eapply Off_rkey; [exact Ek1|rewrite Ec1; reflexivity|rewrite Ec1; reflexivity|exact Hoffs].
      * intros Hp. apply (pendingP_same _ _ _ Eh1) in Hp. destruct (Hpe Hp) as [Hw [Hg _]]. csplit; auto.
        -- eapply guardC_rkey; [exact Ek1|rewrite Ec1; reflexivity|rewrite Ec1; reflexivity|exact Hg].
        -- destruct Hsh as [Hf|[[r [E _]]|[r [E _]]]]; [inversion Hf as [|? ? Hc _]; destruct Hc|discriminate E|].
           injection E as ->. intros Hf. inversion Hf as [|? ? Hc _]. exact Hc.
    + (* the description parser *)
      destruct (CC defdesc_open_ok s parent s1 o A D N HS Hpar HPF Ex) as [Ec1 Hpost].
      destruct o as [[[node hc] rp]|]; [eapply opened_defdesc_ok; eassumption|].
      destruct Hpost as [HS1 [Eh1 [Ek1 Hgd]]].
      assert (~ pendingP s parent) as Hnpp.
      { intros Hp. destruct (Hpe Hp) as [_ [Hg _]]. destruct (Hgd Hg) as [pn [Epn Hpd]]. destruct Hp as [pn' [Epn' [Hd' _]]]. congruence. }
      apply Hincl. eapply IH; [eapply TPre_same; try eassumption; rewrite Ec1; reflexivity|eapply Trk_same; [exact HT|exact Eh1|rewrite Ec1; reflexivity]
                              |eapply DShape_tl; exact Hsh| | |exact H].
      * intros Hn. exfalso. apply Hn. destruct Hsh as [Hf|[[r [E Hr]]|[r [E _]]]]; [inversion Hf; assumption| |discriminate E].
        injection E as ->. exact Hr.
      * intros Hp. exfalso. apply Hnpp. eapply pendingP_same; eassumption.
Qed.

Lemma candidatesD_shape deflist c : DShape (candidatesD deflist c) /\ (In DDefList (candidatesD deflist c) -> deflist = true).
Proof.
  unfold candidatesD. destruct (deflist && N.eqb c 58)%bool eqn:E.
  - apply andb_true_iff in E. destruct E as [-> _]. split; [|reflexivity]. right. right. exists (map DCore free_parsers). split; [reflexivity|apply Forall_core_map].
  - split; [left; apply Forall_core_map|]. intros Hin. apply in_map_iff in Hin. destruct Hin as [q [Eq _]]. discriminate Eq.
Qed.

Lemma at_nth_byte l pos c : at_ l pos = Ok c -> pos < zlen l /\ 0 <= pos /\ nth_byte l pos = c.
Proof.
  unfold at_, nth_byte. destruct ((0 <=? pos) && (pos <? zlen l))%bool eqn:E; [|discriminate]. intros H. injection H as <-.
  apply andb_true_iff in E. destruct E as [E1 E2]. csplit; auto; lia.
Qed.

Lemma open_blocks_loopD_ok deflist blank : forall fuel parent s D N res cont res' cont' s', TPre s D N parent -> Trk s D N res cont ->
  (pendingP s parent -> deflist = true /\ LineG (s_r s)) ->
  open_blocks_loopD deflist space_table punct_table norm re_t1o re_t2 re_t3 re_t4 re_t5 re_t6 re_t7 allowed_tags
    fuel parent blank cont res s = Ok (res', cont', s') ->
  exists D' N', OInv WW s' A D' N' /\ Trk s' D' N' res' cont' /\ (N' = [] -> OInv FF s' A D' N') /\ npend (s_h s') N'.
Proof.
  induction fuel as [|f IH]; intros parent s D N res cont res' cont' s' HP HT Hpl H; [discriminate|].
  cbn [open_blocks_loopD] in H. bind_inv H x Ex. destruct x as [[s1 line] sg].
  pose proof HP as [[HS [HO Hu]] [Hpar [Htop HPF]]].
  destruct (CC peek_s_rline _ _ _ _ _ _ _ HS Ex) as [HS1 [Eh1 [Ec1 [Ek1 El]]]].
  bind_inv H y Ey. destruct y as [s2 off].
  destruct (CC loff_s_ok _ _ _ _ _ _ HS1 Ey) as [HS2 [Eh2 [Ec2 _]]].
  destruct (CC loff_s_rkey _ _ _ (proj1 (proj1 HS1)) Ey) as [Ek2 Eoff].
  assert (rkey (s_r s2) = rkey (s_r s)) as Ek by congruence.
  assert (off = r_column (s_r s) (r_head (s_r s))) as Eoff'.
  { destruct (rkey_view _ _ Ek1) as [_ [Ecol _]]. congruence. }
  destruct (indent_width (line_of line) off) as [w pos] eqn:Eiw.
  match type of H with context [st_c s2 ?c] => set (c3 := c) in * end.
  assert (c_tmp_para c3 = c_tmp_para (s_c s2) /\ c_fence c3 = c_fence (s_c s2) /\ c_refs c3 = c_refs (s_c s2) /\
          c_arr c3 = c_arr (s_c s2) /\ c_len c3 = c_len (s_c s2)) as [C1 [C2 [C3 [C4 C5]]]].
  { unfold c3. destruct (zlen (line_of line) <=? w); cbn [cset_off c_tmp_para c_fence c_refs c_arr c_len]; auto. }
  assert (TPre (st_c s2 c3) D N parent) as HP3.
  { eapply TPre_same; [exact HP|apply (CC SInv_ctx); auto|cbn [st_c s_h]; congruence|cbn [st_c s_c]; congruence|cbn [st_c s_c]; congruence]. }
  assert (Trk (st_c s2 c3) D N res cont) as HT3.
  { eapply Trk_same; [exact HT|cbn [st_c s_h]; congruence|cbn [st_c s_c]; congruence]. }
  assert (rline (s_r (st_c s2 c3)) = line) as Erl by (cbn [st_c s_r]; rewrite (rline_rkey _ _ Ek); symmetry; exact El).
  assert (r_column (s_r (st_c s2 c3)) (r_head (s_r (st_c s2 c3))) = off) as Ecol3.
  { cbn [st_c s_r]. destruct (rkey_view _ _ Ek) as [_ [Ecol _]]. congruence. }
  assert (pendingP (st_c s2 c3) parent -> pendingP s parent) as Hpb.
  { apply pendingP_same. cbn [st_c s_h]. congruence. }
  (* when a list is waiting for its description, the line passes the guards *)
  assert (pendingP s parent -> deflist = true /\ skipl line = false /\ w = 0 /\ at_ (line_of line) pos = Ok 58%N) as Hpl'.
  { intros Hp. destruct (Hpl Hp) as [Hd [Hsk [pos' [Eiw' Hat]]]]. rewrite <- El, <- Eoff' in *. rewrite Eiw in Eiw'. injection Eiw' as -> ->. auto. }
  change (match line with Some [] => true | Some (c :: _) => N.eqb c 10 | None => true end) with (skipl line) in H.
  destruct (skipl line) eqn:Esk.
  - injection H as <- <- <-. exists D, N. pose proof HP3 as [HO3 _]. csplit; auto; [apply (CE OInv_FW); exact HO3|].
    eapply (npend_TPre (st_c s2 c3)); [exact HP3|].
    intros Hp. destruct (Hpl' (Hpb Hp)) as [_ [Hsk _]]. congruence.
  - bind_inv H t Et.
    match type of Et with try_parsersD _ _ _ _ _ _ _ _ _ _ _ ?b _ _ _ _ _ _ = _ => set (bps := b) in * end.
    assert (DShape bps /\ (In DDefList bps -> deflist = true)) as [Hsh Hdf].
    { unfold bps. destruct (pos <? zlen (line_of line)); [apply candidatesD_shape|].
      split; [left; apply Forall_core_map|]. intros Hin. apply in_map_iff in Hin. destruct Hin as [q [Eq _]]. discriminate Eq. }
    assert (Off (st_c s2 c3) w) as Hoff.
    { split; [rewrite Erl; exact Esk|]. rewrite Erl, Ecol3. exists w, pos. split; [exact Eiw|]. split; [reflexivity|].
      unfold c3. cbn [st_c s_c]. destruct (zlen (line_of line) <=? w); cbn [cset_off c_boff c_bind]; auto. }
    assert (pendingP (st_c s2 c3) parent -> w <= 3 /\ guardC (st_c s2 c3) /\ ~ Forall isCoreP bps) as Hpe.
    { intros Hp. destruct (Hpl' (Hpb Hp)) as [Hd [_ [-> Hat]]]. destruct (at_nth_byte _ _ _ Hat) as [Hlt [Hp0 Hnb]].
      split; [lia|]. split.
      - unfold guardC. rewrite Erl. unfold c3. cbn [st_c s_c]. destruct (Z.leb_spec (zlen (line_of line)) 0) as [Hz|Hz]; [lia|].
        cbn [cset_off c_boff c_bind]. auto.
      - unfold bps. destruct (Z.ltb_spec pos (zlen (line_of line))) as [_|Hge]; [|lia]. rewrite Hnb. unfold candidatesD. rewrite Hd.
        cbn [andb N.eqb Pos.eqb app]. intros Hf. inversion Hf as [|? ? Hc _]. exact Hc. }
    pose proof (try_parsersD_ok blank w bps _ _ _ _ _ _ _ HP3 HT3 Hsh (fun _ => Hoff) Hpe Et) as Ht. destruct t as [p' c' r' st'|r' st'].
    + destruct Ht as [D' [N' [HP' [HT' Hpn']]]]. eapply IH; [exact HP'|exact HT'| |exact H].
      intros Hp. destruct (Hpn' Hp) as [HLG Hin]. split; [exact (Hdf Hin)|exact HLG].
    + injection H as <- <- <-. exact Ht.
Qed.

End Track.

Lemma npend_nil fl s A D N : SInv fl s A D N -> npend (s_h s) [].
Proof.
  intros [_ HH] n En Hdl. exfalso. change (lastid (ids [])) with 0%nat in En.
  destruct (hs_root _ _ _ (hi_heap _ _ _ _ _ _ _ _ HH)) as [n0 [E0 [K0 _]]].
  assert (n0 = n) by congruence. subst n0. apply is_dl_kind in Hdl. destruct Hdl as [Kd _]. congruence.
Qed.

(* ---------- openBlocks ---------- *)
Lemma open_blocksD_ok deflist fuel parent blank s A D res s' : OInv FF s A D [] -> topN (s_h s) A -> parent = lastid (ids A) ->
  open_blocksD deflist space_table punct_table norm re_t1o re_t1c re_t2 re_t3 re_t4 re_t5 re_t6 re_t7 allowed_tags
    fuel parent blank s = Ok (res, s') ->
  exists D' N', OInv WW s' A D' N' /\
    (D' = D \/ (D' = [] /\ exists x, D = [(x, PParagraph)] /\ ~ In x (ids N') /\ (N' = [] -> c_arr (s_c s') = c_arr (s_c s)))) /\
    (res = paragraphContinuation -> D' = D /\ N' = [] /\ shape_le (s_h s) (s_h s')) /\
    (res <> newBlocksOpened -> N' = []) /\ (length (s_h s) <= length (s_h s'))%nat /\ npend (s_h s') N'.
Proof.
  intros HO0 Htop Hpar H. unfold open_blocksD in H. bind_inv H cont0 Ec0. bind_inv H x Ex. destruct x as [[res1 cont1] s1].
  assert (~ pendingP s parent) as Hnpp.
  { intros [n [En [Hdl Hsg]]]. destruct HO0 as [[_ HH] _]. pose proof (hi_heap _ _ _ _ _ _ _ _ HH) as HhS.
    destruct (CC lastid_cases (ids A)) as [[_ E0]|[_ Hin]].
    - rewrite <- Hpar in E0. subst parent. destruct (hs_root _ _ _ HhS) as [n0 [En0 [K0 _]]]. rewrite E0 in En.
      assert (n0 = n) by congruence. subst n0. apply is_dl_kind in Hdl. destruct Hdl as [Kd _]. congruence.
    - rewrite <- Hpar in Hin. apply in_ids_inv in Hin. destruct Hin as [bq Hin].
      assert (In (parent, bq) (A ++ D ++ [])) as Hin2 by (apply in_or_app; left; exact Hin).
      destruct (os_pend _ _ _ _ _ _ (hi_open _ _ _ _ _ _ _ _ HH) parent bq n Hin2 En Hdl Hsg) as [HN _]. congruence. }
  assert (TPre A s D [] parent) as HP.
  { split; [exact HO0|]. rewrite app_nil_r. split; [exact Hpar|]. split; [exact Htop|]. apply (PndF_not_pending s A D cont0). exact Hnpp. }
  assert (Trk s D cont0 s D [] noBlocksOpened cont0) as HT.
  { constructor; auto. - apply kb_le_refl. - intros Hc. split; [exact Hc|]. intros _. split; [reflexivity|apply shape_le_refl]. - intros y bq []. }
  destruct (open_blocks_loopD_ok s A D cont0 deflist blank _ _ _ _ _ _ _ _ _ _ HP HT ltac:(intros Hp; exfalso; exact (Hnpp Hp)) Ex) as [D' [N' [HW1 [HT1 [HF1 Hnp1]]]]].
  assert (D' = D \/ (D' = [] /\ exists x, D = [(x, PParagraph)] /\ ~ In x (ids N') /\ (N' = [] -> c_arr (s_c s1) = c_arr (s_c s)))) as HD.
  { destruct (tk_D _ _ _ _ _ _ _ _ HT1) as [E|[E [x Ex']]]; [left; exact E|right]. split; [exact E|]. exists x. csplit; auto.
    - intros Hi. apply in_ids_inv in Hi. destruct Hi as [bq Hi].
      assert (In (x, PParagraph) (A ++ D ++ [])) as Hin by (rewrite Ex'; apply in_or_app; right; left; reflexivity).
      destruct (CE SInv_entry _ _ _ _ _ _ _ (proj1 HO0) Hin) as [nx [Enx [Kx Hlt]]]. cbn [pkind] in Kx.
      destruct (tk_new _ _ _ _ _ _ _ _ HT1 x bq Hi) as [Hge|Ebq]; [lia|subst bq].
      assert (In (x, PHTML) (A ++ D' ++ N')) as Hin' by (apply in_or_app; right; apply in_or_app; right; exact Hi).
      destruct (CE SInv_entry _ _ _ _ _ _ _ (proj1 HW1) Hin') as [nx' [Enx' [Kx' _]]]. cbn [pkind] in Kx'.
      destruct (tk_kb _ _ _ _ _ _ _ _ HT1 x nx Enx) as [nx2 [Enx2 [Kx2 _]]]. congruence.
    - exact (tk_arr _ _ _ _ _ _ _ _ HT1). }
  pose proof (tk_len _ _ _ _ _ _ _ _ HT1) as Hlen1.
  destruct ((res1 =? noBlocksOpened) && cont1)%bool eqn:Ecnd.
  - apply andb_true_iff in Ecnd. destruct Ecnd as [Er1 ->]. apply Z.eqb_eq in Er1. subst res1.
    destruct (tk_res _ _ _ _ _ _ _ _ HT1) as [[_ ->]|[Hr _]]; [|discriminate].
    destruct (tk_cont _ _ _ _ _ _ _ _ HT1 eq_refl) as [-> Hc]. destruct (Hc eq_refl) as [-> Hsh1].
    pose proof (HF1 eq_refl) as [HS1 [HO1 Hu1]].
    destruct (last_opened (s_c s1)) as [[l lp]|] eqn:Elo; [|discriminate].
    bind_inv H y Ey. destruct y as [[s2 c2] k2]. injection H as <- <-.
    pose proof (CC last_opened_spec _ _ HO1) as Hs. rewrite Elo in Hs. destruct Hs as [E' HE].
    destruct HO0 as [HS0 [HO0 Hu0]]. rewrite HE in HO0. rewrite (CE Oeq_last _ _ _ HO0) in Ec0.
    unfold is_paragraph in Ec0. bind_inv Ec0 nl Enl. apply hget_ok in Enl. injection Ec0 as Ek. apply (CC bkind_eqb_eq) in Ek.
    assert (In (l, lp) (A ++ D ++ [])) as Hin by (rewrite HE; apply in_or_app; right; left; reflexivity).
    destruct (CE SInv_entry _ _ _ _ _ _ _ HS0 Hin) as [n0 [En0 [K0 _]]]. assert (n0 = nl) by congruence. subst n0.
    assert (lp = PParagraph) as -> by (apply (CE pkind_para); congruence).
    destruct (Hsh1 l nl Enl) as [nl1 [Enl1 [Kl1 _]]]. apply bki_eq in Kl1. destruct Kl1 as [Kl1 _].
    apply (p_continueD_para _ _ nl1 _ Enl1 ltac:(congruence)) in Ey.
    cbn [p_continue] in Ey. bind_inv Ey z Ez. destruct z as [s2' c2']. cbn [fst snd] in Ey. injection Ey as <- <- <-.
    destruct (CC paragraph_continue_ok _ _ _ _ _ _ _ HS1 Hin Ez) as [Ea [El [Hcf Hct]]].
    pose proof (paragraph_continue_shape _ _ _ _ Ez) as Hsh2.
    exists D, []. csplit.
    + split; [destruct c2'; [apply Hct; reflexivity|apply (CC SInv_FW); apply Hcf; reflexivity]|].
      split; [eapply (CE Oeq_same); eassumption|exact Hu1].
    + left. reflexivity.
    + intros _. csplit; auto. eapply shape_le_trans; eassumption.
    + intros _. reflexivity.
    + apply shape_le_length in Hsh2. lia.
    + destruct c2'; [eapply npend_nil; apply Hct; reflexivity|eapply npend_nil; apply Hcf; reflexivity].
  - injection H as <- <-. exists D', N'. csplit; auto.
    + intros E. destruct (tk_res _ _ _ _ _ _ _ _ HT1) as [[Hr _]|[Hr _]]; rewrite Hr in E; discriminate.
    + intros Hne. destruct (tk_res _ _ _ _ _ _ _ _ HT1) as [[_ Hr]|[Hr _]]; [exact Hr|congruence].
Qed.

End N.
