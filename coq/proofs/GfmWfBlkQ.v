(* Helper library for GfmWfBlk.v, part Q: the lines the table paragraph transformer leaves in the
   paragraph (BlockParseX.cut_last_newline): cutting the newline of a line that is not the last
   line of its paragraph yields a paragraph line again. *)
Require Import GM.model.Base GM.model.Util GM.model.Reader GM.model.ReaderSpec GM.model.Blocks GM.model.ListItem
               GM.model.LeafBlocks GM.model.CodeBlock GM.model.LinkDest GM.model.Regex GM.model.HtmlWriter
               GM.model.Html GM.model.HtmlSpec GM.model.BlockParse GM.model.InlineParse GM.model.BlockParseX.
Require Import GM.proofs.ReaderProofs GM.proofs.BlockRangeProofs GM.proofs.ParseInv
               GM.proofs.ParseBlocksRangeA GM.proofs.GfmWfBlkB GM.proofs.GfmWfBlkC.
From Coq Require Import ZArith Lia Sorted.
Open Scope Z_scope.

(* the byte before the end of a line that is not the last line of the source is the newline *)
Lemma line_end_last_nl_nat src n : forall s, 0 <= s < zlen src -> (Z.to_nat (zlen src - s) <= n)%nat ->
  line_end src s < zlen src -> nth (Z.to_nat (line_end src s - 1)) src 0%N = 10%N.
Proof.
  induction n as [|n IH]; intros s Hs Hn Hlt; [lia|].
  destruct (N.eq_dec (nth (Z.to_nat s) src 0%N) 10%N) as [He|Hne].
  - rewrite (line_end_nl src s Hs He). replace (s + 1 - 1) with s by lia. exact He.
  - rewrite (line_end_nonl src s Hs Hne) in *.
    destruct (Z_lt_le_dec (s + 1) (zlen src)) as [Hl|Hl].
    + apply IH; lia.
    + rewrite line_end_eof in Hlt by lia. lia.
Qed.
Lemma line_end_last_nl src s : 0 <= s < zlen src -> line_end src s < zlen src ->
  nth (Z.to_nat (line_end src s - 1)) src 0%N = 10%N.
Proof. intros Hs. apply (line_end_last_nl_nat src (Z.to_nat (zlen src - s))); [exact Hs|lia]. Qed.

Lemma nth_skipn_add {X} (d : X) : forall k (l : list X) i, nth i (skipn k l) d = nth (k + i) l d.
Proof. induction k as [|k IH]; intros [|x l] i; cbn [skipn nth Nat.add]; auto. destruct i; reflexivity. Qed.

Lemma sub_snoc src a b : 0 <= a < b -> b <= zlen src ->
  sub src a b = sub src a (b - 1) ++ [nth (Z.to_nat (b - 1)) src 0%N].
Proof.
  intros Hab Hb. unfold sub.
  replace (Z.to_nat (b - a)) with (S (Z.to_nat (b - 1 - a))) by lia.
  assert (Z.to_nat (b - 1 - a) < length (skipn (Z.to_nat a) src))%nat as Hl.
  { rewrite skipn_length. unfold zlen in Hb. lia. }
  rewrite (ReaderProofs.firstn_succ_nth 0%N) by exact Hl. f_equal. f_equal.
  rewrite nth_skipn_add. f_equal. lia.
Qed.

Definition cutseg (l : seg) : seg :=
  {| s_start := s_start l; s_stop := s_stop l - 1; s_pad := s_pad l; s_fnl := s_fnl l |}.

Lemma cut_snoc pre l : cut_last_newline (pre ++ [l]) = pre ++ [cutseg l].
Proof.
  induction pre as [|a t IH]; [reflexivity|]. destruct t as [|b t']; [reflexivity|]. cbn [app] in *.
  change (cut_last_newline (a :: b :: t' ++ [l])) with (a :: cut_last_newline (b :: t' ++ [l])). rewrite IH. reflexivity.
Qed.

Section Q.
Variable space_table : list N.
Variable src : bytes.
Hypothesis sp32 : is_space space_table 32%N = true.
Hypothesis sp10 : is_space space_table 10%N = true.

Notation pline := (pline space_table src).
Notation oline := (oline src).
Notation LE := (LE src).
Notation leI := (leI src).

Lemma is_blank_app' a b : Reader.is_blank space_table (a ++ b) = (Reader.is_blank space_table a && Reader.is_blank space_table b)%bool.
Proof.
  induction a as [|c r IH]; cbn [app Reader.is_blank]; [reflexivity|]. rewrite IH. apply andb_assoc.
Qed.

(* a paragraph line that ends at the end of its source line and is followed by a later line *)
Lemma cutseg_pline l nx : pline l -> LE l -> pline nx -> s_stop l <= s_start nx ->
  pline (cutseg l) /\ s_start l < s_stop l - 1.
Proof.
  intros [[Hr [Hl Hp]] [Hf Hb]] Hle [[Hr2 [Hl2 Hp2]] [Hf2 Hb2]] Hord.
  assert (s_start nx <> s_stop nx) as Hne2. { intros E. rewrite sub_empty in Hb2 by lia. discriminate. }
  assert (s_start l <> s_stop l) as Hne. { intros E. rewrite sub_empty in Hb by lia. discriminate. }
  assert (s_stop l < zlen src) as Hlt by lia.
  unfold GfmWfBlkB.LE in Hle.
  assert (nth (Z.to_nat (s_stop l - 1)) src 0%N = 10%N) as Hnl.
  { rewrite Hle. apply line_end_last_nl; lia. }
  rewrite (sub_snoc src (s_start l) (s_stop l)) in Hb by lia. rewrite Hnl, is_blank_app' in Hb.
  cbn [Reader.is_blank] in Hb. rewrite sp10 in Hb. cbn [andb] in Hb. rewrite Bool.andb_true_r in Hb.
  assert (s_start l <> s_stop l - 1) as Hne3. { intros E. rewrite sub_empty in Hb by lia. discriminate. }
  split; [|lia]. unfold GfmWfBlkB.pline, seg_inr, cutseg. cbn [s_start s_stop s_pad s_fnl]. csplit; auto; lia.
Qed.

Lemma sorted_last_any (pre : list seg) x y : sorted_segs (pre ++ [x]) -> s_start y = s_start x -> sorted_segs (pre ++ [y]).
Proof.
  intros H E. induction pre as [|a t IH]; cbn [app] in *.
  - constructor; constructor.
  - inversion H as [|? ? Ht Ha]; subst. constructor; [apply IH; exact Ht|].
    apply Forall_app in Ha. destruct Ha as [H1 H2]. apply Forall_app. split; [exact H1|].
    inversion H2; subst. constructor; [lia|constructor].
Qed.

Lemma sorted_app_l (a b : list seg) : sorted_segs (a ++ b) -> sorted_segs a.
Proof.
  induction a as [|x t IH]; intros H; [constructor|]. cbn [app] in H. inversion H as [|? ? Ht Hx]; subst.
  constructor; [apply IH; exact Ht|]. apply Forall_app in Hx. apply Hx.
Qed.

Lemma sorted_app_cross (a b : list seg) x y : sorted_segs (a ++ b) -> In x a -> In y b -> s_stop x <= s_start y.
Proof.
  induction a as [|z t IH]; intros H Hx Hy; [destruct Hx|]. cbn [app] in H. inversion H as [|? ? Ht Hz]; subst.
  destruct Hx as [->|Hx]; [|apply IH; assumption]. rewrite Forall_forall in Hz. apply Hz. apply in_or_app. right. exact Hy.
Qed.

(* the lines the table transformer leaves in a paragraph whose lines are L = before ++ hdr :: rest *)
Lemma cut_lines_ok before hdr rest : before <> [] ->
  Forall pline (before ++ hdr :: rest) -> sorted_segs (before ++ hdr :: rest) -> leI (before ++ hdr :: rest) ->
  Forall pline (cut_last_newline before) /\ sorted_segs (cut_last_newline before) /\ leI (cut_last_newline before) /\
  cut_last_newline before <> [] /\
  (forall sg, In sg (cut_last_newline before) -> exists sg0, In sg0 before /\ s_stop sg <= s_stop sg0) /\
  (Forall oline before -> Forall oline (cut_last_newline before)).
Proof.
  intros Hne Hpl Hso Hli.
  destruct (exists_last Hne) as [pre [lst ->]]. rewrite cut_snoc.
  apply leI_app in Hli; [|discriminate]. destruct Hli as [Hle _].
  apply Forall_app in Hpl. destruct Hpl as [Hp1 Hp2]. inversion Hp2 as [|? ? Hph _]; subst.
  apply Forall_app in Hp1. destruct Hp1 as [Hpp Hpl]. inversion Hpl as [|? ? Hpl1 _]; subst.
  apply Forall_app in Hle. destruct Hle as [Hlp Hll]. inversion Hll as [|? ? Hll1 _]; subst.
  assert (s_stop lst <= s_start hdr) as Hord.
  { eapply sorted_app_cross; [exact Hso|apply in_or_app; right; left; reflexivity|left; reflexivity]. }
  destruct (cutseg_pline lst hdr Hpl1 Hll1 Hph Hord) as [Hpc Hlt].
  csplit.
  - apply Forall_app. split; [exact Hpp|]. constructor; [exact Hpc|constructor].
  - eapply sorted_last_any; [eapply sorted_app_l; exact Hso|reflexivity].
  - apply leI_snoc. exact Hlp.
  - destruct pre; discriminate.
  - intros sg Hsg. apply in_app_or in Hsg. destruct Hsg as [Hsg|[<-|[]]].
    + exists sg. split; [apply in_or_app; left; exact Hsg|lia].
    + exists lst. split; [apply in_or_app; right; left; reflexivity|cbn [cutseg s_stop]; lia].
  - intros Ho. apply Forall_app in Ho. destruct Ho as [Ho1 Ho2]. inversion Ho2 as [|? ? [O1 [O2 [O3 O4]]] _]; subst.
    apply Forall_app. split; [exact Ho1|]. constructor; [|constructor].
    unfold GfmWfBlkB.oline, cutseg. cbn [s_start s_stop s_pad s_fnl]. csplit; auto; lia.
Qed.

End Q.
