(* C11 for the Typographer / DefinitionList parser model, the frame of the block reader: no
   function of the inline phase changes the source, the segments or the end (b_src, b_segs,
   b_last) of the block reader - only new_block_reader / b_reset_position set them.  (The copy
   of the b_src frame of proofs/GfmConservativeSrc.v for the three fields together.) *)
Require Import GM.model.Base GM.model.Util GM.model.Reader GM.model.Blocks GM.model.ListItem
               GM.model.LeafBlocks GM.model.CodeSpan GM.model.LinkDest GM.model.Regex GM.model.Delim
               GM.model.HtmlWriter GM.model.Html GM.model.BlockParse GM.model.InlineParse.
Require Import GM.proofs.GfmConservativeDefs GM.proofs.GfmConservativeSrc.
From Coq Require Import List ZArith NArith Bool Lia.
Import ListNotations.
Open Scope Z_scope.

(* what the inline phase leaves alone *)
Definition bfr (r : breader) : bytes * list seg * Z := (b_src r, b_segs r, b_last r).
Lemma bfr_src r r' : bfr r' = bfr r -> b_src r' = b_src r.
Proof. unfold bfr. intros H. injection H as H1 H2 H3. exact H1. Qed.
Lemma bfr_segs r r' : bfr r' = bfr r -> b_segs r' = b_segs r.
Proof. unfold bfr. intros H. injection H as H1 H2 H3. exact H2. Qed.
Lemma bfr_last r r' : bfr r' = bfr r -> b_last r' = b_last r.
Proof. unfold bfr. intros H. injection H as H1 H2 H3. exact H3. Qed.

(* H : (if b then _ else _) = _ : case analysis on b *)
Local Ltac dif H := match type of H with (if ?b then _ else _) = _ => destruct b end.
Local Ltac difn H E := match type of H with (if ?b then _ else _) = _ => destruct b eqn:E end.

(* ================= 1. the block reader keeps its source ================= *)
Lemma b_set_position_fr r line pos r' : b_set_position r line pos = Ok r' -> bfr r' = bfr r.
Proof.
  unfold b_set_position. intros H.
  destruct (s_start pos =? -1); destruct (_ <? _); try (gc_bind H s Es); injection H as <-; reflexivity.
Qed.

Lemma b_advance_line_fr r r' : b_advance_line r = Ok r' -> bfr r' = bfr r.
Proof.
  unfold b_advance_line. intros H. gc_bind H r1 E1. injection H as <-. apply b_set_position_fr in E1. exact E1.
Qed.

Lemma b_advance_slow_fr : forall fuel r n r', b_advance_slow fuel r n = Ok r' -> bfr r' = bfr r.
Proof.
  induction fuel as [|f IH]; intros r n r' H; [discriminate|]. cbn [b_advance_slow] in H.
  destruct (0 <? n); [|injection H as <-; reflexivity].
  destruct (negb (s_pad (b_pos r) =? 0)); [apply IH in H; exact H|].
  destruct (_ && _).
  - gc_bind H r1 E1. apply IH in H. apply b_advance_line_fr in E1. congruence.
  - apply IH in H. exact H.
Qed.

Lemma b_advance_fr r n r' : b_advance r n = Ok r' -> bfr r' = bfr r.
Proof.
  unfold b_advance. intros H. destruct (_ && _); [injection H as <-; reflexivity|].
  apply b_advance_slow_fr in H. exact H.
Qed.


Lemma b_peek_line_fr r r' l sg : b_peek_line r = Ok (r', l, sg) -> bfr r' = bfr r.
Proof. intros H. apply b_peek_line_same in H. subst r'. reflexivity. Qed.

Lemma skip_spaces_inner_fr tbl : forall l i r chars sg r' res,
  skip_spaces_inner tbl breader b_advance l i r chars sg = Ok (r', res) -> bfr r' = bfr r.
Proof.
  induction l as [|c l IH]; intros i r chars sg r' res H; cbn [skip_spaces_inner] in H.
  - injection H as <- <-. reflexivity.
  - destruct (is_space tbl c); [|injection H as <- <-; reflexivity].
    gc_bind H r1 E1. apply IH in H. apply b_advance_fr in E1. congruence.
Qed.

Lemma skip_spaces_fr tbl : forall fuel r chars r' sg ch ok,
  skip_spaces tbl breader b_peek_line b_advance fuel r chars = Ok (r', sg, ch, ok) -> bfr r' = bfr r.
Proof.
  induction fuel as [|f IH]; intros r chars r' sg ch ok H; [discriminate|]. cbn [skip_spaces] in H.
  gc_bind H x Ex. destruct x as [[r1 l] sg1]. apply b_peek_line_same in Ex. subst r1.
  destruct l as [l|]; [|injection H as <- <- <- <-; reflexivity].
  gc_bind H y Ey. destruct y as [r2 [[sg' ch']|]].
  - injection H as <- <- <- <-. eapply skip_spaces_inner_fr. exact Ey.
  - apply skip_spaces_inner_fr in Ey. apply IH in H. congruence.
Qed.

Lemma b_skip_spaces_fr tbl fuel r r' sg ch ok :
  b_skip_spaces tbl fuel r = Ok (r', sg, ch, ok) -> bfr r' = bfr r.
Proof. unfold b_skip_spaces. apply skip_spaces_fr. Qed.

Lemma skip_blank_lines_fr tbl : forall fuel r lines r' sg n ok,
  skip_blank_lines tbl breader b_peek_line b_advance_line fuel r lines = Ok (r', sg, n, ok) -> bfr r' = bfr r.
Proof.
  induction fuel as [|f IH]; intros r lines r' sg n ok H; [discriminate|]. cbn [skip_blank_lines] in H.
  gc_bind H x Ex. destruct x as [[r1 l] sg1]. apply b_peek_line_same in Ex. subst r1.
  destruct l as [l|]; [|injection H as <- <- <- <-; reflexivity].
  dif H; [|injection H as <- <- <- <-; reflexivity].
  gc_bind H r2 E2. apply b_advance_line_fr in E2. apply IH in H. congruence.
Qed.

Lemma b_skip_blank_lines_fr tbl fuel r r' sg n ok :
  b_skip_blank_lines tbl fuel r = Ok (r', sg, n, ok) -> bfr r' = bfr r.
Proof. unfold b_skip_blank_lines. apply skip_blank_lines_fr. Qed.

Lemma read_rune_fr r r' rn w eof :
  read_rune breader b_peek_line b_advance r = Ok (r', rn, w, eof) -> bfr r' = bfr r.
Proof.
  unfold read_rune. intros H. gc_bind H x Ex. destruct x as [[r1 l] sg1]. apply b_peek_line_same in Ex. subst r1.
  destruct l as [l|]; [|injection H as <- <- <- <-; reflexivity].
  destruct (decode_rune l) as [rn1 w1]. destruct (N.eqb rn1 65533); [injection H as <- <- <- <-; reflexivity|].
  gc_bind H r2 E2. injection H as <- <- <- <-. eapply b_advance_fr. exact E2.
Qed.
Lemma b_read_rune_fr r r' rn w eof : b_read_rune r = Ok (r', rn, w, eof) -> bfr r' = bfr r.
Proof. unfold b_read_rune. apply read_rune_fr. Qed.

Lemma fc_lines_fr ptbl opts o c : forall fuel r opened cso ret r' res,
  fc_lines ptbl breader b_peek_line b_advance b_advance_line fuel opts o c r opened cso ret = Ok (r', res) ->
  bfr r' = bfr r.
Proof.
  induction fuel as [|f IH]; intros r opened cso ret r' res H; [discriminate|]. cbn [fc_lines] in H.
  gc_bind H x Ex. destruct x as [[r1 l] sg1]. apply b_peek_line_same in Ex. subst r1.
  destruct l as [bs|]; [|injection H as <- <-; reflexivity].
  gc_bind H s Es. destruct s as [i| |opened' cso'].
  - gc_bind H r2 E2. injection H as <- <-. eapply b_advance_fr. exact E2.
  - injection H as <- <-. reflexivity.
  - destruct (negb (o_newline opts)); [injection H as <- <-; reflexivity|].
    gc_bind H r2 E2. apply b_advance_line_fr in E2. apply IH in H. congruence.
Qed.

Lemma find_closure_fr ptbl fuel r o c opts r' res :
  find_closure ptbl breader b_peek_line b_advance b_advance_line b_position b_set_position fuel r o c opts
    = Ok (r', res) -> bfr r' = bfr r.
Proof.
  unfold find_closure, b_position. intros H. gc_bind H x Ex. destruct x as [r1 res1].
  apply fc_lines_fr in Ex. gc_bind H r2 E2. injection H as <- <-.
  destruct (negb (o_advance opts)); [apply b_set_position_fr in E2|injection E2 as <-]; congruence.
Qed.
Lemma b_find_closure_fr ptbl fuel r o c opts r' res :
  b_find_closure ptbl fuel r o c opts = Ok (r', res) -> bfr r' = bfr r.
Proof. unfold b_find_closure. apply find_closure_fr. Qed.




Lemma b_advance_and_set_padding_fr r n p r' : b_advance_and_set_padding r n p = Ok r' -> bfr r' = bfr r.
Proof.
  unfold b_advance_and_set_padding. intros H. gc_bind H r1 E1. apply b_advance_fr in E1.
  destruct (_ <? _); injection H as <-; exact E1.
Qed.

(* ---- model/BlockParse.v b_parse_link_destination (the reader side of model/LinkDest.v) ---- *)
Lemma b_parse_link_destination_fr stbl ptbl r r' dest :
  b_parse_link_destination stbl ptbl r = Ok (r', dest) -> bfr r' = bfr r.
Proof.
  unfold b_parse_link_destination. intros H. gc_bind H x Ex. destruct x as [[[r1 sg] ch] ok].
  apply b_skip_spaces_fr in Ex.
  gc_bind H y Ey. destruct y as [[r2 line] sg2]. apply b_peek_line_same in Ey. subst r2.
  destruct (parse_link_destination stbl ptbl (line_of line)) as [[d adv]|].
  - gc_bind H r3 E3. injection H as <- <-. apply b_advance_fr in E3. congruence.
  - injection H as <- <-. exact Ex.
Qed.

(* ---- model/CodeSpan.v ---- *)




(* ================= the inline parsers keep the source of the reader ================= *)
(* fr_crunch: invert every hypothesis `e = Ok v` where e is a bind, a match or a value, down to
   the calls of named functions; fr_facts: turn the calls into equalities between sources. *)
Ltac fr_crunch :=
  repeat match goal with
  | H : _ = Ok _ |- _ => progress cbv beta iota zeta in H
  | H : (_ <- _ ;; _) = Ok _ |- _ => let a := fresh "a" in let E := fresh "E" in gc_bind H a E
  | H : Ok _ = Ok _ |- _ => inversion H; subst; clear H
  | H : Panic = Ok _ |- _ => discriminate H
  | H : OutOfFuel = Ok _ |- _ => discriminate H
  | H : (match ?x with _ => _ end) = Ok _ |- _ => destruct x
  end.

Ltac fr_fact0 E :=
  first [ apply b_advance_fr in E | apply b_advance_line_fr in E | apply b_set_position_fr in E
        | apply b_peek_line_fr in E | apply b_skip_spaces_fr in E | apply b_find_closure_fr in E
        | apply b_parse_link_destination_fr in E
        | apply b_read_rune_fr in E | apply b_skip_blank_lines_fr in E ].
Ltac fr_fact E := fr_fact0 E.
Ltac fr_facts := repeat match goal with E : _ = Ok _ |- _ => fr_fact E end.
Ltac fr_done := fr_facts; cbn [t_r t_c ist_r ist_c] in *; congruence.
Ltac fr_auto := fr_crunch; fr_done.

Lemma label_fail_fr s last s' res : label_fail s last = Ok (s', res) -> bfr (t_r s') = bfr (t_r s).
Proof. unfold label_fail. intros H. fr_auto. Qed.

Lemma parse_link_title_fr stbl ptbl r r' t : parse_link_title stbl ptbl r = Ok (r', t) -> bfr r' = bfr r.
Proof. unfold parse_link_title. intros H. fr_auto. Qed.

Lemma skip_spaces_r_fr stbl r r' : skip_spaces_r stbl r = Ok r' -> bfr r' = bfr r.
Proof. unfold skip_spaces_r. intros H. fr_auto. Qed.

Ltac fr_fact1 E := first [ apply label_fail_fr in E | apply parse_link_title_fr in E | apply skip_spaces_r_fr in E | fr_fact0 E ].
Ltac fr_fact E ::= fr_fact1 E.

Lemma parse_link_fr stbl ptbl r r' res : parse_link stbl ptbl r = Ok (r', res) -> bfr r' = bfr r.
Proof. unfold parse_link. intros H. fr_auto. Qed.

Lemma parse_reference_link_fr stbl ptbl norm refs s last r' res hv :
  parse_reference_link stbl ptbl norm refs s last = Ok (r', res, hv) -> bfr r' = bfr (t_r s).
Proof. unfold parse_reference_link. intros H. fr_auto. Qed.

Lemma process_link_label_r s link last s' : process_link_label s link last = Ok s' -> t_r s' = t_r s.
Proof. unfold process_link_label. intros H. fr_crunch. reflexivity. Qed.
Lemma process_link_label_fr s link last s' :
  process_link_label s link last = Ok s' -> bfr (t_r s') = bfr (t_r s).
Proof. intros H. apply process_link_label_r in H. rewrite H. reflexivity. Qed.

Ltac fr_fact2 E := first [ apply parse_link_fr in E | apply parse_reference_link_fr in E
                          | apply process_link_label_fr in E | fr_fact1 E ].
Ltac fr_fact E ::= fr_fact2 E.

Lemma link_parse_fr stbl ptbl norm refs s parent s' res :
  link_parse stbl ptbl norm refs s parent = Ok (s', res) -> bfr (t_r s') = bfr (t_r s).
Proof. unfold link_parse. intros H. fr_crunch. all: fr_done. Qed.

Lemma emphasis_parse_fr pr sr s s' res :
  emphasis_parse pr sr s = Ok (s', res) -> bfr (t_r s') = bfr (t_r s).
Proof. unfold emphasis_parse. intros H. fr_crunch. all: fr_done. Qed.

(* the b_src half for the link parser of the default configuration (GfmConservativeSrc.v has it
   for the GFM copy) *)
Lemma link_parse_src stbl ptbl norm refs s parent s' res :
  link_parse stbl ptbl norm refs s parent = Ok (s', res) -> b_src (t_r s') = b_src (t_r s).
Proof. intros H. apply bfr_src. eapply link_parse_fr. exact H. Qed.
