(* Helper file for TypoDefWfInl.v: the inline parser of extension.Typographer (typo_parse of
   model/TypoDefParseT.v) keeps the invariant "heap well formed and reader inside the block": it
   allocates one String node (an IEmphasis node with a level below -10) and advances the reader by
   1, 2 or 3 bytes inside the peeked line, or answers nil and leaves the state alone.  Then the
   parser table ip_parseT and try_inlineT (ports of ip_parse_ok and try_inline_ok of
   proofs/ParseInlineRangeParsers.v; template proofs/GfmWfInlParsers.v). *)
Require Import GM.model.Base GM.model.Util GM.model.Reader GM.model.ReaderSpec GM.model.Blocks GM.model.ListItem
               GM.model.LeafBlocks GM.model.CodeSpan GM.model.LinkDest GM.model.Regex GM.model.Delim GM.model.HtmlWriter
               GM.model.Html GM.model.HtmlSpec GM.model.BlockParse GM.model.InlineParse GM.model.TypoDefParseT.
Require Import GM.proofs.BReaderProofs GM.proofs.BlockRangeProofs GM.proofs.RegexProofs GM.proofs.ParseInv.
Require Import GM.proofs.ParseInlineRangeHeap GM.proofs.ParseInlineRangeReader GM.proofs.TypoDefWfInlReader GM.proofs.TypoDefWfInlParsers.
From Coq Require Import ZArith Lia List Bool ZifyBool.
Import ListNotations.
Open Scope Z_scope.

(* the length conditions at the leaves of typo_parse: only the integer facts matter *)
Ltac typo_len :=
  repeat match goal with
  | E : _ = true |- _ => clear E
  | E : _ = false |- _ => clear E
  | E : _ = Ok _ |- _ => clear E
  end; lia.

Section Typo.
Variable typo : bool.
Variable space_table punct_table : list N.
Variable norm : bytes -> bytes.
Variable url_table email_table : list N.
Variable re_email_domain re_open_tag re_close_tag : re.
Variable punct_rune space_rune : N -> bool.
Variable uni_punct uni_space uni_digit uni_letter : N -> bool.
Variable refs : list (bytes * (bytes * option bytes)).
Variable src : bytes.
Variable lines : list seg.
Hypothesis Hsp32 : is_space space_table 32 = true.
Hypothesis Hsp10 : is_space space_table 10 = true.
Hypothesis Hsrc : bytes_ok src.
Hypothesis Hrefs : refs_ok refs.

Local Notation RI := (TypoDefWfInlReader.RI src lines).
Local Notation st_ok := (TypoDefWfInlParsers.st_ok src lines).
Local Notation pstep := (TypoDefWfInlParsers.pstep src lines).
Notation TYPO := (typo_parse space_table punct_table punct_rune space_rune uni_punct uni_space uni_digit uni_letter).
Notation IPT := (ip_parseT space_table punct_table norm url_table email_table re_email_domain re_open_tag re_close_tag
                  punct_rune space_rune uni_punct uni_space uni_digit uni_letter refs).
Notation TRYT := (try_inlineT space_table punct_table norm url_table email_table re_email_domain re_open_tag re_close_tag
                  punct_rune space_rune uni_punct uni_space uni_digit uni_letter refs).

(* ---------- the String node ---------- *)
Lemma typo_node_ok y p adv x' res L : st_ok (ts_s y) L -> b_in_range (t_r (ts_s y)) = true ->
  1 <= adv <= s_stop (b_pos (t_r (ts_s y))) - s_start (b_pos (t_r (ts_s y))) ->
  typo_node y p adv = Ok (x', res) -> pstep (ts_s y) (ts_s x') res.
Proof.
  unfold typo_node. intros [Hc Hr] Hin Hadv H.
  destruct (new_inode (t_c (ts_s y)) (ITypoString p)) as [c n] eqn:En.
  destruct (b_advance (t_r (ts_s y)) adv) as [r| |] eqn:Ea; cbn [bind] in H; try discriminate.
  inversion H; subst x' res. clear H. cbn [ts_s tst_s].
  destruct (ctx_new src _ _ _ _ _ _ En I Hc) as (Hc1 & Hk1 & _ & Kn & _).
  exists L. split; [split; [exact Hc1|]|].
  - cbn [t_r]. eapply ri_advance_in; [exact Hr|exact Hin| |exact Ea]. lia.
  - split; [exact Hk1|]. intros m Em. inversion Em; subst m. left. eapply kd_dlk_none; [exact Kn|cbn; lia].
Qed.

(* ---------- typographerParser.Parse ---------- *)
Lemma typo_parse_ok x x' res L : st_ok (ts_s x) L -> TYPO x = Ok (x', res) -> pstep (ts_s x) (ts_s x') res.
Proof.
  unfold typo_parse. intros [Hc Hr] H.
  destruct (b_peek_line (t_r (ts_s x))) as [[[r1 line] sg]| |] eqn:Ep; cbn [bind] in H; try discriminate.
  destruct (ri_peek _ _ _ _ _ _ Hr Ep) as (-> & -> & Hline).
  destruct line as [[|c tl]|]; try discriminate H.
  destruct Hline as (Hin & Hv & Hl & Hs0 & Hs1 & Hs2 & _).
  set (l := c :: tl) in *. clearbody l.
  set (x0 := tst_s x (ist_r (ts_s x) (t_r (ts_s x)))) in *.
  assert (Hx0 : st_ok (ts_s x0) L) by (split; assumption).
  assert (Hin0 : b_in_range (t_r (ts_s x0)) = true) by exact Hin.
  assert (Hlen : zlen l = s_stop (b_pos (t_r (ts_s x0))) - s_start (b_pos (t_r (ts_s x0)))) by exact Hl.
  assert (Hk0 : i_h (t_c (ts_s x)) = i_h (t_c (ts_s x0))) by reflexivity.
  assert (Hnil : forall y r', Ok (x0, @None nat) = Ok (y, r') -> pstep (ts_s x) (ts_s y) r').
  { intros y r' E. inversion E; subst y r'. exists L. split; [exact Hx0|]. split; [apply kle_refl|]. intros n En. discriminate. }
  assert (Hnode : forall y p adv z r', ts_s y = ts_s x0 -> 1 <= adv <= zlen l -> typo_node y p adv = Ok (z, r') ->
                  pstep (ts_s x) (ts_s z) r').
  { intros y p adv z r' Ey Hadv E.
    destruct (typo_node_ok y p adv z r' L) as (L' & Hs' & Hk' & Hr'); try (rewrite Ey); try assumption; [lia|].
    exists L'. split; [exact Hs'|]. split; [rewrite Hk0, <- Ey; exact Hk'|exact Hr']. }
  assert (Hl1 : 1 <= zlen l) by lia.
  clear Hc Hr Ep Hin Hv Hl Hs0 Hs1 Hs2 Hx0 Hin0 Hlen Hk0. clearbody x0.
  cbv zeta in H.
  (* the rules for the quote characters *)
  match type of H with context [if N.eqb c 39 || N.eqb c 34 then ?a else ?b] =>
    set (quotes := if N.eqb c 39 || N.eqb c 34 then a else b) in H end.
  assert (HQ : forall y r', quotes = Ok (y, r') -> pstep (ts_s x) (ts_s y) r').
  { subst quotes. clear H. intros y r' H.
    repeat match type of H with
    | Ok (_, None) = Ok _ => exact (Hnil _ _ H)
    | typo_node _ _ _ = Ok _ => apply Hnode in H; [exact H|reflexivity|typo_len]
    | (if 1 <? zlen l then _ else _) = Ok _ => let G := fresh "G" in destruct (Z.ltb_spec 1 (zlen l)) as [G|G]
    | (if 2 <? zlen l then _ else _) = Ok _ => let G := fresh "G" in destruct (Z.ltb_spec 2 (zlen l)) as [G|G]
    | (if ?b then _ else _) = Ok _ => let E := fresh "E" in destruct b eqn:E
    | (_ <- ?X ;; _) = Ok _ => let E := fresh "E" in let v := fresh "v" in
                               destruct X as [v| |] eqn:E; cbn [bind] in H; [|discriminate H|discriminate H]
    | match ?d with Some _ => _ | None => _ end = Ok _ => destruct d as [[[[? ?] ?] ?]|]
    end. }
  clearbody quotes.
  match type of H with context [if 1 <? zlen l then ?a else quotes] =>
    set (two := if 1 <? zlen l then a else quotes) in H end.
  assert (HT : forall y r', two = Ok (y, r') -> pstep (ts_s x) (ts_s y) r').
  { subst two. clear H. intros y r' H.
    repeat match type of H with
    | quotes = Ok _ => exact (HQ _ _ H)
    | Ok (_, None) = Ok _ => exact (Hnil _ _ H)
    | typo_node _ _ _ = Ok _ => apply Hnode in H; [exact H|reflexivity|typo_len]
    | (if 1 <? zlen l then _ else _) = Ok _ => let G := fresh "G" in destruct (Z.ltb_spec 1 (zlen l)) as [G|G]
    | (if 2 <? zlen l then _ else _) = Ok _ => let G := fresh "G" in destruct (Z.ltb_spec 2 (zlen l)) as [G|G]
    | (if ?b then _ else _) = Ok _ => let E := fresh "E" in destruct b eqn:E
    end. }
  clearbody two.
  repeat match type of H with
  | two = Ok _ => exact (HT _ _ H)
  | Ok (_, None) = Ok _ => exact (Hnil _ _ H)
  | typo_node _ _ _ = Ok _ => apply Hnode in H; [exact H|reflexivity|typo_len]
  | (if 1 <? zlen l then _ else _) = Ok _ => let G := fresh "G" in destruct (Z.ltb_spec 1 (zlen l)) as [G|G]
  | (if 2 <? zlen l then _ else _) = Ok _ => let G := fresh "G" in destruct (Z.ltb_spec 2 (zlen l)) as [G|G]
  | (if ?b then _ else _) = Ok _ => let E := fresh "E" in destruct b eqn:E
  end.
Qed.

(* ---------- the parser table, try_inlineT ---------- *)
Lemma ip_parseT_ok p x parent x' res L : st_ok (ts_s x) L ->
  IPT p x parent = Ok (x', res) -> pstep (ts_s x) (ts_s x') res.
Proof.
  intros Hs H. destruct p as [q|]; cbn [ip_parseT] in H.
  - match type of H with (_ <- ?X ;; _) = _ => destruct X as [[s1 r1]| |] eqn:Eq end; cbn [bind] in H; try discriminate.
    cbn [fst snd] in H. inversion H; subst x' res. cbn [ts_s tst_s].
    eapply (ip_parse_ok space_table punct_table norm url_table email_table re_email_domain re_open_tag re_close_tag
              punct_rune space_rune refs src lines Hsp32 Hsp10 Hsrc Hrefs); eassumption.
  - eapply typo_parse_ok; eassumption.
Qed.

Lemma try_inlineT_ok r0 : RI r0 -> forall ips x parent x' res L, st_ok (ts_s x) L ->
  b_line (t_r (ts_s x)) = b_line r0 -> b_pos (t_r (ts_s x)) = b_pos r0 ->
  TRYT ips x parent (b_line r0) (b_pos r0) = Ok (x', res) ->
  pstep (ts_s x) (ts_s x') res /\ (res = None -> b_line (t_r (ts_s x')) = b_line r0 /\ b_pos (t_r (ts_s x')) = b_pos r0).
Proof.
  intros H0. induction ips as [|p rest IH]; intros x parent x' res L Hs El Epos H; cbn [try_inlineT] in H.
  - inversion H; subst x' res. split; [|auto]. exists L. split; [exact Hs|]. split; [apply kle_refl|]. intros n E; discriminate.
  - destruct (IPT p x parent) as [[x1 n]| |] eqn:Ep; cbn [bind] in H; try discriminate.
    destruct (ip_parseT_ok _ _ _ _ _ _ Hs Ep) as (L1 & Hs1 & Hk1 & Hres1).
    destruct n as [n|].
    + inversion H; subst x' res. split; [|discriminate]. exists L1. auto.
    + destruct (b_set_position (t_r (ts_s x1)) (b_line r0) (b_pos r0)) as [r2| |] eqn:Es; cbn [bind] in H; try discriminate.
      destruct (ri_set_position _ _ _ _ _ (proj2 Hs1) H0 Es) as (Hr2 & Hl2 & Hp2).
      destruct (IH (tst_s x1 (ist_r (ts_s x1) r2)) parent x' res L1) as [(L2 & Hs2 & Hk2 & Hres2) Hpos]; try assumption.
      { split; [exact (proj1 Hs1)|exact Hr2]. }
      split; [|exact Hpos]. exists L2. split; [exact Hs2|]. split; [eapply kle_trans; eassumption|exact Hres2].
Qed.

End Typo.
