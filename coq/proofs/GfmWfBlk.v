(* C05 / C03 / C04 (block phase of the GFM parser model, model/BlockParseX.v + model/GfmParse.v
   to_treeX): the tree the block phase produces is well formed (HtmlSpec.wf_node: all line
   segments inside the source, heading levels, Table / TableHeader / TableRow / TableCell nesting),
   the lines of its inline-bearing blocks (paragraphs, text blocks, headings, table cells) are what
   the inline phase wants (GfmWfDefs.tree_lines_okX), and the reference map holds byte strings.

   The proof is a fork of the proof for the core model (ParseBlocksRange{B..P}.v), in the helper files
   GfmWfBlk{B..S}.v (compile order B C D E F G H I J M Q R S L N P K):
     B heap, invariant (nodeP / heapS / Jinv / Bnd / openS / HI / SInv) with two changes: a paragraph node
       may have no lines (the table transformer leaves such nodes behind, detached), and every line of a
       paragraph but the last ends at the end of its source line (LE, leI), every line of an OPEN
       paragraph does (opl, os_para): so the byte the table transformer cuts from the new last line of
       the paragraph is the newline, which is white space (hypothesis sp10);
     C Open; D, F Continue; E regrouping, new data for closed / unlisted nodes; G, H, I Close;
     J link reference definitions on an open and on a closed paragraph; M AppendChild;
     Q the lines cut_last_newline leaves; R InsertAfter; S the table transformer on a closed paragraph
     and, with the Close that follows, on an open one;
     L closeBlocksX; N openBlocksX; P the loops of BlockParseX.v and the final invariant; K to_treeX. *)
Require Import GM.model.Base GM.model.Util GM.model.UtilI GM.model.Reader GM.model.ReaderSpec GM.model.Blocks GM.model.ListItem
               GM.model.LeafBlocks GM.model.CodeBlock GM.model.LinkDest GM.model.Regex GM.model.HtmlWriter
               GM.model.Html GM.model.HtmlSpec GM.model.TableX GM.model.BlockParse GM.model.InlineParse
               GM.model.BlockParseX GM.model.InlineParseX GM.model.GfmParse.
Require Import GM.proofs.ParseInv GM.proofs.GfmWfDefs GM.proofs.GfmWfBlkB GM.proofs.GfmWfBlkK GM.proofs.GfmWfBlkP.
From Coq Require Import ZArith Lia List.
Import ListNotations.
Open Scope Z_scope.

Section S.
Variable xc : xcfg.
Variable space_table punct_table : list N.
Variable norm : bytes -> bytes.
Variable re_t1o re_t1c re_t2 re_t3 re_t4 re_t5 re_t6 re_t7 : re.
Variable allowed_tags : list bytes.
(* the white space table classifies the blank and the newline as white space *)
Hypothesis sp32 : is_space space_table 32%N = true.
Hypothesis sp10 : is_space space_table 10%N = true.

Theorem parse_blocks_treeX_ok_sp : forall src t refs,
  bytes_ok src ->
  parse_blocks_treeX xc space_table punct_table norm re_t1o re_t1c re_t2 re_t3 re_t4 re_t5 re_t6 re_t7 allowed_tags src = Ok (t, refs) ->
  wf_node src false false t = true /\ tree_lines_okX src t = true /\ refs_ok refs.
Proof.
  intros src t refs Hsrc H. unfold parse_blocks_treeX in H.
  destruct (parse_blocksX (x_table xc) space_table punct_table norm re_t1o re_t1c re_t2 re_t3 re_t4 re_t5 re_t6 re_t7 allowed_tags src)
    as [x| |] eqn:Ex; cbn [bind] in H; try discriminate.
  destruct (to_treeX (S (length (s_h (bx_s x)))) src (s_h (bx_s x)) (bx_tabs x) 0%nat) as [t'| |] eqn:Et; cbn [bind] in H; try discriminate.
  injection H as <- <-.
  destruct (parse_blocksX_final (x_table xc) space_table punct_table norm re_t1o re_t1c re_t2 re_t3 re_t4 re_t5 re_t6 re_t7 allowed_tags
              src sp32 sp10 Hsrc x Ex) as [HhS [HJ [Hr Htabs]]].
  destruct (to_treeX_ok space_table punct_table norm re_t1o re_t1c re_t2 re_t3 re_t4 re_t5 re_t6 re_t7 allowed_tags
              src sp32 Hsrc (s_h (bx_s x)) (bx_tabs x) HhS HJ Htabs _ 0%nat t' (or_introl eq_refl) Et) as [Hwf Hl].
  auto.
Qed.

End S.
