(* Helper file for ParseInlineRange.v (public inline kinds): order-level view of the tree surgery of
   model/InlineParse.v.  The children lists after i_detach / i_append / i_insert_before /
   i_insert_after / i_replace as functions of the lists before; the delimiter and label state nodes
   ("key" nodes) among the children of the block node 0; strictly increasing lists of node numbers. *)
Require Import GM.model.Base GM.model.Util GM.model.Reader GM.model.HtmlSpec GM.model.BlockParse GM.model.InlineParse.
Require Import GM.proofs.ParseInlineRangeHeap.
From Coq Require Import ZArith Lia List Bool.
Import ListNotations.
Open Scope Z_scope.

(* ---------- lists ---------- *)
Lemma remove_id_mid x X Y : ~ In x X -> remove_id x (X ++ x :: Y) = X ++ Y.
Proof.
  induction X as [|a X IH]; cbn; intros H.
  - rewrite Nat.eqb_refl. reflexivity.
  - destruct (Nat.eqb_spec x a) as [->|Hne]; [exfalso; apply H; auto|]. f_equal. apply IH. intros Hx. apply H. auto.
Qed.

Lemma insert_before_mid x y X Y : ~ In x X -> insert_before_id x y (X ++ x :: Y) = X ++ y :: x :: Y.
Proof.
  induction X as [|a X IH]; cbn; intros H.
  - rewrite Nat.eqb_refl. reflexivity.
  - destruct (Nat.eqb_spec x a) as [->|Hne]; [exfalso; apply H; auto|]. f_equal. apply IH. intros Hx. apply H. auto.
Qed.

Lemma insert_before_notin x y l : ~ In x l -> insert_before_id x y l = l ++ [y].
Proof.
  induction l as [|a l IH]; cbn; intros H; [reflexivity|].
  destruct (Nat.eqb_spec x a) as [->|Hne]; [exfalso; apply H; auto|]. f_equal. apply IH. intros Hx. apply H. auto.
Qed.

Lemma remove_insert_before x y l : ~ In y l -> remove_id y (insert_before_id x y l) = l.
Proof.
  induction l as [|a l IH]; cbn; intros H.
  - rewrite Nat.eqb_refl. reflexivity.
  - destruct (Nat.eqb x a); cbn.
    + rewrite Nat.eqb_refl. reflexivity.
    + destruct (Nat.eqb_spec y a) as [->|Hne]; [exfalso; apply H; auto|]. f_equal. apply IH. intros Hy. apply H. auto.
Qed.

Lemma remove_snoc y l : ~ In y l -> remove_id y (l ++ [y]) = l.
Proof.
  intros H. rewrite <- (app_nil_r l) at 2. replace (l ++ [y]) with (l ++ y :: []) by reflexivity. apply remove_id_mid. exact H.
Qed.

Lemma filter_remove_id (P : nat -> bool) x l : filter P (remove_id x l) = remove_id x (filter P l).
Proof.
  induction l as [|a l IH]; cbn; [reflexivity|].
  destruct (Nat.eqb_spec x a) as [->|Hne].
  - destruct (P a) eqn:Ea; cbn.
    + rewrite Nat.eqb_refl. reflexivity.
    + rewrite <- IH. clear IH. induction l as [|b l IH]; cbn; [reflexivity|].
      destruct (Nat.eqb_spec a b) as [->|Hne].
      * rewrite Ea. reflexivity.
      * cbn. destruct (P b); [f_equal|]; exact IH.
  - cbn. destruct (P a) eqn:Ea; cbn.
    + destruct (Nat.eqb_spec x a); [contradiction|]. f_equal. exact IH.
    + exact IH.
Qed.

Lemma filter_remove_false (P : nat -> bool) x l : P x = false -> filter P (remove_id x l) = filter P l.
Proof.
  intros H. rewrite filter_remove_id. apply remove_id_notin. intros Hin. apply filter_In in Hin. destruct Hin as [_ Hp]. congruence.
Qed.

Lemma remove_id_twice x l : NoDup l -> remove_id x (remove_id x l) = remove_id x l.
Proof. intros H. apply remove_id_notin. apply (remove_id_nodup x l H). Qed.

Lemma remove_id_comm x y l : remove_id x (remove_id y l) = remove_id y (remove_id x l).
Proof.
  induction l as [|a l IH]; cbn; [reflexivity|].
  destruct (Nat.eqb_spec y a) as [->|Hy]; destruct (Nat.eqb_spec x a) as [->|Hx]; cbn.
  - reflexivity.
  - rewrite Nat.eqb_refl. reflexivity.
  - rewrite Nat.eqb_refl. reflexivity.
  - destruct (Nat.eqb_spec x a); [contradiction|]. destruct (Nat.eqb_spec y a); [contradiction|]. f_equal. exact IH.
Qed.

(* a list without repetition splits at an element in one way only *)
Lemma nodup_split_eq (a : nat) X Y X' Y' : NoDup (X ++ a :: Y) -> X ++ a :: Y = X' ++ a :: Y' -> X = X' /\ Y = Y'.
Proof.
  revert X'. induction X as [|x X IH]; intros X' Hnd E.
  - destruct X' as [|x' X']; cbn in E.
    + injection E as E2. auto.
    + injection E as E1 E2. subst x'. exfalso. cbn in Hnd. inversion Hnd as [|? ? Ha _]; subst. apply Ha. rewrite in_app_iff. cbn. auto.
  - destruct X' as [|x' X']; cbn in E.
    + injection E as E1 E2. subst x. exfalso. cbn in Hnd. inversion Hnd as [|? ? Ha _]; subst. apply Ha. rewrite in_app_iff. cbn. auto.
    + injection E as E1 E2. subst x'. cbn in Hnd. inversion Hnd as [|? ? _ Hnd']; subst.
      destruct (IH X' Hnd' E2) as [-> ->]. auto.
Qed.

Lemma next_in_mid x X Y : ~ In x X -> next_in x (X ++ x :: Y) = hd_error Y.
Proof.
  induction X as [|a X IH]; intros H.
  - cbn [app next_in]. destruct Y as [|y Y]; [reflexivity|]. rewrite Nat.eqb_refl. reflexivity.
  - cbn [app]. assert (Hne : x <> a) by (intros ->; apply H; cbn; auto).
    assert (HX : ~ In x X) by (intros Hx; apply H; cbn; auto).
    specialize (IH HX). destruct (X ++ x :: Y) as [|b t] eqn:Et; [destruct X; discriminate|].
    cbn [next_in]. destruct (Nat.eqb_spec x a); [contradiction|]. exact IH.
Qed.

Definition last_error (l : list nat) : option nat := match rev l with x :: _ => Some x | [] => None end.
Lemma last_error_snoc l x : last_error (l ++ [x]) = Some x.
Proof. unfold last_error. rewrite rev_app_distr. reflexivity. Qed.
Lemma last_error_cases l : (l = [] /\ last_error l = None) \/ exists l' x, l = l' ++ [x] /\ last_error l = Some x.
Proof.
  destruct l as [|a l]; [left; auto|]. right. destruct (exists_last (l := a :: l)) as (l' & x & E); [discriminate|].
  exists l', x. split; [exact E|]. rewrite E. apply last_error_snoc.
Qed.

Lemma prev_in_mid x X Y : ~ In x X -> forall acc, prev_in x (X ++ x :: Y) acc = match last_error X with Some y => Some y | None => acc end.
Proof.
  induction X as [|a X IH]; intros H acc.
  - cbn. rewrite Nat.eqb_refl. reflexivity.
  - cbn [app prev_in]. destruct (Nat.eqb_spec x a) as [->|Hne]; [exfalso; apply H; cbn; auto|].
    rewrite IH by (intros Hx; apply H; cbn; auto).
    destruct (last_error_cases X) as [[-> E]|(X' & y & -> & E)].
    + cbn. reflexivity.
    + rewrite E. change (a :: X' ++ [y]) with ((a :: X') ++ [y]). rewrite last_error_snoc. reflexivity.
Qed.

(* strictly increasing lists *)
Fixpoint incr (l : list nat) : Prop :=
  match l with [] => True | x :: t => (forall y, In y t -> (x < y)%nat) /\ incr t end.

Lemma incr_filter P l : incr l -> incr (filter P l).
Proof.
  induction l as [|a l IH]; cbn; [auto|]. intros [H1 H2]. destruct (P a); cbn; [|auto].
  split; [|auto]. intros y Hy. apply filter_In in Hy. apply H1. tauto.
Qed.

Lemma incr_remove x l : incr l -> incr (remove_id x l).
Proof.
  induction l as [|a l IH]; cbn; [auto|]. intros [H1 H2]. destruct (Nat.eqb x a); [exact H2|]. cbn.
  split; [|auto]. intros y Hy. apply H1. eapply in_remove_id. exact Hy.
Qed.

Lemma incr_snoc l n : incr l -> (forall y, In y l -> (y < n)%nat) -> incr (l ++ [n]).
Proof.
  induction l as [|a l IH]; cbn; intros H Hn; [split; [intros y []|exact I]|].
  destruct H as [H1 H2]. split.
  - intros y Hy. rewrite in_app_iff in Hy. destruct Hy as [Hy|[<-|[]]]; [apply H1; exact Hy|apply Hn; auto].
  - apply IH; [exact H2|]. intros y Hy. apply Hn. auto.
Qed.

Lemma incr_app_lt X a Y : incr (X ++ a :: Y) -> forall y, In y Y -> (a < y)%nat.
Proof.
  induction X as [|x X IH]; cbn; intros [H1 H2]; [exact H1|apply IH; exact H2].
Qed.

Lemma incr_nodup l : incr l -> NoDup l.
Proof.
  induction l as [|a l IH]; cbn; [constructor|]. intros [H1 H2]. constructor; [|auto].
  intros Hin. apply H1 in Hin. lia.
Qed.

(* ---------- the children lists after the tree surgery ---------- *)
Lemma notin_other_parent h c j : tree_ok h -> pr h c <> Some j -> ~ In c (ch h j).
Proof. intros Ht Hp Hin. apply (t_child h Ht) in Hin. contradiction. Qed.

Record same_nodes (h h' : iheap) : Prop := {
  sn_len : length h' = length h;
  sn_kd : forall j, kd h' j = kd h j
}.

Lemma detach_ch h c h' : i_detach h c = Ok h' -> tree_ok h ->
  tree_ok h' /\ same_nodes h h' /\
  (forall j, ch h' j = remove_id c (ch h j)) /\
  (forall j, pr h' j = if Nat.eqb j c then None else pr h j).
Proof.
  intros H Ht. destruct (i_detach_ok h c h' H Ht) as (Ht' & _ & _ & L & K & _).
  destruct (i_detach_view h c h' H Ht) as (_ & _ & P & C).
  split; [exact Ht'|]. split; [constructor; assumption|]. split; [|exact P].
  intros j. rewrite C. destruct (opt_nat_eqb (pr h c) (Some j)) eqn:E; [reflexivity|].
  symmetry. apply remove_id_notin. apply notin_other_parent; [exact Ht|]. intros E'. apply opt_nat_eqb_true in E'. congruence.
Qed.

Lemma append_ch h p c h' : i_append h p c = Ok h' -> tree_ok h ->
  tree_ok h' /\ same_nodes h h' /\ (p < length h)%nat /\ (c < length h)%nat /\
  (forall j, ch h' j = if Nat.eqb j p then remove_id c (ch h j) ++ [c] else remove_id c (ch h j)) /\
  (forall j, pr h' j = if Nat.eqb j c then Some p else pr h j).
Proof.
  intros H Ht. destruct (i_append_ok h p c h' H Ht) as (Ht' & L & K & Vp & Vc & _).
  unfold i_append in H.
  destruct (i_detach h c) as [h1| |] eqn:E1; cbn [bind] in H; try discriminate.
  destruct (detach_ch h c h1 E1 Ht) as (Ht1 & _ & C1 & P1).
  destruct (iupd h1 c _) as [h2| |] eqn:E2; cbn [bind] in H; try discriminate.
  apply iupd_par in E2. destruct E2 as (_ & _ & _ & P2 & C2).
  apply (iupd_ch h2 p (fun l => l ++ [c])) in H. destruct H as (_ & _ & _ & P3 & C3).
  split; [exact Ht'|]. split; [constructor; assumption|]. split; [exact Vp|]. split; [exact Vc|]. split.
  - intros j. rewrite C3, C2, C1. reflexivity.
  - intros j. rewrite P3, P2, P1. destruct (Nat.eqb j c); reflexivity.
Qed.

Lemma insert_before_ch h p ref new h' : i_insert_before h p ref new = Ok h' -> tree_ok h -> pr h ref = Some p ->
  tree_ok h' /\ same_nodes h h' /\ (p < length h)%nat /\ (new < length h)%nat /\
  (forall j, ch h' j = if Nat.eqb j p then insert_before_id ref new (remove_id new (ch h j)) else remove_id new (ch h j)) /\
  (forall j, pr h' j = if Nat.eqb j new then Some p else pr h j).
Proof.
  intros H Ht Hr. destruct (i_insert_before_spec h p ref new h' H Ht) as (Ht' & L & K & Vp & Vc & _).
  unfold i_insert_before in H. destruct (iget h ref) as [r| |] eqn:E; cbn [bind] in H; try discriminate.
  apply iget_kd in E. destruct E as (_ & Ep & _). rewrite <- Ep, Hr in H. cbn [opt_nat_eqb] in H. rewrite Nat.eqb_refl in H.
  destruct (i_detach h new) as [h1| |] eqn:E1; cbn [bind] in H; try discriminate.
  destruct (detach_ch h new h1 E1 Ht) as (Ht1 & _ & C1 & P1).
  destruct (iupd h1 p _) as [h2| |] eqn:E2; cbn [bind] in H; try discriminate.
  apply (iupd_ch h1 p (insert_before_id ref new)) in E2. destruct E2 as (_ & _ & _ & P2 & C2).
  apply iupd_par in H. destruct H as (_ & _ & _ & P3 & C3).
  split; [exact Ht'|]. split; [constructor; assumption|]. split; [exact Vp|]. split; [exact Vc|]. split.
  - intros j. rewrite C3, C2, C1. reflexivity.
  - intros j. rewrite P3, P2, P1. destruct (Nat.eqb j new); reflexivity.
Qed.

(* what every attaching operation guarantees: apart from the node itself the lists keep their order *)
Record attach_ord (h h' : iheap) (p c : nat) : Prop := {
  ao_tree : tree_ok h';
  ao_same : same_nodes h h';
  ao_vp : (p < length h)%nat;
  ao_vc : (c < length h)%nat;
  ao_ch : forall j, remove_id c (ch h' j) = remove_id c (ch h j);
  ao_in : In c (ch h' p);
  ao_pr : forall j, pr h' j = if Nat.eqb j c then Some p else pr h j
}.

Lemma append_ord h p c h' : i_append h p c = Ok h' -> tree_ok h -> attach_ord h h' p c.
Proof.
  intros H Ht. destruct (append_ch h p c h' H Ht) as (Ht' & Sn & Vp & Vc & C & P).
  constructor; try assumption.
  - intros j. rewrite C. destruct (Nat.eqb j p).
    + rewrite remove_snoc; [reflexivity|]. apply (remove_id_nodup c _ (t_nodup h Ht j)).
    + apply remove_id_twice. apply (t_nodup h Ht).
  - rewrite C, Nat.eqb_refl. rewrite in_app_iff. cbn. auto.
Qed.

Lemma insert_before_ord h p ref new h' : i_insert_before h p ref new = Ok h' -> tree_ok h -> attach_ord h h' p new.
Proof.
  intros H Ht. destruct (pr h ref) as [q|] eqn:Er.
  - destruct (Nat.eq_dec q p) as [->|Hne].
    + destruct (insert_before_ch h p ref new h' H Ht Er) as (Ht' & Sn & Vp & Vc & C & P).
      constructor; try assumption.
      * intros j. rewrite C. destruct (Nat.eqb j p).
        -- rewrite remove_insert_before; [reflexivity|].
           apply (remove_id_nodup new _ (t_nodup h Ht j)).
        -- apply remove_id_twice. apply (t_nodup h Ht).
      * rewrite C, Nat.eqb_refl. apply in_insert_before. auto.
    + apply append_ord; [|exact Ht]. unfold i_insert_before in H.
      destruct (iget h ref) as [r| |] eqn:E; cbn [bind] in H; try discriminate.
      apply iget_kd in E. destruct E as (_ & Ep & _). rewrite <- Ep, Er in H. cbn [opt_nat_eqb] in H.
      destruct (Nat.eqb_spec q p); [contradiction|exact H].
  - apply append_ord; [|exact Ht]. unfold i_insert_before in H.
    destruct (iget h ref) as [r| |] eqn:E; cbn [bind] in H; try discriminate.
    apply iget_kd in E. destruct E as (_ & Ep & _). rewrite <- Ep, Er in H. cbn [opt_nat_eqb] in H. exact H.
Qed.

Lemma attach_ord_after_detach h h1 h' p c : tree_ok h ->
  (forall j, ch h1 j = remove_id c (ch h j)) -> (forall j, pr h1 j = if Nat.eqb j c then None else pr h j) ->
  same_nodes h h1 -> attach_ord h1 h' p c -> attach_ord h h' p c.
Proof.
  intros Ht C1 P1 [L1 K1] [T S Vp Vc C I P]. destruct S as [L2 K2]. constructor; try assumption; try lia.
  - constructor; [congruence|]. intros j. rewrite K2. apply K1.
  - intros j. rewrite C, C1. apply remove_id_twice. apply (t_nodup h Ht).
  - intros j. rewrite P, P1. destruct (Nat.eqb j c); reflexivity.
Qed.

Lemma insert_after_ord h p ref new h' : i_insert_after h p ref new = Ok h' -> tree_ok h -> attach_ord h h' p new.
Proof.
  unfold i_insert_after. intros H Ht. destruct (iget h ref) as [r| |] eqn:E; cbn [bind] in H; try discriminate.
  destruct (opt_nat_eqb (ipar r) (Some p)); [|apply append_ord; assumption].
  destruct (i_detach h new) as [h1| |] eqn:E1; cbn [bind] in H; try discriminate.
  destruct (detach_ch h new h1 E1 Ht) as (Ht1 & Sn1 & C1 & P1).
  destruct (i_next h1 ref) as [nx| |] eqn:E2; cbn [bind] in H; try discriminate.
  eapply attach_ord_after_detach; try eassumption.
  destruct nx as [y|]; [eapply insert_before_ord|eapply append_ord]; eassumption.
Qed.

(* ---------- key nodes: delimiters and link label states ---------- *)
Definition kcls (h : iheap) (x : nat) : nat := match kd h x with Some k => cls k | None => 99%nat end.
Definition isdel (h : iheap) (x : nat) : bool := Nat.eqb (kcls h x) 8.
Definition islab (h : iheap) (x : nat) : bool := Nat.eqb (kcls h x) 9.
Definition iskey (h : iheap) (x : nat) : bool := isdel h x || islab h x.
Definition rch (h : iheap) : list nat := ch h 0%nat.
Definition K (h : iheap) : list nat := filter (iskey h) (rch h).
Definition dch (h : iheap) : list nat := filter (isdel h) (rch h).

Lemma kle_kcls h h' x : kle h h' -> (x < length h)%nat -> kcls h' x = kcls h x.
Proof.
  intros Hk Hx. destruct (valid_kd h x Hx) as [k Ek]. destruct (Hk x k Ek) as (k' & Ek' & Hc).
  unfold kcls. rewrite Ek, Ek'. exact Hc.
Qed.

Lemma same_kcls h h' x : (forall j, kd h' j = kd h j) -> kcls h' x = kcls h x.
Proof. intros H. unfold kcls. rewrite H. reflexivity. Qed.

Lemma isdel_dlk h x : isdel h x = true <-> dlk h x <> None.
Proof.
  unfold isdel, kcls, dlk. destruct (kd h x) as [k|]; [|split; [discriminate|congruence]].
  destruct k; cbn; split; intros H; try discriminate; try congruence; reflexivity.
Qed.

Lemma rch_valid h x : tree_ok h -> In x (rch h) -> (x < length h)%nat.
Proof. intros Ht Hin. apply (t_child h Ht) in Hin. eapply pr_valid. exact Hin. Qed.

Lemma dch_K h : dch h = filter (isdel h) (K h).
Proof.
  unfold dch, K. induction (rch h) as [|a l IH]; cbn; [reflexivity|].
  unfold iskey at 1. destruct (isdel h a) eqn:Ed; cbn; [rewrite Ed; f_equal; exact IH|].
  destruct (islab h a); cbn; [rewrite Ed|]; exact IH.
Qed.

Lemma filter_ext_valid (P Q : nat -> bool) l : (forall x, In x l -> P x = Q x) -> filter P l = filter Q l.
Proof. intros H. apply filter_ext_in. exact H. Qed.

(* the same root list and the same classes: the same key lists *)
Lemma K_same h h' : tree_ok h -> kle h h' -> rch h' = rch h -> K h' = K h /\ dch h' = dch h.
Proof.
  intros Ht Hk Hr. unfold K, dch. rewrite Hr. split; apply filter_ext_in; intros x Hx;
    unfold iskey, isdel, islab; rewrite (kle_kcls h h' x Hk (rch_valid h x Ht Hx)); reflexivity.
Qed.

(* the root list up to a node that is not a key node *)
Lemma K_remove_nonkey h h' c : tree_ok h -> kle h h' -> iskey h' c = false ->
  remove_id c (rch h') = remove_id c (rch h) -> K h' = K h /\ dch h' = dch h.
Proof.
  intros Ht Hk Hc Hr.
  assert (Hd : isdel h' c = false) by (unfold iskey in Hc; apply orb_false_iff in Hc; tauto).
  assert (Hv : forall x, In x (remove_id c (rch h)) -> (x < length h)%nat).
  { intros x Hx. apply (rch_valid h x Ht). eapply in_remove_id. exact Hx. }
  split.
  - unfold K. rewrite <- (filter_remove_false (iskey h') c (rch h') Hc), Hr.
    destruct (iskey h c) eqn:Ec.
    + (* c is not in the old root list then *)
      destruct (in_dec Nat.eq_dec c (rch h)) as [Hin|Hnin].
      * exfalso. unfold iskey, isdel, islab in *. rewrite (kle_kcls h h' c Hk (rch_valid h c Ht Hin)) in Hc. congruence.
      * rewrite (remove_id_notin c _ Hnin). apply filter_ext_in. intros x Hx.
        unfold iskey, isdel, islab. rewrite (kle_kcls h h' x Hk (rch_valid h x Ht Hx)). reflexivity.
    + rewrite <- (filter_remove_false (iskey h) c (rch h) Ec). apply filter_ext_in. intros x Hx.
      unfold iskey, isdel, islab. rewrite (kle_kcls h h' x Hk (Hv x Hx)). reflexivity.
  - unfold dch. rewrite <- (filter_remove_false (isdel h') c (rch h') Hd), Hr.
    destruct (isdel h c) eqn:Ec.
    + destruct (in_dec Nat.eq_dec c (rch h)) as [Hin|Hnin].
      * exfalso. unfold isdel in *. rewrite (kle_kcls h h' c Hk (rch_valid h c Ht Hin)) in Hd. congruence.
      * rewrite (remove_id_notin c _ Hnin). apply filter_ext_in. intros x Hx.
        unfold isdel. rewrite (kle_kcls h h' x Hk (rch_valid h x Ht Hx)). reflexivity.
    + rewrite <- (filter_remove_false (isdel h) c (rch h) Ec). apply filter_ext_in. intros x Hx.
      unfold isdel. rewrite (kle_kcls h h' x Hk (Hv x Hx)). reflexivity.
Qed.

(* the root list without one node *)
Lemma K_remove h h' c : tree_ok h -> kle h h' -> rch h' = remove_id c (rch h) ->
  K h' = remove_id c (K h) /\ dch h' = remove_id c (dch h).
Proof.
  intros Ht Hk Hr.
  assert (Hv : forall x, In x (remove_id c (rch h)) -> (x < length h)%nat).
  { intros x Hx. apply (rch_valid h x Ht). eapply in_remove_id. exact Hx. }
  unfold K, dch. rewrite Hr, <- !filter_remove_id. split; apply filter_ext_in; intros x Hx;
    unfold iskey, isdel, islab; rewrite (kle_kcls h h' x Hk (Hv x Hx)); reflexivity.
Qed.
