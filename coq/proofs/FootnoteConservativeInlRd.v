(* Helper file for FootnoteConservativeInl.v: the reader side of the footnote inline parser
   (model/FootnoteParseInline.v footnote_parse).  Under the reader invariant of the inline phase
   (ParseInlineRangeReader.RI) and with no FootnoteList in the context (fs_defs = None) the
   parser never fails and never makes a node; it only moves the reader, and SetPosition to the
   saved position gives the reader of the call back. *)
Require Import GM.model.Base GM.model.Util GM.model.Reader GM.model.ReaderSpec GM.model.Blocks GM.model.ListItem
               GM.model.LeafBlocks GM.model.CodeSpan GM.model.LinkDest GM.model.Regex GM.model.Delim GM.model.HtmlWriter
               GM.model.Html GM.model.BlockParse GM.model.InlineParse
               GM.model.FootnoteX GM.model.FootnoteParseBlock GM.model.FootnoteParseInline.
Require Import GM.proofs.BReaderProofs GM.proofs.ParseInv GM.proofs.ParseInlineRangeReader.
Require GM.proofs.ParseInlineTotalReader GM.proofs.ParseInlineTotalReader2.
From Coq Require Import ZArith Lia List Bool.
Import ListNotations.
Open Scope Z_scope.

(* ---------- util.FindClosure on a byte string: a closure found lies inside the string ---------- *)
Lemma find_closure_plain_bound ptbl : forall fuel bs i o c,
  0 <= find_closure_plain ptbl fuel bs i o c -> 0 <= i ->
  i <= find_closure_plain ptbl fuel bs i o c < i + zlen bs.
Proof.
  induction fuel as [|f IH]; intros bs i o c H Hi; cbn [find_closure_plain] in *; [lia|].
  destruct bs as [|b rest]; [lia|]. rewrite zlen_cons.
  destruct rest as [|b2 rest2].
  - change (zlen (@nil N)) with 0. destruct (N.eqb b c); lia.
  - rewrite zlen_cons. pose proof (zlen_nonneg rest2) as Hr.
    destruct (N.eqb b 92 && is_punct ptbl b2).
    + specialize (IH rest2 (i + 2) o c H ltac:(lia)). lia.
    + destruct (N.eqb b c); [lia|]. destruct (N.eqb b o); [lia|].
      specialize (IH (b2 :: rest2) (i + 1) o c H ltac:(lia)). rewrite zlen_cons in IH. lia.
Qed.

Lemma find_closure_bytes_bound ptbl bs o c :
  0 <= find_closure_bytes ptbl bs o c -> find_closure_bytes ptbl bs o c < zlen bs.
Proof.
  unfold find_closure_bytes. intros H.
  pose proof (find_closure_plain_bound ptbl (S (length bs)) bs 0 o c H ltac:(lia)). lia.
Qed.

(* ---------- Advance leaves the lazily computed line offset unset ---------- *)
Lemma b_set_position_loff r line pos r' : b_set_position r line pos = Ok r' -> b_loff r' = -1.
Proof.
  unfold b_set_position, b_nsegs. bsimpl. intros H.
  destruct (s_start pos =? -1); destruct (line <? zlen (b_segs r));
    try (destruct (seg_at (b_segs r) line) as [s| |]; cbn [bind] in H; try discriminate);
    inversion H; subst r'; reflexivity.
Qed.

Lemma b_advance_line_loff r r' : b_advance_line r = Ok r' -> b_loff r' = -1.
Proof.
  unfold b_advance_line. intros H.
  destruct (b_set_position r (b_line r + 1) (mkseg (-1) (-1))) as [r1| |] eqn:E; cbn [bind] in H; try discriminate.
  inversion H; subst r'. bsimpl. eapply b_set_position_loff. exact E.
Qed.

Lemma b_advance_slow_loff : forall fuel r n r', b_loff r = -1 -> b_advance_slow fuel r n = Ok r' -> b_loff r' = -1.
Proof.
  induction fuel as [|f IH]; intros r n r' Hl H; cbn [b_advance_slow] in H; [discriminate|].
  destruct (0 <? n); [|inversion H; subst r'; exact Hl].
  destruct (negb (s_pad (b_pos r) =? 0)); [eapply IH; [|exact H]; exact Hl|].
  destruct (_ && _).
  - destruct (b_advance_line r) as [r1| |] eqn:E; cbn [bind] in H; try discriminate.
    eapply IH; [|exact H]. eapply b_advance_line_loff. exact E.
  - eapply IH; [|exact H]. exact Hl.
Qed.

Lemma b_advance_loff r n r' : b_advance r n = Ok r' -> b_loff r' = -1.
Proof.
  unfold b_advance. intros H. destruct (_ && _).
  - inversion H; subst r'. reflexivity.
  - eapply b_advance_slow_loff; [|exact H]. reflexivity.
Qed.

Section Rd.
Variable src : bytes.
Variable lines : list seg.
Notation RI := (RI src lines).
Notation TRI := (ParseInlineTotalReader.RI src lines).

Lemma ri_total r : RI r -> TRI r.
Proof.
  intros H. split; [exact (ri_inv _ _ _ H)|]. split; [exact (ri_src _ _ _ H)|]. split; [exact (ri_segs _ _ _ H)|].
  split; [exact (ri_pad _ _ _ H)|exact (ri_pads _ _ _ H)].
Qed.

Lemma ri_of_total r : TRI r -> lines <> [] -> RI r.
Proof. intros (H & Es & Eg & Ep & Hp) Hne. constructor; assumption. Qed.

(* SetPosition to the position of a reader with no line offset gives that reader back *)
Lemma ri_set_position_back r' rd : RI r' -> RI rd -> b_loff rd = -1 -> b_line rd < zlen lines ->
  b_set_position r' (b_line rd) (b_pos rd) = Ok rd.
Proof.
  intros H' Hd Hl Hlt.
  pose proof (ri_bounds _ _ _ Hd) as Hb.
  destruct (binv_cur rd (ri_inv _ _ _ Hd)) as (s & pre & post & Hn & _ & _ & _ & _ & _ & Hh & _).
  { rewrite (ri_segs _ _ _ Hd). exact Hlt. }
  pose proof (bi_line rd (ri_inv _ _ _ Hd)) as Hl0.
  pose proof (bi_last _ (ri_inv _ _ _ H')) as La. pose proof (bi_last _ (ri_inv _ _ _ Hd)) as Lb.
  rewrite (ri_segs _ _ _ H') in La. rewrite (ri_segs _ _ _ Hd) in Lb, Hn.
  unfold b_set_position, b_nsegs. bsimpl.
  destruct (Z.eqb_spec (s_start (b_pos rd)) (-1)) as [E|_]; [lia|].
  rewrite (ri_segs _ _ _ H').
  destruct (Z.ltb_spec (b_line rd) (zlen lines)) as [_|E]; [|lia].
  unfold seg_at. destruct (Z.leb_spec 0 (b_line rd)) as [_|E]; [|lia].
  destruct (Z.ltb_spec (b_line rd) (zlen lines)) as [_|E]; [|lia]. cbn [andb].
  rewrite Hn. cbn [bind]. f_equal.
  pose proof (ri_src _ _ _ H') as S1. pose proof (ri_src _ _ _ Hd) as S2. pose proof (ri_segs _ _ _ Hd) as G2.
  pose proof (ri_segs _ _ _ H') as G1.
  unfold bset_head, bset_pos, bset_line, bset_loff. bsimpl.
  rewrite S1, G1, La, <- Lb, <- Hh, <- S2, <- G2, <- Hl. destruct rd as [a b c d e f g]. reflexivity.
Qed.

(* ---------- the footnote inline parser without a FootnoteList ---------- *)
Section Fn.
Variable punct_table : list N.
Variable fs : fstate.
Hypothesis Hfs : fs_defs fs = None.

Definition liftF (s : ist) : fist := {| fi_s := s; fi_f := fs |}.

Lemma footnote_parse_none s parent : RI (t_r s) ->
  exists r', footnote_parse punct_table (liftF s) parent = Ok (liftF (ist_r s r'), None) /\ RI r'.
Proof.
  intros H. unfold footnote_parse. cbn [fi_s liftF].
  rewrite (ParseInlineTotalReader.ri_peek_line src lines _ (ri_total _ H)). cbn [bind].
  assert (Hsame : fist_s (liftF s) (ist_r s (t_r s)) = liftF (ist_r s (t_r s))) by reflexivity.
  assert (Hstay : exists r', Ok (fist_s (liftF s) (ist_r s (t_r s)), @None nat) = Ok (liftF (ist_r s r'), None) /\ RI r').
  { exists (t_r s). split; [reflexivity|exact H]. }
  set (line := line_of (if b_in_range (t_r s) then Some (b_view (t_r s)) else None)).
  set (bang := match line with c :: _ => N.eqb c 33 | [] => false end).
  set (pos := if bang then 2 else 1).
  assert (Hpos : 1 <= pos <= 2) by (subst pos; destruct bang; lia).
  destruct (_ || _); [exact Hstay|].
  destruct (Z.leb_spec (zlen line) (pos + 1)) as [_|Hlen]; [exact Hstay|].
  set (closure := find_closure_bytes punct_table (zskip (pos + 1) line) 91%N 93%N).
  destruct (Z.ltb_spec closure 0) as [_|Hcl]; [exact Hstay|].
  pose proof (find_closure_bytes_bound punct_table _ _ _ Hcl) as Hcb. fold closure in Hcb.
  rewrite ParseInlineTotalReader2.zlen_zskip_eq in Hcb by lia.
  (* the line is there *)
  destruct (b_in_range (t_r s)) eqn:Hin.
  2:{ subst line. cbn [line_of] in Hlen. change (zlen (@nil N)) with 0 in Hlen. lia. }
  subst line. cbn [line_of] in *.
  destruct (ParseInlineTotalReader.ri_view src lines _ (ri_total _ H) Hin) as (_ & Evl & Hrange & Hstop & tl & Erest).
  pose proof (ri_ne _ _ _ H) as Hne.
  assert (Hf : exists first, hd_error lines = Some first).
  { clear - Hne. destruct lines as [|first lines']; [congruence|eexists; reflexivity]. }
  destruct Hf as [first Hf].
  pose proof (ParseInlineTotalReader2.ri_first_le src lines _ first (ri_total _ H) Hf Hin) as Hfl.
  cbn [t_r ist_r].
  destruct (ParseInlineTotalReader2.ri_b_value src lines (t_r s)
              (mkseg (s_start (b_pos (t_r s)) + (pos + 1)) (s_start (b_pos (t_r s)) + (pos + 1 + closure))) first
              (ri_total _ H) Hf) as [v Ev]; [cbn [mkseg mksegp s_start]; lia|cbn [mkseg mksegp s_start s_stop]; lia|].
  rewrite Ev. cbn [bind].
  destruct (ParseInlineTotalReader.ri_advance src lines (t_r s) (pos + 1 + closure + 1) (ri_total _ H))
    as (r' & Ea & Hr' & _).
  { rewrite Erest, zlen_app. pose proof (zlen_nonneg tl). lia. }
  rewrite Ea. cbn [bind fi_f fist_s liftF]. rewrite Hfs.
  exists r'. split; [reflexivity|]. apply ri_of_total; [exact Hr'|exact Hne].
Qed.

End Fn.
End Rd.
