(* HeadingOptsWfInl, part C (hwInl): the link parser, the autolink parser, the emphasis parser and
   the code span parser of model/InlineParse.v under the lock-step relation of part A. *)
Require Import GM.model.Base GM.model.Util GM.model.Reader GM.model.ReaderSpec GM.model.ListItem GM.model.CodeSpan GM.model.LinkDest
               GM.model.Regex GM.model.Delim GM.model.BlockParse GM.model.InlineParse.
Require Import GM.proofs.BReaderProofs GM.proofs.BlockRangeProofs GM.proofs.ParseInv GM.proofs.ParseInlineRangeReader GM.proofs.ParseInlineRangeParsers
               GM.proofs.HeadingOptsWfInlA GM.proofs.HeadingOptsWfInlB.
From Coq Require Import ZArith Lia ZifyBool List Bool.
Import ListNotations.
Open Scope Z_scope.

Section C.
Variable space_table punct_table : list N.
Variable norm : bytes -> bytes.
Variable url_table email_table : list N.
Variable re_email_domain : re.
Variable punct_rune space_rune : N -> bool.
Variable refs : list (bytes * (bytes * option bytes)).
Variable src : bytes.
Variable pre : list seg.
Variable e : seg.
Hypothesis Hpre : segs_ok src pre.
Hypothesis Hpads : Forall (fun s => s_pad s = 0) pre.
Hypothesis Hne : pre <> [].
Hypothesis He1 : s_start e = s_stop e.
Hypothesis He2 : s_pad e = 0.
Hypothesis He3 : s_fnl e = false.
Hypothesis Hke : last_stop pre <= s_start e.

Notation Sim := (Sim src pre e).
Notation EQS := (EQS src pre e).

Ltac inst L := let X := fresh in pose proof (L src pre e) as X;
  repeat match type of X with ?P -> _ => specialize (X ltac:(assumption)) end; exact X.
Ltac inst2 L := let X := fresh in pose proof (L space_table punct_table src pre e) as X;
  repeat match type of X with ?P -> _ => specialize (X ltac:(assumption)) end; exact X.
Ltac inst1s L := let X := fresh in pose proof (L space_table src pre e) as X;
  repeat match type of X with ?P -> _ => specialize (X ltac:(assumption)) end; exact X.
Ltac inst1p L := let X := fresh in pose proof (L punct_table src pre e) as X;
  repeat match type of X with ?P -> _ => specialize (X ltac:(assumption)) end; exact X.
Definition c_peek := ltac:(inst sim_peek).
Definition c_peek_line := ltac:(inst sim_peek_line).
Definition c_set_position := ltac:(inst sim_set_position).
Definition c_advance := ltac:(inst sim_advance).
Definition c_in_eqs := ltac:(inst sim_in_eqs).
Definition c_preceding := ltac:(inst sim_preceding).
Definition c_inv0 := ltac:(inst sim_inv0).
Definition c_inv1 := ltac:(inst sim_inv1).
Definition c_skip_spaces_r := ltac:(inst1s sim_skip_spaces_r).
Definition c_b_skip_spaces := ltac:(inst1s sim_b_skip_spaces).
Definition c_find_closure := ltac:(inst1p sim_find_closure).
Definition c_b_value := ltac:(inst sim_b_value).
Definition c_bvalues := ltac:(inst sim_bvalues).
Definition c_pld := ltac:(inst2 sim_parse_link_destination).
Definition c_code_span := ltac:(inst1s sim_code_span_parse).

Lemma peek_in r c : b_peek r = Ok c -> c <> 255%N -> b_in_range r = true.
Proof. unfold b_peek. destruct (b_in_range r); [reflexivity|]. intros H; inversion H; congruence. Qed.

Lemma sim_src r r' : Sim r r' -> b_src r' = b_src r.
Proof. intros (I & J & _). rewrite (i_src _ _ _ I), (j_src _ _ _ _ J). reflexivity. Qed.

(* ---------- parseLinkTitle, parseLink ---------- *)
Lemma sim_parse_link_title r r' r1 t : Sim r r' -> parse_link_title space_table punct_table r = Ok (r1, t) ->
  exists r1', parse_link_title space_table punct_table r' = Ok (r1', t) /\ Sim r1 r1'.
Proof.
  unfold parse_link_title. intros S H.
  bd H x Ex. destruct x as [[[r2 sg] ch] ok].
  destruct (c_b_skip_spaces _ _ _ _ _ _ S Ex) as (r2' & sg' & E' & S2). rewrite E'. cbn [bind].
  rewrite (c_peek _ _ S2). bd H op Eo. cbn [bind].
  destruct (negb (N.eqb op 34 || N.eqb op 39 || N.eqb op 40)); [inversion H; subst; exists r2'; auto|].
  bd H r3 E3. destruct (c_advance _ _ 1 r3 S2 ltac:(lia) E3) as (r3' & E3' & S3 & _). rewrite E3'. cbn [bind].
  bd H z Ez. destruct z as [r4 segs].
  destruct (c_find_closure _ _ _ _ _ _ _ S3 Ez) as (r4' & Ez' & S4). rewrite Ez'. cbn [bind].
  destruct segs as [segs|]; [|inversion H; subst; exists r4'; auto].
  bd H tv Et. rewrite (c_bvalues _ _ S4 _ _ Et). cbn [bind]. inversion H; subst. exists r4'. auto.
Qed.

Lemma sim_parse_link r r' r1 res : Sim r r' -> parse_link space_table punct_table r = Ok (r1, res) ->
  exists r1', parse_link space_table punct_table r' = Ok (r1', res) /\ Sim r1 r1'.
Proof.
  unfold parse_link. intros S H.
  bd H r2 E2. destruct (c_advance _ _ 1 r2 S ltac:(lia) E2) as (r2' & E2' & S2 & _). rewrite E2'. cbn [bind].
  bd H r3 E3. destruct (c_skip_spaces_r _ _ _ S2 E3) as (r3' & E3' & S3). rewrite E3'. cbn [bind].
  rewrite (c_peek _ _ S3). bd H pk Ep. cbn [bind].
  destruct (N.eqb pk 41).
  { bd H r4 E4. destruct (c_advance _ _ 1 r4 S3 ltac:(lia) E4) as (r4' & E4' & S4 & _). rewrite E4'. cbn [bind]. inversion H; subst. exists r4'. auto. }
  bd H d Ed. destruct d as [r4 dest].
  destruct (c_pld _ _ _ _ S3 Ed) as (r4' & Ed' & S4). rewrite Ed'. cbn [bind].
  destruct dest as [dest|]; [|inversion H; subst; exists r4'; auto].
  bd H r5 E5. destruct (c_skip_spaces_r _ _ _ S4 E5) as (r5' & E5' & S5). rewrite E5'. cbn [bind].
  rewrite (c_peek _ _ S5). bd H pk2 Ep2. cbn [bind].
  destruct (N.eqb pk2 41).
  { bd H r6 E6. destruct (c_advance _ _ 1 r6 S5 ltac:(lia) E6) as (r6' & E6' & S6 & _). rewrite E6'. cbn [bind]. inversion H; subst. exists r6'. auto. }
  bd H tv Et. destruct tv as [r6 title].
  destruct (sim_parse_link_title _ _ _ _ S5 Et) as (r6' & Et' & S6). rewrite Et'. cbn [bind].
  destruct title as [title|]; [|inversion H; subst; exists r6'; auto].
  bd H r7 E7. destruct (c_skip_spaces_r _ _ _ S6 E7) as (r7' & E7' & S7). rewrite E7'. cbn [bind].
  rewrite (c_peek _ _ S7). bd H pk3 Ep3. cbn [bind].
  destruct (N.eqb pk3 41).
  { bd H r8 E8. destruct (c_advance _ _ 1 r8 S7 ltac:(lia) E8) as (r8' & E8' & S8 & _). rewrite E8'. cbn [bind]. inversion H; subst. exists r8'. auto. }
  inversion H; subst. exists r7'. auto.
Qed.

(* ---------- parseReferenceLink: entered on a '[' (in range) ---------- *)
Lemma sim_parse_reference_link c r r' last r1 res hv : Sim r r' -> b_in_range r = true ->
  parse_reference_link space_table punct_table norm refs {| t_c := c; t_r := r |} last = Ok (r1, res, hv) ->
  exists r1', parse_reference_link space_table punct_table norm refs {| t_c := c; t_r := r' |} last = Ok (r1', res, hv) /\ Sim r1 r1'.
Proof.
  unfold parse_reference_link. cbn [t_c t_r]. intros S Hin H.
  destruct (c_in_eqs _ _ S Hin) as (_ & _ & (_ & Ep & _)).
  bd H r2 E2. destruct (c_advance _ _ 1 r2 S ltac:(lia) E2) as (r2' & E2' & S2 & _). rewrite E2'. cbn [bind].
  bd H z Ez. destruct z as [r3 segs].
  destruct (c_find_closure _ _ _ _ _ _ _ S2 Ez) as (r3' & Ez' & S3). rewrite Ez'. cbn [bind].
  destruct segs as [segs|]; [|inversion H; subst; exists r3'; auto].
  bd H v Ev. rewrite (c_bvalues _ _ S3 _ _ Ev). cbn [bind].
  bd H x Ex. cbn [bind]. destruct x as [[[[[lsg im] lp] ln] lf] ll].
  rewrite Ep.
  match type of H with bind ?X _ = _ => destruct X as [v2| |] eqn:Ev2; cbn [bind] in H; try discriminate H end.
  assert (Ev2' : (if Reader.is_blank space_table v then b_value r3' (mkseg (s_stop lsg) (s_start (b_pos r) - 1)) else Ok v) = Ok v2).
  { revert Ev2. destruct (Reader.is_blank space_table v); intros Ev2; [exact (c_b_value _ _ _ _ S3 Ev2)|exact Ev2]. }
  rewrite Ev2'. cbn [bind].
  destruct (999 <? zlen v2); [inversion H; subst; exists r3'; auto|].
  destruct (lookup_ref norm refs v2) as [[d t]|]; inversion H; subst; exists r3'; auto.
Qed.

(* ---------- the parts of linkParser.Parse that do not touch the reader ---------- *)
Lemma label_fail_eq c r r' last :
  label_fail {| t_c := c; t_r := r' |} last =
  match label_fail {| t_c := c; t_r := r |} last with Ok (s1, n) => Ok (ist_r s1 r', n) | Panic => Panic | OutOfFuel => OutOfFuel end.
Proof.
  unfold label_fail. cbn [t_c t_r ist_c].
  destruct (lget (i_h c) last) as [[[[[[sg im] lp] ln] lf] ll]| |]; cbn [bind]; try reflexivity.
  destruct (iget (i_h c) last) as [nd| |]; cbn [bind]; try reflexivity.
  destruct (ipar nd) as [p|]; [|reflexivity].
  destruct (merge_or_replace c p last sg) as [c2| |]; cbn [bind]; try reflexivity.
  destruct (pop_bottom c2) as [c3 bt]. reflexivity.
Qed.
Lemma label_fail_tr c r last s1 n : label_fail {| t_c := c; t_r := r |} last = Ok (s1, n) -> t_r s1 = r.
Proof.
  unfold label_fail. cbn [t_c t_r ist_c]. intros H.
  bd H x Ex. destruct x as [[[[[sg im] lp] ln] lf] ll]. bd H nd En. destruct (ipar nd) as [p|]; [|discriminate H].
  bd H c2 Ec. destruct (pop_bottom c2) as [c3 bt]. inversion H; subst. reflexivity.
Qed.
Lemma label_fail_r c r last s1 n : label_fail {| t_c := c; t_r := r |} last = Ok (s1, n) ->
  t_r s1 = r /\ forall r', label_fail {| t_c := c; t_r := r' |} last = Ok (ist_r s1 r', n).
Proof.
  intros H. split; [exact (label_fail_tr _ _ _ _ _ H)|]. intros r'. rewrite (label_fail_eq c r r' last), H. reflexivity.
Qed.

Lemma process_link_label_r c r link last s1 : process_link_label {| t_c := c; t_r := r |} link last = Ok s1 ->
  t_r s1 = r /\ forall r', b_src r' = b_src r -> process_link_label {| t_c := c; t_r := r' |} link last = Ok (ist_r s1 r').
Proof.
  unfold process_link_label, ifuel. cbn [t_c t_r ist_c]. intros H.
  destruct (pop_bottom c) as [c2 bt] eqn:Epb. bd H c3 Ec. bd H nx En. bd H h Eh. inversion H; subst. split; [reflexivity|].
  intros r' Hs. rewrite Hs, Ec. cbn [bind]. rewrite En. cbn [bind]. rewrite Eh. reflexivity.
Qed.

Ltac nrm := cbn [bind] in *; unfold ist_r, ist_c in *; cbn [t_c t_r] in *.

Lemma sim_link_parse c r r' parent s1 n : Sim r r' ->
  link_parse space_table punct_table norm refs {| t_c := c; t_r := r |} parent = Ok (s1, n) ->
  exists r1', link_parse space_table punct_table norm refs {| t_c := c; t_r := r' |} parent = Ok ({| t_c := t_c s1; t_r := r1' |}, n) /\ Sim (t_r s1) r1'.
Proof using All.
  unfold link_parse. intros S H. nrm.
  bd H y Ey. destruct y as [[r0 ln] segment].
  destruct (c_peek_line r r' r0 ln segment S Ey) as [-> [(v & -> & Hin & Q & -> & E')|(-> & Hout & _)]]; [|discriminate H].
  rewrite E'. nrm. destruct v as [|c0 rest]; [discriminate H|].
  (* opening a label *)
  assert (Hopen : forall (cc : ictx) (pos : Z) (im : bool) (rr rr' : breader) (s2 : ist) (n2 : option nat), Sim rr rr' ->
    (let start := if im then pos - 1 else pos in
     let '(c1, st) := new_inode cc (ILabel (mkseg start (pos + 1)) im None None None None) in
     c2 <- push_label c1 st ;; r2 <- b_advance rr 1 ;; Ok ({| t_c := c2; t_r := r2 |}, Some st)) = Ok (s2, n2) ->
    exists r1', (let start := if im then pos - 1 else pos in
     let '(c1, st) := new_inode cc (ILabel (mkseg start (pos + 1)) im None None None None) in
     c2 <- push_label c1 st ;; r2 <- b_advance rr' 1 ;; Ok ({| t_c := c2; t_r := r2 |}, Some st)) = Ok (ist_r s2 r1', n2) /\ Sim (t_r s2) r1').
  { intros cc pos im rr rr' s2 n2 SS HH. cbv zeta in *. destruct (new_inode cc _) as [c1 st].
    bd HH c2 Ec2. bd HH r2 E2. inversion HH; subst.
    destruct (c_advance _ _ 1 r2 SS ltac:(lia) E2) as (r2' & E2' & S2 & _). rewrite E2'. nrm. exists r2'. auto. }
  destruct (N.eqb c0 33).
  { destruct rest as [|c1 rest']; [inversion H; subst; exists r'; auto|].
    destruct (N.eqb c1 91); [|inversion H; subst; exists r'; auto].
    bd H r2 E2. destruct (c_advance _ _ 1 r2 S ltac:(lia) E2) as (r2' & E2' & S2 & _). rewrite E2'. nrm.
    cbn [t_c t_r] in *. exact (Hopen (push_bottom c) (s_start (b_pos r) + 1) true r2 r2' s1 n S2 H). }
  destruct (N.eqb c0 91).
  { cbn [t_c t_r] in *. exact (Hopen (push_bottom c) (s_start (b_pos r)) false r r' s1 n S H). }
  destruct (i_labels c) as [tlist|]; [|inversion H; subst; exists r'; auto].
  bd H x Ex. nrm. destruct x as [[[[[xa xb] xc] xd] xe] tl_last].
  destruct tl_last as [last|]; [|inversion H; subst; exists r'; auto].
  bd H r2 E2. destruct (c_advance _ _ 1 r2 S ltac:(lia) E2) as (r2' & E2' & S2 & _). rewrite E2'. nrm.
  bd H c2 Ec2. nrm. bd H len El. nrm.
  (* the label-failure exit *)
  assert (Hfail : forall (cc : ictx) (rr rr' : breader) (s2 : ist) (n2 : option nat), Sim rr rr' -> label_fail {| t_c := cc; t_r := rr |} last = Ok (s2, n2) ->
                  exists r1', label_fail {| t_c := cc; t_r := rr' |} last = Ok (ist_r s2 r1', n2) /\ Sim (t_r s2) r1').
  { intros cc rr rr' s2 n2 SS HH. destruct (label_fail_r _ _ _ _ _ HH) as [Et Hall]. exists rr'. rewrite Et. auto. }
  destruct (998 <? len); [exact (Hfail _ _ _ _ _ S2 H)|].
  bd H lx Elx. nrm. destruct lx as [[[[[lsg is_image] ya] yb] yc] yd].
  bd H lnd Eln. nrm. bd H lpar Elp. nrm. bd H lparn Elpn. nrm. bd H has_link Ehl. nrm.
  destruct has_link; [exact (Hfail _ _ _ _ _ S2 H)|].
  rewrite (c_peek _ _ S2). bd H pk Epk. nrm.
  (* the three ways to find the link data *)
  match type of H with bind ?X _ = _ => destruct X as [o| |] eqn:Eo; cbn [bind] in H; try discriminate H end.
  assert (Ho : exists o', (if N.eqb pk 40
        then p <- parse_link space_table punct_table r2';; (let '(r, res) := p in Ok (inr ({| t_c := c2; t_r := r |}, res)))
        else if N.eqb pk 91
             then p <- parse_reference_link space_table punct_table norm refs {| t_c := c2; t_r := r2' |} last;;
                  (let '(r, res, has_value) := p in
                   match res with
                   | Some _ => Ok (inr ({| t_c := c2; t_r := r |}, res))
                   | None => if has_value then Ok (inl {| t_c := c2; t_r := r |}) else Ok (inr ({| t_c := c2; t_r := r |}, None))
                   end)
             else Ok (inr ({| t_c := c2; t_r := r2' |}, None))) = Ok o' /\
        match o, o' with
        | inl sa, inl sb => t_c sb = t_c sa /\ Sim (t_r sa) (t_r sb)
        | inr (sa, ra), inr (sb, rb) => t_c sb = t_c sa /\ Sim (t_r sa) (t_r sb) /\ rb = ra
        | _, _ => False
        end).
  { destruct (N.eqb_spec pk 40) as [E40|N40].
    - bd Eo p Ep. destruct p as [r3 res]. inversion Eo; subst o.
      destruct (sim_parse_link _ _ _ _ S2 Ep) as (r3' & Ep' & S3). rewrite Ep'. nrm. eexists. split; [reflexivity|]. cbn [t_c t_r]. auto.
    - destruct (N.eqb_spec pk 91) as [E91|N91].
      + bd Eo p Ep. destruct p as [[r3 res] hv].
        assert (Hin2 : b_in_range r2 = true) by (apply (peek_in _ _ Epk); rewrite E91; discriminate).
        destruct (sim_parse_reference_link _ _ _ _ _ _ _ S2 Hin2 Ep) as (r3' & Ep' & S3). rewrite Ep'. nrm.
        destruct res as [dt|]; [|destruct hv]; inversion Eo; subst o; eexists; (split; [reflexivity|]); cbn [t_c t_r]; auto.
      + inversion Eo; subst o. eexists. split; [reflexivity|]. cbn [t_c t_r]. auto. }
  destruct Ho as (o' & Eo' & Hrel). rewrite Eo'. nrm.
  destruct o as [sa|[sa ra]]; destruct o' as [sb|[sb rb]]; try contradiction.
  { destruct sa as [ca rra], sb as [cb rrb]. cbn [t_c t_r] in Hrel. destruct Hrel as [-> SS]. exact (Hfail _ _ _ _ _ SS H). }
  destruct sa as [ca rra], sb as [cb rrb]. cbn [t_c t_r] in Hrel. destruct Hrel as (-> & SS & ->). cbn [t_c t_r ist_r ist_c] in *.
  match type of H with bind ?X _ = _ => destruct X as [fin| |] eqn:Ef; cbn [bind] in H; try discriminate H end.
  assert (Hf : exists fin', match ra with
        | Some dt => Ok (inr ({| t_c := ca; t_r := rrb |}, dt))
        | None => r0 <- b_set_position rrb (b_line r2') (b_pos r2');;
                 v <- b_value r0 (mkseg (s_stop lsg) (s_start (b_pos r)));;
                 (if 999 <? zlen v then Ok (inl {| t_c := ca; t_r := r0 |})
                  else match lookup_ref norm refs v with
                       | Some dt => Ok (inr ({| t_c := ca; t_r := r0 |}, dt))
                       | None => Ok (inl {| t_c := ca; t_r := r0 |})
                       end)
        end = Ok fin' /\
        match fin, fin' with
        | inl sa, inl sb => t_c sb = t_c sa /\ Sim (t_r sa) (t_r sb)
        | inr (sa, da), inr (sb, db) => t_c sb = t_c sa /\ Sim (t_r sa) (t_r sb) /\ db = da
        | _, _ => False
        end).
  { destruct ra as [dt|].
    - inversion Ef; subst fin. eexists. split; [reflexivity|]. cbn [t_c t_r]. auto.
    - bd Ef r3 E3. destruct (c_set_position rra rrb r2 r2' r3 (c_inv0 _ _ SS) (c_inv1 _ _ SS) S2 E3) as (r3' & E3' & S3 & _).
      rewrite E3'. cbn [bind]. bd Ef v Ev. rewrite (c_b_value _ _ _ _ S3 Ev). cbn [bind].
      destruct (999 <? zlen v); [inversion Ef; subst fin; eexists; split; [reflexivity|]; cbn [t_c t_r]; auto|].
      destruct (lookup_ref norm refs v) as [dt|]; inversion Ef; subst fin; eexists; (split; [reflexivity|]); cbn [t_c t_r]; auto. }
  destruct Hf as (fin' & Ef' & Hrel). rewrite Ef'. nrm.
  destruct fin as [sa|[sa da]]; destruct fin' as [sb|[sb db]]; try contradiction.
  { destruct sa as [ca2 rra2], sb as [cb2 rrb2]. cbn [t_c t_r] in Hrel. destruct Hrel as [-> SS2]. exact (Hfail _ _ _ _ _ SS2 H). }
  destruct sa as [ca2 rra2], sb as [cb2 rrb2]. cbn [t_c t_r] in Hrel. destruct Hrel as (-> & SS2 & ->). nrm.
  destruct da as [dest title]. destruct (new_inode ca2 (ILink dest title)) as [c1 link].
  bd H s3 E3. destruct s3 as [c3 r3]. destruct (process_link_label_r _ _ _ _ _ E3) as [Et Hall]. cbn [t_r] in Et. subst r3.
  rewrite (Hall rrb2 (sim_src _ _ SS2)). nrm.
  bd H lnd2 Eln2. nrm. bd H lpar2 Elp2. nrm. bd H h2 Eh2. nrm.
  destruct is_image.
  - destruct (new_inode (cx_h c3 h2) (IImage dest title)) as [c4 img]. bd H lk Elk. nrm. bd H h3 Eh3. nrm.
    inversion H; subst. exists rrb2. cbn [t_c t_r]. auto.
  - inversion H; subst. exists rrb2. cbn [t_c t_r]. auto.
Qed.

(* ---------- autolinks ---------- *)
Lemma sim_autolink_parse c r r' s1 n : Sim r r' ->
  autolink_parse url_table email_table re_email_domain {| t_c := c; t_r := r |} = Ok (s1, n) ->
  exists r1', autolink_parse url_table email_table re_email_domain {| t_c := c; t_r := r' |} = Ok ({| t_c := t_c s1; t_r := r1' |}, n) /\ Sim (t_r s1) r1'.
Proof using All.
  unfold autolink_parse. intros S H. nrm.
  bd H y Ey. destruct y as [[r0 ln] segment].
  destruct (c_peek_line r r' r0 ln segment S Ey) as [-> [(v & -> & Hin & Q & -> & E')|(-> & Hout & _)]]; [|discriminate H].
  rewrite E'. nrm. destruct v as [|c0 tl]; [discriminate H|].
  destruct (if find_email_index email_table re_email_domain tl <? 0 then (find_url_index url_table tl, false)
            else (find_email_index email_table re_email_domain tl, true)) as [stop email].
  destruct (Z.ltb_spec stop 0) as [Hneg|Hpos]; [inversion H; subst; exists r'; cbn [t_c t_r]; auto|].
  destruct (_ || _); [inversion H; subst; exists r'; cbn [t_c t_r]; auto|].
  destruct (new_inode c _) as [c1 nn]. bd H r2 E2. inversion H; subst.
  destruct (c_advance _ _ (stop + 1 + 1) r2 S ltac:(lia) E2) as (r2' & E2' & S2 & _). rewrite E2'. nrm. exists r2'. auto.
Qed.

(* ---------- emphasis ---------- *)
Lemma sim_emphasis_parse c r r' s1 n : Sim r r' -> b_in_range r = true ->
  emphasis_parse punct_rune space_rune {| t_c := c; t_r := r |} = Ok (s1, n) ->
  exists r1', emphasis_parse punct_rune space_rune {| t_c := c; t_r := r' |} = Ok ({| t_c := t_c s1; t_r := r1' |}, n) /\ Sim (t_r s1) r1'.
Proof using All.
  unfold emphasis_parse. intros S Hin H. nrm.
  rewrite (c_preceding _ _ (c_in_eqs _ _ S Hin)). bd H before Eb. nrm.
  bd H y Ey. destruct y as [[r0 ln] segment].
  destruct (c_peek_line r r' r0 ln segment S Ey) as [-> [(v & -> & _ & Q & -> & E')|(-> & Hout & _)]]; [|congruence].
  rewrite E'. nrm. bd H d Ed. nrm. destruct d as [[[[co cc] len] chh]|]; [|inversion H; subst; exists r'; cbn [t_c t_r]; auto].
  pose proof (scan_delimiter_in_range _ _ _ _ _ _ _ _ _ _ Ed) as (Hlen & _ & _).
  destruct (new_inode c _) as [c1 nn]. bd H r2 E2. bd H c2 Ec2. inversion H; subst.
  destruct (c_advance _ _ len r2 S ltac:(lia) E2) as (r2' & E2' & S2 & _). rewrite E2'. nrm. exists r2'. auto.
Qed.

(* ---------- code spans ---------- *)
Lemma sim_code_span_parse_s c r r' s1 n : Sim r r' -> b_in_range r = true ->
  code_span_parse_s space_table {| t_c := c; t_r := r |} = Ok (s1, n) ->
  exists r1', code_span_parse_s space_table {| t_c := c; t_r := r' |} = Ok ({| t_c := t_c s1; t_r := r1' |}, n) /\ Sim (t_r s1) r1'.
Proof using All.
  unfold code_span_parse_s. intros S Hin H. nrm.
  bd H x Ex. destruct x as [res r2].
  destruct (c_code_span _ _ _ _ S Hin Ex) as (r2' & Ex' & S2). rewrite Ex'. nrm.
  destruct res as [segs|sg].
  - destruct (new_inode c ICodeSpan) as [c1 nn]. bd H c2 Ec2. inversion H; subst. exists r2'. cbn [t_c t_r]. auto.
  - destruct (new_inode c (mk_text sg)) as [c1 nn]. inversion H; subst. exists r2'. cbn [t_c t_r]. auto.
Qed.

End C.
