(* C18, plain reader: the reader of model/Reader.v behaves as the cursor of model/ReaderSpec.v. *)
(* Status: every theorem of the skeleton is proved as stated (no statement was changed, RInv and
   saved_from in model/ReaderSpec.v are unchanged: the invariant turned out to be inductive as
   written).  Additions, all strictly strengthening:
   - advance_skips_gen: Advance(n) succeeds and skips exactly n bytes of r_rest for every n >= 0
     (the upper bound n <= zlen (r_rest r) of advance_skips is not needed: skipn saturates at the
     end just as the reader does); advance_skips is a corollary.
   - line_head_exists: line_head is defined (and lies in [0, start]) for every position inside the
     source, so the hypothesis of line_offset_is_column is never vacuous.
   - find_closure_total_inv: the totality result together with the invariant of the result. *)
Require Import GM.model.Base GM.model.Util GM.model.Reader GM.model.ReaderSpec.
From Coq Require Import ZArith Lia List Bool.
Open Scope Z_scope.

(* ================= lists ================= *)
Lemma zlen_nil {A} : zlen (@nil A) = 0.
Proof. reflexivity. Qed.
Lemma zlen_cons {A} (a : A) l : zlen (a :: l) = 1 + zlen l.
Proof. unfold zlen. cbn [length]. lia. Qed.
Lemma zlen_app {A} (a b : list A) : zlen (a ++ b) = zlen a + zlen b.
Proof. unfold zlen. rewrite app_length. lia. Qed.
Lemma zlen_nonneg {A} (l : list A) : 0 <= zlen l.
Proof. unfold zlen. lia. Qed.
Lemma zlen_zero {A} (l : list A) : zlen l = 0 -> l = [].
Proof. destruct l as [|a l]; [reflexivity|]. rewrite zlen_cons. pose proof (zlen_nonneg l). lia. Qed.

Lemma skipn_skipn_nat {A} (x y : nat) (l : list A) : skipn x (skipn y l) = skipn (y + x) l.
Proof.
  revert l. induction y as [|y IH]; intros l; [reflexivity|].
  destruct l as [|a l]; [now rewrite !skipn_nil|]. cbn [skipn Nat.add]. apply IH.
Qed.

Lemma skipn_nth_cons {A} (d : A) n (l : list A) : (n < length l)%nat ->
  skipn n l = nth n l d :: skipn (S n) l.
Proof.
  revert l. induction n as [|n IH]; intros l Hn; destruct l as [|a l]; cbn [length] in Hn; try lia.
  - reflexivity.
  - cbn [skipn nth]. rewrite (IH l) by lia. reflexivity.
Qed.

Lemma firstn_succ_nth {A} (d : A) n (l : list A) : (n < length l)%nat ->
  firstn (S n) l = firstn n l ++ [nth n l d].
Proof.
  revert l. induction n as [|n IH]; intros l Hn; destruct l as [|a l]; cbn [length] in Hn; try lia.
  - reflexivity.
  - cbn [firstn nth app]. f_equal. apply IH. lia.
Qed.

Lemma skipn_app_length {A} (a c : list A) k : skipn (length a + k) (a ++ c) = skipn k c.
Proof. induction a as [|x a IH]; [reflexivity|]. cbn [length Nat.add app skipn]. exact IH. Qed.

(* Z-indexed versions *)
Lemma skipn_split (src : bytes) s : 0 <= s < zlen src ->
  skipn (Z.to_nat s) src = nth (Z.to_nat s) src 0%N :: skipn (Z.to_nat (s + 1)) src.
Proof.
  intros Hs. unfold zlen in Hs. replace (Z.to_nat (s + 1)) with (S (Z.to_nat s)) by lia.
  apply skipn_nth_cons. lia.
Qed.

Lemma firstn_split (src : bytes) s : 0 <= s < zlen src ->
  firstn (Z.to_nat (s + 1)) src = firstn (Z.to_nat s) src ++ [nth (Z.to_nat s) src 0%N].
Proof.
  intros Hs. unfold zlen in Hs. replace (Z.to_nat (s + 1)) with (S (Z.to_nat s)) by lia.
  apply firstn_succ_nth. lia.
Qed.

Lemma skipn_zlen (src : bytes) s : zlen src <= s -> skipn (Z.to_nat s) src = [].
Proof. intros Hs. apply skipn_all2. unfold zlen in Hs. lia. Qed.

Lemma firstn_zlen (src : bytes) s : zlen src <= s -> firstn (Z.to_nat s) src = src.
Proof. intros Hs. apply firstn_all2. unfold zlen in Hs. lia. Qed.

Lemma zlen_skipn (src : bytes) s : 0 <= s <= zlen src -> zlen (skipn (Z.to_nat s) src) = zlen src - s.
Proof. intros Hs. unfold zlen in *. rewrite skipn_length. lia. Qed.

Lemma zlen_spaces p : 0 <= p -> zlen (spaces_n p) = p.
Proof. intros Hp. unfold zlen, spaces_n. rewrite repeat_length. lia. Qed.

Lemma spaces_pos p : 0 < p -> spaces_n p = 32%N :: spaces_n (p - 1).
Proof.
  intros Hp. unfold spaces_n. replace (Z.to_nat p) with (S (Z.to_nat (p - 1))) by lia. reflexivity.
Qed.

Lemma spaces_zero : spaces_n 0 = [].
Proof. reflexivity. Qed.

(* ================= slice / sub / at_ ================= *)
Lemma slice_sub src a b : 0 <= a <= b -> b <= zlen src -> slice src a b = Ok (sub src a b).
Proof.
  intros Hab Hb. unfold slice, sub.
  destruct (Z.leb_spec 0 a) as [Ha0|Ha0]; [|lia]. destruct (Z.leb_spec a b) as [Hab1|Hab1]; [|lia]. destruct (Z.leb_spec b (zlen src)) as [Hc1|Hc1]; [|lia].
  reflexivity.
Qed.

Lemma at_nth src i : 0 <= i < zlen src -> at_ src i = Ok (nth (Z.to_nat i) src 0%N).
Proof.
  intros Hi. unfold at_. destruct (Z.leb_spec 0 i) as [Hi0|Hi0]; [|lia]. destruct (Z.ltb_spec i (zlen src)) as [Hc2|Hc2]; [|lia]. reflexivity.
Qed.

Lemma sub_empty src a b : b <= a -> sub src a b = [].
Proof. intros Hab. unfold sub. replace (Z.to_nat (b - a)) with O by lia. reflexivity. Qed.

Lemma zlen_sub src a b : 0 <= a <= b -> b <= zlen src -> zlen (sub src a b) = b - a.
Proof.
  intros Hab Hb. unfold sub, zlen in *. rewrite firstn_length, skipn_length.
  rewrite Nat.min_l by lia. lia.
Qed.

Lemma length_sub src a b : 0 <= a <= b -> b <= zlen src -> length (sub src a b) = Z.to_nat (b - a).
Proof. intros Hab Hb. pose proof (zlen_sub src a b Hab Hb) as H. unfold zlen in H. lia. Qed.

Lemma sub_head src a b : 0 <= a < b -> a < zlen src ->
  sub src a b = nth (Z.to_nat a) src 0%N :: sub src (a + 1) b.
Proof.
  intros Hab Ha. unfold sub. rewrite (skipn_split src a) by lia.
  replace (Z.to_nat (b - a)) with (S (Z.to_nat (b - (a + 1)))) by lia. reflexivity.
Qed.

(* ================= newline counting ================= *)
Lemma nl_count_app a b : nl_count (a ++ b) = nl_count a + nl_count b.
Proof. induction a as [|c a IH]; [reflexivity|]. cbn [app nl_count]. rewrite IH. lia. Qed.

Lemma nl_count_nonneg v : 0 <= nl_count v.
Proof. induction v as [|c v IH]; cbn [nl_count]; [lia|]. destruct (N.eqb c 10); lia. Qed.

Lemma nl_count_firstn_succ src s : 0 <= s < zlen src ->
  nl_count (firstn (Z.to_nat (s + 1)) src) =
  nl_count (firstn (Z.to_nat s) src) + (if N.eqb (nth (Z.to_nat s) src 0%N) 10 then 1 else 0).
Proof. intros Hs. rewrite firstn_split by lia. rewrite nl_count_app. cbn [nl_count]. lia. Qed.

(* ================= line_stop / line_end ================= *)
Lemma line_stop_bounds rest i : rest <> [] -> i < line_stop rest i <= i + zlen rest.
Proof.
  revert i. induction rest as [|c tl IH]; intros i Hne; [congruence|].
  cbn [line_stop]. rewrite zlen_cons. pose proof (zlen_nonneg tl) as Htl.
  destruct (N.eqb c 10); [lia|].
  destruct tl as [|d tl']; [cbn [line_stop]; change (zlen (@nil N)) with 0; lia|].
  specialize (IH (i + 1) ltac:(discriminate)). rewrite zlen_cons in *. lia.
Qed.

Lemma line_end_eof src s : zlen src <= s -> line_end src s = zlen src.
Proof. intros Hs. unfold line_end. destruct (Z.ltb_spec s (zlen src)) as [Hc3|Hc3]; [lia|reflexivity]. Qed.

Lemma line_end_nl src s : 0 <= s < zlen src -> nth (Z.to_nat s) src 0%N = 10%N -> line_end src s = s + 1.
Proof.
  intros Hs Hc. unfold line_end. destruct (Z.ltb_spec s (zlen src)) as [Hc4|Hc4]; [|lia].
  rewrite skipn_split by lia. cbn [line_stop]. rewrite Hc. reflexivity.
Qed.

Lemma line_end_nonl src s : 0 <= s < zlen src -> nth (Z.to_nat s) src 0%N <> 10%N ->
  line_end src s = line_end src (s + 1).
Proof.
  intros Hs Hc. unfold line_end. destruct (Z.ltb_spec s (zlen src)) as [Hc5|Hc5]; [|lia].
  rewrite skipn_split by lia. cbn [line_stop].
  destruct (N.eqb_spec (nth (Z.to_nat s) src 0%N) 10) as [He|_]; [congruence|].
  destruct (Z.ltb_spec (s + 1) (zlen src)) as [Hc6|Hc6]; [reflexivity|].
  rewrite skipn_zlen by lia. cbn [line_stop]. lia.
Qed.

Lemma line_end_bounds src s : 0 <= s < zlen src -> s < line_end src s <= zlen src.
Proof.
  intros Hs. unfold line_end. destruct (Z.ltb_spec s (zlen src)) as [Hc7|Hc7]; [|lia].
  pose proof (line_stop_bounds (skipn (Z.to_nat s) src) s) as H.
  rewrite zlen_skipn in H by lia.
  assert (skipn (Z.to_nat s) src <> []) as Hne by (rewrite skipn_split by lia; discriminate).
  specialize (H Hne). lia.
Qed.

Lemma line_end_range src s : 0 <= s <= zlen src -> s <= line_end src s <= zlen src.
Proof.
  intros Hs. destruct (Z.eq_dec s (zlen src)) as [He|Hne].
  - rewrite line_end_eof by lia. lia.
  - pose proof (line_end_bounds src s). lia.
Qed.

(* positions strictly inside a line share its end and its line number *)
Lemma line_end_mid_nat src s k : 0 <= s -> s + Z.of_nat k < line_end src s -> s < zlen src ->
  line_end src (s + Z.of_nat k) = line_end src s /\
  nl_count (firstn (Z.to_nat (s + Z.of_nat k)) src) = nl_count (firstn (Z.to_nat s) src).
Proof.
  intros Hs0. induction k as [|k IH]; intros Hk Hs.
  - replace (s + Z.of_nat 0) with s by lia. split; reflexivity.
  - pose proof (line_end_bounds src s ltac:(lia)) as Hb.
    destruct IH as [IH1 IH2]; [lia|lia|].
    set (t := s + Z.of_nat k) in *.
    replace (s + Z.of_nat (S k)) with (t + 1) in * by lia.
    assert (nth (Z.to_nat t) src 0%N <> 10%N) as Hc.
    { intros Hc. rewrite (line_end_nl src t) in IH1 by (subst t; lia). lia. }
    split.
    + rewrite <- IH1. symmetry. apply line_end_nonl; [subst t; lia|exact Hc].
    + rewrite nl_count_firstn_succ by (subst t; lia).
      destruct (N.eqb_spec (nth (Z.to_nat t) src 0%N) 10) as [He|_]; [congruence|]. lia.
Qed.

Lemma line_end_mid src s t : 0 <= s <= t -> t < line_end src s -> s < zlen src ->
  line_end src t = line_end src s /\
  nl_count (firstn (Z.to_nat t) src) = nl_count (firstn (Z.to_nat s) src).
Proof.
  intros Hst Ht Hs. pose proof (line_end_mid_nat src s (Z.to_nat (t - s))) as H.
  replace (s + Z.of_nat (Z.to_nat (t - s))) with t in H by lia. apply H; lia.
Qed.

(* the newline count at the end of the line *)
Lemma line_end_nl_count_nat src n : forall s, 0 <= s < zlen src -> (Z.to_nat (zlen src - s) <= n)%nat ->
  nl_count (firstn (Z.to_nat (line_end src s)) src) <= nl_count (firstn (Z.to_nat s) src) + 1 /\
  (line_end src s < zlen src ->
   nl_count (firstn (Z.to_nat (line_end src s)) src) = nl_count (firstn (Z.to_nat s) src) + 1).
Proof.
  induction n as [|n IH]; intros s Hs Hn; [lia|].
  pose proof (nl_count_firstn_succ src s Hs) as Hsucc.
  destruct (N.eqb_spec (nth (Z.to_nat s) src 0%N) 10) as [He|Hne].
  - rewrite (line_end_nl src s Hs He). lia.
  - rewrite (line_end_nonl src s Hs Hne).
    destruct (Z.eq_dec (s + 1) (zlen src)) as [Hl|Hl].
    + rewrite line_end_eof by lia. rewrite <- Hl. lia.
    + specialize (IH (s + 1) ltac:(lia) ltac:(lia)). lia.
Qed.

Lemma line_end_nl_count src s : 0 <= s < zlen src ->
  nl_count (firstn (Z.to_nat (line_end src s)) src) <= nl_count (firstn (Z.to_nat s) src) + 1 /\
  (line_end src s < zlen src ->
   nl_count (firstn (Z.to_nat (line_end src s)) src) = nl_count (firstn (Z.to_nat s) src) + 1).
Proof. intros Hs. apply (line_end_nl_count_nat src (Z.to_nat (zlen src - s))); [exact Hs|lia]. Qed.

(* ================= nth_line_start ================= *)
Lemma nlsf_zero v i : nth_line_start_from v i 0 = Some i.
Proof. destruct v; reflexivity. Qed.

Lemma nlsf_app a : forall b i j, (1 <= j)%nat ->
  nth_line_start_from (a ++ b) i (Z.to_nat (nl_count a) + j) = nth_line_start_from b (i + zlen a) j.
Proof.
  induction a as [|c a IH]; intros b i j Hj.
  - cbn [app nl_count]. change (zlen (@nil N)) with 0. change (Z.to_nat 0 + j)%nat with j. f_equal. lia.
  - cbn [app nl_count]. rewrite zlen_cons. pose proof (nl_count_nonneg a) as Hnn.
    destruct (N.eqb_spec c 10) as [He|Hne].
    + replace (Z.to_nat (1 + nl_count a) + j)%nat with (S (Z.to_nat (nl_count a) + j)) by lia.
      cbn [nth_line_start_from]. destruct (N.eqb_spec c 10) as [_|Hne]; [|congruence].
      rewrite IH by lia. f_equal. lia.
    + replace (Z.to_nat (0 + nl_count a) + j)%nat with (S (Z.to_nat (nl_count a) + (j - 1))) by lia.
      cbn [nth_line_start_from]. destruct (N.eqb_spec c 10) as [He|_]; [congruence|].
      replace (S (Z.to_nat (nl_count a) + (j - 1))) with (Z.to_nat (nl_count a) + j)%nat by lia.
      rewrite IH by lia. f_equal. lia.
Qed.

Lemma nlsf_bounds v : forall i k h, nth_line_start_from v i k = Some h ->
  i <= h <= i + zlen v /\ Z.of_nat k <= nl_count v.
Proof.
  induction v as [|c v IH]; intros i k h Hh.
  - destruct k as [|k]; cbn [nth_line_start_from] in Hh; [|discriminate].
    injection Hh as Hh. change (zlen (@nil N)) with 0. cbn [nl_count]. lia.
  - rewrite zlen_cons. pose proof (zlen_nonneg v) as Hv. pose proof (nl_count_nonneg v) as Hnn.
    destruct k as [|k]; cbn [nth_line_start_from nl_count] in *.
    + injection Hh as Hh. destruct (N.eqb c 10); lia.
    + destruct (N.eqb c 10); apply IH in Hh; lia.
Qed.

Lemma nls_zero src : nth_line_start src 0 = Some 0.
Proof. destruct src; reflexivity. Qed.

Lemma nls_some src k h : nth_line_start src k = Some h -> 0 <= h <= zlen src /\ 0 <= k <= nl_count src.
Proof.
  unfold nth_line_start. destruct (Z.ltb_spec k 0) as [Hk|Hk]; [discriminate|].
  intros Hh. apply nlsf_bounds in Hh. lia.
Qed.

(* the start of the line after the one containing s is the end of that line *)
Lemma nls_after src s : 0 <= s <= zlen src ->
  nth_line_start src (nl_count (firstn (Z.to_nat s) src) + 1) =
  nth_line_start_from (skipn (Z.to_nat s) src) s 1.
Proof.
  intros Hs. unfold nth_line_start. pose proof (nl_count_nonneg (firstn (Z.to_nat s) src)) as Hnn.
  destruct (Z.ltb_spec (nl_count (firstn (Z.to_nat s) src) + 1) 0) as [Hk|_]; [lia|].
  pose proof (nlsf_app (firstn (Z.to_nat s) src) (skipn (Z.to_nat s) src) 0 1 ltac:(lia)) as H.
  rewrite firstn_skipn in H.
  replace (Z.to_nat (nl_count (firstn (Z.to_nat s) src) + 1))
    with (Z.to_nat (nl_count (firstn (Z.to_nat s) src)) + 1)%nat by lia.
  rewrite H. f_equal. unfold zlen in *. rewrite firstn_length. lia.
Qed.

Lemma nlsf_one post : forall i h, nth_line_start_from post i 1 = Some h -> h = line_stop post i.
Proof.
  induction post as [|c tl IH]; intros i h Hh; cbn [nth_line_start_from line_stop] in *; [discriminate|].
  destruct (N.eqb c 10).
  - rewrite nlsf_zero in Hh. injection Hh as Hh. lia.
  - apply IH. exact Hh.
Qed.

Lemma nls_next_line src s h : 0 <= s <= zlen src ->
  nth_line_start src (nl_count (firstn (Z.to_nat s) src) + 1) = Some h -> h = line_end src s.
Proof.
  intros Hs Hh. rewrite nls_after in Hh by exact Hs.
  unfold line_end. destruct (Z.ltb_spec s (zlen src)) as [Hlt|Hge].
  - apply nlsf_one. exact Hh.
  - rewrite skipn_zlen in Hh by lia. discriminate.
Qed.

(* ================= col_width ================= *)
Lemma col_width_nil acc : col_width [] acc = acc.
Proof. reflexivity. Qed.

(* ================= the plain reader ================= *)
Ltac rsimpl := cbn [r_src r_line r_peeked r_pos r_head r_loff s_start s_stop s_pad s_fnl
                    rset_pos rset_line rset_peeked rset_head rset_loff r_len r_position mkseg mksegp] in *.

Ltac csplit := repeat match goal with |- _ /\ _ => split end.

(* break a reader and its invariant into components *)
Ltac rdestruct r Hinv :=
  destruct r as [src line pk [s e pad fnl] head loff];
  destruct Hinv as [Hr Hs Hp Hf Hpk Hlin Hleof Hhd Hlo];
  unfold r_column in *; rsimpl.

Lemma inv_bounds r : RInv r ->
  0 <= s_start (r_pos r) <= s_stop (r_pos r) /\ s_stop (r_pos r) <= zlen (r_src r).
Proof.
  intros Hinv. destruct Hinv as [Hr Hs _ _ _ _ _ _ _]. rewrite Hs.
  pose proof (line_end_range _ _ Hr). lia.
Qed.

Lemma inv_bounds_in r : RInv r -> s_start (r_pos r) < zlen (r_src r) ->
  s_start (r_pos r) < s_stop (r_pos r).
Proof.
  intros Hinv Hlt. destruct Hinv as [Hr Hs _ _ _ _ _ _ _]. rewrite Hs.
  pose proof (line_end_bounds (r_src r) (s_start (r_pos r))). lia.
Qed.

Lemma in_range_true r : r_in_range r = true -> 0 <= s_start (r_pos r) < zlen (r_src r).
Proof. unfold r_in_range, r_len. intros H. apply andb_true_iff in H. lia. Qed.

Lemma in_range_false r : r_in_range r = false -> RInv r -> s_start (r_pos r) = zlen (r_src r).
Proof.
  unfold r_in_range, r_len. intros H Hinv. destruct Hinv as [Hr _ _ _ _ _ _ _ _].
  apply andb_false_iff in H. lia.
Qed.

Lemma seg_value_view r : RInv r -> seg_value (r_src r) (r_pos r) = Ok (r_view r).
Proof.
  intros Hinv. pose proof (inv_bounds r Hinv) as Hb. unfold seg_value, r_view.
  destruct Hinv as [Hr Hs Hp Hf Hpk Hlin Hleof Hhd Hlo].
  rewrite slice_sub by lia. cbn [bind]. rewrite Hf.
  destruct (Z.ltb_spec (s_pad (r_pos r)) 0) as [Hneg|_]; [lia|].
  destruct (Z.eqb_spec (s_pad (r_pos r)) 0) as [Hp0|Hp0]; [|reflexivity].
  rewrite Hp0. reflexivity.
Qed.

Lemma view_zlen r : RInv r -> zlen (r_view r) = s_pad (r_pos r) + (s_stop (r_pos r) - s_start (r_pos r)).
Proof.
  intros Hinv. pose proof (inv_bounds r Hinv) as Hb. unfold r_view.
  rewrite zlen_app, zlen_spaces, zlen_sub by (try apply Hinv; lia). reflexivity.
Qed.

Lemma r_rest_in r : 0 <= s_start (r_pos r) < zlen (r_src r) ->
  r_rest r = spaces_n (s_pad (r_pos r)) ++ skipn (Z.to_nat (s_start (r_pos r))) (r_src r).
Proof.
  intros H. unfold r_rest. destruct (Z.leb_spec 0 (s_start (r_pos r))) as [H0|H0]; [|lia].
  destruct (Z.ltb_spec (s_start (r_pos r)) (zlen (r_src r))) as [H1|H1]; [|lia]. reflexivity.
Qed.

Lemma r_rest_out r : zlen (r_src r) <= s_start (r_pos r) -> r_rest r = [].
Proof.
  intros H. unfold r_rest.
  destruct (Z.ltb_spec (s_start (r_pos r)) (zlen (r_src r))) as [H1|H1]; [lia|].
  rewrite andb_false_r. reflexivity.
Qed.

Lemma r_rest_pad0 r : 0 <= s_start (r_pos r) -> s_pad (r_pos r) = 0 ->
  r_rest r = skipn (Z.to_nat (s_start (r_pos r))) (r_src r).
Proof.
  intros H0 Hp. destruct (Z.lt_ge_cases (s_start (r_pos r)) (zlen (r_src r))) as [Hlt|Hge].
  - rewrite r_rest_in by lia. rewrite Hp. reflexivity.
  - rewrite r_rest_out by lia. rewrite skipn_zlen by lia. reflexivity.
Qed.

(* ---------- invariant preservation for the field updates ---------- *)
Lemma RInv_set_peeked r v : RInv r -> seg_value (r_src r) (r_pos r) = Ok v -> RInv (rset_peeked r (Some v)).
Proof.
  intros Hinv Hv. rdestruct r Hinv. constructor; rsimpl; try assumption.
  intros v' Hv'. injection Hv' as <-. exact Hv.
Qed.

Lemma RInv_clear r : RInv r -> RInv (rset_peeked (rset_loff r (-1)) None).
Proof.
  intros Hinv. rdestruct r Hinv. constructor; unfold r_column; rsimpl; try assumption.
  - discriminate.
  - intros H. congruence.
Qed.

(* ---------- AdvanceLine ---------- *)
Lemma r_advance_line_eq r : 0 <= s_stop (r_pos r) ->
  r_advance_line r =
  {| r_src := r_src r; r_line := r_line r + 1; r_peeked := None;
     r_pos := {| s_start := s_stop (r_pos r); s_stop := line_end (r_src r) (s_stop (r_pos r));
                 s_pad := 0; s_fnl := s_fnl (r_pos r) |};
     r_head := s_stop (r_pos r); r_loff := -1 |}.
Proof.
  intros H0. unfold r_advance_line, line_end. rsimpl.
  destruct (Z.ltb_spec (s_stop (r_pos r)) 0) as [Hneg|_]; [lia|]. reflexivity.
Qed.

Lemma advance_line_inv r : RInv r -> RInv (r_advance_line r).
Proof.
  intros Hinv. pose proof (inv_bounds r Hinv) as Hb.
  rewrite r_advance_line_eq by lia. rdestruct r Hinv.
  assert (s = zlen src -> e = zlen src) as Heof by (intros Hz; rewrite Hs; apply line_end_eof; lia).
  constructor; unfold r_column; rsimpl.
  - lia.
  - reflexivity.
  - lia.
  - exact Hf.
  - discriminate.
  - intros He. assert (s < zlen src) as Hlt by lia.
    rewrite Hlin by exact Hlt. destruct (line_end_nl_count src s ltac:(lia)) as [_ H2].
    rewrite Hs. rewrite H2; [reflexivity|lia].
  - intros He. destruct (Z.eq_dec s (zlen src)) as [Hz|Hz].
    + specialize (Hleof Hz). lia.
    + rewrite Hlin by lia. destruct (line_end_nl_count src s ltac:(lia)) as [H1 _].
      rewrite <- Hs, He in H1. rewrite firstn_zlen in H1 by lia. lia.
  - intros h Hh. destruct (Z.eq_dec s (zlen src)) as [Hz|Hz].
    + apply nls_some in Hh. specialize (Hleof Hz). lia.
    + rewrite Hlin in Hh by lia. apply nls_next_line in Hh; [|lia]. rewrite Hs. symmetry. exact Hh.
  - intros H. congruence.
Qed.

Lemma advance_line_src r : r_src (r_advance_line r) = r_src r.
Proof. unfold r_advance_line. rsimpl. destruct (s_stop (r_pos r) <? 0); reflexivity. Qed.
Lemma advance_line_peeked r : r_peeked (r_advance_line r) = None.
Proof. unfold r_advance_line. rsimpl. destruct (s_stop (r_pos r) <? 0); reflexivity. Qed.
Lemma advance_line_loff r : r_loff (r_advance_line r) = -1.
Proof. unfold r_advance_line. rsimpl. destruct (s_stop (r_pos r) <? 0); reflexivity. Qed.

Lemma advance_line_rest r : RInv r -> r_in_range r = true ->
  r_rest (r_advance_line r) = skipn (length (r_view r)) (r_rest r).
Proof.
  intros Hinv Hin. apply in_range_true in Hin. pose proof (inv_bounds r Hinv) as Hb.
  rewrite r_advance_line_eq by lia. rewrite r_rest_pad0 by (rsimpl; lia || reflexivity).
  rewrite r_rest_in by lia. unfold r_view. rsimpl.
  rewrite app_length, skipn_app_length, length_sub by lia.
  rewrite skipn_skipn_nat. f_equal. lia.
Qed.

(* ---------- Advance ---------- *)
Lemma step_pad r : RInv r -> r_peeked r = None -> r_loff r = -1 ->
  0 <= s_start (r_pos r) < zlen (r_src r) -> s_pad (r_pos r) <> 0 ->
  let r1 := rset_pos r {| s_start := s_start (r_pos r); s_stop := s_stop (r_pos r);
                          s_pad := s_pad (r_pos r) - 1; s_fnl := s_fnl (r_pos r) |} in
  RInv r1 /\ r_rest r1 = skipn 1 (r_rest r).
Proof.
  intros Hinv Hpk0 Hlo0 Hin Hp0. split.
  - rdestruct r Hinv. subst pk loff. constructor; unfold r_column; rsimpl; try assumption.
    + lia.
    + discriminate.
    + intros H. congruence.
  - rewrite !r_rest_in by (rsimpl; lia). rsimpl.
    rewrite (spaces_pos (s_pad (r_pos r))) by (destruct Hinv as [_ _ Hp _ _ _ _ _ _]; lia).
    reflexivity.
Qed.

Lemma step_char r : RInv r -> r_peeked r = None -> r_loff r = -1 ->
  0 <= s_start (r_pos r) < zlen (r_src r) -> s_pad (r_pos r) = 0 ->
  nth (Z.to_nat (s_start (r_pos r))) (r_src r) 0%N <> 10%N ->
  let r1 := rset_pos r {| s_start := s_start (r_pos r) + 1; s_stop := s_stop (r_pos r);
                          s_pad := s_pad (r_pos r); s_fnl := s_fnl (r_pos r) |} in
  RInv r1 /\ r_rest r1 = skipn 1 (r_rest r).
Proof.
  intros Hinv Hpk0 Hlo0 Hin Hp0 Hc. split.
  - rdestruct r Hinv. subst pk loff.
    pose proof (nl_count_firstn_succ src s Hin) as Hsucc.
    destruct (N.eqb_spec (nth (Z.to_nat s) src 0%N) 10) as [He|_]; [congruence|].
    constructor; unfold r_column; rsimpl; try assumption.
    + lia.
    + rewrite Hs. apply line_end_nonl; assumption.
    + discriminate.
    + intros Hlt. rewrite Hsucc. rewrite <- Hlin by lia. lia.
    + intros Heq. rewrite <- (firstn_zlen src (s + 1)) by lia. rewrite Hsucc. rewrite <- Hlin by lia. lia.
    + intros H. congruence.
  - rewrite !r_rest_pad0 by (rsimpl; lia). rsimpl. rewrite (skipn_split (r_src r) (s_start (r_pos r))) by lia.
    reflexivity.
Qed.

Lemma step_nl r : RInv r -> 0 <= s_start (r_pos r) < zlen (r_src r) -> s_pad (r_pos r) = 0 ->
  nth (Z.to_nat (s_start (r_pos r))) (r_src r) 0%N = 10%N ->
  r_rest (r_advance_line r) = skipn 1 (r_rest r).
Proof.
  intros Hinv Hin Hp0 Hc. rewrite advance_line_rest; [|exact Hinv|].
  - f_equal. pose proof (view_zlen r Hinv) as Hz. unfold zlen in Hz.
    rewrite (ri_stop r Hinv), line_end_nl in Hz by assumption. lia.
  - unfold r_in_range, r_len. apply andb_true_iff. lia.
Qed.

Lemma advance_slow_ok fuel : forall n r, RInv r -> r_peeked r = None -> r_loff r = -1 -> 0 <= n ->
  (Z.to_nat n < fuel)%nat ->
  exists r', r_advance_slow fuel r n = Ok r' /\ RInv r' /\ r_src r' = r_src r /\
             r_rest r' = skipn (Z.to_nat n) (r_rest r) /\ r_peeked r' = None /\ r_loff r' = -1.
Proof.
  induction fuel as [|f IH]; intros n r Hinv Hpk Hlo Hn Hf; [lia|].
  cbn [r_advance_slow]. unfold r_len.
  destruct (Z.ltb_spec 0 n) as [Hn0|Hn0]; cbn [andb].
  2: { exists r. assert (n = 0) as Hz by lia. subst n. cbn [Z.to_nat skipn]. csplit; auto. }
  destruct (Z.ltb_spec (s_start (r_pos r)) (zlen (r_src r))) as [Hlt|Hge].
  2: { exists r. rewrite r_rest_out by lia. rewrite skipn_nil. csplit; auto. }
  pose proof (inv_bounds r Hinv) as Hb.
  assert (forall r1 r', r_rest r1 = skipn 1 (r_rest r) ->
                        r_rest r' = skipn (Z.to_nat (n - 1)) (r_rest r1) ->
                        r_rest r' = skipn (Z.to_nat n) (r_rest r)) as Hskip.
  { intros r1 r' H1 H2. rewrite H2, H1, skipn_skipn_nat. f_equal. lia. }
  destruct (Z.eqb_spec (s_pad (r_pos r)) 0) as [Hp0|Hp0]; cbn [negb].
  - rewrite at_nth by lia. cbn [bind].
    destruct (N.eqb_spec (nth (Z.to_nat (s_start (r_pos r))) (r_src r) 0%N) 10) as [Hc|Hc].
    + destruct (IH (n - 1) (r_advance_line r)) as [r' [H1 [H2 [H3 [H4 [H5 H6]]]]]].
      * apply advance_line_inv. exact Hinv.
      * apply advance_line_peeked.
      * apply advance_line_loff.
      * lia.
      * lia.
      * exists r'. rewrite advance_line_src in H3. csplit; auto.
        apply (Hskip (r_advance_line r)); [|exact H4]. apply step_nl; auto. lia.
    + destruct (step_char r Hinv Hpk Hlo ltac:(lia) Hp0 Hc) as [Hi1 Hr1].
      match goal with |- context [r_advance_slow f ?r1 _] => set (r1' := r1) in * end.
      destruct (IH (n - 1) r1') as [r' [H1 [H2 [H3 [H4 [H5 H6]]]]]]; auto; try lia.
      exists r'. csplit; auto. apply (Hskip r1'); assumption.
  - destruct (step_pad r Hinv Hpk Hlo ltac:(lia) Hp0) as [Hi1 Hr1].
    match goal with |- context [r_advance_slow f ?r1 _] => set (r1' := r1) in * end.
    destruct (IH (n - 1) r1') as [r' [H1 [H2 [H3 [H4 [H5 H6]]]]]]; auto; try lia.
    exists r'. csplit; auto. apply (Hskip r1'); assumption.
Qed.

Lemma RInv_set_loff r o : RInv r -> (o <> -1 -> o = r_column r (r_head r)) -> RInv (rset_loff r o).
Proof.
  intros Hinv Ho. rdestruct r Hinv. constructor; unfold r_column; rsimpl; assumption.
Qed.

Lemma advance_fast r n v : RInv r -> r_peeked r = Some v -> 0 <= n < zlen v -> s_pad (r_pos r) = 0 ->
  let r1 := rset_peeked (rset_pos (rset_loff r (-1))
              {| s_start := s_start (r_pos r) + n; s_stop := s_stop (r_pos r);
                 s_pad := s_pad (r_pos r); s_fnl := s_fnl (r_pos r) |}) None in
  RInv r1 /\ r_rest r1 = skipn (Z.to_nat n) (r_rest r).
Proof.
  intros Hinv Hpk0 Hn Hp0. pose proof (inv_bounds r Hinv) as Hb.
  pose proof (ri_peeked r Hinv v Hpk0) as Hv. rewrite seg_value_view in Hv by exact Hinv.
  injection Hv as Hv. pose proof (view_zlen r Hinv) as Hz. rewrite Hv, Hp0 in Hz.
  assert (s_start (r_pos r) < zlen (r_src r)) as Hlt by lia.
  split.
  - rdestruct r Hinv. subst pad.
    destruct (line_end_mid src s (s + n) ltac:(lia) ltac:(lia) Hlt) as [Hm1 Hm2].
    constructor; unfold r_column; rsimpl; try assumption.
    + lia.
    + rewrite Hm1. exact Hs.
    + discriminate.
    + intros _. rewrite Hm2. apply Hlin. exact Hlt.
    + intros Heq. lia.
    + intros H. congruence.
  - rewrite !r_rest_pad0 by (rsimpl; lia). rsimpl. rewrite skipn_skipn_nat. f_equal. lia.
Qed.

(* Advance(n) for any n >= 0: moves forward exactly n bytes (or to the end if fewer remain) *)
Lemma advance_skips_gen r n : RInv r -> 0 <= n ->
  exists r', r_advance r n = Ok r' /\ RInv r' /\ r_src r' = r_src r /\
             r_rest r' = skipn (Z.to_nat n) (r_rest r).
Proof.
  intros Hinv Hn. unfold r_advance. rsimpl.
  destruct (r_peeked r) as [v|] eqn:Hpk.
  - destruct (Z.ltb_spec n (zlen v)) as [Hlt|Hge]; cbn [andb].
    + destruct (Z.eqb_spec (s_pad (r_pos r)) 0) as [Hp0|Hp0].
      * destruct (advance_fast r n v Hinv Hpk ltac:(lia) Hp0) as [H1 H2].
        eexists. split; [reflexivity|]. split; [exact H1|]. split; [reflexivity|exact H2].
      * destruct (advance_slow_ok (Z.to_nat n + 1) n (rset_peeked (rset_loff r (-1)) None))
          as [r' [H1 [H2 [H3 [H4 _]]]]]; try reflexivity; try lia.
        { apply RInv_clear. exact Hinv. }
        exists r'. csplit; auto.
    + destruct (advance_slow_ok (Z.to_nat n + 1) n (rset_peeked (rset_loff r (-1)) None))
        as [r' [H1 [H2 [H3 [H4 _]]]]]; try reflexivity; try lia.
      { apply RInv_clear. exact Hinv. }
      exists r'. csplit; auto.
  - pose proof (zlen_nonneg (@nil N)) as _.
    destruct (Z.ltb_spec n 0) as [Hlt|Hge]; [lia|]. cbn [andb].
    destruct (advance_slow_ok (Z.to_nat n + 1) n (rset_peeked (rset_loff r (-1)) None))
      as [r' [H1 [H2 [H3 [H4 _]]]]]; try reflexivity; try lia.
    { apply RInv_clear. exact Hinv. }
    exists r'. csplit; auto.
Qed.

(* ---------- SetPosition ---------- *)
Lemma back_ok fuel src : forall p, 0 <= p <= zlen src -> (Z.to_nat p < fuel)%nat ->
  exists h, back_to_line_head fuel src p = Ok h /\ 0 <= h <= p /\
            nth_line_start src (nl_count (firstn (Z.to_nat p) src)) = Some h.
Proof.
  induction fuel as [|f IH]; intros p Hp Hf; [lia|].
  cbn [back_to_line_head]. destruct (Z.ltb_spec 0 p) as [Hpos|Hz].
  - rewrite at_nth by lia. cbn [bind].
    pose proof (nl_count_firstn_succ src (p - 1) ltac:(lia)) as Hsucc.
    replace (p - 1 + 1) with p in Hsucc by lia.
    destruct (N.eqb_spec (nth (Z.to_nat (p - 1)) src 0%N) 10) as [Hc|Hc].
    + exists p. split; [reflexivity|]. split; [lia|]. rewrite Hsucc.
      rewrite nls_after by lia. rewrite (skipn_split src (p - 1)) by lia. rewrite Hc.
      cbn [nth_line_start_from]. rewrite N.eqb_refl. rewrite nlsf_zero. f_equal. lia.
    + destruct (IH (p - 1)) as [h [H1 [H2 H3]]]; [lia|lia|]. exists h.
      split; [exact H1|]. split; [lia|]. rewrite Hsucc, Z.add_0_r. exact H3.
  - exists p. assert (p = 0) as Hp0 by lia. subst p. split; [reflexivity|]. split; [lia|].
    cbn [Z.to_nat firstn nl_count]. apply nls_zero.
Qed.

Lemma restore_inv r0 hd0 : RInv r0 ->
  (forall h, nth_line_start (r_src r0) (r_line r0) = Some h -> hd0 = h) ->
  RInv {| r_src := r_src r0; r_line := r_line r0; r_peeked := None; r_pos := r_pos r0;
          r_head := hd0; r_loff := -1 |}.
Proof.
  intros Hinv Hh. rdestruct r0 Hinv. constructor; unfold r_column; rsimpl; try assumption.
  - discriminate.
  - intros H. congruence.
Qed.

(* ---------- findClosure: the line scanner ---------- *)
Lemma tick_run_ge bs : forall i c cnt j, tick_run bs i c = (cnt, j) -> i - 1 <= j.
Proof.
  induction bs as [|b tl IH]; intros i c cnt j H; cbn [tick_run] in H.
  - injection H as _ Hj. lia.
  - destruct (N.eqb b 96).
    + apply IH in H. lia.
    + injection H as _ Hj. lia.
Qed.

Lemma tick_run_first b tl i cnt j : N.eqb b 96 = true -> tick_run (b :: tl) i 0 = (cnt, j) -> i <= j.
Proof. intros Hb H. cbn [tick_run] in H. rewrite Hb in H. apply tick_run_ge in H. lia. Qed.

Lemma zlen_skipn_le (bs : bytes) m : (1 <= m)%nat -> bs <> [] ->
  zlen (skipn m bs) <= zlen bs - Z.of_nat m \/ (skipn m bs = [] /\ zlen bs < Z.of_nat m).
Proof.
  intros Hm Hne. unfold zlen. destruct (Nat.le_gt_cases m (length bs)) as [Hle|Hgt].
  - left. rewrite skipn_length. lia.
  - right. split; [apply skipn_all2; lia|lia].
Qed.

Section Scan.
Variable punct_table : list N.

Lemma fc_scan_closed fuel opts o c : forall bs i opened cso k,
  fc_scan punct_table fuel opts o c bs i opened cso = Ok (FcClosed k) -> i <= k < i + zlen bs.
Proof.
  induction fuel as [|f IH]; intros bs i opened cso k H; cbn [fc_scan] in H; [discriminate|].
  destruct bs as [|b tl]; [discriminate|].
  rewrite zlen_cons. pose proof (zlen_nonneg tl) as Htl.
  assert (forall j cnt, tick_run (b :: tl) i 0 = (cnt, j) -> N.eqb b 96 = true ->
          forall op cs, fc_scan punct_table f opts o c (skipn (Z.to_nat (j + 1 - i)) (b :: tl)) (j + 1) op cs
                        = Ok (FcClosed k) -> i <= k < i + (1 + zlen tl)) as Htick.
  { intros j cnt Et Hb op cs Hk. apply tick_run_first in Et; [|exact Hb]. apply IH in Hk.
    destruct (zlen_skipn_le (b :: tl) (Z.to_nat (j + 1 - i)) ltac:(lia) ltac:(discriminate)) as [Hle|[Hnil Hlt]].
    - rewrite zlen_cons in Hle. lia.
    - rewrite Hnil in Hk. change (zlen (@nil N)) with 0 in Hk. lia. }
  match type of H with (if ?cnd then _ else _) = _ => destruct cnd eqn:E1 end.
  { destruct (tick_run (b :: tl) i 0) as [cnt j] eqn:Et.
    apply andb_true_iff in E1. destruct E1 as [_ Hb]. eapply Htick; eauto. }
  match type of H with (if ?cnd then _ else _) = _ => destruct cnd eqn:E2 end.
  { destruct tl as [|d tl']; [rewrite andb_false_r in E2; discriminate|].
    cbn [skipn] in H. apply IH in H. rewrite zlen_cons in *. pose proof (zlen_nonneg tl'). lia. }
  match type of H with (if ?cnd then _ else _) = _ => destruct cnd eqn:E3 end.
  { destruct (tick_run (b :: tl) i 0) as [cnt j] eqn:Et.
    apply andb_true_iff in E3. destruct E3 as [_ Hb]. eapply Htick; eauto. }
  match type of H with (if ?cnd then _ else _) = _ => destruct cnd eqn:E4 end.
  - destruct (N.eqb b c).
    + destruct (opened - 1 =? 0).
      * injection H as <-. lia.
      * apply IH in H. lia.
    + destruct (N.eqb b o).
      * destruct (negb (o_nesting opts)); [discriminate|]. apply IH in H. lia.
      * apply IH in H. lia.
  - apply IH in H. lia.
Qed.

Lemma fc_scan_total fuel opts o c : forall bs i opened cso, (length bs < fuel)%nat ->
  exists s, fc_scan punct_table fuel opts o c bs i opened cso = Ok s.
Proof.
  induction fuel as [|f IH]; intros bs i opened cso Hf; [lia|]. cbn [fc_scan].
  destruct bs as [|b tl]; [eexists; reflexivity|]. cbn [length] in Hf.
  assert (forall j cnt, tick_run (b :: tl) i 0 = (cnt, j) -> N.eqb b 96 = true ->
          forall op cs, exists s,
            fc_scan punct_table f opts o c (skipn (Z.to_nat (j + 1 - i)) (b :: tl)) (j + 1) op cs = Ok s) as Htick.
  { intros j cnt Et Hb op cs. apply tick_run_first in Et; [|exact Hb]. apply IH.
    rewrite skipn_length. cbn [length]. lia. }
  match goal with |- exists s, (if ?cnd then _ else _) = _ => destruct cnd eqn:E1 end.
  { destruct (tick_run (b :: tl) i 0) as [cnt j] eqn:Et.
    apply andb_true_iff in E1. destruct E1 as [_ Hb]. eapply Htick; eauto. }
  match goal with |- exists s, (if ?cnd then _ else _) = _ => destruct cnd eqn:E2 end.
  { destruct tl as [|d tl']; [rewrite andb_false_r in E2; discriminate|].
    cbn [skipn]. apply IH. cbn [length] in Hf. lia. }
  match goal with |- exists s, (if ?cnd then _ else _) = _ => destruct cnd eqn:E3 end.
  { destruct (tick_run (b :: tl) i 0) as [cnt j] eqn:Et.
    apply andb_true_iff in E3. destruct E3 as [_ Hb]. eapply Htick; eauto. }
  match goal with |- exists s, (if ?cnd then _ else _) = _ => destruct cnd eqn:E4 end.
  - destruct (N.eqb b c).
    + destruct (opened - 1 =? 0); [eexists; reflexivity|]. apply IH. lia.
    + destruct (N.eqb b o).
      * destruct (negb (o_nesting opts)); [eexists; reflexivity|]. apply IH. lia.
      * apply IH. lia.
  - apply IH. lia.
Qed.
End Scan.

(* ================= the theorems ================= *)
Section PlainReader.
Variable space_table : list N.
Variable punct_table : list N.

(* NewReader establishes the invariant *)
Theorem new_reader_inv src : RInv (new_reader src).
Proof.
  unfold new_reader. rewrite r_advance_line_eq by (rsimpl; lia). rsimpl.
  pose proof (zlen_nonneg src) as Hlen.
  constructor; unfold r_column; rsimpl.
  - lia.
  - reflexivity.
  - lia.
  - reflexivity.
  - discriminate.
  - intros _. reflexivity.
  - intros Hz. symmetry in Hz. apply zlen_zero in Hz. subst src. cbn [nl_count]. lia.
  - intros h Hh. change (-1 + 1) with 0 in Hh. rewrite nls_zero in Hh. injection Hh as Hh. exact Hh.
  - intros H. congruence.
Qed.

(* PeekLine returns exactly the view (None at EOF), leaves the position alone, keeps the invariant *)
Theorem peek_line_is_view r : RInv r ->
  exists r', r_peek_line r = Ok (r', (if r_in_range r then Some (r_view r) else None), r_pos r)
             /\ RInv r' /\ r_position r' = r_position r /\ r_src r' = r_src r.
Proof.
  intros Hinv. unfold r_peek_line. pose proof (seg_value_view r Hinv) as Hv.
  destruct (r_in_range r) eqn:Hin.
  - destruct (r_peeked r) as [v|] eqn:Hpk.
    + pose proof (ri_peeked r Hinv v Hpk) as Hv'. rewrite Hv in Hv'. injection Hv' as Hv'. subst v.
      exists r. csplit; auto.
    + rewrite Hv. cbn [bind]. exists (rset_peeked r (Some (r_view r))). csplit; auto.
      apply RInv_set_peeked; assumption.
  - exists r. csplit; auto.
Qed.

(* Peek is the first byte of the view, or EOF (255) *)
Theorem peek_is_head r : RInv r ->
  r_peek r = Ok (if r_in_range r then hd 255%N (r_view r) else 255%N).
Proof.
  intros Hinv. unfold r_peek. destruct (r_in_range r) eqn:Hin; [|reflexivity].
  apply in_range_true in Hin. pose proof (inv_bounds_in r Hinv ltac:(lia)) as Hlt.
  unfold r_view. destruct (Z.eqb_spec (s_pad (r_pos r)) 0) as [Hp0|Hp0]; cbn [negb].
  - rewrite at_nth by lia. rewrite Hp0, spaces_zero. cbn [app].
    rewrite sub_head by lia. reflexivity.
  - rewrite spaces_pos by (pose proof (ri_pad r Hinv); lia). reflexivity.
Qed.

(* the view is non-empty whenever the reader is in range, and it is a prefix of the rest *)
Theorem view_prefix_rest r : RInv r -> r_in_range r = true ->
  r_view r <> [] /\ exists tl, r_rest r = r_view r ++ tl.
Proof.
  intros Hinv Hin. apply in_range_true in Hin. pose proof (inv_bounds_in r Hinv ltac:(lia)) as Hlt.
  split.
  - intros Hnil. pose proof (view_zlen r Hinv) as Hz. rewrite Hnil in Hz.
    change (zlen (@nil N)) with 0 in Hz. pose proof (ri_pad r Hinv). lia.
  - rewrite r_rest_in by lia. unfold r_view, sub.
    exists (skipn (Z.to_nat (s_stop (r_pos r) - s_start (r_pos r))) (skipn (Z.to_nat (s_start (r_pos r))) (r_src r))).
    rewrite <- app_assoc, firstn_skipn. reflexivity.
Qed.

(* Advance(n), n no larger than what remains, moves forward exactly n bytes *)
Theorem advance_skips r n : RInv r -> 0 <= n <= zlen (r_rest r) ->
  exists r', r_advance r n = Ok r' /\ RInv r' /\ r_src r' = r_src r /\
             r_rest r' = skipn (Z.to_nat n) (r_rest r).
Proof. intros Hinv Hn. apply advance_skips_gen; [exact Hinv|lia]. Qed.

(* AdvanceLine moves to the start of the next line (drops the rest of the current view) *)
Theorem advance_line_skips r : RInv r ->
  RInv (r_advance_line r) /\ r_src (r_advance_line r) = r_src r /\
  (r_in_range r = true ->
   r_rest (r_advance_line r) = skipn (length (r_view r)) (r_rest r)).
Proof.
  intros Hinv. split; [apply advance_line_inv; exact Hinv|]. split; [apply advance_line_src|].
  apply advance_line_rest. exact Hinv.
Qed.

(* SetPosition to a position previously returned by Position restores the view seen then *)
Theorem set_position_restores r line pos : RInv r -> saved_from (r_src r) line pos ->
  exists r', r_set_position r line pos = Ok r' /\ RInv r' /\ r_src r' = r_src r /\
             r_position r' = (line, pos).
Proof.
  intros Hinv [r0 [Hinv0 [Hsrc0 Hpos0]]]. unfold r_position in Hpos0. injection Hpos0 as Hl0 Hp0.
  pose proof (inv_bounds r0 Hinv0) as Hb0. subst line pos.
  unfold r_set_position, r_len. rsimpl.
  destruct (Z.eqb_spec (r_line r0) (r_line r)) as [Hl|Hl]; cbn [negb bind].
  - eexists. split; [reflexivity|]. split; [|split; reflexivity].
    cbv [rset_pos rset_line rset_peeked rset_loff rset_head]. rsimpl. rewrite <- Hsrc0.
    apply restore_inv; [exact Hinv0|]. intros h Hh. apply (ri_head r Hinv).
    rewrite <- Hsrc0, <- Hl. exact Hh.
  - destruct (Z.ltb_spec (zlen (r_src r)) (s_start (r_pos r0))) as [Hbad|_]; [rewrite <- Hsrc0 in Hbad; lia|].
    destruct (back_ok (Z.to_nat (s_start (r_pos r0)) + 1) (r_src r) (s_start (r_pos r0)))
      as [h [H1 [H2 H3]]]; [rewrite <- Hsrc0; lia|lia|].
    rewrite H1. cbn [bind]. destruct (Z.leb_spec 0 h) as [_|Hneg]; [|lia].
    eexists. split; [reflexivity|]. split; [|split; reflexivity].
    cbv [rset_pos rset_line rset_peeked rset_loff rset_head]. rsimpl. rewrite <- Hsrc0.
    apply restore_inv; [exact Hinv0|]. intros h' Hh'. rewrite <- Hsrc0 in H3.
    destruct (Z.eq_dec (s_start (r_pos r0)) (zlen (r_src r0))) as [Heof|Hin].
    + pose proof (ri_line_eof r0 Hinv0 Heof) as Hle. pose proof (nls_some _ _ _ Hh') as Hk.
      rewrite firstn_zlen in H3 by lia. assert (r_line r0 = nl_count (r_src r0)) as Hline by lia.
      rewrite Hline in Hh'. congruence.
    + rewrite <- (ri_line_in r0 Hinv0) in H3 by lia. congruence.
Qed.

(* SetPadding with a non-negative padding keeps the invariant and only changes the padding *)
Theorem set_padding_inv r v : RInv r -> 0 <= v ->
  RInv (r_set_padding r v) /\ r_src (r_set_padding r v) = r_src r /\
  s_start (r_pos (r_set_padding r v)) = s_start (r_pos r) /\ s_pad (r_pos (r_set_padding r v)) = v.
Proof.
  intros Hinv Hv. split; [|csplit; reflexivity].
  unfold r_set_padding. rdestruct r Hinv. constructor; unfold r_column; rsimpl; try assumption.
  - discriminate.
  - intros H. congruence.
Qed.

(* LineOffset is the tab-expanded column: the width of the line's bytes before the position,
   minus the padding *)
Theorem line_offset_is_column r h : RInv r -> r_in_range r = true ->
  line_head (r_src r) (s_start (r_pos r)) = Some h ->
  exists r', r_line_offset r = Ok (r', r_column r h) /\ RInv r' /\ r_position r' = r_position r /\ r_src r' = r_src r.
Proof.
  intros Hinv Hin Hh. apply in_range_true in Hin. pose proof (inv_bounds r Hinv) as Hb.
  unfold line_head in Hh. rewrite <- (ri_line_in r Hinv) in Hh by lia.
  pose proof (ri_head r Hinv h Hh) as Hhead. apply nls_some in Hh.
  unfold r_line_offset. destruct (Z.ltb_spec (r_loff r) 0) as [Hneg|Hpos].
  - rewrite Hhead. destruct (Z.ltb_spec h (s_start (r_pos r))) as [Hlt|Hge].
    + rewrite slice_sub by lia. cbn [bind]. exists (rset_loff r (r_column r h)).
      split; [reflexivity|]. split; [|split; reflexivity].
      apply RInv_set_loff; [exact Hinv|]. intros _. rewrite Hhead. reflexivity.
    + assert (r_column r h = 0 - s_pad (r_pos r)) as Hcol.
      { unfold r_column. rewrite sub_empty by lia. reflexivity. }
      rewrite <- Hcol. exists (rset_loff r (r_column r h)).
      split; [reflexivity|]. split; [|split; reflexivity].
      apply RInv_set_loff; [exact Hinv|]. intros _. rewrite Hhead. reflexivity.
  - exists r. rewrite (ri_loff r Hinv) by lia. rewrite Hhead. csplit; auto.
Qed.

(* Value(seg) is the segment's own value (for the plain reader by definition) *)
Theorem value_is_segment_value r t : r_value r t = seg_value (r_src r) t.
Proof. reflexivity. Qed.

(* findClosure's line loop keeps the invariant and the source *)
Lemma fc_lines_inv fuel : forall opts o c r opened cso ret r' res, RInv r ->
  fc_lines punct_table reader r_peek_line r_advance r_advance_line_res fuel opts o c r opened cso ret
    = Ok (r', res) ->
  RInv r' /\ r_src r' = r_src r.
Proof.
  induction fuel as [|f IH]; intros opts o c r opened cso ret r' res Hinv H; cbn [fc_lines] in H; [discriminate|].
  destruct (peek_line_is_view r Hinv) as [rp [Hpk [Hinvp [Hposp Hsrcp]]]].
  rewrite Hpk in H. cbn [bind] in H. destruct (r_in_range r) eqn:Hin.
  - match type of H with bind ?sc _ = _ => destruct sc as [sr| |] eqn:Es end; cbn [bind] in H; try discriminate.
    destruct sr as [k| |op cs].
    + apply fc_scan_closed in Es.
      destruct (advance_skips_gen rp (k + 1) Hinvp ltac:(lia)) as [ra [Ha [Hia [Hsa _]]]].
      rewrite Ha in H. cbn [bind] in H. injection H as <- _. split; congruence.
    + injection H as <- _. split; assumption.
    + destruct (negb (o_newline opts)).
      * injection H as <- _. split; assumption.
      * unfold r_advance_line_res in H. cbn [bind] in H. apply IH in H; [|apply advance_line_inv; exact Hinvp].
        rewrite advance_line_src in H. destruct H as [H1 H2]. split; congruence.
  - injection H as <- _. split; assumption.
Qed.

(* FindClosure without the Advance option leaves the position untouched *)
Theorem find_closure_pure r fuel o c opts r' res : RInv r -> o_advance opts = false ->
  r_find_closure punct_table fuel r o c opts = Ok (r', res) ->
  r_position r' = r_position r /\ RInv r' /\ r_src r' = r_src r.
Proof.
  intros Hinv Hadv H. unfold r_find_closure, find_closure in H. unfold r_position at 1 in H.
  cbv beta iota in H.
  match type of H with bind ?fl _ = _ => destruct fl as [[r1 res1]| |] eqn:El end; cbn [bind] in H; try discriminate.
  apply fc_lines_inv in El; [|exact Hinv]. destruct El as [Hinv1 Hsrc1].
  rewrite Hadv in H. cbn [negb] in H.
  destruct (set_position_restores r1 (r_line r) (r_pos r) Hinv1) as [r2 [Hset [Hinv2 [Hsrc2 Hpos2]]]].
  { exists r. csplit; auto. }
  rewrite Hset in H. cbn [bind] in H. injection H as <- _.
  csplit; [exact Hpos2|exact Hinv2|congruence].
Qed.

Lemma fc_lines_total fuel : forall opts o c r opened cso ret, RInv r ->
  (Z.to_nat (zlen (r_src r) - s_start (r_pos r)) < fuel)%nat ->
  exists r' res,
    fc_lines punct_table reader r_peek_line r_advance r_advance_line_res fuel opts o c r opened cso ret
      = Ok (r', res).
Proof.
  induction fuel as [|f IH]; intros opts o c r opened cso ret Hinv Hf; [lia|]. cbn [fc_lines].
  destruct (peek_line_is_view r Hinv) as [rp [Hpk [Hinvp [Hposp Hsrcp]]]].
  rewrite Hpk. cbn [bind]. destruct (r_in_range r) eqn:Hin; [|eexists; eexists; reflexivity].
  destruct (fc_scan_total punct_table (S (length (r_view r))) opts o c (r_view r) 0 opened cso ltac:(lia))
    as [sr Es].
  rewrite Es. cbn [bind]. destruct sr as [k| |op cs].
  - apply fc_scan_closed in Es.
    destruct (advance_skips_gen rp (k + 1) Hinvp ltac:(lia)) as [ra [Ha _]].
    rewrite Ha. cbn [bind]. eexists; eexists; reflexivity.
  - eexists; eexists; reflexivity.
  - destruct (negb (o_newline opts)); [eexists; eexists; reflexivity|].
    unfold r_advance_line_res. cbn [bind]. apply IH; [apply advance_line_inv; exact Hinvp|].
    unfold r_position in Hposp. injection Hposp as _ Hpp.
    apply in_range_true in Hin. pose proof (inv_bounds_in r Hinv ltac:(lia)) as Hlt.
    pose proof (inv_bounds r Hinv) as Hb.
    rewrite advance_line_src, Hsrcp. rewrite r_advance_line_eq by (rewrite Hpp; lia). rsimpl.
    rewrite Hpp. lia.
Qed.

(* ... and with enough fuel (one unit per line) it neither panics nor runs out of fuel *)
Theorem find_closure_total r o c opts : RInv r ->
  exists r' res, r_find_closure punct_table (Z.to_nat (zlen (r_src r)) + 2) r o c opts = Ok (r', res).
Proof.
  intros Hinv. unfold r_find_closure, find_closure. unfold r_position at 1. cbv beta iota.
  pose proof (inv_bounds r Hinv) as Hb.
  destruct (fc_lines_total (Z.to_nat (zlen (r_src r)) + 2) opts o c r 1 0 [] Hinv ltac:(lia)) as [r1 [res1 El]].
  rewrite El. cbn [bind]. apply fc_lines_inv in El; [|exact Hinv]. destruct El as [Hinv1 Hsrc1].
  destruct (o_advance opts); cbn [negb bind].
  - eexists; eexists; reflexivity.
  - destruct (set_position_restores r1 (r_line r) (r_pos r) Hinv1) as [r2 [Hset _]].
    { exists r. csplit; auto. }
    rewrite Hset. cbn [bind]. eexists; eexists; reflexivity.
Qed.

(* no position outside the source *)
Theorem inv_in_range r : RInv r ->
  0 <= s_start (r_pos r) <= s_stop (r_pos r) /\ s_stop (r_pos r) <= zlen (r_src r).
Proof. apply inv_bounds. Qed.

(* the line head used by line_offset_is_column always exists *)
Lemma line_head_exists src start : 0 <= start <= zlen src ->
  exists h, line_head src start = Some h /\ 0 <= h <= start.
Proof.
  intros Hs. destruct (back_ok (Z.to_nat start + 1) src start Hs ltac:(lia)) as [h [_ [H2 H3]]].
  exists h. split; [exact H3|exact H2].
Qed.

(* totality together with the invariant of the resulting reader *)
Theorem find_closure_total_inv r o c opts : RInv r ->
  exists r' res, r_find_closure punct_table (Z.to_nat (zlen (r_src r)) + 2) r o c opts = Ok (r', res) /\
                 RInv r' /\ r_src r' = r_src r.
Proof.
  intros Hinv. unfold r_find_closure, find_closure. unfold r_position at 1. cbv beta iota.
  pose proof (inv_bounds r Hinv) as Hb.
  destruct (fc_lines_total (Z.to_nat (zlen (r_src r)) + 2) opts o c r 1 0 [] Hinv ltac:(lia)) as [r1 [res1 El]].
  rewrite El. cbn [bind]. apply fc_lines_inv in El; [|exact Hinv]. destruct El as [Hinv1 Hsrc1].
  destruct (o_advance opts); cbn [negb bind].
  - exists r1, res1. csplit; auto.
  - destruct (set_position_restores r1 (r_line r) (r_pos r) Hinv1) as [r2 [Hset [Hinv2 [Hsrc2 _]]]].
    { exists r. csplit; auto. }
    rewrite Hset. cbn [bind]. exists r2, res1. csplit; auto. congruence.
Qed.

End PlainReader.
