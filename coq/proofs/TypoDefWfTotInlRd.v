(* Fork of proofs/ParseInlineTotalReader.v for the inline phase of model/TypoDefParseT.v: the FIRST
   line of the block may have padding (the single line of a definition term, TypoDefWfDefs.v
   linesTD_ok); the reader invariant RI demands "no padding" of the position and of the lines
   behind the first one only.  (The padding of the first line is consumed by the first Advance of
   the line scan, see TypoDefWfTotInlDrive.v; the reader never looks at it again.)
   The block reader under the inline parsers: the invariant RI, positions only move
   forward, and totality of the reader-level helpers the inline parsers use. *)
Require Import GM.model.Base GM.model.Util GM.model.Reader GM.model.ReaderSpec GM.model.ListItem GM.model.LeafBlocks
               GM.model.BlockParse GM.model.InlineParse.
Require Import GM.proofs.BReaderProofs.
From Coq Require Import ZArith Lia List.
Import ListNotations.
Open Scope Z_scope.

Lemma nth_succ_in_tl {A} (l : list A) k t : 0 <= k -> nth_error l (Z.to_nat (k + 1)) = Some t -> In t (tl l).
Proof.
  intros Hk H. replace (Z.to_nat (k + 1)) with (S (Z.to_nat k)) in H by lia.
  destruct l as [|a l']; [discriminate H|]. cbn [nth_error tl] in *. apply nth_error_In in H. exact H.
Qed.

Lemma in_post_tl {A} (pre : list A) s post x : In x post -> In x (tl (pre ++ s :: post)).
Proof.
  intros H. destruct pre as [|a pre']; cbn [app tl]; [exact H|]. apply in_app_iff. right. right. exact H.
Qed.

Section R.
Variable src : bytes.
Variable segs : list seg.

Definition RI (r : breader) : Prop :=
  BInv r /\ b_src r = src /\ b_segs r = segs /\ s_pad (b_pos r) = 0 /\ Forall (fun s => s_pad s = 0) (tl segs).

Lemma ri_segs_ok r : RI r -> segs_ok src segs.
Proof. intros (H & Es & Eg & _). rewrite <- Es, <- Eg. apply (bi_segs r H). Qed.

Lemma ri_peek_line r : RI r ->
  b_peek_line r = Ok (r, (if b_in_range r then Some (b_view r) else None), b_pos r).
Proof. intros (H & _). apply b_peek_line_view. exact H. Qed.

Lemma ri_view r : RI r -> b_in_range r = true ->
  b_view r = sub src (s_start (b_pos r)) (s_stop (b_pos r)) /\
  zlen (b_view r) = s_stop (b_pos r) - s_start (b_pos r) /\
  0 <= s_start (b_pos r) < s_stop (b_pos r) /\ s_stop (b_pos r) <= zlen src /\
  exists tl, b_rest r = b_view r ++ tl.
Proof.
  intros (H & Es & Eg & Ep & Hpad) Hin. split.
  - unfold b_view. rewrite Ep, Es. reflexivity.
  - split; [rewrite (view_length r H Hin); lia|].
    destruct (binv_in r H Hin) as (s & pre & post & Hn & El & Elen & Hok & Ha & Hb & Hc & Hd & Hle & Hlt & Heq).
    unfold seg_ok in Hok. rewrite Es in Hok. split; [lia|]. split; [lia|].
    eexists. apply b_rest_in. exact Hin.
Qed.

Lemma ri_rest_nil r : b_in_range r = false -> b_rest r = [].
Proof. apply b_rest_out. Qed.

(* ---------- one step of Advance ---------- *)
Lemma b_advance_line_pos r r1 : b_advance_line r = Ok r1 ->
  b_line r1 = b_line r + 1 /\ b_src r1 = b_src r /\ b_segs r1 = b_segs r /\
  ((b_line r + 1 < zlen (b_segs r) /\ exists t, nth_error (b_segs r) (Z.to_nat (b_line r + 1)) = Some t /\ b_pos r1 = t) \/
   (zlen (b_segs r) <= b_line r + 1 /\ b_pos r1 = b_pos r)).
Proof.
  unfold b_advance_line, b_set_position, b_nsegs. bsimpl.
  change (s_start (mkseg (-1) (-1)) =? -1) with true. cbv iota.
  destruct (Z.ltb_spec (b_line r + 1) (zlen (b_segs r))) as [Hlt|Hge].
  - unfold seg_at. destruct ((0 <=? b_line r + 1) && (b_line r + 1 <? zlen (b_segs r))); [|discriminate].
    destruct (nth_error (b_segs r) (Z.to_nat (b_line r + 1))) as [t|] eqn:Et; [|discriminate].
    cbn [bind]. intros E. inversion E; subst r1. bsimpl. repeat split; try reflexivity.
    left. split; [exact Hlt|]. exists t. auto.
  - cbn [bind]. intros E. inversion E; subst r1. bsimpl. repeat split; try reflexivity. right. auto.
Qed.

Lemma b_step_mono r r1 : RI r -> b_loff r = -1 -> b_in_range r = true -> b_step r = Ok r1 ->
  s_pad (b_pos r1) = 0 /\ s_start (b_pos r) + 1 <= s_start (b_pos r1) /\ b_line r <= b_line r1.
Proof.
  intros (H & Es & Eg & Ep & Hpad) Hl Hin. unfold b_step. rewrite Ep. cbn [negb Z.eqb].
  destruct (binv_in r H Hin) as (s & pre & post & Hn & El & Elen & Hok & Ha & Hb & Hc & Hd & Hle & Hlt & Heq).
  destruct ((s_stop (b_pos r) - 1 <=? s_start (b_pos r)) && (s_stop (b_pos r) <? b_last r)) eqn:Ec.
  - intros E. destruct (b_advance_line_pos r r1 E) as (L1 & _ & _ & [(Hlt1 & t & Ht & Et)|(Hge & Et)]).
    + split.
      * rewrite Et. rewrite Eg in Ht. apply nth_succ_in_tl in Ht; [|apply (bi_line r H)]. rewrite Forall_forall in Hpad. apply Hpad. exact Ht.
      * split; [|lia]. rewrite Et.
        assert (X : s_stop s <= s_start t).
        { apply (sorted_nth (b_src r) (b_segs r) (Z.to_nat (b_line r)) (Z.to_nat (b_line r + 1)) s t); try assumption.
          - apply (bi_segs r H).
          - pose proof (bi_line r H). lia. }
        lia.
    + exfalso. apply andb_prop in Ec. destruct Ec as [_ Ec]. apply Z.ltb_lt in Ec.
      assert (post = []).
      { destruct post as [|u post']; [reflexivity|]. exfalso. rewrite El, zlen_app, zlen_cons, zlen_cons in Hge.
        pose proof (zlen_nonneg post'). lia. }
      specialize (Heq H0). lia.
  - intros E. inversion E; subst r1. bsimpl. split; [reflexivity|]. lia.
Qed.

Lemma b_advance_slow_mono : forall fuel r n r', RI r -> b_loff r = -1 ->
  0 <= n <= zlen (b_rest r) -> b_advance_slow fuel r n = Ok r' ->
  s_pad (b_pos r') = 0 /\ s_start (b_pos r) + n <= s_start (b_pos r') /\ b_line r <= b_line r'.
Proof.
  induction fuel as [|f IH]; intros r n r' HR Hl Hn; [discriminate|].
  rewrite b_advance_slow_step. destruct (Z.ltb_spec 0 n) as [Hpos|Hz].
  - assert (Hin : b_in_range r = true).
    { destruct (b_in_range r) eqn:E; [reflexivity|]. rewrite (b_rest_out r E) in Hn. unfold zlen in Hn. cbn [length] in Hn. lia. }
    destruct HR as (H & Es & Eg & Ep & Hpad).
    destruct (b_step_spec r H Hl Hin) as (r1 & Hr1 & Hinv1 & Hl1 & Hsrc1 & Hsegs1 & Hrest1).
    rewrite Hr1. cbn [bind]. intros E.
    destruct (b_step_mono r r1 (conj H (conj Es (conj Eg (conj Ep Hpad)))) Hl Hin Hr1) as (P1 & M1 & Ln1).
    assert (HR1 : RI r1) by (split; [exact Hinv1|split; [congruence|split; [congruence|split; [exact P1|exact Hpad]]]]).
    destruct (IH r1 (n - 1) r' HR1 Hl1) as (P' & M' & Ln'); [|exact E|].
    + rewrite Hrest1. unfold zlen in *. rewrite skipn_length. lia.
    + split; [exact P'|]. lia.
  - intros E. inversion E; subst r'. destruct HR as (_ & _ & _ & Ep & _). split; [exact Ep|]. lia.
Qed.

Lemma ri_advance r n : RI r -> 0 <= n <= zlen (b_rest r) ->
  exists r', b_advance r n = Ok r' /\ RI r' /\ b_rest r' = skipn (Z.to_nat n) (b_rest r) /\
    s_start (b_pos r) + n <= s_start (b_pos r') /\ b_line r <= b_line r'.
Proof.
  intros HR Hn. pose proof HR as (H & Es & Eg & Ep & Hpad).
  destruct (b_advance_spec r n H Hn) as (r' & E & H' & Es' & Eg' & Hrest).
  exists r'. split; [exact E|].
  assert (X : s_pad (b_pos r') = 0 /\ s_start (b_pos r) + n <= s_start (b_pos r') /\ b_line r <= b_line r').
  { unfold b_advance in E.
    destruct ((n <? s_stop (b_pos (bset_loff r (-1))) - s_start (b_pos (bset_loff r (-1)))) && (s_pad (b_pos (bset_loff r (-1))) =? 0)).
    - inversion E; subst r'. bsimpl. split; [exact Ep|]. lia.
    - apply (b_advance_slow_mono (Z.to_nat n + 1) (bset_loff r (-1)) n r'); try assumption; try reflexivity.
      split; [apply binv_set_loff; exact H|]. bsimpl. auto. }
  destruct X as (P' & M' & Ln').
  split; [split; [exact H'|split; [congruence|split; [congruence|split; [exact P'|exact Hpad]]]]|]. auto.
Qed.

(* Advance inside the current line *)
Lemma ri_advance_in r n : RI r -> b_in_range r = true -> 0 <= n < zlen (b_view r) ->
  exists r', b_advance r n = Ok r' /\ RI r' /\ b_in_range r' = true /\
    b_line r' = b_line r /\ s_start (b_pos r') = s_start (b_pos r) + n /\ s_stop (b_pos r') = s_stop (b_pos r) /\
    b_view r' = skipn (Z.to_nat n) (b_view r) /\ b_rest r' = skipn (Z.to_nat n) (b_rest r).
Proof.
  intros HR Hin Hn. destruct (ri_view r HR Hin) as (Ev & Elen & Hrange & Hstop & tl & Erest).
  destruct (ri_advance r n HR) as (r' & E & HR' & Hrest & _).
  { rewrite Erest, zlen_app. pose proof (zlen_nonneg tl). lia. }
  exists r'. split; [exact E|]. split; [exact HR'|].
  pose proof HR as (H & Es & Eg & Ep & Hpad).
  assert (Er' : r' = bset_pos (bset_loff r (-1)) {| s_start := s_start (b_pos r) + n; s_stop := s_stop (b_pos r); s_pad := 0; s_fnl := s_fnl (b_pos r) |}).
  { unfold b_advance in E. bsimpl. rewrite Ep in E.
    replace ((n <? s_stop (b_pos r) - s_start (b_pos r)) && (0 =? 0)) with true in E by lia. inversion E. reflexivity. }
  assert (Hin' : b_in_range r' = true).
  { rewrite Er'. apply in_range_iff. bsimpl. pose proof (in_range_true r Hin) as Hr.
    destruct (binv_in r H Hin) as (s & pre & post & Hnth & El & Ell & Hok & Ha & Hb & Hc & Hd & Hle & _). lia. }
  split; [exact Hin'|]. rewrite Er'. bsimpl. split; [reflexivity|]. split; [reflexivity|]. split; [reflexivity|].
  split; [|rewrite <- Er'; exact Hrest].
  unfold b_view. bsimpl. rewrite Ep. change (spaces_n 0) with (@nil N). cbn [app].
  symmetry. apply sub_skipn; lia.
Qed.

Lemma ri_advance_line r : RI r ->
  exists r', b_advance_line r = Ok r' /\ RI r' /\ b_line r' = b_line r + 1 /\
    s_start (b_pos r) <= s_start (b_pos r') /\
    (b_in_range r = true -> b_rest r' = skipn (length (b_view r)) (b_rest r)).
Proof.
  intros (H & Es & Eg & Ep & Hpad). destruct (b_advance_line_spec r H) as (r' & E & H' & Es' & Eg' & _ & Hline & Hrest).
  exists r'. split; [exact E|].
  destruct (b_advance_line_pos r r' E) as (_ & _ & _ & [(Hlt1 & t & Ht & Et)|(Hge & Et)]).
  - assert (P' : s_pad (b_pos r') = 0).
    { rewrite Et. rewrite Eg in Ht. apply nth_succ_in_tl in Ht; [|apply (bi_line r H)]. rewrite Forall_forall in Hpad. apply Hpad. exact Ht. }
    split; [split; [exact H'|split; [congruence|split; [congruence|split; [exact P'|exact Hpad]]]]|]. split; [exact Hline|]. split; [|exact Hrest].
    rewrite Et. pose proof (bi_line r H) as Hl0.
    destruct (Z.ltb_spec (b_line r) (zlen (b_segs r))) as [Hl|Hl]; [|lia].
    destruct (binv_cur r H Hl) as (s & pre & post & Hn & _ & _ & Hok & Ha & _).
    assert (X : s_stop s <= s_start t).
    { apply (sorted_nth (b_src r) (b_segs r) (Z.to_nat (b_line r)) (Z.to_nat (b_line r + 1)) s t); try assumption; [apply (bi_segs r H)|lia]. }
    lia.
  - split; [split; [exact H'|split; [congruence|split; [congruence|split; [rewrite Et; exact Ep|exact Hpad]]]]|]. split; [exact Hline|].
    split; [rewrite Et; lia|exact Hrest].
Qed.

(* two readers at the same position have the same view and the same rest *)
Lemma ri_same_pos r1 r2 : RI r1 -> RI r2 -> b_line r1 = b_line r2 -> b_pos r1 = b_pos r2 ->
  b_in_range r1 = b_in_range r2 /\ b_view r1 = b_view r2 /\ b_rest r1 = b_rest r2.
Proof.
  intros (H1 & Es1 & Eg1 & _) (H2 & Es2 & Eg2 & _) El Ep.
  assert (Elast : b_last r1 = b_last r2) by (rewrite (bi_last r1 H1), (bi_last r2 H2), Eg1, Eg2; reflexivity).
  assert (Ein : b_in_range r1 = b_in_range r2) by (unfold b_in_range, b_nsegs; rewrite El, Ep, Elast, Eg1, Eg2; reflexivity).
  assert (Ev : b_view r1 = b_view r2) by (unfold b_view; rewrite Ep, Es1, Es2; reflexivity).
  split; [exact Ein|]. split; [exact Ev|].
  unfold b_rest. fold (b_in_range r1). fold (b_in_range r2). rewrite Ein, Ev, El, Eg1, Eg2, Es1, Es2. reflexivity.
Qed.

Lemma ri_set_position r r0 : RI r -> RI r0 -> segs <> [] ->
  exists r', b_set_position r (b_line r0) (b_pos r0) = Ok r' /\ RI r' /\
    b_line r' = b_line r0 /\ b_pos r' = b_pos r0.
Proof.
  intros (H & Es & Eg & Ep & Hpad) (H0 & Es0 & Eg0 & Ep0 & _) Hne.
  destruct (b_set_position_spec r (b_line r0) (b_pos r0) H) as (r' & E & H' & Es' & Eg' & Epos).
  - exists r0. split; [exact H0|]. split; [congruence|]. split; [congruence|reflexivity].
  - left. rewrite Eg. exact Hne.
  - exists r'. split; [exact E|]. unfold b_position in Epos. inversion Epos as [[E1 E2]].
    split; [split; [exact H'|split; [congruence|split; [congruence|split; [rewrite E2; exact Ep0|exact Hpad]]]]|]. auto.
Qed.

(* the bytes still to be read never exceed the source *)
Lemma forall_pad_tail (a : seg) l : Forall (fun s => s_pad s = 0) (a :: l) -> s_pad a = 0 /\ Forall (fun s => s_pad s = 0) l.
Proof. intros H. inversion H; auto. Qed.

Lemma flat_len_le : forall l lo, segs_ok src l -> Forall (fun s => s_pad s = 0) l ->
  (forall s, In s l -> lo <= s_start s) -> 0 <= lo <= zlen src ->
  zlen (flat_map (seg_bytes src) l) <= zlen src - lo.
Proof.
  induction l as [|a t IH]; intros lo Hok Hp Hlo Hlo0.
  - cbn. change (zlen (@nil N)) with 0. lia.
  - destruct (segs_ok_cons_inv _ _ _ Hok) as [Ha Ht]. destruct (forall_pad_tail _ _ Hp) as [Pa Pt].
    unfold seg_ok in Ha. cbn [flat_map]. rewrite zlen_app.
    assert (La : zlen (seg_bytes src a) = s_stop a - s_start a).
    { unfold seg_bytes. rewrite Pa. change (spaces_n 0) with (@nil N). cbn [app]. apply sub_length; lia. }
    specialize (IH (s_stop a) Ht Pt).
    assert (X : zlen (flat_map (seg_bytes src) t) <= zlen src - s_stop a).
    { apply IH; [|lia]. intros s Hs. apply (sorted_after src t a s Hok Hs). }
    specialize (Hlo a (or_introl eq_refl)). lia.
Qed.

Lemma ri_rest_le r : RI r -> zlen (b_rest r) <= zlen src.
Proof.
  intros HR. pose proof (ri_segs_ok r HR) as Hsegs. destruct HR as (H & Es & Eg & Ep & Hpad). destruct (b_in_range r) eqn:Hin.
  - destruct (binv_in r H Hin) as (s & pre & post & Hn & El & Elen & Hok & Ha & Hb & Hc & Hd & Hle & Hlt & Heq).
    rewrite (b_rest_in r Hin), zlen_app, (view_length r H Hin), Ep, (skipn_next r s pre post El Elen), Es.
    unfold seg_ok in Hok. rewrite Es in Hok.
    assert (Hok' : segs_ok src (s :: post)).
    { apply (segs_ok_app_inv src pre). rewrite <- El, Eg. exact Hsegs. }
    assert (Hp' : Forall (fun s => s_pad s = 0) post).
    { rewrite Forall_forall in *. intros x Hx. apply Hpad. rewrite <- Eg, El. apply in_post_tl. exact Hx. }
    pose proof (flat_len_le post (s_stop s) (proj2 (segs_ok_cons_inv _ _ _ Hok')) Hp') as X.
    assert (Y : zlen (flat_map (seg_bytes src) post) <= zlen src - s_stop s).
    { apply X; [|lia]. intros t Ht. apply (sorted_after src post s t Hok' Ht). }
    lia.
  - rewrite (b_rest_out r Hin). change (zlen (@nil N)) with 0. apply zlen_nonneg.
Qed.

(* ---------- Advance from a position with padding (the head of a padded first line) ---------- *)
(* once the padding is consumed the position has none, and it never gets one again *)
Lemma b_advance_slow_pad0 : forall fuel r n r', BInv r -> b_src r = src -> b_segs r = segs ->
  Forall (fun s => s_pad s = 0) (tl segs) -> b_loff r = -1 ->
  0 <= n <= zlen (b_rest r) -> s_pad (b_pos r) <= n -> b_advance_slow fuel r n = Ok r' -> s_pad (b_pos r') = 0.
Proof.
  induction fuel as [|f IH]; intros r n r' H Es Eg Hpad Hl Hn Hp; [discriminate|].
  destruct (Z.eq_dec (s_pad (b_pos r)) 0) as [E0|E0].
  { intros E. apply (b_advance_slow_mono (S f) r n r'); try assumption. repeat (split; try assumption). }
  rewrite b_advance_slow_step. pose proof (bi_pad r H) as Hp0.
  destruct (Z.ltb_spec 0 n) as [Hpos|Hz]; [|lia].
  assert (Hin : b_in_range r = true).
  { destruct (b_in_range r) eqn:E; [reflexivity|]. rewrite (b_rest_out r E) in Hn. unfold zlen in Hn. cbn [length] in Hn. lia. }
  destruct (b_step_spec r H Hl Hin) as (r1 & Hr1 & Hinv1 & Hl1 & Hsrc1 & Hsegs1 & Hrest1).
  rewrite Hr1. cbn [bind]. intros E.
  assert (Hp1 : s_pad (b_pos r1) = s_pad (b_pos r) - 1).
  { unfold b_step in Hr1. destruct (Z.eqb_spec (s_pad (b_pos r)) 0) as [X|X]; [contradiction|]. cbn [negb] in Hr1.
    inversion Hr1; subst r1. bsimpl. reflexivity. }
  apply (IH r1 (n - 1) r'); try assumption; try congruence; [|lia].
  rewrite Hrest1. unfold zlen in *. rewrite skipn_length. lia.
Qed.

Lemma ri_advance_pad r n : BInv r -> b_src r = src -> b_segs r = segs -> Forall (fun s => s_pad s = 0) (tl segs) ->
  0 <= n <= zlen (b_rest r) -> s_pad (b_pos r) <= n ->
  exists r', b_advance r n = Ok r' /\ RI r' /\ b_rest r' = skipn (Z.to_nat n) (b_rest r).
Proof.
  intros H Es Eg Hpad Hn Hp.
  destruct (b_advance_spec r n H Hn) as (r' & E & H' & Es' & Eg' & Hrest).
  exists r'. split; [exact E|]. split; [|exact Hrest].
  split; [exact H'|]. split; [congruence|]. split; [congruence|]. split; [|exact Hpad].
  unfold b_advance in E.
  destruct ((n <? s_stop (b_pos (bset_loff r (-1))) - s_start (b_pos (bset_loff r (-1)))) && (s_pad (b_pos (bset_loff r (-1))) =? 0)) eqn:Ec.
  - inversion E; subst r'. bsimpl. lia.
  - apply (b_advance_slow_pad0 (Z.to_nat n + 1) (bset_loff r (-1)) n r'); try assumption; try reflexivity.
    apply binv_set_loff. exact H.
Qed.

End R.

(* ---------- Value ---------- *)
Lemma find_line_res segs start : forall fuel line, -1 <= line < zlen segs -> line + 1 < Z.of_nat fuel ->
  exists k, b_value_find_line fuel segs line start = Ok k /\ -1 <= k <= line /\
    (k = -1 -> 0 <= line -> forall s0, nth_error segs 0 = Some s0 -> start < s_start s0).
Proof.
  induction fuel as [|f IH]; intros line Hl Hf; [lia|]. cbn [b_value_find_line].
  destruct (Z.leb_spec 0 line) as [H0|H0].
  - destruct (nth_error_ex segs line) as [s Hs]; [lia|].
    rewrite (seg_at_ok _ _ s) by (try lia; exact Hs). cbn [bind].
    destruct (Z.leb_spec (s_start s) start) as [Hle|Hgt].
    + exists line. split; [reflexivity|]. split; [lia|]. intros; lia.
    + destruct (IH (line - 1)) as (k & E & Hk & Hfirst); [lia|lia|].
      exists k. split; [exact E|]. split; [lia|]. intros Ek _ s0 Hs0.
      destruct (Z.eq_dec line 0) as [Ez|Ez].
      * subst line. change (Z.to_nat 0) with O in Hs. rewrite Hs0 in Hs. inversion Hs; subst. exact Hgt.
      * apply Hfirst; [exact Ek|lia|exact Hs0].
  - exists line. split; [reflexivity|]. split; [lia|]. intros; lia.
Qed.

Lemma b_value_loop_total r sg : segs_ok (b_src r) (b_segs r) -> forall fuel line i acc,
  0 <= line -> zlen (b_segs r) - line < Z.of_nat fuel -> (0 < fuel)%nat -> (0 <= i \/ i = -1) ->
  exists v, b_value_loop fuel r sg line i acc = Ok v.
Proof.
  intros Hok. induction fuel as [|f IH]; intros line i acc Hl Hf Hf0 Hi; [lia|].
  cbn [b_value_loop]. unfold b_nsegs. destruct (Z.ltb_spec line (zlen (b_segs r))) as [Hlt|Hge]; [|eexists; reflexivity].
  destruct (nth_error_ex (b_segs r) line) as [s Hs]; [lia|].
  rewrite (seg_at_ok _ _ s) by (try lia; exact Hs). cbn [bind].
  destruct (nth_facts _ _ _ _ Hok Hs) as (pre & post & _ & _ & Hsok & _). unfold seg_ok in Hsok.
  set (ia := if i <? 0 then (s_start s, acc ++ pad_bytes s) else (i, acc ++ pad_bytes sg)).
  assert (Hia : 0 <= fst ia) by (unfold ia; destruct (Z.ltb_spec i 0); cbn [fst]; lia).
  destruct ia as [i' acc']. cbn [fst] in Hia.
  assert (Hc : exists v, copy_range (b_src r) i' (s_stop sg) (s_stop s) = Ok v).
  { unfold copy_range. destruct (Z.ltb_spec i' (Z.min (s_stop sg) (s_stop s))) as [Hlt2|Hge2]; [|eexists; reflexivity].
    rewrite slice_ok by lia. eexists. reflexivity. }
  destruct Hc as [v Ev]. rewrite Ev. cbn [bind].
  destruct (s_stop sg <=? s_stop s); [eexists; reflexivity|].
  apply IH; lia.
Qed.

Lemma b_value_total r sg first : segs_ok (b_src r) (b_segs r) -> hd_error (b_segs r) = Some first ->
  s_start first <= s_start sg -> s_start sg - 1 <= s_stop sg -> exists v, b_value r sg = Ok v.
Proof.
  intros Hok Hfirst Hlo Hlen. unfold b_value.
  destruct (Z.ltb_spec (s_stop sg - s_start sg + 1) 0) as [Hneg|_]; [lia|].
  assert (Hne : 0 < zlen (b_segs r)).
  { destruct (b_segs r); [discriminate|]. rewrite zlen_cons. pose proof (zlen_nonneg l). lia. }
  assert (Hf0 : nth_error (b_segs r) 0 = Some first) by (destruct (b_segs r); [discriminate|exact Hfirst]).
  destruct (nth_facts _ _ _ _ Hok Hf0) as (pre & post & _ & _ & Hsok & _). unfold seg_ok in Hsok.
  unfold b_nsegs.
  destruct (find_line_res (b_segs r) (s_start sg) (length (b_segs r) + 1) (zlen (b_segs r) - 1)) as (k & E & Hk & Hk1);
    [lia|unfold zlen; lia|].
  rewrite E. cbn [bind].
  destruct (Z.ltb_spec (s_start sg) 0) as [Hn|_]; [lia|].
  assert (Hk0 : 0 <= k).
  { destruct (Z.eq_dec k (-1)) as [Ek|Ek]; [|lia]. specialize (Hk1 Ek). assert (X : s_start sg < s_start first) by (apply Hk1; [lia|exact Hf0]). lia. }
  destruct (Z.ltb_spec k 0) as [Hn|_]; [lia|].
  apply b_value_loop_total; try assumption; try lia. unfold zlen. lia.
Qed.


(* ---------- helpers over the reader ---------- *)
Section R2.
Variable src : bytes.
Variable segs : list seg.
Variable space_table punct_table : list N.
Notation RI := (RI src segs).

(* "r' is not behind r" *)
Definition rle (r r' : breader) : Prop :=
  zlen (b_rest r') <= zlen (b_rest r) /\ s_start (b_pos r) <= s_start (b_pos r').
Lemma rle_refl r : rle r r.
Proof. split; lia. Qed.
Lemma rle_trans a b c : rle a b -> rle b c -> rle a c.
Proof. intros [A1 A2] [B1 B2]. split; lia. Qed.

Lemma zlen_skipn {A} (l : list A) n : 0 <= n <= zlen l -> zlen (skipn (Z.to_nat n) l) = zlen l - n.
Proof. intros H. unfold zlen in *. rewrite skipn_length. lia. Qed.

Lemma ri_advance_rle r n : RI r -> 0 <= n <= zlen (b_rest r) ->
  exists r', b_advance r n = Ok r' /\ RI r' /\ rle r r' /\ zlen (b_rest r') = zlen (b_rest r) - n /\
    s_start (b_pos r) + n <= s_start (b_pos r').
Proof.
  intros HR Hn. destruct (ri_advance src segs r n HR Hn) as (r' & E & HR' & Hrest & Hm & _).
  exists r'. split; [exact E|]. split; [exact HR'|].
  assert (X : zlen (b_rest r') = zlen (b_rest r) - n) by (rewrite Hrest; apply zlen_skipn; exact Hn).
  split; [split; lia|]. split; [exact X|exact Hm].
Qed.

Lemma out_stays_out r r' : RI r -> b_in_range r = false -> b_advance_line r = Ok r' -> b_in_range r' = false.
Proof.
  intros HR Hin E. destruct (ri_advance_line src segs r HR) as (r2 & E2 & HR' & _). rewrite E in E2. inversion E2; subst r2.
  destruct HR' as (H' & _). destruct (b_in_range r') eqn:Hin'; [|reflexivity].
  exfalso. destruct HR as (H & Es & Eg & Ep & Hpad).
  destruct (b_advance_line_pos r r' E) as (L1 & S1 & G1 & [(Hlt1 & t & Ht & Et)|(Hge & Et)]).
  - apply in_range_true in Hin'.
    assert (Y : ~ (b_line r < zlen (b_segs r) /\ 0 <= s_start (b_pos r) < b_last r)).
    { intros Z0. apply in_range_iff in Z0. congruence. }
    pose proof (bi_line r H) as Hl0.
    assert (Hlr : b_line r < zlen (b_segs r)) by lia.
    destruct (binv_cur r H Hlr) as (s & pre & post & Hn & El & Elen & Hok & Ha & Hb & Hc & Hd & Hle & Hlt & Heq).
    assert (Hpost : post <> []).
    { intros Ep0. subst post. rewrite El, zlen_app, zlen_cons in Hlt1. change (zlen (@nil seg)) with 0 in Hlt1. lia. }
    specialize (Hlt Hpost). unfold seg_ok in Hok. apply Y. split; [exact Hlr|]. lia.
  - apply in_range_true in Hin'. rewrite G1 in Hin'. lia.
Qed.

Lemma ri_advance_line_rle r : RI r ->
  exists r', b_advance_line r = Ok r' /\ RI r' /\ rle r r' /\ b_line r' = b_line r + 1 /\
    (b_in_range r = true -> zlen (b_rest r') = zlen (b_rest r) - zlen (b_view r)).
Proof.
  intros HR. destruct (ri_advance_line src segs r HR) as (r' & E & HR' & Hl & Hm & Hrest).
  exists r'. split; [exact E|]. split; [exact HR'|].
  assert (X : b_in_range r = true -> zlen (b_rest r') = zlen (b_rest r) - zlen (b_view r)).
  { intros Hin. rewrite (Hrest Hin). destruct (ri_view src segs r HR Hin) as (_ & _ & _ & _ & tl & Er).
    unfold zlen. rewrite skipn_length. rewrite Er, app_length. lia. }
  split.
  - split; [|exact Hm]. destruct (b_in_range r) eqn:Hin.
    + rewrite (X eq_refl). pose proof (zlen_nonneg (b_view r)). lia.
    + rewrite (b_rest_out r Hin). rewrite (b_rest_out r' (out_stays_out r r' HR Hin E)). lia.
  - split; [exact Hl|exact X].
Qed.

(* ---------- SkipSpaces ---------- *)
Lemma skip_inner_spec : forall l i r chars sg tl, RI r -> b_rest r = l ++ tl ->
  exists r' res, skip_spaces_inner space_table breader b_advance l i r chars sg = Ok (r', res) /\ RI r' /\ rle r r' /\
    (res = None -> zlen (b_rest r') = zlen tl).
Proof.
  induction l as [|c t IH]; intros i r chars sg tl HR Er.
  - cbn. exists r, None. split; [reflexivity|]. split; [exact HR|]. split; [apply rle_refl|]. intros _. rewrite Er. reflexivity.
  - cbn [skip_spaces_inner]. destruct (is_space space_table c).
    + destruct (ri_advance src segs r 1 HR) as (r1 & E1 & HR1 & Hrest1 & Hm1 & _).
      { rewrite Er, zlen_app, zlen_cons. pose proof (zlen_nonneg t). pose proof (zlen_nonneg tl). lia. }
      rewrite E1. cbn [bind].
      assert (Er1 : b_rest r1 = t ++ tl) by (rewrite Hrest1, Er; reflexivity).
      destruct (IH (i + 1) r1 (chars + 1) sg tl HR1 Er1) as (r' & res & E & HR' & Hle & Hres).
      exists r', res. split; [exact E|]. split; [exact HR'|]. split; [|exact Hres].
      eapply rle_trans; [|exact Hle]. split; [|lia]. rewrite Er1, Er, !zlen_app, zlen_cons. lia.
    + eexists r, _. split; [reflexivity|]. split; [exact HR|]. split; [apply rle_refl|]. discriminate.
Qed.

Lemma ri_skip_spaces_gen : forall fuel r chars, RI r -> zlen (b_rest r) + 1 < Z.of_nat fuel ->
  exists r' sg ch b, skip_spaces space_table breader b_peek_line b_advance fuel r chars = Ok (r', sg, ch, b) /\ RI r' /\ rle r r'.
Proof.
  induction fuel as [|f IH]; intros r chars HR Hf; [pose proof (zlen_nonneg (b_rest r)); lia|].
  cbn [skip_spaces]. rewrite (ri_peek_line src segs r HR). cbn [bind].
  destruct (b_in_range r) eqn:Hin.
  - destruct (ri_view src segs r HR Hin) as (_ & Elen & Hrange & _ & tl & Er).
    destruct (skip_inner_spec (b_view r) 0 r chars (b_pos r) tl HR Er) as (r1 & res & E1 & HR1 & Hle1 & Hres).
    rewrite E1. cbn [bind]. destruct res as [[sg' ch]|].
    + do 4 eexists. split; [reflexivity|]. split; [exact HR1|exact Hle1].
    + specialize (Hres eq_refl).
      destruct (IH r1 (chars + count_spaces space_table (b_view r)) HR1) as (r' & sg & ch & b & E & HR' & Hle).
      { rewrite Hres. rewrite Er, zlen_app in Hf. lia. }
      exists r', sg, ch, b. split; [exact E|]. split; [exact HR'|]. eapply rle_trans; eassumption.
  - do 4 eexists. split; [reflexivity|]. split; [exact HR|apply rle_refl].
Qed.

Lemma bfuel_bound r : RI r -> zlen (b_rest r) + 1 < Z.of_nat (bfuel r).
Proof.
  intros HR. pose proof (ri_rest_le src segs r HR) as X. destruct HR as (_ & Es & _). unfold bfuel. rewrite Es.
  unfold zlen in *. lia.
Qed.

Lemma ri_skip_spaces r : RI r ->
  exists r' sg ch b, b_skip_spaces space_table (bfuel r) r = Ok (r', sg, ch, b) /\ RI r' /\ rle r r'.
Proof. intros HR. apply ri_skip_spaces_gen; [exact HR|apply bfuel_bound; exact HR]. Qed.

Lemma ri_skip_spaces_r r : RI r -> exists r', skip_spaces_r space_table r = Ok r' /\ RI r' /\ rle r r'.
Proof.
  intros HR. destruct (ri_skip_spaces r HR) as (r' & sg & ch & b & E & HR' & Hle).
  unfold skip_spaces_r. rewrite E. cbn [bind]. exists r'. auto.
Qed.

End R2.
