(* Helper library for TypoDefWfBlk.v, part H: Close of setext headings. *)
Require Import GM.model.Base GM.model.Util GM.model.Reader GM.model.ReaderSpec GM.model.Blocks GM.model.ListItem
               GM.model.LeafBlocks GM.model.CodeBlock GM.model.LinkDest GM.model.Regex GM.model.HtmlWriter
               GM.model.Html GM.model.HtmlSpec GM.model.BlockParse GM.model.InlineParse GM.model.TypoDefParseD.
Require Import GM.proofs.ReaderProofs GM.proofs.BlockRangeProofs GM.proofs.ParseInv
               GM.proofs.ParseBlocksRangeA GM.proofs.TypoDefWfBlkB GM.proofs.TypoDefWfBlkT GM.proofs.TypoDefWfBlkC
               GM.proofs.TypoDefWfBlkD.
From Coq Require Import ZArith Lia Sorted.
Open Scope Z_scope.

Section H.
Variable space_table punct_table : list N.
Variable norm : bytes -> bytes.
Variable re_t1o re_t1c re_t2 re_t3 re_t4 re_t5 re_t6 re_t7 : re.
Variable allowed_tags : list bytes.
Variable src : bytes.
Hypothesis sp32 : is_space space_table 32%N = true.
Set Default Proof Using "All".

(* lemmas of parts C and D take all the section variables: CC supplies them *)
Notation CC f := (f space_table punct_table norm re_t1o re_t1c re_t2 re_t3 re_t4 re_t5 re_t6 re_t7 allowed_tags src sp32) (only parsing).
Notation SInv := (SInv space_table src).
Notation HI := (HI space_table src).
Notation nodeP := (nodeP space_table src).
Notation heapS := (heapS space_table src).
Notation Jinv := (Jinv src).
Notation openS := (openS src).
Notation pline := (pline space_table src).
Notation oline := (oline src).
Notation fin_lines := (fin_lines src).
Notation fin := (fin src).
Notation cont_post := (cont_post space_table src).
Notation item_guard := (item_guard space_table).
Notation verdict := (verdict space_table).

(* ---------- auxiliary facts ---------- *)
Lemma hset_hset (h : heap) : forall i a b, hset (hset h i a) i b = hset h i b.
Proof. induction h as [|x t IH]; intros [|i] a b; cbn [hset]; auto. f_equal. apply IH. Qed.

(* the last entry of D is not among the remaining ids *)
Lemma dropD_notin (A D N : list (nat * bparser)) x bp : NoDup (ids (A ++ (D ++ [(x, bp)]) ++ N)) ->
  ~ In x (ids (A ++ D ++ N)).
Proof.
  intros Hnd. rewrite !ids_app in *. cbn [ids map fst] in Hnd. rewrite <- app_assoc in Hnd. cbn [app] in Hnd.
  rewrite app_assoc in Hnd. apply NoDup_remove_2 in Hnd. rewrite <- app_assoc in Hnd. exact Hnd.
Qed.

Lemma in_dropD_inv {X} (A D N : list X) x e : In e (A ++ (D ++ [x]) ++ N) -> e = x \/ In e (A ++ D ++ N).
Proof.
  intros H. apply in_app_or in H. destruct H as [H|H]; [right; apply in_or_app; left; exact H|].
  apply in_app_or in H. destruct H as [H|H].
  - apply in_app_or in H. destruct H as [H|[H|[]]]; [|left; congruence].
    right. apply in_or_app. right. apply in_or_app. left. exact H.
  - right. apply in_or_app. right. apply in_or_app. right. exact H.
Qed.

(* without opened setext headings the temporary paragraph of the context is irrelevant *)
Lemma openS_set_tmp h c v A D N : openS h c A D N -> (forall x, ~ In (x, PSetext) (A ++ D ++ N)) ->
  openS h (cset_tmp c v) A D N.
Proof.
  intros [Hp Ha Hnd Hs Hc Hl Ht Hf] Hno. constructor; auto.
  intros x Hin. destruct (Hno x Hin).
Qed.

(* x is an element of the tail of the spine / of the chain: it is an opened id *)
Lemma adj_spine_in (A D N : list (nat * bparser)) q x : Adj (0%nat :: ids (A ++ N)) q x -> In x (ids (A ++ D ++ N)).
Proof.
  intros Ha. assert (In x (ids (A ++ N))) as Hin.
  { apply Adj_cons in Ha. destruct Ha as [[_ [t E]]|Ha]; [rewrite E; left; reflexivity|apply (Adj_in _ _ _ Ha)]. }
  rewrite !ids_app in *. apply in_app_or in Hin. apply in_or_app. destruct Hin as [Hin|Hin]; [left; exact Hin|right].
  apply in_or_app. right. exact Hin.
Qed.
Lemma adj_chain_in (A D N : list (nat * bparser)) a q x : Adj (a :: ids D) q x -> In x (ids (A ++ D ++ N)).
Proof.
  intros Ha. assert (In x (ids D)) as Hin.
  { apply Adj_cons in Ha. destruct Ha as [[_ [t E]]|Ha]; [rewrite E; left; reflexivity|apply (Adj_in _ _ _ Ha)]. }
  rewrite !ids_app. apply in_or_app. right. apply in_or_app. left. exact Hin.
Qed.

(* RemoveChild of a node that is not opened *)
Lemma HI_remove b h c A D N p x h1 : HI b h c A D N -> remove_child h p x = Ok h1 -> x <> p ->
  ~ In x (ids (A ++ D ++ N)) -> HI b h1 c A D N /\ length h1 = length h /\ kind_le h h1.
Proof.
  intros HH Hr Hxp Hni. apply remove_child_spec in Hr; [|exact Hxp].
  destruct Hr as [nx [Ex [[_ ->]|[Px [np [Ep [Hlen [E1x [E1p E1o]]]]]]]]]; [csplit; auto; apply kind_le_refl|].
  pose proof (remove_data_le h h1 p x nx np Ex Ep E1x E1p E1o) as Hdl.
  split; [|split; [exact Hlen|apply data_kind_le; exact Hdl]].
  destruct HH as [H1 H2 H3 H4 H5].
  constructor; auto.
  - eapply (Bnd_remove h h1 p x nx np); eassumption.
  - eapply (heapS_remove space_table src h h1 p x nx np); eassumption.
  - eapply (Jinv_remove src h h1 p x nx np); eassumption.
  - eapply openS_kind; [exact H4|apply data_kind_le; exact Hdl| | |].
    + intros y n _ E. destruct (Hdl y n E) as [n' [E' [_ L']]]. eauto.
    + intros q y Hy Hq. eapply (remove_lastchild h h1 p x nx np); try eassumption. intros ->. contradiction.
    + intros q y Hy Hq. eapply (remove_child_keep h h1 p x nx np); try eassumption. intros ->. contradiction.
Qed.

(* the heading takes over the lines of the temporary paragraph *)
Lemma HI_setext_lines b h c A D N node n n2 : HI b h c A (D ++ [(node, PSetext)]) N ->
  (forall y, In (y, PSetext) (A ++ (D ++ [(node, PSetext)]) ++ N) -> y = node) ->
  nth_error h node = Some n -> same_shape n n2 -> b_i1 n2 = b_i1 n -> b_seg n2 = b_seg n ->
  (forall tmp t, c_tmp_para c = Some tmp -> nth_error h tmp = Some t -> blines n2 = blines t) ->
  HI b (hset h node n2) (cset_tmp c None) A D N.
Proof.
  intros [H1 H2 H3 H4 H5] Honly En Hsh Ei Es Hl.
  assert (In (node, PSetext) (A ++ (D ++ [(node, PSetext)]) ++ N)) as Hin.
  { apply in_or_app. right. apply in_or_app. left. apply in_or_app. right. left. reflexivity. }
  destruct (os_pair _ _ _ _ _ _ H4 node PSetext Hin) as [n0 [En0 Kn]].
  assert (n0 = n) by congruence. subst n0. cbn [pkind] in Kn.
  destruct (os_tmp _ _ _ _ _ _ H4 node Hin) as [tmp [t [T1 [T2 [Kt [Ft Hnt]]]]]].
  specialize (Hl tmp t T1 T2).
  pose proof (os_last_notin _ _ _ _ _ _ _ _ H4 ltac:(discriminate)) as Hnn.
  destruct Hsh as [Sk [Sp Sc]].
  destruct (bki_eq _ _ Sk) as [Skb [Ski [Sdl [Sdt [Sdd [Scn _]]]]]].
  destruct (not_html_d n ltac:(congruence)) as [D1 [D2 D3]].
  assert (bk n2 = BHeading) as Kn2 by congruence.
  assert (fin n2) as Hfin by (intros _; rewrite Hl; exact Ft).
  constructor.
  - apply Bnd_hset; [exact H1|]. intros Hk. congruence.
  - eapply heapS_hset; [exact H2|exact En|repeat split; assumption|].
    pose proof (hs_node _ _ _ H2 _ _ En) as [N1 N2 N3 N4 N5 N6 N7 N8 N9].
    pose proof (hs_node _ _ _ H2 _ _ T2) as Nt.
    constructor; rewrite ?Hl, ?Es, ?Ei, ?Skb, ?Sc, ?Sdl, ?Sdt, ?Scn, ?D1, ?D2; auto; try (intros Hk; congruence); try discriminate.
    exact (np_lines _ _ _ Nt).
  - intros x nx Hx Hpx. apply nth_hset_inv in Hx. destruct Hx as [[-> [-> _]]|[Hne Hx]]; [left; exact Hfin|].
    destruct (H3 x nx Hx Hpx) as [Hf|Hi]; [left; exact Hf|right].
    apply in_ids_inv in Hi. destruct Hi as [bp Hi]. apply in_dropD_inv in Hi. destruct Hi as [Hi|Hi]; [congruence|].
    eapply in_ids. exact Hi.
  - apply openS_set_tmp.
    + eapply openS_dropD. eapply openS_hset; [exact H4|exact En|repeat split; assumption|].
      right. eapply (CC entry_not_prot); [exact H4|exact Hin|discriminate].
    + intros x Hx. apply Hnn. assert (x = node) as -> by (apply Honly; apply incl_dropD; exact Hx).
      eapply in_ids. exact Hx.
  - exact H5.
Qed.

(* setext_headings.go Close: node is the last of the blocks being closed; it is the only opened setext heading *)
Lemma setext_close_ok fl s node s' A D N : SInv fl s A (D ++ [(node, PSetext)]) N ->
  (forall y, In (y, PSetext) (A ++ (D ++ [(node, PSetext)]) ++ N) -> y = node) ->
  setext_close space_table s node = Ok s' ->
  SInv fl s' A D N /\ c_arr (s_c s') = c_arr (s_c s) /\ c_len (s_c s') = c_len (s_c s) /\ s_r s' = s_r s /\
  (length (s_h s) <= length (s_h s'))%nat /\ kind_le (s_h s) (s_h s').
Proof.
  intros [HR HH] Honly H. unfold setext_close in H. bind_inv H n En. apply hget_ok in En.
  destruct (blines n) as [|sg ln] eqn:Eln; [discriminate|].
  destruct (c_tmp_para (s_c s)) as [tmp|] eqn:Etmp; [|discriminate].
  bind_inv H h1 Eh1. apply hupd_ok in Eh1. destruct Eh1 as [n0 [En0 ->]].
  assert (n0 = n) by congruence. subst n0. cbn [st_c st_h s_h s_c s_r] in H.
  bind_inv H t Et. apply hget_ok in Et.
  assert (In (node, PSetext) (A ++ (D ++ [(node, PSetext)]) ++ N)) as Hin.
  { apply in_or_app. right. apply in_or_app. left. apply in_or_app. right. left. reflexivity. }
  pose proof (hi_open _ _ _ _ _ _ _ _ HH) as HO. pose proof (hi_heap _ _ _ _ _ _ _ _ HH) as HS.
  destruct (os_tmp _ _ _ _ _ _ HO node Hin) as [tmp0 [t0 [T1 [T2 [Kt [Ft Hnt]]]]]].
  assert (tmp0 = tmp) by congruence. subst tmp0.
  assert (tmp <> node) as Htn.
  { intros ->. apply Hnt. eapply in_ids. exact Hin. }
  rewrite nth_hset_ne in Et by congruence. assert (t0 = t) by congruence. subst t0.
  pose proof (np_para _ _ _ (hs_node _ _ _ HS _ _ T2) Kt) as [_ [_ Hne]].
  destruct (blines t) as [|sg1 lt] eqn:Elt; [congruence|].
  bind_inv H h2 Eh2. apply hupd_ok in Eh2. destruct Eh2 as [n1 [En1 ->]].
  rewrite nth_hset_eq in En1 by (eapply nth_some_lt; exact En). injection En1 as <-.
  rewrite hset_hset in H.
  set (n2 := set_blank (set_lines (set_lines n []) (sg1 :: lt)) (bblank t)) in H.
  assert (HI (rd_bound fl (s_r s)) (hset (s_h s) node n2) (cset_tmp (s_c s) None) A D N) as HH2.
  { eapply HI_setext_lines; try eassumption; try reflexivity; [repeat split|].
    intros tmp' t' E1 E2. assert (tmp' = tmp) by congruence. subst tmp'. assert (t' = t) by congruence. subst t'.
    rewrite Elt. reflexivity. }
  assert (~ In tmp (ids (A ++ D ++ N))) as Hnt2.
  { intros Hi. apply Hnt. apply in_ids_inv in Hi. destruct Hi as [bp Hi]. eapply in_ids. apply incl_dropD. exact Hi. }
  destruct (bpar t) as [tp|] eqn:Ept.
  - bind_inv H h3 Eh3. injection H as <-. cbn [st_c st_h s_h s_c s_r cset_tmp c_arr c_len].
    assert (tmp <> tp) as Hne2.
    { intros <-. apply (hs_noself _ _ _ HS _ _ T2). exact Ept. }
    destruct (HI_remove _ _ _ _ _ _ _ _ _ HH2 Eh3 Hne2 Hnt2) as [HH3 [Hlen Hk3]].
    csplit; auto; [split; [exact HR|exact HH3]|rewrite Hlen, length_hset; lia|].
    eapply kind_le_trans; [|exact Hk3]. eapply kind_le_hset; [exact En|repeat split].
  - injection H as <-. cbn [st_c st_h s_h s_c s_r cset_tmp c_arr c_len].
    csplit; auto; [split; [exact HR|exact HH2]|rewrite length_hset; lia|].
    eapply kind_le_hset; [exact En|repeat split].
Qed.

End H.
