(* Plain paragraphs: the source reader on a source seen as lines.  A line is a body without
   newline followed by its terminator (a newline, or nothing at the end of the source).
   Exact equations for PeekLine / LineOffset / Advance / AdvanceLine on the reader states the
   block phase goes through. *)
Require Import GM.model.Base GM.model.Util GM.model.Reader GM.model.ListItem GM.model.Blocks.
Require Import GM.gen.Tables GM.proofs.SpecParaBytes.
From Coq Require Import List NArith ZArith Bool Lia.
Import ListNotations.
Open Scope Z_scope.

Notation SomeB := (@Some bytes).

Definition no_nl (b : bytes) : Prop := forallb (fun c => negb (N.eqb c 10)) b = true.
Definition term_ok (term rest : bytes) : Prop := term = [10%N] \/ (term = [] /\ rest = []).

Lemma text_no_nl b : forallb textc b = true -> no_nl b.
Proof.
  unfold no_nl. induction b as [|c r IH]; [reflexivity|].
  cbn [forallb]. intros H. apply andb_true_iff in H. destruct H as [Hc Hr].
  rewrite (IH Hr), andb_true_r. apply negb_true_iff. apply N.eqb_neq.
  destruct (textc_range c Hc) as [H|H]; lia.
Qed.

(* ---------- slices of a three-part source ---------- *)
Lemma skipn_zlen_app {A} (a b : list A) : skipn (Z.to_nat (zlen a)) (a ++ b) = b.
Proof.
  unfold zlen. rewrite Nat2Z.id. rewrite skipn_app, skipn_all, Nat.sub_diag. reflexivity.
Qed.
Lemma firstn_zlen_app {A} (a b : list A) : firstn (Z.to_nat (zlen a)) (a ++ b) = a.
Proof.
  unfold zlen. rewrite Nat2Z.id. rewrite firstn_app, firstn_all, Nat.sub_diag, firstn_O, app_nil_r. reflexivity.
Qed.
Lemma slice_mid (pre v post : bytes) a b : a = zlen pre -> b = zlen pre + zlen v ->
  slice (pre ++ v ++ post) a b = Ok v.
Proof.
  intros -> ->. unfold slice.
  pose proof (zlen_nonneg pre) as Hp. pose proof (zlen_nonneg v) as Hv. pose proof (zlen_nonneg post) as Hq.
  rewrite !zlen_app.
  replace ((0 <=? zlen pre) && (zlen pre <=? zlen pre + zlen v) && (zlen pre + zlen v <=? zlen pre + (zlen v + zlen post)))%bool with true.
  2:{ symmetry. rewrite !andb_true_iff. repeat split; apply Z.leb_le; lia. }
  rewrite skipn_zlen_app. replace (zlen pre + zlen v - zlen pre) with (zlen v) by lia.
  rewrite firstn_zlen_app. reflexivity.
Qed.
Lemma at_mid (pre : bytes) c post i : i = zlen pre -> at_ (pre ++ c :: post) i = Ok c.
Proof.
  intros ->. unfold at_. pose proof (zlen_nonneg pre) as Hp. pose proof (zlen_nonneg post) as Hq.
  rewrite zlen_app, zlen_cons.
  replace ((0 <=? zlen pre) && (zlen pre <? zlen pre + (1 + zlen post)))%bool with true.
  2:{ symmetry. rewrite andb_true_iff. split; [apply Z.leb_le|apply Z.ltb_lt]; lia. }
  unfold zlen. rewrite Nat2Z.id. rewrite app_nth2 by lia. rewrite Nat.sub_diag. reflexivity.
Qed.

(* ---------- line_stop ---------- *)
Lemma line_stop_body body : forall term rest i, no_nl body -> term_ok term rest ->
  line_stop (body ++ term ++ rest) i = i + zlen body + zlen term.
Proof.
  unfold no_nl. induction body as [|c r IH]; intros term rest i Hb Ht.
  - cbn [app]. destruct Ht as [->|[-> ->]].
    + cbn [app line_stop]. change (N.eqb 10 10) with true. cbv iota. unfold zlen. cbn [length]. lia.
    + cbn [app line_stop]. unfold zlen. cbn [length]. lia.
  - cbn [forallb] in Hb. apply andb_true_iff in Hb. destruct Hb as [Hc Hr].
    cbn [app line_stop]. apply negb_true_iff in Hc. rewrite Hc.
    rewrite (IH term rest (i + 1) Hr Ht). rewrite zlen_cons. lia.
Qed.

(* ---------- reader states ---------- *)
(* at the line [a, b) of source src (number k), at offset start, no padding *)
Definition rd (src : bytes) (k a b start : Z) (pk : option bytes) (lo : Z) : reader :=
  {| r_src := src; r_line := k; r_peeked := pk;
     r_pos := {| s_start := start; s_stop := b; s_pad := 0; s_fnl := false |}; r_head := a; r_loff := lo |}.
Definition lseg (a b : Z) : seg := {| s_start := a; s_stop := b; s_pad := 0; s_fnl := false |}.
Lemma lseg_mkseg a b : lseg a b = mkseg a b.
Proof. reflexivity. Qed.

(* the source is pre ++ line ++ rest and the reader is at the head of line *)
Definition at_line (src pre line rest : bytes) (a b : Z) : Prop :=
  src = pre ++ line ++ rest /\ a = zlen pre /\ b = zlen pre + zlen line.

Lemma at_line_in_range src pre line rest a b : at_line src pre line rest a b -> line <> [] ->
  0 <= a /\ a < b /\ b <= zlen src.
Proof.
  intros (-> & -> & ->) Hne. rewrite !zlen_app.
  pose proof (zlen_nonneg pre). pose proof (zlen_nonneg rest).
  destruct line as [|c l]; [congruence|]. rewrite zlen_cons. pose proof (zlen_nonneg l). lia.
Qed.

Lemma in_range_rd src k a b st pk lo : 0 <= st < zlen src -> r_in_range (rd src k a b st pk lo) = true.
Proof.
  intros H. unfold r_in_range, r_len, rd. cbn [r_pos s_start r_src].
  apply andb_true_iff. split; [apply Z.leb_le|apply Z.ltb_lt]; lia.
Qed.

Lemma peek_fresh src pre line rest k a b lo : at_line src pre line rest a b -> line <> [] ->
  r_peek_line (rd src k a b a None lo) = Ok (rd src k a b a (Some line) lo, Some line, lseg a b).
Proof.
  intros Hat Hne. pose proof (at_line_in_range _ _ _ _ _ _ Hat Hne) as Hr.
  unfold r_peek_line. rewrite in_range_rd by lia.
  unfold rd at 1. cbn [r_peeked]. unfold rd at 1 2. cbn [r_src r_pos].
  unfold seg_value. cbn [s_start s_stop s_pad s_fnl].
  destruct Hat as (Hs & Ha & Hb). rewrite Hs at 1. rewrite (slice_mid pre line rest a b Ha Hb).
  cbn [bind]. change (0 =? 0) with true. change (0 <? 0) with false. cbn iota. reflexivity.
Qed.
Lemma peek_cached src k a b v lo : 0 <= a < zlen src ->
  r_peek_line (rd src k a b a (Some v) lo) = Ok (rd src k a b a (Some v) lo, Some v, lseg a b).
Proof. intros H. unfold r_peek_line. rewrite in_range_rd by lia. reflexivity. Qed.
Lemma peek_eof src k a b st pk lo : zlen src <= st ->
  r_peek_line (rd src k a b st pk lo) = Ok (rd src k a b st pk lo, None, lseg st b).
Proof.
  intros H. unfold r_peek_line.
  replace (r_in_range (rd src k a b st pk lo)) with false; [reflexivity|].
  symmetry. unfold r_in_range, r_len, rd. cbn [r_pos s_start r_src]. apply andb_false_iff. right. apply Z.ltb_ge. lia.
Qed.

Lemma line_offset_fresh src k a b pk : r_line_offset (rd src k a b a pk (-1)) = Ok (rd src k a b a pk 0, 0).
Proof.
  unfold r_line_offset, rd. cbn [r_loff r_head r_pos s_start s_pad].
  change (-1 <? 0) with true. cbn iota. rewrite Z.ltb_irrefl. reflexivity.
Qed.
Lemma line_offset_cached src k a b st pk : r_line_offset (rd src k a b st pk 0) = Ok (rd src k a b st pk 0, 0).
Proof. reflexivity. Qed.

Lemma advance_fast src k a b v lo n : n < zlen v ->
  r_advance (rd src k a b a (Some v) lo) n = Ok (rd src k a b (a + n) None (-1)).
Proof.
  intros H. unfold r_advance, rd, rset_loff. cbn [r_peeked r_pos s_pad r_src r_line r_head r_loff s_start s_stop s_fnl].
  replace (n <? zlen v) with true by (symmetry; apply Z.ltb_lt; exact H).
  change (0 =? 0) with true. cbn [andb]. cbv iota. reflexivity.
Qed.

(* AdvanceLine from anywhere on a line that ends at b: the next line is line' *)
Lemma advance_line_rd src pre' line' rest' k a b st pk lo body term :
  src = pre' ++ line' ++ rest' -> b = zlen pre' ->
  line' = body ++ term -> no_nl body -> term_ok term rest' ->
  r_advance_line (rd src k a b st pk lo) = rd src (k + 1) b (b + zlen line') b None (-1).
Proof.
  intros Hs Hb Hl Hnb Ht.
  pose proof (zlen_nonneg pre') as Hp. pose proof (zlen_nonneg line') as Hq. pose proof (zlen_nonneg rest') as Hr.
  assert (Hlen : zlen src = b + zlen line' + zlen rest') by (rewrite Hs, !zlen_app; lia).
  assert (Hskip : skipn (Z.to_nat b) src = body ++ term ++ rest').
  { rewrite Hs, Hb, skipn_zlen_app, Hl, <- app_assoc. reflexivity. }
  unfold r_advance_line, rd, rset_peeked, rset_loff, rset_head, rset_pos, rset_line, r_len.
  cbn [r_src r_line r_peeked r_pos r_head r_loff s_start s_stop s_pad s_fnl].
  replace (b <? 0) with false by (symmetry; apply Z.ltb_ge; lia).
  cbv iota. rewrite Hskip.
  destruct (Z.ltb_spec b (zlen src)) as [Hlt|Hge].
  - rewrite (line_stop_body body term rest' b Hnb Ht).
    rewrite Hl, zlen_app. f_equal. f_equal. lia.
  - assert (zlen line' = 0) by lia. f_equal. f_equal. lia.
Qed.

(* the first line *)
Lemma new_reader_rd src line rest body term :
  src = line ++ rest -> line = body ++ term -> no_nl body -> term_ok term rest ->
  new_reader src = rd src 0 0 (zlen line) 0 None (-1).
Proof.
  intros Hs Hl Hb Ht. unfold new_reader.
  change {| r_src := src; r_line := -1; r_peeked := None; r_pos := mkseg 0 0; r_head := 0; r_loff := -1 |}
    with (rd src (-1) 0 0 0 None (-1)).
  rewrite (advance_line_rd src [] line rest (-1) 0 0 0 None (-1) body term); [reflexivity|exact Hs|reflexivity|exact Hl|exact Hb|exact Ht].
Qed.

(* ---------- lines of the fragment ---------- *)
(* a text line: an acceptable body and its terminator *)
Lemma text_line_not_blank body term : body_okb body = true -> Reader.is_blank space_table (body ++ term) = false.
Proof.
  intros H. destruct (body_ok_head body H) as (c & r & -> & Hc).
  cbn [app Reader.is_blank]. rewrite (word_not_space c Hc). reflexivity.
Qed.
Lemma text_line_nonempty body term : body_okb body = true -> body ++ term <> [].
Proof. intros H. destruct (body_ok_head body H) as (c & r & -> & Hc). discriminate. Qed.
Lemma text_line_indent body term off : body_okb body = true -> indent_width (body ++ term) off = (0, 0).
Proof.
  intros H. destruct (body_ok_head body H) as (c & r & -> & Hc). apply wordc_range in Hc.
  unfold indent_width. cbn [app indent_width_pos].
  replace (N.eqb c 32) with false by (symmetry; apply N.eqb_neq; lia).
  replace (N.eqb c 9) with false by (symmetry; apply N.eqb_neq; lia). reflexivity.
Qed.
Lemma text_line_trim_left body term : body_okb body = true -> trim_left_space_len space_table (body ++ term) = 0.
Proof.
  intros H. destruct (body_ok_head body H) as (c & r & -> & Hc).
  cbn [app trim_left_space_len]. rewrite (word_not_space c Hc). reflexivity.
Qed.
Lemma text_line_trim_right body term : body_okb body = true -> term = [10%N] \/ term = [] ->
  trim_right_space_len space_table (body ++ term) = zlen term.
Proof.
  intros H Ht. destruct (body_ok_last body H) as (r & c & -> & Hc).
  unfold trim_right_space_len. rewrite !rev_app_distr. cbn [rev app].
  destruct Ht as [->| ->].
  - cbn [rev app trim_left_space_len]. rewrite nl_is_space, (word_not_space c Hc). reflexivity.
  - cbn [rev app trim_left_space_len]. rewrite (word_not_space c Hc). reflexivity.
Qed.

(* ---------- the first line of a suffix of the source ---------- *)
Fixpoint fline (suf : bytes) : bytes :=
  match suf with
  | [] => []
  | c :: r => if N.eqb c 10 then [c] else c :: fline r
  end.
Lemma line_stop_fline suf : forall i, line_stop suf i = i + zlen (fline suf).
Proof.
  induction suf as [|c r IH]; intros i; cbn [line_stop fline].
  - unfold zlen. cbn [length]. lia.
  - destruct (N.eqb c 10).
    + unfold zlen. cbn [length]. lia.
    + rewrite IH, zlen_cons. lia.
Qed.
Lemma fline_text body : forall term rest, no_nl body -> term_ok term rest -> fline (body ++ term ++ rest) = body ++ term.
Proof.
  unfold no_nl. induction body as [|c r IH]; intros term rest Hb Ht.
  - cbn [app]. destruct Ht as [->|[-> ->]]; reflexivity.
  - cbn [forallb] in Hb. apply andb_true_iff in Hb. destruct Hb as [Hc Hr]. apply negb_true_iff in Hc.
    cbn [app fline]. rewrite Hc. rewrite (IH term rest Hr Ht). reflexivity.
Qed.
Lemma fline_prefix suf : exists rest, suf = fline suf ++ rest.
Proof.
  induction suf as [|c r [rest IH]]; [exists []; reflexivity|].
  cbn [fline]. destruct (N.eqb c 10); [exists r; reflexivity|]. exists rest. cbn [app]. rewrite <- IH. reflexivity.
Qed.

(* the reader at the head of the first line of suf, where src = pre ++ suf *)
Definition rdA (src : bytes) (k : Z) (pre suf : bytes) : reader :=
  rd src k (zlen pre) (zlen pre + zlen (fline suf)) (zlen pre) None (-1).

Lemma advance_line_suf src pre suf k a st pk lo :
  src = pre ++ suf -> r_advance_line (rd src k a (zlen pre) st pk lo) = rdA src (k + 1) pre suf.
Proof.
  intros Hs. pose proof (zlen_nonneg pre) as Hp. pose proof (zlen_nonneg suf) as Hq.
  assert (Hlen : zlen src = zlen pre + zlen suf) by (rewrite Hs, zlen_app; lia).
  assert (Hskip : skipn (Z.to_nat (zlen pre)) src = suf) by (rewrite Hs, skipn_zlen_app; reflexivity).
  unfold rdA, r_advance_line, rd, rset_peeked, rset_loff, rset_head, rset_pos, rset_line, r_len.
  cbn [r_src r_line r_peeked r_pos r_head r_loff s_start s_stop s_pad s_fnl].
  replace (zlen pre <? 0) with false by (symmetry; apply Z.ltb_ge; lia).
  cbv iota. rewrite Hskip.
  destruct (Z.ltb_spec (zlen pre) (zlen src)) as [Hlt|Hge].
  - rewrite line_stop_fline. reflexivity.
  - assert (Hz : zlen suf = 0) by lia. assert (suf = []) as -> by (destruct suf; [reflexivity|rewrite zlen_cons in Hz; pose proof (zlen_nonneg suf); lia]).
    cbn [fline]. f_equal. f_equal. unfold zlen at 3. cbn [length]. lia.
Qed.
Lemma new_reader_suf src : new_reader src = rdA src 0 [] src.
Proof.
  unfold new_reader.
  change {| r_src := src; r_line := -1; r_peeked := None; r_pos := mkseg 0 0; r_head := 0; r_loff := -1 |}
    with (rd src (-1) 0 (zlen (@nil N)) 0 None (-1)).
  rewrite (advance_line_suf src [] src (-1) 0 0 None (-1) eq_refl). reflexivity.
Qed.
(* the line the reader rdA looks at *)
Lemma rdA_at_line src pre suf : src = pre ++ suf -> exists rest,
  at_line src pre (fline suf) rest (zlen pre) (zlen pre + zlen (fline suf)) /\ suf = fline suf ++ rest.
Proof.
  intros Hs. destruct (fline_prefix suf) as [rest Hr]. exists rest. split; [|exact Hr].
  split; [|split; reflexivity]. rewrite Hs. rewrite Hr at 1. reflexivity.
Qed.
