(* C05 for the Footnote parser model: every tree parse_treeF yields is well formed, from what the
   block phase guarantees (FootnoteWfDefs.BlkFinal, a Section hypothesis here; proved in
   proofs/FootnoteWfBlk.v) and the well-formedness of the inline children (proofs/FootnoteWfInl.v). *)
Require Import GM.model.Base GM.model.Util GM.model.Reader GM.model.ListItem GM.model.Regex GM.model.HtmlWriter GM.model.Html GM.model.HtmlSpec
               GM.model.BlockParse GM.model.InlineParse GM.model.FootnoteX
               GM.model.FootnoteParseBlock GM.model.FootnoteParseInline GM.model.FootnoteParse.
Require Import GM.proofs.ParseInv GM.proofs.ParseCompose GM.proofs.ParseBlocksRangeA GM.proofs.ParseBlocksRangeB GM.proofs.ParseBlocksRangeK
               GM.proofs.FootnoteProofs GM.proofs.FootnoteConservativeTree
               GM.proofs.FootnoteWfDefs GM.proofs.FootnoteWfFs GM.proofs.FootnoteWfSort GM.proofs.FootnoteWfHeap GM.proofs.FootnoteWfXf
               GM.proofs.FootnoteWfTree GM.proofs.FootnoteWfNum GM.proofs.FootnoteWfInl.
From Coq Require Import List ZArith Lia Bool Permutation Sorted.
Import ListNotations.
Open Scope Z_scope.

Section Wf.
Variable space_table punct_table : list N.
Variable norm : bytes -> bytes.
Variable re_t1o re_t1c re_t2 re_t3 re_t4 re_t5 re_t6 re_t7 : re.
Variable allowed_tags : list bytes.
Variable url_table email_table : list N.
Variable re_email_domain re_open_tag re_close_tag : re.
Variable punct_rune space_rune : N -> bool.
Notation PBF := (parse_blocksF space_table punct_table norm re_t1o re_t1c re_t2 re_t3 re_t4 re_t5 re_t6 re_t7 allowed_tags).
Notation ICF := (inline_childrenF space_table punct_table norm url_table email_table re_email_domain re_open_tag re_close_tag
                                  punct_rune space_rune).
Notation PTF := (parse_treeF space_table punct_table norm re_t1o re_t1c re_t2 re_t3 re_t4 re_t5 re_t6 re_t7 allowed_tags
                             url_table email_table re_email_domain re_open_tag re_close_tag punct_rune space_rune).
Hypothesis sp32 : is_space space_table 32%N = true.
Hypothesis sp10 : is_space space_table 10%N = true.
Variable src : bytes.
Hypothesis Hsrc : bytes_ok src.
Hypothesis blk_final : forall x, PBF src = Ok x -> BlkFinal space_table src x.

Definition twf (t : tree) : Prop := wf_node src false false t = true /\ all_kinds iq t = true.

(* the lines of an attached inline-bearing block are what the inline phase wants *)
Lemma block_lines_ok h i n : heapS space_table src h -> Jinv src h [] -> nth_error h i = Some n ->
  block_has_inlines n = true -> (i = 0%nat \/ bpar n <> None) -> lines_ok src (blines n).
Proof.
  intros HS1 HJ En Hb Hi.
  assert (Hfl : fin_lines src (blines n)).
  { unfold block_has_inlines in Hb. destruct (bk n) eqn:K; try discriminate.
    - (* paragraph *) destruct Hi as [->|Hp].
      + destruct (hs_root _ _ _ HS1) as [n0 [E0 [K0 _]]]. congruence.
      + destruct (HJ i n En Hp) as [Hf|[]]. apply Hf. left. exact K.
    - (* text block *) apply (np_text _ _ _ (hs_node _ _ _ HS1 i n En) K).
    - (* heading *) destruct Hi as [->|Hp].
      + destruct (hs_root _ _ _ HS1) as [n0 [E0 [K0 _]]]. congruence.
      + destruct (HJ i n En Hp) as [Hf|[]]. apply Hf. right. exact K. }
  pose proof (K_fin_lines space_table [] (fun x => x) RNone RNone RNone RNone RNone RNone RNone RNone [] src sp32 Hsrc _ Hfl) as H.
  apply andb_true_iff in H. exact H.
Qed.

Lemma walk_wf refs h fs0 fuel r : heapS space_table src h -> Jinv src h [] -> refs_ok refs ->
  walk_blocks (fun fs lines => ICF refs fs src lines) fuel h 0%nat fs0 [] = Ok r ->
  Forall (fun e => Forall twf (snd e)) (snd r).
Proof.
  intros HS1 HJ Hrefs H.
  apply (walk_blocks_inv space_table src (fun fs lines => ICF refs fs src lines) h
           (fun _ acc => Forall (fun e => Forall twf (snd e)) acc) HS1) with (fuel := fuel) (i := 0%nat) (fs := fs0) (acc := []).
  - intros fs acc i n y HI En Hb Hi Hy. destruct y as [ts fs']. cbn [fst snd].
    pose proof (block_lines_ok h i n HS1 HJ En Hb Hi) as Hl.
    pose proof (inline_childrenF_ok_sp _ _ _ _ _ _ _ _ _ _ _ _ _ _ _ _ sp32 sp10 Hsrc Hrefs Hl Hy) as Hwf.
    pose proof (inline_childrenF_kinds_sp _ _ _ _ _ _ _ _ _ _ _ _ _ _ _ _ sp32 sp10 Hsrc Hrefs Hl Hy) as Hk.
    apply Forall_app. split; [exact HI|]. constructor; [|constructor]. cbn [snd].
    apply Forall_forall. intros t Ht. rewrite Forall_forall in Hwf, Hk. split; [apply Hwf; exact Ht|apply Hk; exact Ht].
  - left. reflexivity.
  - constructor.
  - exact H.
Qed.

Theorem parse_treeF_wf t : PTF src = Ok t -> wf_tree src t = true.
Proof.
  intros H. unfold parse_treeF in H. fw_bind H x Hx. cbv zeta in H.
  destruct (blk_final x Hx) as (HS1 & HJ & Hrefs & Hnodes & Hlist).
  set (h := s_h (bf_s x)) in *.
  fw_bind H defs0 Hdefs. fw_bind H w Hw. destruct w as [fs kids]. fw_bind H p Hp.
  pose proof (walk_wf _ _ _ _ _ HS1 HJ Hrefs Hw) as W. cbn [snd] in W.
  assert (HSh : HS space_table src h) by (split; assumption).
  destruct (hs_root _ _ _ HS1) as [r0 [Er0 [Kr0 Pr0]]].
  unfold wf_tree. unfold bytes_ok in Hsrc. rewrite Hsrc. cbn [andb].
  assert (Hleaf : forall k, is_backlink k = true -> wf_node src false false (leaf k) = true).
  { intros k Hk. destruct k; try discriminate. reflexivity. }
  destruct (initial_defs_spec _ _ _ _ Hnodes Hlist Hdefs) as [[Elst ->]|(l & ds & Elst & -> & Hidx)].
  - rewrite Elst in *. apply ast_transform_none in Hp. subst p.
    apply (to_treeF_wf space_table src {| fp_h := h; fp_inl := kids; fp_back := [] |} sp32 Hsrc HSh) with (fuel := S (length h)) (i := 0%nat).
    + intros i k E. cbn in E. discriminate.
    + cbn [fp_inl]. intros i ts t0 Hin Ht0. rewrite Forall_forall in W. specialize (W _ Hin). cbn [snd] in W.
      rewrite Forall_forall in W. apply (W t0 Ht0).
    + right. left. reflexivity.
    + exact H.
  - rewrite Elst in *.
    destruct (Hlist l eq_refl) as (ln & El & Hfl & _ & _).
    destruct (is_fnlist_inv _ Hfl) as [Kl Il].
    assert (Hl0 : l <> 0%nat) by (intros ->; congruence).
    destruct (fs_defs fs) as [defs|] eqn:Edefs.
    2:{ unfold ast_transform in Hp. rewrite Edefs in Hp. discriminate. }
    assert (Hflh : forall ln0, nth_error h l = Some ln0 -> is_fnlist_node ln0 = true) by (intros ln0 E; congruence).
    pose proof (ast_transform_some space_table src h l fs defs kids p HSh Edefs Hl0 Hflh Hp) as XP.
    destruct XP as [X1 X2 X3 X4 X5 X6 _].
    apply (to_treeF_wf space_table src p sp32 Hsrc X1) with (fuel := S (length (fp_h p))) (i := 0%nat).
    + intros i k E. apply (X4 i k E).
    + intros i ts t0 Hin Ht0. destruct (X6 i ts t0 Hin Ht0) as [(j & ts0 & Hj & Hj2)|(k & Hk & ->)]; [|apply Hleaf; exact Hk].
      apply in_map_iff in Hj. destruct Hj as [[j' ts1] [E Hj]]. cbn [fst snd] in E. injection E as <- <-.
      apply in_map_iff in Hj2. destruct Hj2 as [t1 [<- Ht1]].
      rewrite Forall_forall in W. specialize (W _ Hj). cbn [snd] in W. rewrite Forall_forall in W. destruct (W t1 Ht1) as [W1 W2].
      apply renumber_wf; assumption.
    + right. left. reflexivity.
    + exact H.
Qed.

End Wf.
