(* C11 for the model with the DefinitionList extension, block phase (helper file 3): the Continue
   functions of the default block parsers are steps of the state (sR). *)
Require Import GM.model.Base GM.model.Util GM.model.Reader GM.model.Blocks GM.model.ListItem
               GM.model.LeafBlocks GM.model.CodeBlock GM.model.LinkDest GM.model.Regex
               GM.model.BlockParse GM.model.TypoDefParseD.
Require Import GM.proofs.GfmConservativeDefs GM.proofs.ParseBlocksTotalDefs GM.proofs.TypoDefConservativeBlkInv.
Require Import GM.proofs.TypoDefConservativeBlkA.
From Coq Require Import List ZArith NArith Bool Lia.
Import ListNotations.
Open Scope Z_scope.

Ltac srfin :=
  prjall;
  repeat first
    [ apply sR_refl
    | apply sR_st_r
    | apply sR_st_c; [|reflexivity|reflexivity]
    | eapply sR_st_h; [|eapply hRk_hupd_simple; [eassumption|intros ?; cbn; auto]] ].

Section Cont.
Variable space_table : list N.
Variable re_t1c : re.

Lemma paragraph_continue_sR k s node s' b : paragraph_continue space_table s node = Ok (s', b) -> sR k s s'.
Proof.
  unfold paragraph_continue. intros H. peek H.
  destruct (Reader.is_blank _ _); [injection H as <- <-; srfin|].
  gc_bind H h Eh. adv H. injection H as <- <-. srfin.
Qed.

Lemma fenced_continue_sR k s node s' b : fenced_continue space_table s node = Ok (s', b) -> sR k s s'.
Proof.
  unfold fenced_continue. intros H.
  destruct (c_fence (s_c s)) as [[[[ch indent] flen] nd]|]; [|discriminate].
  peek H. gc_bind H y Ey. destruct y as [[closed ln] r].
  destruct closed; [injection H as <- <-; srfin|].
  destruct ln as [[start padding]|]; [|discriminate].
  gc_bind H h Eh. injection H as <- <-. srfin.
Qed.

Lemma code_continue_sR k s node s' b : code_continue space_table s node = Ok (s', b) -> sR k s s'.
Proof.
  unfold code_continue. intros H. gc_bind H x Ex.
  destruct x as [[sg r]|]; [|injection H as <- <-; srfin].
  gc_bind H h Eh. injection H as <- <-. srfin.
Qed.

Lemma bq_continue_sR k s s' b : bq_continue s = Ok (s', b) -> sR k s s'.
Proof.
  unfold bq_continue. intros H. gc_bind H x Ex. destruct x as [r ok]. injection H as <- <-. srfin.
Qed.

Lemma html_continue_sR k s node s' b : html_continue space_table re_t1c s node = Ok (s', b) -> sR k s s'.
Proof.
  unfold html_continue. intros H. gc_bind H n En. peek H.
  destruct ((1 <=? b_i1 n) && (b_i1 n <=? 5)).
  - gc_bind H fc Efc. destruct fc; [injection H as <- <-; srfin|].
    match type of H with (if ?c then _ else _) = _ => destruct c end.
    + gc_bind H h Eh. adv H. injection H as <- <-. srfin.
    + gc_bind H h Eh. adv H. injection H as <- <-. srfin.
  - destruct (Reader.is_blank _ _); [injection H as <- <-; srfin|].
    gc_bind H h Eh. adv H. injection H as <- <-. srfin.
Qed.

Lemma list_continue_sR k s node s' b : list_continue space_table s node = Ok (s', b) -> sR k s s'.
Proof.
  unfold list_continue. intros H. gc_bind H n En. peek H. gc_bind H lastc Elc. gc_bind H lcc Elcc.
  destruct (Reader.is_blank _ _).
  { injection H as <- <-. destruct (lcc =? 0); srfin. }
  gc_bind H offset Eoff. loff H.
  destruct (_ || _).
  - destruct (matches_list_item _ _) as [m typ].
    destruct (_ && _ && _).
    + gc_bind H mk Emk. destruct (negb _); [injection H as <- <-; srfin|].
      destruct (is_thematic_break _ _ _); [|injection H as <- <-; srfin].
      gc_bind H lp Elp. gc_bind H bar Ebar. destruct (negb _); injection H as <- <-; srfin.
    + repeat match type of H with (if ?c then _ else _) = _ => destruct c end; injection H as <- <-; srfin.
  - repeat match type of H with (if ?c then _ else _) = _ => destruct c end; injection H as <- <-; srfin.
Qed.

Lemma list_item_continue_sR k s node s' b : list_item_continue space_table s node = Ok (s', b) -> sR k s s'.
Proof.
  unfold list_item_continue. intros H. gc_bind H n En.
  gc_bind H pk Epk. destruct pk as [[s1 line] sg]. apply peek_line_s_inv in Epk. destruct Epk as [r1 ->].
  destruct (Reader.is_blank _ _); [adv H; injection H as <- <-; srfin|].
  gc_bind H p Ep. gc_bind H offset Eoff.
  gc_bind H lo Elo. destruct lo as [s2' off]. apply line_offset_s_inv in Elo. destruct Elo as [r2' ->].
  assert (Hgo : forall s2 r, (let '(pos, padding) := indent_position (line_of line) off offset in
                   r <- r_advance_and_set_padding (s_r s2) pos padding ;; Ok (st_r s2 r, true)) = Ok r -> exists r2, fst r = st_r s2 r2).
  { intros s2 r0 Hr. destruct (indent_position _ _ _) as [pos padding]. gc_bind Hr r2 Er2. injection Hr as <-. cbn [fst]. eauto. }
  destruct (_ && _).
  - destruct (matches_list_item _ _) as [m typ].
    destruct (negb (N.eqb typ 0)); [injection H as <- <-; srfin|].
    destruct (negb _); [injection H as <- <-; srfin|].
    apply Hgo in H. destruct H as [r2 Hr]. cbn [fst] in Hr. subst s'. srfin.
  - apply Hgo in H. destruct H as [r2 Hr]. cbn [fst] in Hr. subst s'. srfin.
Qed.

Lemma p_continue_sR k bp s node s' c b : p_continue space_table re_t1c bp s node = Ok (s', c, b) -> sR k s s'.
Proof.
  destruct bp; cbn [p_continue]; intros H;
    try (injection H as <- _ _; apply sR_refl);
    gc_bind H x Ex; destruct x as [s2 c2]; injection H as <- _ _; cbn [fst].
  - eapply list_continue_sR, Ex.
  - eapply list_item_continue_sR, Ex.
  - eapply code_continue_sR, Ex.
  - eapply fenced_continue_sR, Ex.
  - eapply bq_continue_sR, Ex.
  - eapply html_continue_sR, Ex.
  - eapply paragraph_continue_sR, Ex.
Qed.
End Cont.
