(* C16: footnote numbering and cross-links are consistent.

   Status: all statements below are proved as originally written (no statement was changed,
   none was found false). *)
Require Import GM.model.Base GM.model.Util GM.model.Ids GM.model.Html GM.model.FootnoteX.
Require Import GM.proofs.IdsProofs.
From Coq Require Import ZArith Lia Sorted Permutation ZifyBool ZifyNat ZifyN.
Open Scope Z_scope.

Notation pr := (fun l : flink => (l_index l, l_refindex l)).

(* ---------- generic list facts ---------- *)
Lemma NoDup_app_disj {A} (l1 l2 : list A) :
  NoDup l1 -> NoDup l2 -> (forall x, In x l1 -> ~ In x l2) -> NoDup (l1 ++ l2).
Proof.
  induction l1 as [|a l1 IH]; intros H1 H2 Hd; cbn [app]; [exact H2|].
  inversion H1 as [|a' l1' Ha Hl1]; subst.
  constructor.
  - intros Hin. apply in_app_or in Hin. destruct Hin as [Hin|Hin]; [contradiction|].
    apply (Hd a); [now left|exact Hin].
  - apply IH; [exact Hl1|exact H2|]. intros x Hx. apply Hd. now right.
Qed.

Lemma NoDup_map_In_inj {A B} (f : A -> B) (l : list A) x y :
  NoDup (map f l) -> In x l -> In y l -> f x = f y -> x = y.
Proof.
  induction l as [|a l IH]; intros Hnd Hx Hy Hf; [contradiction|].
  cbn [map] in Hnd. inversion Hnd as [|b l' Hnotin Hnd']; subst.
  destruct Hx as [->|Hx], Hy as [->|Hy].
  - reflexivity.
  - exfalso. apply Hnotin. rewrite Hf. now apply in_map.
  - exfalso. apply Hnotin. rewrite <- Hf. now apply in_map.
  - now apply IH.
Qed.

Lemma sorted_le_lt l : StronglySorted Z.le l -> NoDup l -> StronglySorted Z.lt l.
Proof.
  induction l as [|a l IH]; intros Hs Hnd; [constructor|].
  apply StronglySorted_inv in Hs. destruct Hs as [Hs Hall].
  inversion Hnd as [|a' l' Ha Hnd']; subst.
  constructor; [now apply IH|].
  rewrite Forall_forall in *. intros x Hx.
  specialize (Hall x Hx). assert (x <> a) by (intros ->; contradiction). lia.
Qed.

Lemma sorted_lt_ext l1 : forall l2, StronglySorted Z.lt l1 -> StronglySorted Z.lt l2 ->
  (forall x, In x l1 <-> In x l2) -> l1 = l2.
Proof.
  induction l1 as [|a l1 IH]; intros [|b l2] H1 H2 Hx.
  - reflexivity.
  - exfalso. apply (Hx b). now left.
  - exfalso. apply (Hx a). now left.
  - apply StronglySorted_inv in H1. destruct H1 as [H1 Ha].
    apply StronglySorted_inv in H2. destruct H2 as [H2 Hb].
    rewrite Forall_forall in Ha, Hb.
    assert (a = b) as ->.
    { destruct (proj1 (Hx a) (or_introl eq_refl)) as [Hab|Hab]; [now symmetry|].
      destruct (proj2 (Hx b) (or_introl eq_refl)) as [Hba|Hba]; [exact Hba|].
      specialize (Ha b Hba). specialize (Hb a Hab). lia. }
    f_equal. apply IH; [exact H1|exact H2|].
    intros x. split; intros Hin.
    + destruct (proj1 (Hx x) (or_intror Hin)) as [Hxb|Hxb]; [|exact Hxb].
      specialize (Ha x Hin). lia.
    + destruct (proj2 (Hx x) (or_intror Hin)) as [Hxb|Hxb]; [|exact Hxb].
      specialize (Hb x Hin). lia.
Qed.

Lemma in_zseq a n i : In i (map Z.of_nat (seq a n)) <-> Z.of_nat a <= i < Z.of_nat a + Z.of_nat n.
Proof.
  rewrite in_map_iff. split.
  - intros [k [<- Hk]]. apply in_seq in Hk. lia.
  - intros Hi. exists (Z.to_nat i). split; [lia|]. apply in_seq. lia.
Qed.

Lemma zseq_sorted n : forall a, StronglySorted Z.lt (map Z.of_nat (seq a n)).
Proof.
  induction n as [|n IH]; intros a; cbn [seq map]; [constructor|].
  constructor; [apply IH|].
  apply Forall_forall. intros x Hx. apply in_zseq in Hx. lia.
Qed.

Lemma zseq_NoDup a n : NoDup (map Z.of_nat (seq a n)).
Proof.
  apply NoDup_map_inj; [|apply seq_NoDup]. intros x y Hxy. lia.
Qed.

(* ---------- assign / assign_all ---------- *)
Definition idxs (defs : list fdef) : list Z := map d_index (filter (fun d => 0 <=? d_index d) defs).

Lemma idxs_cons d defs :
  idxs (d :: defs) = if 0 <=? d_index d then d_index d :: idxs defs else idxs defs.
Proof. unfold idxs. cbn [filter]. destruct (0 <=? d_index d); reflexivity. Qed.

Lemma assign_spec defs : forall count label defs' c' r, 0 <= count ->
  assign defs count label = (defs', c', r) ->
  (defs' = defs /\ c' = count /\ (r = None \/ exists i, r = Some i /\ In i (idxs defs))) \/
  (c' = count + 1 /\ r = Some (count + 1) /\ Permutation (idxs defs') ((count + 1) :: idxs defs)).
Proof.
  induction defs as [|d rest IH]; intros count label defs' c' r Hc H; cbn [assign] in H.
  - injection H as <- <- <-. left. auto.
  - destruct (bytes_eqb (d_ref d) label).
    + destruct (Z.ltb_spec (d_index d) 0) as [Hneg|Hpos].
      * injection H as <- <- <-. right. split; [reflexivity|]. split; [reflexivity|].
        rewrite !idxs_cons. cbn [d_index].
        destruct (Z.leb_spec 0 (count + 1)) as [_|Hbad]; [|lia].
        destruct (Z.leb_spec 0 (d_index d)) as [Hbad|_]; [lia|]. apply Permutation_refl.
      * injection H as <- <- <-. left. split; [reflexivity|]. split; [reflexivity|].
        right. exists (d_index d). split; [reflexivity|]. rewrite idxs_cons.
        destruct (Z.leb_spec 0 (d_index d)) as [_|Hbad]; [|lia]. now left.
    + destruct (assign rest count label) as [[rest' c] r0] eqn:E. injection H as <- <- <-.
      destruct (IH _ _ _ _ _ Hc E) as [[-> [-> Hr]]|[-> [-> Hp]]].
      * left. split; [reflexivity|]. split; [reflexivity|].
        destruct Hr as [Hr|[i [Hr Hi]]]; [now left|]. right. exists i. split; [exact Hr|].
        rewrite idxs_cons. destruct (0 <=? d_index d); [now right|exact Hi].
      * right. split; [reflexivity|]. split; [reflexivity|]. rewrite !idxs_cons.
        destruct (0 <=? d_index d).
        -- eapply perm_trans; [apply perm_skip; exact Hp|]. apply perm_swap.
        -- exact Hp.
Qed.

Definition Inv (defs : list fdef) (count : Z) : Prop :=
  0 <= count /\ NoDup (idxs defs) /\ forall i, In i (idxs defs) <-> 1 <= i <= count.

Lemma assign_all_spec labels : forall defs count defs' c' rs, Inv defs count ->
  assign_all defs count labels = (defs', c', rs) ->
  Inv defs' c' /\ count <= c' /\ (forall i, In i rs -> 1 <= i <= c') /\
  (forall i, count < i <= c' -> In i rs).
Proof.
  induction labels as [|l rest IH]; intros defs count defs' c' rs HI H; cbn [assign_all] in H.
  - injection H as <- <- <-. split; [exact HI|]. split; [lia|].
    split; [intros i []|intros i Hi; lia].
  - destruct (assign defs count l) as [[defs1 c1] r] eqn:E1.
    destruct (assign_all defs1 c1 rest) as [[defs2 c2] rs2] eqn:E2.
    injection H as <- <- <-.
    destruct HI as [Hc [Hnd Hin]].
    destruct (assign_spec _ _ _ _ _ _ Hc E1) as [[-> [-> Hr]]|[-> [-> Hp]]].
    + destruct (IH _ _ _ _ _ (conj Hc (conj Hnd Hin)) E2) as [HI2 [Hle [Hr1 Hr2]]].
      split; [exact HI2|]. split; [exact Hle|].
      destruct Hr as [->|[i [-> Hi]]].
      * split; assumption.
      * split.
        -- intros j [<-|Hj]; [apply Hin in Hi; lia|now apply Hr1].
        -- intros j Hj. right. now apply Hr2.
    + assert (HI1 : Inv defs1 (count + 1)).
      { split; [lia|]. split.
        - apply (Permutation_NoDup (Permutation_sym Hp)). constructor; [|exact Hnd].
          intros Hx. apply Hin in Hx. lia.
        - intros i. split.
          + intros Hi. apply (Permutation_in _ Hp) in Hi. destruct Hi as [<-|Hi]; [lia|].
            apply Hin in Hi. lia.
          + intros Hi. apply (Permutation_in _ (Permutation_sym Hp)).
            destruct (Z.eq_dec i (count + 1)) as [->|Hne]; [now left|]. right. apply Hin. lia. }
      destruct (IH _ _ _ _ _ HI1 E2) as [HI2 [Hle [Hr1 Hr2]]].
      split; [exact HI2|]. split; [lia|]. split.
      * intros j [<-|Hj]; [lia|now apply Hr1].
      * intros j Hj. destruct (Z.eq_dec j (count + 1)) as [->|Hne]; [now left|].
        right. apply Hr2. lia.
Qed.

Lemma idxs_init labels : idxs (map (fun l => {| d_ref := l; d_index := -1 |}) labels) = [].
Proof.
  induction labels as [|l ls IH]; [reflexivity|]. cbn [map]. rewrite idxs_cons. cbn [d_index].
  destruct (Z.leb_spec 0 (-1)) as [Hbad|_]; [lia|exact IH].
Qed.

(* ---------- insertion sort of the items ---------- *)
Lemma insert_item_perm x l : Permutation (insert_item x l) (x :: l).
Proof.
  induction l as [|y l IH]; cbn [insert_item]; [apply Permutation_refl|].
  destruct (i_index y <? i_index x); [|apply Permutation_refl].
  eapply perm_trans; [apply perm_skip, IH|apply perm_swap].
Qed.

Lemma insert_item_sorted x l : StronglySorted Z.le (map i_index l) ->
  StronglySorted Z.le (map i_index (insert_item x l)).
Proof.
  induction l as [|y l IH]; intros Hs; cbn [insert_item].
  - cbn [map]. constructor; constructor.
  - cbn [map] in Hs. apply StronglySorted_inv in Hs. destruct Hs as [Hs Hall].
    destruct (Z.ltb_spec (i_index y) (i_index x)) as [Hlt|Hge].
    + cbn [map]. constructor; [now apply IH|].
      apply Forall_forall. intros z Hz.
      apply (Permutation_in _ (Permutation_map i_index (insert_item_perm x l))) in Hz.
      cbn [map] in Hz. destruct Hz as [<-|Hz]; [lia|]. rewrite Forall_forall in Hall. now apply Hall.
    + cbn [map]. constructor; [constructor; assumption|]. constructor; [lia|].
      eapply Forall_impl; [|exact Hall]. intros a Ha. cbn beta in Ha. lia.
Qed.

Lemma fold_insert xs : forall acc, StronglySorted Z.le (map i_index acc) ->
  StronglySorted Z.le (map i_index (fold_left (fun a x => insert_item x a) xs acc)) /\
  Permutation (fold_left (fun a x => insert_item x a) xs acc) (xs ++ acc).
Proof.
  induction xs as [|x xs IH]; intros acc Hs; cbn [fold_left].
  - split; [exact Hs|apply Permutation_refl].
  - destruct (IH (insert_item x acc) (insert_item_sorted _ _ Hs)) as [H1 H2]. split; [exact H1|].
    eapply perm_trans; [exact H2|].
    eapply perm_trans; [apply Permutation_app_head, insert_item_perm|].
    cbn [app]. apply Permutation_sym, Permutation_middle.
Qed.

Lemma transform_spec defs count links : Inv defs count ->
  map i_index (transform_footnotes defs links) = map Z.of_nat (seq 1 (Z.to_nat count)) /\
  forall it, In it (transform_footnotes defs links) -> i_backlinks it = backlinks_for links (i_index it).
Proof.
  intros [Hc [Hnd Hin]]. unfold transform_footnotes.
  set (mk := fun d => {| i_index := d_index d; i_backlinks := backlinks_for links (d_index d) |}).
  set (fl := filter (fun d => 0 <=? d_index d) defs).
  destruct (fold_insert (map mk fl) [] (SSorted_nil _)) as [Hs Hp].
  rewrite app_nil_r in Hp.
  assert (Hidx : map i_index (map mk fl) = idxs defs) by (rewrite map_map; reflexivity).
  pose proof (Permutation_map i_index Hp) as Hpi. rewrite Hidx in Hpi.
  split.
  - apply sorted_lt_ext.
    + apply sorted_le_lt; [exact Hs|]. apply (Permutation_NoDup (Permutation_sym Hpi) Hnd).
    + apply zseq_sorted.
    + intros x. rewrite in_zseq. split; intros Hx.
      * apply (Permutation_in _ Hpi) in Hx. apply Hin in Hx. lia.
      * apply (Permutation_in _ (Permutation_sym Hpi)). apply Hin. lia.
  - intros it Hit. apply (Permutation_in _ Hp) in Hit. apply in_map_iff in Hit.
    destruct Hit as [d [<- _]]. reflexivity.
Qed.

(* ---------- the whole pipeline ---------- *)
Lemma footnotes_spec defs refs links items : footnotes defs refs = (links, items) ->
  exists rs count, 0 <= count /\
    links = number_links rs [] rs /\
    (forall i, In i rs <-> 1 <= i <= count) /\
    map i_index items = map Z.of_nat (seq 1 (Z.to_nat count)) /\
    (forall it, In it items -> i_backlinks it = backlinks_for rs (i_index it)).
Proof.
  unfold footnotes. intros H.
  destruct (assign_all (map (fun l => {| d_ref := l; d_index := -1 |}) defs) 0 refs)
    as [[defs' count] rs] eqn:E.
  injection H as <- <-.
  assert (HI0 : Inv (map (fun l => {| d_ref := l; d_index := -1 |}) defs) 0).
  { unfold Inv. rewrite idxs_init. split; [lia|]. split; [constructor|].
    intros i. split; [intros []|lia]. }
  destruct (assign_all_spec _ _ _ _ _ _ HI0 E) as [HI [Hle [Hr1 Hr2]]].
  exists rs, count. split; [exact Hle|]. split; [reflexivity|].
  split; [intros i; split; [apply Hr1|intros Hi; apply Hr2; lia]|].
  destruct (Z.leb_spec count 0) as [Hz|Hpos].
  - assert (count = 0) as -> by lia. split; [reflexivity|intros it []].
  - apply transform_spec. exact HI.
Qed.

(* ---------- number_links ---------- *)
Lemma count_index_cons j l i : count_index (j :: l) i = (if i =? j then 1 else 0) + count_index l i.
Proof. unfold count_index. cbn [filter]. destruct (i =? j); cbn [length]; lia. Qed.

Lemma count_index_nonneg l i : 0 <= count_index l i.
Proof. unfold count_index. lia. Qed.

Lemma count_index_pos l i : 0 < count_index l i <-> In i l.
Proof.
  induction l as [|j l IH].
  - unfold count_index. cbn. split; [lia|intros []].
  - rewrite count_index_cons. pose proof (count_index_nonneg l i) as Hnn. cbn [In].
    destruct (Z.eqb_spec i j) as [->|Hne].
    + split; [now left|lia].
    + rewrite <- IH. split; [intros Hp; right; lia|intros [Heq|Hp]; [congruence|lia]].
Qed.

Lemma number_links_index all rs : forall seen, map l_index (number_links all seen rs) = rs.
Proof.
  induction rs as [|j rest IH]; intros seen; cbn [number_links map]; [reflexivity|].
  cbn [l_index]. now rewrite IH.
Qed.

Lemma number_links_pairs all rs : forall seen i k,
  In (i, k) (map pr (number_links all seen rs)) <->
  count_index seen i <= k < count_index seen i + count_index rs i.
Proof.
  induction rs as [|j rest IH]; intros seen i k; cbn [number_links map].
  - change (count_index [] i) with 0. split; [intros []|lia].
  - cbn [In]. rewrite IH. rewrite !count_index_cons. cbn [l_index l_refindex].
    pose proof (count_index_nonneg rest i) as Hnn.
    split.
    + intros [Heq|H].
      * injection Heq as <- <-. rewrite Z.eqb_refl. lia.
      * destruct (i =? j); lia.
    + intros H. destruct (Z.eqb_spec i j) as [->|Hne].
      * destruct (Z.eq_dec k (count_index seen j)) as [->|Hk]; [left; reflexivity|right; lia].
      * right. lia.
Qed.

Lemma number_links_nodup all rs : forall seen, NoDup (map pr (number_links all seen rs)).
Proof.
  induction rs as [|j rest IH]; intros seen; cbn [number_links map]; constructor; [|apply IH].
  cbn [l_index l_refindex]. intros Hin. apply number_links_pairs in Hin.
  rewrite count_index_cons, Z.eqb_refl in Hin. lia.
Qed.

(* ---------- back-links ---------- *)
Lemma backlinks_pairs all j i k : 0 < count_index all j ->
  In (i, k) (map pr (backlinks_for all j)) <-> i = j /\ 0 <= k < count_index all j.
Proof.
  intros Hpos. unfold backlinks_for. rewrite map_map. cbn [l_index l_refindex].
  rewrite in_map_iff. split.
  - intros [n [Heq Hn]]. injection Heq as <- <-. apply in_seq in Hn. lia.
  - intros [-> Hk]. exists (Z.to_nat k). split; [f_equal; lia|]. apply in_seq. lia.
Qed.

Lemma backlinks_nodup all j : NoDup (map pr (backlinks_for all j)).
Proof.
  unfold backlinks_for. rewrite map_map. cbn [l_index l_refindex].
  apply NoDup_map_inj; [|apply seq_NoDup]. intros x y Hxy. injection Hxy as Hxy. lia.
Qed.

Lemma backlinks_fst all j p : In p (map pr (backlinks_for all j)) -> fst p = j.
Proof.
  unfold backlinks_for. rewrite map_map. cbn [l_index l_refindex].
  rewrite in_map_iff. intros [n [<- _]]. reflexivity.
Qed.

Lemma in_pairs_flat items p : In p (map pr (flat_map i_backlinks items)) <->
  exists it, In it items /\ In p (map pr (i_backlinks it)).
Proof.
  split.
  - intros H. apply in_map_iff in H. destruct H as [l [Hl Hin]].
    apply in_flat_map in Hin. destruct Hin as [it [Hit Hl2]].
    exists it. split; [exact Hit|]. apply in_map_iff. exists l. auto.
  - intros [it [Hit H]]. apply in_map_iff in H. destruct H as [l [Hl Hin]].
    apply in_map_iff. exists l. split; [exact Hl|]. apply in_flat_map. exists it. auto.
Qed.

Lemma nodup_flat items : NoDup (map i_index items) ->
  (forall it, In it items -> NoDup (map pr (i_backlinks it)) /\
                             forall p, In p (map pr (i_backlinks it)) -> fst p = i_index it) ->
  NoDup (map pr (flat_map i_backlinks items)).
Proof.
  induction items as [|a items IH]; intros Hnd Hall; cbn [flat_map]; [constructor|].
  cbn [map] in Hnd. inversion Hnd as [|b l' Ha Hnd']; subst.
  rewrite map_app. apply NoDup_app_disj.
  - apply Hall. now left.
  - apply IH; [exact Hnd'|]. intros it Hit. apply Hall. now right.
  - intros p Hp Hq. apply in_pairs_flat in Hq. destruct Hq as [it [Hit Hq]].
    apply Ha. apply in_map_iff. exists it. split; [|exact Hit].
    destruct (Hall a (or_introl eq_refl)) as [_ Hfa].
    destruct (Hall it (or_intror Hit)) as [_ Hfi].
    rewrite <- (Hfa p Hp). symmetry. now apply Hfi.
Qed.

(* ---------- the theorems ---------- *)

(* the items are numbered consecutively from 1 in the order they are listed *)
Theorem numbering_consecutive defs refs links items : footnotes defs refs = (links, items) ->
  map i_index items = map Z.of_nat (seq 1 (length items)).
Proof.
  intros H. destruct (footnotes_spec _ _ _ _ H) as [rs [count [Hc [_ [_ [Hidx _]]]]]].
  assert (Hlen : length items = Z.to_nat count).
  { rewrite <- (map_length i_index items), Hidx, map_length, seq_length. reflexivity. }
  rewrite Hlen. exact Hidx.
Qed.

(* every reference shows the number of, and links to, exactly one rendered item *)
Theorem ref_targets_exist defs refs links items l : footnotes defs refs = (links, items) -> In l links ->
  exists it, In it items /\ i_index it = l_index l /\
             forall it', In it' items -> i_index it' = l_index l -> it' = it.
Proof.
  intros H Hl. destruct (footnotes_spec _ _ _ _ H) as [rs [count [Hc [-> [Hrs [Hidx _]]]]]].
  assert (Hin : In (l_index l) rs).
  { rewrite <- (number_links_index rs rs []). now apply in_map. }
  apply Hrs in Hin.
  assert (Hit : In (l_index l) (map i_index items)) by (rewrite Hidx; apply in_zseq; lia).
  apply in_map_iff in Hit. destruct Hit as [it [Hi Hit]].
  exists it. split; [exact Hit|]. split; [exact Hi|].
  intros it' Hit' Hi'. apply (NoDup_map_In_inj i_index items); [|exact Hit'|exact Hit|congruence].
  rewrite Hidx. apply zseq_NoDup.
Qed.

(* references and back-links correspond one to one: the (index, RefIndex) pairs of the
   references are pairwise distinct, and they are exactly the pairs of the back-links of the
   rendered items *)
Theorem links_distinct defs refs links items : footnotes defs refs = (links, items) ->
  NoDup (map (fun l => (l_index l, l_refindex l)) links).
Proof.
  intros H. destruct (footnotes_spec _ _ _ _ H) as [rs [count [_ [-> _]]]].
  apply number_links_nodup.
Qed.

Theorem backlinks_bijective defs refs links items : footnotes defs refs = (links, items) ->
  forall i k, In (i, k) (map (fun l => (l_index l, l_refindex l)) links) <->
              In (i, k) (map (fun l => (l_index l, l_refindex l)) (flat_map i_backlinks items)).
Proof.
  intros H i k. destruct (footnotes_spec _ _ _ _ H) as [rs [count [Hc [-> [Hrs [Hidx Hbl]]]]]].
  rewrite number_links_pairs. change (count_index [] i) with 0.
  rewrite in_pairs_flat. split.
  - intros Hk. assert (Hpos : 0 < count_index rs i) by lia.
    assert (Hi : In i (map i_index items)).
    { rewrite Hidx. apply in_zseq. apply count_index_pos in Hpos. apply Hrs in Hpos. lia. }
    apply in_map_iff in Hi. destruct Hi as [it [Hi Hit]].
    exists it. split; [exact Hit|]. rewrite (Hbl it Hit), Hi.
    apply backlinks_pairs; [exact Hpos|]. split; [reflexivity|lia].
  - intros [it [Hit Hp]]. rewrite (Hbl it Hit) in Hp.
    assert (Hi : In (i_index it) (map i_index items)) by now apply in_map.
    rewrite Hidx in Hi. apply in_zseq in Hi.
    assert (Hpos : 0 < count_index rs (i_index it)) by (apply count_index_pos, Hrs; lia).
    apply (backlinks_pairs _ _ _ _ Hpos) in Hp. destruct Hp as [-> Hk]. lia.
Qed.

Theorem backlinks_distinct defs refs links items : footnotes defs refs = (links, items) ->
  NoDup (map (fun l => (l_index l, l_refindex l)) (flat_map i_backlinks items)).
Proof.
  intros H. destruct (footnotes_spec _ _ _ _ H) as [rs [count [Hc [_ [_ [Hidx Hbl]]]]]].
  apply nodup_flat.
  - rewrite Hidx. apply zseq_NoDup.
  - intros it Hit. rewrite (Hbl it Hit). split; [apply backlinks_nodup|].
    intros p Hp. now apply backlinks_fst in Hp.
Qed.

(* a definition that is never referenced produces no item: there are exactly as many items as
   distinct referenced definitions, and each item's index is the index of some reference *)
Theorem unreferenced_silent defs refs links items it : footnotes defs refs = (links, items) -> In it items ->
  exists l, In l links /\ l_index l = i_index it.
Proof.
  intros H Hit. destruct (footnotes_spec _ _ _ _ H) as [rs [count [Hc [-> [Hrs [Hidx _]]]]]].
  assert (Hi : In (i_index it) (map i_index items)) by now apply in_map.
  rewrite Hidx in Hi. apply in_zseq in Hi.
  assert (Hin : In (i_index it) rs) by (apply Hrs; lia).
  rewrite <- (number_links_index rs rs []) in Hin. apply in_map_iff in Hin.
  destruct Hin as [l [Hl Hin]]. exists l. auto.
Qed.

(* ---------- ids ---------- *)
Lemma zdec_nonneg z : 0 <= z -> zdec z = dec (Z.to_N z).
Proof. intros Hz. unfold zdec. destruct (Z.ltb_spec z 0) as [Hbad|_]; [lia|reflexivity]. Qed.

Lemma dec_no_colon n : ~ In 58%N (dec n).
Proof.
  intros H. pose proof (dec_charset n) as Hc. rewrite forallb_forall in Hc.
  apply Hc in H. vm_compute in H. discriminate H.
Qed.

Lemma dec_nonempty n : n <> 0%N -> dec n <> [].
Proof.
  intros Hn H. pose proof (dec_value n) as Hv. rewrite H in Hv. unfold value in Hv.
  cbn [fold_left] in Hv. congruence.
Qed.

Lemma zdec_injective i j : 0 <= i -> 0 <= j -> zdec i = zdec j -> i = j.
Proof.
  intros Hi Hj H. rewrite !zdec_nonneg in H by assumption. apply dec_injective in H. lia.
Qed.

Lemma split_first (c : N) A : forall A' B B', ~ In c A -> ~ In c A' ->
  A ++ c :: B = A' ++ c :: B' -> A = A' /\ B = B'.
Proof.
  induction A as [|a A IH]; intros [|a' A'] B B' H1 H2 H; cbn [app] in H.
  - injection H as ->. auto.
  - injection H as <- _. exfalso. apply H2. now left.
  - injection H as -> _. exfalso. apply H1. now left.
  - injection H as -> H. destruct (IH A' B B') as [-> ->]; [| |exact H|auto].
    + intros Hc. apply H1. now right.
    + intros Hc. apply H2. now right.
Qed.

Lemma prefix_no_colon k : 0 <= k -> ~ In 58%N (if 0 <? k then zdec k else []).
Proof.
  intros Hk. destruct (0 <? k); [|intros []]. rewrite zdec_nonneg by exact Hk. apply dec_no_colon.
Qed.

(* the generated ids are injective in (index, RefIndex) resp. index, so distinct pairs give distinct ids *)
Theorem ref_id_injective a b : 0 <= l_refindex a -> 0 <= l_refindex b -> 0 < l_index a -> 0 < l_index b ->
  ref_id a = ref_id b -> l_index a = l_index b /\ l_refindex a = l_refindex b.
Proof.
  intros Hka Hkb Hia Hib H. unfold ref_id, fn_ref_id in H.
  apply app_inv_head in H.
  change ([58%N] ++ zdec (l_index a)) with (58%N :: zdec (l_index a)) in H.
  change ([58%N] ++ zdec (l_index b)) with (58%N :: zdec (l_index b)) in H.
  apply split_first in H; [|now apply prefix_no_colon|now apply prefix_no_colon].
  destruct H as [Hk Hi]. split; [apply zdec_injective; [lia|lia|exact Hi]|].
  destruct (Z.ltb_spec 0 (l_refindex a)) as [Hpa|Hza], (Z.ltb_spec 0 (l_refindex b)) as [Hpb|Hzb].
  - apply zdec_injective; [lia|lia|exact Hk].
  - exfalso. rewrite zdec_nonneg in Hk by lia. apply (dec_nonempty (Z.to_N (l_refindex a))); [lia|exact Hk].
  - exfalso. rewrite zdec_nonneg in Hk by lia. symmetry in Hk.
    apply (dec_nonempty (Z.to_N (l_refindex b))); [lia|exact Hk].
  - lia.
Qed.

Theorem item_id_injective i j : 0 <= i -> 0 <= j -> item_id i = item_id j -> i = j.
Proof.
  intros Hi Hj H. unfold item_id in H. apply app_inv_head in H. now apply zdec_injective.
Qed.
