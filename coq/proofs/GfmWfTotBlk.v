(* C01 (block phase of the GFM parser model, model/BlockParseX.v + model/GfmParse.v to_treeX):
   parse_blocks_treeX never panics and never runs out of fuel.  Port of proofs/ParseBlocksTotal.v
   (parse_blocks_total / ParseBlocksTree_total) to the generalised driver with the table paragraph
   transformer.  The proof lives in the helper files proofs/GfmWfTotBlk*.v, a fork of ParseBlocksTotal*.v:
     Defs (heap/context invariants; a Paragraph node is only known to have its lines inside the source, and
     to be detached when it has no line), Spec, St, Shape (LineInv; LastOK tracks the strong property of the
     open paragraph and the lines of the temporary paragraph of a setext heading), Leaf, Leaf2, Cont*, Pair
     (per-parser lemmas), Transform (link reference definitions), Tab (the table paragraph transformer),
     Close (closeBlocks), OpenI (interface), OpenA, OpenB (openBlocks), EachA, Each (the loop over the opened blocks),
     Drive (outer loops, to_treeX).  ParseBlocksTotalReader.v and ParseBlocksTotalLrd.v are used unchanged. *)
Require Import GM.model.Base GM.model.Util GM.model.UtilI GM.model.Reader GM.model.ReaderSpec GM.model.Blocks GM.model.ListItem
               GM.model.LeafBlocks GM.model.CodeBlock GM.model.LinkDest GM.model.Regex GM.model.HtmlWriter
               GM.model.Html GM.model.HtmlSpec GM.model.TableX GM.model.BlockParse GM.model.InlineParse
               GM.model.BlockParseX GM.model.InlineParseX GM.model.GfmParse.
Require Import GM.gen.Tables GM.gen.Regexes.
Require Import GM.proofs.ParseInv GM.proofs.ParseBlocksTotalSpec GM.proofs.ParseBlocksTotal.
Require GM.proofs.GfmWfTotBlkOpenB GM.proofs.GfmWfTotBlkDrive.
From Coq Require Import ZArith Lia List.
Import ListNotations.
Open Scope Z_scope.

Section S.
Variable xc : xcfg.
Variable space_table punct_table : list N.
Variable norm : bytes -> bytes.
Variable re_t1o re_t1c re_t2 re_t3 re_t4 re_t5 re_t6 re_t7 : re.
Variable allowed_tags : list bytes.
(* the white space table marks exactly tab, newline, carriage return and blank (ParseBlocksTotalSpec.v) *)
Hypothesis tbl : TblOK space_table.

Theorem parse_blocks_treeX_total : forall src, bytes_ok src ->
  exists r, parse_blocks_treeX xc space_table punct_table norm re_t1o re_t1c re_t2 re_t3 re_t4 re_t5 re_t6 re_t7 allowed_tags src = Ok r.
Proof.
  intros src _.
  apply (GM.proofs.GfmWfTotBlkDrive.parse_blocks_treeX_ok xc space_table punct_table norm
           re_t1o re_t1c re_t2 re_t3 re_t4 re_t5 re_t6 re_t7 allowed_tags tbl).
  intros src0.
  exact (GM.proofs.GfmWfTotBlkOpenB.open_blocksX_ok (x_table xc) space_table punct_table norm
           re_t1o re_t1c re_t2 re_t3 re_t4 re_t5 re_t6 re_t7 allowed_tags src0 tbl).
Qed.

End S.

(* with the tables and regular expressions of model/GfmI.v ParseTreeX; space_table_ok : TblOK space_table
   is in proofs/ParseBlocksTotal.v *)
Corollary ParseBlocksTreeX_total : forall xc src, bytes_ok src ->
  exists r, parse_blocks_treeX xc space_table punct_table ToLinkReference
              re_htmlBlockType1Open re_htmlBlockType1Close re_htmlBlockType2Open re_htmlBlockType3Open
              re_htmlBlockType4Open re_htmlBlockType5Open re_htmlBlockType6 re_htmlBlockType7 allowed_block_tags src = Ok r.
Proof.
  intros xc src Hb. exact (parse_blocks_treeX_total xc space_table punct_table ToLinkReference
              re_htmlBlockType1Open re_htmlBlockType1Close re_htmlBlockType2Open re_htmlBlockType3Open
              re_htmlBlockType4Open re_htmlBlockType5Open re_htmlBlockType6 re_htmlBlockType7 allowed_block_tags
              space_table_ok src Hb).
Qed.
