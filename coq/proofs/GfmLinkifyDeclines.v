(* C11, Linkify, the mechanism: on a line that contains no ':' and no '@' and nowhere the four
   bytes "www.", the Linkify inline parser of the GFM model (model/InlineParseX.v: linkify_parse,
   the transcription of linkifyParser.Parse) DECLINES - it returns no node, leaves the context
   untouched and the reader where PeekLine left it - whatever the regular expressions, the tables
   and the rest of the state are.  The three conditions are the ones the property names
   ("Linkify without ':', '@' and 'www.'").

   This is the half of Linkify's conservativity that is a theorem; the other half - the driver
   flushes the pending text at every blank because Linkify is registered on the blank trigger, and
   the renderer writes the pieces as it writes the whole - is decided on the implementation by the
   with/without comparison of the C11 check (DESIGN.md 0.6). *)
Require Import GM.model.Base GM.model.Util GM.model.Reader GM.model.ListItem GM.model.Regex GM.model.InlineParse GM.model.InlineParseX.
From Coq Require Import List ZArith NArith Bool Lia.
Import ListNotations.
Open Scope Z_scope.

(* pat occurs somewhere in l *)
Fixpoint has_sub (pat l : bytes) : bool :=
  prefix_of pat l || match l with [] => false | _ :: r => has_sub pat r end.
Definition no_linkify_trigger (line : bytes) : Prop :=
  ~ In 58%N line /\ ~ In 64%N line /\ has_sub domain_www line = false.

Lemma prefix_of_In : forall p s c, In c p -> prefix_of p s = true -> In c s.
Proof.
  induction p as [|a p IH]; intros s c Hc H; [destruct Hc|].
  destruct s as [|b s]; [discriminate|]. cbn [prefix_of] in H.
  apply andb_true_iff in H. destruct H as [Hab Hp]. apply N.eqb_eq in Hab. subst b.
  destruct Hc as [<-|Hc]; [left; reflexivity|right; apply (IH s c Hc Hp)].
Qed.
Lemma no_colon_no_proto line : ~ In 58%N line ->
  prefix_of proto_http line || prefix_of proto_https line || prefix_of proto_ftp line = false.
Proof.
  intros H.
  assert (A : forall p, In 58%N p -> prefix_of p line = false).
  { intros p Hp. destruct (prefix_of p line) eqn:E; [|reflexivity]. exfalso. apply H. exact (prefix_of_In p line 58%N Hp E). }
  rewrite (A proto_http), (A proto_https), (A proto_ftp); [reflexivity| | |]; unfold proto_ftp, proto_https, proto_http; cbn [In]; tauto.
Qed.
Lemma has_sub_head pat l : has_sub pat l = false -> prefix_of pat l = false.
Proof. destruct l; cbn [has_sub]; intros H; apply orb_false_iff in H; tauto. Qed.
Lemma has_sub_tail pat c l : has_sub pat (c :: l) = false -> has_sub pat l = false.
Proof. cbn [has_sub]. intros H. apply orb_false_iff in H. tauto. Qed.

(* nth_byte of a position inside the list is an element of it *)
Lemma nth_byte_In : forall (b : bytes) i, 0 <= i < zlen b -> In (nth_byte b i) b.
Proof.
  intros b i Hi. unfold nth_byte. apply nth_In. unfold zlen in Hi. lia.
Qed.

Section Declines.
Variable punct_table email_table : list N.
Variable re_email_domain re_url re_www : re.

Lemma count_while_range f (l : bytes) : 0 <= count_while f l <= zlen l.
Proof.
  induction l as [|c r IH]; cbn [count_while]; [unfold zlen; simpl; lia|].
  destruct (f c); unfold zlen in *; cbn [length]; lia.
Qed.
(* FindEmailIndex finds nothing in a line without '@' *)
Lemma find_email_index_no_at line : ~ In 64%N line ->
  find_email_index email_table re_email_domain line = -1.
Proof.
  intros H. unfold find_email_index.
  set (i := count_while (fun c => tbit email_table c 1) line).
  destruct (i =? 0) eqn:E0; [reflexivity|].
  destruct (zlen line <=? i) eqn:El; [reflexivity|]. cbn [orb].
  destruct (N.eqb (nth_byte line i) 64) eqn:Ea; [|reflexivity].
  exfalso. apply H. apply N.eqb_eq in Ea. rewrite <- Ea. apply nth_byte_In.
  pose proof (count_while_range (fun c => tbit email_table c 1) line). fold i in H0.
  apply Z.leb_gt in El. lia.
Qed.

Theorem linkify_declines : forall xs parent r line segment,
  i_labels (t_c xs) = None ->
  b_peek_line (t_r xs) = Ok (r, Some line, segment) ->
  line <> [] -> no_linkify_trigger line ->
  linkify_parse punct_table email_table re_email_domain re_url re_www xs parent = Ok (ist_r xs r, None).
Proof.
  intros xs parent r line segment Hl Hp Hne (Hcolon & Hat & Hwww).
  unfold linkify_parse. rewrite Hl, Hp. cbn [bind].
  destruct line as [|c0 tl]; [congruence|].
  set (skip := (N.eqb c0 32 || N.eqb c0 42 || N.eqb c0 95 || N.eqb c0 126 || N.eqb c0 40)%bool).
  set (line' := if skip then tl else c0 :: tl).
  assert (Hc' : ~ In 58%N line').
  { unfold line'. destruct skip; [intros X; apply Hcolon; right; exact X|exact Hcolon]. }
  assert (Ha' : ~ In 64%N line').
  { unfold line'. destruct skip; [intros X; apply Hat; right; exact X|exact Hat]. }
  assert (Hw' : prefix_of domain_www line' = false).
  { unfold line'. destruct skip; [apply has_sub_head; eapply has_sub_tail; exact Hwww|apply has_sub_head; exact Hwww]. }
  rewrite (no_colon_no_proto line' Hc'). rewrite Hw'. cbn [andb match_at_zero].
  destruct (match line' with c :: _ => is_punct punct_table c | [] => false end); [reflexivity|].
  rewrite (find_email_index_no_at line' Ha'). reflexivity.
Qed.

(* inside a link label the parser declines before looking at anything *)
Theorem linkify_declines_in_label : forall xs parent l,
  i_labels (t_c xs) = Some l ->
  linkify_parse punct_table email_table re_email_domain re_url re_www xs parent = Ok (xs, None).
Proof. intros xs parent l H. unfold linkify_parse. rewrite H. reflexivity. Qed.
End Declines.

(* non-vacuity, and the converse direction on examples: the three triggers are what it takes *)
Example no_trigger_example : no_linkify_trigger [97;32;119;119;119;32;98;46;99]%N.   (* "a www b.c" *)
Proof. unfold no_linkify_trigger. cbn [In]. repeat split; try (intros H; repeat destruct H as [H|H]; try discriminate H; exact H). Qed.
Example trigger_www : has_sub domain_www [97;32;119;119;119;46;98]%N = true.          (* "a www.b" *)
Proof. reflexivity. Qed.

(* ---------- the tree-level statement is false ----------
   With Linkify on, parseBlock flushes the pending text whenever it meets a blank (the parser is
   registered on the blank trigger), and the pieces are merged only sometimes: "a b c" has one
   Text node without Linkify and two with it, although the parser never accepts.  The rendering
   is the same.  So conservativity of Linkify can only be stated about the output bytes. *)
Require Import GM.model.Html GM.model.GfmI.
Definition with_linkify (xc : xcfg) (b : bool) : xcfg :=
  {| x_strike := x_strike xc; x_task := x_task xc; x_table := x_table xc; x_linkify := b |}.
Definition abc : bytes := [97;32;98;32;99]%N.
Lemma linkify_tree_counterexample :
  no_linkify_trigger abc /\
  (forall xc, ParseTreeX (with_linkify xc true) abc <> ParseTreeX (with_linkify xc false) abc) /\
  (forall xc u x h ta, ConvertModelX (with_linkify xc true) {| unsafe := u; xhtml := x; hardwraps := h; talign := ta |} abc
                  = ConvertModelX (with_linkify xc false) {| unsafe := u; xhtml := x; hardwraps := h; talign := ta |} abc).
Proof.
  split; [|split].
  - unfold no_linkify_trigger, abc. cbn [In]. repeat split; try (intros H; repeat destruct H as [H|H]; try discriminate H; exact H).
  - intros [[|] [|] [|] l]; unfold with_linkify; cbn [x_strike x_task x_table]; vm_compute; intros H; discriminate H.
  - intros [[|] [|] [|] l] [|] [|] [|] ta; unfold with_linkify; cbn [x_strike x_task x_table]; vm_compute; reflexivity.
Qed.
