(* C11 for the GFM parser model, the passes over the block tree (model/GfmParse.v): to_treeX with
   no tables is to_tree; attach_inlinesX depends on the inline function only pointwise and is
   attach_inlines on a tree of block kinds; table_ast_transform leaves a tree without table
   cells alone. *)
Require Import GM.model.Base GM.model.Util GM.model.Reader GM.model.Regex GM.model.HtmlWriter GM.model.Html
               GM.model.TableX GM.model.BlockParse GM.model.InlineParse GM.model.BlockParseX GM.model.InlineParseX
               GM.model.GfmParse.
Require Import GM.proofs.GfmConservativeDefs.
From Coq Require Import List ZArith NArith Bool Lia.
Import ListNotations.
Open Scope Z_scope.

Lemma tree_ind_kids (P : tree -> Prop) :
  (forall k l a kids, Forall P kids -> P (Node k l a kids)) -> forall t, P t.
Proof.
  intros H. fix IH 1. intros [k l a kids]. apply H.
  revert kids. fix IHk 1. intros [|x r]; constructor; [apply IH | apply IHk].
Qed.

Lemma map_res_ext {A B} (f g : A -> result B) l : (forall x, In x l -> f x = g x) -> map_res f l = map_res g l.
Proof.
  induction l as [|x r IH]; intros H; cbn [map_res]; [reflexivity|].
  rewrite (H x (or_introl eq_refl)). rewrite IH; [reflexivity|]. intros y Hy. apply H. right. exact Hy.
Qed.

Lemma map_res_forall {A B} (P : B -> Prop) (f : A -> result B) : forall l ys,
  (forall x y, In x l -> f x = Ok y -> P y) -> map_res f l = Ok ys -> Forall P ys.
Proof.
  induction l as [|x r IH]; intros ys H E; cbn [map_res] in E.
  - injection E as <-. constructor.
  - gc_bind E y Ey. gc_bind E z Ez. injection E as <-. constructor.
    + apply (H x y (or_introl eq_refl) Ey).
    + apply IH; [|exact Ez]. intros x' y' Hx'. apply H. right. exact Hx'.
Qed.

(* ---------- to_treeX without tables ---------- *)
Lemma to_treeX_nil : forall fuel src h i, to_treeX fuel src h [] i = to_tree fuel src h i.
Proof.
  induction fuel as [|f IH]; intros src h i; cbn [to_treeX to_tree find_table]; [reflexivity|].
  destruct (hget h i) as [n| |]; cbn [bind]; try reflexivity.
  destruct (kind_of src n) as [k| |]; cbn [bind]; try reflexivity.
  rewrite (map_res_ext (to_treeX f src h []) (to_tree f src h)); [reflexivity|]. intros x _. apply IH.
Qed.

(* ---------- kinds ---------- *)
(* the kinds of the block phase of the default parser *)
Definition bkind (k : kind) : Prop :=
  match k with
  | KDocument | KBlockquote | KList _ _ | KListItem | KParagraph | KTextBlock | KHeading _
  | KThematicBreak | KCodeBlock | KFencedCodeBlock _ | KHTMLBlock _ => True
  | _ => False
  end.
Definition not_cell (k : kind) : Prop := match k with KTableCell _ => False | _ => True end.

Inductive kinds_in (P : kind -> Prop) : tree -> Prop :=
| kinds_in_node k l a kids : P k -> Forall (kinds_in P) kids -> kinds_in P (Node k l a kids).

Lemma kinds_in_inv P k l a kids : kinds_in P (Node k l a kids) -> P k /\ Forall (kinds_in P) kids.
Proof. intros H. inversion H; subst. split; assumption. Qed.

Lemma kinds_in_weaken (P Q : kind -> Prop) : (forall k, P k -> Q k) -> forall t, kinds_in P t -> kinds_in Q t.
Proof.
  intros HPQ t. induction t as [k l a kids IH] using tree_ind_kids. intros H.
  apply kinds_in_inv in H as [Hk Hkids]. constructor; [apply HPQ; exact Hk|].
  rewrite Forall_forall in *. intros x Hx. apply IH; [exact Hx|apply Hkids; exact Hx].
Qed.

Lemma bkind_not_cell k : bkind k -> not_cell k.
Proof. destruct k; cbn; auto. Qed.

Lemma kind_of_bkind src n k : kind_of src n = Ok k -> bkind k.
Proof.
  unfold kind_of. intros H. destruct (bk n); try (injection H as <-; exact I).
  destruct (b_seg n) as [sg|].
  - gc_bind H v Ev. injection H as <-. exact I.
  - injection H as <-. exact I.
Qed.

Lemma to_tree_bkinds : forall fuel src h i t, to_tree fuel src h i = Ok t -> kinds_in bkind t.
Proof.
  induction fuel as [|f IH]; intros src h i t H; cbn [to_tree] in H; [discriminate|].
  gc_bind H n En. gc_bind H k Ek. gc_bind H kids Ekids. injection H as <-.
  constructor; [eapply kind_of_bkind; exact Ek|].
  eapply map_res_forall; [|exact Ekids]. intros x y _ Hy. eapply IH. exact Hy.
Qed.

(* ---------- attach_inlinesX ---------- *)
Section Attach.
Variable inl : bool -> list seg -> result (list tree).

Fixpoint attach_list (is_item first : bool) (l : list tree) : result (list tree) :=
  match l with
  | [] => Ok []
  | x :: r => y <- attach_inlinesX inl (first && is_item) x ;; z <- attach_list is_item false r ;; Ok (y :: z)
  end.

Definition is_item_kind (k : kind) : bool := match k with KListItem => true | _ => false end.

Lemma attach_inlinesX_unfold b k lines a kids :
  attach_inlinesX inl b (Node k lines a kids) =
  if has_inlinesX k then (ch <- inl b lines ;; Ok (Node k lines a ch))
  else (kids' <- attach_list (is_item_kind k) true kids ;; Ok (Node k lines a kids')).
Proof.
  cbn [attach_inlinesX]. destruct (has_inlinesX k); [reflexivity|].
  f_equal. fold (is_item_kind k). generalize true as first.
  induction kids as [|x r IH]; intros first; [reflexivity|].
  cbn [attach_list]. rewrite <- IH. reflexivity.
Qed.
End Attach.

(* attach_inlinesX depends on the inline function only pointwise *)
Lemma attach_inlinesX_ext (inl1 inl2 : bool -> list seg -> result (list tree)) :
  (forall b lines, inl1 b lines = inl2 b lines) ->
  forall t b, attach_inlinesX inl1 b t = attach_inlinesX inl2 b t.
Proof.
  intros Hext t. induction t as [k l a kids IH] using tree_ind_kids. intros b.
  rewrite !attach_inlinesX_unfold. destruct (has_inlinesX k); [rewrite Hext; reflexivity|].
  assert (HL : forall first, attach_list inl1 (is_item_kind k) first kids = attach_list inl2 (is_item_kind k) first kids).
  { induction IH as [|x r Hx _ IHr]; intros first; cbn [attach_list]; [reflexivity|].
    rewrite Hx, IHr. reflexivity. }
  rewrite HL. reflexivity.
Qed.

Lemma attach_inlines_unfold inl k lines a kids :
  attach_inlines inl (Node k lines a kids) =
  if has_inlines k then (ch <- inl lines ;; Ok (Node k lines a ch))
  else (kids' <- map_res (attach_inlines inl) kids ;; Ok (Node k lines a kids')).
Proof.
  cbn [attach_inlines]. destruct (has_inlines k); [reflexivity|]. f_equal.
  induction kids as [|x r IH]; [reflexivity|]. cbn [map_res]. rewrite <- IH. reflexivity.
Qed.

Lemma bkind_has_inlines k : bkind k -> has_inlinesX k = has_inlines k.
Proof. destruct k; cbn; intros H; try reflexivity; destruct H. Qed.

(* on a tree of block kinds, with an inline function that ignores in_item: attach_inlines *)
Lemma attach_inlinesX_core (inlX : bool -> list seg -> result (list tree)) (inl : list seg -> result (list tree)) :
  (forall b lines, inlX b lines = inl lines) ->
  forall t b, kinds_in bkind t -> attach_inlinesX inlX b t = attach_inlines inl t.
Proof.
  intros Hext t. induction t as [k l a kids IH] using tree_ind_kids. intros b Hk.
  apply kinds_in_inv in Hk as [Hk Hkids].
  rewrite attach_inlinesX_unfold, attach_inlines_unfold, (bkind_has_inlines k Hk).
  destruct (has_inlines k); [rewrite Hext; reflexivity|].
  assert (HL : forall first, attach_list inlX (is_item_kind k) first kids = map_res (attach_inlines inl) kids).
  { clear Hk. induction IH as [|x r Hx _ IHr]; intros first; cbn [attach_list map_res]; [reflexivity|].
    apply Forall_cons_iff in Hkids as [Hx1 Hr1]. rewrite (Hx _ Hx1), (IHr Hr1). reflexivity. }
  rewrite HL. reflexivity.
Qed.

(* the result has no table cell if the inline function makes none *)
Lemma attach_inlinesX_not_cell (inl : bool -> list seg -> result (list tree)) :
  (forall b lines ts, inl b lines = Ok ts -> Forall (kinds_in not_cell) ts) ->
  forall t b t', kinds_in bkind t -> attach_inlinesX inl b t = Ok t' -> kinds_in not_cell t'.
Proof.
  intros Hinl t. induction t as [k l a kids IH] using tree_ind_kids. intros b t' Hk H.
  apply kinds_in_inv in Hk as [Hk Hkids].
  rewrite attach_inlinesX_unfold in H. destruct (has_inlinesX k).
  - gc_bind H ch Ech. injection H as <-. constructor; [apply bkind_not_cell; exact Hk|]. eapply Hinl. exact Ech.
  - gc_bind H kids' Ek. injection H as <-. constructor; [apply bkind_not_cell; exact Hk|].
    clear Hk. revert kids' Ek. generalize true as first.
    induction IH as [|x r Hx _ IHr]; intros first kids' Ek; cbn [attach_list] in Ek.
    + injection Ek as <-. constructor.
    + apply Forall_cons_iff in Hkids as [Hx1 Hr1]. gc_bind Ek y Ey. gc_bind Ek z Ez. injection Ek as <-.
      constructor; [eapply Hx; [exact Hx1|exact Ey]|eapply IHr; [exact Hr1|exact Ez]].
Qed.

(* ---------- the trees of the inline phase have no table cell ---------- *)
Lemma itreeX_not_cell : forall fuel src h http i t, itreeX fuel src h http i = Ok t -> kinds_in not_cell t.
Proof.
  induction fuel as [|f IH]; intros src h http i t H; cbn [itreeX] in H; [discriminate|].
  gc_bind H n En. gc_bind H kids Ekids. gc_bind H k Ek. injection H as <-.
  constructor.
  - destruct (ik n); try (injection Ek as <-; exact I).
    + injection Ek as <-. destruct (_ =? 0); [exact I|]. destruct (_ =? -1); [exact I|]. destruct (_ =? -2); exact I.
    + gc_bind Ek v Ev. injection Ek as <-. exact I.
  - eapply map_res_forall; [|exact Ekids]. intros x y _ Hy. eapply IH. exact Hy.
Qed.

Lemma kinds_in_children P t : kinds_in P t -> Forall (kinds_in P) (t_children t).
Proof. destruct t as [k l a kids]. intros H. apply kinds_in_inv in H as [_ H]. exact H. Qed.

(* ---------- table_ast_transform on a tree without table cells ---------- *)
Lemma table_ast_transform_unfold_other src k lines a kids : not_cell k ->
  table_ast_transform src (Node k lines a kids) =
  (kids' <- map_res (table_ast_transform src) kids ;; Ok (Node k lines a kids')).
Proof.
  intros Hk.
  assert (E : forall l : list tree,
    (fix go (l : list tree) : result (list tree) :=
       match l with [] => Ok [] | x :: r => y <- table_ast_transform src x ;; z <- go r ;; Ok (y :: z) end) l =
    map_res (table_ast_transform src) l).
  { induction l as [|x r IHl]; [reflexivity|]. cbn [map_res]. rewrite <- IHl. reflexivity. }
  destruct k; try (exfalso; exact Hk); cbn [table_ast_transform]; rewrite E; reflexivity.
Qed.

Lemma map_res_id {A} (f : A -> result A) l : (forall x, In x l -> f x = Ok x) -> map_res f l = Ok l.
Proof.
  induction l as [|x r IH]; intros H; cbn [map_res]; [reflexivity|].
  rewrite (H x (or_introl eq_refl)). cbn [bind]. rewrite IH; [reflexivity|]. intros y Hy. apply H. right. exact Hy.
Qed.

Lemma table_ast_transform_id src : forall t, kinds_in not_cell t -> table_ast_transform src t = Ok t.
Proof.
  intros t. induction t as [k l a kids IH] using tree_ind_kids. intros H.
  apply kinds_in_inv in H as [Hk Hkids].
  rewrite (table_ast_transform_unfold_other src k l a kids Hk).
  rewrite map_res_id; [reflexivity|]. intros x Hx. rewrite Forall_forall in IH, Hkids. apply IH; [exact Hx|apply Hkids; exact Hx].
Qed.
