(* Regenerated fact: every store site of the current source tree (gen/Access.v) is either on a
   per-call object, in a set-up function, or inside a sync.Once.Do closure. *)
Require Import GM.model.Base GM.model.AccessSpec GM.gen.Access.
Lemma accesses_ok_holds : accesses_ok store_sites = true.
Proof. vm_compute. reflexivity. Qed.
